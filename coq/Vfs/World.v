(** The replica as the polling theorems see it: the L0 ledger (transaction [t]
    rewrote the pages [l_pages] and left a database of [l_commit] pages), every
    file of any level being the compaction of a contiguous range of it
    (DESIGN C06 [compact_equiv]: newest version of every page, pages above the
    final commit dropped). *)
From Coq Require Import List NArith Bool Lia.
From LS Require Import Base.PMap Vfs.Index Vfs.Poll Vfs.Restore Vfs.Domain Vfs.PMapFacts.
Import ListNotations.
Open Scope N_scope.

Section World.
Variable lockp : N.
Variable w : ledger.

Definition wlen : N := N.of_nat (length w).
Definition lf (t : N) : lfile := nth (N.to_nat (t - 1)) w (mkL 0 []).
(** database size after transaction [t]; 0 before the first one *)
Definition cm (t : N) : N := if N.eqb t 0 then 0 else l_commit (lf t).
(** transaction [t] wrote page [p] *)
Definition pg (t p : N) : bool := negb (N.eqb t 0) && memN p (l_pages (lf t)).

(** growth-closedness of the ledger (C01's sync lemma, C06): an L0 file holds
    only pages inside its commit and every non-lock page the database grew by *)
Definition gc_world : Prop :=
  forall t, 1 <= t <= wlen ->
    (forall p, pg t p = true -> p <= cm t) /\
    (forall p, cm (t - 1) < p <= cm t -> p <> lockp -> pg t p = true).

Definition is_newest (lo hi p t : N) : Prop :=
  lo <= t <= hi /\ pg t p = true /\ forall u, t < u <= hi -> pg u p = false.

(** [f] is what compacting the L0 files [f_min .. f_max] yields *)
Definition is_compaction (f : file) : Prop :=
  1 <= f_min f /\ f_min f <= f_max f /\ f_max f <= wlen /\
  f_commit f = cm (f_max f) /\
  forall p, memN p (f_pages f) = true <->
            (p <= cm (f_max f) /\ exists t, f_min f <= t <= f_max f /\ pg t p = true).

(** the entry serves, for page [p], the version a restore at [pos] holds *)
Definition entry_good (pos p : N) (e : elem) : Prop :=
  e_max e <= pos /\ exists t, is_newest (e_min e) (e_max e) p t /\ is_newest 1 pos p t.

Definition idx_good (pos : N) (ix : index) : Prop :=
  (forall p e, pm_get p ix = Some e -> p <= cm pos) /\
  (forall p, 1 <= p <= cm pos -> p <> lockp -> exists e, pm_get p ix = Some e /\ entry_good pos p e).

(** a VFS file between polls, no reader inside a transaction *)
Definition good (v : vfs) : Prop :=
  v_lock v = LockNone /\ v_pending v = [] /\ v_pending_replace v = false /\
  v_pos v <= wlen /\ v_max1 v <= v_pos v /\ v_commit v <= cm (v_pos v) /\
  idx_good (v_pos v) (v_index v).

(** no transaction after [a] shrinks the database *)
Definition mono_from (a : N) : Prop := forall t, a <= t -> t < wlen -> cm t <= cm (t + 1).

Lemma mono_le a : mono_from a -> forall x y, a <= x -> x <= y -> y <= wlen -> cm x <= cm y.
Proof.
  intros Hm x y Hax Hxy Hy.
  assert (forall n x, a <= x -> x + N.of_nat n <= wlen -> cm x <= cm (x + N.of_nat n)) as H.
  { induction n as [|n IH]; intros x0 Ha Hl.
    - rewrite N.add_0_r. lia.
    - rewrite Nat2N.inj_succ in *.
      replace (x0 + N.succ (N.of_nat n)) with (x0 + N.of_nat n + 1) by lia.
      specialize (IH x0 Ha ltac:(lia)).
      specialize (Hm (x0 + N.of_nat n) ltac:(lia) ltac:(lia)). lia. }
  specialize (H (N.to_nat (y - x)) x Hax). rewrite N2Nat.id in H.
  replace (x + (y - x)) with y in H by lia. apply H. exact Hy.
Qed.

(** a page of the database at [b] that was not in the database at [a] was
    written by a transaction in between *)
Lemma crossing p : forall n a, cm a < p <= cm (a + N.of_nat n) ->
  exists t, a < t <= a + N.of_nat n /\ cm (t - 1) < p <= cm t.
Proof.
  induction n as [|n IH]; intros a H.
  - rewrite N.add_0_r in H. lia.
  - rewrite Nat2N.inj_succ in *.
    destruct (N.le_gt_cases p (cm (a + N.of_nat n))) as [Hle|Hgt].
    + destruct (IH a ltac:(lia)) as (t & Ht & Hc). exists t. split; [lia|exact Hc].
    + exists (a + N.succ (N.of_nat n)). split; [lia|].
      replace (a + N.succ (N.of_nat n) - 1) with (a + N.of_nat n) by lia. lia.
Qed.

Lemma grown_page_written a b p :
  gc_world -> a <= b -> b <= wlen -> cm a < p <= cm b -> p <> lockp ->
  exists t, a < t <= b /\ pg t p = true.
Proof.
  intros Hgc Hab Hb Hp Hl.
  destruct (crossing p (N.to_nat (b - a)) a) as (t & Ht & Hc).
  { rewrite N2Nat.id. replace (a + (b - a)) with b by lia. exact Hp. }
  rewrite N2Nat.id in Ht. exists t. split; [lia|].
  destruct (Hgc t ltac:(lia)) as (_ & Hg). apply Hg; assumption.
Qed.

(** the newest writer in a finite range exists as soon as there is a writer *)
Lemma newest_exists p lo : forall n hi, hi = lo + N.of_nat n ->
  (exists t, lo <= t <= hi /\ pg t p = true) -> exists t, is_newest lo hi p t.
Proof.
  induction n as [|n IH]; intros hi Hhi (t & Ht & Hp).
  - exists t. split; [exact Ht|]. split; [exact Hp|]. intros u Hu. lia.
  - rewrite Nat2N.inj_succ in Hhi.
    destruct (pg hi p) eqn:Hhp.
    + exists hi. split; [lia|]. split; [exact Hhp|]. intros u Hu; lia.
    + assert (t <> hi) by congruence.
      destruct (IH (lo + N.of_nat n) eq_refl) as (t' & (Hr & Hp' & Hn)).
      { exists t. split; [lia|exact Hp]. }
      exists t'. split; [lia|]. split; [exact Hp'|].
      intros u Hu. destruct (N.eq_dec u hi) as [->|]; [exact Hhp|]. apply Hn. lia.
Qed.

Lemma newest_exists' p lo hi :
  (exists t, lo <= t <= hi /\ pg t p = true) -> exists t, is_newest lo hi p t.
Proof.
  intros (t & Ht & Hp). apply (newest_exists p lo (N.to_nat (hi - lo)) hi).
  - rewrite N2Nat.id. lia.
  - exists t; auto.
Qed.

Lemma is_newest_unique lo hi p t t' : is_newest lo hi p t -> is_newest lo hi p t' -> t = t'.
Proof.
  intros (Hr & Hp & Hn) (Hr' & Hp' & Hn').
  destruct (N.lt_trichotomy t t') as [H|[H|H]]; [|exact H|].
  - rewrite Hn in Hp'; [discriminate|lia].
  - rewrite Hn' in Hp; [discriminate|lia].
Qed.

(** widening the range downwards / upwards over transactions that do not write [p] *)
Lemma is_newest_widen lo lo' hi hi' p t :
  is_newest lo hi p t -> lo' <= lo -> hi <= hi' ->
  (forall u, hi < u <= hi' -> pg u p = false) -> is_newest lo' hi' p t.
Proof.
  intros (Hr & Hp & Hn) Hlo Hhi Hq. split; [lia|]. split; [exact Hp|].
  intros u Hu. destruct (N.le_gt_cases u hi); [apply Hn; lia|apply Hq; lia].
Qed.

Lemma pg_zero p : pg 0 p = false.
Proof. reflexivity. Qed.

Lemma pg_beyond t p : wlen < t -> pg t p = false.
Proof.
  intros H. unfold pg, lf. rewrite nth_overflow; [apply andb_false_r|].
  unfold wlen in H. lia.
Qed.

End World.
