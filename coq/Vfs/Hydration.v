(** The hydrated local copy as a second source of page bytes (/repo/vfs.go
    Hydrator 568, runHydration 1302, the hydrated branch of ReadAt 1458,
    ApplyUpdates at the end of pollReplicaClient 2615, Disable in SetTargetTime
    1179).

    State added to Vfs/TimeTravel.v: [h_on] — Hydrator.Complete(), i.e. ReadAt
    serves from the hydrated file — and [h_img], a ghost image recording for
    every page of the hydrated file which file version was last written there
    (the bytes themselves are compared by the harness).

    Abstractions.  [HDone] (runHydration reaching SetComplete) records the image
    as the versions the index serves at that moment: Restore(plan) + CatchUp
    bring the file to the position of the index (for pages inside the commit
    this is [vfs_open_refines_restore]).  Polls racing with the hydration
    goroutine, and hydration completing while a target time is set (the Go code
    has no guard there: SetTargetTime only disables a hydrator that is already
    complete), are outside the model; the harness waits for completion before
    it starts a schedule. *)
From Coq Require Import List NArith Bool Lia.
From LS Require Import Base.PMap Vfs.Index Vfs.Poll Vfs.TimeTravel.
Import ListNotations.
Open Scope N_scope.

Record hvfs := mkH { h_t : tvfs; h_on : bool; h_img : index }.

Inductive hop := HDone | HOp (o : op).

(** the index a reader sees once the pending index has been moved in *)
Definition effective (v : vfs) : index :=
  if v_pending_replace v then v_pending v else pm_union (v_index v) (v_pending v).

(** the [combined] map of pollReplicaClient (same computation as [Poll.poll]) *)
Definition poll_combined (v : vfs) (l0 l1 : list file) : option index :=
  match poll_level 0 l0 (v_pos v) (v_commit v) with
  | PLErr => None
  | PLOk _ idx0 commit0 replace0 =>
      let baseCommit := if replace0 then commit0
                        else if negb (is_empty idx0) then commit0 else v_commit v in
      let combined := if replace0 then idx0 else pm_union [] idx0 in
      match poll_level 1 l1 (v_max1 v) baseCommit with
      | PLErr => None
      | PLOk _ idx1 _ replace1 => Some (if replace1 then idx1 else pm_union combined idx1)
      end
  end.

Definition hstep (s : hvfs) (o : hop) : option hvfs :=
  match o with
  | HDone =>
      if t_target (h_t s) then None                      (* outside the model, see above *)
      else Some (mkH (h_t s) true (effective (t_v (h_t s))))
  | HOp o =>
      match tstep (h_t s) o with
      | None => None
      | Some t' =>
          match o with
          | OPoll l0 l1 =>
              if t_target (h_t s) then Some (mkH t' (h_on s) (h_img s))
              else match poll_combined (t_v (h_t s)) l0 l1 with
                   | None => None
                   | Some c =>
                       (* "if f.hydrator != nil && f.hydrator.Complete() && len(combined) > 0" *)
                       Some (mkH t' (h_on s)
                                 (if h_on s && negb (is_empty c) then pm_union (h_img s) c else h_img s))
                   end
          | OSetTarget _ => Some (mkH t' false (h_img s))    (* Disable() when complete *)
          | _ => Some (mkH t' (h_on s) (h_img s))            (* Lock, Unlock, ResetTime: untouched *)
          end
      end
  end.

Definition hstep_total (s : hvfs) (o : hop) : hvfs :=
  match hstep s o with Some s' => s' | None => s end.
Definition hrun (s : hvfs) (ops : list hop) : hvfs := fold_left hstep_total ops s.

(** the version ReadAt serves for page [pgno] *)
Definition hread (s : hvfs) (pgno : N) : option elem :=
  if h_on s then pm_get pgno (h_img s) else read_lookup (t_v (h_t s)) pgno.
