(** The domain on which polling is proved correct (Proofs.v), as decidable tests
    on the inputs of one poll.  The same tests attribute a failing poll observed
    on the implementation to one of the refuted cases. *)
From Coq Require Import List NArith Bool Lia.
From LS Require Import Base.PMap Vfs.Index Vfs.Poll Vfs.Restore.
Import ListNotations.
Open Scope N_scope.

(** the file holds every page 1..commit except the lock page (a snapshot, a
    VACUUM, or a compaction containing one) *)
Definition is_full (lockp : N) (f : file) : bool :=
  forallb (fun p => memN p (f_pages f)) (db_pages (f_commit f) lockp).

(** the files pollLevel consumes: the contiguous run starting at maxTXID+1 *)
Fixpoint polled (files : list file) (maxTXID : N) : list file :=
  match files with
  | [] => []
  | info :: tl =>
      if N.eqb (f_min info) (maxTXID + 1) then info :: polled tl (f_max info) else []
  end.

(** some consumed file has a commit below its predecessor's (pollLevel's
    replace rule fires) without being full *)
Fixpoint shrink_nonfull (lockp : N) (lastCommit : N) (fs : list file) : bool :=
  match fs with
  | [] => false
  | f :: tl =>
      (N.ltb (f_commit f) lastCommit && negb (is_full lockp f)) || shrink_nonfull lockp (f_commit f) tl
  end.

Definition last_max (fs : list file) (d : N) : N :=
  match fs with [] => d | _ => f_max (last fs (mkFile 0 0 0 0 [])) end.

Record poll_flags := mkFlags {
  fl_shrink_l0 : bool;     (* L0: replace rule fired on a file that is not full *)
  fl_stale_l1 : bool;      (* an L1 file was consumed and L1 ends below max(pos, maxTXID0) *)
  fl_shrink_l1 : bool }.   (* L1: replace rule fired on a file that is not full *)

Definition poll_domain (lockp : N) (v : vfs) (l0 l1 : list file) : poll_flags :=
  let p0 := polled (ltx_files l0 (v_pos v + 1)) (v_pos v) in
  let p1 := polled (ltx_files l1 (v_max1 v + 1)) (v_max1 v) in
  let max0 := last_max p0 (v_pos v) in
  let base1 :=
      match poll_level 0 l0 (v_pos v) (v_commit v) with
      | PLOk _ idx0 commit0 replace0 =>
          if replace0 then commit0 else if negb (is_empty idx0) then commit0 else v_commit v
      | PLErr => v_commit v
      end in
  mkFlags (shrink_nonfull lockp (v_commit v) p0)
          (negb (match p1 with [] => true | _ => false end) &&
           N.ltb (last_max p1 (v_max1 v)) (N.max (v_pos v) max0))
          (shrink_nonfull lockp base1 p1).

Definition in_poll_domain (lockp : N) (v : vfs) (l0 l1 : list file) : bool :=
  let fl := poll_domain lockp v l0 l1 in
  negb (fl_shrink_l0 fl) && negb (fl_stale_l1 fl) && negb (fl_shrink_l1 fl).

(** an L1 file starts at or below the file's L1 position and ends beyond it:
    LTXFiles' seek (minTXID >= maxTXID1 + 1) hides it from every poll, and the
    next L1 file fails pollLevel's contiguity test, so the poll can never move
    entries that point into L0 files over to L1 (Go: maxTXID1 seeded from pos by
    rebuildIndex when the plan holds no L1 file) *)
Definition l1_straddles (v : vfs) (l1 : list file) : bool :=
  existsb (fun f => N.leb (f_min f) (v_max1 v) && N.ltb (v_max1 v) (f_max f)) l1.

(** open: FileSize is the largest indexed page, so it is the restored size only
    when no file of the plan has a larger commit than the last one *)
Definition open_size_domain (infos : list file) : bool :=
  let c := f_commit (last infos (mkFile 0 0 0 0 [])) in
  forallb (fun f => N.leb (f_commit f) c) infos.
