(** Facts about [Base.PMap] association lists needed by the VFS proofs:
    membership, largest key, lookups in an overlay. *)
From Coq Require Import List NArith Bool Lia.
From LS Require Import Base.PMap Vfs.Index.
Import ListNotations.
Open Scope N_scope.

Section Facts.
Context {V : Type}.
Implicit Types m l : pmap V.

Lemma pm_get_in k v m : pm_get k m = Some v -> In (k, v) m.
Proof.
  induction m as [|[k1 v1] tl IH]; cbn [pm_get]; [discriminate|].
  destruct (N.eqb_spec k k1); intros H.
  - inversion H; subst. left; reflexivity.
  - right. auto.
Qed.

Lemma in_pm_get k v m : In (k, v) m -> exists v', pm_get k m = Some v'.
Proof.
  induction m as [|[k1 v1] tl IH]; intros Hin; [destruct Hin|].
  cbn [pm_get]. destruct (N.eqb_spec k k1); [eexists; reflexivity|].
  destruct Hin as [E|Hin]; [inversion E; congruence|auto].
Qed.
End Facts.

(** largest key *)
Lemma max_key_ge (m : index) k e : pm_get k m = Some e -> k <= max_key m.
Proof.
  induction m as [|[k1 v1] tl IH]; cbn [pm_get max_key]; [discriminate|].
  destruct (N.eqb_spec k k1); intros H; [subst; lia|].
  specialize (IH H). lia.
Qed.

Lemma max_key_le (m : index) b : (forall k e, pm_get k m = Some e -> k <= b) -> max_key m <= b.
Proof.
  intros H. assert (forall k e, In (k, e) m -> k <= b) as Hin.
  { intros k e Hi. destruct (in_pm_get k e m Hi) as [e' He']. eapply H; eassumption. }
  clear H. induction m as [|[k1 v1] tl IH]; cbn [max_key]; [lia|].
  assert (k1 <= b) by (apply (Hin k1 v1); left; reflexivity).
  assert (max_key tl <= b) by (apply IH; intros k e Hi; apply (Hin k e); right; assumption).
  lia.
Qed.

(** lookups in the page index of one file and in an overlay *)
Lemma pm_get_file_index (f : file) p :
  pm_get p (file_index f) = if existsb (N.eqb p) (f_pages f) then Some (elem_of f) else None.
Proof.
  unfold file_index. induction (f_pages f) as [|q tl IH]; cbn [map pm_get existsb]; [reflexivity|].
  rewrite IH. destruct (N.eqb p q); reflexivity.
Qed.

Lemma pm_get_overlay ix f p :
  pm_get p (overlay ix f) = if existsb (N.eqb p) (f_pages f) then Some (elem_of f) else pm_get p ix.
Proof.
  unfold overlay. rewrite pm_get_union, pm_get_file_index.
  destruct (existsb (N.eqb p) (f_pages f)); reflexivity.
Qed.
