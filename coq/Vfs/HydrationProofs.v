(** C18 with hydration: reads served from the hydrated file are the versions
    the index serves — on every schedule of hydrate-complete, Lock, Unlock,
    Poll, SetTargetTime, and ResetTime while hydrated reads are off; refuted for
    ResetTime while hydrated reads are on. *)
From Coq Require Import List NArith Bool Lia.
From LS Require Import Base.PMap Vfs.Index Vfs.Poll Vfs.TimeTravel Vfs.Hydration.
Import ListNotations.
Open Scope N_scope.

(** outside a read transaction nothing is staged *)
Definition WF (v : vfs) : Prop :=
  N.ltb (v_lock v) LockShared = true -> v_pending v = [] /\ v_pending_replace v = false.

Definition agrees (img : index) (v : vfs) : Prop :=
  forall p e, pm_get p (effective v) = Some e -> pm_get p img = Some e.

Definition HInv (s : hvfs) : Prop :=
  WF (t_v (h_t s)) /\ (h_on s = true -> agrees (h_img s) (t_v (h_t s))).

Lemma leb_ltb_shared l : N.leb LockShared l = false -> N.ltb l LockShared = true.
Proof. intros H. apply N.leb_gt in H. apply N.ltb_lt. exact H. Qed.

Ltac lookups :=
  repeat rewrite pm_get_union; cbn [pm_get];
  repeat match goal with
         | |- context [match pm_get ?p ?m with _ => _ end] => destruct (pm_get p m)
         end;
  intros; auto; try discriminate; try (left; assumption); try (right; split; [reflexivity|assumption]).

Lemma poll_effect v l0 l1 v' :
  WF v -> poll v l0 l1 = Some v' ->
  exists c, poll_combined v l0 l1 = Some c /\ WF v' /\
    forall p e, pm_get p (effective v') = Some e ->
                pm_get p c = Some e \/ (pm_get p c = None /\ pm_get p (effective v) = Some e).
Proof.
  intros Hwf Hp. unfold poll in Hp. unfold poll_combined.
  destruct (poll_level 0 l0 (v_pos v) (v_commit v)) as [m0 idx0 c0 r0|]; [|discriminate].
  match type of Hp with context [poll_level 1 l1 (v_max1 v) ?b] =>
    destruct (poll_level 1 l1 (v_max1 v) b) as [m1 idx1 c1 r1|] end; [|discriminate].
  eexists. split; [reflexivity|].
  destruct (N.leb LockShared (v_lock v)) eqn:Hsh.
  - (* a reader holds SHARED: staged in pending *)
    assert (N.ltb (v_lock v) LockShared = false) as Hnl.
    { apply N.leb_le in Hsh. apply N.ltb_ge. exact Hsh. }
    destruct r0, r1; cbn [negb andb] in Hp; inversion Hp; subst v'; clear Hp;
      (split; [intros H; cbn [v_lock] in H; congruence|]);
      intros p e; unfold effective; cbn [v_pending_replace v_pending v_index];
      try destruct (v_pending_replace v); lookups.
  - (* no reader: applied to the main index *)
    destruct (Hwf (leb_ltb_shared _ Hsh)) as (Hpe & Hpr).
    destruct r0, r1; cbn [negb andb] in Hp; inversion Hp; subst v'; clear Hp;
      (split; [intros _; cbn [v_pending v_pending_replace]; rewrite ?Hpe, ?Hpr; split; reflexivity|]);
      intros p e; unfold effective; cbn [v_pending_replace v_pending v_index]; rewrite ?Hpe, ?Hpr; lookups.
Qed.

Lemma lock_effect v e v' : WF v -> lock v e = Some v' -> WF v' /\ effective v' = effective v.
Proof.
  unfold lock. destruct (N.ltb e (v_lock v)) eqn:H1; [discriminate|].
  destruct (N.leb LockReserved e); [discriminate|]. intros Hwf E; inversion E; subst; clear E.
  split; [|reflexivity]. intros H. cbn [v_lock v_pending v_pending_replace] in *.
  apply Hwf. apply N.ltb_ge in H1. apply N.ltb_lt in H. apply N.ltb_lt. unfold LockShared in *. lia.
Qed.

Lemma unlock_effect v e v' :
  unlock v e = Some v' -> WF v' /\ forall p, pm_get p (effective v') = pm_get p (effective v).
Proof.
  unfold unlock. destruct (negb (N.eqb e LockShared) && negb (N.eqb e LockNone)); [discriminate|].
  intros E; inversion E; subst; clear E. split; [intros _; split; reflexivity|].
  intros p. unfold effective. cbn [v_pending_replace v_pending v_index pm_union fold_right].
  destruct (v_pending_replace v); [reflexivity|].
  destruct (v_pending v) as [|x tl]; reflexivity.
Qed.

Lemma rebuild_wf v plan : WF (rebuild v plan).
Proof.
  intros _. unfold rebuild, rebuild_index. destruct (build_index_map plan [] 0). split; reflexivity.
Qed.

Definition is_reset (o : hop) : bool := match o with HOp (OReset _) => true | _ => false end.

Lemma hstep_preserves s o s' :
  HInv s -> hstep s o = Some s' -> (is_reset o = true -> h_on s = false) -> HInv s'.
Proof.
  intros (Hwf & Hag) Hs Hres. destruct o as [|o]; cbn [hstep] in Hs.
  - destruct (t_target (h_t s)); [discriminate|]. inversion Hs; subst; clear Hs.
    split; [exact Hwf|]. intros _ p e H. exact H.
  - destruct (tstep (h_t s) o) as [t'|] eqn:Ht; [|discriminate].
    destruct o as [e|e|l0 l1|plan|plan]; cbn [tstep] in Ht.
    + destruct (lock (t_v (h_t s)) e) as [v'|] eqn:E; [|discriminate].
      inversion Ht; subst t'; inversion Hs; subst s'; clear Ht Hs. unfold HInv; cbn [h_t h_on h_img t_v].
      destruct (lock_effect _ _ _ Hwf E) as (Hwf' & Heq). split; [exact Hwf'|].
      intros Hon p e0. rewrite Heq. exact (Hag Hon p e0).
    + destruct (unlock (t_v (h_t s)) e) as [v'|] eqn:E; [|discriminate].
      inversion Ht; subst t'; inversion Hs; subst s'; clear Ht Hs. unfold HInv; cbn [h_t h_on h_img t_v].
      destruct (unlock_effect _ _ _ E) as (Hwf' & Heq). split; [exact Hwf'|].
      intros Hon p e0. rewrite Heq. exact (Hag Hon p e0).
    + destruct (poll (t_v (h_t s)) l0 l1) as [v'|] eqn:E; [|discriminate].
      destruct (t_target (h_t s)) eqn:Htt.
      * inversion Ht; subst t'; inversion Hs; subst s'; clear Ht Hs. split; assumption.
      * inversion Ht; subst t'; clear Ht.
        destruct (poll_effect _ _ _ _ Hwf E) as (c & Hc & Hwf' & Heff). rewrite Hc in Hs.
        inversion Hs; subst s'; clear Hs. unfold HInv; cbn [h_t h_on h_img t_v]. split; [exact Hwf'|].
        intros Hon p e0 He. rewrite Hon. cbn [andb].
        destruct (Heff p e0 He) as [Hin|(Hnone & Hold)].
        -- destruct c as [|x tl]; [discriminate Hin|]. cbn [is_empty negb].
           rewrite pm_get_union, Hin. reflexivity.
        -- destruct (negb (is_empty c)); [rewrite pm_get_union, Hnone|]; exact (Hag Hon p e0 Hold).
    + destruct plan as [|f tl]; [discriminate|]. inversion Ht; subst t'; inversion Hs; subst s'; clear Ht Hs.
      unfold HInv; cbn [h_t h_on h_img t_v]. split; [apply rebuild_wf|discriminate].
    + destruct plan as [|f tl]; [discriminate|]. inversion Ht; subst t'; inversion Hs; subst s'; clear Ht Hs.
      unfold HInv; cbn [h_t h_on h_img t_v]. split; [apply rebuild_wf|]. rewrite (Hres eq_refl). discriminate.
Qed.

(** a schedule never calls ResetTime while reads are served from the hydrated file *)
Fixpoint safe (s : hvfs) (ops : list hop) : Prop :=
  match ops with
  | [] => True
  | o :: tl => (is_reset o = true -> h_on s = false) /\ safe (hstep_total s o) tl
  end.

(** On every such schedule — hydration completing, any Lock / Unlock, polls
    applied to the main or to the pending index with or without the replace
    rule, SetTargetTime suspending hydrated reads — the hydrated file holds, for
    every page the (effective) index serves, exactly that version. *)
Theorem hydrated_image_agrees_with_index : forall ops s,
  HInv s -> safe s ops -> HInv (hrun s ops).
Proof.
  induction ops as [|o tl IH]; intros s Hinv Hsafe; [exact Hinv|].
  destruct Hsafe as (Ho & Htl). unfold hrun. cbn [fold_left]. apply IH; [|exact Htl].
  unfold hstep_total. destruct (hstep s o) as [s'|] eqn:E; [|exact Hinv].
  eapply hstep_preserves; eassumption.
Qed.

(** hence ReadAt with hydration on serves what ReadAt with hydration off serves
    (which the open / poll / time-travel theorems relate to the restore) *)
Corollary hydrated_read_is_index_read s ops p e :
  HInv s -> safe s ops ->
  let s' := hrun s ops in
  N.ltb (v_lock (t_v (h_t s'))) LockShared = true ->
  read_lookup (t_v (h_t s')) p = Some e -> hread s' p = Some e.
Proof.
  intros Hinv Hsafe s' Hl Hr.
  destruct (hydrated_image_agrees_with_index ops s Hinv Hsafe) as (Hwf & Hag). fold s' in Hwf, Hag.
  unfold hread. destruct (h_on s') eqn:Hon; [|exact Hr].
  apply (Hag eq_refl). destruct (Hwf Hl) as (Hp & Hrp). unfold effective. rewrite Hrp, Hp. exact Hr.
Qed.

(** the initial state of every file satisfies the invariant (hydration off) *)
Lemma HInv_open plan : HInv (mkH (mkT (vfs_open_model plan) false) false []).
Proof.
  split; [|discriminate]. intros _. unfold vfs_open_model, rebuild_index.
  destruct (build_index_map plan [] 0). split; reflexivity.
Qed.

(** a non-trivial schedule inside the theorem: hydrate, poll a growing
    transaction under a read lock, unlock, time travel, reset *)
Example hydration_example :
  let f1 := mkFile 0 1 1 2 [1; 2] in
  let f2 := mkFile 0 2 2 3 [1; 3] in
  let s0 := mkH (mkT (vfs_open_model [f1]) false) false [] in
  let ops := [HDone; HOp (OLock 1); HOp (OPoll [f1; f2] []); HOp (OUnlock 0);
              HOp (OSetTarget [f1]); HOp (OReset [f1; f2])] in
  safe s0 ops /\
  h_img (hrun s0 [HDone; HOp (OLock 1); HOp (OPoll [f1; f2] [])]) =
    [(1, mkElem 0 2 2); (2, mkElem 0 1 1); (3, mkElem 0 2 2)] /\
  h_on (hrun s0 ops) = false /\ hread (hrun s0 ops) 1 = Some (mkElem 0 2 2).
Proof.
  cbv zeta. split; [vm_compute; repeat split; try exact I; intros H; first [discriminate H | reflexivity]|].
  repeat split; vm_compute; reflexivity.
Qed.

(** ResetTime while hydrated reads are on: rebuildIndex jumps the position to
    the latest TXID, nothing applies the skipped transactions to the hydrated
    file, and ReadAt serves the old version of page 1 at the new position
    (PRAGMA litestream_time = LATEST on a hydrated file that is not time
    travelling; a change that resumes hydrated reads in ResetTime has the same
    effect after time travel). *)
Theorem reset_while_hydrated_refuted :
  exists s plan s',
    HInv s /\ h_on s = true /\ hstep s (HOp (OReset plan)) = Some s' /\
    v_pos (t_v (h_t s')) = 2 /\
    read_lookup (t_v (h_t s')) 1 = Some (mkElem 0 2 2) /\
    hread s' 1 = Some (mkElem 0 1 1) /\ ~ HInv s'.
Proof.
  set (f1 := mkFile 0 1 1 2 [1; 2]). set (f2 := mkFile 0 2 2 2 [1]).
  exists (hstep_total (mkH (mkT (vfs_open_model [f1]) false) false []) HDone), [f1; f2].
  eexists. split.
  { apply (hstep_preserves (mkH (mkT (vfs_open_model [f1]) false) false []) HDone);
      [apply (HInv_open [f1])|reflexivity|intros H; discriminate H]. }
  split; [reflexivity|]. split; [vm_compute; reflexivity|].
  split; [reflexivity|]. split; [reflexivity|]. split; [reflexivity|].
  intros (_ & H). specialize (H eq_refl 1 (mkElem 0 2 2) eq_refl). vm_compute in H. discriminate.
Qed.
