(** C18, open time: the index built from a restore plan refines the restore of
    that plan. *)
From Coq Require Import List NArith Bool Lia.
From LS Require Import Base.PMap Vfs.Index Vfs.Poll Vfs.Restore Vfs.Domain Vfs.PMapFacts.
Import ListNotations.
Open Scope N_scope.

(** Growth-closedness of a chain of files (DESIGN C06): every file holds only
    pages inside its commit, and every non-lock page in (commit(prev), commit].
    With [prev = 0] the first file is a full snapshot. *)
Fixpoint gc_chain (lockp prev : N) (fs : list file) : Prop :=
  match fs with
  | [] => True
  | f :: tl =>
      (forall p, memN p (f_pages f) = true -> p <= f_commit f) /\
      (forall p, prev < p <= f_commit f -> p <> lockp -> memN p (f_pages f) = true) /\
      gc_chain lockp (f_commit f) tl
  end.

Lemma pm_get_map_tag {V} (tag : V) (P : list N) p :
  pm_get p (map (fun q => (q, tag)) P) = if memN p P then Some tag else None.
Proof.
  unfold memN. induction P as [|q tl IH]; cbn [map pm_get existsb]; [reflexivity|].
  rewrite IH. destruct (N.eqb p q); reflexivity.
Qed.

Lemma pm_get_apply {V} (img : image V) c P (tag : V) p :
  pm_get p (snd (apply img c P tag)) =
  if N.leb p c then (if memN p P then Some tag else pm_get p (snd img)) else None.
Proof.
  unfold apply. cbn [snd].
  rewrite (pm_get_filter_key (fun k => N.leb k c)).
  destruct (N.leb p c); [|reflexivity].
  rewrite pm_get_union, pm_get_map_tag. destruct (memN p P); reflexivity.
Qed.

Section Open.
Variable lockp : N.

(** index and image agree on every page of a database of [c] pages *)
Definition agree (c : N) (ix : index) (img : image elem) : Prop :=
  fst img = c /\
  forall p, 1 <= p <= c -> p <> lockp ->
    exists e, pm_get p ix = Some e /\ pm_get p (snd img) = Some e.

Definition last_commit (fs : list file) (c : N) : N :=
  match fs with [] => c | _ => f_commit (last fs (mkFile 0 0 0 0 [])) end.

Lemma last_commit_cons f tl c : last_commit (f :: tl) c = last_commit tl (f_commit f).
Proof. destruct tl; reflexivity. Qed.

Lemma build_agree fs : forall c ix img,
  gc_chain lockp c fs -> agree c ix img ->
  let r := build_index_map fs ix c in
  snd r = last_commit fs c /\
  agree (last_commit fs c) (fst r)
        (fold_left (fun img f => apply img (f_commit f) (f_pages f) (elem_of f)) fs img).
Proof.
  induction fs as [|f tl IH]; intros c ix img Hgc Hag; cbn [build_index_map fold_left].
  - cbn. split; [reflexivity|exact Hag].
  - destruct Hgc as (Hb & Hg & Hgc). rewrite last_commit_cons.
    apply IH; [exact Hgc|].
    destruct Hag as (Hc & Hp). split; [reflexivity|].
    intros p Hr Hl. rewrite pm_get_overlay, pm_get_apply.
    replace (N.leb p (f_commit f)) with true by (symmetry; apply N.leb_le; lia).
    change (existsb (N.eqb p) (f_pages f)) with (memN p (f_pages f)).
    destruct (memN p (f_pages f)) eqn:Hm.
    + eexists; split; reflexivity.
    + assert (p <= c) as Hpc.
      { destruct (N.le_gt_cases p c) as [|Hgt]; [assumption|].
        rewrite Hg in Hm; [discriminate|lia|assumption]. }
      apply Hp; [lia|assumption].
Qed.

Lemma agree_empty : agree 0 [] (0, []).
Proof. split; [reflexivity|]. intros p Hp; lia. Qed.

Lemma build_keys b fs : forall ix c,
  (forall f, In f fs -> forall p, memN p (f_pages f) = true -> p <= b) ->
  (forall p e, pm_get p ix = Some e -> p <= b) ->
  forall p e, pm_get p (fst (build_index_map fs ix c)) = Some e -> p <= b.
Proof.
  induction fs as [|f tl IH]; intros ix c Hf Hix; cbn [build_index_map]; [exact Hix|].
  apply IH.
  - intros g Hg. apply Hf. right; exact Hg.
  - intros p e. rewrite pm_get_overlay.
    change (existsb (N.eqb p) (f_pages f)) with (memN p (f_pages f)).
    destruct (memN p (f_pages f)) eqn:Hm; intros H.
    + eapply Hf; [left; reflexivity|exact Hm].
    + eapply Hix; exact H.
Qed.

Lemma gc_chain_bounded fs : forall c, gc_chain lockp c fs ->
  forall f, In f fs -> forall p, memN p (f_pages f) = true -> p <= f_commit f.
Proof.
  induction fs as [|g tl IH]; intros c Hgc f Hin; [destruct Hin|].
  destruct Hgc as (Hb & _ & Hgc). destruct Hin as [<-|Hin]; [exact Hb|].
  eapply IH; eassumption.
Qed.

Lemma last_commit_last fs c : fs <> [] -> last_commit fs c = f_commit (last fs (mkFile 0 0 0 0 [])).
Proof. destruct fs; [congruence|reflexivity]. Qed.

(** vfs.go Open / ResetTime / SetTargetTime on a plan [fs] that is a
    growth-closed chain: the state's commit is the restored size; every page
    of the restored database except the lock page is served from the file the
    restore decodes it from; and FileSize is the restored size when no file of
    the plan has a larger commit than the last one. *)
Theorem open_refines_restore fs :
  gc_chain lockp 0 fs ->
  let v := vfs_open_model fs in
  let img := restore_plan fs in
  fst img = last_commit fs 0 /\
  v_commit v = fst img /\
  (forall p, 1 <= p <= fst img -> p <> lockp ->
     exists e, read_lookup v p = Some e /\ pm_get p (snd img) = Some e) /\
  (open_size_domain fs = true -> fst img <> lockp -> file_size_pages v = fst img).
Proof.
  intros Hgc v img.
  destruct (build_agree fs 0 [] (0, []) Hgc agree_empty) as (Hc & Hfst & Hag).
  unfold v, vfs_open_model, rebuild_index, read_lookup, img, restore_plan.
  destruct (build_index_map fs [] 0) as [ix c] eqn:Hb. cbn [fst snd] in *.
  cbn [v_commit v_index].
  split; [exact Hfst|]. split; [congruence|]. split.
  - intros p Hp Hl. rewrite Hfst in Hp. apply Hag; assumption.
  - intros Hdom Hlock. unfold file_size_pages. cbn [v_index v_pending max_key].
    rewrite N.max_0_r. rewrite Hfst.
    apply N.le_antisymm.
    + apply max_key_le. intros p e Hpe.
      assert (Hk := build_keys (last_commit fs 0) fs [] 0).
      rewrite Hb in Hk. cbn [fst] in Hk. eapply Hk; [| |exact Hpe].
      * intros f Hin q Hq.
        assert (q <= f_commit f) by (eapply gc_chain_bounded; eassumption).
        unfold open_size_domain in Hdom. rewrite forallb_forall in Hdom.
        specialize (Hdom f Hin). apply N.leb_le in Hdom.
        rewrite last_commit_last by (intros ->; destruct Hin). lia.
      * intros q e0; cbn; discriminate.
    + destruct (N.eq_dec (last_commit fs 0) 0) as [->|Hnz]; [lia|].
      destruct (Hag (last_commit fs 0)) as (e & He & _); [lia|congruence|].
      eapply max_key_ge; exact He.
Qed.

End Open.

(** closes the two kinds of goals of a concrete [gc_chain]: membership implies
    the bound, and the (small) range is contained in the page list *)
Ltac gc_member :=
  let p := fresh "p" in let H := fresh "H" in
  intros p H; unfold memN in H; cbn [existsb f_pages f_commit] in H;
  repeat match goal with
         | H : (_ || _)%bool = true |- _ => apply orb_true_iff in H; destruct H
         | H : (N.eqb _ _) = true |- _ => apply N.eqb_eq in H; subst
         | H : false = true |- _ => discriminate H
         end; cbn [f_commit]; lia.
Ltac gc_range n :=
  let p := fresh "p" in let H := fresh "H" in let Hl := fresh "Hl" in
  intros p H Hl; cbn [f_commit] in H;
  let rec go k :=
    lazymatch k with
    | O => exfalso; lia
    | S ?k' => destruct (N.eq_dec p (N.of_nat k)) as [->|?]; [try reflexivity; exfalso; cbn in *; lia|go k']
    end in go n.
Ltac gc_solve n := cbn [gc_chain]; repeat split; first [gc_member | gc_range n | exact I].

(** The hypotheses are satisfiable by a non-trivial plan: a snapshot of three
    pages, a growing transaction and a compacted file. *)
Example open_example :
  let fs := [mkFile 9 1 2 3 [1; 2; 3]; mkFile 0 3 3 5 [1; 4; 5]; mkFile 1 4 6 5 [2; 5]] in
  gc_chain 1000 0 fs /\ open_size_domain fs = true /\
  v_index (vfs_open_model fs) =
    [(1, mkElem 0 3 3); (2, mkElem 1 4 6); (3, mkElem 9 1 2); (4, mkElem 0 3 3); (5, mkElem 1 4 6)] /\
  file_size_pages (vfs_open_model fs) = 5.
Proof.
  split; [gc_solve 6%nat|]. repeat split; vm_compute; reflexivity.
Qed.

(** Without the size condition the FileSize half is false: a snapshot of three
    pages followed by a transaction that shrinks the database to two pages
    (growth-closed: nothing grows) leaves page 3 in the index. *)
Theorem open_filesize_after_shrink_refuted :
  exists lockp fs,
    gc_chain lockp 0 fs /\ fst (restore_plan fs) <> lockp /\
    file_size_pages (vfs_open_model fs) <> fst (restore_plan fs).
Proof.
  exists 1000, [mkFile 9 1 1 3 [1; 2; 3]; mkFile 0 2 2 2 [1]].
  split; [gc_solve 4%nat|split; vm_compute; discriminate].
Qed.
