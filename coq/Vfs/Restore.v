(** Specification side of C18: what a full restore yields, page by page.

    [apply] is the LTX apply rule of DESIGN C06 (Ltx/Apply.v): the result has
    [commit] pages; page [p] comes from the file if the file holds it, else from
    the old image if it was inside the old image, else it is a hole (zero page).
    An image records for each page *which version* it holds, so two images are
    byte-equal wherever their version tags agree.

    Two instances are used.
    - restore of a plan: the tag is the file of the plan ([elem]) the page is
      decoded from;
    - restore of the L0 ledger [1..pos] (the reference state at a TXID; equal to
      the restore of any valid plan to [pos] by C06 [plan_independent]): the tag
      is the TXID that wrote the version.  [origin] gives the tag of a page
      served from an arbitrary file [min..max]: the newest L0 transaction in the
      range that holds the page (the compactor's newest-wins rule, C06
      [compact_equiv]). *)
From Coq Require Import List NArith Bool Lia.
From LS Require Import Base.PMap Vfs.Index.
Import ListNotations.
Open Scope N_scope.

Section Apply.
Context {V : Type}.
Definition image := (N * pmap V)%type.

Definition apply (img : image) (commit : N) (pages : list N) (tag : V) : image :=
  (commit, pm_filter (fun k _ => N.leb k commit)
                     (pm_union (snd img) (map (fun p => (p, tag)) pages))).
End Apply.
Arguments image : clear implicits.

(** restore of a plan: fold apply over the files in order *)
Definition restore_plan (fs : list file) : image elem :=
  fold_left (fun img f => apply img (f_commit f) (f_pages f) (elem_of f)) fs (0, []).

(** the L0 ledger: entry number t (1-based) is the L0 file t..t *)
Record lfile := mkL { l_commit : N; l_pages : list N }.
Definition ledger := list lfile.

Fixpoint restore_ledger_from (w : ledger) (t : N) (img : image N) : image N :=
  match w with
  | [] => img
  | f :: tl => restore_ledger_from tl (t + 1) (apply img (l_commit f) (l_pages f) t)
  end.

(** the image at TXID [pos] *)
Definition restore_ledger (w : ledger) (pos : N) : image N :=
  restore_ledger_from (firstn (N.to_nat pos) w) 1 (0, []).

Definition memN (p : N) (l : list N) : bool := existsb (N.eqb p) l.

(** newest transaction in [lo..hi] whose L0 file holds page [p] *)
Fixpoint origin_from (w : ledger) (t lo hi p : N) (acc : option N) : option N :=
  match w with
  | [] => acc
  | f :: tl =>
      origin_from tl (t + 1) lo hi p
        (if N.leb lo t && N.leb t hi && memN p (l_pages f) then Some t else acc)
  end.
Definition origin (w : ledger) (e : elem) (p : N) : option N :=
  origin_from w 1 (e_min e) (e_max e) p None.

Definition optN_eqb (a b : option N) : bool :=
  match a, b with
  | Some x, Some y => N.eqb x y
  | None, None => true
  | _, _ => false
  end.

(** verdict for one page of the database at [pos]:
    0 ok | 1 missing from the index | 2 element reaches beyond pos |
    3 version differs from the restored one | 4 restore has a hole here (zero page) *)
Definition page_verdict (w : ledger) (pos : N) (img : image N) (ix : index) (p : N) : N :=
  match pm_get p (snd img), pm_get p ix with
  | None, _ => 4
  | Some _, None => 1
  | Some t, Some e =>
      if N.ltb pos (e_max e) then 2
      else if optN_eqb (origin w e p) (Some t) then 0 else 3
  end.

(** page numbers 1..n without the lock page, ascending *)
Fixpoint pages_upto_nat (n : nat) (lockp : N) (acc : list N) : list N :=
  match n with
  | O => acc
  | S n' => let p := N.of_nat n in
            pages_upto_nat n' lockp (if N.eqb p lockp then acc else p :: acc)
  end.
Definition db_pages (commit lockp : N) : list N := pages_upto_nat (N.to_nat commit) lockp [].

(** the pages on which the index disagrees with the restore at [pos], with the verdict *)
Definition pages_diff (lockp : N) (w : ledger) (pos : N) (ix : index) : list (N * N) :=
  let img := restore_ledger w pos in
  filter (fun pv => negb (N.eqb (snd pv) 0))
         (map (fun p => (p, page_verdict w pos img ix p)) (db_pages (fst img) lockp)).

(** C18 as a decidable test on an observed index and size (in pages) *)
Definition pages_ok (lockp : N) (w : ledger) (pos : N) (ix : index) : bool :=
  match pages_diff lockp w pos ix with [] => true | _ => false end.

(** the size a restore at [pos] has, in pages *)
Definition size_ok (w : ledger) (pos : N) (size_pages : N) : bool :=
  N.eqb size_pages (fst (restore_ledger w pos)).
