(** C18, polling: the domain on which [pollReplicaClient] keeps the index equal
    to the restore at the new position, and the witnesses showing that the
    statement is false outside it (DESIGN §9 F4, F5 and a hybrid). *)
From Coq Require Import List NArith Bool Lia.
From LS Require Import Base.PMap Vfs.Index Vfs.Poll Vfs.Restore Vfs.Domain Vfs.PMapFacts Vfs.World.
Import ListNotations.
Open Scope N_scope.

Section PollLevel.
Variable lockp : N.
Variable w : ledger.
Notation cm := (cm w).
Notation pg := (pg w).
Notation wlen := (wlen w).
Notation is_newest := (is_newest w).
Notation is_compaction := (is_compaction w).

(** what a level's partial index says about the transactions (lo, hi] *)
Definition lvl_spec (lo hi : N) (ix : index) : Prop :=
  forall p, match pm_get p ix with
            | None => forall t, lo < t <= hi -> pg t p = false
            | Some e => lo < e_min e /\ e_max e <= hi /\
                        (exists t, is_newest (e_min e) (e_max e) p t) /\
                        forall u, e_max e < u <= hi -> pg u p = false
            end.

Lemma last_max_polled_cons f tl cur :
  last_max (f :: polled tl (f_max f)) cur = last_max (polled tl (f_max f)) (f_max f).
Proof. unfold last_max. destruct (polled tl (f_max f)); reflexivity. Qed.

(** pollLevel on a world whose commits do not decrease after [a]: the replace
    rule never fires and the partial index describes exactly the consumed range *)
Lemma poll_level_loop_spec (Hgc : gc_world lockp w) a (Hm : mono_from w a) level lo :
  forall files cur ix lastC newC repl m ix' c' r',
    Forall is_compaction files ->
    a <= lo -> lo <= cur -> cur <= wlen ->
    (forall f tl, files = f :: tl -> f_min f = cur + 1 -> lastC <= f_commit f) ->
    lvl_spec lo cur ix ->
    poll_level_loop level files cur ix lastC newC repl = PLOk m ix' c' r' ->
    cur <= m /\ m <= wlen /\ r' = repl /\ lvl_spec lo m ix' /\
    m = last_max (polled files cur) cur /\
    ((m = cur /\ c' = newC) \/ (cur < m /\ c' = cm m)).
Proof.
  induction files as [|f tl IH]; intros cur ix lastC newC repl m ix' c' r' Hall Halo Hlo Hcur Hfirst Hspec Hrun.
  - cbn in Hrun. inversion Hrun; subst. cbn. repeat split; try lia; auto.
  - cbn [poll_level_loop] in Hrun. cbn [polled].
    destruct (N.eqb_spec (f_min f) (cur + 1)) as [Hnext|Hnext]; cbn [negb] in Hrun.
    + inversion Hall as [|? ? Hf Htl]; subst.
      specialize (Hfirst f tl eq_refl Hnext).
      replace (N.ltb (f_commit f) lastC) with false in Hrun by (symmetry; apply N.ltb_ge; exact Hfirst).
      destruct Hf as (Hmin & Hmm & Hmax & Hcommit & Hpages).
      assert (lvl_spec lo (f_max f) (overlay ix f)) as Hspec'.
      { intros p. rewrite pm_get_overlay.
        change (existsb (N.eqb p) (f_pages f)) with (memN p (f_pages f)).
        destruct (memN p (f_pages f)) eqn:Hmem.
        - apply Hpages in Hmem. destruct Hmem as (_ & Hex).
          cbn [elem_of e_min e_max]. split; [lia|]. split; [lia|]. split.
          + apply newest_exists'. exact Hex.
          + intros u Hu; lia.
        - assert (forall t, f_min f <= t <= f_max f -> pg t p = false) as Hno.
          { intros t Ht. destruct (pg t p) eqn:Hp; [|reflexivity].
            assert (p <= cm t) by (apply (proj1 (Hgc t ltac:(lia))); exact Hp).
            assert (cm t <= cm (f_max f)) by (apply (mono_le w a Hm); lia).
            assert (memN p (f_pages f) = true) as Hc.
            { apply Hpages. split; [lia|]. exists t. split; [lia|exact Hp]. }
            congruence. }
          specialize (Hspec p). destruct (pm_get p ix) as [e|].
          + destruct Hspec as (H1 & H2 & H3 & H4). split; [exact H1|]. split; [lia|]. split; [exact H3|].
            intros u Hu. destruct (N.le_gt_cases u cur); [apply H4; lia|apply Hno; lia].
          + intros t Ht. destruct (N.le_gt_cases t cur); [apply Hspec; lia|apply Hno; lia]. }
      specialize (IH (f_max f) (overlay ix f) (f_commit f) (f_commit f) repl m ix' c' r'
                     Htl Halo ltac:(lia) Hmax).
      destruct IH as (H1 & H2 & H3 & H4 & H5 & H6); [| exact Hspec' | exact Hrun |].
      * intros f' tl' -> Hn'.
        inversion Htl as [|? ? Hf' _]; subst. destruct Hf' as (? & ? & ? & Hc' & _).
        rewrite Hcommit, Hc'. apply (mono_le w a Hm); lia.
      * split; [lia|]. split; [exact H2|]. split; [exact H3|]. split; [exact H4|]. split.
        -- rewrite last_max_polled_cons. exact H5.
        -- right. split; [lia|]. destruct H6 as [[-> ->]|[? ->]]; [exact Hcommit|reflexivity].
    + destruct (N.eqb level 0 && N.ltb (cur + 1) (f_min f)); [|discriminate].
      inversion Hrun; subst. cbn. repeat split; try lia; auto.
Qed.

End PollLevel.

Section Poll.
Variable lockp : N.
Variable w : ledger.
Notation cm := (cm w).
Notation pg := (pg w).
Notation wlen := (wlen w).
Notation is_newest := (is_newest w).
Notation is_compaction := (is_compaction w).

Lemma Forall_ltx_files (P : file -> Prop) l seek : Forall P l -> Forall P (ltx_files l seek).
Proof.
  intros H. apply Forall_forall. intros f Hin. unfold ltx_files in Hin.
  apply filter_In in Hin. rewrite Forall_forall in H. apply H. tauto.
Qed.

Lemma lvl_spec_nil lo : lvl_spec w lo lo [].
Proof. intros p. cbn. intros t Ht. lia. Qed.

(** The positive polling theorem.  Domain:
    (M) no transaction after the file's L1 position shrinks the database;
    (R) the first L1 file the poll consumes does not have a smaller commit than
        the position reached through L0 (so pollLevel's replace rule stays quiet);
    (S) if the poll consumes L1 files at all, L1 ends at or beyond the position
        reached through L0 (no stale L1).
    On it one [pollReplicaClient] of a good, unlocked file yields a good file at
    the new position: every page of the restored database is served in the
    restored version, no page beyond it is indexed, and FileSize is the
    restored size. *)
Theorem poll_refines_restore_on_domain v l0 l1 v' :
  gc_world lockp w ->
  Forall is_compaction l0 -> Forall is_compaction l1 ->
  good lockp w v ->
  let p0 := polled (ltx_files l0 (v_pos v + 1)) (v_pos v) in
  let m0 := last_max p0 (v_pos v) in
  let p1 := polled (ltx_files l1 (v_max1 v + 1)) (v_max1 v) in
  mono_from w (v_max1 v) ->
  match p1 with [] => True | g :: _ => cm m0 <= f_commit g end ->
  (p1 = [] \/ m0 <= last_max p1 (v_max1 v)) ->
  poll v l0 l1 = Some v' ->
  good lockp w v' /\
  (cm (v_pos v') <> lockp -> file_size_pages v' = cm (v_pos v')).
Proof.
  intros Hgc Hl0 Hl1 (Hlock & Hpend & Hprep & Hpos & Hmax1 & Hcommit & Hkeys & Hidx) p0 m0 p1 Hm HR HS Hpoll.
  unfold poll, poll_level in Hpoll.
  destruct (poll_level_loop 0 (ltx_files l0 (v_pos v + 1)) (v_pos v) [] (v_commit v) (v_commit v) false)
    as [mx0 idx0 commit0 replace0|] eqn:H0; [|discriminate].
  assert (forall f tl, ltx_files l0 (v_pos v + 1) = f :: tl -> f_min f = v_pos v + 1 -> v_commit v <= f_commit f) as Hf0.
  { intros f tl Hf Hn.
    assert (is_compaction f) as (? & ? & ? & Hc & _).
    { pose proof (Forall_ltx_files _ _ (v_pos v + 1) Hl0) as HF. rewrite Hf in HF. inversion HF; assumption. }
    rewrite Hc. assert (cm (v_pos v) <= cm (f_max f)) by (apply (mono_le w _ Hm); lia). lia. }
  destruct (poll_level_loop_spec lockp w Hgc (v_max1 v) Hm 0 (v_pos v) _ _ _ _ _ _ _ _ _ _
              (Forall_ltx_files _ _ _ Hl0) Hmax1 (N.le_refl _) Hpos Hf0 (lvl_spec_nil _) H0)
    as (A1 & A2 & A3 & A4 & A5 & A6).
  subst replace0. fold p0 in A5. fold m0 in A5. subst mx0.
  cbn [negb] in Hpoll.
  assert (cm (v_pos v) <= cm m0) as Hc0 by (apply (mono_le w _ Hm); lia).
  set (base1 := if negb (is_empty idx0) then commit0 else v_commit v) in Hpoll.
  assert (commit0 <= cm m0) as Hcommit0 by (destruct A6 as [[_ ->]|[_ ->]]; lia).
  assert (base1 <= cm m0) as Hbase1 by (unfold base1; destruct (negb (is_empty idx0)); lia).
  destruct (poll_level_loop 1 (ltx_files l1 (v_max1 v + 1)) (v_max1 v) [] base1 base1 false)
    as [mx1 idx1 commit1 replace1|] eqn:H1; [|discriminate].
  assert (forall f tl, ltx_files l1 (v_max1 v + 1) = f :: tl -> f_min f = v_max1 v + 1 -> base1 <= f_commit f) as Hf1.
  { intros f tl Hf Hn. unfold p1 in HR. rewrite Hf in HR. cbn [polled] in HR.
    rewrite (proj2 (N.eqb_eq _ _) Hn) in HR. lia. }
  destruct (poll_level_loop_spec lockp w Hgc (v_max1 v) Hm 1 (v_max1 v) _ _ _ _ _ _ _ _ _ _
              (Forall_ltx_files _ _ _ Hl1) (N.le_refl _) (N.le_refl _) ltac:(lia) Hf1 (lvl_spec_nil _) H1)
    as (B1 & B2 & B3 & B4 & B5 & B6).
  subst replace1. fold p1 in B5. set (m1 := last_max p1 (v_max1 v)) in *. subst mx1.
  assert (commit1 <= cm (N.max m0 m1)) as Hcommit1.
  { destruct B6 as [[_ ->]|[_ ->]].
    - assert (cm m0 <= cm (N.max m0 m1)) by (apply (mono_le w _ Hm); lia). lia.
    - apply (mono_le w _ Hm); lia. }
  rewrite Hlock in Hpoll. cbn [LockNone LockShared N.leb N.compare andb negb] in Hpoll.
  change (N.leb 1 0) with false in Hpoll. cbn [andb negb] in Hpoll.
  set (hi := if N.ltb m1 m0 then m0 else m1) in Hpoll.
  (* the shape of the poll: either no L1 file was consumed, or L1 reaches at least m0 *)
  assert ((hi = m0 /\ forall p, pm_get p idx1 = None) \/ (hi = m1 /\ m0 <= m1)) as HK.
  { destruct HS as [Hnil|Hge].
    - left. assert (m1 = v_max1 v) as Hm1 by (unfold m1; rewrite Hnil; reflexivity).
      split.
      + unfold hi. destruct (N.ltb_spec m1 m0); lia.
      + intros p. specialize (B4 p). destruct (pm_get p idx1) as [e|]; [|reflexivity].
        destruct B4 as (? & ? & (t & (? & _)) & _). lia.
    - right. fold m1 in Hge. split; [|exact Hge]. unfold hi. destruct (N.ltb_spec m1 m0); lia. }
  assert (v_pos v <= hi /\ m0 <= hi /\ m1 <= hi /\ hi <= wlen) as (Hh1 & Hh2 & Hh3 & Hh4).
  { unfold hi. destruct (N.ltb_spec m1 m0); lia. }
  assert (forall x, v_max1 v <= x -> x <= hi -> cm x <= cm hi) as Hmono
    by (intros x ? ?; apply (mono_le w _ Hm); lia).
  inversion Hpoll; subst v'; clear Hpoll. cbn [v_pos v_index v_pending v_lock v_pending_replace v_max1 v_commit].
  set (combined := pm_union (pm_union [] idx0) idx1).
  assert (forall p, pm_get p (pm_union (v_index v) combined) =
                    match pm_get p idx1 with
                    | Some e => Some e
                    | None => match pm_get p idx0 with
                              | Some e => Some e
                              | None => pm_get p (v_index v)
                              end
                    end) as Hget.
  { intros p. unfold combined. rewrite !pm_get_union. cbn [pm_get].
    destruct (pm_get p idx1); [reflexivity|]. destruct (pm_get p idx0); reflexivity. }
  (* pages written in a level index are inside the database at hi *)
  assert (forall lo m ix p e, lvl_spec w lo m ix -> v_max1 v <= lo -> m <= hi ->
                              pm_get p ix = Some e -> p <= cm hi) as Hin.
  { intros lo m ix p e Hs Hlo Hmh He. specialize (Hs p). rewrite He in Hs.
    destruct Hs as (? & ? & (t & (? & Hpt & _)) & _).
    assert (p <= cm t) by (apply (proj1 (Hgc t ltac:(lia))); exact Hpt).
    specialize (Hmono t ltac:(lia) ltac:(lia)). lia. }
  assert (idx_good lockp w hi (pm_union (v_index v) combined)) as Hgood.
  { split.
    - intros p e. rewrite Hget.
      destruct (pm_get p idx1) eqn:E1; [intros _; eapply (Hin _ _ _ _ _ B4); eauto; lia|].
      destruct (pm_get p idx0) eqn:E0; [intros _; eapply (Hin _ _ _ _ _ A4); eauto; lia|].
      intros He. specialize (Hkeys p e He). specialize (Hmono (v_pos v) Hmax1 Hh1). lia.
    - intros p Hp Hl. rewrite Hget.
      pose proof (B4 p) as S1. pose proof (A4 p) as S0.
      (* the old entry survives when nothing in (pos, hi] wrote p *)
      assert ((forall t, v_pos v < t <= hi -> pg t p = false) ->
              exists e, pm_get p (v_index v) = Some e /\ entry_good w hi p e) as Hold.
      { intros Hno. destruct (N.le_gt_cases p (cm (v_pos v))) as [Hle|Hgt].
        - destruct (Hidx p ltac:(lia) Hl) as (e & He & Hmx & t & Hn1 & Hn2).
          exists e. split; [exact He|]. split; [lia|]. exists t. split; [exact Hn1|].
          eapply is_newest_widen; [exact Hn2|lia|exact Hh1|exact Hno].
        - destruct (grown_page_written lockp w (v_pos v) hi p Hgc Hh1 Hh4 ltac:(lia) Hl) as (t & Ht & Hpt).
          rewrite Hno in Hpt by exact Ht. discriminate. }
      destruct HK as [(Hhi & Hnone)|(Hhi & Hge)].
      + rewrite Hnone. rewrite Hhi in *.
        destruct (pm_get p idx0) as [e|] eqn:E0.
        * destruct S0 as (? & ? & (t & Hn) & Hafter). exists e. split; [reflexivity|].
          split; [lia|]. exists t. split; [exact Hn|].
          eapply is_newest_widen; [exact Hn|lia|eassumption|exact Hafter].
        * apply Hold. exact S0.
      + rewrite Hhi in *.
        destruct (pm_get p idx1) as [e|] eqn:E1.
        * destruct S1 as (? & ? & (t & Hn) & Hafter). exists e. split; [reflexivity|].
          split; [lia|]. exists t. split; [exact Hn|].
          eapply is_newest_widen; [exact Hn|lia|eassumption|exact Hafter].
        * destruct (pm_get p idx0) as [e0|] eqn:E0.
          -- destruct S0 as (? & ? & (t & (? & Hpt & _)) & _).
             rewrite S1 in Hpt by lia. discriminate.
          -- apply Hold. intros t Ht. apply S1. lia. }
  split.
  - unfold good. cbn [v_pos v_index v_pending v_lock v_pending_replace v_max1 v_commit].
    split; [reflexivity|]. split; [exact Hpend|]. split; [reflexivity|].
    split; [exact Hh4|]. split; [exact Hh3|]. split; [|exact Hgood].
    (* the commit field stays below the database size at the new position *)
    assert (v_commit v <= cm hi) by (specialize (Hmono (v_pos v) Hmax1 Hh1); lia).
    assert (cm m0 <= cm hi) by (apply Hmono; lia).
    assert (cm (N.max m0 m1) <= cm hi).
    { apply Hmono; [lia|]. unfold hi. destruct (N.ltb_spec m1 m0); lia. }
    repeat match goal with |- context [if ?c then _ else _] => destruct c end; lia.
  - intros Hnl. unfold file_size_pages. cbn [v_index v_pending v_pos]. rewrite Hpend. cbn [max_key]. rewrite N.max_0_r.
    destruct Hgood as (Hk & Hi). apply N.le_antisymm.
    + apply max_key_le. exact Hk.
    + destruct (N.eq_dec (cm hi) 0) as [->|Hnz]; [lia|].
      destruct (Hi (cm hi) ltac:(lia) Hnl) as (e & He & _). eapply max_key_ge; exact He.
Qed.

End Poll.

(** * Concrete worlds: tactics *)

Ltac inv_mem H :=
  repeat match type of H with
         | context [lf ?w ?t] => let x := eval vm_compute in (lf w t) in change (lf w t) with x in H
         end;
  cbn in H;
  repeat match type of H with
         | (_ || _)%bool = true => apply orb_true_iff in H; destruct H as [H|H]
         end;
  try discriminate H; apply N.eqb_eq in H; subst.

(** replace closed [cm w t] / [wlen w] by their values, keeping the order relations for lia *)
Ltac norm H :=
  repeat match type of H with
         | context [cm ?w ?t] => let x := eval vm_compute in (cm w t) in change (cm w t) with x in H
         | context [wlen ?w] => let x := eval vm_compute in (wlen w) in change (wlen w) with x in H
         end.
Ltac norm_goal :=
  repeat match goal with
         | |- context [cm ?w ?t] => let x := eval vm_compute in (cm w t) in change (cm w t) with x
         | |- context [wlen ?w] => let x := eval vm_compute in (wlen w) in change (wlen w) with x
         end.

Ltac try_t :=
  first [ exists 1; split; [lia|vm_compute; reflexivity]
        | exists 2; split; [lia|vm_compute; reflexivity]
        | exists 3; split; [lia|vm_compute; reflexivity] ].

Ltac enum_t t Ht :=
  let H := fresh in
  norm Ht;
  assert (t = 0 \/ t = 1 \/ t = 2 \/ t = 3) as H by lia;
  destruct H as [->|[->|[->| ->]]].

(** [is_compaction w f] for a concrete ledger of at most three transactions *)
Ltac compaction_tac :=
  unfold is_compaction; cbn [f_min f_max f_commit f_pages];
  split; [lia|]; split; [lia|]; split; [norm_goal; lia|];
  split; [vm_compute; reflexivity|];
  let p := fresh "p" in intros p; split;
  [ let H := fresh "H" in intros H; unfold memN in H; inv_mem H;
    (split; [norm_goal; lia|try_t])
  | let Hle := fresh "Hle" in let t := fresh "t" in let Ht := fresh "Ht" in let Hpg := fresh "Hpg" in
    intros (Hle & t & Ht & Hpg); enum_t t Ht; try lia;
    unfold pg, memN in Hpg; inv_mem Hpg;
    first [reflexivity | (exfalso; norm Hle; lia)] ].

(** [gc_world lockp w] for a concrete ledger of at most three transactions and
    at most four pages *)
Ltac gc_world_tac :=
  let t := fresh "t" in let Ht := fresh "Ht" in
  intros t Ht; enum_t t Ht; try lia; (split;
  [ let p := fresh "p" in let H := fresh "H" in
    intros p H; unfold pg, memN in H; inv_mem H; norm_goal; lia
  | let p := fresh "p" in let H := fresh "H" in let Hl := fresh "Hl" in
    intros p H Hl; norm H;
    let Hc := fresh in
    assert (p = 0 \/ p = 1 \/ p = 2 \/ p = 3 \/ p = 4) as Hc by lia;
    destruct Hc as [->|[->|[->|[->| ->]]]];
    first [vm_compute; reflexivity | (exfalso; lia)] ]).

(** a state whose index maps every page to one file [1..1] at position 1 *)
Ltac good_at_1_tac :=
  unfold good; cbn [v_lock v_pending v_pending_replace v_pos v_max1 v_commit v_index];
  split; [reflexivity|]; split; [reflexivity|]; split; [reflexivity|];
  split; [norm_goal; lia|]; split; [lia|];
  split; [norm_goal; lia|];
  split;
  [ let p := fresh "p" in let e := fresh "e" in let H := fresh "H" in
    intros p e H; cbn [pm_get] in H; norm_goal;
    repeat match type of H with
           | (if N.eqb ?a ?b then _ else _) = _ => destruct (N.eqb_spec a b); [subst; lia|]
           end; discriminate H
  | let p := fresh "p" in let H := fresh "H" in let Hl := fresh "Hl" in
    intros p H Hl; norm H;
    let Hc := fresh in
    assert (p = 1 \/ p = 2 \/ p = 3) as Hc by lia;
    destruct Hc as [->|[->| ->]]; try (exfalso; lia);
    (eexists; split; [vm_compute; reflexivity|];
     split; [cbn; lia|]; exists 1;
     split; (split; [cbn; lia|]; split; [vm_compute; reflexivity|]; intros u Hu; cbn in Hu; lia)) ].

Ltac mono_tac :=
  let t := fresh "t" in let Ht := fresh "Ht" in let Hlt := fresh "Hlt" in
  intros t Ht Hlt; cbn [v_max1] in Ht; enum_t t Hlt; try lia; norm_goal; lia.

(** * The intended theorem is false outside the domain: three witnesses, each
    violating exactly one of (M), (S), (R). *)

(** F4 — partial shrink: transaction 2 truncates the database from three pages
    to two and rewrites only page 1 (incremental_vacuum).  (S) and (R) hold
    (no L1 file at all), (M) fails; the poll replaces the index by the pages of
    transaction 2 and page 2 of the restored database is no longer indexed. *)
Theorem poll_partial_shrink_refuted :
  exists lockp w v l0 l1 v',
    gc_world lockp w /\ Forall (is_compaction w) l0 /\ Forall (is_compaction w) l1 /\
    good lockp w v /\ l1 = [] /\
    poll v l0 l1 = Some v' /\
    (1 <= 2 <= cm w (v_pos v') /\ 2 <> lockp /\ read_lookup v' 2 = None) /\
    file_size_pages v' <> cm w (v_pos v') /\
    ~ idx_good lockp w (v_pos v') (v_index v').
Proof.
  set (w := [mkL 3 [1; 2; 3]; mkL 2 [1]]).
  set (e1 := mkElem 0 1 1).
  exists 9, w, (mkVfs [(1, e1); (2, e1); (3, e1)] [] false 1 1 3 0),
         [mkFile 0 1 1 3 [1; 2; 3]; mkFile 0 2 2 2 [1]], [],
         (mkVfs [(1, mkElem 0 2 2)] [] false 2 1 2 0).
  split; [gc_world_tac|].
  split; [repeat (apply Forall_cons; [compaction_tac|]); apply Forall_nil|].
  split; [constructor|].
  split; [good_at_1_tac|].
  split; [reflexivity|]. split; [vm_compute; reflexivity|].
  split; [split; [norm_goal; lia|split; [lia|reflexivity]]|].
  split; [vm_compute; discriminate|].
  intros [_ H]. destruct (H 2) as (e & He & _); [norm_goal; lia|lia|].
  vm_compute in He. discriminate.
Qed.

(** F5 — stale L1: the file was opened at TXID 1 from the L1 file 1..1; L1 file
    2..2 was compacted before transaction 3 rewrote page 2 again.  (M) and (R)
    hold, (S) fails; the poll reaches position 3 through L0 and then overlays
    the L1 entry, so page 2 is served in the version of transaction 2. *)
Theorem poll_l1_over_l0_refuted :
  exists lockp w v l0 l1 v',
    gc_world lockp w /\ Forall (is_compaction w) l0 /\ Forall (is_compaction w) l1 /\
    good lockp w v /\ mono_from w (v_max1 v) /\
    poll v l0 l1 = Some v' /\ v_pos v' = 3 /\
    read_lookup v' 2 = Some (mkElem 1 2 2) /\ pg w 3 2 = true /\
    file_size_pages v' = cm w (v_pos v') /\
    ~ idx_good lockp w (v_pos v') (v_index v').
Proof.
  set (w := [mkL 2 [1; 2]; mkL 2 [2]; mkL 2 [2]]).
  set (e1 := mkElem 1 1 1).
  exists 9, w, (mkVfs [(1, e1); (2, e1)] [] false 1 1 2 0),
         [mkFile 0 1 1 2 [1; 2]; mkFile 0 2 2 2 [2]; mkFile 0 3 3 2 [2]],
         [mkFile 1 1 1 2 [1; 2]; mkFile 1 2 2 2 [2]],
         (mkVfs [(1, e1); (2, mkElem 1 2 2)] [] false 3 2 2 0).
  split; [gc_world_tac|].
  split; [repeat (apply Forall_cons; [compaction_tac|]); apply Forall_nil|].
  split; [repeat (apply Forall_cons; [compaction_tac|]); apply Forall_nil|].
  split; [good_at_1_tac|].
  split; [mono_tac|].
  split; [vm_compute; reflexivity|]. split; [reflexivity|].
  split; [reflexivity|]. split; [reflexivity|]. split; [vm_compute; reflexivity|].
  intros [_ H]. destruct (H 2) as (e & He & _ & t & (Hr & _) & (_ & _ & Hn)); [norm_goal; lia|lia|].
  vm_compute in He. inversion He; subst e. cbn in Hr.
  assert (t = 2) by lia; subst t.
  specialize (Hn 3 ltac:(cbn; lia)). vm_compute in Hn. discriminate.
Qed.

(** Hybrid — L1 polled after a grown L0: nothing shrinks ((M) holds) and L1 ends
    where L0 ends ((S) holds), but the first polled L1 file (2..2, three pages)
    has a smaller commit than the position reached through L0 (four pages):
    (R) fails, pollLevel's replace rule fires and page 3, which neither L1 file
    holds, leaves the index. *)
Theorem poll_l1_false_shrink_refuted :
  exists lockp w v l0 l1 v',
    gc_world lockp w /\ Forall (is_compaction w) l0 /\ Forall (is_compaction w) l1 /\
    good lockp w v /\ mono_from w (v_max1 v) /\
    poll v l0 l1 = Some v' /\ v_pos v' = 3 /\ v_max1 v' = 3 /\
    (1 <= 3 <= cm w (v_pos v') /\ 3 <> lockp /\ read_lookup v' 3 = None) /\
    ~ idx_good lockp w (v_pos v') (v_index v').
Proof.
  set (w := [mkL 3 [1; 2; 3]; mkL 3 [2]; mkL 4 [1; 4]]).
  set (e1 := mkElem 1 1 1).
  exists 9, w, (mkVfs [(1, e1); (2, e1); (3, e1)] [] false 1 1 3 0),
         [mkFile 0 1 1 3 [1; 2; 3]; mkFile 0 2 2 3 [2]; mkFile 0 3 3 4 [1; 4]],
         [mkFile 1 1 1 3 [1; 2; 3]; mkFile 1 2 2 3 [2]; mkFile 1 3 3 4 [1; 4]],
         (mkVfs [(1, mkElem 1 3 3); (2, mkElem 1 2 2); (4, mkElem 1 3 3)] [] false 3 3 4 0).
  split; [gc_world_tac|].
  split; [repeat (apply Forall_cons; [compaction_tac|]); apply Forall_nil|].
  split; [repeat (apply Forall_cons; [compaction_tac|]); apply Forall_nil|].
  split; [good_at_1_tac|].
  split; [mono_tac|].
  split; [vm_compute; reflexivity|]. split; [reflexivity|]. split; [reflexivity|].
  split; [split; [norm_goal; lia|split; [lia|reflexivity]]|].
  intros [_ H]. destruct (H 3) as (e & He & _); [norm_goal; lia|lia|].
  vm_compute in He. discriminate.
Qed.

(** The unrestricted statement (every poll of a good file yields a good file)
    is therefore false. *)
Theorem poll_refines_restore_unrestricted_refuted :
  ~ (forall lockp w v l0 l1 v',
        gc_world lockp w -> Forall (is_compaction w) l0 -> Forall (is_compaction w) l1 ->
        good lockp w v -> poll v l0 l1 = Some v' -> good lockp w v').
Proof.
  intros H.
  destruct poll_partial_shrink_refuted as (lockp & w & v & l0 & l1 & v' & H1 & H2 & H3 & H4 & _ & H5 & _ & _ & Hbad).
  apply Hbad. specialize (H lockp w v l0 l1 v' H1 H2 H3 H4 H5).
  destruct H as (_ & _ & _ & _ & _ & _ & Hg). exact Hg.
Qed.

(** The hypotheses of [poll_refines_restore_on_domain] are satisfiable by a
    non-trivial poll: the file is at TXID 1; transaction 2 grows the database,
    transaction 3 rewrites page 2; L0 holds 1, 2, 3 and L1 holds 1..1 and 2..3.
    The poll consumes two L0 files and one L1 file and ends at TXID 3 with the
    L1 entries for pages 1, 2, 3. *)
Example poll_domain_example :
  let w := [mkL 2 [1; 2]; mkL 3 [1; 3]; mkL 3 [2]] in
  let e1 := mkElem 1 1 1 in
  let v := mkVfs [(1, e1); (2, e1)] [] false 1 1 2 0 in
  let l0 := [mkFile 0 1 1 2 [1; 2]; mkFile 0 2 2 3 [1; 3]; mkFile 0 3 3 3 [2]] in
  let l1 := [mkFile 1 1 1 2 [1; 2]; mkFile 1 2 3 3 [1; 2; 3]] in
  let p0 := polled (ltx_files l0 (v_pos v + 1)) (v_pos v) in
  let m0 := last_max p0 (v_pos v) in
  let p1 := polled (ltx_files l1 (v_max1 v + 1)) (v_max1 v) in
  gc_world 9 w /\ Forall (is_compaction w) l0 /\ Forall (is_compaction w) l1 /\ good 9 w v /\
  mono_from w (v_max1 v) /\
  match p1 with [] => True | g :: _ => cm w m0 <= f_commit g end /\
  (p1 = [] \/ m0 <= last_max p1 (v_max1 v)) /\
  in_poll_domain 9 v l0 l1 = true /\
  poll v l0 l1 =
    Some (mkVfs [(1, mkElem 1 2 3); (2, mkElem 1 2 3); (3, mkElem 1 2 3)] [] false 3 3 3 0) /\
  pages_ok 9 w 3 [(1, mkElem 1 2 3); (2, mkElem 1 2 3); (3, mkElem 1 2 3)] = true.
Proof.
  intros w e1 v l0 l1 p0 m0 p1. subst p1 m0 p0 l1 l0 v e1.
  split; [gc_world_tac|].
  split; [repeat (apply Forall_cons; [compaction_tac|]); apply Forall_nil|].
  split; [repeat (apply Forall_cons; [compaction_tac|]); apply Forall_nil|].
  split; [good_at_1_tac|].
  split; [mono_tac|].
  split; [vm_compute; discriminate|].
  split; [right; vm_compute; discriminate|].
  repeat split; vm_compute; reflexivity.
Qed.

(** The executable oracle used on the implementation ([pages_ok], [size_ok]:
    restore by folding the LTX apply rule over the ledger) gives the same
    verdicts as the relational statement on the four post-states above. *)
Example oracle_on_witnesses :
  (* F4 *)   pages_ok 9 [mkL 3 [1; 2; 3]; mkL 2 [1]] 2 [(1, mkElem 0 2 2)] = false /\
             size_ok [mkL 3 [1; 2; 3]; mkL 2 [1]] 2 1 = false /\
  (* F5 *)   pages_ok 9 [mkL 2 [1; 2]; mkL 2 [2]; mkL 2 [2]] 3 [(1, mkElem 1 1 1); (2, mkElem 1 2 2)] = false /\
  (* hyb *)  pages_ok 9 [mkL 3 [1; 2; 3]; mkL 3 [2]; mkL 4 [1; 4]] 3
                      [(1, mkElem 1 3 3); (2, mkElem 1 2 2); (4, mkElem 1 3 3)] = false /\
  (* pre *)  pages_ok 9 [mkL 3 [1; 2; 3]; mkL 2 [1]] 1 [(1, mkElem 0 1 1); (2, mkElem 0 1 1); (3, mkElem 0 1 1)] = true.
Proof. repeat split; vm_compute; reflexivity. Qed.

(** * Pending index: a poll that arrives while a reader holds SHARED and is
    applied by Unlock serves the same entries as the poll applied directly. *)
Lemma pm_union_nil_empty (c : index) : is_empty (pm_union [] c) = true -> forall p, pm_get p c = None.
Proof.
  intros H p. destruct c as [|[k e] tl]; [reflexivity|].
  exfalso. cbn [pm_union fold_right fst snd] in H.
  destruct (fold_right (fun kv acc => pm_set (fst kv) (snd kv) acc) [] tl) as [|[k1 e1] m]; cbn in H; [discriminate|].
  destruct (N.ltb k k1); [discriminate|]. destruct (N.eqb k k1); discriminate.
Qed.

Theorem poll_locked_then_unlock v l0 l1 vs vu :
  v_lock v = LockNone -> v_pending v = [] -> v_pending_replace v = false ->
  poll (mkVfs (v_index v) (v_pending v) (v_pending_replace v) (v_pos v) (v_max1 v) (v_commit v) LockShared) l0 l1 = Some vs ->
  poll v l0 l1 = Some vu ->
  exists vs', unlock vs LockNone = Some vs' /\
    (forall p, pm_get p (v_index vs') = pm_get p (v_index vu)) /\
    v_pending vs' = v_pending vu /\ v_pending_replace vs' = v_pending_replace vu /\
    v_pos vs' = v_pos vu /\ v_max1 vs' = v_max1 vu /\ v_commit vs' = v_commit vu /\ v_lock vs' = v_lock vu.
Proof.
  intros Hl Hp Hr Hs Hu. unfold poll in Hs, Hu. cbn [v_pos v_commit v_max1 v_lock v_index v_pending v_pending_replace] in Hs.
  destruct (poll_level 0 l0 (v_pos v) (v_commit v)) as [m0 idx0 c0 r0|]; [|discriminate].
  match type of Hs with context [poll_level 1 l1 (v_max1 v) ?b] => destruct (poll_level 1 l1 (v_max1 v) b) as [m1 idx1 c1 r1|] end; [|discriminate].
  rewrite Hl, Hp, Hr in Hu. rewrite Hp, Hr in Hs.
  change (N.leb LockShared LockShared) with true in Hs. change (N.leb LockShared LockNone) with false in Hu.
  unfold unlock.
  destruct r0, r1; cbn [negb andb] in Hs, Hu; inversion Hs; subst vs; clear Hs; inversion Hu; subst vu; clear Hu;
    cbn [v_pending_replace v_pending v_index v_pos v_max1 v_commit v_lock N.eqb LockNone LockShared negb andb];
    (eexists; split; [reflexivity|]);
    cbn [v_pending_replace v_pending v_index v_pos v_max1 v_commit v_lock];
    (split; [|repeat split; rewrite ?Hl; reflexivity]); intros p; try reflexivity.
  match goal with |- context [pm_union [] ?c] => set (comb := c) end.
  destruct (is_empty (pm_union [] comb)) eqn:He; cbn [negb].
  - rewrite pm_get_union. rewrite (pm_union_nil_empty comb He). reflexivity.
  - rewrite !pm_get_union. cbn [pm_get]. destruct (pm_get p comb); reflexivity.
Qed.

(** * A straddling L1 file is never seen.  The file was opened at TXID 1 from
    L0 (maxTXID1 seeded from the position), polled transactions 2 and 3 from
    L0, then L1 1..3 was written and L0 retention removed L0 files 1 and 2.
    The next poll consumes nothing (L1 1..3 starts below maxTXID1 + 1), the
    index still names the L0 files 1..1 and 2..2, which are in neither listing:
    those reads cannot be served although Restore(TXID=3) exists (L1 1..3). *)
Example poll_straddling_l1_keeps_entries_into_deleted_l0 :
  let e t := mkElem 0 t t in
  let v := mkVfs [(1, e 1); (2, e 2); (3, e 3)] [] false 3 1 3 0 in
  let l0 := [mkFile 0 3 3 3 [3]] in
  let l1 := [mkFile 1 1 3 3 [1; 2; 3]] in
  l1_straddles v l1 = true /\ poll v l0 l1 = Some v /\
  read_lookup v 2 = Some (e 2) /\
  existsb (fun f => N.eqb (f_level f) 0 && N.eqb (f_min f) 2) (l0 ++ l1) = false.
Proof. repeat split; vm_compute; reflexivity. Qed.

(** and once the next L1 file appears every poll fails ("non-contiguous ltx file") *)
Example poll_after_straddling_l1_errors :
  let e t := mkElem 0 t t in
  let v := mkVfs [(1, e 1); (2, e 2); (3, e 3)] [] false 3 1 3 0 in
  poll v [mkFile 0 4 4 3 [1]; mkFile 0 5 5 3 [2]] [mkFile 1 1 3 3 [1; 2; 3]; mkFile 1 4 5 3 [1; 2]] = None.
Proof. vm_compute. reflexivity. Qed.
