(** C18, last clause: a time-travel view equals the timestamp restore for that
    time — under every interleaving of Lock, Poll and Unlock, including a poll
    staged in the pending index before the target was set. *)
From Coq Require Import List NArith Bool Lia.
From LS Require Import Base.PMap Vfs.Index Vfs.Poll Vfs.Restore Vfs.Domain Vfs.PMapFacts
                       Vfs.OpenProofs Vfs.TimeTravel.
Import ListNotations.
Open Scope N_scope.

(** the index-related fields a rebuild on [plan] produces *)
Definition rebuilt_view (plan : list file) (v : vfs) : Prop :=
  v_index v = v_index (vfs_open_model plan) /\ v_pending v = [] /\ v_pending_replace v = false /\
  v_pos v = v_pos (vfs_open_model plan) /\ v_max1 v = v_max1 (vfs_open_model plan) /\
  v_commit v = v_commit (vfs_open_model plan).

(** rebuildIndex discards whatever a poll staged while a reader held SHARED *)
Lemma rebuild_discards_pending v plan : rebuilt_view plan (rebuild v plan) /\ v_lock (rebuild v plan) = v_lock v.
Proof.
  unfold rebuild, rebuilt_view, vfs_open_model, rebuild_index.
  destruct (build_index_map plan [] 0) as [ix c]. cbn. repeat split; reflexivity.
Qed.

Definition lock_or_unlock (o : op) : bool :=
  match o with OLock _ | OUnlock _ => true | _ => false end.
Definition lock_unlock_or_poll (o : op) : bool :=
  match o with OLock _ | OUnlock _ | OPoll _ _ => true | _ => false end.

Lemma lock_keeps_view plan v e v' : rebuilt_view plan v -> lock v e = Some v' -> rebuilt_view plan v'.
Proof.
  unfold lock. destruct (N.ltb e (v_lock v)); [discriminate|]. destruct (N.leb LockReserved e); [discriminate|].
  intros H E; inversion E; subst; exact H.
Qed.

Lemma unlock_keeps_view plan v e v' : rebuilt_view plan v -> unlock v e = Some v' -> rebuilt_view plan v'.
Proof.
  unfold unlock. destruct (negb (N.eqb e LockShared) && negb (N.eqb e LockNone)); [discriminate|].
  intros (Hi & Hp & Hr & Hrest) E; inversion E; subst; clear E.
  unfold rebuilt_view; cbn [v_index v_pending v_pending_replace v_pos v_max1 v_commit].
  rewrite Hr, Hp. cbn. tauto.
Qed.

(** while a target is set nothing but another SetTargetTime / ResetTime changes the view *)
Lemma target_steps_keep_view plan : forall ops s,
  forallb lock_unlock_or_poll ops = true ->
  t_target s = true -> rebuilt_view plan (t_v s) ->
  t_target (trun s ops) = true /\ rebuilt_view plan (t_v (trun s ops)).
Proof.
  induction ops as [|o tl IH]; intros s Hops Ht Hv; [split; assumption|].
  cbn [forallb] in Hops. apply andb_true_iff in Hops. destruct Hops as (Ho & Htl).
  unfold trun. cbn [fold_left]. apply IH; [exact Htl| |]; unfold tstep_total, tstep;
    destruct o as [e|e|l0 l1|p|p]; try discriminate Ho.
  - destruct (lock (t_v s) e); assumption.
  - destruct (unlock (t_v s) e); assumption.
  - destruct (poll (t_v s) l0 l1); [rewrite Ht|]; assumption.
  - destruct (lock (t_v s) e) eqn:E; [|assumption]. eapply lock_keeps_view; eassumption.
  - destruct (unlock (t_v s) e) eqn:E; [|assumption]. eapply unlock_keeps_view; eassumption.
  - destruct (poll (t_v s) l0 l1); [rewrite Ht|]; assumption.
Qed.

Lemma latest_steps_keep_view plan : forall ops s,
  forallb lock_or_unlock ops = true ->
  rebuilt_view plan (t_v s) ->
  t_target (trun s ops) = t_target s /\ rebuilt_view plan (t_v (trun s ops)).
Proof.
  induction ops as [|o tl IH]; intros s Hops Hv; [split; [reflexivity|assumption]|].
  cbn [forallb] in Hops. apply andb_true_iff in Hops. destruct Hops as (Ho & Htl).
  unfold trun. cbn [fold_left].
  assert (t_target (tstep_total s o) = t_target s /\ rebuilt_view plan (t_v (tstep_total s o))) as (H1 & H2).
  { unfold tstep_total, tstep. destruct o as [e|e|l0 l1|p|p]; try discriminate Ho.
    - destruct (lock (t_v s) e) eqn:E; [|tauto]. split; [reflexivity|eapply lock_keeps_view; eassumption].
    - destruct (unlock (t_v s) e) eqn:E; [|tauto]. split; [reflexivity|eapply unlock_keeps_view; eassumption]. }
  destruct (IH (tstep_total s o) Htl H2) as (H3 & H4). unfold trun in H3, H4.
  split; [rewrite H3; exact H1|exact H4].
Qed.

Section View.
Variable lockp : N.

(** what "the served view equals the restore of [plan]" means *)
Definition serves_restore_of (plan : list file) (v : vfs) : Prop :=
  let img := restore_plan plan in
  v_commit v = fst img /\
  (forall p, 1 <= p <= fst img -> p <> lockp ->
     exists e, read_lookup v p = Some e /\ pm_get p (snd img) = Some e) /\
  (open_size_domain plan = true -> fst img <> lockp -> file_size_pages v = fst img).

Lemma rebuilt_view_serves plan v :
  gc_chain lockp 0 plan -> rebuilt_view plan v -> serves_restore_of plan v.
Proof.
  intros Hgc (Hi & Hp & _ & _ & _ & Hc).
  destruct (open_refines_restore lockp plan Hgc) as (_ & H2 & H3 & H4).
  unfold serves_restore_of. split; [congruence|]. split.
  - intros p Hr Hl. destruct (H3 p Hr Hl) as (e & He & Hg). exists e. split; [|exact Hg].
    unfold read_lookup in *. rewrite Hi. exact He.
  - intros Hd Hl. rewrite <- (H4 Hd Hl). unfold file_size_pages. rewrite Hi, Hp.
    unfold vfs_open_model, rebuild_index. destruct (build_index_map plan [] 0). reflexivity.
Qed.

(** Time travel.  From ANY state — in particular one whose pending index holds
    entries a poll staged while a reader held SHARED, with or without
    pendingReplace — SetTargetTime on the plan of the timestamp, followed by any
    sequence of Lock / Unlock / Poll (whatever the listings), leaves a file that
    serves, page for page and in size (on the size domain of the open theorem),
    the restore of that plan. *)
Theorem timetravel_view_is_timestamp_restore s plan ops s1 :
  gc_chain lockp 0 plan ->
  tstep s (OSetTarget plan) = Some s1 ->
  forallb lock_unlock_or_poll ops = true ->
  t_target (trun s1 ops) = true /\ serves_restore_of plan (t_v (trun s1 ops)).
Proof.
  intros Hgc Hs Hops. cbn [tstep] in Hs. destruct plan as [|f tl]; [discriminate|].
  inversion Hs; subst s1; clear Hs.
  destruct (target_steps_keep_view (f :: tl) ops (mkT (rebuild (t_v s) (f :: tl)) true) Hops eq_refl) as (H1 & H2).
  { apply rebuild_discards_pending. }
  split; [exact H1|]. apply rebuilt_view_serves; assumption.
Qed.

(** ResetTime: the same from any state for the plan of the latest position,
    across Lock / Unlock (later polls are the subject of the polling theorem). *)
Theorem reset_view_is_latest_restore s plan ops s1 :
  gc_chain lockp 0 plan ->
  tstep s (OReset plan) = Some s1 ->
  forallb lock_or_unlock ops = true ->
  t_target (trun s1 ops) = false /\ serves_restore_of plan (t_v (trun s1 ops)).
Proof.
  intros Hgc Hs Hops. cbn [tstep] in Hs. destruct plan as [|f tl]; [discriminate|].
  inversion Hs; subst s1; clear Hs.
  destruct (latest_steps_keep_view (f :: tl) ops (mkT (rebuild (t_v s) (f :: tl)) false) Hops) as (H1 & H2).
  { apply rebuild_discards_pending. }
  split; [exact H1|]. apply rebuilt_view_serves; assumption.
Qed.

End View.

(** The hypotheses are satisfiable by the schedule the theorem is about: a
    reader holds SHARED, a poll stages transaction 2 (growth to four pages) in
    the pending index, the target is set to the time of transaction 1, the
    reader unlocks: the view is the three-page database of transaction 1. *)
Example timetravel_example :
  let f1 := mkFile 0 1 1 3 [1; 2; 3] in
  let f2 := mkFile 0 2 2 4 [1; 4] in
  let s0 := mkT (vfs_open_model [f1]) false in
  let s := trun s0 [OLock 1; OPoll [f1; f2] []] in
  v_pending (t_v s) = [(1, mkElem 0 2 2); (4, mkElem 0 2 2)] /\
  file_size_pages (t_v s) = 4 /\
  gc_chain 9 0 [f1] /\
  let s' := trun s [OSetTarget [f1]; OUnlock 0; OPoll [f1; f2] []] in
  t_target s' = true /\ v_pending (t_v s') = [] /\ file_size_pages (t_v s') = 3 /\
  v_index (t_v s') = [(1, mkElem 0 1 1); (2, mkElem 0 1 1); (3, mkElem 0 1 1)].
Proof.
  cbv zeta. split; [vm_compute; reflexivity|]. split; [vm_compute; reflexivity|].
  split; [gc_solve 4%nat|]. repeat split; vm_compute; reflexivity.
Qed.
