(** [sx -> sx] entry points of the VFS layer (C18) for the correspondence runner.

    Encodings
      file    (level min max commit (pgno ...))
      entry   (pgno level min max)                 index binding, sorted by pgno
      state   (index pending pendingReplace pos maxTXID1 commit lockType)
      ledger  ((commit (pgno ...)) ...)            L0 file t..t at position t (1-based) *)
From Coq Require Import List NArith ZArith Bool.
From LS Require Import Base.Sx Base.PMap Vfs.Index Vfs.Poll Vfs.Restore Vfs.Domain Vfs.TimeTravel Vfs.Hydration.
Import ListNotations.
Open Scope N_scope.

Definition file_of_sx (x : sx) : file :=
  mkFile (asN (nthx 0 x)) (asN (nthx 1 x)) (asN (nthx 2 x)) (asN (nthx 3 x)) (asNs (nthx 4 x)).
Definition files_of_sx (x : sx) : list file := map file_of_sx (asL x).

(** bindings are inserted one by one, so the decoded index is canonical even if
    the observed list were not sorted *)
Definition index_of_sx (x : sx) : index :=
  fold_left (fun acc e => pm_set (asN (nthx 0 e))
                                 (mkElem (asN (nthx 1 e)) (asN (nthx 2 e)) (asN (nthx 3 e))) acc)
            (asL x) [].
Definition sx_index (ix : index) : sx :=
  SL (map (fun kv => SL [sxN (fst kv); sxN (e_level (snd kv)); sxN (e_min (snd kv)); sxN (e_max (snd kv))]) ix).

Definition state_of_sx (x : sx) : vfs :=
  mkVfs (index_of_sx (nthx 0 x)) (index_of_sx (nthx 1 x)) (asB (nthx 2 x))
        (asN (nthx 3 x)) (asN (nthx 4 x)) (asN (nthx 5 x)) (asN (nthx 6 x)).
Definition sx_state (v : vfs) : sx :=
  SL [sx_index (v_index v); sx_index (v_pending v); sxB (v_pending_replace v);
      sxN (v_pos v); sxN (v_max1 v); sxN (v_commit v); sxN (v_lock v)].

Definition ledger_of_sx (x : sx) : ledger :=
  map (fun e => mkL (asN (nthx 0 e)) (asNs (nthx 1 e))) (asL x).

(** model entry: VFSFile.Open / ResetTime / SetTargetTime on a restore plan.
    input  [plan]           output [state; FileSize / pageSize] *)
Definition vfs_open (x : sx) : sx :=
  let v := vfs_open_model (files_of_sx (nthx 0 x)) in
  SL [sx_state v; sxN (file_size_pages v)].

(** model entry: one pollReplicaClient.
    input  [state; L0 listing; L1 listing]
    output [ok; state'; FileSize / pageSize]   (ok = 0: error, state unchanged) *)
Definition vfs_poll (x : sx) : sx :=
  let v := state_of_sx (nthx 0 x) in
  match poll v (files_of_sx (nthx 1 x)) (files_of_sx (nthx 2 x)) with
  | Some v' => SL [sxN 1; sx_state v'; sxN (file_size_pages v')]
  | None => SL [sxN 0; sx_state v; sxN (file_size_pages v)]
  end.

(** model entry: Lock (kind 0) / Unlock (kind 1).
    input [state; kind; lock type]   output [ok; state'; FileSize / pageSize] *)
Definition vfs_lockop (x : sx) : sx :=
  let v := state_of_sx (nthx 0 x) in
  let r := if N.eqb (asN (nthx 1 x)) 0 then lock v (asN (nthx 2 x)) else unlock v (asN (nthx 2 x)) in
  match r with
  | Some v' => SL [sxN 1; sx_state v'; sxN (file_size_pages v')]
  | None => SL [sxN 0; sx_state v; sxN (file_size_pages v)]
  end.

(** spec oracle: the implementation's per-page choice equals restore's, and the
    reported size is the restored size.
    input [lock pgno; ledger; pos; observed index; observed FileSize / pageSize]
    output 1 / 0 *)
Definition vfs_pages_ok (x : sx) : sx :=
  let lockp := asN (nthx 0 x) in
  let w := ledger_of_sx (nthx 1 x) in
  let pos := asN (nthx 2 x) in
  sxB (pages_ok lockp w pos (index_of_sx (nthx 3 x)) && size_ok w pos (asN (nthx 4 x))).

(** diagnosis of a failing [vfs_pages_ok] case (same input):
    [((pgno verdict) ...); restored size in pages] *)
Definition vfs_pages_diff (x : sx) : sx :=
  let lockp := asN (nthx 0 x) in
  let w := ledger_of_sx (nthx 1 x) in
  let pos := asN (nthx 2 x) in
  SL [SL (map (fun pv => SL [sxN (fst pv); sxN (snd pv)])
              (pages_diff lockp w pos (index_of_sx (nthx 3 x))));
      sxN (fst (restore_ledger w pos))].

(** which hypotheses of the positive polling theorem a poll violates.
    input [state; L0 listing; L1 listing; lock pgno]
    output [shrink at L0 on a non-full file; stale L1; shrink at L1 on a non-full file;
            an L1 file straddles maxTXID1 (hidden from every poll)] *)
Definition vfs_poll_domain (x : sx) : sx :=
  let fl := poll_domain (asN (nthx 3 x)) (state_of_sx (nthx 0 x))
                        (files_of_sx (nthx 1 x)) (files_of_sx (nthx 2 x)) in
  SL [sxB (fl_shrink_l0 fl); sxB (fl_stale_l1 fl); sxB (fl_shrink_l1 fl);
      sxB (l1_straddles (state_of_sx (nthx 0 x)) (files_of_sx (nthx 2 x)))].

(** input [plan]  output 1 if no file of the plan has a larger commit than the last *)
Definition vfs_open_domain (x : sx) : sx := sxB (open_size_domain (files_of_sx (nthx 0 x))).

(** model entry: one step of the time-travel machine (Vfs/TimeTravel.v).
    input  [state; target set?; op; reads served from the hydrated file?]   op = (0 lock) Lock | (1 lock) Unlock | (2 L0 L1) poll |
                                           (3 plan) SetTargetTime | (4 plan) ResetTime
    output [ok; state'; target set?; FileSize / pageSize; hydrated reads?]   (ok = 0: error, state unchanged) *)
Definition op_of_sx (x : sx) : op :=
  let k := asN (nthx 0 x) in
  if N.eqb k 0 then OLock (asN (nthx 1 x))
  else if N.eqb k 1 then OUnlock (asN (nthx 1 x))
  else if N.eqb k 2 then OPoll (files_of_sx (nthx 1 x)) (files_of_sx (nthx 2 x))
  else if N.eqb k 3 then OSetTarget (files_of_sx (nthx 1 x))
  else OReset (files_of_sx (nthx 1 x)).

Definition vfs_step (x : sx) : sx :=
  let s := mkH (mkT (state_of_sx (nthx 0 x)) (asB (nthx 1 x))) (asB (nthx 3 x)) [] in
  let out (ok : N) (s' : hvfs) :=
    SL [sxN ok; sx_state (t_v (h_t s')); sxB (t_target (h_t s')); sxN (file_size_pages (t_v (h_t s')));
        sxB (h_on s')] in
  match hstep s (HOp (op_of_sx (nthx 2 x))) with
  | Some s' => out 1 s'
  | None => out 0 s
  end.
