(** Model of the page index of /repo/vfs.go: abstract LTX files, index
    elements, [buildIndexMap] / [rebuildIndex] (what [VFSFile.Open],
    [SetTargetTime] and [ResetTime] run on a restore plan), [FileSize] and the
    index lookup of [ReadAt].

    Abstractions.  An LTX file is (level, minTXID, maxTXID, commit, page numbers
    of its page index in file order).  [ltx.PageIndexElem] is (level, minTXID,
    maxTXID, offset, size); offset and size are a function of the file and the
    page number, so an element is projected to the file's identity.  The LRU page
    cache, hydration and write mode are outside the model (the cache is exercised
    by the harness: reads are compared with the restored bytes, not with the
    model). *)
From Coq Require Import List NArith Bool Lia.
From LS Require Import Base.PMap.
Import ListNotations.
Open Scope N_scope.

Record file := mkFile {
  f_level : N;
  f_min : N;
  f_max : N;
  f_commit : N;
  f_pages : list N }.

(** ltx.PageIndexElem projected to the identity of the file it points into *)
Record elem := mkElem { e_level : N; e_min : N; e_max : N }.

Definition index := pmap elem.

Definition elem_of (f : file) : elem := mkElem (f_level f) (f_min f) (f_max f).

(** FetchPageIndex / ltx.DecodePageIndex: pgno -> element of this file *)
Definition file_index (f : file) : list (N * elem) :=
  map (fun p => (p, elem_of f)) (f_pages f).

(** Go: [for k, v := range idx { index[k] = v }] *)
Definition overlay (ix : index) (f : file) : index := pm_union ix (file_index f).

(** vfs.go:1251 buildIndexMap — every file of the plan in order; the commit of
    the last header read wins (0 for an empty plan). *)
Fixpoint build_index_map (infos : list file) (ix : index) (commit : N) : index * N :=
  match infos with
  | [] => (ix, commit)
  | info :: tl => build_index_map tl (overlay ix info) (f_commit info)
  end.

(** vfs.go:1240 maxLevelTXID *)
Fixpoint max_level_txid (infos : list file) (level : N) (acc : N) : N :=
  match infos with
  | [] => acc
  | info :: tl =>
      max_level_txid tl level
        (if N.eqb (f_level info) level && N.ltb acc (f_max info) then f_max info else acc)
  end.

(** sqlite3vfs.LockType *)
Definition LockNone : N := 0.
Definition LockShared : N := 1.

Record vfs := mkVfs {
  v_index : index;
  v_pending : index;
  v_pending_replace : bool;
  v_pos : N;        (* f.pos.TXID *)
  v_max1 : N;       (* f.maxTXID1 *)
  v_commit : N;     (* f.commit *)
  v_lock : N }.     (* f.lockType *)

(** vfs.go:1200 rebuildIndex on a plan (target time does not enter the index);
    [Open] calls it through [buildIndex] with a fresh file (lockType = none). *)
Definition rebuild_index (infos : list file) (lock : N) : vfs :=
  let '(ix, commit) := build_index_map infos [] 0 in
  let pos := match infos with [] => 0 | _ => f_max (last infos (mkFile 0 0 0 0 [])) end in
  let m1 := max_level_txid infos 1 0 in
  let m1 := if N.eqb m1 0 then pos else m1 in
  mkVfs ix [] false pos m1 commit lock.

Definition vfs_open_model (infos : list file) : vfs := rebuild_index infos LockNone.

(** largest key of an index, 0 when empty *)
Fixpoint max_key (m : index) : N :=
  match m with
  | [] => 0
  | (k, _) :: tl => N.max k (max_key tl)
  end.

(** vfs.go:2153 FileSize in pages (the Go value is this times the page size);
    the dirty map is empty in read-only mode. *)
Definition file_size_pages (v : vfs) : N := N.max (max_key (v_index v)) (max_key (v_pending v)).
Definition file_size (ps : N) (v : vfs) : N := file_size_pages v * ps.

(** vfs.go:1422 ReadAt: pgno = off / pageSize + 1; the element that is fetched
    ([None]: "page not found") *)
Definition read_pgno (ps off : N) : N := off / ps + 1.
Definition read_lookup (v : vfs) (pgno : N) : option elem := pm_get pgno (v_index v).
Definition read_at (ps : N) (v : vfs) (off : N) : option elem := read_lookup v (read_pgno ps off).
