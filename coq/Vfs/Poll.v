(** Model of polling in /repo/vfs.go: [pollLevel] (2626), [pollReplicaClient]
    (2500), and the part of [Lock] / [Unlock] (2182, 2231) that moves the pending
    index into the main index.  Branch for branch; time travel ([targetTime]) and
    hydration are outside the model: a poll with a target time set changes
    nothing. *)
From Coq Require Import List NArith Bool Lia.
From LS Require Import Base.PMap Vfs.Index.
Import ListNotations.
Open Scope N_scope.

Inductive pl_result :=
| PLOk (maxTXID : N) (ix : index) (commit : N) (replace : bool)
| PLErr.

(** the body of [for itr.Next()] of pollLevel; [files] is what the iterator yields *)
Fixpoint poll_level_loop (level : N) (files : list file) (maxTXID : N) (ix : index)
         (lastCommit newCommit : N) (replace : bool) : pl_result :=
  match files with
  | [] => PLOk maxTXID ix newCommit replace
  | info :: tl =>
      let isNextTXID := N.eqb (f_min info) (maxTXID + 1) in
      if negb isNextTXID then
        if N.eqb level 0 && N.ltb (maxTXID + 1) (f_min info)
        then PLOk maxTXID ix newCommit replace          (* gap at L0: break *)
        else PLErr                                      (* non-contiguous ltx file *)
      else
        let shrink := N.ltb (f_commit info) lastCommit in
        let replace' := if shrink then true else replace in
        let ix' := if shrink then [] else ix in
        poll_level_loop level tl (f_max info) (overlay ix' info) (f_commit info) (f_commit info) replace'
  end.

(** file/replica_client.go LTXFiles(level, seek): files of the level with
    [minTXID >= seek], sorted by (minTXID, maxTXID) by ltx.NewFileInfoSliceIterator.
    [listing] is the level's directory already in that order. *)
Definition ltx_files (listing : list file) (seek : N) : list file :=
  filter (fun f => N.leb seek (f_min f)) listing.

Definition poll_level (level : N) (listing : list file) (prevMaxTXID baseCommit : N) : pl_result :=
  poll_level_loop level (ltx_files listing (prevMaxTXID + 1)) prevMaxTXID [] baseCommit baseCommit false.

Definition is_empty (m : index) : bool := match m with [] => true | _ => false end.

(** vfs.go:2500 pollReplicaClient.  [None]: the poll returned an error and the
    file's state is unchanged. *)
Definition poll (v : vfs) (l0 l1 : list file) : option vfs :=
  let pos := v_pos v in
  let baseCommit := v_commit v in
  let maxTXID1Snapshot := v_max1 v in
  let newCommit := baseCommit in
  match poll_level 0 l0 pos baseCommit with
  | PLErr => None
  | PLOk maxTXID0 idx0 commit0 replace0 =>
      let replaceIndex := replace0 in
      let baseCommit := if replace0 then commit0
                        else if negb (is_empty idx0) then commit0 else baseCommit in
      let newCommit := if replace0 then commit0
                       else if N.ltb newCommit commit0 then commit0 else newCommit in
      let combined := if replace0 then idx0 else pm_union [] idx0 in
      match poll_level 1 l1 maxTXID1Snapshot baseCommit with
      | PLErr => None
      | PLOk maxTXID1 idx1 commit1 replace1 =>
          let replaceIndex := if replace1 then true else replaceIndex in
          let newCommit := if replace1 then commit1
                           else if N.ltb newCommit commit1 then commit1 else newCommit in
          let combined := if replace1 then idx1 else pm_union combined idx1 in
          (* apply under f.mu *)
          let shared := N.leb LockShared (v_lock v) in
          let index1 := if replaceIndex && negb shared then [] else v_index v in
          let pending1 := if replaceIndex && shared then [] else v_pending v in
          let pendingReplace :=
              if replaceIndex then shared
              else if shared then v_pending_replace v else false in
          let index2 := if shared then index1 else pm_union index1 combined in
          let pending2 := if shared then pm_union pending1 combined else pending1 in
          let commit := if replaceIndex then newCommit
                        else if negb (is_empty combined) && N.ltb (v_commit v) newCommit then newCommit
                        else v_commit v in
          let pos' := if N.ltb maxTXID1 maxTXID0 then maxTXID0 else maxTXID1 in
          Some (mkVfs index2 pending2 pendingReplace pos' maxTXID1 commit (v_lock v))
      end
  end.

(** vfs.go:2182 Lock (read-only file: a lock >= RESERVED is refused) *)
Definition LockReserved : N := 2.
Definition lock (v : vfs) (elock : N) : option vfs :=
  if N.ltb elock (v_lock v) then None
  else if N.leb LockReserved elock then None
  else Some (mkVfs (v_index v) (v_pending v) (v_pending_replace v) (v_pos v) (v_max1 v) (v_commit v) elock).

(** vfs.go:2231 Unlock *)
Definition unlock (v : vfs) (elock : N) : option vfs :=
  if negb (N.eqb elock LockShared) && negb (N.eqb elock LockNone) then None
  else
    let ix := if v_pending_replace v then v_pending v
              else if negb (is_empty (v_pending v)) then pm_union (v_index v) (v_pending v)
              else v_index v in
    Some (mkVfs ix [] false (v_pos v) (v_max1 v) (v_commit v) elock).
