(** C18 proofs, collected: open time ([OpenProofs]) and polling ([PollProofs]). *)
From LS Require Export Vfs.PMapFacts Vfs.World Vfs.OpenProofs Vfs.PollProofs Vfs.TimeTravelProofs Vfs.HydrationProofs.

(** names used by DESIGN §6 C18 *)
Definition vfs_open_refines_restore := open_refines_restore.
Definition vfs_poll_refines_restore_on_domain := poll_refines_restore_on_domain.
Definition vfs_poll_partial_shrink_refuted := poll_partial_shrink_refuted.
Definition vfs_poll_l1_over_l0_refuted := poll_l1_over_l0_refuted.
