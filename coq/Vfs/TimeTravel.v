(** Time travel and its interaction with the read lock and the pending index
    (/repo/vfs.go SetTargetTime 1166, ResetTime 1188, rebuildIndex 1200, the
    [targetTime] test of pollReplicaClient 2557, Lock 2182, Unlock 2231).

    State: the index state of Poll.v plus whether a target time is set.  The
    restore plan for the target (CalcRestorePlan at the timestamp, or at the
    latest position for ResetTime) is an input of the step. *)
From Coq Require Import List NArith Bool Lia.
From LS Require Import Base.PMap Vfs.Index Vfs.Poll.
Import ListNotations.
Open Scope N_scope.

Record tvfs := mkT { t_v : vfs; t_target : bool }.

Inductive op :=
| OLock (elock : N)
| OUnlock (elock : N)
| OPoll (l0 l1 : list file)
| OSetTarget (plan : list file)     (* SetTargetTime(ts), plan = CalcRestorePlan(ts) *)
| OReset (plan : list file).        (* ResetTime(),       plan = CalcRestorePlan(latest) *)

(** rebuildIndex on a live file: index, pos, maxTXID1, commit from the plan; the
    pending index and the pendingReplace flag are discarded; the lock is kept *)
Definition rebuild (v : vfs) (plan : list file) : vfs := rebuild_index plan (v_lock v).

(** [None]: the call returned an error and the state is unchanged *)
Definition tstep (s : tvfs) (o : op) : option tvfs :=
  match o with
  | OLock e => match lock (t_v s) e with Some v => Some (mkT v (t_target s)) | None => None end
  | OUnlock e => match unlock (t_v s) e with Some v => Some (mkT v (t_target s)) | None => None end
  | OPoll l0 l1 =>
      match poll (t_v s) l0 l1 with
      | None => None                                   (* poll L0 / poll L1 error *)
      | Some v' => if t_target s then Some s           (* "skip applying updates while time travel is active" *)
                   else Some (mkT v' false)
      end
  | OSetTarget plan =>
      match plan with
      | [] => None                                     (* "no backup files available" *)
      | _ => Some (mkT (rebuild (t_v s) plan) true)
      end
  | OReset plan =>
      match plan with
      | [] => None
      | _ => Some (mkT (rebuild (t_v s) plan) false)
      end
  end.

Definition tstep_total (s : tvfs) (o : op) : tvfs :=
  match tstep s o with Some s' => s' | None => s end.

Definition trun (s : tvfs) (ops : list op) : tvfs := fold_left tstep_total ops s.
