(** The segment loop of applyWALSegmentsV3 with the bytes it writes, under downloads that fail
    (C10 on the legacy path).

    [V3/Restore.v] models the loop as a planner: which segments end up in which reconstructed
    WAL file.  Here every segment additionally carries what its download delivered: the bytes
    [io.Copy] wrote into the open WAL file and whether the stream ended in an error.
    replica.go: appendWALSegmentV3 returns [io.Copy]'s count and error; the loop advances
    [offset] by the count and returns "write WAL segment ..." on an error; RestoreV3 then
    returns that error and its deferred [os.Remove(tmpPath)] removes the staging file, so
    nothing is renamed to the output path.  There is no retry. *)
From Coq Require Import List NArith Bool Lia.
From LS Require Import V3.Restore.
Import ListNotations.
Open Scope N_scope.

(** a download: the bytes delivered before the stream ended, and how it ended *)
Record dl := mkDl { d_bytes : list N; d_err : bool }.

(** a reconstructed WAL file with the downloads written into it, in order *)
Definition walbytes := (N * list (seg * dl))%type.

Definition flushb (cur : option walbytes) (done : list walbytes) : list walbytes :=
  match cur with
  | None => done
  | Some w => done ++ [w]
  end.

Definition dlen (d : dl) : N := N.of_nat (length (d_bytes d)).

(** the loop of Restore.apply_loop, test for test, with [offset += n] for the delivered count *)
Fixpoint apply_dl (segs : list (seg * dl)) (expected offset : N) (cur : option walbytes)
         (done : list walbytes) : aerr + list walbytes :=
  match segs with
  | [] => inr (flushb cur done)
  | (s, d) :: tl =>
      if sg_off s =? 0 then
        let done' := flushb cur done in
        if negb (sg_idx s =? expected) then inl ErrIndex
        else if d_err d then inl ErrWrite                      (* write WAL segment: %w *)
        else apply_dl tl (expected + 1) (0 + dlen d) (Some (sg_idx s, [(s, d)])) done'
      else if negb (sg_idx s + 1 =? expected) || negb (sg_off s =? offset)
           then inl ErrSegment
      else
        match cur with
        | None => inl ErrWrite
        | Some (i, ss) =>
            if d_err d then inl ErrWrite
            else apply_dl tl expected (offset + dlen d) (Some (i, ss ++ [(s, d)])) done
        end
  end.

Definition apply_segs_dl (si : N) (segs : list (seg * dl)) : aerr + list walbytes :=
  match segs with
  | [] => inr []
  | _ => apply_dl segs si 0 None []
  end.

(** the bytes of one reconstructed WAL file *)
Definition file_bytes (w : walbytes) : list N := concat (map (fun p => d_bytes (snd p)) (snd w)).

(** forgetting the bytes *)
Definition erase_file (w : walbytes) : walfile := (fst w, map fst (snd w)).
Definition erase (r : aerr + list walbytes) : aerr + list walfile :=
  match r with inl e => inl e | inr fs => inr (map erase_file fs) end.

(** a download that delivered exactly what the listing promised *)
Definition complete (p : seg * dl) : bool := negb (d_err (snd p)) && (dlen (snd p) =? sg_size (fst p)).

(** * 1. any read error makes the restore fail: no plan, no files, whatever else is listed *)
Lemma apply_dl_error_fails : forall segs expected offset cur done,
  Exists (fun p => d_err (snd p) = true) segs ->
  exists e, apply_dl segs expected offset cur done = inl e.
Proof.
  induction segs as [|[s d] tl IH]; intros expected offset cur done HE; [inversion HE|].
  cbn [apply_dl].
  assert (TL : d_err d = false -> Exists (fun p => d_err (snd p) = true) tl).
  { intros Hd. inversion HE as [? ? H1|? ? H1]; subst; [cbn in H1; congruence|exact H1]. }
  destruct (sg_off s =? 0).
  - destruct (negb (sg_idx s =? expected)); [eexists; reflexivity|].
    destruct (d_err d) eqn:Ed; [eexists; reflexivity|]. apply IH. auto.
  - destruct (negb (sg_idx s + 1 =? expected) || negb (sg_off s =? offset)); [eexists; reflexivity|].
    destruct cur as [[i ss]|]; [|eexists; reflexivity].
    destruct (d_err d) eqn:Ed; [eexists; reflexivity|]. apply IH. auto.
Qed.

Theorem v3_read_error_fails_lemma : forall si segs,
  Exists (fun p => d_err (snd p) = true) segs -> exists e, apply_segs_dl si segs = inl e.
Proof.
  intros si segs HE. destruct segs as [|p tl]; [inversion HE|].
  unfold apply_segs_dl. apply apply_dl_error_fails. exact HE.
Qed.

(** * 2. complete downloads: the loop is the planner of Restore.v and every reconstructed WAL
      holds exactly the concatenation of its segments' contents *)
Lemma erase_flushb cur done :
  map erase_file (flushb cur done) = flush (option_map erase_file cur) (map erase_file done).
Proof. destruct cur; cbn; [rewrite map_app; reflexivity|reflexivity]. Qed.

Lemma apply_dl_complete : forall segs expected offset cur done,
  forallb complete segs = true ->
  erase (apply_dl segs expected offset cur done) =
  apply_loop (map fst segs) expected offset (option_map erase_file cur) (map erase_file done).
Proof.
  induction segs as [|[s d] tl IH]; intros expected offset cur done HC.
  - cbn [apply_dl map apply_loop erase]. rewrite erase_flushb. reflexivity.
  - cbn [forallb] in HC. apply andb_true_iff in HC. destruct HC as [Hc HC].
    unfold complete in Hc. cbn [fst snd] in Hc. apply andb_true_iff in Hc. destruct Hc as [He Hl].
    apply negb_true_iff in He. apply N.eqb_eq in Hl.
    cbn [apply_dl map fst apply_loop]. rewrite He.
    destruct (sg_off s =? 0).
    + destruct (negb (sg_idx s =? expected)); [reflexivity|].
      rewrite IH by exact HC. rewrite erase_flushb, Hl. reflexivity.
    + destruct (negb (sg_idx s + 1 =? expected) || negb (sg_off s =? offset)); [reflexivity|].
      destruct cur as [[i ss]|]; cbn [option_map erase_file fst snd]; [|reflexivity].
      rewrite IH by exact HC. rewrite Hl. unfold erase_file at 1. cbn [option_map fst snd]. rewrite map_app. reflexivity.
Qed.

Theorem v3_complete_downloads_follow_plan_lemma : forall si segs,
  forallb complete segs = true ->
  erase (apply_segs_dl si segs) = apply_segs si (map fst segs).
Proof.
  intros si segs HC. destruct segs as [|p tl]; [reflexivity|].
  unfold apply_segs_dl, apply_segs. cbn [map]. apply (apply_dl_complete (p :: tl) si 0 None [] HC).
Qed.

(** * 3. a stream that ends cleanly but early in front of a continuation segment is a gap error *)
Theorem v3_short_download_before_continuation_errors_lemma :
  forall (pre : list (seg * dl)) (s : seg) (d : dl) (s' : seg) (d' : dl) (post : list (seg * dl))
         expected offset cur done expected' offset' cur' done',
  (* the loop reaches (s, d) with some state and accepts it ... *)
  (forall rest, apply_dl (pre ++ (s, d) :: rest) expected offset cur done =
                apply_dl ((s, d) :: rest) expected' offset' cur' done') ->
  d_err d = false -> dlen d < sg_size s ->
  (sg_off s =? 0) = true -> (sg_idx s =? expected') = true ->
  (* ... and the listing continues with the segment that starts where (s) should have ended *)
  sg_off s' = sg_size s -> sg_off s' <> 0 ->
  apply_dl (pre ++ (s, d) :: (s', d') :: post) expected offset cur done = inl ErrSegment.
Proof.
  intros pre s d s' d' post expected offset cur done expected' offset' cur' done' Hreach Hd Hshort Hoff Hidx Hs' Hnz.
  rewrite Hreach. cbn [apply_dl]. rewrite Hoff, Hidx, Hd. cbn [negb].
  replace (sg_off s' =? 0) with false by (symmetry; apply N.eqb_neq; exact Hnz).
  replace (sg_off s' =? 0 + dlen d) with false by (symmetry; apply N.eqb_neq; lia).
  rewrite orb_true_r. reflexivity.
Qed.

(** * 4. ... but nothing notices it at the END of the listing: the decompressed stream carries no
      length or checksum of its own, the listed size is not compared with the count.  (On the real
      code a stored object that is cut short is caught one layer below, by the LZ4 frame reader
      of the replica client — the harness cuts the stored objects at many offsets and every cut
      is an error; a ReplicaClientV3 that hands out a cleanly ended short stream is outside what
      the file client can produce.)  Kept as a statement about the loop alone. *)
Theorem v3_short_last_download_accepted_lemma :
  exists si segs plan,
    apply_segs_dl si segs = inr plan /\ forallb complete segs = false /\
    Forall (fun p => d_err (snd p) = false) segs.
Proof.
  exists 0, [(mkSeg 0 0 100 1, mkDl [1; 2; 3] false)], [(0, [(mkSeg 0 0 100 1, mkDl [1; 2; 3] false)])].
  split; [reflexivity|]. split; [reflexivity|]. repeat constructor.
Qed.

(** non-vacuity of 2: two WAL files, the first in two segments *)
Example complete_example :
  let segs := [(mkSeg 0 0 2 1, mkDl [7; 8] false); (mkSeg 0 2 1 2, mkDl [9] false);
               (mkSeg 1 0 1 3, mkDl [5] false)] in
  forallb complete segs = true /\
  match apply_segs_dl 0 segs with
  | inr fs => map file_bytes fs = [[7; 8; 9]; [5]]
  | inl _ => False
  end.
Proof. cbn. split; reflexivity. Qed.
