(** Model of the v0.3.x ("legacy") restore path of litestream:
    replica.go RestoreV3 (1067), sortSnapshotsV3ByCreatedAt (1179),
    findBestSnapshotV3 (1192), filterWALSegmentsV3 (1209), applyWALSegmentsV3
    (1244, as a planner over the listing), TimeBoundsV3 (1458),
    findBestLTXSnapshotForTimestamp (1497) and shouldUseV3Restore (1400).

    Times are [N]; [0] is Go's zero [time.Time] (which is smaller than every
    real time), so [IsZero t] is [t =? 0], [a.After b] is [b <? a] and
    [a.Before b] is [a <? b].  The functions follow the Go control flow branch
    for branch, with the same comparison operators and the same order of
    tests. *)
From Coq Require Import List NArith Bool.
Import ListNotations.
Open Scope N_scope.

(** * The listing *)

(** SnapshotInfoV3: generation (its position in the sorted output of
    GenerationsV3), index, CreatedAt *)
Record snap := mkSnap { sn_gen : N; sn_idx : N; sn_created : N }.

(** WALSegmentInfoV3: index, offset, number of bytes the segment yields when
    it is opened (what [io.Copy] returns in appendWALSegmentV3), CreatedAt *)
Record seg := mkSeg { sg_idx : N; sg_off : N; sg_size : N; sg_created : N }.

(** one generation: SnapshotsV3 (index, CreatedAt) in listing order and
    WALSegmentsV3 in listing order *)
Record gen := mkGen { g_snaps : list (N * N); g_segs : list seg }.

(** GenerationsV3, in listing order *)
Definition layout := list gen.

(** * Collecting and sorting snapshots (RestoreV3 1097-1110) *)

Fixpoint collect_from (g : N) (l : layout) : list snap :=
  match l with
  | [] => []
  | x :: tl => map (fun p => mkSnap g (fst p) (snd p)) (g_snaps x) ++ collect_from (g + 1) tl
  end.
Definition collect (l : layout) : list snap := collect_from 0 l.

(** the inner loop of sortSnapshotsV3ByCreatedAt for a fixed [i]:
    [for j := i+1; j < n; j++ { if a[i].After(a[j]) { swap } }];
    [x] is the current [a[i]], the list is [a[i+1..]]; returns the final
    [a[i]] and the final tail *)
Fixpoint sweep (x : snap) (r : list snap) : snap * list snap :=
  match r with
  | [] => (x, [])
  | y :: tl =>
      if sn_created y <? sn_created x          (* a[i].CreatedAt.After(a[j].CreatedAt) *)
      then let (m, tl') := sweep y tl in (m, x :: tl')
      else let (m, tl') := sweep x tl in (m, y :: tl')
  end.

(** the outer loop; [fuel] = number of elements *)
Fixpoint xsort_fuel (fuel : nat) (l : list snap) : list snap :=
  match fuel with
  | O => l
  | S f =>
      match l with
      | [] => []
      | x :: r => let (m, r') := sweep x r in m :: xsort_fuel f r'
      end
  end.
Definition sort_snaps (l : list snap) : list snap := xsort_fuel (length l) l.

(** * findBestSnapshotV3 *)

(** the descending loop [for i := len-1; i >= 0; i--] over [rev l] *)
Fixpoint first_not_after (T : N) (r : list snap) : option snap :=
  match r with
  | [] => None
  | s :: tl => if negb (T <? sn_created s) then Some s else first_not_after T tl
  end.

Definition find_best (l : list snap) (T : N) : option snap :=
  match l with
  | [] => None                                       (* len(snapshots) == 0 *)
  | _ =>
      if T =? 0 then Some (last l (mkSnap 0 0 0))      (* timestamp.IsZero() *)
      else first_not_after T (rev l)
  end.

(** * filterWALSegmentsV3 *)

Definition seg_kept (si T : N) (s : seg) : bool :=
  if sg_idx s <? si then false                                   (* seg.Index < snapshotIndex *)
  else if negb (T =? 0) && (T <? sg_created s) then false        (* !IsZero && After *)
  else true.
Definition filter_segs (segs : list seg) (si T : N) : list seg := filter (seg_kept si T) segs.

(** * applyWALSegmentsV3 as a planner *)

(** a reconstructed WAL file: the index it is applied as and the segments
    written into it, in order *)
Definition walfile := (N * list seg)%type.

Inductive aerr := ErrIndex | ErrSegment | ErrWrite.

(** applyLastWalFile: close and checkpoint the current WAL, if any *)
Definition flush (cur : option walfile) (done : list walfile) : list walfile :=
  match cur with
  | None => done
  | Some w => done ++ [w]
  end.

(** the [for _, seg := range segments] loop.  [expected] is expectedIndex,
    [offset] the bytes written to the current WAL, [cur] the open file [f]
    ([None] = nil) with what has been written, [done] the WALs already
    checkpointed. *)
Fixpoint apply_loop (segs : list seg) (expected offset : N) (cur : option walfile)
         (done : list walfile) : aerr + list walfile :=
  match segs with
  | [] => inr (flush cur done)                                   (* return applyLastWalFile() *)
  | s :: tl =>
      if sg_off s =? 0 then
        let done' := flush cur done in                           (* applyLastWalFile() *)
        if negb (sg_idx s =? expected) then inl ErrIndex         (* seg.Index != expectedIndex *)
        else apply_loop tl (expected + 1) (0 + sg_size s) (Some (sg_idx s, [s])) done'
      else if negb (sg_idx s + 1 =? expected) || negb (sg_off s =? offset)
           then inl ErrSegment      (* seg.Index != expectedIndex-1 || seg.Offset != offset
                                       (over Go's signed ints, idx = expected-1 iff idx+1 = expected) *)
      else
        match cur with
        | None => inl ErrWrite                                   (* io.Copy into a nil *os.File *)
        | Some (i, ss) => apply_loop tl expected (offset + sg_size s) (Some (i, ss ++ [s])) done
        end
  end.

Definition apply_segs (si : N) (segs : list seg) : aerr + list walfile :=
  match segs with
  | [] => inr []                                                 (* len(segments) == 0 *)
  | _ => apply_loop segs si 0 None []
  end.

(** * RestoreV3 *)

Inductive v3res :=
| V3NoSnapshots                       (* ErrNoSnapshots *)
| V3Err (s : snap) (e : aerr)         (* "apply WAL segments: missing WAL index / segment" *)
| V3Ok (s : snap) (plan : list walfile).

Definition segs_of (l : layout) (g : N) : list seg := g_segs (nth (N.to_nat g) l (mkGen [] [])).

Definition best_snapshot (l : layout) (T : N) : option snap :=
  find_best (sort_snaps (collect l)) T.

Definition restore_v3 (l : layout) (T : N) : v3res :=
  match l with
  | [] => V3NoSnapshots                                          (* len(generations) == 0 *)
  | _ =>
      match collect l with
      | [] => V3NoSnapshots                                      (* len(allSnapshots) == 0 *)
      | all =>
          match find_best (sort_snaps all) T with
          | None => V3NoSnapshots
          | Some s =>
              let segs := filter_segs (segs_of l (sn_gen s)) (sn_idx s) T in
              match apply_segs (sn_idx s) segs with
              | inl e => V3Err s e
              | inr plan => V3Ok s plan
              end
          end
      end
  end.

(** * Format arbitration *)

(** TimeBoundsV3: the (createdAt, updatedAt) fold, snapshots then segments of
    each generation *)
Definition tb_step (acc : N * N) (c : N) : N * N :=
  let (cr, up) := acc in
  ((if (cr =? 0) || (c <? cr) then c else cr),      (* createdAt.IsZero() || c.Before(createdAt) *)
   (if (up =? 0) || (up <? c) then c else up)).     (* updatedAt.IsZero() || c.After(updatedAt) *)

Definition gen_times (g : gen) : list N := map snd (g_snaps g) ++ map sg_created (g_segs g).

Definition time_bounds_v3 (l : layout) : N * N :=
  fold_left (fun acc g => fold_left tb_step (gen_times g) acc) l (0, 0).

(** the current ("LTX") side of the replica as the arbitration sees it:
    CreatedAt of the level-9 snapshot files in listing order, and CreatedAt of
    the files of the other levels (TimeBounds walks level 9 first) *)
Record ltxside := mkLtx { lx_snaps : list N; lx_others : list N }.

Definition time_bounds_ltx (x : ltxside) : N * N :=
  fold_left tb_step (lx_snaps x ++ lx_others x) (0, 0).

(** findBestLTXSnapshotForTimestamp: the last listed snapshot with
    [CreatedAt.Before(timestamp)] *)
Definition best_ltx (x : ltxside) (T : N) : option N :=
  match filter (fun c => c <? T) (lx_snaps x) with
  | [] => None
  | a => Some (last a 0)
  end.

(** findBestV3SnapshotForTimestamp *)
Definition best_v3_for_ts (l : layout) (T : N) : option snap :=
  match l with
  | [] => None
  | _ =>
      match collect l with
      | [] => None
      | all => find_best (sort_snaps all) T
      end
  end.

Definition should_use_v3 (l : layout) (x : ltxside) (T : N) : bool :=
  let v3u := snd (time_bounds_v3 l) in
  let lu := snd (time_bounds_ltx x) in
  if v3u =? 0 then false                               (* no v0.3.x backups *)
  else if lu =? 0 then true                            (* no LTX backups *)
  else if negb (T =? 0) then
    match best_v3_for_ts l T with
    | Some s =>
        match best_ltx x T with
        | None => true
        | Some c => c <? sn_created s                  (* v3Snapshot.CreatedAt.After(ltx.CreatedAt) *)
        end
    | None => false
    end
  else lu <? v3u.                                      (* v3UpdatedAt.After(ltxUpdatedAt) *)
