(** What property C19 demands of a v0.3.x restore, stated independently of the
    planner: which snapshots are eligible, which segments are eligible, and
    when a list of eligible segments is a gap-free reconstruction of
    consecutive WAL files.  The ground truth the property speaks about (how
    long every WAL file of the source really was) is an explicit argument. *)
From Coq Require Import List NArith Bool.
From LS Require Import V3.Restore.
Import ListNotations.
Open Scope N_scope.

(** a snapshot is eligible for a restore at [T] ([0] = latest) *)
Definition snap_eligible (T : N) (s : snap) : bool := (T =? 0) || (sn_created s <=? T).

Definition snap_eqb (a b : snap) : bool :=
  (sn_gen a =? sn_gen b) && (sn_idx a =? sn_idx b) && (sn_created a =? sn_created b).

(** [s] is a newest eligible snapshot of [all] *)
Definition newest_eligible (all : list snap) (T : N) (s : snap) : bool :=
  existsb (snap_eqb s) all && snap_eligible T s &&
  forallb (fun s' => negb (snap_eligible T s') || (sn_created s' <=? sn_created s)) all.

(** a segment is eligible: belongs to the snapshot's index or a later one and
    is not newer than [T] *)
Definition seg_eligible (si T : N) (s : seg) : bool :=
  (si <=? sg_idx s) && ((T =? 0) || (sg_created s <=? T)).

(** Gap-freedom.  [truelen i] is the real length of WAL file [i] of the
    generation.  [cur] is the WAL file being rebuilt (index, bytes so far),
    [want] the index the next WAL file must have.  A segment either continues
    the current file (same index, offset = bytes so far) or starts the next
    file (offset 0, index [want]) — and then the current file must be
    complete. *)
Fixpoint gap_free (truelen : N -> N) (segs : list seg) (cur : option (N * N)) (want : N) : bool :=
  match segs with
  | [] => true
  | s :: tl =>
      let continues :=
        match cur with
        | Some (i, off) => negb (sg_off s =? 0) && (sg_idx s =? i) && (sg_off s =? off)
        | None => false
        end in
      let starts :=
        (sg_off s =? 0) && (sg_idx s =? want) &&
        match cur with
        | Some (i, off) => off =? truelen i
        | None => true
        end in
      if continues then
        match cur with
        | Some (i, off) => gap_free truelen tl (Some (i, off + sg_size s)) want
        | None => false
        end
      else if starts then gap_free truelen tl (Some (sg_idx s, sg_size s)) (want + 1)
      else false
  end.

(** the position reached: last WAL index and bytes of it (the snapshot's own
    position when there is no eligible segment) *)
Fixpoint end_pos (segs : list seg) (cur : N * N) : N * N :=
  match segs with
  | [] => cur
  | s :: tl => if sg_off s =? 0 then end_pos tl (sg_idx s, sg_size s)
               else end_pos tl (fst cur, snd cur + sg_size s)
  end.

(** every segment of a reconstructed WAL file carries that file's index *)
Definition file_uniform (w : walfile) : bool := forallb (fun s => sg_idx s =? fst w) (snd w).

(** * Format arbitration, as the property states it: "when both legacy and
    current formats are present the one holding the more recent eligible
    backup is used".  Without a timestamp every file is an eligible backup;
    with a timestamp [T] the eligible backups are the snapshots a restore at
    [T] can start from (legacy: created at or before [T]; current format:
    created before [T], the rule of CalcRestorePlan).  Ties go to the
    current format. *)
Definition maxl (l : list N) : N := fold_right N.max 0 l.

Definition layout_times (l : layout) : list N :=
  flat_map (fun g => map snd (g_snaps g) ++ map sg_created (g_segs g)) l.

Definition arb_spec (l : layout) (x : ltxside) (T : N) : bool :=
  match layout_times l, lx_snaps x ++ lx_others x with
  | [], _ => false
  | _, [] => true
  | vt, lt =>
      if T =? 0 then maxl lt <? maxl vt
      else
        match filter (fun c => c <=? T) (map sn_created (collect l)), filter (fun c => c <? T) (lx_snaps x) with
        | [], _ => false
        | _, [] => true
        | ev, el => maxl el <? maxl ev
        end
  end.
