(** [sx -> sx] entry points of the V3 layer for the correspondence runner. *)
From Coq Require Import List NArith ZArith Bool.
From LS Require Import Base.Sx V3.Restore V3.Spec.
Import ListNotations.
Open Scope N_scope.

(** generations: ( (snaps segs) ... ), snaps = ((idx created) ...),
    segs = ((idx off size created) ...) *)
Definition dec_seg (x : sx) : seg :=
  mkSeg (asN (nthx 0 x)) (asN (nthx 1 x)) (asN (nthx 2 x)) (asN (nthx 3 x)).
Definition dec_gen (x : sx) : gen :=
  mkGen (map (fun p => (asN (nthx 0 p), asN (nthx 1 p))) (asL (nthx 0 x)))
        (map dec_seg (asL (nthx 1 x))).
Definition dec_layout (x : sx) : layout := map dec_gen (asL x).

Definition enc_opened (plan : list walfile) : sx :=
  SL (map (fun s => SL [sxN (sg_idx s); sxN (sg_off s)]) (flat_map snd plan)).

(** model entry.  input [gens; T]
    output [status; generation; snapshot index; opened segments ((idx off) ...)]
    status 0 ok | 1 no snapshot | 2 missing WAL index | 3 missing WAL segment | 4 write error;
    the last three fields are filled on status 0 only *)
Definition v3_plan (x : sx) : sx :=
  let l := dec_layout (nthx 0 x) in
  let T := asN (nthx 1 x) in
  let fail (c : N) := SL [sxN c; sxN 0; sxN 0; SL []] in
  match restore_v3 l T with
  | V3NoSnapshots => fail 1
  | V3Err _ ErrIndex => fail 2
  | V3Err _ ErrSegment => fail 3
  | V3Err _ ErrWrite => fail 4
  | V3Ok s plan => SL [sxN 0; sxN (sn_gen s); sxN (sn_idx s); enc_opened plan]
  end.

(** the planner pieces on their own (hook file export_verif_v3.go).
    input [snaps ((gen idx created) ...); T]   output [found; gen; idx; created] after
    sortSnapshotsV3ByCreatedAt + findBestSnapshotV3 *)
Definition v3_best (x : sx) : sx :=
  let snaps := map (fun p => mkSnap (asN (nthx 0 p)) (asN (nthx 1 p)) (asN (nthx 2 p))) (asL (nthx 0 x)) in
  match find_best (sort_snaps snaps) (asN (nthx 1 x)) with
  | None => SL [sxN 0; sxN 0; sxN 0; sxN 0]
  | Some s => SL [sxN 1; sxN (sn_gen s); sxN (sn_idx s); sxN (sn_created s)]
  end.

(** input [snaps ((gen idx created) ...)]   output the list after sortSnapshotsV3ByCreatedAt *)
Definition v3_sort (x : sx) : sx :=
  let snaps := map (fun p => mkSnap (asN (nthx 0 p)) (asN (nthx 1 p)) (asN (nthx 2 p))) (asL (nthx 0 x)) in
  SL (map (fun s => SL [sxN (sn_gen s); sxN (sn_idx s); sxN (sn_created s)]) (sort_snaps snaps)).

(** input [segs; snapshot index; T]   output ((idx off) ...) after filterWALSegmentsV3 *)
Definition v3_filter (x : sx) : sx :=
  SL (map (fun s => SL [sxN (sg_idx s); sxN (sg_off s)])
          (filter_segs (map dec_seg (asL (nthx 0 x))) (asN (nthx 1 x)) (asN (nthx 2 x)))).

(** input [gens; ltx snapshot times; other ltx file times; T]   output 1 = legacy restore is used *)
Definition v3_arbitrate (x : sx) : sx :=
  sxB (should_use_v3 (dec_layout (nthx 0 x)) (mkLtx (asNs (nthx 1 x)) (asNs (nthx 2 x))) (asN (nthx 3 x))).

(** * Spec-level oracle on the implementation's observable choice.

    input [gens; T; truth; obs]
      truth: per generation (same order as gens) ((index truelen base (commit-end ...)) ...):
             real length of WAL file [index], number of the database state at
             its start (states are numbered over the whole source history) and
             the end offsets of its commits
      obs:   [status; generation; snapshot index; opened; matched] where
             matched = number of the source state the restored database is
             equal to (page image), or -1
    output 1 when the outcome is what the property prescribes, otherwise a
    code naming the failing shape:
      20 restored although the tail of a non-final WAL index is missing
      21 restored although a continuation segment belongs to another WAL index
      22 restored although the eligible segments have a gap the planner's own rules see
      30 restored from a snapshot that is not a newest eligible one
      31 restored, gap-free, but the database is not the state at the end of the last eligible segment
      32 gap error although the eligible segments are gap-free
      40 no-snapshot error although an eligible snapshot exists
      41 an outcome other than the no-snapshot error although no snapshot is eligible
      50 any other failure class *)
Definition truth_t := list (list (N * N * N * list N)).

Definition dec_truth (x : sx) : truth_t :=
  map (fun g => map (fun e => (asN (nthx 0 e), asN (nthx 1 e), asN (nthx 2 e), asNs (nthx 3 e))) (asL g)) (asL x).

Fixpoint truth_find (i : N) (t : list (N * N * N * list N)) : option (N * N * list N) :=
  match t with
  | [] => None
  | (j, len, base, cs) :: tl => if i =? j then Some (len, base, cs) else truth_find i tl
  end.

Definition truelen_of (t : list (N * N * N * list N)) (i : N) : N :=
  match truth_find i t with Some (len, _, _) => len | None => 0 end.

(** the state reached at WAL position (index, bytes) *)
Definition state_at (t : list (N * N * N * list N)) (pos : N * N) : Z :=
  match truth_find (fst pos) t with
  | Some (_, base, cs) => Z.of_N (base + N.of_nat (length (filter (fun c => c <=? snd pos) cs)))
  | None => (-2)%Z
  end.

Definition eligible_segs (l : layout) (s : snap) (T : N) : list seg :=
  filter (seg_eligible (sn_idx s) T) (segs_of l (sn_gen s)).

Definition snap_gap_free (l : layout) (tr : truth_t) (T : N) (s : snap) : bool :=
  gap_free (truelen_of (nth (N.to_nat (sn_gen s)) tr [])) (eligible_segs l s T) None (sn_idx s).

(** only used to name the failing shape once the outcome is known to be wrong:
    would a planner that checks nothing but "offset 0 starts the expected index"
    and "a continuation starts at the bytes written so far" accept the segments,
    and if so, do all continuations carry the index of their file? *)
Fixpoint lenient (segs : list seg) (e off : N) (cur : option N) (uni : bool) : option bool :=
  match segs with
  | [] => Some uni
  | s :: tl =>
      if sg_off s =? 0 then
        if sg_idx s =? e then lenient tl (e + 1) (sg_size s) (Some (sg_idx s)) uni else None
      else if sg_off s =? off then
        match cur with
        | Some i => lenient tl e (off + sg_size s) cur (uni && (sg_idx s =? i))
        | None => None
        end
      else None
  end.

Definition v3_plan_ok (x : sx) : sx :=
  let l := dec_layout (nthx 0 x) in
  let T := asN (nthx 1 x) in
  let tr := dec_truth (nthx 2 x) in
  let obs := nthx 3 x in
  let st := asN (nthx 0 obs) in
  let all := collect l in
  let any_eligible := existsb (snap_eligible T) all in
  sxN
  (if negb any_eligible then (if st =? 1 then 1 else 41)
   else if st =? 1 then 40
   else if st =? 0 then
     let g := asN (nthx 1 obs) in
     let si := asN (nthx 2 obs) in
     let matched := asZ (nthx 4 obs) in
     match filter (fun s => (sn_gen s =? g) && (sn_idx s =? si)) all with
     | [] => 30
     | s :: _ =>
         if negb (newest_eligible all T s) then 30
         else
           let E := eligible_segs l s T in
           let t := nth (N.to_nat g) tr [] in
           if gap_free (truelen_of t) E None si then
             (if Z.eqb matched (state_at t (end_pos E (si, 0))) then 1 else 31)
           else
             match lenient E si 0 None true with
             | Some true => 20
             | Some false => 21
             | None => 22
             end
     end
   else if (st =? 2) || (st =? 3) then
     (if existsb (fun s => newest_eligible all T s && negb (snap_gap_free l tr T s)) all then 1 else 32)
   else 50).

(** spec-level oracle for the format choice.
    input [gens; ltx snapshot times; other ltx file times; T; decision]   output 1 = the decision
    is the one the property prescribes, 60 otherwise *)
Definition v3_arbitrate_ok (x : sx) : sx :=
  let d := asB (nthx 4 x) in
  sxN (if Bool.eqb d (arb_spec (dec_layout (nthx 0 x)) (mkLtx (asNs (nthx 1 x)) (asNs (nthx 2 x))) (asN (nthx 3 x)))
       then 1 else 60).

(** spec-level oracle for downloads that fail or end early (C10 on the legacy path).
    input [outcome of the fault-free restore; outcome under the fault; 1 iff a file exists at the
    output path after a FAILED restore; tag]  (outcomes as in v3_plan_ok)
    output 1 = error with nothing at the output path, or success with the snapshot and the state of
    the fault-free restore (a transparent retry); 70 = success with another state; 71 = a failed
    restore left a file at the output path *)
Definition v3_fault_ok (x : sx) : sx :=
  let base := nthx 0 x in
  let obs := nthx 1 x in
  let left := asN (nthx 2 x) in
  sxN (if negb (asN (nthx 0 obs) =? 0) then (if left =? 1 then 71 else 1)
       else if (asN (nthx 1 obs) =? asN (nthx 1 base)) && (asN (nthx 2 obs) =? asN (nthx 2 base))
               && Z.eqb (asZ (nthx 4 obs)) (asZ (nthx 4 base)) then 1 else 70).
