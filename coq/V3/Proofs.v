(** Theorems about the v0.3.x restore model ([V3/Restore.v]) against the
    property's vocabulary ([V3/Spec.v]).  All statements quantify over every
    layout / segment list / timestamp (no bound). *)
From Coq Require Import List NArith Bool Lia Permutation Sorted.
From LS Require Import V3.Restore V3.Spec.
Import ListNotations.
Open Scope N_scope.

(** * 1. Sorting and the snapshot choice *)

Definition cle (a b : snap) : Prop := sn_created a <= sn_created b.

Lemma sweep_spec : forall r x m r',
  sweep x r = (m, r') ->
  Permutation (x :: r) (m :: r') /\ (forall y, In y (x :: r) -> cle m y) /\ length r' = length r.
Proof.
  induction r as [|y tl IH]; intros x m r' H; cbn in H.
  - inversion H; subst. split; [apply Permutation_refl|]. split; [|reflexivity].
    intros y [->|[]]. unfold cle; lia.
  - destruct (sn_created y <? sn_created x) eqn:E.
    + destruct (sweep y tl) as [m0 tl'] eqn:S. inversion H; subst.
      destruct (IH _ _ _ S) as (P & M & Ln). apply N.ltb_lt in E.
      split; [|split].
      * eapply Permutation_trans; [apply perm_skip; exact P|]. apply perm_swap.
      * intros z [->|Hz].
        -- specialize (M y (or_introl eq_refl)). unfold cle in *. lia.
        -- apply M. exact Hz.
      * cbn. lia.
    + destruct (sweep x tl) as [m0 tl'] eqn:S. inversion H; subst.
      destruct (IH _ _ _ S) as (P & M & Ln). apply N.ltb_ge in E.
      split; [|split].
      * eapply Permutation_trans; [apply perm_swap|].
        eapply Permutation_trans; [apply perm_skip; exact P|]. apply perm_swap.
      * intros z [->|[->|Hz]].
        -- apply M. left; reflexivity.
        -- specialize (M x (or_introl eq_refl)). unfold cle in *. lia.
        -- apply M. right; exact Hz.
      * cbn. lia.
Qed.

Lemma xsort_fuel_spec : forall fuel l,
  (length l <= fuel)%nat ->
  Permutation l (xsort_fuel fuel l) /\ StronglySorted cle (xsort_fuel fuel l).
Proof.
  induction fuel as [|f IH]; intros l Hl.
  - destruct l; [|cbn in Hl; lia]. cbn. split; [apply Permutation_refl|constructor].
  - destruct l as [|x r]; cbn.
    + split; [apply Permutation_refl|constructor].
    + destruct (sweep x r) as [m r'] eqn:S.
      destruct (sweep_spec _ _ _ _ S) as (P & M & Ln).
      assert (Hr : (length r' <= f)%nat) by (cbn in Hl; lia).
      destruct (IH r' Hr) as (P' & S').
      split.
      * eapply Permutation_trans; [exact P|]. apply perm_skip. exact P'.
      * constructor; [exact S'|].
        apply Forall_forall. intros z Hz. apply M.
        eapply Permutation_in; [apply Permutation_sym; exact P|].
        right. eapply Permutation_in; [apply Permutation_sym; exact P'|]. exact Hz.
Qed.

(** sortSnapshotsV3ByCreatedAt returns a permutation of its input in ascending CreatedAt order *)
Lemma sort_snaps_spec l : Permutation l (sort_snaps l) /\ StronglySorted cle (sort_snaps l).
Proof. apply xsort_fuel_spec. apply le_n. Qed.

Lemma first_not_after_split : forall T r s,
  first_not_after T r = Some s ->
  exists r1 r2, r = r1 ++ s :: r2 /\ sn_created s <= T /\ forall x, In x r1 -> T < sn_created x.
Proof.
  induction r as [|y tl IH]; intros s H; cbn in H; [discriminate|].
  destruct (T <? sn_created y) eqn:E; cbn in H.
  - destruct (IH _ H) as (r1 & r2 & -> & Hs & Hr1).
    exists (y :: r1), r2. split; [reflexivity|]. split; [exact Hs|].
    intros x [->|Hx]; [apply N.ltb_lt; exact E|apply Hr1; exact Hx].
  - inversion H; subst. exists [], tl. split; [reflexivity|]. apply N.ltb_ge in E.
    split; [exact E|]. intros x [].
Qed.

Lemma first_not_after_none : forall T r,
  first_not_after T r = None -> forall x, In x r -> T < sn_created x.
Proof.
  induction r as [|y tl IH]; intros H x Hx; [destruct Hx|]. cbn in H.
  destruct (T <? sn_created y) eqn:E; cbn in H; [|discriminate].
  destruct Hx as [->|Hx]; [apply N.ltb_lt; exact E|apply IH; assumption].
Qed.

Lemma ss_app_mid : forall (l1 : list snap) s l2,
  StronglySorted cle (l1 ++ s :: l2) -> forall x, In x l1 -> cle x s.
Proof.
  induction l1 as [|a tl IH]; intros s l2 H x Hx; [destruct Hx|].
  cbn in H. inversion H as [|? ? Hs Hf]; subst.
  destruct Hx as [->|Hx].
  - rewrite Forall_forall in Hf. apply Hf. apply in_or_app. right. left. reflexivity.
  - eapply IH; eassumption.
Qed.

Lemma ss_last_max : forall (l : list snap) d x,
  StronglySorted cle l -> In x l -> cle x (last l d).
Proof.
  induction l as [|a tl IH]; intros d x H Hx; [destruct Hx|].
  inversion H as [|? ? Hs Hf]; subst.
  destruct tl as [|b tl'].
  - destruct Hx as [->|[]]. cbn. unfold cle; lia.
  - change (last (a :: b :: tl') d) with (last (b :: tl') d).
    destruct Hx as [->|Hx].
    + rewrite Forall_forall in Hf. apply Hf.
      destruct (@exists_last _ (b :: tl')) as (l' & z & E); [discriminate|].
      rewrite E. rewrite last_last. apply in_or_app. right. left. reflexivity.
    + apply IH; assumption.
Qed.

Definition eligibleP (T : N) (s : snap) : Prop := T = 0 \/ sn_created s <= T.

(** findBestSnapshotV3 on an ascending list: the newest eligible element, or
    nothing when no element is eligible *)
Lemma find_best_sorted : forall l T,
  StronglySorted cle l ->
  match find_best l T with
  | Some s => In s l /\ eligibleP T s /\ forall s', In s' l -> eligibleP T s' -> cle s' s
  | None => forall s', In s' l -> ~ eligibleP T s'
  end.
Proof.
  intros l T SS. unfold find_best. destruct l as [|a tl]; [intros s' []|].
  destruct (T =? 0) eqn:ET.
  - apply N.eqb_eq in ET. split; [|split].
    + destruct (@exists_last _ (a :: tl)) as (l' & z & E); [discriminate|].
      rewrite E, last_last. apply in_or_app. right. left. reflexivity.
    + left. exact ET.
    + intros s' Hs' _. apply ss_last_max; assumption.
  - apply N.eqb_neq in ET.
    destruct (first_not_after T (rev (a :: tl))) as [s|] eqn:F.
    + destruct (first_not_after_split _ _ _ F) as (r1 & r2 & E & Hs & Hr1).
      assert (El : a :: tl = rev r2 ++ s :: rev r1).
      { rewrite <- (rev_involutive (a :: tl)), E, rev_app_distr. cbn. rewrite <- app_assoc. reflexivity. }
      split; [|split].
      * rewrite El. apply in_or_app. right. left. reflexivity.
      * right. exact Hs.
      * intros s' Hs' [H0|Hle]; [contradiction|].
        rewrite El in Hs', SS. apply in_app_or in Hs'. destruct Hs' as [H|[->|H]].
        -- eapply ss_app_mid; eassumption.
        -- unfold cle; lia.
        -- apply in_rev in H. try rewrite rev_involutive in H. specialize (Hr1 _ H). lia.
    + intros s' Hs' [H0|Hle]; [contradiction|].
      assert (In s' (rev (a :: tl))) by (apply -> in_rev; exact Hs').
      pose proof (first_not_after_none _ _ F _ H). lia.
Qed.

(** [v3_best_snapshot]: over all generations, the snapshot RestoreV3 starts
    from is a snapshot of the listing, is eligible (created at or before [T],
    any for [T = 0]) and no eligible snapshot is newer; RestoreV3 finds none
    only when none is eligible. *)
Theorem v3_best_snapshot_thm : forall (l : layout) (T : N),
  match best_snapshot l T with
  | Some s => In s (collect l) /\ eligibleP T s /\
              forall s', In s' (collect l) -> eligibleP T s' -> sn_created s' <= sn_created s
  | None => forall s', In s' (collect l) -> ~ eligibleP T s'
  end.
Proof.
  intros l T. unfold best_snapshot.
  destruct (sort_snaps_spec (collect l)) as (P & SS).
  pose proof (find_best_sorted _ T SS) as H.
  destruct (find_best (sort_snaps (collect l)) T) as [s|].
  - destruct H as (Hin & He & Hmax). split; [|split].
    + eapply Permutation_in; [apply Permutation_sym; exact P|exact Hin].
    + exact He.
    + intros s' Hs' He'. apply Hmax; [|exact He']. eapply Permutation_in; [exact P|exact Hs'].
  - intros s' Hs'. apply H. eapply Permutation_in; [exact P|exact Hs'].
Qed.

Example best_snapshot_ex :
  best_snapshot [mkGen [(0, 9); (3, 4)] []; mkGen [(0, 6); (1, 6)] []] 7 = Some (mkSnap 1 1 6).
Proof. vm_compute. reflexivity. Qed.

(** what RestoreV3 chooses is [best_snapshot] *)
Lemma restore_v3_snapshot : forall l T,
  match restore_v3 l T with
  | V3NoSnapshots => best_snapshot l T = None
  | V3Err s _ | V3Ok s _ => best_snapshot l T = Some s
  end.
Proof.
  intros l T. unfold restore_v3, best_snapshot.
  destruct l as [|g tl]; [reflexivity|].
  destruct (collect (g :: tl)) as [|a r] eqn:C; [reflexivity|].
  destruct (find_best (sort_snaps (a :: r)) T) as [s|]; [|reflexivity].
  destruct (apply_segs _ _); reflexivity.
Qed.

(** * 2. The segment planner *)

Fixpoint seqN (a : N) (n : nat) : list N :=
  match n with O => [] | S k => a :: seqN (a + 1) k end.

(** consecutive segments: each starts where the bytes written so far end, and
    none of them starts a new file *)
Fixpoint contig_from (off : N) (ss : list seg) : Prop :=
  match ss with
  | [] => True
  | s :: tl => sg_off s = off /\ contig_from (off + sg_size s) tl
  end.

Definition nonzero_offs (ss : list seg) : Prop := Forall (fun s => sg_off s <> 0) ss.

(** a reconstructed WAL file: starts with the offset-0 segment of its index
    and continues with offset-contiguous segments, i.e. it is a prefix
    [0, total) of bytes *)
Definition wal_ok (w : walfile) : Prop :=
  match snd w with
  | [] => False
  | s0 :: rest => sg_idx s0 = fst w /\ sg_off s0 = 0 /\ contig_from (sg_size s0) rest /\ nonzero_offs rest /\
                  Forall (fun s => sg_idx s = fst w) rest
  end.

Definition cur_segs (cur : option walfile) : list seg :=
  match cur with Some (_, ss) => ss | None => [] end.

Lemma contig_from_app : forall a off b,
  contig_from off (a ++ b) <->
  contig_from off a /\ contig_from (fold_left (fun o s => o + sg_size s) a off) b.
Proof.
  induction a as [|x tl IH]; intros off b; cbn.
  - tauto.
  - rewrite IH. tauto.
Qed.

Lemma apply_loop_shape : forall segs e off cur done plan,
  apply_loop segs e off cur done = inr plan ->
  (match cur with Some (i, _) => i + 1 = e | None => True end) ->
  exists files,
    plan = done ++ files /\
    flat_map snd files = cur_segs cur ++ segs /\
    match cur with
    | Some (i, ss) =>
        exists ss' rest, files = (i, ss ++ ss') :: rest /\ contig_from off ss' /\ nonzero_offs ss' /\
                         Forall (fun s => sg_idx s = i) ss' /\
                         map fst rest = seqN e (length rest) /\ Forall wal_ok rest
    | None => map fst files = seqN e (length files) /\ Forall wal_ok files
    end.
Proof.
  induction segs as [|s tl IH]; intros e off cur done plan H Hcur; cbn in H.
  - inversion H; subst. destruct cur as [[i ss]|]; cbn.
    + exists [(i, ss)]. split; [reflexivity|]. split; [cbn; rewrite !app_nil_r; reflexivity|].
      exists [], []. rewrite app_nil_r. repeat split; constructor.
    + exists []. rewrite app_nil_r. repeat split; constructor.
  - destruct (sg_off s =? 0) eqn:E0.
    + destruct (sg_idx s =? e) eqn:Ei; cbn in H; [|discriminate].
      apply N.eqb_eq in E0, Ei.
      assert (Hc' : sg_idx s + 1 = e + 1) by lia.
      destruct (IH _ _ _ _ _ H Hc') as (files & Hp & Hf & ss' & rest & Hfiles & Hc & Hnz & Hu & Hidx & Hok).
      assert (Hw : wal_ok (sg_idx s, [s] ++ ss')).
      { unfold wal_ok; cbn. repeat split; try assumption; try (rewrite N.add_0_l in Hc; exact Hc). }
      destruct cur as [[i ss]|]; cbn in *.
      * exists ((i, ss) :: files). split; [rewrite Hp, <- app_assoc; reflexivity|].
        split; [cbn; rewrite Hf; reflexivity|].
        exists [], files. rewrite app_nil_r. split; [reflexivity|]. split; [exact I|]. split; [constructor|].
        split; [constructor|].
        rewrite Hfiles. cbn. split; [rewrite Hidx, Ei; reflexivity|]. constructor; assumption.
      * exists files. split; [exact Hp|]. split; [exact Hf|].
        rewrite Hfiles. cbn. split; [rewrite Hidx, Ei; reflexivity|]. constructor; assumption.
    + destruct (sg_idx s + 1 =? e) eqn:Ex; cbn in H; [|discriminate].
      destruct (sg_off s =? off) eqn:Eo; cbn in H; [|discriminate].
      destruct cur as [[i ss]|]; [|discriminate].
      apply N.eqb_neq in E0. apply N.eqb_eq in Eo, Ex.
      destruct (IH _ _ _ _ _ H Hcur) as (files & Hp & Hf & ss' & rest & Hfiles & Hc & Hnz & Hu & Hidx & Hok).
      exists files. split; [exact Hp|]. cbn in *. split; [rewrite Hf, <- app_assoc; reflexivity|].
      exists (s :: ss'), rest. split; [rewrite Hfiles, <- app_assoc; reflexivity|].
      split; [cbn; split; assumption|]. split; [constructor; assumption|].
      split; [constructor; [lia|assumption]|]. split; assumption.
Qed.

(** [v3_plan_contiguous]: when the planner accepts a list of eligible
    segments, the WAL files it rebuilds carry the consecutive indices
    [si, si+1, ...] from the snapshot's index, every one of them starts with
    the offset-0 segment of that index followed by offset-contiguous segments
    (so it is a prefix of bytes [0, total) of that WAL), and together they are
    exactly the eligible segments in order (nothing skipped or reordered). *)
Theorem v3_plan_contiguous_thm : forall (si : N) (segs : list seg) (plan : list walfile),
  apply_segs si segs = inr plan ->
  map fst plan = seqN si (length plan) /\ Forall wal_ok plan /\ flat_map snd plan = segs.
Proof.
  intros si segs plan H. unfold apply_segs in H. destruct segs as [|s tl].
  - inversion H; subst. repeat split; constructor.
  - destruct (apply_loop_shape _ _ _ _ _ _ H I) as (files & Hp & Hf & Hidx & Hok).
    cbn in Hp, Hf. subst plan. repeat split; assumption.
Qed.

Example plan_contiguous_ex :
  apply_segs 2 [mkSeg 2 0 32 5; mkSeg 2 32 100 6; mkSeg 3 0 50 7]
  = inr [(2, [mkSeg 2 0 32 5; mkSeg 2 32 100 6]); (3, [mkSeg 3 0 50 7])].
Proof. vm_compute. reflexivity. Qed.

(** the same for a whole restore *)
Corollary restore_v3_plan_contiguous : forall l T s plan,
  restore_v3 l T = V3Ok s plan ->
  map fst plan = seqN (sn_idx s) (length plan) /\ Forall wal_ok plan /\
  flat_map snd plan = filter_segs (segs_of l (sn_gen s)) (sn_idx s) T.
Proof.
  intros l T s plan H. unfold restore_v3 in H.
  destruct l as [|g tl]; [discriminate|].
  destruct (collect (g :: tl)) as [|a r]; [discriminate|].
  destruct (find_best (sort_snaps (a :: r)) T) as [s0|]; [|discriminate].
  destruct (apply_segs (sn_idx s0) _) as [e|p] eqn:A; [discriminate|].
  inversion H; subst. apply v3_plan_contiguous_thm. exact A.
Qed.

(** number of WAL files started in a prefix of the segment list *)
Definition starts (pre : list seg) : N := N.of_nat (length (filter (fun s => sg_off s =? 0) pre)).

(** bytes written to the current WAL file after a prefix of the segment list *)
Fixpoint run_bytes (pre : list seg) (acc : N) : N :=
  match pre with
  | [] => acc
  | s :: tl => if sg_off s =? 0 then run_bytes tl (sg_size s) else run_bytes tl (acc + sg_size s)
  end.

Lemma apply_loop_checks : forall segs e off cur done plan,
  apply_loop segs e off cur done = inr plan ->
  forall pre s post, segs = pre ++ s :: post ->
    (sg_off s = 0 -> sg_idx s = e + starts pre) /\
    (sg_off s <> 0 -> sg_off s = run_bytes pre off /\ sg_idx s + 1 = e + starts pre).
Proof.
  induction segs as [|x tl IH]; intros e off cur done plan H pre s post E.
  - destruct pre; discriminate.
  - cbn in H. destruct pre as [|p pre'].
    + cbn in E. inversion E; subst x tl. unfold starts; cbn.
      destruct (sg_off s =? 0) eqn:E0.
      * destruct (sg_idx s =? e) eqn:Ei; cbn in H; [|discriminate].
        apply N.eqb_eq in E0, Ei. split; [intros; lia|intros; contradiction].
      * destruct (sg_idx s + 1 =? e) eqn:Ex; cbn in H; [|discriminate].
        destruct (sg_off s =? off) eqn:Eo; cbn in H; [|discriminate].
        apply N.eqb_neq in E0. apply N.eqb_eq in Eo, Ex.
        split; [intros; contradiction|intros; split; [exact Eo|lia]].
    + cbn in E. inversion E; subst x tl. unfold starts. cbn [filter run_bytes].
      destruct (sg_off p =? 0) eqn:E0.
      * destruct (sg_idx p =? e) eqn:Ei; cbn in H; [|discriminate].
        destruct (IH _ _ _ _ _ H pre' s post eq_refl) as (A & B).
        split.
        -- intros Hz. rewrite (A Hz). unfold starts. cbn [length]. lia.
        -- intros Hz. destruct (B Hz) as (B1 & B2). split.
           ++ rewrite B1. try reflexivity; f_equal; lia.
           ++ rewrite B2. unfold starts. cbn [length]. lia.
      * destruct (sg_idx p + 1 =? e) eqn:Ex; cbn in H; [|discriminate].
        destruct (sg_off p =? off) eqn:Eo; cbn in H; [|discriminate].
        destruct cur as [[i ss]|]; [|discriminate].
        destruct (IH _ _ _ _ _ H pre' s post eq_refl) as (A & B).
        split; assumption.
Qed.

(** [v3_index_gap_errors]: if some segment that starts a WAL file (offset 0)
    does not carry the index expected at that point — the snapshot's index
    plus the number of WAL files started before it — the restore fails. *)
Theorem v3_index_gap_errors_thm : forall (si : N) (pre : list seg) (s : seg) (post : list seg),
  sg_off s = 0 -> sg_idx s <> si + starts pre ->
  exists e, apply_segs si (pre ++ s :: post) = inl e.
Proof.
  intros si pre s post Hz Hne.
  destruct (apply_segs si (pre ++ s :: post)) as [e|plan] eqn:A; [exists e; reflexivity|].
  exfalso. unfold apply_segs in A.
  destruct (pre ++ s :: post) as [|x tl] eqn:E; [destruct pre; discriminate|].
  destruct (apply_loop_checks _ _ _ _ _ _ A pre s post (eq_sym E)) as (H & _). apply Hne. apply H. exact Hz.
Qed.

Example index_gap_ex : apply_segs 0 [mkSeg 0 0 32 1; mkSeg 2 0 32 2] = inl ErrIndex.
Proof. vm_compute. reflexivity. Qed.

(** [v3_offset_gap_errors]: if some continuation segment (offset <> 0) does
    not start exactly at the number of bytes written to the current WAL file
    so far, the restore fails. *)
Theorem v3_offset_gap_errors_thm : forall (si : N) (pre : list seg) (s : seg) (post : list seg),
  sg_off s <> 0 -> sg_off s <> run_bytes pre 0 ->
  exists e, apply_segs si (pre ++ s :: post) = inl e.
Proof.
  intros si pre s post Hz Hne.
  destruct (apply_segs si (pre ++ s :: post)) as [e|plan] eqn:A; [exists e; reflexivity|].
  exfalso. unfold apply_segs in A.
  destruct (pre ++ s :: post) as [|x tl] eqn:E; [destruct pre; discriminate|].
  destruct (apply_loop_checks _ _ _ _ _ _ A pre s post (eq_sym E)) as (_ & H). apply Hne. apply H. exact Hz.
Qed.

(** (since 842e1af) a continuation segment that carries another index than
    the WAL file being rebuilt — the snapshot's index plus the number of files
    started so far, minus one — makes the restore fail. *)
Theorem v3_foreign_continuation_errors_thm : forall (si : N) (pre : list seg) (s : seg) (post : list seg),
  sg_off s <> 0 -> sg_idx s + 1 <> si + starts pre ->
  exists e, apply_segs si (pre ++ s :: post) = inl e.
Proof.
  intros si pre s post Hz Hne.
  destruct (apply_segs si (pre ++ s :: post)) as [e|plan] eqn:A; [exists e; reflexivity|].
  exfalso. unfold apply_segs in A.
  destruct (pre ++ s :: post) as [|x tl] eqn:E; [destruct pre; discriminate|].
  destruct (apply_loop_checks _ _ _ _ _ _ A pre s post (eq_sym E)) as (_ & H). apply Hne. apply H. exact Hz.
Qed.

Example foreign_continuation_ex : apply_segs 0 [mkSeg 0 0 100 2; mkSeg 1 100 60 4] = inl ErrSegment.
Proof. vm_compute. reflexivity. Qed.

Example offset_gap_ex : apply_segs 0 [mkSeg 0 0 32 1; mkSeg 0 568 536 2] = inl ErrSegment.
Proof. vm_compute. reflexivity. Qed.

(** the write into a nil file cannot happen: a continuation segment that comes
    before any file was started fails the offset test first *)
Lemma apply_segs_never_write_error : forall si segs, apply_segs si segs <> inl ErrWrite.
Proof.
  intros si segs. unfold apply_segs. destruct segs as [|s tl]; [discriminate|].
  assert (G : forall segs e off cur done,
             (cur = None -> off = 0) -> apply_loop segs e off cur done <> inl ErrWrite).
  { induction segs as [|x r IH]; intros e off cur done Hc; cbn; [discriminate|].
    destruct (sg_off x =? 0) eqn:E0.
    - destruct (sg_idx x =? e); cbn; [|discriminate]. apply IH. discriminate.
    - destruct (sg_idx x + 1 =? e); cbn; [|discriminate].
      destruct (sg_off x =? off) eqn:Eo; cbn; [|discriminate].
      destruct cur as [[i ss]|].
      + apply IH. discriminate.
      + rewrite (Hc eq_refl) in Eo. rewrite Eo in E0. discriminate. }
  apply G. reflexivity.
Qed.

(** * 3. Planner versus the property's gap-freedom *)

(** no spurious failure: a gap-free list of eligible segments (with respect to
    any ground truth) is accepted by the planner *)
Lemma gap_free_apply_loop : forall truelen segs cur want done off,
  gap_free truelen segs cur want = true ->
  (match cur with Some (i, o) => off = o /\ i + 1 = want | None => True end) ->
  forall curw, (match cur, curw with
                | Some _, Some _ => True | None, None => True | _, _ => False end) ->
  exists plan, apply_loop segs want off curw done = inr plan.
Proof.
  induction segs as [|s tl IH]; intros cur want done off G Hoff curw Hcw; cbn.
  - eexists; reflexivity.
  - cbn in G. destruct cur as [[i o]|].
    + destruct curw as [[ci css]|]; [|contradiction]. destruct Hoff as (-> & Hiw).
      destruct (negb (sg_off s =? 0) && (sg_idx s =? i) && (sg_off s =? o)) eqn:Cn.
      * apply andb_prop in Cn. destruct Cn as (Cn & Eo). apply andb_prop in Cn. destruct Cn as (Nz & Ei).
        apply negb_true_iff in Nz. apply N.eqb_eq in Ei.
        assert (Ex : sg_idx s + 1 =? want = true) by (apply N.eqb_eq; lia).
        rewrite Nz, Ex, Eo. cbn.
        eapply IH; [exact G|split; [reflexivity|exact Hiw]|exact I].
      * destruct ((sg_off s =? 0) && (sg_idx s =? want) && (o =? truelen i)) eqn:St; [|discriminate].
        apply andb_prop in St. destruct St as (St & _). apply andb_prop in St. destruct St as (Z & Ei).
        rewrite Z, Ei. cbn. apply N.eqb_eq in Ei.
        eapply IH; [exact G|cbn; split; lia|exact I].
    + destruct curw; [contradiction|]. cbn in G.
      destruct ((sg_off s =? 0) && (sg_idx s =? want) && true) eqn:St; [|discriminate].
      apply andb_prop in St. destruct St as (St & _). apply andb_prop in St. destruct St as (Z & Ei).
      rewrite Z, Ei. cbn. apply N.eqb_eq in Ei. eapply IH; [exact G|cbn; split; lia|exact I].
Qed.

Theorem v3_gap_free_restores : forall truelen si segs,
  gap_free truelen segs None si = true -> exists plan, apply_segs si segs = inr plan.
Proof.
  intros truelen si segs G. unfold apply_segs. destruct segs as [|s tl]; [eexists; reflexivity|].
  eapply gap_free_apply_loop with (cur := None); [exact G|exact I|exact I].
Qed.

(** F8.  The converse fails: the planner accepts layouts that are not
    gap-free.  Witness: WAL index 0 really is 150 bytes in two segments
    (0/0 of 100 bytes, 0/100 of 50 bytes), index 1 is one segment.  With the
    LAST segment of the NON-final index 0 removed, the restore still succeeds,
    checkpoints the first 100 bytes of WAL 0 and goes on with WAL 1. *)
Definition f8_full : layout :=
  [mkGen [(0, 1)] [mkSeg 0 0 100 2; mkSeg 0 100 50 3; mkSeg 1 0 80 4]].
Definition f8_lost : layout :=
  [mkGen [(0, 1)] [mkSeg 0 0 100 2; mkSeg 1 0 80 4]].
Definition f8_truelen (i : N) : N := if i =? 0 then 150 else 80.

Theorem v3_trailing_segment_loss_refuted_thm :
  exists (full lost : layout) (truelen : N -> N) (s : snap) (plan : list walfile),
    (* the complete layout is gap-free and restores *)
    gap_free truelen (filter (seg_eligible (sn_idx s) 0) (segs_of full (sn_gen s))) None (sn_idx s) = true /\
    (exists plan0, restore_v3 full 0 = V3Ok s plan0) /\
    (* [lost] is [full] without the last segment 0/100 of the non-final index 0 *)
    lost = [mkGen (g_snaps (nth 0 full (mkGen [] [])))
                  (filter (fun x => negb ((sg_idx x =? 0) && (sg_off x =? 100))) (g_segs (nth 0 full (mkGen [] []))))] /\
    (* the remaining eligible segments have a gap ... *)
    gap_free truelen (filter (seg_eligible (sn_idx s) 0) (segs_of lost (sn_gen s))) None (sn_idx s) = false /\
    (* ... and yet the restore succeeds, going on to index 1 after a short index 0 *)
    restore_v3 lost 0 = V3Ok s plan /\ map fst plan = [0; 1].
Proof.
  exists f8_full, f8_lost, f8_truelen, (mkSnap 0 0 1),
         [(0, [mkSeg 0 0 100 2]); (1, [mkSeg 1 0 80 4])].
  repeat split; try (vm_compute; reflexivity).
  eexists. vm_compute. reflexivity.
Qed.

(** The second undetected loss found by the correspondence run (the index of a
    continuation segment was never compared, so with 1/0 removed segment
    1/100 was appended to WAL file 0) was repaired in /repo by 842e1af; the
    former witness now fails, and in general the files of an accepted plan are
    index-uniform. *)
Definition fc_lost : layout :=
  [mkGen [(0, 1)] [mkSeg 0 0 100 2; mkSeg 1 100 60 4]].

Example foreign_continuation_now_errors : restore_v3 fc_lost 0 = V3Err (mkSnap 0 0 1) ErrSegment.
Proof. vm_compute. reflexivity. Qed.

Lemma wal_ok_uniform : forall w, wal_ok w -> file_uniform w = true.
Proof.
  intros [i ss] H. unfold wal_ok in H. cbn in H. destruct ss as [|s0 rest]; [contradiction|].
  destruct H as (Hs0 & _ & _ & _ & Hu). unfold file_uniform. cbn.
  apply andb_true_intro. split; [apply N.eqb_eq; exact Hs0|].
  apply forallb_forall. intros x Hx. rewrite Forall_forall in Hu. apply N.eqb_eq. apply Hu. exact Hx.
Qed.

(** [v3_plan_uniform]: every segment of a reconstructed WAL file carries that file's index *)
Theorem v3_plan_uniform_thm : forall (si : N) (segs : list seg) (plan : list walfile),
  apply_segs si segs = inr plan -> forallb file_uniform plan = true.
Proof.
  intros si segs plan A. destruct (v3_plan_contiguous_thm _ _ _ A) as (_ & Hok & _).
  apply forallb_forall. intros w Hw. rewrite Forall_forall in Hok. apply wal_ok_uniform. apply Hok. exact Hw.
Qed.

(** What does hold (the part of "an accepted plan is gap-free" that the
    listing can establish): an accepted plan whose non-final files have their
    true length is gap-free.  That side condition is exactly F8. *)
Fixpoint nonfinal_complete (truelen : N -> N) (plan : list walfile) : Prop :=
  match plan with
  | [] => True
  | [_] => True
  | w :: tl => fold_left (fun o s => o + sg_size s) (snd w) 0 = truelen (fst w) /\ nonfinal_complete truelen tl
  end.

Definition total (ss : list seg) (o : N) : N := fold_left (fun o s => o + sg_size s) ss o.

Lemma gap_free_continue : forall truelen ss i off tl want,
  contig_from off ss -> nonzero_offs ss -> Forall (fun s => sg_idx s = i) ss ->
  gap_free truelen (ss ++ tl) (Some (i, off)) want = gap_free truelen tl (Some (i, total ss off)) want.
Proof.
  induction ss as [|s r IH]; intros i off tl want C NZ U; [reflexivity|].
  cbn in C. destruct C as (Eo & C). inversion NZ as [|? ? Hz NZ']; subst.
  inversion U as [|? ? Hi U']; subst.
  cbn [app gap_free].
  apply N.eqb_neq in Hz. rewrite Hz, !N.eqb_refl. cbn.
  apply IH; assumption.
Qed.

Lemma plan_gap_free : forall truelen plan want,
  map fst plan = seqN want (length plan) -> Forall wal_ok plan ->
  nonfinal_complete truelen plan ->
  forall cur, (match cur with
               | Some (i, o) => o = truelen i \/ plan = []
               | None => True end) ->
  gap_free truelen (flat_map snd plan) cur want = true.
Proof.
  induction plan as [|w tl IH]; intros want Hidx Hok Hc cur Hcur; [reflexivity|].
  destruct w as [i ss]. inversion Hok as [|? ? Hw Hok']; subst.
  cbn in Hidx. inversion Hidx as [[Hi Hrest]].
  unfold wal_ok in Hw. cbn in Hw. destruct ss as [|s0 rest]; [contradiction|].
  destruct Hw as (Hs0 & Hz & Hcg & Hnz & Hun).
  cbn [flat_map snd app gap_free].
  assert (Hcont : (match cur with
                   | Some (i1, off) => negb (sg_off s0 =? 0) && (sg_idx s0 =? i1) && (sg_off s0 =? off)
                   | None => false end) = false).
  { destruct cur as [[i1 o1]|]; [|reflexivity]. rewrite Hz. reflexivity. }
  rewrite Hcont.
  assert (Hst : ((sg_off s0 =? 0) && (sg_idx s0 =? want) &&
                 match cur with Some (i1, off) => off =? truelen i1 | None => true end) = true).
  { rewrite Hz, Hs0, <- Hi, !N.eqb_refl. cbn.
    destruct cur as [[i1 o1]|]; [|reflexivity]. destruct Hcur as [->|H]; [apply N.eqb_refl|discriminate]. }
  rewrite Hst.
  assert (Hrest_idx : Forall (fun s => sg_idx s = sg_idx s0) rest).
  { apply Forall_forall. intros x Hx. rewrite Forall_forall in Hun. rewrite (Hun _ Hx), Hs0. reflexivity. }
  try rewrite <- app_assoc.
  rewrite (gap_free_continue truelen rest (sg_idx s0) (sg_size s0) (flat_map snd tl) (want + 1) Hcg Hnz Hrest_idx).
  apply IH; try assumption.
  - destruct tl; [constructor|]. cbn in Hc. destruct Hc as (_ & Hc). exact Hc.
  - destruct tl as [|w2 tl2]; [right; reflexivity|]. left.
    cbn in Hc. destruct Hc as (Hc & _). cbn in Hc. try rewrite N.add_0_l in Hc. unfold total. rewrite Hs0. exact Hc.
Qed.

Theorem v3_ok_gap_free_partial : forall truelen si segs plan,
  apply_segs si segs = inr plan ->
  nonfinal_complete truelen plan ->
  gap_free truelen segs None si = true.
Proof.
  intros truelen si segs plan A Hc.
  destruct (v3_plan_contiguous_thm _ _ _ A) as (Hidx & Hok & Hf). rewrite <- Hf.
  apply plan_gap_free; try assumption. exact I.
Qed.

(** * 4. Format arbitration *)

Fixpoint maxN (l : list N) (acc : N) : N :=
  match l with [] => acc | x :: tl => maxN tl (N.max acc x) end.

Lemma tb_step_snd : forall ts c u, snd (fold_left tb_step ts (c, u)) = maxN ts u.
Proof.
  induction ts as [|t tl IH]; intros c u; [reflexivity|]. cbn [fold_left maxN].
  unfold tb_step at 2.
  assert (E : (if (u =? 0) || (u <? t) then t else u) = N.max u t).
  { destruct (u =? 0) eqn:E0; cbn.
    - apply N.eqb_eq in E0. subst. lia.
    - destruct (u <? t) eqn:E1; [apply N.ltb_lt in E1|apply N.ltb_ge in E1]; lia. }
  rewrite E. apply IH.
Qed.

Lemma maxN_app : forall a b u, maxN (a ++ b) u = maxN b (maxN a u).
Proof. induction a; intros; cbn; [reflexivity|apply IHa]. Qed.

Lemma time_bounds_v3_snd : forall l c u,
  snd (fold_left (fun acc g => fold_left tb_step (gen_times g) acc) l (c, u)) = maxN (flat_map gen_times l) u.
Proof.
  induction l as [|g tl IH]; intros c u; [reflexivity|]. cbn [fold_left flat_map].
  destruct (fold_left tb_step (gen_times g) (c, u)) as [c' u'] eqn:E.
  rewrite IH, maxN_app. f_equal. rewrite <- (tb_step_snd (gen_times g) c u), E. reflexivity.
Qed.

Lemma maxN_ge : forall l u, u <= maxN l u /\ forall x, In x l -> x <= maxN l u.
Proof.
  induction l as [|a tl IH]; intros u; cbn; [split; [lia|intros x []]|].
  destruct (IH (N.max u a)) as (H1 & H2). split; [lia|].
  intros x [->|Hx]; [lia|apply H2; exact Hx].
Qed.

Lemma maxN_in : forall l u, maxN l u = u \/ In (maxN l u) l.
Proof.
  induction l as [|a tl IH]; intros u; cbn; [left; reflexivity|].
  destruct (IH (N.max u a)) as [H|H]; [|right; right; exact H].
  rewrite H. destruct (N.max_spec u a) as [(_ & E)|(_ & E)]; rewrite E; [right; left; reflexivity|left; reflexivity].
Qed.

Definition v3_times (l : layout) : list N := flat_map gen_times l.
Definition ltx_times (x : ltxside) : list N := lx_snaps x ++ lx_others x.

Lemma best_v3_for_ts_eq : forall l T, best_v3_for_ts l T = best_snapshot l T.
Proof.
  intros l T. unfold best_v3_for_ts, best_snapshot. destruct l as [|g tl]; [reflexivity|].
  destruct (collect (g :: tl)); reflexivity.
Qed.

Lemma last_filter_max : forall (l : list N) T d,
  StronglySorted N.le l ->
  forall c, In c (filter (fun c => c <? T) l) -> c <= last (filter (fun c => c <? T) l) d.
Proof.
  intros l T d SS.
  assert (SF : StronglySorted N.le (filter (fun c => c <? T) l)).
  { induction SS as [|a tl SS IH Hf]; cbn; [constructor|].
    destruct (a <? T); [|exact IH]. constructor; [exact IH|].
    rewrite Forall_forall in *. intros x Hx. apply Hf. apply filter_In in Hx. tauto. }
  remember (filter (fun c => c <? T) l) as f. clear Heqf SS l.
  induction SF as [|a tl SF IH Hf]; intros c Hc; [destruct Hc|].
  destruct tl as [|b tl'].
  - destruct Hc as [->|[]]. cbn. lia.
  - change (last (a :: b :: tl') d) with (last (b :: tl') d).
    destruct Hc as [->|Hc]; [|apply IH; exact Hc].
    rewrite Forall_forall in Hf. apply Hf.
    destruct (@exists_last _ (b :: tl')) as (l' & z & E); [discriminate|].
    rewrite E, last_last. apply in_or_app. right. left. reflexivity.
Qed.

(** [v3_arbitration]: which format Restore uses.
    - no legacy file: the current format; legacy files but no current-format
      file: the legacy format;
    - both present, no timestamp: the legacy format iff its newest file
      (snapshot or segment) is newer than every current-format file;
    - both present, timestamp [T]: the legacy format iff it has a snapshot
      created at or before [T] that is newer than every current-format
      snapshot created before [T] (snapshot listing in creation order, as the
      TXID-ordered listing of real replicas is).
    All file times are real times ([> 0]; [0] is Go's zero time). *)
Theorem v3_arbitration_thm : forall (l : layout) (x : ltxside) (T : N),
  Forall (fun t => 0 < t) (v3_times l) -> Forall (fun t => 0 < t) (ltx_times x) ->
  StronglySorted N.le (lx_snaps x) ->
  (v3_times l = [] -> should_use_v3 l x T = false) /\
  (v3_times l <> [] -> ltx_times x = [] -> should_use_v3 l x T = true) /\
  (v3_times l <> [] -> ltx_times x <> [] -> T = 0 ->
     (should_use_v3 l x T = true <-> exists t, In t (v3_times l) /\ forall t', In t' (ltx_times x) -> t' < t)) /\
  (v3_times l <> [] -> ltx_times x <> [] -> T <> 0 ->
     (should_use_v3 l x T = true <->
      exists s, In s (collect l) /\ sn_created s <= T /\
                forall c, In c (lx_snaps x) -> c < T -> c < sn_created s)).
Proof.
  intros l x T Pv Pl SS.
  assert (Ev : snd (time_bounds_v3 l) = maxN (v3_times l) 0) by apply time_bounds_v3_snd.
  assert (El : snd (time_bounds_ltx x) = maxN (ltx_times x) 0) by apply tb_step_snd.
  assert (Zv : v3_times l <> [] -> maxN (v3_times l) 0 <> 0).
  { intros Hne. destruct (v3_times l) as [|a tl] eqn:E; [contradiction|].
    inversion Pv; subst. destruct (maxN_ge (a :: tl) 0) as (_ & H). specialize (H a (or_introl eq_refl)). lia. }
  assert (Zl : ltx_times x <> [] -> maxN (ltx_times x) 0 <> 0).
  { intros Hne. destruct (ltx_times x) as [|a tl] eqn:E; [contradiction|].
    inversion Pl; subst. destruct (maxN_ge (a :: tl) 0) as (_ & H). specialize (H a (or_introl eq_refl)). lia. }
  unfold should_use_v3. rewrite Ev, El, best_v3_for_ts_eq.
  split; [|split; [|split]].
  - intros E. rewrite E. reflexivity.
  - intros Hv Hl. apply Zv in Hv. apply N.eqb_neq in Hv. rewrite Hv, Hl. reflexivity.
  - intros Hv Hl ->. pose proof (Zv Hv) as Nv. pose proof (Zl Hl) as Nl.
    apply N.eqb_neq in Nv, Nl. rewrite Nv, Nl. cbn. rewrite N.ltb_lt. split.
    + intros Hlt. exists (maxN (v3_times l) 0). split.
      * destruct (maxN_in (v3_times l) 0) as [H|H]; [apply N.eqb_neq in Nv; contradiction|exact H].
      * intros t' Ht'. destruct (maxN_ge (ltx_times x) 0) as (_ & H). specialize (H _ Ht'). lia.
    + intros (t & Ht & Hall).
      destruct (maxN_ge (v3_times l) 0) as (_ & H). specialize (H _ Ht).
      destruct (maxN_in (ltx_times x) 0) as [H0|H0]; [apply N.eqb_neq in Nl; contradiction|].
      specialize (Hall _ H0). lia.
  - intros Hv Hl HT. pose proof (Zv Hv) as Nv. pose proof (Zl Hl) as Nl.
    apply N.eqb_neq in Nv, Nl. rewrite Nv, Nl. apply N.eqb_neq in HT. rewrite HT. cbn.
    apply N.eqb_neq in HT.
    pose proof (v3_best_snapshot_thm l T) as B.
    destruct (best_snapshot l T) as [s|].
    + destruct B as (Hin & He & Hmax). destruct He as [He|He]; [contradiction|].
      unfold best_ltx. destruct (filter (fun c => c <? T) (lx_snaps x)) as [|a f] eqn:F.
      * split; [|reflexivity]. intros _. exists s. split; [exact Hin|]. split; [exact He|].
        intros c Hc HcT. exfalso.
        assert (In c (filter (fun c => c <? T) (lx_snaps x))) by (apply filter_In; split; [exact Hc|apply N.ltb_lt; exact HcT]).
        rewrite F in H. destruct H.
      * rewrite N.ltb_lt. split.
        -- intros Hlt. exists s. split; [exact Hin|]. split; [exact He|].
           intros c Hc HcT.
           assert (Hcf : In c (filter (fun c => c <? T) (lx_snaps x))) by (apply filter_In; split; [exact Hc|apply N.ltb_lt; exact HcT]).
           pose proof (last_filter_max (lx_snaps x) T 0 SS c Hcf) as Hle. rewrite F in Hle. lia.
        -- intros (s' & Hs' & Hs'T & Hall).
           assert (Hlast : In (last (a :: f) 0) (a :: f)).
           { destruct (@exists_last _ (a :: f)) as (l' & z & E); [discriminate|].
             rewrite E, last_last. apply in_or_app. right. left. reflexivity. }
           rewrite <- F in Hlast. apply filter_In in Hlast. destruct Hlast as (Hl1 & Hl2). apply N.ltb_lt in Hl2.
           rewrite <- F. specialize (Hall _ Hl1 Hl2).
           specialize (Hmax s' Hs' (or_intror Hs'T)). lia.
    + split; [discriminate|]. intros (s' & Hs' & Hs'T & _). exfalso. apply (B s' Hs'). right. exact Hs'T.
Qed.

Example arbitration_ex :
  should_use_v3 [mkGen [(0, 4)] [mkSeg 0 0 32 5]] (mkLtx [3; 9] [10]) 8 = true /\
  should_use_v3 [mkGen [(0, 4)] [mkSeg 0 0 32 5]] (mkLtx [3; 9] [10]) 10 = false /\
  should_use_v3 [mkGen [(0, 4)] [mkSeg 0 0 32 5]] (mkLtx [3; 9] [10]) 0 = false.
Proof. vm_compute. repeat split. Qed.

(** * 5. The arbitration model computes the property's choice ([Spec.arb_spec]) *)

Lemma maxl_cons : forall b tl, maxl (b :: tl) = N.max b (maxl tl).
Proof. reflexivity. Qed.

Lemma maxl_ge : forall (l : list N) a, In a l -> a <= maxl l.
Proof.
  induction l as [|b tl IH]; intros a H; [destruct H|].
  rewrite maxl_cons. destruct H as [->|H].
  - lia.
  - specialize (IH _ H). lia.
Qed.

Lemma maxl_in : forall (l : list N), l <> [] -> In (maxl l) l.
Proof.
  induction l as [|b tl IH]; intros H; [contradiction|]. rewrite maxl_cons.
  destruct tl as [|c tl'].
  - left. change (maxl []) with 0. lia.
  - destruct (N.max_spec b (maxl (c :: tl'))) as [(_ & E)|(_ & E)]; rewrite E.
    + right. apply IH. discriminate.
    + left. reflexivity.
Qed.

Lemma newer_iff_max : forall (A B : list N),
  A <> [] ->
  ((exists a, In a A /\ forall b, In b B -> b < a) <-> (B = [] \/ maxl B < maxl A)).
Proof.
  intros A B HA. split.
  - intros (a & Ha & Hall). destruct B as [|b tl]; [left; reflexivity|right].
    assert (In (maxl (b :: tl)) (b :: tl)) by (apply maxl_in; discriminate).
    specialize (Hall _ H). pose proof (maxl_ge _ _ Ha). lia.
  - intros [->|Hlt].
    + exists (maxl A). split; [apply maxl_in; exact HA|intros b []].
    + exists (maxl A). split; [apply maxl_in; exact HA|].
      intros b Hb. pose proof (maxl_ge _ _ Hb). lia.
Qed.

Lemma layout_times_eq l : layout_times l = v3_times l.
Proof. reflexivity. Qed.

Lemma bool_iff_eq : forall a b : bool, (a = true <-> b = true) -> a = b.
Proof.
  intros a b [H1 H2]. destruct a, b; try reflexivity.
  - symmetry. apply H1. reflexivity.
  - apply H2. reflexivity.
Qed.

(** [v3_arbitration_spec]: for real file times and a creation-ordered
    snapshot listing, shouldUseV3Restore picks exactly the format that holds
    the more recent eligible backup. *)
Theorem v3_arbitration_spec_thm : forall (l : layout) (x : ltxside) (T : N),
  Forall (fun t => 0 < t) (v3_times l) -> Forall (fun t => 0 < t) (ltx_times x) ->
  StronglySorted N.le (lx_snaps x) ->
  should_use_v3 l x T = arb_spec l x T.
Proof.
  intros l x T Pv Pl SS.
  destruct (v3_arbitration_thm l x T Pv Pl SS) as (H1 & H2 & H3 & H4).
  unfold arb_spec. rewrite layout_times_eq. fold (ltx_times x).
  destruct (v3_times l) as [|v vt] eqn:Ev; [apply H1; reflexivity|].
  destruct (ltx_times x) as [|c ct] eqn:El; [apply H2; [discriminate|reflexivity]|].
  assert (Nv : v :: vt <> []) by discriminate. assert (Nl : c :: ct <> []) by discriminate.
  destruct (T =? 0) eqn:ET.
  - apply N.eqb_eq in ET. apply bool_iff_eq. rewrite (H3 Nv Nl ET), N.ltb_lt.
    rewrite (newer_iff_max (v :: vt) (c :: ct) Nv). split; [intros [H|H]; [discriminate|exact H]|intros H; right; exact H].
  - apply N.eqb_neq in ET. apply bool_iff_eq. rewrite (H4 Nv Nl ET).
    set (ev := filter (fun c0 => c0 <=? T) (map sn_created (collect l))).
    set (el := filter (fun c0 => c0 <? T) (lx_snaps x)).
    assert (Hev : forall a, In a ev <-> exists s, In s (collect l) /\ sn_created s = a /\ a <= T).
    { intros a. unfold ev. rewrite filter_In, in_map_iff, N.leb_le. split.
      - intros ((s & Es & Hs) & Ha). exists s. repeat split; assumption.
      - intros (s & Hs & Es & Ha). split; [exists s; split; assumption|exact Ha]. }
    assert (Hel : forall b, In b el <-> In b (lx_snaps x) /\ b < T).
    { intros b. unfold el. rewrite filter_In, N.ltb_lt. tauto. }
    assert (Hmain : (exists s, In s (collect l) /\ sn_created s <= T /\
                               forall c0, In c0 (lx_snaps x) -> c0 < T -> c0 < sn_created s) <->
                    (exists a, In a ev /\ forall b, In b el -> b < a)).
    { split.
      - intros (s & Hs & HsT & Hall). exists (sn_created s). split.
        + apply Hev. exists s. repeat split; assumption.
        + intros b Hb. apply Hel in Hb. destruct Hb. apply Hall; assumption.
      - intros (a & Ha & Hall). apply Hev in Ha. destruct Ha as (s & Hs & Es & HaT). subst a.
        exists s. repeat split; try assumption. intros c0 Hc0 Hc0T. apply Hall. apply Hel. split; assumption. }
    rewrite Hmain.
    destruct ev as [|e0 ev'] eqn:Eev.
    + split; [intros (a & [] & _)|discriminate].
    + assert (Nev : e0 :: ev' <> []) by discriminate.
      rewrite (newer_iff_max (e0 :: ev') el Nev).
      destruct el as [|b0 el'].
      * split; [reflexivity|left; reflexivity].
      * rewrite N.ltb_lt. split; [intros [H|H]; [discriminate|exact H]|intros H; right; exact H].
Qed.

(** the hypotheses of [v3_gap_free_restores] / [v3_ok_gap_free_partial] and of
    [v3_arbitration_spec_thm] are satisfiable by non-trivial states *)
Example gap_free_ex :
  let segs := [mkSeg 0 0 100 2; mkSeg 0 100 50 3; mkSeg 1 0 80 4; mkSeg 1 80 20 5] in
  gap_free f8_truelen segs None 0 = true /\
  exists plan, apply_segs 0 segs = inr plan /\
               forallb file_uniform plan = true /\ nonfinal_complete f8_truelen plan.
Proof.
  cbn zeta. split; [vm_compute; reflexivity|].
  eexists. split; [vm_compute; reflexivity|]. split; [vm_compute; reflexivity|].
  cbn. split; [reflexivity|exact I].
Qed.

Example arbitration_spec_ex :
  let l := [mkGen [(0, 4); (2, 12)] [mkSeg 0 0 32 5; mkSeg 1 0 32 9]] in
  let x := mkLtx [3; 9] [10; 11] in
  Forall (fun t => 0 < t) (v3_times l) /\ Forall (fun t => 0 < t) (ltx_times x) /\
  StronglySorted N.le (lx_snaps x) /\
  should_use_v3 l x 8 = true /\ should_use_v3 l x 10 = false /\ should_use_v3 l x 0 = true.
Proof.
  cbn zeta. repeat split; try (vm_compute; reflexivity).
  - repeat constructor.
  - repeat constructor.
  - repeat constructor; vm_compute; discriminate.
Qed.
