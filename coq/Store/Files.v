(** The replica as the Store layer sees it: for every level the files the
    client lists, in iterator order ([ltx.NewFileInfoSliceIterator] sorts by
    (MinTXID, MaxTXID); file names sort the same way).

    A file carries what retention, compaction scheduling and the restore
    planner read: level, TXID range, [CreatedAt] as the client reports it
    (file client: the mtime) and the LTX header timestamp ([s_hts]).
    [WriteLTXFile] sets mtime := header timestamp, so the two agree until
    something else touches the mtime ([ORestamp] in Ops.v = [os.Chtimes], the
    way the correspondence run places file ages around the thresholds). *)
From Coq Require Import List NArith Bool Lia.
From LS Require Import Plan.Planner.
Import ListNotations.
Open Scope N_scope.

Record sfile := mkS { s_level : N; s_min : N; s_max : N; s_created : N; s_hts : N }.

(** what the restore planner sees of a file *)
Definition to_file (s : sfile) : file := mkFile (s_level s) (s_min s) (s_max s) (s_created s).

Definition replica := N -> list sfile.

Definition empty_replica : replica := fun _ => [].

Definition upd (r : replica) (l : N) (fs : list sfile) : replica :=
  fun k => if k =? l then fs else r k.

Definition listing_of (r : replica) : listing := fun l => map to_file (r l).

(** file name order / identity within one level *)
Definition key_eqb (a b : sfile) : bool := (s_min a =? s_min b) && (s_max a =? s_max b).
Definition key_ltb (a b : sfile) : bool :=
  (s_min a <? s_min b) || ((s_min a =? s_min b) && (s_max a <? s_max b)).

(** [WriteLTXFile(level, min, max)]: creates the file or overwrites the one of
    the same name; the level's listing stays in name order *)
Fixpoint put (f : sfile) (l : list sfile) : list sfile :=
  match l with
  | [] => [f]
  | g :: tl => if key_eqb f g then f :: tl
               else if key_ltb f g then f :: g :: tl
               else g :: put f tl
  end.

Definition memk (f : sfile) (l : list sfile) : bool := existsb (key_eqb f) l.

(** [DeleteLTXFiles(deleted)] on one level *)
Definition remove_all (del l : list sfile) : list sfile :=
  filter (fun g => negb (memk g del)) l.

(** [client.LTXFiles(ctx, level, seek, _)]: files whose MinTXID is not below
    [seek] (file/replica_client.go: [minTXID < seek -> continue]) *)
Definition ltx_files (r : replica) (level seek : N) : list sfile :=
  filter (fun f => seek <=? s_min f) (r level).

(** ltx.IsContiguous(prevMaxTXID, minTXID, maxTXID) *)
Definition is_contiguous (prevMax mn mx : N) : bool := (mn <=? prevMax + 1) && (prevMax <? mx).

Definition last_opt {A} (l : list A) : option A :=
  match rev l with [] => None | x :: _ => Some x end.

(** greatest MaxTXID of a level, 0 if empty *)
Definition lmax (l : list sfile) : N := fold_left (fun m i => if m <? s_max i then s_max i else m) l 0.

Fixpoint seqN (from : N) (n : nat) : list N :=
  match n with O => [] | S k => from :: seqN (from + 1) k end.

(** levels of a replica *)
Definition data_levels : list N := [0; 1; 2; 3; 4; 5; 6; 7; 8].
Definition all_store_levels : list N := [0; 1; 2; 3; 4; 5; 6; 7; 8; 9].
Definition flat (r : replica) : list sfile := concat (map r all_store_levels).
