(** C07 — the retention invariant [RInv] is preserved by every operation of
    Store/Ops.v, for arbitrary stamps and thresholds. *)
From Coq Require Import List NArith Bool Lia.
From LS Require Import Plan.Planner Store.Files Store.Ops Store.Inv.
Import ListNotations.
Open Scope N_scope.

Definition snapS (st : state) : N := lmax (st_rep st SnapshotLevel).

Definition level_ok (S pos L : N) (l : list sfile) : Prop :=
  (L = 1 -> chainP S 0 l) /\ incrP 0 l /\ (forall f, In f l -> s_max f <= pos).

Record RInv (st : state) : Prop := mkRInv {
  (* (iii) the L0 files are one run a+1..pos; (v) what was deleted is below L1's end *)
  ri_l0 : exists a, runP a (st_rep st 0) /\ a + N.of_nat (length (st_rep st 0)) = st_pos st /\
                    a <= lmax (st_rep st 1) /\ (st_pos st = 0 \/ st_rep st 0 <> []);
  (* (iv) *)
  ri_lv : forall L, 1 <= L <= 8 -> level_ok (snapS st) (st_pos st) L (st_rep st L);
  ri_snap : snapP 0 (st_rep st SnapshotLevel) /\ forall f, In f (st_rep st SnapshotLevel) -> s_max f <= st_pos st;
  ri_cache : forall L i, 1 <= L <= 9 -> st_cache st L = Some i -> s_max i = lmax (st_rep st L);
  (* (iv) second half: max(L) <= max(L-1) *)
  ri_lmax : forall L, 1 <= L <= 8 -> lmax (st_rep st L) <= lmax (st_rep st (L - 1))
}.

(** which operations the theorem covers: levels in range, and a direct TXID
    retention uses a floor no higher than the newest snapshot's MaxTXID (the
    cascade of Store.EnforceSnapshotRetention always does) *)
Definition op_ok (st : state) (o : op) : Prop :=
  match o with
  | OCompact L _ => 1 <= L <= 8
  | OCompactDB L _ _ _ => 1 <= L <= 9
  | OTxidRet L fl => 1 <= L <= 8 /\ fl <= snapS st
  | _ => True
  end.

Lemma upd_same r L l : upd r L l L = l.
Proof. unfold upd. rewrite N.eqb_refl. reflexivity. Qed.
Lemma upd_other r L l K : K <> L -> upd r L l K = r K.
Proof. unfold upd. intros. apply N.eqb_neq in H. rewrite H. reflexivity. Qed.

Ltac caseK K L := destruct (N.eq_dec K L) as [?|?]; [subst; rewrite ?upd_same in * | rewrite ?upd_other in * by auto].

Lemma snap_level_9 : SnapshotLevel = 9. Proof. reflexivity. Qed.

Lemma level_ok_mono S S' pos pos' L l : S <= S' -> pos <= pos' -> level_ok S pos L l -> level_ok S' pos' L l.
Proof. intros ? ? (H1&H2&H3). repeat split; auto.
  - intros. eapply chainP_mono; eauto.
  - intros. specialize (H3 _ H4). lia. Qed.

(** ** generic updates *)

Lemma rinv_cache st cache' :
  RInv st ->
  (forall K i, 1 <= K <= 9 -> cache' K = Some i -> st_cache st K = Some i \/ s_max i = lmax (st_rep st K)) ->
  RInv (mkSt (st_rep st) cache' (st_pos st) (st_ret st) (st_nlv st)).
Proof. intros [A B C D M] H. constructor; simpl; auto. intros L i HL E. destruct (H _ _ HL E); eauto. Qed.

Lemma rinv_upd_level st L l' cache' :
  RInv st -> 1 <= L <= 8 -> level_ok (snapS st) (st_pos st) L l' -> lmax (st_rep st L) <= lmax l' ->
  lmax l' <= lmax (st_rep st (L - 1)) ->
  (forall K i, 1 <= K <= 9 -> cache' K = Some i -> (K = L /\ s_max i = lmax l') \/ (K <> L /\ st_cache st K = Some i)) ->
  RInv (mkSt (upd (st_rep st) L l') cache' (st_pos st) (st_ret st) (st_nlv st)).
Proof.
  intros [A B C D M] HL Hok Hmax Hsrc Hc.
  assert (HS: lmax (upd (st_rep st) L l' SnapshotLevel) = snapS st).
  { unfold snapS. rewrite upd_other; auto. rewrite snap_level_9. lia. }
  constructor; simpl; unfold snapS; simpl.
  - destruct A as (a&A1&A2&A3&A4). exists a. rewrite (upd_other _ L l' 0) by lia.
    repeat split; auto. caseK 1 L; auto. lia.
  - intros K HK. rewrite HS. caseK K L; auto.
  - rewrite upd_other by (rewrite snap_level_9; lia). auto.
  - intros K i HK E. destruct (Hc _ _ HK E) as [[-> ?]|[? ?]].
    + rewrite upd_same. auto.
    + rewrite upd_other; auto.
  - intros K HK. destruct (N.eq_dec K L) as [->|nK].
    + rewrite upd_same, upd_other by lia. auto.
    + rewrite (upd_other _ L l' K) by auto. destruct (N.eq_dec (K - 1) L) as [e|ne].
      * rewrite e, upd_same. specialize (M K HK). rewrite e in M. lia.
      * rewrite upd_other by auto. auto.
Qed.

Lemma rinv_upd_l0_suffix st l' a' :
  RInv st -> runP a' l' -> a' + N.of_nat (length l') = st_pos st -> a' <= lmax (st_rep st 1) ->
  (st_pos st = 0 \/ l' <> []) -> lmax (st_rep st 1) <= lmax l' ->
  RInv (set_rep st 0 l').
Proof.
  intros [A B C D M] H1 H2 H3 H4 H5.
  constructor; unfold set_rep, snapS; simpl.
  - exists a'. rewrite upd_same, upd_other by lia. auto.
  - intros K HK. rewrite !upd_other by (try rewrite snap_level_9; lia). apply B. auto.
  - rewrite upd_other by (rewrite snap_level_9; lia). auto.
  - intros K i HK E. rewrite upd_other by lia. auto.
  - intros K HK. rewrite (upd_other _ 0 l' K) by lia. destruct (N.eq_dec K 1) as [->|].
    + rewrite upd_same. auto.
    + rewrite upd_other by lia. auto.
Qed.

(** ** sync *)
Lemma rinv_sync st t : RInv st -> RInv (sync_upload st t).
Proof.
  intros [A B C D M]. destruct A as (a&A1&A2&A3&A4).
  set (info := mkS 0 (st_pos st + 1) (st_pos st + 1) t t).
  assert (P: put info (st_rep st 0) = st_rep st 0 ++ [info]).
  { eapply put_append. { apply runP_incrP. eauto. }
    intros g Hg. destruct (runP_bounds _ _ A1 _ Hg) as (?&?&?). simpl. lia. }
  unfold sync_upload. fold info. rewrite P.
  constructor; unfold set_pos, set_cache, set_rep, snapS; simpl.
  - exists a. rewrite upd_same, upd_other by lia. repeat split; auto.
    + apply runP_snoc; auto. simpl. lia.
    + rewrite app_length. simpl. lia.
    + right. destruct (st_rep st 0); discriminate.
  - intros K HK. rewrite !upd_other by (try rewrite snap_level_9; lia).
    apply (level_ok_mono (snapS st) _ (st_pos st) _ K); [unfold snapS; simpl; lia | simpl; lia | apply B; auto].
  - rewrite upd_other by (rewrite snap_level_9; lia). destruct C. split; auto. intros f Hf. specialize (H0 _ Hf). lia.
  - intros K i HK E. rewrite upd_other by lia. destruct (K =? 0) eqn:E0; [apply N.eqb_eq in E0; lia|]. auto.
  - intros K HK. rewrite (upd_other _ 0 _ K) by lia. destruct (N.eq_dec K 1) as [->|].
    + rewrite upd_same. rewrite (lmax_incr_snoc _ _ a).
      * simpl. destruct (B 1) as (_&_&B3); [lia|]. pose proof (lmax_from_le (st_rep st 1) 0 (st_pos st) ltac:(lia) B3). rewrite lmax_unfold. lia.
      * apply runP_incrP. apply runP_snoc; auto. simpl. lia.
    + rewrite upd_other by lia. auto.
Qed.

(** ** the TXID range loop *)
Definition range_step (acc : N * N) (info : sfile) : N * N :=
  let (mn, mx) := acc in
  ((if (mn =? 0) || (s_min info <? mn) then s_min info else mn),
   (if (mx =? 0) || (mx <? s_max info) then s_max info else mx)).

Lemma range_fold : forall l mn mx,
  0 < mn -> 0 < mx -> (forall f, In f l -> 0 < s_min f /\ 0 < s_max f) ->
  let r := fold_left range_step l (mn, mx) in
  0 < fst r /\ 0 < snd r /\ fst r <= mn /\ mx <= snd r /\
  (forall f, In f l -> fst r <= s_min f /\ s_max f <= snd r) /\
  (fst r = mn \/ exists f, In f l /\ s_min f = fst r) /\
  (snd r = mx \/ exists f, In f l /\ s_max f = snd r).
Proof.
  induction l; simpl; intros mn mx Hmn Hmx H.
  - repeat split; auto; try lia; try (intros; tauto).
  - assert (Ha: 0 < s_min a /\ 0 < s_max a) by auto.
    assert (E1: mn =? 0 = false) by (apply N.eqb_neq; lia).
    assert (E2: mx =? 0 = false) by (apply N.eqb_neq; lia).
    rewrite E1, E2. simpl.
    set (mn' := if s_min a <? mn then s_min a else mn).
    set (mx' := if mx <? s_max a then s_max a else mx).
    assert (Hmn': 0 < mn' /\ mn' <= mn /\ mn' <= s_min a /\ (mn' = mn \/ mn' = s_min a)).
    { unfold mn'. destruct (s_min a <? mn) eqn:E; [apply N.ltb_lt in E|apply N.ltb_ge in E]; lia. }
    assert (Hmx': 0 < mx' /\ mx <= mx' /\ s_max a <= mx' /\ (mx' = mx \/ mx' = s_max a)).
    { unfold mx'. destruct (mx <? s_max a) eqn:E; [apply N.ltb_lt in E|apply N.ltb_ge in E]; lia. }
    destruct (IHl mn' mx') as (I1&I2&I3&I4&I5&I6&I7); try tauto. { intros; apply H; auto. }
    repeat split; auto; try lia.
    + match goal with H: _ \/ In _ _ |- _ => destruct H as [<-|Hf] end; [lia|]. apply I5; auto.
    + match goal with H: _ \/ In _ _ |- _ => destruct H as [<-|Hf] end; [lia|]. apply I5; auto.
    + destruct I6 as [I6|(f&?&?)]; [|right; eauto]. destruct Hmn' as (_&_&_&[?|?]); [left; lia|right; exists a; split; auto; lia].
    + destruct I7 as [I7|(f&?&?)]; [|right; eauto]. destruct Hmx' as (_&_&_&[?|?]); [left; lia|right; exists a; split; auto; lia].
Qed.

Lemma range_of_spec first rest :
  (forall f, In f (first :: rest) -> 0 < s_min f /\ 0 < s_max f) ->
  let r := range_of (first :: rest) in
  (forall f, In f (first :: rest) -> fst r <= s_min f /\ s_max f <= snd r) /\
  (exists f, In f (first :: rest) /\ s_min f = fst r) /\
  (exists f, In f (first :: rest) /\ s_max f = snd r).
Proof.
  intros H. unfold range_of. change (fold_left _ (first :: rest) (0, 0)) with (fold_left range_step (first :: rest) (0,0)).
  simpl. assert (Hf: 0 < s_min first /\ 0 < s_max first) by (apply H; left; auto).
  destruct (range_fold rest (s_min first) (s_max first)) as (I1&I2&I3&I4&I5&I6&I7); try tauto.
  { intros; apply H; right; auto. }
  repeat split.
  - destruct H0 as [<-|Hf0]; [lia|]. apply I5; auto.
  - destruct H0 as [<-|Hf0]; [lia|]. apply I5; auto.
  - destruct I6 as [?|(f&?&?)]; [exists first|exists f]; auto.
  - destruct I7 as [?|(f&?&?)]; [exists first|exists f]; auto.
Qed.

(** ** cache lookups *)
Definition frame (st st' : state) : Prop :=
  st_pos st' = st_pos st /\ st_ret st' = st_ret st /\ st_nlv st' = st_nlv st.

Lemma frame_trans a b c : frame a b -> frame b c -> frame a c.
Proof. unfold frame. intros (?&?&?) (?&?&?). repeat split; congruence. Qed.
Lemma frame_refl a : frame a a.
Proof. repeat split. Qed.

Lemma cmp_max_info_spec st L : RInv st -> 1 <= L <= 9 ->
  s_max (fst (cmp_max_info st L)) = lmax (st_rep st L) /\ RInv (snd (cmp_max_info st L)) /\
  st_rep (snd (cmp_max_info st L)) = st_rep st /\ frame st (snd (cmp_max_info st L)).
Proof.
  intros H HL. unfold cmp_max_info, frame. destruct (st_cache st L) eqn:E; simpl.
  - split; [eapply ri_cache; eauto|]. split; [assumption|]. split; [reflexivity|]. repeat split.
  - rewrite scan_max_lmax. split; [reflexivity|].
    destruct (0 <? lmax (st_rep st L)); simpl; (split; [|split; [reflexivity|repeat split]]); auto.
    apply rinv_cache; auto. intros K i HK. destruct (K =? L) eqn:EK; auto.
    apply N.eqb_eq in EK. subst. intros [= <-]. right. apply scan_max_lmax.
Qed.

Lemma db_max_info_spec st L : RInv st ->
  (1 <= L <= 9 -> s_max (fst (db_max_info st L)) = lmax (st_rep st L)) /\ RInv (snd (db_max_info st L)) /\
  st_rep (snd (db_max_info st L)) = st_rep st /\ frame st (snd (db_max_info st L)).
Proof.
  intros H. unfold db_max_info, frame. destruct (st_cache st L) eqn:E; simpl.
  - split; [intros; eapply ri_cache; eauto|]. split; [assumption|]. split; [reflexivity|]. repeat split.
  - rewrite scan_max_lmax. split; [reflexivity|]. split; [|split; [reflexivity|repeat split]].
    apply rinv_cache; auto. intros K i HK. destruct (K =? L) eqn:EK; auto.
    apply N.eqb_eq in EK. subst. intros [= <-]. right. apply scan_max_lmax.
Qed.

Lemma files_ok st K : RInv st -> 0 <= K <= 8 -> forall f, In f (st_rep st K) ->
  0 < s_min f /\ s_min f <= s_max f /\ s_max f <= st_pos st.
Proof.
  intros [A B C D M] HK f Hf. destruct (N.eq_dec K 0) as [->|].
  - destruct A as (a&A1&A2&_). destruct (runP_bounds _ _ A1 _ Hf) as (?&?&?). lia.
  - destruct (B K) as (_&B2&B3); [lia|]. destruct (incrP_bounds _ _ B2 _ Hf). specialize (B3 _ Hf). lia.
Qed.

Lemma last_opt_in {A} (l : list A) x : last_opt l = Some x -> In x l.
Proof. unfold last_opt. destruct (rev l) eqn:R; [discriminate|]. intros [= <-].
  apply in_rev. rewrite R. left. reflexivity. Qed.

Lemma chainP_snoc S : forall l c f, chainP S c l ->
  (let c' := match last_opt l with Some x => s_max x | None => c end in
   c' < s_min f /\ (s_min f = c' + 1 \/ s_min f <= S) /\ s_min f <= s_max f) ->
  chainP S c (l ++ [f]).
Proof.
  induction l; simpl; intros c f H Hf.
  - unfold last_opt in Hf; simpl in Hf. tauto.
  - destruct H as (?&?&?&?). repeat split; auto. apply IHl; auto.
    destruct l as [|b l']. { unfold last_opt in *; simpl in *. auto. }
    rewrite last_opt_cons in Hf. rewrite last_opt_cons_eq in *. auto.
Qed.

Lemma lmax_incr l c : incrP c l -> lmax l = match last_opt l with Some x => s_max x | None => 0 end.
Proof. intros. rewrite lmax_unfold. apply (lmax_from_incr l c 0); auto. lia. Qed.

(** ** Compactor.Compact *)
Lemma rinv_compact st dst : RInv st -> 1 <= dst <= 8 ->
  RInv (snd (compact st dst)) /\ frame st (snd (compact st dst)) /\
  st_rep (snd (compact st dst)) SnapshotLevel = st_rep st SnapshotLevel.
Proof.
  intros HI Hd. unfold compact.
  destruct (cmp_max_info_spec st dst HI) as (Hprev&HI1&Hrep&Hfr); [lia|].
  destruct (cmp_max_info st dst) as [prev st1]. simpl in *.
  set (seek := s_max prev + 1).
  set (inputs := ltx_files (st_rep st1) (dst - 1) seek).
  destruct (range_of inputs) as [mn mx] eqn:ER.
  destruct inputs as [|first rest] eqn:EI.
  { simpl. rewrite Hrep. auto. }
  destruct (negb (inputs_contiguous first rest)).
  { simpl. rewrite Hrep. auto. }
  simpl.
  (* facts about the inputs *)
  assert (Hin: forall f, In f (first :: rest) -> In f (st_rep st (dst - 1)) /\ seek <= s_min f).
  { intros f Hf. rewrite <- EI in Hf. unfold inputs, ltx_files in Hf. apply filter_In in Hf.
    rewrite Hrep in Hf. destruct Hf as [? E]. apply N.leb_le in E. auto. }
  assert (Hwf: forall f, In f (first :: rest) -> 0 < s_min f /\ s_min f <= s_max f /\ s_max f <= st_pos st).
  { intros f Hf. destruct (Hin _ Hf). eapply files_ok; eauto. lia. }
  destruct (range_of_spec first rest) as (R1&(f1&Hf1&R2)&(f2&Hf2&R3)).
  { intros f Hf. destruct (Hwf _ Hf). lia. }
  rewrite ER in *. simpl in R1, R2, R3.
  assert (Hmn: seek <= mn) by (destruct (Hin _ Hf1); lia).
  assert (Hmm: mn <= mx) by (destruct (R1 _ Hf1); destruct (Hwf _ Hf1); lia).
  assert (Hmx: mx <= st_pos st) by (destruct (Hwf _ Hf2); lia).
  destruct (ri_lv st HI dst Hd) as (L1&L2&L3).
  set (ts := s_hts match rest with [] => first | _ :: _ => last rest first end).
  set (info := mkS dst mn mx ts ts).
  assert (Hlt: forall g, In g (st_rep st dst) -> s_max g < s_min info).
  { intros g Hg. pose proof (lmax_in _ _ Hg). simpl. unfold seek in Hmn. lia. }
  rewrite Hrep.
  assert (P: put info (st_rep st dst) = st_rep st dst ++ [info]) by (eapply put_append; eauto).
  rewrite P.
  assert (Hlast: match last_opt (st_rep st dst) with Some x => s_max x | None => 0 end < mn).
  { rewrite <- (lmax_incr _ 0 L2). unfold seek in Hmn. lia. }
  assert (Hincr: incrP 0 (st_rep st dst ++ [info])).
  { apply incrP_app. split; auto. simpl. repeat split; auto. }
  assert (Hnewmax: lmax (st_rep st dst ++ [info]) = mx) by (change mx with (s_max info); apply (lmax_incr_snoc _ _ 0); auto).
  destruct Hfr as (F1&F2&F3).
  split; [|split; [unfold frame; simpl; auto|simpl; apply upd_other; rewrite snap_level_9; lia]].
  replace (set_cache (set_rep st1 dst (st_rep st dst ++ [info])) dst info)
    with (mkSt (upd (st_rep st) dst (st_rep st dst ++ [info]))
               (fun k => if k =? dst then Some info else st_cache st1 k) (st_pos st) (st_ret st) (st_nlv st)).
  2:{ unfold set_cache, set_rep. simpl. rewrite Hrep, F1, F2, F3. reflexivity. }
  assert (HI1': RInv (mkSt (st_rep st) (st_cache st1) (st_pos st) (st_ret st) (st_nlv st))).
  { destruct st1; simpl in *. subst. auto. }
  apply (rinv_upd_level _ dst _ _ HI1' Hd); simpl.
  - unfold snapS; simpl. repeat split; auto.
    + intros ->. apply chainP_snoc; auto. simpl. repeat split; auto; try lia.
      left.
      (* the L0 file [seek] exists, so the output starts exactly at seek *)
      destruct (ri_l0 st HI) as (a&A1&A2&A3&A4).
      assert (Hs: seek <= st_pos st) by lia.
      destruct (runP_mem _ a seek A1) as (f&Hf&Hf3&Hf4).
      { unfold seek. rewrite Hprev. lia. }
      assert (In f (first :: rest)).
      { rewrite <- EI. unfold inputs, ltx_files. apply filter_In. rewrite Hrep. simpl. split; auto. apply N.leb_le. lia. }
      destruct (R1 _ H). rewrite (lmax_incr _ 0 L2) in Hprev. unfold seek in *. lia.
    + intros f Hf. apply in_app_or in Hf. destruct Hf as [?|[<-|[]]]; auto.
  - rewrite Hnewmax. unfold seek in Hmn. lia.
  - rewrite Hnewmax. rewrite <- R3. apply lmax_in. apply (Hin _ Hf2).
  - intros K i HK. destruct (K =? dst) eqn:E.
    + apply N.eqb_eq in E. intros [= <-]. left. split; auto.
    + apply N.eqb_neq in E. intros. right. auto.
Qed.

(** ** DB.EnforceL0RetentionByTime *)
Lemma l0_walk_prefix thr m : forall l c d pa, runP c l -> l0_walk thr m l = (d, pa) ->
  exists r, l = d ++ r /\ (forall f, In f d -> s_max f <= m) /\ (pa = false -> r <> []).
Proof.
  induction l; simpl; intros c d pa HR HW.
  - inversion HW; subst. exists []. split; auto. split; [intros ? []|discriminate].
  - destruct HR as (R1&R2&R3).
    destruct (thr <? (if s_created a =? 0 then thr else s_created a)).
    { inversion HW; subst. exists (a :: l). split; auto. split; [intros ? []|discriminate]. }
    destruct (l0_walk thr m l) as [d' pa'] eqn:EW.
    destruct (IHl _ _ _ R3 eq_refl) as (r&E&Hd&Hp).
    destruct (s_max a <=? m) eqn:Em; inversion HW; subst d pa.
    + apply N.leb_le in Em. exists r. split; [simpl; congruence|]. split; auto.
      intros f [<-|?]; auto.
    + apply N.leb_gt in Em. destruct d' as [|x d''].
      * exists (a :: l). split; auto. split; [intros ? []|]. intros. discriminate.
      * exfalso. assert (In x l) by (rewrite E; left; auto).
        destruct (runP_bounds _ _ R3 _ H) as (?&?&?). specialize (Hd x (or_introl eq_refl)). lia.
Qed.

Lemma removelast_prefix {A} (d r : list A) : d <> [] -> exists y, d ++ r = removelast d ++ y :: r /\ True.
Proof. intros. destruct (exists_snoc d H) as (d'&x&->). rewrite removelast_snoc. exists x. rewrite <- app_assoc. auto. Qed.

Lemma memk_self d D : In d D -> memk d D = true.
Proof. unfold memk. intros. apply existsb_exists. exists d. split; auto. unfold key_eqb. rewrite !N.eqb_refl. reflexivity. Qed.

Lemma remove_all_prefix D R c : incrP c (D ++ R) -> remove_all D (D ++ R) = R.
Proof.
  intros H. unfold remove_all. rewrite filter_app.
  assert (E1: filter (fun g => negb (memk g D)) D = []).
  { clear H. assert (forall l, (forall g, In g l -> In g D) -> filter (fun g => negb (memk g D)) l = []).
    { induction l; simpl; intros; auto. rewrite memk_self by (apply H; left; auto). simpl. apply IHl. intros; apply H; right; auto. }
    apply H. auto. }
  rewrite E1. simpl.
  apply incrP_app in H. destruct H as [H1 H2].
  assert (forall g, In g R -> memk g D = false).
  { intros g Hg. apply memk_false. intros d Hd.
    destruct (incrP_bounds _ _ H2 _ Hg).
    pose proof (lmax_in _ _ Hd). rewrite (lmax_incr _ _ H1) in H3.
    destruct (last_opt D); lia. }
  clear H2. induction R; simpl; auto. rewrite H by (left; auto). simpl. f_equal. apply IHR. intros; apply H; right; auto.
Qed.

Lemma runP_app : forall D R c, runP c (D ++ R) -> runP (c + N.of_nat (length D)) R /\
  (D <> [] -> exists x, In x D /\ s_max x = c + N.of_nat (length D)).
Proof.
  induction D; simpl; intros.
  - replace (c + 0) with c by lia. split; auto. congruence.
  - destruct H as (?&?&?). destruct (IHD _ _ H1) as [I1 I2].
    replace (c + N.pos (Pos.of_succ_nat (length D))) with (c + 1 + N.of_nat (length D)) by lia.
    split; auto. intros _. destruct D as [|b D'].
    + exists a. simpl. split; auto. lia.
    + destruct I2 as (x&?&?); [discriminate|]. exists x. split; auto.
Qed.

Lemma rinv_l0_retention st l0r : RInv st -> RInv (l0_retention st l0r).
Proof.
  intros HI. unfold l0_retention. destruct l0r as [thr|]; auto.
  destruct (lmax (st_rep st 1) =? 0); auto.
  destruct (l0_walk thr (lmax (st_rep st 1)) (st_rep st 0)) as [d pa] eqn:EW.
  destruct (ri_l0 st HI) as (a&A1&A2&A3&A4).
  destruct (l0_walk_prefix _ _ _ _ _ _ A1 EW) as (r&E&Hd&Hp).
  set (D := if pa then spare_last d (last_opt (st_rep st 0)) else d).
  (* D is a prefix with a non-empty remainder *)
  assert (HD: exists R, st_rep st 0 = D ++ R /\ (forall f, In f D -> s_max f <= lmax (st_rep st 1)) /\ (st_rep st 0 <> [] -> R <> [])).
  { unfold D. destruct pa.
    - unfold spare_last. destruct (last_opt d) as [x|] eqn:Ed.
      2:{ exists r. split; auto. split; auto. intros. destruct d; [simpl in E; congruence|]. rewrite last_opt_cons_eq in Ed. discriminate. }
      destruct (last_opt (st_rep st 0)) as [y|] eqn:El.
      2:{ exists r. split; auto. split; auto. intros. destruct (st_rep st 0); [congruence|]. rewrite last_opt_cons_eq in El. discriminate. }
      assert (d <> []) by (destruct d; [discriminate|congruence]).
      destruct (key_eqb x y) eqn:Ek.
      + destruct (removelast_prefix d r H) as (z&Ez&_). exists (z :: r). rewrite E. split; auto.
        split; [intros; apply Hd; apply in_removelast; auto|]. intros; discriminate.
      + exists r. split; auto. split; auto. intros _ ->. rewrite app_nil_r in E.
        rewrite E in El. rewrite Ed in El. inversion El; subst. unfold key_eqb in Ek. rewrite !N.eqb_refl in Ek. discriminate.
    - exists r. split; auto. }
  destruct HD as (R&ER&HD1&HD2).
  destruct D as [|d0 D'] eqn:ED; auto. rewrite <- ED in *.
  destruct (st_ret st); auto.
  rewrite ER. rewrite (remove_all_prefix D R a) by (rewrite <- ER; apply runP_incrP; auto).
  rewrite ER in A1, A2. destruct (runP_app _ _ _ A1) as [B1 B2].
  apply (rinv_upd_l0_suffix st R (a + N.of_nat (length D))); auto.
  - rewrite app_length in A2. lia.
  - destruct B2 as (x&Hx&Ex); [rewrite ED; discriminate|]. specialize (HD1 _ Hx). lia.
  - right. apply HD2. rewrite ER, ED. discriminate.
  - assert (HR: R <> []) by (apply HD2; rewrite ER, ED; discriminate).
    destruct (runP_mem R (a + N.of_nat (length D)) (st_pos st) B1) as (f&Hf&_&Em).
    { rewrite app_length in A2. destruct R; [congruence|]. simpl in *. lia. }
    pose proof (lmax_in _ _ Hf). destruct (ri_lv st HI 1) as (_&_&B3); [lia|].
    pose proof (lmax_from_le (st_rep st 1) 0 (st_pos st) ltac:(lia) B3). rewrite lmax_unfold. lia.
Qed.

Lemma l0_retention_frame st l0r :
  frame st (l0_retention st l0r) /\ st_rep (l0_retention st l0r) SnapshotLevel = st_rep st SnapshotLevel.
Proof.
  unfold l0_retention, frame.
  repeat match goal with
         | |- context [match ?x with _ => _ end] => destruct x eqn:?
         end; simpl; auto.
  all: repeat split; auto; try (apply upd_other; rewrite snap_level_9; lia).
Qed.

Lemma rinv_db_compact st dst l0r : RInv st -> 1 <= dst <= 8 ->
  RInv (snd (db_compact st dst l0r)) /\ frame st (snd (db_compact st dst l0r)) /\
  st_rep (snd (db_compact st dst l0r)) SnapshotLevel = st_rep st SnapshotLevel.
Proof.
  intros HI Hd. unfold db_compact. destruct (rinv_compact st dst HI Hd) as (C1&C2&C3).
  destruct (compact st dst) as [s st']. simpl in *.
  destruct s; simpl; auto. destruct (dst =? 1); simpl; auto.
  split; [apply rinv_l0_retention; auto|].
  destruct (l0_retention_frame st' l0r) as [F1 F2]. unfold frame in *. rewrite F2. intuition congruence.
Qed.

(** ** DB.Snapshot *)
Lemma put_snap info : forall l c, s_min info = 1 -> snapP c l -> c < s_max info ->
  (forall f, In f l -> s_max f <= s_max info) ->
  snapP c (put info l) /\ lmax_from c (put info l) = s_max info /\ (forall f, In f (put info l) -> s_max f <= s_max info).
Proof.
  induction l; simpl; intros c Hm H Hc Hb.
  - repeat split; auto. { unfold lmax_from. simpl. apply N.ltb_lt in Hc. rewrite Hc. reflexivity. }
    intros f [<-|[]]. lia.
  - destruct H as (H1&H2&H3). unfold key_eqb, key_ltb. rewrite Hm, H1. simpl.
    assert (s_max a <= s_max info) by (apply Hb; left; auto).
    destruct (s_max info =? s_max a) eqn:E.
    + apply N.eqb_eq in E. destruct l as [|b l'].
      * simpl. repeat split; auto. { unfold lmax_from. simpl. apply N.ltb_lt in Hc. rewrite Hc. reflexivity. }
        intros f [<-|[]]. lia.
      * exfalso. simpl in H3. destruct H3 as (_&?&_). assert (s_max b <= s_max info) by (apply Hb; right; left; auto). lia.
    + apply N.eqb_neq in E. assert (E2: s_max info <? s_max a = false) by (apply N.ltb_ge; lia). rewrite E2.
      assert (Hb': forall f, In f l -> s_max f <= s_max info) by (intros; apply Hb; right; auto).
      destruct (IHl (s_max a) Hm H3 ltac:(lia) Hb') as (I1&I2&I3).
      simpl. repeat split; auto.
      * unfold lmax_from in *. simpl. assert (E3: c <? s_max a = true) by (apply N.ltb_lt; lia). rewrite E3. auto.
      * intros f [<-|?]; auto.
Qed.

Lemma rinv_snapshot st t : RInv st ->
  RInv (snd (snapshot st t)) /\ frame st (snd (snapshot st t)) /\ snapS st <= snapS (snd (snapshot st t)) /\
  (fst (snapshot st t) = SOk -> 0 < snapS (snd (snapshot st t))).
Proof.
  intros HI. unfold snapshot. destruct (st_pos st =? 0) eqn:E0; simpl.
  { split; [auto|]. split; [repeat split|]. split; [lia|discriminate]. }
  apply N.eqb_neq in E0.
  set (info := mkS SnapshotLevel 1 (st_pos st) t t).
  destruct (ri_snap st HI) as [S1 S2].
  destruct (put_snap info (st_rep st SnapshotLevel) 0) as (P1&P2&P3); auto; simpl; try lia.
  assert (HS: lmax (put info (st_rep st SnapshotLevel)) = st_pos st) by apply P2.
  assert (Hle: snapS st <= st_pos st).
  { unfold snapS. apply lmax_from_le; auto. lia. }
  split; [|unfold frame, snapS; simpl; rewrite upd_same, HS; repeat split; auto; lia].
  destruct HI as [A B C D M].
  constructor; unfold set_cache, set_rep, snapS; simpl.
  - destruct A as (a&?&?&?&?). exists a. rewrite !upd_other by (rewrite snap_level_9; lia). auto.
  - intros K HK. rewrite upd_same, HS. rewrite upd_other by (rewrite snap_level_9; lia).
    eapply level_ok_mono; [| |apply B; auto]; auto; lia.
  - rewrite upd_same. split; auto.
  - intros K i HK. destruct (K =? SnapshotLevel) eqn:E.
    + apply N.eqb_eq in E. subst. intros [= <-]. rewrite upd_same. simpl. auto.
    + apply N.eqb_neq in E. rewrite upd_other; auto.
  - intros K HK. rewrite !upd_other by (rewrite snap_level_9; lia). auto.
Qed.

(** ** retention passes: [remove_all (spare_last (filter P l) (last_opt l)) l] *)
Fixpoint mincr (c : N) (l : list sfile) : Prop :=
  match l with [] => True | f :: tl => c < s_max f /\ mincr (s_max f) tl end.

Lemma incrP_mincr : forall l c, incrP c l -> mincr c l.
Proof. induction l; simpl; intros; auto. destruct H as (?&?&?). split; [lia|auto]. Qed.
Lemma snapP_mincr : forall l c, snapP c l -> mincr c l.
Proof. induction l; simpl; intros; auto. destruct H as (?&?&?). split; auto. Qed.
Lemma mincr_weaken : forall l c c', c' <= c -> mincr c l -> mincr c' l.
Proof. destruct l; simpl; intros; auto. destruct H0. split; auto; lia. Qed.
Lemma mincr_filter k : forall l c, mincr c l -> mincr c (filter k l).
Proof. induction l; simpl; intros; auto. destruct H. destruct (k a); simpl; auto.
  apply IHl. eapply mincr_weaken; [|eauto]. lia. Qed.
Lemma mincr_gt : forall l c, mincr c l -> forall f, In f l -> c < s_max f.
Proof. induction l; simpl; intros c H f H0; [contradiction|]. destruct H. destruct H0; [subst; auto|]. specialize (IHl _ H1 _ H0). lia. Qed.
Lemma mincr_snoc_lt : forall l c x, mincr c (l ++ [x]) -> max_lt_all x l.
Proof. induction l; simpl; intros c x H d Hd; [contradiction|]. destruct H. destruct Hd.
  - subst. apply (mincr_gt _ _ H0). apply in_or_app. right. left. auto.
  - eapply IHl; eauto. Qed.
Lemma lmax_mincr_snoc : forall l c m x, mincr c (l ++ [x]) -> m <= c -> lmax_from m (l ++ [x]) = s_max x.
Proof. induction l; simpl; intros c m x H Hm; unfold lmax_from in *; simpl.
  - destruct H. assert (E: m <? s_max x = true) by (apply N.ltb_lt; lia). rewrite E. reflexivity.
  - destruct H. assert (E: m <? s_max a = true) by (apply N.ltb_lt; lia). rewrite E. eapply IHl; eauto. lia. Qed.

Lemma retention_pass P l c :
  mincr c l ->
  let D := spare_last (filter P l) (last_opt l) in
  lmax (remove_all D l) = lmax l /\
  (forall f, In f l -> memk f D = true -> exists d, In d l /\ P d = true /\ s_max f = s_max d) /\
  (l <> [] -> remove_all D l <> []).
Proof.
  intros H D. split; [|split].
  - destruct l as [|a l0]; [reflexivity|]. destruct (exists_snoc (a :: l0)) as (l'&x&E); [discriminate|].
    unfold D. rewrite E in *. rewrite remove_all_snoc.
    + rewrite !lmax_unfold. rewrite (lmax_mincr_snoc _ c 0 x); auto; try lia.
      rewrite (lmax_mincr_snoc _ c 0 x); auto; try lia.
      unfold remove_all. set (k := fun g => negb (memk g _)).
      assert (E2: filter k l' ++ [x] = filter (fun g => k g || key_eqb g x) (l' ++ [x])).
      { rewrite filter_app. simpl. unfold key_eqb at 2. rewrite !N.eqb_refl, orb_true_r. f_equal.
        apply filter_ext_in. intros g Hg. pose proof (mincr_snoc_lt _ _ _ H g Hg).
        unfold key_eqb. assert (E3: s_max g =? s_max x = false) by (apply N.eqb_neq; lia). rewrite E3, andb_false_r, orb_false_r. reflexivity. }
      rewrite E2. apply mincr_filter. auto.
    + apply retention_keeps_last. eapply mincr_snoc_lt; eauto.
  - intros f Hf Hm. apply memk_key in Hm. destruct Hm as (d&Hd&?&?). apply spare_last_subset in Hd.
    apply filter_In in Hd. destruct Hd. exists d. auto.
  - intros Hne. destruct (exists_snoc l Hne) as (l'&x&E). unfold D. rewrite E in *. rewrite remove_all_snoc.
    + destruct (remove_all _ l'); discriminate.
    + apply retention_keeps_last. eapply mincr_snoc_lt; eauto.
Qed.

(** ** DB.EnforceSnapshotRetention *)
Lemma floor_scan_le D M : forall l prev, (forall p, prev = Some p -> s_max p <= M) -> (forall f, In f l -> s_max f <= M) ->
  floor_scan D prev l <= M.
Proof. induction l; simpl; intros; try lia. destruct (memk a D).
  - apply IHl; auto. intros p [= <-]. auto.
  - destruct prev; [auto|lia]. Qed.

Lemma rinv_snap_retention st ts : RInv st ->
  RInv (snd (snap_retention st ts)) /\ frame st (snd (snap_retention st ts)) /\
  snapS (snd (snap_retention st ts)) = snapS st /\ fst (snap_retention st ts) <= snapS st.
Proof.
  intros HI. unfold snap_retention. simpl.
  set (l := st_rep st SnapshotLevel).
  set (D := spare_last (filter (fun info => s_created info <? ts) l) (last_opt l)).
  destruct (ri_snap st HI) as [S1 S2].
  destruct (retention_pass (fun info => s_created info <? ts) l 0 (snapP_mincr _ _ S1)) as (R1&R2&R3).
  fold D in R1, R2, R3.
  assert (Hfl: floor_scan D None l <= snapS st).
  { apply floor_scan_le. { discriminate. } intros. apply lmax_in. auto. }
  destruct (st_ret st) eqn:Er; [|split; [exact HI|split; [repeat split|split; [reflexivity|exact Hfl]]]].
  split; [|split; [repeat split; auto|split; [unfold snapS, set_rep; simpl; rewrite upd_same; auto|auto]]].
  destruct HI as [A B C Dd M].
  constructor; unfold set_rep, snapS; simpl.
  - destruct A as (a&?&?&?&?). exists a. rewrite !upd_other by (rewrite snap_level_9; lia). auto.
  - intros K HK. rewrite upd_same, R1. rewrite upd_other by (rewrite snap_level_9; lia). apply B; auto.
  - rewrite upd_same. split. { apply snapP_filter. auto. }
    intros f Hf. apply filter_In in Hf. apply S2. tauto.
  - intros K i HK. caseK K SnapshotLevel.
    + intros. fold l. rewrite R1. apply Dd; auto.
    + apply Dd; auto.
  - intros K HK. rewrite !upd_other by (rewrite snap_level_9; lia). auto.
Qed.

(** ** Compactor.EnforceRetentionByTXID *)
Lemma rinv_txid_retention st L fl : RInv st -> 1 <= L <= 8 -> fl <= snapS st ->
  RInv (txid_retention st L fl) /\ frame st (txid_retention st L fl) /\ snapS (txid_retention st L fl) = snapS st.
Proof.
  intros HI HL Hfl. unfold txid_retention.
  set (l := st_rep st L).
  set (D := spare_last (filter (fun info => s_max info <? fl) l) (last_opt l)).
  destruct (ri_lv st HI L HL) as (L1&L2&L3). fold l in L1, L2, L3.
  destruct (retention_pass (fun info => s_max info <? fl) l 0 (incrP_mincr _ _ L2)) as (R1&R2&R3).
  fold D in R1, R2, R3.
  destruct (st_ret st) eqn:Er; [|split; [exact HI|split; [repeat split|reflexivity]]].
  split; [|split; [repeat split; auto|unfold snapS, set_rep; simpl; rewrite upd_other; auto; rewrite snap_level_9; lia]].
  apply (rinv_upd_level st L (remove_all D l) (st_cache st) HI HL).
  - assert (Hk: forall f, In f l -> negb (memk f D) = false -> s_max f < snapS st).
    { intros f Hf E. apply negb_false_iff in E. destruct (R2 _ Hf E) as (d&?&Ed&Em). apply N.ltb_lt in Ed. lia. }
    repeat split.
    + intros ->. apply chainP_filter; auto.
    + apply incrP_filter; auto.
    + intros f Hf. apply filter_In in Hf. apply L3. tauto.
  - fold l. lia.
  - rewrite R1. apply (ri_lmax st HI L HL).
  - intros K i HK E. destruct (N.eq_dec K L) as [->|]; [left|right; auto]. split; auto.
    rewrite R1. eapply ri_cache; eauto.
Qed.

(** ** Store.EnforceSnapshotRetention (cascade) *)
Lemma seqN_range : forall n from x, In x (seqN from n) -> from <= x < from + N.of_nat n.
Proof. induction n; simpl; intros; [contradiction|]. destruct H; [lia|]. apply IHn in H. lia. Qed.

Lemma rinv_cascade fl : forall lvls st, RInv st -> fl <= snapS st -> (forall x, In x lvls -> x <= 8) ->
  let st' := fold_left (fun s lvl => if lvl =? 0 then s else txid_retention s lvl fl) lvls st in
  RInv st' /\ frame st st' /\ snapS st' = snapS st.
Proof.
  induction lvls; simpl; intros st HI Hfl Hl. { split; [auto|split; [repeat split|reflexivity]]. }
  destruct (a =? 0) eqn:E0. { apply IHlvls; auto. }
  apply N.eqb_neq in E0.
  destruct (rinv_txid_retention st a fl HI) as (T1&T2&T3); auto. { assert (a <= 8) by auto. lia. }
  destruct (IHlvls (txid_retention st a fl) T1) as (I1&I2&I3); auto. { lia. }
  split; auto. split; [eapply frame_trans; eauto|]. lia.
Qed.

Lemma rinv_store_snap_retention st ts : RInv st -> st_nlv st <= 8 ->
  RInv (snd (store_snap_retention st ts)) /\ frame st (snd (store_snap_retention st ts)) /\
  snapS (snd (store_snap_retention st ts)) = snapS st.
Proof.
  intros HI Hn. unfold store_snap_retention.
  pose proof (rinv_snap_retention st ts HI) as HS.
  destruct (snap_retention st ts) as [fl st1].
  change (fst (fl, st1)) with fl in HS. change (snd (fl, st1)) with st1 in HS.
  destruct HS as (S1&S2&S3&S4).
  change (snd (let (floor, st2) := (fl, st1) in
     (floor, fold_left (fun s lvl => if lvl =? 0 then s else txid_retention s lvl floor)
                       (seqN 0 (S (N.to_nat (st_nlv st)))) st2)))
    with (fold_left (fun s lvl => if lvl =? 0 then s else txid_retention s lvl fl)
                       (seqN 0 (S (N.to_nat (st_nlv st)))) st1).
  destruct (rinv_cascade fl (seqN 0 (S (N.to_nat (st_nlv st)))) st1 S1) as (C1&C2&C3).
  { lia. } { intros x Hx. apply seqN_range in Hx. rewrite Nat2N.inj_succ, N2Nat.id in Hx. lia. }
  cbn [snd]. split; auto. split; [eapply frame_trans; eauto|]. rewrite C3. exact S3.
Qed.

(** ** os.Chtimes *)
Lemma rinv_restamp st lv mn mx t : RInv st ->
  RInv (restamp st lv mn mx t) /\ frame st (restamp st lv mn mx t) /\ snapS (restamp st lv mn mx t) = snapS st.
Proof.
  intros HI. unfold restamp.
  set (g := fun f => if (s_min f =? mn) && (s_max f =? mx) then mkS (s_level f) (s_min f) (s_max f) t (s_hts f) else f).
  assert (Hg: forall f, s_min (g f) = s_min f /\ s_max (g f) = s_max f).
  { intros f. unfold g. destruct ((s_min f =? mn) && (s_max f =? mx)); auto. }
  assert (HS: forall K, lmax (upd (st_rep st) lv (map g (st_rep st lv)) K) = lmax (st_rep st K)).
  { intros K. caseK K lv; auto. apply lmax_map; auto. }
  split; [|split; [repeat split|unfold snapS, set_rep; simpl; apply HS]].
  destruct HI as [A B C D M].
  constructor; unfold set_rep, snapS; simpl.
  - destruct A as (a&A1&A2&A3&A4). exists a. rewrite HS. caseK 0 lv; auto.
    rewrite map_length. repeat split; auto. { apply runP_map; auto. }
    destruct A4; auto. right. destruct (st_rep st 0); [congruence|discriminate].
  - intros K HK. rewrite HS. destruct (B K HK) as (B1&B2&B3). caseK K lv; auto.
    repeat split.
    + intros. apply chainP_map; auto.
    + apply incrP_map; auto.
    + intros f Hf. destruct (in_map_range g Hg _ _ Hf) as (f0&?&?&E). rewrite E. auto.
  - destruct C as [C1 C2]. caseK SnapshotLevel lv; auto. split. { apply snapP_map; auto. }
    intros f Hf. destruct (in_map_range g Hg _ _ Hf) as (f0&?&?&E). rewrite E. auto.
  - intros K i HK E. rewrite HS. auto.
  - intros K HK. rewrite !HS. auto.
Qed.

(** ** Store.CompactDB *)
Lemma rinv_compact_db st L prev l0r t : RInv st -> 1 <= L <= 9 ->
  let st' := snd (compact_db st L prev l0r t) in
  RInv st' /\ frame st st' /\ snapS st <= snapS st'.
Proof.
  intros HI HL. unfold compact_db.
  destruct (db_max_info_spec st L HI) as (_&D1&D2&D3).
  destruct (db_max_info st L) as [dstInfo st1]. simpl in *.
  assert (ES: snapS st1 = snapS st) by (unfold snapS; rewrite D2; auto).
  destruct (prev <? s_created dstInfo). { simpl. split; [auto|split; [apply D3|lia]]. }
  destruct (L =? SnapshotLevel) eqn:E9.
  - destruct (negb (s_max dstInfo =? 0) && (st_pos st1 <=? s_max dstInfo)). { simpl. split; [auto|split; [apply D3|lia]]. }
    destruct (rinv_snapshot st1 t D1) as (S1&S2&S3&_). split; auto. split; [eapply frame_trans; eauto|]. lia.
  - apply N.eqb_neq in E9. rewrite snap_level_9 in E9.
    destruct (db_max_info_spec st1 (L - 1) D1) as (_&E1&E2&E3).
    destruct (db_max_info st1 (L - 1)) as [srcInfo st2]. simpl in *.
    assert (ES2: snapS st2 = snapS st) by (unfold snapS; rewrite E2; auto).
    destruct (s_max srcInfo <=? s_min dstInfo). { simpl. split; auto. split; [eapply frame_trans; eauto|]. lia. }
    destruct (rinv_db_compact st2 L l0r E1) as (C1&C2&C3); [lia|].
    split; auto. split; [eapply frame_trans; [eapply frame_trans|]; eauto|]. unfold snapS in *. rewrite C3. lia.
Qed.

(** ** every operation *)
Arguments snap_retention : simpl never.
Arguments store_snap_retention : simpl never.
Arguments compact_db : simpl never.
Arguments db_compact : simpl never.
Arguments snapshot : simpl never.
Arguments txid_retention : simpl never.
Arguments l0_retention : simpl never.
Arguments restamp : simpl never.
Arguments sync_upload : simpl never.

Lemma rinv_step st o : RInv st -> st_nlv st <= 8 -> op_ok st o ->
  RInv (step_state st o) /\ st_nlv (step_state st o) = st_nlv st /\ snapS st <= snapS (step_state st o).
Proof.
  intros HI Hn Hok. unfold step_state. destruct o; unfold step; cbn in *.
  - split; [apply rinv_sync; auto|]. split; auto. unfold snapS, sync_upload, set_pos, set_cache, set_rep; simpl.
    rewrite upd_other by (rewrite snap_level_9; lia). lia.
  - destruct (rinv_db_compact st L l0r HI Hok) as (C1&C2&C3). destruct (db_compact st L l0r). cbn in *.
    split; auto. split; [apply C2|]. unfold snapS. rewrite C3. lia.
  - destruct (rinv_compact_db st L prev l0r t HI Hok) as (C1&C2&C3). destruct (compact_db st L prev l0r t). cbn in *.
    split; auto. split; [apply C2|auto].
  - destruct (rinv_snapshot st t HI) as (C1&C2&C3&_). destruct (snapshot st t). cbn in *. split; auto. split; [apply C2|auto].
  - destruct (rinv_snap_retention st ts HI) as (C1&C2&C3&_). destruct (snap_retention st ts). cbn in *.
    split; auto. split; [apply C2|lia].
  - destruct Hok. destruct (rinv_txid_retention st L floor HI) as (C1&C2&C3); auto. split; auto. split; [apply C2|lia].
  - split; [apply rinv_l0_retention; auto|]. destruct (l0_retention_frame st l0r) as [F1 F2]. split; [apply F1|].
    unfold snapS. rewrite F2. lia.
  - destruct (rinv_store_snap_retention st ts HI Hn) as (C1&C2&C3). destruct (store_snap_retention st ts). cbn in *.
    split; auto. split; [apply C2|lia].
  - split; [|split; [reflexivity|apply N.le_refl]]. destruct HI. constructor; auto.
  - destruct (rinv_restamp st level mn mx t HI) as (C1&C2&C3). split; auto. split; [apply C2|lia].
Qed.

Lemma rinv_init ret nlv : RInv (init_state ret nlv).
Proof.
  constructor; simpl.
  - exists 0. unfold empty_replica. simpl. repeat split; auto. unfold lmax. simpl. lia.
  - intros. unfold empty_replica. repeat split; simpl; auto; try contradiction.
  - unfold empty_replica. simpl. split; auto. intros ? [].
  - discriminate.
  - intros. unfold empty_replica, lmax. simpl. lia.
Qed.

Fixpoint hist_ok (st : state) (ops : list op) : Prop :=
  match ops with
  | [] => True
  | o :: tl => op_ok st o /\ hist_ok (step_state st o) tl
  end.

Lemma rinv_run : forall ops st, RInv st -> st_nlv st <= 8 -> hist_ok st ops ->
  RInv (run st ops) /\ snapS st <= snapS (run st ops).
Proof.
  induction ops; simpl; intros st HI Hn Hh. { split; auto; lia. }
  destruct Hh as [H1 H2]. destruct (rinv_step st a HI Hn H1) as (S1&S2&S3).
  destruct (IHops (step_state st a) S1) as (I1&I2); auto. { lia. }
  unfold run in *. simpl. split; auto. lia.
Qed.
