(** [sx -> sx] entry points of the Store layer for the correspondence runner. *)
From Coq Require Import List NArith ZArith Bool.
From LS Require Import Base.Sx Plan.Planner Plan.Spec Store.Files Store.Ops Store.Spec.
Import ListNotations.
Open Scope N_scope.

(** a file is [[level; min; max; created]] *)
Definition sfile_of_sx (x : sx) : sfile :=
  mkS (asN (nthx 0 x)) (asN (nthx 1 x)) (asN (nthx 2 x)) (asN (nthx 3 x)) (asN (nthx 3 x)).

Definition replica_of_sx (x : sx) : replica :=
  let fl := map sfile_of_sx (asL x) in
  fun l => filter (fun f => s_level f =? l) fl.

Definition sx_of_sfile (f : sfile) : sx :=
  SL [sxN (s_level f); sxN (s_min f); sxN (s_max f); sxN (s_created f)].

Definition sx_of_replica (r : replica) : sx := SL (map sx_of_sfile (flat r)).

(** [[]] = None, [[thr]] = Some thr *)
Definition l0r_of_sx (x : sx) : option N :=
  match asL x with [] => None | t :: _ => Some (asN t) end.

(** operations: [code; args...]
    0 sync t | 1 compact L l0r | 2 compactdb L prev l0r t | 3 snapshot t
    4 snapret ts | 5 txidret L floor | 6 l0ret l0r | 7 storesnapret ts
    8 setret b | 9 restamp level min max t *)
Definition op_of_sx (x : sx) : op :=
  let a := fun i => asN (nthx i x) in
  match a 0%nat with
  | 0 => OSync (a 1%nat)
  | 1 => OCompact (a 1%nat) (l0r_of_sx (nthx 2 x))
  | 2 => OCompactDB (a 1%nat) (a 2%nat) (l0r_of_sx (nthx 3 x)) (a 4%nat)
  | 3 => OSnapshot (a 1%nat)
  | 4 => OSnapRet (a 1%nat)
  | 5 => OTxidRet (a 1%nat) (a 2%nat)
  | 6 => OL0Ret (l0r_of_sx (nthx 1 x))
  | 7 => OStoreSnapRet (a 1%nat)
  | 8 => OSetRet (asB (nthx 1 x))
  | _ => ORestamp (a 1%nat) (a 2%nat) (a 3%nat) (a 4%nat)
  end.

Definition status_code (s : status) : N :=
  match s with SOk => 0 | SNoCompaction => 1 | STooEarly => 2 | SCompactorError => 3 | SSnapshotError => 4 end.

Fixpoint run_trace (st : state) (ops : list op) : list sx :=
  match ops with
  | [] => []
  | o :: tl =>
      match step st o with
      | (s, aux, st') =>
          SL [sxN (status_code s); sxN aux; sxN (st_pos st'); sx_of_replica (st_rep st')] :: run_trace st' tl
      end
  end.

(** model entry: input [nlv; retentionEnabled; ops]
    output: per op [status; aux; pos; listing] *)
Definition store_run (x : sx) : sx :=
  let nlv := asN (nthx 0 x) in
  let ret := asB (nthx 1 x) in
  SL (run_trace (init_state ret nlv) (map op_of_sx (asL (nthx 2 x)))).

(** spec oracle (C07 RInv (i)-(v), C06 levels_contiguous) on an observed listing:
    input [pos; had_snapshot; retention_free; listing]; output 1 iff it holds *)
Definition store_inv_ok (x : sx) : sx :=
  let pos := asN (nthx 0 x) in
  let had := asB (nthx 1 x) in
  let retfree := asB (nthx 2 x) in
  let r := replica_of_sx (nthx 3 x) in
  sxB (rinv_listing_ok pos had r && latest_reachable_ok pos r &&
       (negb retfree || levels_contiguous_ok pos r)).

(** spec oracle (C15) on the implementation's answers to timestamp queries over
    one listing: input [pos; listing; queries], queries sorted by T, each
    [T; status; plan] with status 0 ok | 2 ErrTxNotAvailable and the plan as
    files.  Output 1 iff for every query
      ok    -> the plan is a valid chain of the listing using only files created
               before T, and (when all L0 files are present, L0 stamps are
               monotone and higher-level files are stamped no earlier than the
               L0 file of their MaxTXID) it ends exactly at max {k | stamp k < T};
      error -> no valid chain exists (under the same hypothesis: no stamp < T);
      T <= every stamp -> error;
    and the answers are monotone in T. *)
Definition q_T (q : sx) : N := asN (nthx 0 q).
Definition q_status (q : sx) : N := asN (nthx 1 q).
Definition q_plan (q : sx) : list file := map (fun x => to_file (sfile_of_sx x)) (asL (nthx 2 q)).

Definition query_ok (pos : N) (r : replica) (q : sx) : bool :=
  let fl := map to_file (flat r) in
  let T := q_T q in
  let p := q_plan q in
  let hyp := ts_hyp_ok pos r in
  negb (T =? 0) &&
  (if q_status q =? 0 then
     valid_chainb fl 0 T p && forallb (fun f => f_created f <? T) p &&
     (negb hyp || (chain_end p =? expected_end (r 0) T) && negb (chain_end p =? 0)) &&
     existsb (fun f => f_created f <? T) fl
   else if q_status q =? 2 then
     negb (chain_existsb fl 0 T) && (negb hyp || (expected_end (r 0) T =? 0))
   else false).

Fixpoint queries_mono (qs : list sx) : bool :=
  match qs with
  | q1 :: ((q2 :: _) as tl) =>
      (q_T q1 <=? q_T q2) &&
      (negb (q_status q1 =? 0) ||
       ((q_status q2 =? 0) && (chain_end (q_plan q1) <=? chain_end (q_plan q2)))) &&
      queries_mono tl
  | _ => true
  end.

Definition store_ts_ok (x : sx) : sx :=
  let pos := asN (nthx 0 x) in
  let r := replica_of_sx (nthx 1 x) in
  let qs := asL (nthx 2 x) in
  sxB (forallb (query_ok pos r) qs && queries_mono qs).

(** model entry (C15): the planner model's answer to a timestamp query over the
    listing: input [listing; T]; output [status; end TXID] *)
Definition store_ts_plan (x : sx) : sx :=
  let r := replica_of_sx (nthx 0 x) in
  let T := asN (nthx 1 x) in
  match calc_restore_plan (listing_of r) 0 T with
  | POk p => SL [sxN 0; sxN (chain_end p)]
  | PErr ETxNotAvailable => SL [sxN 2; sxN 0]
  | PErr _ => SL [sxN 9; sxN 0]
  end.

(** spec oracle (C15 hypothesis) on a listing produced by the real code on the
    real clock: input [pos; listing; record] with record = [[k; replication
    time of TXID k] ...]; output 1 iff every file (snapshots included) is
    stamped no earlier than the replication time of its newest transaction, L0
    files exactly at it, the record is monotone, and — when all L0 files are
    present — [ts_hyp_ok], the hypothesis of [ts_exact_for_listing], holds *)
Definition store_ts_hyp_ok (x : sx) : sx :=
  let pos := asN (nthx 0 x) in
  let r := replica_of_sx (nthx 1 x) in
  let rec := map (fun p => (asN (nthx 0 p), asN (nthx 1 p))) (asL (nthx 2 x)) in
  sxB (ts_hyp_real_ok pos rec r).
