(** Invariants of the store model as propositions, and the list facts about
    [put], [remove_all], [spare_last], [lmax] that the proofs share. *)
From Coq Require Import List NArith Bool Lia.
From LS Require Import Plan.Planner Store.Files Store.Ops.
Import ListNotations.
Open Scope N_scope.

(** strictly increasing, non-overlapping, well-formed ranges above [c] *)
Fixpoint incrP (c : N) (l : list sfile) : Prop :=
  match l with
  | [] => True
  | f :: tl => c < s_min f /\ s_min f <= s_max f /\ incrP (s_max f) tl
  end.

(** [incrP] and: a file continues its predecessor exactly or starts at or below [S] *)
Fixpoint chainP (S c : N) (l : list sfile) : Prop :=
  match l with
  | [] => True
  | f :: tl => c < s_min f /\ (s_min f = c + 1 \/ s_min f <= S) /\ s_min f <= s_max f /\ chainP S (s_max f) tl
  end.

(** single-TXID files [c+1, c+2, ...] *)
Fixpoint runP (c : N) (l : list sfile) : Prop :=
  match l with
  | [] => True
  | f :: tl => s_min f = c + 1 /\ s_max f = c + 1 /\ runP (c + 1) tl
  end.

(** snapshots: all start at 1, strictly increasing MaxTXID *)
Fixpoint snapP (c : N) (l : list sfile) : Prop :=
  match l with
  | [] => True
  | f :: tl => s_min f = 1 /\ c < s_max f /\ snapP (s_max f) tl
  end.

Lemma chainP_incrP S : forall l c, chainP S c l -> incrP c l.
Proof. induction l; simpl; intros; auto. destruct H as (?&?&?&?). eauto. Qed.

Lemma runP_incrP : forall l c, runP c l -> incrP c l.
Proof. induction l; simpl; intros; auto. destruct H as (?&?&?). repeat split; try lia. rewrite H0. auto. Qed.

Lemma chainP_mono S S' : S <= S' -> forall l c, chainP S c l -> chainP S' c l.
Proof. intros HS. induction l; simpl; intros; auto. destruct H as (?&?&?&?). repeat split; auto. destruct H0; [left|right]; lia. Qed.

Lemma runP_chainP S : forall l c, runP c l -> chainP S c l.
Proof. induction l; simpl; intros; auto. destruct H as (?&?&?). repeat split; try lia. rewrite H0. auto. Qed.

Lemma last_opt_cons {A} (a b : A) l : last_opt (a :: b :: l) = last_opt (b :: l).
Proof. unfold last_opt. simpl. destruct (rev l ++ [b]) eqn:R; [destruct (rev l); discriminate|]. reflexivity. Qed.

Lemma last_cons_default {A} : forall l (a d : A), last (a :: l) d = last l a.
Proof. induction l; intros; [reflexivity|]. change (last (a0 :: a :: l) d) with (last (a :: l) d). rewrite !IHl. reflexivity. Qed.

Lemma last_opt_cons_eq {A} : forall l (a : A), last_opt (a :: l) = Some (last l a).
Proof. induction l; intros; [reflexivity|]. rewrite last_opt_cons, IHl. rewrite last_cons_default. reflexivity. Qed.

Lemma last_opt_one {A} (a : A) : last_opt [a] = Some a.
Proof. reflexivity. Qed.

Lemma last_opt_snoc {A} (l : list A) x : last_opt (l ++ [x]) = Some x.
Proof. unfold last_opt. rewrite rev_app_distr. reflexivity. Qed.

(** ** lmax *)

Definition lmax_from (m : N) (l : list sfile) : N :=
  fold_left (fun m i => if m <? s_max i then s_max i else m) l m.

Lemma lmax_unfold l : lmax l = lmax_from 0 l.
Proof. reflexivity. Qed.

Lemma lmax_from_ge : forall l m, m <= lmax_from m l.
Proof. induction l; simpl; intros; try lia. unfold lmax_from in *. simpl.
  specialize (IHl (if m <? s_max a then s_max a else m)). destruct (m <? s_max a) eqn:E; [apply N.ltb_lt in E|]; lia. Qed.

Lemma lmax_from_in : forall l m f, In f l -> s_max f <= lmax_from m l.
Proof. induction l; simpl; intros; [tauto|]. unfold lmax_from in *. simpl. destruct H.
  - subst. pose proof (lmax_from_ge l (if m <? s_max f then s_max f else m)). unfold lmax_from in H.
    destruct (m <? s_max f) eqn:E; [|apply N.ltb_ge in E]; lia.
  - apply IHl. auto. Qed.

Lemma lmax_in l f : In f l -> s_max f <= lmax l.
Proof. apply lmax_from_in. Qed.

Lemma lmax_from_incr : forall l c m, incrP c l -> m <= c -> lmax_from m l = match last_opt l with Some x => s_max x | None => m end.
Proof.
  induction l; intros c m H Hm.
  - reflexivity.
  - simpl in H. destruct H as (H1&H2&H3). unfold lmax_from. simpl.
    assert (E: m <? s_max a = true) by (apply N.ltb_lt; lia). rewrite E.
    fold (lmax_from (s_max a) l). rewrite (IHl (s_max a) (s_max a)); auto; try lia.
    destruct l as [|b l']; [reflexivity|]. rewrite last_opt_cons. rewrite last_opt_cons_eq. reflexivity. Qed.

Lemma last_opt_nil {A} : @last_opt A [] = None.
Proof. reflexivity. Qed.

Lemma lmax_incr_snoc l x c : incrP c (l ++ [x]) -> lmax (l ++ [x]) = s_max x.
Proof. intros. rewrite lmax_unfold, (lmax_from_incr _ c 0); auto; try lia. rewrite last_opt_snoc. reflexivity. Qed.

Lemma incrP_app : forall l1 l2 c, incrP c (l1 ++ l2) <->
  incrP c l1 /\ incrP (match last_opt l1 with Some x => s_max x | None => c end) l2.
Proof.
  induction l1; intros; simpl.
  - unfold last_opt; simpl. tauto.
  - rewrite IHl1. destruct l1 as [|b l1'].
    + simpl. tauto.
    + rewrite last_opt_cons. destruct (last_opt (b :: l1')) eqn:E.
      * tauto.
      * unfold last_opt in E. simpl in E. destruct (rev l1' ++ [b]) eqn:R; [destruct (rev l1'); discriminate|discriminate].
Qed.

Lemma incrP_bounds : forall l c, incrP c l -> forall f, In f l -> c < s_min f /\ s_min f <= s_max f.
Proof. induction l; simpl; intros; [tauto|]. destruct H as (?&?&?). destruct H0; [subst; auto|].
  destruct (IHl _ H2 _ H0). lia. Qed.

Lemma incrP_weaken : forall l c c', c' <= c -> incrP c l -> incrP c' l.
Proof. destruct l; simpl; intros; auto. destruct H0 as (?&?&?). repeat split; auto; lia. Qed.

Lemma incrP_lmax_lt : forall l c f, incrP c (l ++ [f]) -> forall g, In g l -> s_max g < s_min f.
Proof. intros. apply incrP_app in H. destruct H as [H1 H2]. simpl in H2.
  induction l using rev_ind; [destruct H0|]. rewrite last_opt_snoc in H2.
  apply in_app_or in H0. destruct H0.
  - apply incrP_app in H1. destruct H1 as [H1 H3]. simpl in H3.
    assert (s_max g < s_min x).
    { destruct l using rev_ind; [destruct H|]. rewrite last_opt_snoc in H3. clear IHl0.
      pose proof (lmax_in (l ++ [x0]) g H). rewrite (lmax_incr_snoc _ _ c) in H0; auto. lia. }
    lia.
  - destruct H as [<-|[]]. lia. Qed.

(** ** put *)

Lemma put_append : forall l c f, incrP c l -> (forall g, In g l -> s_max g < s_min f) -> put f l = l ++ [f].
Proof.
  induction l; simpl; intros c f HI H; auto.
  destruct HI as (H1&H2&H3).
  assert (s_max a < s_min f) by auto.
  unfold key_eqb, key_ltb.
  assert (E1: s_min f =? s_min a = false) by (apply N.eqb_neq; lia).
  assert (E3: s_min f <? s_min a = false) by (apply N.ltb_ge; lia).
  rewrite E1, E3. simpl. erewrite IHl; eauto.
Qed.

Lemma put_in f l g : In g (put f l) -> g = f \/ In g l.
Proof. induction l; simpl; intros. { destruct H; auto. }
  destruct (key_eqb f a). { destruct H; auto. }
  destruct (key_ltb f a). { destruct H; auto. }
  destruct H; auto. destruct (IHl H); auto. Qed.

(** ** filters keep the shape *)

Lemma incrP_filter k : forall l c, incrP c l -> incrP c (filter k l).
Proof. induction l; simpl; intros; auto. destruct H as (?&?&?). destruct (k a); simpl.
  - repeat split; auto.
  - apply IHl. eapply incrP_weaken; [|eauto]. lia. Qed.

Lemma snapP_weaken : forall l c c', c' <= c -> snapP c l -> snapP c' l.
Proof. destruct l; simpl; intros; auto. destruct H0 as (?&?&?). repeat split; auto; lia. Qed.

Lemma snapP_filter k : forall l c, snapP c l -> snapP c (filter k l).
Proof. induction l; simpl; intros; auto. destruct H as (?&?&?). destruct (k a); simpl.
  - repeat split; auto.
  - apply IHl. eapply snapP_weaken; [|eauto]. lia. Qed.

Lemma snapP_incr_max : forall l c, snapP c l -> forall f, In f l -> c < s_max f /\ s_min f = 1.
Proof. induction l; simpl; intros; [tauto|]. destruct H as (?&?&?). destruct H0; [subst; auto|].
  destruct (IHl _ H2 _ H0). split; auto; lia. Qed.

Lemma chainP_filter S k : forall l c, chainP S c l ->
  (forall f, In f l -> k f = false -> s_max f < S) -> chainP S c (filter k l).
Proof.
  induction l; simpl; intros c H Hk; auto. destruct H as (H1&H2&H3&H4).
  destruct (k a) eqn:E; simpl.
  - repeat split; auto.
  - assert (s_max a < S) by auto. apply IHl; auto.
    destruct l as [|b l']; simpl in *; auto. destruct H4 as (?&?&?&?). repeat split; auto; try lia. Qed.

(** ** the last file of a level survives a retention pass *)

Definition max_lt_all (x : sfile) (l : list sfile) : Prop := forall d, In d l -> s_max d < s_max x.

Lemma memk_false x D : max_lt_all x D -> memk x D = false.
Proof. unfold memk. induction D; simpl; intros; auto. rewrite IHD.
  - unfold key_eqb. assert (s_max a < s_max x) by (apply H; left; auto).
    assert (E: s_max x =? s_max a = false) by (apply N.eqb_neq; lia). rewrite E, andb_false_r. reflexivity.
  - intros d Hd. apply H. right. auto. Qed.

Lemma in_removelast {A} : forall (l : list A) x, In x (removelast l) -> In x l.
Proof. induction l; simpl; intros; auto. destruct l; [destruct H|]. destruct H; auto. Qed.

Lemma removelast_snoc {A} (l : list A) x : removelast (l ++ [x]) = l.
Proof. apply removelast_last. Qed.

Lemma spare_last_subset D li d : In d (spare_last D li) -> In d D.
Proof. unfold spare_last. destruct (last_opt D); auto. destruct li; auto. destruct (key_eqb s s0); auto. apply in_removelast. Qed.

Lemma spare_last_in_prefix P l' x d :
  In d (spare_last (filter P (l' ++ [x])) (Some x)) -> In d l'.
Proof.
  rewrite filter_app. simpl. destruct (P x).
  - unfold spare_last. rewrite last_opt_snoc. unfold key_eqb. rewrite !N.eqb_refl. simpl.
    rewrite removelast_snoc. intros H. apply filter_In in H. tauto.
  - rewrite app_nil_r. intros H. apply spare_last_subset in H. apply filter_In in H. tauto.
Qed.

Lemma exists_snoc {A} (l : list A) : l <> [] -> exists l' x, l = l' ++ [x].
Proof. intros. destruct (exists_last H) as (l'&x&->). eauto. Qed.

(** a retention pass [remove_all (spare_last (filter P l) (last_opt l)) l] over a
    level with strictly increasing MaxTXIDs keeps the last file *)
Lemma retention_keeps_last P l' x :
  max_lt_all x l' ->
  memk x (spare_last (filter P (l' ++ [x])) (last_opt (l' ++ [x]))) = false.
Proof. intros. rewrite last_opt_snoc. apply memk_false. intros d Hd. apply H. eapply spare_last_in_prefix; eauto. Qed.

Lemma remove_all_snoc D l' x : memk x D = false -> remove_all D (l' ++ [x]) = remove_all D l' ++ [x].
Proof. intros. unfold remove_all. rewrite filter_app. simpl. rewrite H. reflexivity. Qed.

Lemma memk_key g D : memk g D = true -> exists d, In d D /\ s_min g = s_min d /\ s_max g = s_max d.
Proof. unfold memk. rewrite existsb_exists. intros (d&?&E). exists d. unfold key_eqb in E.
  apply andb_true_iff in E. destruct E as [E1 E2]. apply N.eqb_eq in E1, E2. auto. Qed.

(** ** maps that keep the TXID range *)
Section KeepRange.
  Variable g : sfile -> sfile.
  Hypothesis Hg : forall f, s_min (g f) = s_min f /\ s_max (g f) = s_max f.

  Lemma incrP_map : forall l c, incrP c l -> incrP c (map g l).
  Proof. induction l; simpl; intros; auto. destruct (Hg a) as [-> ->]. destruct H as (?&?&?). auto. Qed.
  Lemma chainP_map S : forall l c, chainP S c l -> chainP S c (map g l).
  Proof. induction l; simpl; intros; auto. destruct (Hg a) as [-> ->]. destruct H as (?&?&?&?). auto. Qed.
  Lemma runP_map : forall l c, runP c l -> runP c (map g l).
  Proof. induction l; simpl; intros; auto. destruct (Hg a) as [-> ->]. destruct H as (?&?&?). auto. Qed.
  Lemma snapP_map : forall l c, snapP c l -> snapP c (map g l).
  Proof. induction l; simpl; intros; auto. destruct (Hg a) as [-> ->]. destruct H as (?&?&?). auto. Qed.
  Lemma lmax_from_map : forall l m, lmax_from m (map g l) = lmax_from m l.
  Proof. induction l; simpl; intros; auto. unfold lmax_from in *. simpl. destruct (Hg a) as [_ ->]. apply IHl. Qed.
  Lemma lmax_map l : lmax (map g l) = lmax l.
  Proof. apply lmax_from_map. Qed.
  Lemma in_map_range l f : In f (map g l) -> exists f0, In f0 l /\ s_min f = s_min f0 /\ s_max f = s_max f0.
  Proof. rewrite in_map_iff. intros (f0&<-&?). exists f0. destruct (Hg f0). auto. Qed.
End KeepRange.

(** ** scan_max *)
Lemma scan_max_lmax_from : forall l i, s_max (fold_left (fun info item => if s_max info <? s_max item then item else info) l i)
  = lmax_from (s_max i) l.
Proof. induction l; simpl; intros; auto. unfold lmax_from in *. simpl. rewrite IHl. destruct (s_max i <? s_max a); reflexivity. Qed.

Lemma scan_max_lmax l : s_max (scan_max l) = lmax l.
Proof. unfold scan_max. rewrite scan_max_lmax_from. reflexivity. Qed.

(** ** runs *)
Lemma runP_snoc : forall l c f, runP c l -> s_min f = c + N.of_nat (length l) + 1 -> s_max f = s_min f -> runP c (l ++ [f]).
Proof. induction l; simpl; intros.
  - repeat split; auto; lia.
  - destruct H as (?&?&?). repeat split; auto. apply IHl; auto. lia. Qed.

Lemma runP_bounds : forall l c, runP c l -> forall f, In f l -> c < s_min f /\ s_max f = s_min f /\ s_max f <= c + N.of_nat (length l).
Proof. induction l; simpl; intros; [tauto|]. destruct H as (?&?&?). destruct H0.
  - subst. lia.
  - destruct (IHl _ H2 _ H0) as (?&?&?). lia. Qed.

Lemma runP_mem : forall l c k, runP c l -> c < k <= c + N.of_nat (length l) -> exists f, In f l /\ s_min f = k /\ s_max f = k.
Proof. induction l; simpl; intros. { lia. }
  destruct H as (?&?&?). destruct (N.eq_dec k (c + 1)).
  - exists a. subst. auto.
  - destruct (IHl (c + 1) k H2) as (f&?&?); [lia|]. exists f. auto. Qed.

Lemma runP_skipn : forall n l c, runP c l -> runP (c + N.of_nat (Nat.min n (length l))) (skipn n l).
Proof. induction n; simpl; intros. { replace (c + 0) with c by lia. auto. }
  destruct l; simpl. { replace (c + 0) with c by lia. auto. }
  destruct H as (?&?&?). replace (c + N.pos (Pos.of_succ_nat (Nat.min n (length l)))) with (c + 1 + N.of_nat (Nat.min n (length l))) by lia.
  apply IHn. auto. Qed.

Lemma lmax_from_le : forall l m b, m <= b -> (forall f, In f l -> s_max f <= b) -> lmax_from m l <= b.
Proof. induction l; simpl; intros; auto. unfold lmax_from in *. simpl. apply IHl; auto.
  assert (s_max a <= b) by auto. destruct (m <? s_max a); lia. Qed.

