(** What C07 / C06 (store level) / C15 demand of a replica listing, as
    decidable tests.  They are evaluated on the IMPLEMENTATION's observed
    listings by the correspondence run ([Entry.store_inv_ok], [store_ts_ok]);
    the theorems of Store/*Proofs.v show the model's reachable states satisfy
    the propositions these tests decide. *)
From Coq Require Import List NArith Bool Lia.
From LS Require Import Plan.Planner Plan.Spec Store.Files.
Import ListNotations.
Open Scope N_scope.

(** newest snapshot's MaxTXID (0: no snapshot) *)
Definition snap_max (r : replica) : N := lmax (r SnapshotLevel).

(** (iii) the L0 files are single-TXID files forming one run ending at [pos] *)
Fixpoint run_from (c : N) (l : list sfile) : bool :=
  match l with
  | [] => true
  | f :: tl => (s_min f =? c + 1) && (s_max f =? s_min f) && run_from (s_max f) tl
  end.

Definition l0_run_ok (pos : N) (l0 : list sfile) : bool :=
  match l0 with
  | [] => pos =? 0
  | f :: tl => (1 <=? s_min f) && (s_max f =? s_min f) && run_from (s_max f) tl && (lmax l0 =? pos)
  end.

(** (iv) a level >= 1: name order, no overlap, and a file either continues its
    predecessor exactly or starts at or below the retention bound [S] (a hole
    left by TXID retention lies below the newest snapshot's MaxTXID) *)
Fixpoint chainS (S c : N) (l : list sfile) : bool :=
  match l with
  | [] => true
  | f :: tl => (c <? s_min f) && ((s_min f =? c + 1) || (s_min f <=? S)) && (s_min f <=? s_max f)
               && chainS S (s_max f) tl
  end.

Definition covered (k : N) (l : list sfile) : bool :=
  existsb (fun f => (s_min f <=? k) && (k <=? s_max f)) l.

(** (v) every TXID [1..pos] that has no L0 file is covered by an L1 file or
    lies at or below a snapshot's MaxTXID *)
Definition deleted_l0_covered (pos : N) (r : replica) : bool :=
  forallb (fun k => covered k (r 0) || covered k (r 1) || (k <=? snap_max r))
          (seqN 1 (N.to_nat pos)).

Definition snaps_ok (pos : N) (l : list sfile) : bool :=
  forallb (fun f => (s_min f =? 1) && (1 <=? s_max f) && (s_max f <=? pos)) l.

Definition upper_levels : list N := [1; 2; 3; 4; 5; 6; 7; 8].

(** RInv (ii)-(v) of DESIGN C07 on a listing *)
Definition rinv_listing_ok (pos : N) (had_snap : bool) (r : replica) : bool :=
  (negb had_snap || negb (match r SnapshotLevel with [] => true | _ => false end)) &&
  l0_run_ok pos (r 0) &&
  forallb (fun L => chainS (snap_max r) 0 (r L) && (lmax (r L) <=? lmax (r (L - 1)))) upper_levels &&
  snaps_ok pos (r SnapshotLevel) &&
  deleted_l0_covered pos r.

(** RInv (i) without the planner: some valid chain reaches [pos] and no file
    lies beyond it (brute-force reachability of Plan/Spec.v) *)
Definition latest_reachable_ok (pos : N) (r : replica) : bool :=
  let fl := map to_file (flat r) in
  (pos =? 0) && (match fl with [] => true | _ => false end)
  || negb (pos =? 0) && (maxN (reach_set fl 0) =? pos) && forallb (fun f => f_max f <=? pos) fl.

(** C06 store level: every level >= 1 is an exact chain from TXID 1, all L0
    files are present, and every file of level L ends where a file of level
    L-1 ends *)
Definition levels_contiguous_ok (pos : N) (r : replica) : bool :=
  (match r 0 with [] => pos =? 0 | f :: _ => s_min f =? 1 end) &&
  l0_run_ok pos (r 0) &&
  forallb (fun L => chainS 0 0 (r L) &&
                    forallb (fun f => existsb (fun g => s_max g =? s_max f) (r (L - 1))) (r L))
          upper_levels.

(** ** C15 *)

(** hypothesis of [ts_exact_when_l0_present]: L0 files 1..pos all present,
    stamps non-decreasing in TXID, every higher-level file stamped no earlier
    than the L0 file of its MaxTXID *)
Fixpoint stamps_mono (c : N) (l : list sfile) : bool :=
  match l with [] => true | f :: tl => (c <=? s_created f) && stamps_mono (s_created f) tl end.

Definition stamp_of (l0 : list sfile) (k : N) : N :=
  match find (fun f => s_max f =? k) l0 with Some f => s_created f | None => 0 end.

Definition ts_hyp_ok (pos : N) (r : replica) : bool :=
  (match r 0 with [] => false | f :: _ => s_min f =? 1 end) && l0_run_ok pos (r 0) &&
  stamps_mono 0 (r 0) &&
  forallb (fun L => forallb (fun f => (1 <=? s_max f) && (s_max f <=? pos) && (s_min f <=? s_max f) && (1 <=? s_min f) &&
                                       (stamp_of (r 0) (s_max f) <=? s_created f)) (r L))
          (upper_levels ++ [SnapshotLevel]) &&
  forallb (fun f => s_min f =? 1) (r SnapshotLevel).

(** [max {k | stamp k < T}] (0 if there is none) *)
Definition expected_end (l0 : list sfile) (T : N) : N :=
  fold_left (fun m f => if (s_created f <? T) && (m <? s_max f) then s_max f else m) l0 0.

(** ** C15: the hypothesis against the record of when each TXID was replicated

    [rec] is the harness's own record [(k, time at which TXID k was replicated)]
    (the header timestamp of the L0 file of [k] read when it was written, also
    for TXIDs whose L0 file has since been deleted).  Every file of every level
    — snapshots included — must be stamped no earlier than the replication time
    of the newest transaction it contains, an L0 file exactly at it, and the
    record is non-decreasing in TXID. *)
Definition rec_stamp (rec : list (N * N)) (k : N) : option N :=
  match find (fun p => fst p =? k) rec with Some p => Some (snd p) | None => None end.

Fixpoint rec_mono (c : N) (rec : list (N * N)) : bool :=
  match rec with [] => true | p :: tl => (c <=? snd p) && rec_mono (snd p) tl end.

Definition file_not_before_contents (rec : list (N * N)) (f : sfile) : bool :=
  match rec_stamp rec (s_max f) with
  | Some t => (t <=? s_created f) && (negb (s_level f =? 0) || (s_created f =? t))
  | None => false
  end.

Definition contents_ok (rec : list (N * N)) (r : replica) : bool :=
  rec_mono 0 rec && forallb (file_not_before_contents rec) (flat r).

Definition l0_complete (pos : N) (r : replica) : bool :=
  (match r 0 with [] => false | f :: _ => s_min f =? 1 end) && l0_run_ok pos (r 0).

(** what the correspondence run demands of every listing produced by the real
    code on the real clock: [contents_ok], and — whenever all L0 files are
    present — the hypothesis [ts_hyp_ok] of [ts_exact] itself *)
Definition ts_hyp_real_ok (pos : N) (rec : list (N * N)) (r : replica) : bool :=
  contents_ok rec r && (negb (l0_complete pos r) || ts_hyp_ok pos r).
