(** C06 (store level) — [levels_contiguous]: over all retention-free histories
    of {sync-upload, Compact L, Store.CompactDB L, Snapshot}, for any level
    layout, every level >= 1 is an exact chain from TXID 1 (sorted,
    non-overlapping, next.min = prev.max+1, so each new file started where the
    previous one ended), all L0 files are present, and every file of level L
    ends where a file of level L-1 ends. *)
From Coq Require Import List NArith Bool Lia.
From LS Require Import Plan.Planner Store.Files Store.Ops Store.Inv Store.RetentionProofs.
Import ListNotations.
Open Scope N_scope.

Record LC (st : state) : Prop := mkLC {
  lc_l0 : runP 0 (st_rep st 0) /\ N.of_nat (length (st_rep st 0)) = st_pos st;
  lc_chain : forall L, 1 <= L <= 8 -> chainP 0 0 (st_rep st L);
  lc_bound : forall L f, 1 <= L <= 8 -> In f (st_rep st L) -> exists g, In g (st_rep st (L - 1)) /\ s_max g = s_max f;
  lc_cache : forall L i, 1 <= L <= 8 -> st_cache st L = Some i -> s_max i = lmax (st_rep st L)
}.

(** the operations of a retention-free history: L0 retention off inside Compact *)
Definition op_nr (o : op) : Prop :=
  match o with
  | OSync _ | OSnapshot _ => True
  | OCompact L None => 1 <= L <= 8
  | OCompactDB L _ None _ => 1 <= L <= 9
  | _ => False
  end.

Lemma lc_init ret nlv : LC (init_state ret nlv).
Proof. constructor; simpl; unfold empty_replica; simpl; auto; try (intros; contradiction); try discriminate. Qed.

Lemma lc_cache_upd st cache' :
  LC st -> (forall K i, 1 <= K <= 8 -> cache' K = Some i -> st_cache st K = Some i \/ s_max i = lmax (st_rep st K)) ->
  LC (mkSt (st_rep st) cache' (st_pos st) (st_ret st) (st_nlv st)).
Proof. intros [A B C D] H. constructor; simpl; auto. intros L i HL E. destruct (H _ _ HL E); eauto. Qed.

Lemma lc_sync st t : LC st -> LC (sync_upload st t).
Proof.
  intros [[A1 A2] B C D].
  set (info := mkS 0 (st_pos st + 1) (st_pos st + 1) t t).
  assert (P: put info (st_rep st 0) = st_rep st 0 ++ [info]).
  { eapply put_append. { apply runP_incrP. eauto. }
    intros g Hg. destruct (runP_bounds _ _ A1 _ Hg) as (?&?&?). simpl. lia. }
  unfold sync_upload. fold info. rewrite P.
  constructor; unfold set_pos, set_cache, set_rep; simpl.
  - rewrite upd_same. split. { apply runP_snoc; auto. simpl. lia. } rewrite app_length. simpl. lia.
  - intros L HL. rewrite upd_other by lia. auto.
  - intros L f HL Hf. rewrite upd_other in Hf by lia. destruct (C L f HL Hf) as (g&?&?).
    exists g. split; auto. destruct (N.eq_dec (L - 1) 0) as [e|ne]; [rewrite e in *; rewrite upd_same; apply in_or_app; auto|rewrite upd_other; auto].
  - intros L i HL. rewrite upd_other by lia. destruct (L =? 0) eqn:E; [apply N.eqb_eq in E; lia|]. auto.
Qed.

Lemma lc_snapshot st t : LC st -> LC (snd (snapshot st t)).
Proof.
  intros HL. unfold snapshot. destruct (st_pos st =? 0); simpl; auto.
  destruct HL as [A B C D]. constructor; unfold set_cache, set_rep; simpl.
  - rewrite upd_other by (rewrite snap_level_9; lia). auto.
  - intros L HL. rewrite upd_other by (rewrite snap_level_9; lia). auto.
  - intros L f HL. rewrite !upd_other by (rewrite snap_level_9; lia). auto.
  - intros L i HL. rewrite upd_other by (rewrite snap_level_9; lia).
    destruct (L =? SnapshotLevel) eqn:E; [apply N.eqb_eq in E; rewrite snap_level_9 in E; lia|]. auto.
Qed.

(** in an exact chain, right after a boundary [b] comes a file starting at [b+1] *)
Lemma chain_next : forall l c b, chainP 0 c l ->
  (b = c \/ exists g, In g l /\ s_max g = b) -> (exists f, In f l /\ b < s_min f) ->
  exists f', In f' l /\ s_min f' = b + 1.
Proof.
  induction l; intros c b H Hb (f&Hf&Hlt). { destruct Hf. }
  simpl in H. destruct H as (H1&H2&H3&H4).
  assert (Hm: s_min a = c + 1) by (destruct H2; lia).
  destruct Hb as [->|(g&Hg&Eg)]. { exists a. split; [left; auto|auto]. }
  assert (Hft: In f l).
  { destruct Hf as [<-|]; auto. exfalso. destruct Hg as [<-|Hg]; [lia|].
    destruct (incrP_bounds _ _ (chainP_incrP _ _ _ H4) _ Hg). lia. }
  destruct Hg as [<-|Hg].
  - subst b. destruct (IHl (s_max a) (s_max a) H4 (or_introl eq_refl) (ex_intro _ f (conj Hft Hlt))) as (f'&?&?).
    exists f'. split; [right; auto|auto].
  - destruct (IHl (s_max a) b H4 (or_intror (ex_intro _ g (conj Hg Eg))) (ex_intro _ f (conj Hft Hlt))) as (f'&?&?).
    exists f'. split; [right; auto|auto].
Qed.

Lemma files_ok_lc st K : LC st -> 0 <= K <= 8 -> forall f, In f (st_rep st K) -> 0 < s_min f /\ s_min f <= s_max f.
Proof.
  intros [[A1 A2] B C D] HK f Hf. destruct (N.eq_dec K 0) as [->|].
  - destruct (runP_bounds _ _ A1 _ Hf) as (?&?&?). lia.
  - assert (HK': 1 <= K <= 8) by lia. destruct (incrP_bounds _ _ (chainP_incrP _ _ _ (B K HK')) _ Hf). lia.
Qed.

Lemma lmax_boundary st L : LC st -> 1 <= L <= 8 ->
  lmax (st_rep st L) = 0 \/ exists g, In g (st_rep st (L - 1)) /\ s_max g = lmax (st_rep st L).
Proof.
  intros HL HLr. pose proof (chainP_incrP _ _ _ (lc_chain st HL L HLr)) as Hi.
  rewrite (lmax_incr _ 0 Hi). destruct (last_opt (st_rep st L)) eqn:E; auto.
  right. apply (lc_bound st HL L s HLr). apply last_opt_in. auto.
Qed.

(** what [Compactor.Compact] does to a state satisfying [LC]: nothing to the replica, or it
    appends one file to level [dst] that ends where the last input ends and carries the last
    input's header timestamp *)
Definition compact_shape (st st' : state) (dst : N) : Prop :=
  st_rep st' = st_rep st \/
  exists info lst, st_rep st' = upd (st_rep st) dst (st_rep st dst ++ [info]) /\
                   In lst (st_rep st (dst - 1)) /\ s_max info = s_max lst /\
                   s_created info = s_hts lst /\ s_hts info = s_hts lst /\ 1 <= s_min info.

Lemma lc_compact_shape st dst : LC st -> 1 <= dst <= 8 ->
  LC (snd (compact st dst)) /\ frame st (snd (compact st dst)) /\ compact_shape st (snd (compact st dst)) dst.
Proof.
  intros HL Hd. unfold compact, cmp_max_info.
  (* the cache lookup *)
  assert (Hc: exists prev st1, (match st_cache st dst with
            | Some i => (i, st)
            | None => (scan_max (st_rep st dst), if 0 <? s_max (scan_max (st_rep st dst)) then set_cache st dst (scan_max (st_rep st dst)) else st)
            end) = (prev, st1) /\ s_max prev = lmax (st_rep st dst) /\ LC st1 /\ st_rep st1 = st_rep st /\ frame st st1).
  { destruct (st_cache st dst) eqn:E.
    - exists s, st. split; [reflexivity|]. split; [eapply lc_cache; eauto|]. split; [auto|]. split; [reflexivity|apply frame_refl].
    - exists (scan_max (st_rep st dst)). eexists. split; [reflexivity|]. rewrite scan_max_lmax. split; [reflexivity|].
      destruct (0 <? lmax (st_rep st dst)).
      + split; [|split; [reflexivity|repeat split]]. apply lc_cache_upd; auto. intros K i HK. destruct (K =? dst) eqn:EK; auto.
        apply N.eqb_eq in EK. subst. intros [= <-]. right. apply scan_max_lmax.
      + split; [auto|]. split; [reflexivity|apply frame_refl]. }
  destruct Hc as (prev&st1&-> &Hprev&HL1&Hrep&Hfr).
  set (seek := s_max prev + 1).
  set (inputs := ltx_files (st_rep st1) (dst - 1) seek).
  destruct (range_of inputs) as [mn mx] eqn:ER.
  destruct inputs as [|first rest] eqn:EI. { simpl. split; [auto|split; [auto|left; auto]]. }
  destruct (negb (inputs_contiguous first rest)). { simpl. split; [auto|split; [auto|left; auto]]. }
  cbn [snd].
  assert (Hin: forall f, In f (first :: rest) -> In f (st_rep st (dst - 1)) /\ seek <= s_min f).
  { intros f Hf. rewrite <- EI in Hf. unfold inputs, ltx_files in Hf. apply filter_In in Hf.
    rewrite Hrep in Hf. destruct Hf as [? E]. apply N.leb_le in E. auto. }
  assert (Hwf: forall f, In f (first :: rest) -> 0 < s_min f /\ s_min f <= s_max f).
  { intros f Hf. destruct (Hin _ Hf). eapply (files_ok_lc st (dst - 1)); eauto. lia. }
  destruct (range_of_spec first rest) as (R1&(f1&Hf1&R2)&(f2&Hf2&R3)).
  { intros f Hf. destruct (Hwf _ Hf). lia. }
  rewrite ER in *. simpl in R1, R2, R3.
  assert (Hmn: seek <= mn) by (destruct (Hin _ Hf1); lia).
  assert (Hmm: mn <= mx) by (destruct (R1 _ Hf1); destruct (Hwf _ Hf1); lia).
  pose proof (lc_chain st HL dst Hd) as L1. pose proof (chainP_incrP _ _ _ L1) as L2.
  (* the output starts exactly at seek *)
  assert (Hstart: mn = seek).
  { assert (Hsrc: chainP 0 0 (st_rep st (dst - 1))).
    { destruct (N.eq_dec dst 1) as [->|]. { apply runP_chainP. apply (lc_l0 st HL). } apply (lc_chain st HL). lia. }
    destruct (chain_next (st_rep st (dst - 1)) 0 (lmax (st_rep st dst)) Hsrc) as (f'&Hf'&Ef').
    - destruct (lmax_boundary st dst HL Hd) as [->|?]; auto.
    - exists f1. destruct (Hin _ Hf1). split; auto. unfold seek in *. lia.
    - assert (In f' (first :: rest)).
      { rewrite <- EI. unfold inputs, ltx_files. apply filter_In. rewrite Hrep. split; auto. apply N.leb_le. unfold seek. lia. }
      destruct (R1 _ H). unfold seek in *. lia. }
  set (ts := s_hts match rest with [] => first | _ :: _ => last rest first end).
  change (s_hts (last (first :: rest) first)) with ts.
  set (info := mkS dst mn mx ts ts).
  rewrite Hrep.
  assert (P: put info (st_rep st dst) = st_rep st dst ++ [info]).
  { eapply put_append; eauto. intros g Hg. pose proof (lmax_in _ _ Hg). simpl. unfold seek in Hmn. lia. }
  rewrite P.
  assert (Hchain: chainP 0 0 (st_rep st dst ++ [info])).
  { apply chainP_snoc; auto. simpl. rewrite <- (lmax_incr _ 0 L2). unfold seek in *. repeat split; auto; lia. }
  assert (Hnewmax: lmax (st_rep st dst ++ [info]) = mx).
  { change mx with (s_max info). apply (lmax_incr_snoc _ _ 0). eapply chainP_incrP; eauto. }
  (* the last input ends at mx *)
  assert (Hsrci: incrP 0 (st_rep st (dst - 1))).
  { destruct (N.eq_dec dst 1) as [->|]. { apply runP_incrP. apply (lc_l0 st HL). }
    eapply chainP_incrP. apply (lc_chain st HL). lia. }
  assert (Hlst: In (last rest first) (first :: rest) /\ s_max (last rest first) = mx).
  { assert (Hi: incrP 0 (first :: rest)).
    { rewrite <- EI. unfold inputs, ltx_files. rewrite Hrep. apply incrP_filter. auto. }
    assert (Hl: In (last rest first) (first :: rest)) by (apply last_opt_in; apply last_opt_cons_eq).
    split; auto. pose proof (lmax_incr _ 0 Hi) as E. rewrite last_opt_cons_eq in E.
    pose proof (lmax_in _ _ Hf2). destruct (R1 _ Hl). lia. }
  destruct Hlst as [Hl1 Hl2].
  split; [|split; [destruct Hfr as (F1&F2&F3); unfold frame, set_cache, set_rep; simpl; auto|]].
  2:{ assert (Elst: match rest with [] => first | _ :: _ => last rest first end = last rest first) by (destruct rest; reflexivity).
      right. exists info, (last rest first). unfold set_cache, set_rep. simpl. rewrite Hrep.
      split; [reflexivity|]. destruct (Hin _ Hl1). split; [auto|]. split; [simpl; lia|].
      unfold ts. rewrite Elst. split; [reflexivity|]. split; [reflexivity|]. simpl. unfold seek in *. lia. }
  destruct Hfr as (F1&F2&F3). destruct HL as [A B C D]. destruct HL1 as [A' B' C' D'].
  constructor; unfold set_cache, set_rep; simpl; rewrite ?Hrep, ?F1.
  - rewrite upd_other by lia. auto.
  - intros K HK. caseK K dst; auto.
  - intros K f HK Hf. caseK K dst.
    + apply in_app_or in Hf. destruct Hf as [Hf|[<-|[]]].
      * destruct (C dst f HK Hf) as (g&?&?). exists g. split; auto. rewrite upd_other by lia. auto.
      * exists f2. destruct (Hin _ Hf2). split; auto. rewrite upd_other by lia. auto.
    + destruct (C K f HK Hf) as (g&?&?). exists g. split; auto.
      destruct (N.eq_dec (K - 1) dst) as [e|ne]; [rewrite e in *; rewrite upd_same; apply in_or_app; auto|rewrite upd_other; auto].
  - intros K i HK. destruct (K =? dst) eqn:E.
    + apply N.eqb_eq in E. subst. intros [= <-]. rewrite upd_same. simpl. auto.
    + apply N.eqb_neq in E. rewrite upd_other by auto. intros Hc. rewrite <- Hrep. apply D'; auto.
Qed.

Lemma lc_compact st dst : LC st -> 1 <= dst <= 8 -> LC (snd (compact st dst)).
Proof. intros. apply lc_compact_shape; auto. Qed.

Lemma lc_db_max_info st L : LC st -> LC (snd (db_max_info st L)) .
Proof.
  intros HL. unfold db_max_info. destruct (st_cache st L) eqn:E; simpl; auto.
  apply lc_cache_upd; auto. intros K i HK. destruct (K =? L) eqn:EK; auto.
  apply N.eqb_eq in EK. subst. intros [= <-]. right. apply scan_max_lmax.
Qed.

Lemma lc_step st o : LC st -> op_nr o -> LC (step_state st o).
Proof.
  intros HL Ho. unfold step_state, step. destruct o; simpl in Ho; try contradiction.
  - apply lc_sync; auto.
  - destruct l0r; [contradiction|]. unfold db_compact. pose proof (lc_compact st L HL Ho).
    destruct (compact st L) as [s st']. simpl in *. destruct s; simpl; auto. destruct (L =? 1); simpl; auto.
  - destruct l0r; [contradiction|]. unfold compact_db.
    pose proof (lc_db_max_info st L HL) as H1. destruct (db_max_info st L) as [dstInfo st1]. cbn [snd] in H1.
    destruct (prev <? s_created dstInfo); [auto|].
    destruct (L =? SnapshotLevel) eqn:E9.
    + destruct (negb (s_max dstInfo =? 0) && (st_pos st1 <=? s_max dstInfo)); [auto|].
      pose proof (lc_snapshot st1 t H1). destruct (snapshot st1 t). auto.
    + apply N.eqb_neq in E9. rewrite snap_level_9 in E9.
      pose proof (lc_db_max_info st1 (L - 1) H1) as H2. destruct (db_max_info st1 (L - 1)) as [srcInfo st2]. cbn [snd] in H2.
      destruct (s_max srcInfo <=? s_min dstInfo); [auto|].
      unfold db_compact. assert (HLr: 1 <= L <= 8) by lia. pose proof (lc_compact st2 L H2 HLr).
      destruct (compact st2 L) as [s st']. simpl in *. destruct s; simpl; auto. destruct (L =? 1); simpl; auto.
  - pose proof (lc_snapshot st t HL). destruct (snapshot st t). auto.
Qed.

Theorem levels_contiguous : forall ret nlv ops,
  Forall op_nr ops -> LC (run (init_state ret nlv) ops).
Proof.
  intros ret nlv ops H. assert (G: forall ops st, LC st -> Forall op_nr ops -> LC (run st ops)).
  { induction ops0; simpl; intros; auto. inversion H1; subst. unfold run in *. simpl. apply IHops0; auto. apply lc_step; auto. }
  apply G; auto. apply lc_init.
Qed.

(** non-vacuity: a three-level history *)
Example levels_contiguous_example :
  let st := run (init_state true 3)
     [OSync 1; OSync 2; OCompact 1 None; OSync 3; OCompact 1 None; OCompact 2 None; OSync 4; OSnapshot 5;
      OCompactDB 1 100 None 0; OCompactDB 2 100 None 0; OCompact 3 None] in
  map (fun f => (s_min f, s_max f)) (st_rep st 1) = [(1, 2); (3, 3); (4, 4)] /\
  map (fun f => (s_min f, s_max f)) (st_rep st 2) = [(1, 3); (4, 4)] /\
  map (fun f => (s_min f, s_max f)) (st_rep st 3) = [(1, 4)].
Proof. vm_compute. repeat split. Qed.
