(** C07 — [retention_safe] and its companions. *)
From Coq Require Import List NArith Bool Lia.
From LS Require Import Plan.Planner Plan.Spec Store.Files Store.Ops Store.Inv Store.RetentionProofs Store.PlanProofs.
Import ListNotations.
Open Scope N_scope.

Lemma run_app st ops1 ops2 : run st (ops1 ++ ops2) = run (run st ops1) ops2.
Proof. unfold run. apply fold_left_app. Qed.

Lemma hist_ok_app : forall ops1 ops2 st, hist_ok st (ops1 ++ ops2) -> hist_ok st ops1 /\ hist_ok (run st ops1) ops2.
Proof. induction ops1; simpl; intros; auto. destruct H. destruct (IHops1 _ _ H0). auto. Qed.

Lemma run_nlv : forall ops st, RInv st -> st_nlv st <= 8 -> hist_ok st ops -> st_nlv (run st ops) = st_nlv st.
Proof. induction ops; simpl; intros; auto. destruct H1. destruct (rinv_step st a H H0 H1) as (?&?&?).
  unfold run in *. simpl. rewrite IHops; auto. lia. Qed.

(** For every history over {write+sync, Compact L, CompactDB L, Snapshot, the
    three retention passes, the Store cascade, RetentionEnabled on/off,
    re-stamping any file} with ARBITRARY stamps and thresholds, starting from
    the empty replica, with 0..nlv configured levels (nlv <= 8): the invariant
    holds, and the restore planner returns a plan ending exactly at the newest
    L0 TXID.  (The history may be any prefix of a longer one: the statement
    holds after every step.) *)
Theorem retention_safe : forall ret nlv ops,
  nlv <= 8 -> hist_ok (init_state ret nlv) ops ->
  let st := run (init_state ret nlv) ops in
  RInv st /\
  (0 < st_pos st -> exists p, calc_restore_plan (listing_of (st_rep st)) 0 0 = POk p /\ chain_end p = st_pos st).
Proof.
  intros ret nlv ops Hn Hh st.
  destruct (rinv_run ops (init_state ret nlv) (rinv_init ret nlv) Hn Hh) as [HI _].
  split; auto. intros. apply rinv_plan; auto.
Qed.

(** (ii) once a snapshot exists, one exists ever after *)
Lemma snap_nonempty st : RInv st -> (st_rep st SnapshotLevel <> [] <-> 0 < snapS st).
Proof.
  intros HI. destruct (ri_snap st HI) as [S1 _]. unfold snapS. split.
  - intros. destruct (st_rep st SnapshotLevel) as [|a l]; [congruence|].
    destruct S1 as (_&?&_). pose proof (lmax_in (a :: l) a (or_introl eq_refl)). lia.
  - intros H E. rewrite E in H. unfold lmax in H. simpl in H. lia.
Qed.

Theorem snapshot_survives : forall ret nlv ops1 ops2,
  nlv <= 8 -> hist_ok (init_state ret nlv) (ops1 ++ ops2) ->
  st_rep (run (init_state ret nlv) ops1) SnapshotLevel <> [] ->
  st_rep (run (init_state ret nlv) (ops1 ++ ops2)) SnapshotLevel <> [].
Proof.
  intros ret nlv ops1 ops2 Hn Hh H1. destruct (hist_ok_app _ _ _ Hh) as [Ha Hb].
  destruct (rinv_run ops1 _ (rinv_init ret nlv) Hn Ha) as [HI1 _].
  rewrite run_app.
  assert (Hn1: st_nlv (run (init_state ret nlv) ops1) <= 8) by (rewrite run_nlv; auto using rinv_init).
  destruct (rinv_run ops2 _ HI1 Hn1 Hb) as [HI2 Hm].
  apply (snap_nonempty _ HI2). apply (snap_nonempty _ HI1) in H1. lia.
Qed.

(** a successful snapshot creates one *)
Lemma snapshot_creates st t : RInv st -> 0 < st_pos st -> st_rep (step_state st (OSnapshot t)) SnapshotLevel <> [].
Proof.
  intros HI Hp. unfold step_state, step. destruct (rinv_snapshot st t HI) as (H1&_&_&H4).
  unfold snapshot in *. destruct (st_pos st =? 0) eqn:E; [apply N.eqb_eq in E; lia|].
  simpl in *. apply (snap_nonempty _ H1). auto.
Qed.

(** (iii) the surviving L0 files are one contiguous run of single-TXID files
    ending at the newest; (v) every TXID without an L0 file is covered by an L1
    file or lies at or below the newest snapshot's MaxTXID *)
Lemma chainP_cover S : forall l c k, chainP S c l -> c < k <= lmax_from c l ->
  (exists f, In f l /\ s_min f <= k <= s_max f) \/ k <= S.
Proof.
  induction l; simpl; intros c k H Hk. { unfold lmax_from in Hk; simpl in Hk. lia. }
  destruct H as (H1&H2&H3&H4). unfold lmax_from in Hk. simpl in Hk.
  assert (E: c <? s_max a = true) by (apply N.ltb_lt; lia). rewrite E in Hk. fold (lmax_from (s_max a) l) in Hk.
  destruct (N.le_gt_cases k (s_max a)).
  - destruct (N.le_gt_cases (s_min a) k).
    + left. exists a. split; auto.
    + right. destruct H2; lia.
  - assert (Hk2: s_max a < k <= lmax_from (s_max a) l) by lia.
    destruct (IHl _ k H4 Hk2) as [(f&?&?)|?]; [left; exists f; auto|right; auto].
Qed.

Theorem l0_run_and_cover : forall st, RInv st ->
  exists a, runP a (st_rep st 0) /\ a + N.of_nat (length (st_rep st 0)) = st_pos st /\
            (st_pos st = 0 \/ st_rep st 0 <> []) /\
            forall k, 1 <= k <= a ->
              (exists f, In f (st_rep st 1) /\ s_min f <= k <= s_max f) \/ k <= snapS st.
Proof.
  intros st HI. destruct (ri_l0 st HI) as (a&A1&A2&A3&A4). exists a. repeat split; auto.
  intros k Hk. destruct (ri_lv st HI 1) as (L1&_&_); [lia|].
  apply (chainP_cover _ _ 0); auto. rewrite lmax_unfold in A3. lia.
Qed.

(** (iv) as far as it is proved: L1 is contiguous above the newest snapshot's MaxTXID
    ([chainP], part of [RInv]); every level 1..8 is in name order, non-overlapping, holds only
    ranges within 1..pos, and max(L) <= max(L-1).
    MISSING (hence [_partial]): for levels >= 2, that a hole can only lie at or below the
    newest snapshot's MaxTXID (the alignment argument "no file of L-1 straddles max(L)" is not
    mechanised).  It is not needed for (i): the chain exhibited in PlanProofs.v uses only the
    newest snapshot, L1 and L0.  The correspondence oracle [rinv_listing_ok] checks it for every
    level on the implementation's listings. *)
Theorem retention_levels_partial : forall st, RInv st ->
  chainP (snapS st) 0 (st_rep st 1) /\
  forall L, 1 <= L <= 8 ->
    incrP 0 (st_rep st L) /\ (forall f, In f (st_rep st L) -> s_max f <= st_pos st) /\
    lmax (st_rep st L) <= lmax (st_rep st (L - 1)).
Proof.
  intros st HI. split. { destruct (ri_lv st HI 1) as (H&_&_); [lia|auto]. }
  intros L HL. destruct (ri_lv st HI L HL) as (_&H2&H3). split; auto. split; auto. apply (ri_lmax st HI L HL).
Qed.

(** Outside the domain of the theorem: a direct EnforceRetentionByTXID with a
    floor above every snapshot can cut the only chain (here: L1 = 1..1, 2..2,
    L0 reduced to TXID 2, no snapshot, floor 5). *)
Definition unsafe_history : list op :=
  [OSync 1; OCompact 1 None; OSync 2; OCompact 1 None; OL0Ret (Some 10); OTxidRet 1 5].

Theorem retention_arbitrary_floor_refuted :
  exists ops, let st := run (init_state true 1) ops in
    0 < st_pos st /\ calc_restore_plan (listing_of (st_rep st)) 0 0 = PErr ETxNotAvailable.
Proof. exists unsafe_history. vm_compute. split; reflexivity. Qed.

(** the hypotheses are satisfiable by a history that exercises every operation *)
Definition sample_history : list op :=
  [OSync 5; OSync 6; OCompact 1 None; OSnapshot 7; OSync 8; ORestamp 0 1 1 1; OCompactDB 1 100 (Some 3) 0;
   OSync 9; OSnapshot 2; OSnapRet 5; OCompact 2 None; OTxidRet 1 3; OL0Ret (Some 100); OStoreSnapRet 100;
   OSetRet false; OSync 10; OStoreSnapRet 100; OCompactDB 9 100 None 11].

(** NON-MONOTONE snapshot ages: the NEWER snapshot (1..4) is older than the retention
    threshold while the EARLIER one (1..2) is still recent, L0 has been trimmed behind L1, and
    the snapshot pass runs with its cascade.  (The theorem quantifies over all stamps, so it
    covers this; the example shows what the model does: the newest snapshot is the last one
    listed and is spared, the floor is 0, nothing below L1 is cut, the plan ends at pos = 5.) *)
Definition nonmonotone_history : list op :=
  [OSync 1; OSync 2; OSnapshot 3; OSync 4; OCompact 1 None; OSync 5; OCompact 1 None; OSnapshot 6;
   OSync 7; OCompact 1 None;
   ORestamp 9 1 4 3;   (* newest snapshot: expired *)
   ORestamp 9 1 2 9;   (* earlier snapshot: recent *)
   OL0Ret (Some 100);  (* every L0 file is old: L0 trimmed to the newest *)
   OStoreSnapRet 6].

Example nonmonotone_history_ok :
  hist_ok (init_state true 2) nonmonotone_history /\
  let st := run (init_state true 2) nonmonotone_history in
  st_pos st = 5 /\
  map (fun f => (s_min f, s_max f)) (st_rep st 0) = [(5, 5)] /\
  map (fun f => (s_min f, s_max f)) (st_rep st 1) = [(1, 3); (4, 4); (5, 5)] /\
  map (fun f => (s_max f, s_created f)) (st_rep st SnapshotLevel) = [(2, 9); (4, 3)] /\
  calc_restore_plan (listing_of (st_rep st)) 0 0 = POk [mkFile 9 1 4 3; mkFile 1 5 5 7].
Proof. vm_compute. repeat split; discriminate. Qed.

(** the same pattern with the earlier snapshot expired as well: only then is a snapshot
    deleted, and the floor is the MaxTXID of the one listed just before the first kept *)
Example nonmonotone_both_expired :
  let st := run (init_state true 2)
     [OSync 1; OSync 2; OSnapshot 3; OSync 4; OCompact 1 None; OSync 5; OCompact 1 None; OSnapshot 6;
      OSync 7; OCompact 1 None; ORestamp 9 1 4 3; ORestamp 9 1 2 2; OL0Ret (Some 100); OStoreSnapRet 6] in
  map (fun f => (s_min f, s_max f)) (st_rep st 1) = [(1, 3); (4, 4); (5, 5)] /\
  map s_max (st_rep st SnapshotLevel) = [4] /\
  calc_restore_plan (listing_of (st_rep st)) 0 0 = POk [mkFile 9 1 4 3; mkFile 1 5 5 7].
Proof. vm_compute. repeat split. Qed.

Example sample_history_ok : hist_ok (init_state true 2) sample_history.
Proof. vm_compute. repeat split; discriminate. Qed.

Example sample_history_state :
  let st := run (init_state true 2) sample_history in
  st_pos st = 5 /\ map s_max (st_rep st 0) = [4; 5] /\ map s_max (st_rep st SnapshotLevel) = [4; 5].
Proof. vm_compute. repeat split. Qed.
