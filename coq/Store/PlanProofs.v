(** C07 (i): in every state satisfying [RInv] the restore planner (the model
    of CalcRestorePlan proved sound and complete in Plan/Proofs.v) returns a
    plan, and that plan ends exactly at the newest L0 TXID. *)
From Coq Require Import List NArith Bool Lia Sorted.
From LS Require Import Plan.Planner Plan.Spec Plan.Proofs Store.Files Store.Ops Store.Inv Store.RetentionProofs.
Import ListNotations.
Open Scope N_scope.

Definition sel (c : N) (l : list sfile) : list sfile := filter (fun f => c <? s_max f) l.

Lemma sel_all : forall l m c, incrP m l -> c <= m -> sel c l = l.
Proof. induction l; simpl; intros; auto. destruct H as (?&?&?).
  assert (E: c <? s_max a = true) by (apply N.ltb_lt; lia). rewrite E. f_equal. eapply IHl; eauto. lia. Qed.

Lemma links_app : forall p1 p2 c, links c p1 -> links (endfrom c p1) p2 -> links c (p1 ++ p2).
Proof. induction p1; simpl; intros; auto. destruct H as (?&?&?). repeat split; auto.
  apply IHp1; auto. rewrite <- (endfrom_cons c). auto. Qed.

Lemma endfrom_app : forall p1 p2 c, endfrom c (p1 ++ p2) = endfrom (endfrom c p1) p2.
Proof. induction p1; intros; auto. rewrite <- app_comm_cons, !endfrom_cons. apply IHp1. Qed.

Lemma chain_sel S : forall l c0 c, chainP S c0 l -> S <= c -> c0 <= c ->
  links c (map to_file (sel c l)) /\ endfrom c (map to_file (sel c l)) = lmax_from c l.
Proof.
  induction l; intros c0 c H HS Hc.
  - simpl. split; auto.
  - destruct H as (H1&H2&H3&H4).
    change (sel c (a :: l)) with (if c <? s_max a then a :: sel c l else sel c l).
    change (lmax_from c (a :: l)) with (lmax_from (if c <? s_max a then s_max a else c) l).
    destruct (c <? s_max a) eqn:E.
    + apply N.ltb_lt in E.
      assert (Es: sel c l = sel (s_max a) l).
      { rewrite (sel_all l (s_max a) c), (sel_all l (s_max a) (s_max a)); auto; try lia; eapply chainP_incrP; eauto. }
      rewrite Es.
      destruct (IHl (s_max a) (s_max a) H4) as [I1 I2]; try lia.
      cbn [map]. split.
      * cbn [links]. repeat split; auto. simpl. destruct H2; lia.
      * rewrite endfrom_cons. auto.
    + apply N.ltb_ge in E. apply (IHl (s_max a)); auto.
Qed.

Lemma lmax_from_mono : forall l m m', m <= m' -> lmax_from m l <= lmax_from m' l.
Proof. induction l; simpl; intros; auto. unfold lmax_from in *. simpl. apply IHl.
  destruct (m <? s_max a) eqn:E1, (m' <? s_max a) eqn:E2;
    try apply N.ltb_lt in E1; try apply N.ltb_lt in E2; try apply N.ltb_ge in E1; try apply N.ltb_ge in E2; lia. Qed.

Lemma incrP_sorted : forall l c, incrP c l -> StronglySorted file_le (map to_file l).
Proof. induction l; simpl; intros; constructor.
  - destruct H as (?&?&?). eauto.
  - destruct H as (?&?&?). apply Forall_forall. intros g Hg. apply in_map_iff in Hg. destruct Hg as (g0&<-&Hg).
    destruct (incrP_bounds _ _ H1 _ Hg). left. simpl. lia. Qed.

Lemma snapP_sorted : forall l c, snapP c l -> StronglySorted file_le (map to_file l).
Proof. induction l; simpl; intros; constructor.
  - destruct H as (?&?&?). eauto.
  - destruct H as (?&?&?). apply Forall_forall. intros g Hg. apply in_map_iff in Hg. destruct Hg as (g0&<-&Hg).
    destruct (snapP_incr_max _ _ H1 _ Hg). right. simpl. lia. Qed.

Section FromRInv.
  Variable st : state.
  Hypothesis HI : RInv st.
  Let fs := listing_of (st_rep st).

  Lemma level_files_ok : forall L, In L all_levels -> forall f, In f (st_rep st L) ->
    1 <= s_min f /\ s_min f <= s_max f /\ s_max f <= st_pos st /\ (L = SnapshotLevel -> s_min f = 1).
  Proof.
    intros L HL f Hf. unfold all_levels, cursor_levels in HL. simpl in HL.
    destruct HL as [<-|HL].
    - destruct (ri_snap st HI) as [S1 S2]. destruct (snapP_incr_max _ _ S1 _ Hf). specialize (S2 _ Hf). lia.
    - assert (0 <= L <= 8) by (repeat (destruct HL as [<-|HL]; [lia|]); destruct HL).
      destruct (files_ok st L HI H f Hf) as (?&?&?). repeat split; auto; try lia.
      intros ->. rewrite snap_level_9 in H. lia.
  Qed.

  Lemma in_fs f : In f (all_files fs) -> exists L s, In L all_levels /\ In s (st_rep st L) /\ f = to_file s.
  Proof.
    unfold all_files. intros H. apply in_concat in H. destruct H as (l&Hl&Hf).
    apply in_map_iff in Hl. destruct Hl as (L&<-&HL). unfold fs, listing_of in Hf.
    apply in_map_iff in Hf. destruct Hf as (s&<-&Hs). eauto.
  Qed.

  Lemma rinv_wf_listing : wf_listing fs.
  Proof.
    split.
    - intros f Hf. destruct (in_fs f Hf) as (L&s&HL&Hs&->). destruct (level_files_ok L HL s Hs) as (?&?&?&?).
      split; simpl; auto.
    - intros f Hf. unfold fs, listing_of in Hf. apply in_map_iff in Hf. destruct Hf as (s&<-&Hs).
      destruct (level_files_ok SnapshotLevel (or_introl eq_refl) s Hs) as (?&?&?&?). simpl. auto.
  Qed.

  Lemma rinv_sorted_listing : sorted_listing fs.
  Proof.
    intros L HL. unfold fs, listing_of. unfold all_levels, cursor_levels in HL. simpl in HL.
    destruct HL as [<-|HL].
    - destruct (ri_snap st HI). eapply snapP_sorted; eauto.
    - destruct (N.eq_dec L 0) as [->|].
      + destruct (ri_l0 st HI) as (a&A1&_). eapply incrP_sorted. apply runP_incrP. eauto.
      + assert (1 <= L <= 8) by (repeat (destruct HL as [<-|HL]; [lia|]); destruct HL).
        destruct (ri_lv st HI L H) as (_&?&_). eapply incrP_sorted; eauto.
  Qed.

  Lemma rinv_all_le_pos : forall f, In f (all_files fs) -> f_max f <= st_pos st.
  Proof. intros f Hf. destruct (in_fs f Hf) as (L&s&HL&Hs&->). destruct (level_files_ok L HL s Hs) as (?&?&?&?). simpl. auto. Qed.

  (** the chain: newest snapshot, L1 files beyond it, L0 files beyond those *)
  Definition the_chain : list file :=
    let S := snapS st in
    (match last_opt (st_rep st SnapshotLevel) with Some s => [to_file s] | None => [] end) ++
    map to_file (sel S (st_rep st 1)) ++
    map to_file (sel (lmax_from S (st_rep st 1)) (st_rep st 0)).

  Lemma snap_part : let sp := match last_opt (st_rep st SnapshotLevel) with Some s => [to_file s] | None => [] end in
    links 0 sp /\ endfrom 0 sp = snapS st.
  Proof.
    destruct (ri_snap st HI) as [S1 S2]. unfold snapS.
    destruct (st_rep st SnapshotLevel) as [|a l] eqn:E.
    - simpl. split; auto.
    - rewrite <- E in *. destruct (exists_snoc (st_rep st SnapshotLevel)) as (l'&x&E2); [rewrite E; discriminate|].
      rewrite E2 in *. rewrite last_opt_snoc. rewrite lmax_unfold, (lmax_mincr_snoc _ 0 0 x); [|apply snapP_mincr; auto|lia].
      destruct (snapP_incr_max _ _ S1 x) as [? ?]. { apply in_or_app. right. left. auto. }
      simpl. repeat split; auto; lia.
  Qed.

  Lemma the_chain_ok : 0 < st_pos st ->
    valid_chain (all_files fs) 0 0 the_chain /\ chain_end the_chain = st_pos st.
  Proof.
    intros Hpos. unfold the_chain.
    set (S := snapS st).
    set (sp := match last_opt (st_rep st SnapshotLevel) with Some s => [to_file s] | None => [] end).
    set (c1 := lmax_from S (st_rep st 1)).
    destruct snap_part as [P1 P2]. fold sp in P1, P2. fold S in P2.
    destruct (ri_lv st HI 1) as (L1&L2&L3); [lia|]. specialize (L1 eq_refl). fold S in L1.
    destruct (chain_sel S (st_rep st 1) 0 S L1) as [Q1 Q2]; try lia. fold c1 in Q2.
    destruct (ri_l0 st HI) as (a&A1&A2&A3&A4).
    assert (Hc1: a <= c1).
    { unfold c1. pose proof (lmax_from_mono (st_rep st 1) 0 S). rewrite lmax_unfold in A3. lia. }
    destruct (chain_sel 0 (st_rep st 0) a c1 (runP_chainP 0 _ _ A1)) as [R1 R2]; try lia.
    assert (Hlinks: links 0 (sp ++ map to_file (sel S (st_rep st 1)) ++ map to_file (sel c1 (st_rep st 0)))).
    { apply links_app; auto. rewrite P2. apply links_app; auto. rewrite Q2. auto. }
    assert (Hend: endfrom 0 (sp ++ map to_file (sel S (st_rep st 1)) ++ map to_file (sel c1 (st_rep st 0))) = st_pos st).
    { rewrite !endfrom_app, P2, Q2, R2.
      assert (c1 <= st_pos st).
      { unfold c1. apply lmax_from_le; auto. unfold S, snapS. apply lmax_from_le; [lia|]. apply (ri_snap st HI). }
      apply N.le_antisymm.
      - apply lmax_from_le; auto. intros f Hf. destruct (runP_bounds _ _ A1 _ Hf) as (?&?&?). lia.
      - destruct A4 as [?|A4]; [lia|]. destruct (runP_mem _ a (st_pos st) A1) as (f&Hf&?&Hm).
        { destruct (st_rep st 0); [congruence|]. rewrite A2. split; [|lia]. simpl in A2. lia. }
        rewrite <- Hm. apply lmax_from_in. auto. }
    set (q := sp ++ map to_file (sel S (st_rep st 1)) ++ map to_file (sel c1 (st_rep st 0))) in *.
    assert (Hq: q <> []). { intros E. rewrite E in Hend. simpl in Hend. lia. }
    assert (Hincl: incl q (all_files fs)).
    { intros f Hf. unfold q in Hf. apply in_app_or in Hf. destruct Hf as [Hf|Hf]; [|apply in_app_or in Hf; destruct Hf as [Hf|Hf]].
      - unfold sp in Hf. destruct (last_opt (st_rep st SnapshotLevel)) eqn:E; [|destruct Hf]. destruct Hf as [<-|[]].
        apply (in_all_files fs SnapshotLevel); [left; auto|]. unfold fs, listing_of. apply in_map. apply last_opt_in. auto.
      - apply (in_all_files fs 1); [unfold all_levels, cursor_levels; simpl; tauto|]. unfold fs, listing_of.
        apply in_map_iff in Hf. destruct Hf as (s&<-&Hs). apply in_map. apply filter_In in Hs. tauto.
      - apply (in_all_files fs 0); [unfold all_levels, cursor_levels; simpl; tauto|]. unfold fs, listing_of.
        apply in_map_iff in Hf. destruct Hf as (s&<-&Hs). apply in_map. apply filter_In in Hs. tauto. }
    split.
    - split; [auto|]. split; [|split; [auto|split; intros; congruence]].
      destruct q as [|f q'] eqn:Eq; [congruence|]. simpl.
      destruct Hlinks as (Hm&_). destruct (proj1 rinv_wf_listing f) as [? ?]. { apply Hincl. left. auto. } lia.
    - rewrite <- Hend. destruct q; [congruence|reflexivity].
  Qed.

  Theorem rinv_plan : 0 < st_pos st ->
    exists p, calc_restore_plan fs 0 0 = POk p /\ chain_end p = st_pos st.
  Proof.
    intros Hpos. destruct (the_chain_ok Hpos) as [V E].
    pose proof rinv_wf_listing as W. pose proof rinv_sorted_listing as So.
    destruct (plan_complete fs 0 0 W So (or_introl eq_refl) (ex_intro _ _ V)) as [(p&Hp)|(_&_&Hg)].
    - exists p. split; auto. apply N.le_antisymm.
      + pose proof (plan_sound fs 0 0 p W Hp) as (Hi&Hs&_).
        destruct p as [|f p']; [destruct Hs|].
        unfold chain_end. apply rinv_all_le_pos. apply Hi. apply last_in. discriminate.
      + rewrite <- E. eapply plan_end_max; eauto.
    - exfalso. apply (plan_gap_iff fs W So) in Hg. destruct Hg as (q&Vq&Hmax&f&Hf&Hlt).
      specialize (Hmax _ V). pose proof (rinv_all_le_pos f Hf).
      destruct (proj1 W f Hf). lia.
  Qed.
End FromRInv.
