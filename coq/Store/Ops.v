(** Model of the store-level operations that create and delete replica files
    (db.go, compactor.go, store.go), transcribed branch for branch.

    Time is a number; [s_created] is what [info.CreatedAt] holds.
    [a.Before(b)] is [a <? b], [a.After(b)] is [b <? a].
    Clock reads and scheduling parameters are inputs of the operations:
      - the header timestamp of a new L0 file / snapshot ([time.Now()] in
        db.go sync / SnapshotReader),
      - [prev]   = [lvl.PrevCompactionAt(time.Now())]          (Store.CompactDB),
      - [thr]    = [time.Now().Add(-db.L0Retention)]            (EnforceL0RetentionByTime),
                   [None] when [db.L0Retention <= 0],
      - [ts]     = the retention timestamp                      (EnforceSnapshotRetention).
    Storage faults are not modelled here (Faults layer); every client call
    succeeds.  Local copies of LTX files are not modelled: the compactor reads
    the same bytes from either place and retention removes local copies of
    exactly the files it selected. *)
From Coq Require Import List NArith Bool Lia.
From LS Require Import Plan.Planner Store.Files.
Import ListNotations.
Open Scope N_scope.

Record state := mkSt {
  st_rep : replica;                 (* what the replica client lists *)
  st_cache : N -> option sfile;     (* db.maxLTXFileInfos.m *)
  st_pos : N;                       (* db.Pos().TXID: the newest local L0 file *)
  st_ret : bool;                    (* db.RetentionEnabled = db.compactor.RetentionEnabled *)
  st_nlv : N                        (* Store.levels.MaxLevel(): levels 0..st_nlv are configured *)
}.

Definition init_state (ret : bool) (nlv : N) : state :=
  mkSt empty_replica (fun _ => None) 0 ret nlv.

Definition set_rep (st : state) (l : N) (fs : list sfile) : state :=
  mkSt (upd (st_rep st) l fs) (st_cache st) (st_pos st) (st_ret st) (st_nlv st).
Definition set_cache (st : state) (l : N) (i : sfile) : state :=
  mkSt (st_rep st) (fun k => if k =? l then Some i else st_cache st k) (st_pos st) (st_ret st) (st_nlv st).
Definition set_pos (st : state) (p : N) : state :=
  mkSt (st_rep st) (st_cache st) p (st_ret st) (st_nlv st).
Definition set_ret (st : state) (b : bool) : state :=
  mkSt (st_rep st) (st_cache st) (st_pos st) b (st_nlv st).

(** status of an operation *)
Inductive status := SOk | SNoCompaction | STooEarly | SCompactorError | SSnapshotError.

(** the zero [ltx.FileInfo] *)
Definition zero_info : sfile := mkS 0 0 0 0 0.

(** [for itr.Next() { if item.MaxTXID > info.MaxTXID { info = *item } }] *)
Definition scan_max (l : list sfile) : sfile :=
  fold_left (fun info item => if s_max info <? s_max item then item else info) l zero_info.

(** [Compactor.MaxLTXFileInfo]: cache, else listing; caches only a non-zero result *)
Definition cmp_max_info (st : state) (level : N) : sfile * state :=
  match st_cache st level with
  | Some i => (i, st)
  | None =>
      let info := scan_max (st_rep st level) in
      (info, if 0 <? s_max info then set_cache st level info else st)
  end.

(** [DB.MaxLTXFileInfo]: cache, else [Replica.MaxLTXFileInfo]; caches whatever it got *)
Definition db_max_info (st : state) (level : N) : sfile * state :=
  match st_cache st level with
  | Some i => (i, st)
  | None =>
      let info := scan_max (st_rep st level) in
      (info, set_cache st level info)
  end.

(** write + [db.Sync] + [db.Replica.Sync]: one new L0 file [pos+1] stamped [t];
    sync records it in the cache of level 0 *)
Definition sync_upload (st : state) (t : N) : state :=
  let n := st_pos st + 1 in
  let info := mkS 0 n n t t in
  set_pos (set_cache (set_rep st 0 (put info (st_rep st 0))) 0 info) n.

(** the TXID range loop of [Compactor.Compact] *)
Definition range_of (inputs : list sfile) : N * N :=
  fold_left (fun (acc : N * N) info =>
               let (mn, mx) := acc in
               ((if (mn =? 0) || (s_min info <? mn) then s_min info else mn),
                (if (mx =? 0) || (mx <? s_max info) then s_max info else mx)))
            inputs (0, 0).

(** [ltx.Compactor.Compact]'s header validation of consecutive inputs *)
Fixpoint inputs_contiguous (prev : sfile) (l : list sfile) : bool :=
  match l with
  | [] => true
  | f :: tl => is_contiguous (s_max prev) (s_min f) (s_max f) && inputs_contiguous f tl
  end.

(** [Compactor.Compact(ctx, dstLevel)] *)
Definition compact (st : state) (dst : N) : status * state :=
  let src := dst - 1 in
  let (prevMaxInfo, st1) := cmp_max_info st dst in
  let seek := s_max prevMaxInfo + 1 in
  let inputs := ltx_files (st_rep st1) src seek in
  let (mn, mx) := range_of inputs in
  match inputs with
  | [] => (SNoCompaction, st1)
  | first :: rest =>
      (* the pipe through ltx.NewCompactor: a non-contiguous input list makes
         WriteLTXFile fail; nothing is written and the cache is left alone *)
      if negb (inputs_contiguous first rest) then (SCompactorError, st1)
      else
        let ts := s_hts (last inputs first) in
        let info := mkS dst mn mx ts ts in
        (SOk, set_cache (set_rep st1 dst (put info (st_rep st1 dst))) dst info)
  end.

(** the L0 walk of [EnforceL0RetentionByTime]: deleted files and [processedAll] *)
Fixpoint l0_walk (thr maxL1 : N) (l : list sfile) : list sfile * bool :=
  match l with
  | [] => ([], true)
  | info :: tl =>
      let createdAt := if s_created info =? 0 then thr else s_created info in
      if thr <? createdAt then ([], false)
      else
        let (d, pa) := l0_walk thr maxL1 tl in
        (if s_max info <=? maxL1 then info :: d else d, pa)
  end.

(** [deleted[len(deleted)-1] == lastInfo -> deleted = deleted[:len(deleted)-1]] *)
Definition spare_last (deleted : list sfile) (lastInfo : option sfile) : list sfile :=
  match last_opt deleted, lastInfo with
  | Some d, Some li => if key_eqb d li then removelast deleted else deleted
  | _, _ => deleted
  end.

(** [DB.EnforceL0RetentionByTime] *)
Definition l0_retention (st : state) (l0r : option N) : state :=
  match l0r with
  | None => st
  | Some thr =>
      let maxL1 := lmax (st_rep st 1) in
      if maxL1 =? 0 then st
      else
        let l0 := st_rep st 0 in
        let (deleted, processedAll) := l0_walk thr maxL1 l0 in
        let deleted := if processedAll then spare_last deleted (last_opt l0) else deleted in
        match deleted with
        | [] => st
        | _ => if st_ret st then set_rep st 0 (remove_all deleted l0) else st
        end
  end.

(** [DB.Compact(ctx, dstLevel)] *)
Definition db_compact (st : state) (dst : N) (l0r : option N) : status * state :=
  match compact st dst with
  | (SOk, st') => if dst =? 1 then (SOk, l0_retention st' l0r) else (SOk, st')
  | r => r
  end.

(** [DB.Snapshot]: a level-9 file [1..pos] stamped when taken; [pos = 0] fails
    in the encoder (MinTXID 1 > MaxTXID 0) *)
Definition snapshot (st : state) (t : N) : status * state :=
  if st_pos st =? 0 then (SSnapshotError, st)
  else
    let info := mkS SnapshotLevel 1 (st_pos st) t t in
    (SOk, set_cache (set_rep st SnapshotLevel (put info (st_rep st SnapshotLevel))) SnapshotLevel info).

(** [Store.CompactDB(ctx, db, lvl)] with [prev = lvl.PrevCompactionAt(now)];
    [t] is the clock value a snapshot would be stamped with *)
Definition compact_db (st : state) (L prev : N) (l0r : option N) (t : N) : status * state :=
  let (dstInfo, st1) := db_max_info st L in
  if prev <? s_created dstInfo then (STooEarly, st1)
  else if L =? SnapshotLevel then
    if negb (s_max dstInfo =? 0) && (st_pos st1 <=? s_max dstInfo) then (SNoCompaction, st1)
    else snapshot st1 t
  else
    let src := L - 1 in
    let (srcInfo, st2) := db_max_info st1 src in
    if s_max srcInfo <=? s_min dstInfo then (SNoCompaction, st2)
    else db_compact st2 L l0r.

(** the index loop of [DB.EnforceSnapshotRetention] computing [minSnapshotTXID]:
    at the first snapshot not marked deleted, the MaxTXID of the one listed
    just before it (0 if it is the first) *)
Fixpoint floor_scan (deleted : list sfile) (prev : option sfile) (l : list sfile) : N :=
  match l with
  | [] => 0
  | info :: tl =>
      if memk info deleted then floor_scan deleted (Some info) tl
      else match prev with Some p => s_max p | None => 0 end
  end.

(** [DB.EnforceSnapshotRetention(ctx, timestamp)] *)
Definition snap_retention (st : state) (ts : N) : N * state :=
  let snapshots := st_rep st SnapshotLevel in
  let deleted := filter (fun info => s_created info <? ts) snapshots in
  let deleted := spare_last deleted (last_opt snapshots) in
  let minSnapshotTXID := floor_scan deleted None snapshots in
  (minSnapshotTXID,
   if st_ret st then set_rep st SnapshotLevel (remove_all deleted snapshots) else st).

(** [Compactor.EnforceRetentionByTXID(ctx, level, txID)] *)
Definition txid_retention (st : state) (level txid : N) : state :=
  let l := st_rep st level in
  let deleted := filter (fun info => s_max info <? txid) l in
  let deleted := spare_last deleted (last_opt l) in
  if st_ret st then set_rep st level (remove_all deleted l) else st.

(** [Store.EnforceSnapshotRetention]: snapshot retention, then TXID retention
    on every configured level except 0 *)
Definition store_snap_retention (st : state) (ts : N) : N * state :=
  let (floor, st1) := snap_retention st ts in
  (floor,
   fold_left (fun s lvl => if lvl =? 0 then s else txid_retention s lvl floor)
             (seqN 0 (S (N.to_nat (st_nlv st)))) st1).

(** [os.Chtimes] on one replica file (environment step: file ages are arbitrary) *)
Definition restamp (st : state) (level mn mx t : N) : state :=
  set_rep st level
    (map (fun f => if (s_min f =? mn) && (s_max f =? mx)
                   then mkS (s_level f) (s_min f) (s_max f) t (s_hts f) else f)
         (st_rep st level)).

Inductive op :=
| OSync (t : N)
| OCompact (L : N) (l0r : option N)
| OCompactDB (L prev : N) (l0r : option N) (t : N)
| OSnapshot (t : N)
| OSnapRet (ts : N)
| OTxidRet (L floor : N)
| OL0Ret (l0r : option N)
| OStoreSnapRet (ts : N)
| OSetRet (b : bool)
| ORestamp (level mn mx t : N).

(** one operation: status, auxiliary result (the floor returned by snapshot
    retention), new state *)
Definition step (st : state) (o : op) : status * N * state :=
  match o with
  | OSync t => (SOk, 0, sync_upload st t)
  | OCompact L l0r => let (s, st') := db_compact st L l0r in (s, 0, st')
  | OCompactDB L prev l0r t => let (s, st') := compact_db st L prev l0r t in (s, 0, st')
  | OSnapshot t => let (s, st') := snapshot st t in (s, 0, st')
  | OSnapRet ts => let (fl, st') := snap_retention st ts in (SOk, fl, st')
  | OTxidRet L fl => (SOk, 0, txid_retention st L fl)
  | OL0Ret l0r => (SOk, 0, l0_retention st l0r)
  | OStoreSnapRet ts => let (_, st') := store_snap_retention st ts in (SOk, 0, st')  (* returns only an error *)
  | OSetRet b => (SOk, 0, set_ret st b)
  | ORestamp l mn mx t => (SOk, 0, restamp st l mn mx t)
  end.

Definition step_state (st : state) (o : op) : state := snd (step st o).

Definition run (st : state) (ops : list op) : state := fold_left step_state ops st.
