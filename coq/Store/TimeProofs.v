(** C15 at the store level: with all L0 files present, L0 stamps non-decreasing
    in TXID and every higher-level file stamped no earlier than the L0 file of
    its MaxTXID, a timestamp restore ends exactly at the last transaction
    replicated before T; and these hypotheses are an invariant of the
    retention-free, restamp-free histories of Store/Ops.v under a monotone clock. *)
From Coq Require Import List NArith Bool Lia Sorted.
From LS Require Import Plan.Planner Plan.Spec Plan.Proofs Store.Files Store.Ops Store.Spec Store.Inv
     Store.RetentionProofs Store.PlanProofs Store.CompactProofs.
Import ListNotations.
Open Scope N_scope.

Fixpoint stamps_monoP (c : N) (l : list sfile) : Prop :=
  match l with [] => True | f :: tl => c <= s_created f /\ stamps_monoP (s_created f) tl end.

Record ts_hyp (pos : N) (r : replica) : Prop := mkTsHyp {
  th_run : runP 0 (r 0) /\ N.of_nat (length (r 0)) = pos;
  th_mono : stamps_monoP 0 (r 0);
  th_levels : forall L, 1 <= L <= 8 -> incrP 0 (r L);
  th_snap : snapP 0 (r SnapshotLevel);
  th_stamp : forall L f, 1 <= L <= 9 -> In f (r L) ->
             1 <= s_max f <= pos /\ stamp_of (r 0) (s_max f) <= s_created f
}.

Lemma stamp_of_in : forall l c f, runP c l -> In f l -> stamp_of l (s_max f) = s_created f.
Proof.
  unfold stamp_of. induction l; simpl; intros c f H Hf; [contradiction|]. destruct H as (H1&H2&H3). destruct Hf as [<-|Hf].
  - rewrite N.eqb_refl. reflexivity.
  - destruct (runP_bounds _ _ H3 _ Hf) as (?&?&?).
    assert (E: s_max a =? s_max f = false) by (apply N.eqb_neq; lia). rewrite E. eapply IHl; eauto.
Qed.

Lemma expected_end_eq : forall l T m,
  fold_left (fun m f => if (s_created f <? T) && (m <? s_max f) then s_max f else m) l m =
  lmax_from m (filter (fun f => s_created f <? T) l).
Proof.
  induction l; simpl; intros; auto. destruct (s_created a <? T); simpl.
  - unfold lmax_from. simpl. apply IHl.
  - apply IHl.
Qed.

Lemma mono_ge : forall l c, stamps_monoP c l -> forall f, In f l -> c <= s_created f.
Proof. induction l; simpl; intros; [contradiction|]. destruct H. destruct H0; [subst; auto|]. specialize (IHl _ H1 _ H0). lia. Qed.

Lemma run_prefix T : forall l c m, runP c l -> stamps_monoP m l -> runP c (filter (fun f => s_created f <? T) l).
Proof.
  induction l; simpl; intros; auto. destruct H as (?&?&?). destruct H0.
  destruct (s_created a <? T) eqn:E; simpl.
  - repeat split; auto. eapply IHl; eauto.
  - apply N.ltb_ge in E.
    assert (En: filter (fun f => s_created f <? T) l = []).
    { clear -H3 E. assert (forall f, In f l -> T <= s_created f) by (intros; pose proof (mono_ge _ _ H3 _ H); lia).
      clear H3. induction l; simpl; auto. assert (T <= s_created a0) by (apply H; left; auto).
      assert (E2: s_created a0 <? T = false) by (apply N.ltb_ge; auto). rewrite E2. apply IHl. intros; apply H; right; auto. }
    rewrite En. exact I.
Qed.

Section Exact.
  Variables (pos : N) (r : replica) (T : N).
  Hypothesis H : ts_hyp pos r.
  Hypothesis HT : T <> 0.
  Let fs := listing_of r.
  Let pre := filter (fun f => s_created f <? T) (r 0).

  Lemma th_level_files : forall L, In L all_levels -> forall f, In f (r L) ->
    1 <= s_min f /\ s_min f <= s_max f /\ (L = SnapshotLevel -> s_min f = 1).
  Proof.
    intros L HL f Hf. unfold all_levels, cursor_levels in HL. simpl in HL. destruct HL as [<-|HL].
    - destruct (snapP_incr_max _ _ (th_snap _ _ H) _ Hf). lia.
    - destruct (N.eq_dec L 0) as [->|].
      + destruct (runP_bounds _ _ (proj1 (th_run _ _ H)) _ Hf) as (?&?&?). repeat split; try lia. discriminate.
      + assert (1 <= L <= 8) by (repeat (destruct HL as [<-|HL]; [lia|]); destruct HL).
        destruct (incrP_bounds _ _ (th_levels _ _ H L H0) _ Hf). repeat split; try lia. intros ->. rewrite snap_level_9 in H0. lia.
  Qed.

  Lemma th_in_fs f : In f (all_files fs) -> exists L s, In L all_levels /\ In s (r L) /\ f = to_file s.
  Proof.
    unfold all_files. intros Hf. apply in_concat in Hf. destruct Hf as (l&Hl&Hf).
    apply in_map_iff in Hl. destruct Hl as (L&<-&HL). unfold fs, listing_of in Hf.
    apply in_map_iff in Hf. destruct Hf as (s&<-&Hs). eauto.
  Qed.

  Lemma th_wf : wf_listing fs.
  Proof.
    split.
    - intros f Hf. destruct (th_in_fs f Hf) as (L&s&HL&Hs&->). destruct (th_level_files L HL s Hs) as (?&?&?). split; simpl; auto.
    - intros f Hf. unfold fs, listing_of in Hf. apply in_map_iff in Hf. destruct Hf as (s&<-&Hs).
      destruct (th_level_files SnapshotLevel (or_introl eq_refl) s Hs) as (?&?&?). simpl. auto.
  Qed.

  Lemma th_sorted : sorted_listing fs.
  Proof.
    intros L HL. unfold fs, listing_of. unfold all_levels, cursor_levels in HL. simpl in HL. destruct HL as [<-|HL].
    - eapply snapP_sorted. apply (th_snap _ _ H).
    - destruct (N.eq_dec L 0) as [->|].
      + eapply incrP_sorted. apply runP_incrP. apply (th_run _ _ H).
      + assert (1 <= L <= 8) by (repeat (destruct HL as [<-|HL]; [lia|]); destruct HL).
        eapply incrP_sorted. apply (th_levels _ _ H L H0).
  Qed.

  (** a file created before T ends at or before the expected end *)
  Lemma eligible_le_expected f : In f (all_files fs) -> f_created f < T -> f_max f <= expected_end (r 0) T.
  Proof.
    intros Hf Hc. unfold expected_end. rewrite expected_end_eq. fold pre.
    destruct (th_in_fs f Hf) as (L&s&HL&Hs&->). simpl in *.
    assert (Hl0: forall s0, In s0 (r 0) -> s_created s0 < T -> s_max s0 <= lmax_from 0 pre).
    { intros s0 H0 Hc0. apply lmax_from_in. unfold pre. apply filter_In. split; auto. apply N.ltb_lt. auto. }
    destruct (N.eq_dec L 0) as [->|]. { auto. }
    assert (HLr: 1 <= L <= 9).
    { unfold all_levels, cursor_levels in HL. simpl in HL. rewrite snap_level_9 in HL. repeat (destruct HL as [<-|HL]; [lia|]). destruct HL. }
    destruct (th_stamp _ _ H L s HLr Hs) as [Hb Hst].
    destruct (th_run _ _ H) as [R1 R2].
    destruct (runP_mem _ 0 (s_max s) R1) as (s0&H0&_&Em); [lia|].
    rewrite <- Em. apply Hl0; auto. rewrite <- Em in Hst. rewrite (stamp_of_in _ 0 s0 R1 H0) in Hst. lia.
  Qed.

  Lemma pre_chain : pre <> [] ->
    valid_chain (all_files fs) 0 T (map to_file pre) /\ chain_end (map to_file pre) = expected_end (r 0) T.
  Proof.
    intros Hne. destruct (th_run _ _ H) as [R1 R2].
    assert (Rp: runP 0 pre) by (eapply run_prefix; eauto; apply (th_mono _ _ H)).
    destruct (chain_sel 0 pre 0 0 (runP_chainP 0 _ _ Rp)) as [L1 L2]; try lia.
    rewrite (sel_all pre 0 0) in L1, L2 by (try apply runP_incrP; auto; lia).
    split.
    - split; [|split; [|split; [auto|split]]].
      + intros f Hf. apply in_map_iff in Hf. destruct Hf as (s&<-&Hs). unfold pre in Hs. apply filter_In in Hs.
        apply (in_all_files fs 0); [unfold all_levels, cursor_levels; simpl; tauto|]. unfold fs, listing_of. apply in_map. tauto.
      + destruct pre as [|a p'] eqn:E; [congruence|]. simpl. destruct Rp as (?&_). lia.
      + intros _. apply Forall_forall. intros f Hf. apply in_map_iff in Hf. destruct Hf as (s&<-&Hs).
        unfold pre in Hs. apply filter_In in Hs. destruct Hs as [_ E]. apply N.ltb_lt in E. auto.
      + congruence.
    - unfold expected_end. rewrite expected_end_eq. fold pre. rewrite <- L2.
      destruct pre; [congruence|reflexivity].
  Qed.

  Theorem ts_exact :
    (0 < expected_end (r 0) T ->
       exists p, calc_restore_plan fs 0 T = POk p /\ chain_end p = expected_end (r 0) T) /\
    (expected_end (r 0) T = 0 -> calc_restore_plan fs 0 T = PErr ETxNotAvailable).
  Proof.
    pose proof th_wf as W. pose proof th_sorted as So.
    split.
    - intros He.
      assert (Hne: pre <> []).
      { intros E. unfold expected_end in He. rewrite expected_end_eq in He. fold pre in He. rewrite E in He. unfold lmax_from in He. simpl in He. lia. }
      destruct (pre_chain Hne) as [V E].
      destruct (plan_complete fs 0 T W So (or_introl eq_refl) (ex_intro _ _ V)) as [(p&Hp)|(_&Hz&_)]; [|congruence].
      exists p. split; auto. apply N.le_antisymm.
      + pose proof (plan_sound fs 0 T p W Hp) as (Hi&Hs&_&Hts&_).
        destruct p as [|f p']; [destruct Hs|].
        assert (Hl: In (last (f :: p') (mkFile 0 0 0 0)) (f :: p')) by (apply last_in; discriminate).
        unfold chain_end. apply eligible_le_expected; auto.
        specialize (Hts HT). rewrite Forall_forall in Hts. auto.
      + rewrite <- E. eapply plan_end_max; eauto.
    - intros He. apply (plan_notavail_iff fs 0 T W So (or_introl eq_refl)). intros (q&Hi&Hs&_&Hts&_).
      destruct q as [|f q']; [destruct Hs|]. specialize (Hts HT). rewrite Forall_forall in Hts.
      assert (Hf: In f (f :: q')) by (left; auto).
      pose proof (eligible_le_expected f (Hi _ Hf) (Hts _ Hf)).
      destruct (proj1 W f (Hi _ Hf)). lia.
  Qed.
End Exact.

(** T at or before every stamp: nothing is restorable *)
Theorem ts_before_first_fails : forall fs T,
  wf_listing fs -> sorted_listing fs -> T <> 0 ->
  (forall f, In f (all_files fs) -> T <= f_created f) ->
  calc_restore_plan fs 0 T = PErr ETxNotAvailable.
Proof.
  intros fs T W So HT Hall. apply (plan_notavail_iff fs 0 T W So (or_introl eq_refl)).
  intros (q&Hi&Hs&_&Hts&_). destruct q as [|f q']; [destruct Hs|].
  specialize (Hts HT). rewrite Forall_forall in Hts. assert (Hf: In f (f :: q')) by (left; auto).
  specialize (Hall f (Hi _ Hf)). specialize (Hts f Hf). lia.
Qed.

(** ** the hypotheses are an invariant of retention-free histories under a monotone clock *)

Record TR (r : replica) (pos now : N) : Prop := mkTR {
  tr_mono : stamps_monoP 0 (r 0);
  tr_now : forall f, In f (r 0) -> s_created f <= now;
  tr_hts : forall L f, In f (r L) -> s_hts f = s_created f;
  tr_snap : snapP 0 (r SnapshotLevel);
  tr_stamp : forall L f, 1 <= L <= 9 -> In f (r L) -> 1 <= s_max f <= pos /\ stamp_of (r 0) (s_max f) <= s_created f
}.

Definition TI (st : state) (now : N) : Prop := LC st /\ TR (st_rep st) (st_pos st) now.

(** histories: the clock values read by sync / snapshot never go back *)
Fixpoint hist_clock (now : N) (ops : list op) : Prop :=
  match ops with
  | [] => True
  | OSync t :: tl => now <= t /\ hist_clock t tl
  | OSnapshot t :: tl => now <= t /\ hist_clock t tl
  | OCompact L None :: tl => 1 <= L <= 8 /\ hist_clock now tl
  | OCompactDB L _ None t :: tl => 1 <= L <= 9 /\ now <= t /\ hist_clock t tl
  | _ => False
  end.

Lemma mono_snoc : forall l c x, stamps_monoP c l -> (forall f, In f l -> s_created f <= s_created x) -> c <= s_created x ->
  stamps_monoP c (l ++ [x]).
Proof. induction l; simpl; intros c x H H0 H1. { split; auto. } destruct H. split; auto; try (apply IHl; auto). Qed.

Lemma stamp_of_app : forall l l' k, (exists g, In g l /\ s_max g = k) -> stamp_of (l ++ l') k = stamp_of l k.
Proof.
  unfold stamp_of. induction l; simpl; intros l' k (g&Hg&E); [contradiction|].
  destruct (s_max a =? k) eqn:Ea; auto. destruct Hg as [<-|Hg]; [apply N.eqb_neq in Ea; congruence|]. apply IHl. eauto.
Qed.

Lemma TR_weaken r pos now now' : now <= now' -> TR r pos now -> TR r pos now'.
Proof. intros Hn [A B C D E]. constructor; auto. intros f Hf. specialize (B f Hf). lia. Qed.

Lemma l0_stamp_le_now st now k : TI st now -> 1 <= k <= st_pos st -> stamp_of (st_rep st 0) k <= now.
Proof.
  intros [HL HT] Hk. destruct (lc_l0 st HL) as [R1 R2].
  destruct (runP_mem _ 0 k R1) as (f&Hf&_&Em); [lia|]. rewrite <- Em. rewrite (stamp_of_in _ 0 f R1 Hf). apply (tr_now _ _ _ HT); auto.
Qed.

Lemma ti_sync st now t : TI st now -> now <= t -> TI (sync_upload st t) t.
Proof.
  intros HTI Hn. pose proof HTI as [HL HT]. split; [apply lc_sync; auto|].
  destruct (lc_l0 st HL) as [R1 R2].
  set (info := mkS 0 (st_pos st + 1) (st_pos st + 1) t t).
  assert (P: put info (st_rep st 0) = st_rep st 0 ++ [info]).
  { eapply put_append. { apply runP_incrP. eauto. }
    intros g Hg. destruct (runP_bounds _ _ R1 _ Hg) as (?&?&?). simpl. lia. }
  unfold sync_upload. fold info. rewrite P. unfold set_pos, set_cache, set_rep. simpl.
  destruct HT as [A B C D E].
  constructor.
  - rewrite upd_same. apply mono_snoc; auto; simpl; try lia. intros f Hf. specialize (B f Hf). lia.
  - rewrite upd_same. intros f Hf. apply in_app_or in Hf. destruct Hf as [Hf|[<-|[]]]; simpl; [|lia]. specialize (B f Hf). lia.
  - intros L f. caseK L 0; [|apply C]. intros Hf. apply in_app_or in Hf. destruct Hf as [Hf|[<-|[]]]; [eapply C; eauto|reflexivity].
  - rewrite upd_other by (rewrite snap_level_9; lia). auto.
  - intros L f HLr. rewrite upd_other by lia. rewrite upd_same. intros Hf. destruct (E L f HLr Hf) as [E1 E2].
    split; [lia|]. rewrite stamp_of_app; auto.
    destruct (runP_mem _ 0 (s_max f) R1) as (g&?&_&?); [lia|]. eauto.
Qed.

Lemma ti_snapshot st now t : TI st now -> now <= t -> TI (snd (snapshot st t)) t.
Proof.
  intros HTI Hn. pose proof HTI as [HL HT]. split; [apply lc_snapshot; auto|].
  unfold snapshot. destruct (st_pos st =? 0) eqn:E0; simpl. { eapply TR_weaken; eauto. }
  apply N.eqb_neq in E0.
  set (info := mkS SnapshotLevel 1 (st_pos st) t t).
  pose proof (l0_stamp_le_now st now (st_pos st) HTI ltac:(lia)) as Hst.
  destruct HT as [A B C D E].
  destruct (put_snap info (st_rep st SnapshotLevel) 0) as (P1&P2&P3); auto; simpl; try lia.
  { intros f Hf. destruct (E SnapshotLevel f) as [? _]; auto. rewrite snap_level_9. lia. lia. }
  constructor.
  - rewrite upd_other by (rewrite snap_level_9; lia). auto.
  - rewrite upd_other by (rewrite snap_level_9; lia). intros f Hf. specialize (B f Hf). lia.
  - intros L f. caseK L SnapshotLevel; [|apply C]. intros Hf. apply put_in in Hf. destruct Hf as [->|Hf]; auto. eapply C; eauto.
  - rewrite upd_same. auto.
  - intros L f HLr. rewrite (upd_other _ SnapshotLevel _ 0) by (rewrite snap_level_9; lia).
    caseK L SnapshotLevel; [|apply E; auto]. intros Hf. apply put_in in Hf. destruct Hf as [->|Hf]; [|apply (E SnapshotLevel); auto].
    simpl. split; [lia|lia].
Qed.

Lemma ti_compact st now dst : TI st now -> 1 <= dst <= 8 -> TI (snd (compact st dst)) now.
Proof.
  intros HTI Hd. pose proof HTI as [HL HT].
  destruct (lc_compact_shape st dst HL Hd) as (C1&(F1&_)&Sh). split; auto. rewrite F1.
  destruct Sh as [->|(info&lst&->&Hl&Em&Ec&Eh&Hmin)]; auto.
  destruct (lc_l0 st HL) as [R1 R2].
  destruct HT as [A B C D E].
  assert (Hinfo: 1 <= s_max info <= st_pos st /\ stamp_of (st_rep st 0) (s_max info) <= s_created info).
  { rewrite Em, Ec, (C _ _ Hl). destruct (N.eq_dec (dst - 1) 0) as [e|ne].
    - rewrite e in Hl. destruct (runP_bounds _ _ R1 _ Hl) as (?&?&?). rewrite (stamp_of_in _ 0 lst R1 Hl). lia.
    - apply (E (dst - 1)); auto. lia. }
  constructor.
  - rewrite upd_other by lia. auto.
  - rewrite upd_other by lia. auto.
  - intros L f. caseK L dst; [|apply C]. intros Hf. apply in_app_or in Hf. destruct Hf as [Hf|[<-|[]]]; [eapply C; eauto|].
    rewrite Eh, Ec. reflexivity.
  - rewrite upd_other by (rewrite snap_level_9; lia). auto.
  - intros L f HLr. rewrite (upd_other _ dst _ 0) by lia. caseK L dst; [|apply E; auto].
    intros Hf. apply in_app_or in Hf. destruct Hf as [Hf|[<-|[]]]; [apply (E dst); auto|auto].
Qed.

Lemma db_max_info_same st L : st_rep (snd (db_max_info st L)) = st_rep st /\ st_pos (snd (db_max_info st L)) = st_pos st.
Proof. unfold db_max_info. destruct (st_cache st L); simpl; auto. Qed.

Lemma ti_db_max_info st now L : TI st now -> TI (snd (db_max_info st L)) now.
Proof. intros [HL HT]. split; [apply lc_db_max_info; auto|]. destruct (db_max_info_same st L) as [-> ->]. auto. Qed.

Lemma ti_db_compact_none st now L : TI st now -> 1 <= L <= 8 -> TI (snd (db_compact st L None)) now.
Proof.
  intros H HLr. unfold db_compact. pose proof (ti_compact st now L H HLr).
  destruct (compact st L) as [s st']. simpl in *. destruct s; simpl; auto. destruct (L =? 1); simpl; auto.
Qed.

Lemma ti_step st now o : TI st now ->
  match o with
  | OSync t | OSnapshot t => now <= t -> TI (step_state st o) t
  | OCompact L None => 1 <= L <= 8 -> TI (step_state st o) now
  | OCompactDB L _ None t => 1 <= L <= 9 -> now <= t -> TI (step_state st o) t
  | _ => True
  end.
Proof.
  intros H. unfold step_state, step. destruct o; auto.
  - intros. apply (ti_sync st now); auto.
  - destruct l0r; auto. intros HLr. pose proof (ti_db_compact_none st now L H HLr). destruct (db_compact st L None). auto.
  - destruct l0r; auto. intros HLr Hn. unfold compact_db.
    pose proof (ti_db_max_info st now L H) as H1. destruct (db_max_info st L) as [dstInfo st1]. cbn [snd] in H1.
    assert (W: forall s, TI s now -> TI s t) by (intros s [? ?]; split; auto; eapply TR_weaken; eauto).
    destruct (prev <? s_created dstInfo); [cbn [snd]; auto|].
    destruct (L =? SnapshotLevel) eqn:E9.
    + destruct (negb (s_max dstInfo =? 0) && (st_pos st1 <=? s_max dstInfo)); [cbn [snd]; auto|].
      pose proof (ti_snapshot st1 now t H1 Hn). destruct (snapshot st1 t). auto.
    + apply N.eqb_neq in E9. rewrite snap_level_9 in E9.
      pose proof (ti_db_max_info st1 now (L - 1) H1) as H2. destruct (db_max_info st1 (L - 1)) as [srcInfo st2]. cbn [snd] in H2.
      destruct (s_max srcInfo <=? s_min dstInfo); [cbn [snd]; auto|].
      assert (HLr': 1 <= L <= 8) by lia. pose proof (ti_db_compact_none st2 now L H2 HLr').
      destruct (db_compact st2 L None). cbn [snd] in *. auto.
  - intros Hn. pose proof (ti_snapshot st now t H Hn). destruct (snapshot st t). auto.
Qed.

Lemma ti_run : forall ops st now, TI st now -> hist_clock now ops -> exists now', TI (run st ops) now'.
Proof.
  induction ops; simpl; intros st now H Hc. { eauto. }
  unfold run in *. simpl. pose proof (ti_step st now a H) as Hs.
  destruct a; try contradiction.
  - destruct Hc as [Hn Hc]. apply (IHops _ t); auto.
  - destruct l0r; [contradiction|]. destruct Hc as [HLr Hc]. apply (IHops _ now); auto.
  - destruct l0r; [contradiction|]. destruct Hc as (HLr&Hn&Hc). apply (IHops _ t); auto.
  - destruct Hc as [Hn Hc]. apply (IHops _ t); auto.
Qed.

Lemma ti_init ret nlv : TI (init_state ret nlv) 0.
Proof. split; [apply lc_init|]. constructor; simpl; unfold empty_replica; simpl; auto; intros; contradiction. Qed.

Theorem ts_hyp_invariant : forall ret nlv ops,
  hist_clock 0 ops -> let st := run (init_state ret nlv) ops in ts_hyp (st_pos st) (st_rep st).
Proof.
  intros ret nlv ops Hc st. destruct (ti_run ops _ 0 (ti_init ret nlv) Hc) as (now&HL&HT). fold st in HL, HT.
  destruct HT as [A B C D E]. constructor; auto.
  - apply (lc_l0 st HL).
  - intros L HLr. eapply chainP_incrP. apply (lc_chain st HL L HLr).
Qed.

(** both together: after any retention-free history with a monotone clock, a restore with
    timestamp T ends exactly at the last transaction whose replication stamp is before T *)
Theorem ts_exact_when_l0_present : forall ret nlv ops T,
  hist_clock 0 ops -> T <> 0 ->
  let st := run (init_state ret nlv) ops in
  let e := expected_end (st_rep st 0) T in
  (0 < e -> exists p, calc_restore_plan (listing_of (st_rep st)) 0 T = POk p /\ chain_end p = e) /\
  (e = 0 -> calc_restore_plan (listing_of (st_rep st)) 0 T = PErr ETxNotAvailable).
Proof. intros. apply (ts_exact (st_pos st)); auto. apply ts_hyp_invariant; auto. Qed.

(** [expected_end] is what the property says: the greatest TXID whose L0 stamp is before T *)
Lemma expected_end_spec : forall l T,
  (forall f, In f l -> s_created f < T -> s_max f <= expected_end l T) /\
  (expected_end l T = 0 \/ exists f, In f l /\ s_created f < T /\ s_max f = expected_end l T).
Proof.
  intros l T. unfold expected_end. rewrite expected_end_eq. split.
  - intros f Hf Hc. apply lmax_from_in. apply filter_In. split; auto. apply N.ltb_lt; auto.
  - set (p := filter (fun f => s_created f <? T) l).
    assert (G: forall p m, lmax_from m p = m \/ exists f, In f p /\ s_max f = lmax_from m p).
    { induction p0; simpl; intros; auto. unfold lmax_from in *. simpl.
      destruct (IHp0 (if m <? s_max a then s_max a else m)) as [E|(f&?&?)].
      - rewrite E. destruct (m <? s_max a); auto. right. exists a. auto.
      - right. exists f. auto. }
    destruct (G p 0) as [?|(f&Hf&E)]; auto. right. exists f. unfold p in Hf. apply filter_In in Hf. destruct Hf as [? Hc].
    apply N.ltb_lt in Hc. auto.
Qed.

Example ts_example :
  let st := run (init_state true 2) [OSync 10; OSync 10; OSync 20; OCompact 1 None; OSnapshot 25; OSync 30; OCompact 1 None; OCompact 2 None] in
  hist_clock 0 [OSync 10; OSync 10; OSync 20; OCompact 1 None; OSnapshot 25; OSync 30; OCompact 1 None; OCompact 2 None] /\
  map (fun T => expected_end (st_rep st 0) T) [10; 11; 20; 21; 26; 30; 31] = [0; 2; 2; 3; 3; 3; 4] /\
  calc_restore_plan (listing_of (st_rep st)) 0 21 = POk [mkFile 1 1 3 20].
Proof. vm_compute. repeat split; discriminate. Qed.
