(** C17: lock-page arithmetic, the page-number sequences of writeLTXFromDB /
    writeLTXFromWAL, the encoder's acceptance rule, DecodeDatabaseTo.
    Everything is for ALL commit sizes (induction over the loop counter); the
    eight page sizes are a finite sweep. *)
From Coq Require Import List NArith Bool Lia.
From LS Require Import Base.PMap Ltx.File Ltx.Snapshot Ltx.Apply.
Import ListNotations.
Open Scope N_scope.

(** ---- lock page ---------------------------------------------------------- *)

Lemma lock_values :
  map lockPgno page_sizes = [2097153; 1048577; 524289; 262145; 131073; 65537; 32769; 16385].
Proof. vm_compute. reflexivity. Qed.

Lemma lock_ge_2 ps : In ps page_sizes -> 2 <= lockPgno ps.
Proof.
  unfold page_sizes. simpl. intros H.
  repeat (destruct H as [<-|H]; [vm_compute; discriminate|]). destruct H.
Qed.

Lemma valid_ps_In ps : valid_ps ps = true <-> In ps page_sizes.
Proof.
  unfold valid_ps. rewrite existsb_exists. split.
  - intros [x [Hx He]]. apply N.eqb_eq in He. subst. exact Hx.
  - intros H. exists ps. split; [exact H|apply N.eqb_refl].
Qed.

(** the lock page starts exactly at byte offset PENDING_BYTE *)
Lemma lock_offset ps : In ps page_sizes -> (lockPgno ps - 1) * ps = pending_byte.
Proof.
  unfold page_sizes. simpl. intros H.
  repeat (destruct H as [<-|H]; [vm_compute; reflexivity|]). destruct H.
Qed.

(** ---- [1..n] ------------------------------------------------------------- *)

Definition upto (n : N) : list N := map N.of_nat (seq 1 (N.to_nat n)).

Lemma upto_succ n : upto (N.succ n) = upto n ++ [N.succ n].
Proof.
  unfold upto. rewrite N2Nat.inj_succ. rewrite seq_S. rewrite map_app. simpl.
  f_equal. f_equal. lia.
Qed.

Lemma In_upto n p : In p (upto n) <-> 1 <= p <= n.
Proof.
  unfold upto. rewrite in_map_iff. split.
  - intros [k [<- Hk]]. apply in_seq in Hk. lia.
  - intros H. exists (N.to_nat p). split; [apply N2Nat.id|]. apply in_seq. lia.
Qed.

Definition not_lock (lock : N) (p : N) : bool := negb (p =? lock).

(** ---- writeLTXFromDB ------------------------------------------------------- *)

Lemma db_iter_spec lock n :
  N.iter n (db_step lock) (1, []) = (n + 1, rev (filter (not_lock lock) (upto n))).
Proof.
  induction n using N.peano_ind.
  - reflexivity.
  - rewrite N.iter_succ, IHn. unfold db_step.
    rewrite upto_succ, filter_app, rev_app_distr.
    replace (n + 1) with (N.succ n) by lia.
    replace (N.succ n + 1) with (N.succ (N.succ n)) by lia.
    replace (N.succ (N.succ n)) with (N.succ n + 1) by lia.
    f_equal. cbn [filter]. unfold not_lock.
    destruct (N.succ n =? lock); reflexivity.
Qed.

(** snapshot_pgnos: writeLTXFromDB emits exactly [1..commit] minus the lock page *)
Lemma db_pgnos_spec lock commit :
  db_pgnos lock commit = filter (not_lock lock) (upto commit).
Proof.
  unfold db_pgnos. rewrite db_iter_spec. simpl.
  rewrite rev_append_rev, app_nil_r. apply rev_involutive.
Qed.

Lemma db_pgnos_In lock commit p :
  In p (db_pgnos lock commit) <-> 1 <= p <= commit /\ p <> lock.
Proof.
  rewrite db_pgnos_spec, filter_In, In_upto. unfold not_lock.
  rewrite negb_true_iff, N.eqb_neq. tauto.
Qed.

Lemma db_pgnos_succ lock n :
  db_pgnos lock (N.succ n) = db_pgnos lock n ++ (if N.succ n =? lock then [] else [N.succ n]).
Proof.
  rewrite !db_pgnos_spec, upto_succ, filter_app. simpl. unfold not_lock at 2.
  destruct (N.succ n =? lock); reflexivity.
Qed.

(** ---- the encoder's rule ------------------------------------------------------ *)

Lemma last_default_irrel {A} (q : A) tl a b : last (q :: tl) a = last (q :: tl) b.
Proof. revert q. induction tl as [|r tl IH]; intros q; [reflexivity|]. exact (IH r). Qed.

Lemma enc_run_app s lock c prev l1 l2 :
  enc_run s lock c prev (l1 ++ l2) =
  match enc_run s lock c prev l1 with
  | Some e => Some e
  | None => enc_run s lock c (last l1 prev) l2
  end.
Proof.
  revert prev. induction l1 as [|p tl IH]; intros prev; simpl.
  - reflexivity.
  - destruct (enc_page s lock c prev p); [reflexivity|].
    rewrite IH. destruct (enc_run s lock c p tl); [reflexivity|].
    destruct tl as [|q tl']; [reflexivity|].
    change (last (p :: q :: tl') prev) with (last (q :: tl') prev).
    rewrite (last_default_irrel q tl' p prev). reflexivity.
Qed.

Lemma last_app1 {A} (l : list A) x d : last (l ++ [x]) d = x.
Proof. induction l as [|a tl IH]; simpl; [reflexivity|]. destruct (tl ++ [x]) eqn:E; [destruct tl; discriminate|]. exact IH. Qed.

Definition db_last (lock n : N) : N := if n =? lock then lock - 1 else n.

Lemma enc_page_snap_ok lock C prev p :
  2 <= lock -> p <= C -> p <> 0 -> p <> lock ->
  ((prev = 0 /\ p = 1) \/ (prev <> 0 /\ prev = lock - 1 /\ p = prev + 2) \/
   (prev <> 0 /\ prev <> lock - 1 /\ p = prev + 1)) ->
  enc_page true lock C prev p = None.
Proof.
  intros Hl H1 H2 H3 H4. unfold enc_page.
  destruct (N.ltb_spec C p); [lia|].
  destruct (N.eqb_spec p 0); [lia|].
  destruct (N.eqb_spec p lock); [lia|].
  destruct (N.eqb_spec prev 0); destruct (N.eqb_spec p 1); destruct (N.eqb_spec prev (lock - 1));
    destruct (N.eqb_spec p (prev + 2)); destruct (N.eqb_spec p (prev + 1)); simpl; try reflexivity; lia.
Qed.

Lemma enc_page_incr_ok lock C prev p :
  p <= C -> p <> 0 -> p <> lock -> prev < p -> enc_page false lock C prev p = None.
Proof.
  intros H1 H2 H3 H4. unfold enc_page.
  destruct (N.ltb_spec C p); [lia|].
  destruct (N.eqb_spec p 0); [lia|].
  destruct (N.eqb_spec p lock); [lia|].
  destruct (N.leb_spec p prev); [lia|reflexivity].
Qed.

(** encoder_accepts (snapshot files, MinTXID = 1): the sequence of
    writeLTXFromDB passes every EncodePage test, including the
    lock-1 -> lock+1 step *)
Lemma enc_accepts_db_snapshot lock C n :
  2 <= lock -> n <= C ->
  enc_run true lock C 0 (db_pgnos lock n) = None /\ last (db_pgnos lock n) 0 = db_last lock n.
Proof.
  intros Hl. induction n using N.peano_ind; intros Hn.
  - split; [reflexivity|]. unfold db_last. destruct (N.eqb_spec 0 lock); [lia|reflexivity].
  - destruct IHn as [IH1 IH2]; [lia|].
    rewrite db_pgnos_succ. destruct (N.eqb_spec (N.succ n) lock) as [E|E].
    + rewrite app_nil_r. split; [exact IH1|]. rewrite IH2. unfold db_last.
      destruct (N.eqb_spec n lock); [lia|]. destruct (N.eqb_spec (N.succ n) lock); lia.
    + split.
      * rewrite enc_run_app, IH1, IH2. cbn [enc_run].
        rewrite enc_page_snap_ok; [reflexivity|assumption|assumption|lia|assumption|].
        unfold db_last. destruct (N.eqb_spec n lock); [right; left; lia|].
        destruct (N.eq_dec n 0); [left; lia|right; right; lia].
      * rewrite last_app1. unfold db_last. destruct (N.eqb_spec (N.succ n) lock); [lia|reflexivity].
Qed.

(** the same sequence in a file that is not a snapshot (a full image written by
    a sync with TXID > 1): only strict ordering is demanded *)
Lemma enc_accepts_db_incremental lock C n :
  2 <= lock -> n <= C ->
  enc_run false lock C 0 (db_pgnos lock n) = None /\ last (db_pgnos lock n) 0 = db_last lock n.
Proof.
  intros Hl. induction n using N.peano_ind; intros Hn.
  - split; [reflexivity|]. unfold db_last. destruct (N.eqb_spec 0 lock); [lia|reflexivity].
  - destruct IHn as [IH1 IH2]; [lia|].
    rewrite db_pgnos_succ. destruct (N.eqb_spec (N.succ n) lock) as [E|E].
    + rewrite app_nil_r. split; [exact IH1|]. rewrite IH2. unfold db_last.
      destruct (N.eqb_spec n lock); [lia|]. destruct (N.eqb_spec (N.succ n) lock); lia.
    + split.
      * rewrite enc_run_app, IH1, IH2. cbn [enc_run].
        rewrite enc_page_incr_ok; [reflexivity|assumption|lia|assumption|].
        unfold db_last. destruct (N.eqb_spec n lock); lia.
      * rewrite last_app1. unfold db_last. destruct (N.eqb_spec (N.succ n) lock); [lia|reflexivity].
Qed.

(** a sequence containing the lock page is rejected, whatever else it holds *)
Lemma enc_rejects_lock s lock c prev l :
  In lock l -> enc_run s lock c prev l <> None.
Proof.
  revert prev. induction l as [|p tl IH]; intros prev Hin; simpl; [destruct Hin|].
  destruct Hin as [->|Hin].
  - unfold enc_page. destruct (c <? lock); [discriminate|].
    destruct (lock =? 0); [discriminate|]. rewrite N.eqb_refl. discriminate.
  - destruct (enc_page s lock c prev p); [discriminate|]. apply IH. exact Hin.
Qed.

(** what the encoder accepted is strictly increasing, within 1..commit, and
    never the lock page *)
Lemma enc_page_ok s lock c prev p :
  enc_page s lock c prev p = None -> p <= c /\ p <> 0 /\ p <> lock /\ (prev < p \/ (s = true /\ prev = 0 /\ p = 1)).
Proof.
  unfold enc_page.
  destruct (N.ltb_spec c p); [discriminate|].
  destruct (N.eqb_spec p 0); [discriminate|].
  destruct (N.eqb_spec p lock); [discriminate|].
  destruct s.
  - destruct (N.eqb_spec prev 0); simpl.
    + destruct (N.eqb_spec p 1); simpl; [|discriminate]. intros _. lia.
    + destruct (N.eqb_spec prev (lock - 1)).
      * destruct (N.eqb_spec p (prev + 2)); simpl; [|discriminate]. intros _. lia.
      * destruct (N.eqb_spec p (prev + 1)); simpl; [|discriminate]. intros _. lia.
  - destruct (N.leb_spec p prev); [discriminate|]. intros _. lia.
Qed.

(** ---- writeLTXFromWAL ---------------------------------------------------------- *)

Lemma memN_In x l : memN x l = true <-> In x l.
Proof.
  unfold memN. rewrite existsb_exists. split.
  - intros [y [Hy He]]. apply N.eqb_eq in He. subst. exact Hy.
  - intros H. exists x. split; [exact H|apply N.eqb_refl].
Qed.

Lemma fill_iter_spec lock keys prev k :
  let st := N.iter k (fill_step lock keys) (prev + 1, []) in
  fst st = prev + 1 + k /\
  forall p, In p (snd st) <-> (prev < p <= prev + k /\ p <> lock /\ ~ In p keys).
Proof.
  induction k using N.peano_ind; simpl.
  - split; [lia|]. intros p. simpl. split; [tauto|lia].
  - rewrite N.iter_succ. destruct (N.iter k (fill_step lock keys) (prev + 1, [])) as [pg acc] eqn:E.
    simpl in IHk. destruct IHk as [I1 I2]. subst pg. unfold fill_step. simpl. split; [lia|].
    intros p. destruct (N.eqb_spec (prev + 1 + k) lock) as [El|El].
    + rewrite I2. split; [intros [? ?]; split; [lia|tauto]|].
      intros [H1 [H2 H3]]. split; [|tauto]. lia.
    + destruct (memN (prev + 1 + k) keys) eqn:Em.
      * apply memN_In in Em. rewrite I2. split; [intros [? ?]; split; [lia|tauto]|].
        intros [H1 [H2 H3]]. split; [|tauto].
        destruct (N.eq_dec p (prev + 1 + k)); [subst; tauto|lia].
      * assert (~ In (prev + 1 + k) keys) by (intro Hc; apply memN_In in Hc; congruence).
        simpl. rewrite I2. split.
        -- intros [<-|[? ?]]; [split; [lia|tauto]|split; [lia|tauto]].
        -- intros [H1 [H2 H3]]. destruct (N.eq_dec p (prev + 1 + k)); [left; congruence|right].
           split; [lia|tauto].
Qed.

Lemma growth_fill_In lock prev commit keys p :
  In p (growth_fill lock prev commit keys) <-> (prev < p <= commit /\ p <> lock /\ ~ In p keys).
Proof.
  unfold growth_fill. destruct (N.ltb_spec prev commit).
  - rewrite rev_append_rev, app_nil_r, <- in_rev.
    destruct (fill_iter_spec lock keys prev (commit - prev)) as [_ H2]. rewrite H2.
    replace (prev + (commit - prev)) with commit by lia. tauto.
  - simpl. split; [tauto|lia].
Qed.

(** growth_pgnos: the growth fill never emits the lock page *)
Lemma growth_fill_no_lock lock prev commit keys : ~ In lock (growth_fill lock prev commit keys).
Proof. rewrite growth_fill_In. tauto. Qed.

Lemma insertN_In x l p : In p (insertN x l) <-> p = x \/ In p l.
Proof.
  induction l as [|y tl IH]; simpl; [intuition|].
  destruct (x <=? y); simpl; [intuition|]. rewrite IH. intuition.
Qed.
Lemma sortN_In l p : In p (sortN l) <-> In p l.
Proof.
  induction l as [|y tl IH]; simpl; [tauto|]. rewrite insertN_In, IH. intuition.
Qed.

Lemma wal_pgnos_In lock prev commit keys p :
  In p (wal_pgnos lock prev commit keys) <->
  In p keys \/ (prev < p <= commit /\ p <> lock /\ ~ In p keys).
Proof. unfold wal_pgnos. rewrite sortN_In, in_app_iff, growth_fill_In. tauto. Qed.

(** the lock page reaches the encoder only if the WAL page map holds it *)
Lemma wal_pgnos_lock lock prev commit keys :
  In lock (wal_pgnos lock prev commit keys) <-> In lock keys.
Proof. rewrite wal_pgnos_In. tauto. Qed.

(** every file writeLTXFromWAL produces is growth-closed (the premise of C06) *)
Lemma wal_pgnos_growth_closed lock prev commit keys p :
  prev < p <= commit -> p <> lock -> In p (wal_pgnos lock prev commit keys).
Proof.
  intros H1 H2. rewrite wal_pgnos_In.
  destruct (in_dec N.eq_dec p keys); [left; assumption|right; tauto].
Qed.

Inductive sortedN : list N -> Prop :=
| sN_nil : sortedN []
| sN_one x : sortedN [x]
| sN_cons x y l : x <= y -> sortedN (y :: l) -> sortedN (x :: y :: l).

Lemma insertN_sorted x l : sortedN l -> sortedN (insertN x l).
Proof.
  induction 1 as [|y|y z l Hyz Hs IH]; simpl.
  - constructor.
  - destruct (N.leb_spec x y); constructor; try constructor; lia.
  - destruct (N.leb_spec x y).
    + constructor; [assumption|]. constructor; assumption.
    + simpl in IH. destruct (N.leb_spec x z).
      * constructor; [lia|]. constructor; assumption.
      * constructor; assumption.
Qed.
Lemma wal_pgnos_sorted lock prev commit keys : sortedN (wal_pgnos lock prev commit keys).
Proof.
  unfold wal_pgnos, sortN. induction (keys ++ growth_fill lock prev commit keys); simpl.
  - constructor.
  - apply insertN_sorted. assumption.
Qed.

(** ---- DecodeDatabaseTo ----------------------------------------------------------- *)

Lemma dec_loop_spec lock commit : forall l pg w,
  dec_loop lock commit pg l = Ok w ->
  forall p,
    (p < pg -> pm_get p l = None /\ pm_get p w = None) /\
    (pg <= p <= commit -> p <> lock -> exists c, pm_get p l = Some c /\ pm_get p w = Some c) /\
    (pg <= p <= commit -> p = lock -> pm_get p l = None /\ pm_get p w = Some zero_page) /\
    (pg <= p -> commit < p -> pm_get p l = None /\ pm_get p w = None).
Proof.
  induction l as [|[q c] tl IH]; intros pg w H p; simpl in H.
  - destruct (N.ltb_spec commit pg).
    + inversion H; subst. simpl. repeat split; intros; try reflexivity; try lia.
    + destruct (N.eqb_spec pg lock); simpl in H; [|discriminate].
      destruct (N.ltb_spec commit (pg + 1)); [|discriminate].
      inversion H; subst. simpl.
      split; [intros; destruct (N.eqb_spec p lock); [lia|split; reflexivity]|].
      split; [intros; lia|].
      split; [intros ? ->; rewrite N.eqb_refl; split; reflexivity|].
      intros; destruct (N.eqb_spec p lock); [lia|split; reflexivity].
  - destruct (N.ltb_spec commit pg); [discriminate|].
    destruct (N.eqb_spec pg lock) as [El|El].
    + destruct (N.ltb_spec commit (pg + 1)); [discriminate|].
      destruct (N.eqb_spec q (pg + 1)); [|discriminate]. subst q.
      destruct (dec_loop lock commit (pg + 2) tl) as [out|] eqn:E; [|discriminate].
      inversion H; subst w. clear H.
      specialize (IH _ _ E p). destruct IH as [Ia [Ib [Ic Id]]].
      cbn [pm_get].
      destruct (N.eqb_spec p (pg + 1)) as [E1|E1]; destruct (N.eqb_spec p pg) as [E2|E2]; try lia.
      * subst p. repeat split; try (intros; lia).
        intros _ _. exists c. split; reflexivity.
      * subst p. destruct (Ia ltac:(lia)) as [I1 I2].
        repeat split; try (intros; lia); try assumption; try reflexivity.
      * split; [intros; apply Ia; lia|].
        split; [intros; apply Ib; [lia|assumption]|].
        split; [intros; lia|].
        intros; apply Id; lia.
    + destruct (N.eqb_spec q pg); [|discriminate]. subst q.
      destruct (dec_loop lock commit (pg + 1) tl) as [out|] eqn:E; [|discriminate].
      inversion H; subst w. clear H.
      specialize (IH _ _ E p). destruct IH as [Ia [Ib [Ic Id]]].
      cbn [pm_get].
      destruct (N.eqb_spec p pg) as [E2|E2].
      * subst p. repeat split; try (intros; lia).
        intros _ _. exists c. split; reflexivity.
      * split; [intros; apply Ia; lia|].
        split; [intros; apply Ib; [lia|assumption]|].
        split; [intros; apply Ic; [lia|assumption]|].
        intros; apply Id; lia.
Qed.

(** decode_lock_zero: DecodeDatabaseTo yields [Commit] pages; every page other
    than the lock page is the file's page; the lock page, when inside the
    database, is empty — and the file never supplies it *)
Lemma decode_db_spec f d :
  decode_db f = Ok d ->
  isz d = f_commit f /\
  (forall p, 1 <= p <= f_commit f -> p <> lockPgno (f_ps f) ->
             pm_get p (f_pages f) = Some (img_get d p)) /\
  img_get d (lockPgno (f_ps f)) = zero_page /\
  pm_get (lockPgno (f_ps f)) (f_pages f) = None /\
  (forall p, f_commit f < p -> pm_get p (f_pages f) = None).
Proof.
  unfold decode_db. destruct (is_snapshot f); simpl; [|discriminate].
  destruct (dec_loop (lockPgno (f_ps f)) (f_commit f) 1 (f_pages f)) as [w|] eqn:E; [|discriminate].
  intros H; inversion H; subst d; clear H. simpl.
  pose proof (dec_loop_spec _ _ _ _ _ E) as S.
  split; [reflexivity|].
  split.
  { intros p Hp Hl. destruct (S p) as [_ [Sb _]]. destruct (Sb Hp Hl) as [c [H1 H2]].
    rewrite H1. unfold img_get, img_of_pages. simpl.
    destruct (N.leb_spec 1 p); [|lia]. destruct (N.leb_spec p (f_commit f)); [|lia]. simpl.
    rewrite H2. reflexivity. }
  set (lock := lockPgno (f_ps f)) in *.
  destruct (S lock) as [Sa [_ [Sc Sd]]].
  assert (1 <= lock) by (unfold lock, lockPgno; apply N.le_add_l).
  destruct (N.le_gt_cases lock (f_commit f)).
  - destruct Sc as [H1 H2]; [lia|reflexivity|].
    split; [|split; [exact H1|]].
    + unfold img_get, img_of_pages. simpl.
      destruct (N.leb_spec 1 lock); [|lia]. destruct (N.leb_spec lock (f_commit f)); [|lia]. simpl.
      rewrite H2. reflexivity.
    + intros p Hp. destruct (S p) as [_ [_ [_ Sd']]]. apply Sd'; lia.
  - destruct Sd as [H1 H2]; [lia|lia|].
    split; [|split; [exact H1|]].
    + unfold img_get. simpl. destruct (N.leb_spec lock (f_commit f)); [lia|].
      rewrite andb_false_r. reflexivity.
    + intros p Hp. destruct (S p) as [_ [_ [_ Sd']]]. apply Sd'; lia.
Qed.

(** restoring a snapshot file is applying it to the empty database *)
Lemma decode_is_apply f d : decode_db f = Ok d -> img_eq d (apply img_empty f).
Proof.
  intros H. destruct (decode_db_spec _ _ H) as [Hs [Hp [Hl [Hn Hc]]]].
  split; [simpl; exact Hs|].
  intros p. unfold img_get at 2. simpl.
  destruct (N.leb_spec 1 p); simpl.
  - destruct (N.leb_spec p (f_commit f)); simpl.
    + destruct (N.eq_dec p (lockPgno (f_ps f))) as [->|Hne].
      * rewrite Hl, Hn. unfold img_get. simpl.
        destruct ((1 <=? lockPgno (f_ps f)) && (lockPgno (f_ps f) <=? 0)); reflexivity.
      * rewrite (Hp p); [reflexivity|lia|exact Hne].
    + unfold img_get. rewrite Hs. destruct (N.leb_spec p (f_commit f)); [lia|].
      rewrite andb_false_r. reflexivity.
  - unfold img_get. destruct (N.leb_spec 1 p); [lia|]. reflexivity.
Qed.

(** ---- the incremental sync after a growth succeeds ------------------------------------- *)

Lemma sortedN_tail x l : sortedN (x :: l) -> sortedN l.
Proof. inversion 1; subst; [constructor|assumption]. Qed.

Lemma sortedN_head_le x l : sortedN (x :: l) -> forall p, In p l -> x <= p.
Proof.
  revert x. induction l as [|y tl IH]; intros x Hs p Hin; [destruct Hin|].
  inversion Hs; subst. destruct Hin as [<-|Hin]; [assumption|].
  specialize (IH y H3 p Hin). lia.
Qed.

Lemma enc_run_incr_ok lock commit : forall l prev,
  sortedN l -> NoDup l ->
  (forall p, In p l -> p <= commit /\ p <> 0 /\ p <> lock) ->
  (forall p, In p l -> prev < p) ->
  enc_run false lock commit prev l = None.
Proof.
  induction l as [|x tl IH]; intros prev Hs Hn Hb Hp; [reflexivity|].
  cbn [enc_run]. destruct (Hb x (or_introl eq_refl)) as [B1 [B2 B3]].
  rewrite enc_page_incr_ok; [|assumption|assumption|assumption|apply Hp; left; reflexivity].
  inversion Hn; subst. apply IH; [apply (sortedN_tail x); assumption|assumption| |].
  - intros p Hin. apply Hb. right. assumption.
  - intros p Hin. pose proof (sortedN_head_le x tl Hs p Hin).
    assert (x <> p) by (intros ->; contradiction). lia.
Qed.

Lemma insertN_NoDup x l : NoDup l -> ~ In x l -> NoDup (insertN x l).
Proof.
  induction l as [|y tl IH]; intros Hn Hx; simpl; [constructor; [intros []|constructor]|].
  destruct (x <=? y); [constructor; assumption|].
  inversion Hn; subst. constructor.
  - rewrite insertN_In. intros [->|Hc]; [apply Hx; left; reflexivity|contradiction].
  - apply IH; [assumption|]. intros Hc. apply Hx. right. assumption.
Qed.

Lemma sortN_NoDup l : NoDup l -> NoDup (sortN l).
Proof.
  induction 1 as [|x l Hx Hn IH]; simpl; [constructor|].
  apply insertN_NoDup; [assumption|]. rewrite sortN_In. assumption.
Qed.

Lemma fill_iter_NoDup lock keys prev k :
  NoDup (snd (N.iter k (fill_step lock keys) (prev + 1, []))).
Proof.
  induction k using N.peano_ind; [constructor|].
  rewrite N.iter_succ.
  pose proof (fill_iter_spec lock keys prev k) as S. cbv zeta in S.
  destruct (N.iter k (fill_step lock keys) (prev + 1, [])) as [pg acc]. simpl in *.
  destruct S as [S1 S2]. subst pg. unfold fill_step. simpl.
  destruct (prev + 1 + k =? lock); [assumption|].
  destruct (memN (prev + 1 + k) keys); [assumption|].
  simpl. constructor; [|assumption]. rewrite S2. lia.
Qed.

Lemma growth_fill_NoDup lock prev commit keys : NoDup (growth_fill lock prev commit keys).
Proof.
  unfold growth_fill. destruct (prev <? commit); [|constructor].
  rewrite rev_append_rev, app_nil_r. apply NoDup_rev. apply fill_iter_NoDup.
Qed.

Lemma NoDup_app_disj {A} (a b : list A) :
  NoDup a -> NoDup b -> (forall x, In x a -> ~ In x b) -> NoDup (a ++ b).
Proof.
  induction 1 as [|x a Hx Ha IH]; intros Hb Hd; simpl; [assumption|].
  constructor.
  - rewrite in_app_iff. intros [Hc|Hc]; [contradiction|]. apply (Hd x); [left; reflexivity|assumption].
  - apply IH; [assumption|]. intros y Hy. apply Hd. right. assumption.
Qed.

(** for every page map SQLite can produce (distinct pages within 1..commit, never
    the lock page) the encoder of an incremental file accepts what
    writeLTXFromWAL feeds it — whatever the previous commit was *)
Lemma wal_encoder_accepts lock prev commit keys :
  NoDup keys -> (forall k, In k keys -> 1 <= k <= commit /\ k <> lock) ->
  enc_run false lock commit 0 (wal_pgnos lock prev commit keys) = None.
Proof.
  intros Hn Hk. apply enc_run_incr_ok.
  - apply wal_pgnos_sorted.
  - unfold wal_pgnos. apply sortN_NoDup. apply NoDup_app_disj; [assumption|apply growth_fill_NoDup|].
    intros x Hx Hc. apply growth_fill_In in Hc. tauto.
  - intros p Hp. apply wal_pgnos_In in Hp. destruct Hp as [Hp|Hp].
    + destruct (Hk p Hp). lia.
    + lia.
  - intros p Hp. apply wal_pgnos_In in Hp. destruct Hp as [Hp|Hp].
    + destruct (Hk p Hp). lia.
    + lia.
Qed.

(** ---- page CONTENT of a full-database encoding --------------------------------------------- *)

Lemma pm_get_map_self {V} (f : N -> V) (l : list N) pg :
  pm_get pg (map (fun p => (p, f p)) l) = if memN pg l then Some (f pg) else None.
Proof.
  induction l as [|q tl IH]; simpl; [reflexivity|].
  destruct (N.eqb_spec pg q) as [->|Hne]; simpl; [reflexivity|exact IH].
Qed.

(** every page of [1..commit] other than the lock page is encoded from its own
    source — the WAL frame the page map names, else the database file at
    (pgno-1)*pageSize — and nothing else is encoded *)
Lemma db_content_spec ps commit pm pg :
  pm_get pg (db_content ps commit pm) =
  if (1 <=? pg) && (pg <=? commit) && negb (pg =? lockPgno ps) then Some (db_source ps pm pg) else None.
Proof.
  unfold db_content. rewrite pm_get_map_self.
  destruct (memN pg (db_pgnos (lockPgno ps) commit)) eqn:E.
  - apply memN_In in E. apply db_pgnos_In in E. destruct E as [[H1 H2] H3].
    destruct (N.leb_spec 1 pg); [|lia]. destruct (N.leb_spec pg commit); [|lia].
    destruct (N.eqb_spec pg (lockPgno ps)); [contradiction|reflexivity].
  - destruct (N.leb_spec 1 pg); simpl; [|reflexivity].
    destruct (N.leb_spec pg commit); simpl; [|reflexivity].
    destruct (N.eqb_spec pg (lockPgno ps)); simpl; [reflexivity|].
    exfalso. assert (In pg (db_pgnos (lockPgno ps) commit)) by (apply db_pgnos_In; lia).
    apply memN_In in H1. congruence.
Qed.
