(** Abstract LTX files and database images (github.com/superfly/ltx v0.5.2).

    An LTX file is [header · page frames · end marker · page index · trailer].
    The abstract file keeps the header fields that later code reads
    (page size, MinTXID, MaxTXID, Commit, Timestamp) and the page frames in
    file order as an association list pgno -> content.  Page content is
    abstract: a number naming a page image; [zero_page] names the all-zero page
    (what a hole of the database file reads as, what [DecodeDatabaseTo] writes
    at the lock page, and what [Truncate] to a larger size produces).

    Not modelled here: checksums (litestream always sets HeaderFlagNoChecksum,
    so Pre/PostApplyChecksum are zero and the CRC-64 file checksum is the
    subject of C10), WALOffset/WALSize/salts (C01/C04), NodeID, compression. *)
From Coq Require Import List NArith Bool Lia.
From LS Require Import Base.PMap.
Import ListNotations.
Open Scope N_scope.

Definition content := N.
Definition zero_page : content := 0.

(** page frames in file order *)
Definition pages := pmap content.

Record ltx : Type := mkLtx {
  f_ps : N;        (* Header.PageSize *)
  f_min : N;       (* Header.MinTXID *)
  f_max : N;       (* Header.MaxTXID *)
  f_commit : N;    (* Header.Commit: database size in pages after the file is applied *)
  f_ts : N;        (* Header.Timestamp, ms *)
  f_pages : pages
}.

Definition f_keys (f : ltx) : list N := pm_keys (f_pages f).

(** Header.IsSnapshot *)
Definition is_snapshot (f : ltx) : bool := f_min f =? 1.

(** ltx.IsValidPageSize: 512, 1024, ..., 65536 *)
Definition page_sizes : list N := [512; 1024; 2048; 4096; 8192; 16384; 32768; 65536].
Definition valid_ps (ps : N) : bool := existsb (N.eqb ps) page_sizes.

(** Header.Validate restricted to the modelled fields (Version and Flags are
    constants in litestream's use; the WAL fields and checksums are not modelled) *)
Definition hdr_valid (f : ltx) : bool :=
  valid_ps (f_ps f) && negb (f_min f =? 0) && negb (f_max f =? 0) && (f_min f <=? f_max f).

(** ltx.IsContiguous(prevMaxTXID, minTXID, maxTXID):
    [minTXID <= prevMaxTXID+1 && maxTXID > prevMaxTXID] *)
Definition is_contiguous (prevMax mn mx : N) : bool := (mn <=? prevMax + 1) && (prevMax <? mx).

(** A database image: a size in pages and the content of every page.  Pages
    outside [1..isz] do not exist; [img_get] reads them as zero, which is what
    a read past the end of a file that is then extended returns. *)
Record image : Type := mkImg { isz : N; ipg : N -> content }.

Definition img_get (d : image) (p : N) : content :=
  if (1 <=? p) && (p <=? isz d) then ipg d p else zero_page.

(** same size, same page images *)
Definition img_eq (d1 d2 : image) : Prop :=
  isz d1 = isz d2 /\ forall p, img_get d1 p = img_get d2 p.

Definition img_empty : image := mkImg 0 (fun _ => zero_page).

Definition img_of_pages (size : N) (pgs : pages) : image :=
  mkImg size (fun p => match pm_get p pgs with Some c => c | None => zero_page end).

Lemma img_eq_refl d : img_eq d d.
Proof. split; auto. Qed.
Lemma img_eq_sym a b : img_eq a b -> img_eq b a.
Proof. intros [H1 H2]; split; auto. Qed.
Lemma img_eq_trans a b c : img_eq a b -> img_eq b c -> img_eq a c.
Proof. intros [H1 H2] [H3 H4]; split; [congruence|]. intro p. rewrite H2. apply H4. Qed.

(** results with an error class *)
Inductive res (A : Type) : Type :=
| Ok (a : A)
| Err (code : N).
Arguments Ok {A} a.
Arguments Err {A} code.
