(** Lock-page arithmetic, the LTX encoder's page-acceptance rule, and the
    page-number sequences litestream feeds to the encoder:
      - [db_pgnos]   : db.go writeLTXFromDB   (full database image)
      - [wal_pgnos]  : db.go writeLTXFromWAL  (WAL pages + growth fill)
    The loops are modelled with [N.iter] over the loop counter, so every
    definition is executable for commits in the millions without building a
    unary number. *)
From Coq Require Import List NArith Bool Lia.
From LS Require Import Base.PMap Ltx.File.
Import ListNotations.
Open Scope N_scope.

(** ltx.PENDING_BYTE = 0x40000000;
    ltx.LockPgno(pageSize) = uint32(PENDING_BYTE/int64(pageSize)) + 1 *)
Definition pending_byte : N := 1073741824.
Definition lockPgno (ps : N) : N := pending_byte / ps + 1.

(** ------------------------------------------------------------------ *)
(** Encoder.EncodePage, the tests that depend on the page number, in source
    order.  [prev] is enc.prevPgno (0 before the first page). *)
Inductive enc_err : Type :=
| EOutOfBounds   (* "page number %d out-of-bounds for commit size %d" *)
| EPgnoZero      (* PageHeader.Validate: "page number required" *)
| ELock          (* "cannot encode lock page" *)
| ESnapStart     (* "snapshot transaction file must start with page number 1" *)
| ESnapSeqLock   (* "nonsequential page numbers in snapshot transaction (skip lock page)" *)
| ESnapSeq       (* "nonsequential page numbers in snapshot transaction" *)
| EOrder.        (* "out-of-order page numbers" *)

Definition enc_page (snapshot : bool) (lock commit prev pgno : N) : option enc_err :=
  if commit <? pgno then Some EOutOfBounds
  else if pgno =? 0 then Some EPgnoZero
  else if pgno =? lock then Some ELock
  else if snapshot then
    if (prev =? 0) && negb (pgno =? 1) then Some ESnapStart
    else if prev =? lock - 1 then
      (if negb (pgno =? prev + 2) then Some ESnapSeqLock else None)
    else if negb (prev =? 0) && negb (pgno =? prev + 1) then Some ESnapSeq
    else None
  else
    if pgno <=? prev then Some EOrder else None.

(** a whole sequence of EncodePage calls; [None] = every page accepted *)
Fixpoint enc_run (snapshot : bool) (lock commit prev : N) (l : list N) : option enc_err :=
  match l with
  | [] => None
  | p :: tl =>
      match enc_page snapshot lock commit prev p with
      | Some e => Some e
      | None => enc_run snapshot lock commit p tl
      end
  end.

(** Encoder.Close with HeaderFlagNoChecksum and PostApplyChecksum = 0 (what
    litestream's sync and both compactor call sites produce): Trailer.Validate
    passes and the only remaining test is
    [Commit == 0 && PostApplyChecksum != ChecksumFlag] -> error. *)
Definition enc_close_ok (commit : N) : bool := negb (commit =? 0).

(** the encoder accepts the file [f] (header valid, every page, close) *)
Definition encode_ok (f : ltx) : bool :=
  hdr_valid f &&
  match enc_run (is_snapshot f) (lockPgno (f_ps f)) (f_commit f) 0 (f_keys f) with
  | None => true | Some _ => false end &&
  enc_close_ok (f_commit f).

(** ------------------------------------------------------------------ *)
(** writeLTXFromDB:
      for pgno := uint32(1); pgno <= commit; pgno++ {
        if pgno == lockPgno { continue }
        ... enc.EncodePage(PageHeader{Pgno: pgno}, data)
    state = (pgno, pages emitted so far, newest first) *)
Definition db_step (lock : N) (st : N * list N) : N * list N :=
  let (pg, acc) := st in
  (pg + 1, if pg =? lock then acc else pg :: acc).

Definition db_pgnos (lock commit : N) : list N :=
  rev_append (snd (N.iter commit (db_step lock) (1, []))) [].

(** where writeLTXFromDB takes the CONTENT of page [pg] from: the WAL frame the
    page map points to ([walFile.ReadAt(data, offset+WALFrameHeaderSize)]) or the
    database file at [(pgno-1)*pageSize] ([db.f.ReadAt(data, offset)]).
    (1, byte offset in the database file) | (2, byte offset of the page data in the WAL) *)
Definition wal_frame_header_size : N := 24.
Definition db_source (ps : N) (pm : list (N * N)) (pg : N) : N * N :=
  match pm_get pg pm with
  | Some off => (2, off + wal_frame_header_size)
  | None => (1, (pg - 1) * ps)
  end.
(** the page frames of a full-database encoding: page number and content source, in order *)
Definition db_content (ps commit : N) (pm : list (N * N)) : list (N * (N * N)) :=
  map (fun pg => (pg, db_source ps pm pg)) (db_pgnos (lockPgno ps) commit).

(** writeLTXFromWAL:
      pgnos := keys(pageMap)
      if commit > prevCommit {
        for pgno := prevCommit + 1; pgno <= commit; pgno++ {
          if pgno == lockPgno { continue }
          if _, ok := pageMap[pgno]; ok { continue }
          pgnos = append(pgnos, pgno)
      slices.Sort(pgnos)                                             *)
Definition memN (x : N) (l : list N) : bool := existsb (N.eqb x) l.

Definition fill_step (lock : N) (keys : list N) (st : N * list N) : N * list N :=
  let (pg, acc) := st in
  (pg + 1, if pg =? lock then acc else if memN pg keys then acc else pg :: acc).

Definition growth_fill (lock prev commit : N) (keys : list N) : list N :=
  if prev <? commit
  then rev_append (snd (N.iter (commit - prev) (fill_step lock keys) (prev + 1, []))) []
  else [].

Fixpoint insertN (x : N) (l : list N) : list N :=
  match l with
  | [] => [x]
  | y :: tl => if x <=? y then x :: l else y :: insertN x tl
  end.
Definition sortN (l : list N) : list N := fold_right insertN [] l.

Definition wal_pgnos (lock prev commit : N) (keys : list N) : list N :=
  sortN (keys ++ growth_fill lock prev commit keys).

(** ------------------------------------------------------------------ *)
(** Sorted page lists as maximal runs [(lo, hi)] (both inclusive) — the
    compact form in which page-number lists cross the harness boundary. *)
Fixpoint to_ranges_from (lo hi : N) (l : list N) : list (N * N) :=
  match l with
  | [] => [(lo, hi)]
  | p :: tl => if p =? hi + 1 then to_ranges_from lo p tl
               else (lo, hi) :: to_ranges_from p p tl
  end.
Definition to_ranges (l : list N) : list (N * N) :=
  match l with [] => [] | p :: tl => to_ranges_from p p tl end.

(** closed form of [to_ranges (db_pgnos lock commit)] *)
Definition db_ranges (lock commit : N) : list (N * N) :=
  if commit =? 0 then []
  else if commit <? lock then [(1, commit)]
  else if lock =? 1 then (if commit =? 1 then [] else [(2, commit)])
  else if commit =? lock then [(1, lock - 1)]
  else [(1, lock - 1); (lock + 1, commit)].

(** the page numbers of a list of runs, in order *)
Definition run_step (st : N * list N) : N * list N := (fst st + 1, fst st :: snd st).
Definition run_list (lo hi : N) : list N :=
  if hi <? lo then [] else rev_append (snd (N.iter (hi + 1 - lo) run_step (lo, []))) [].
Definition expand_runs (rs : list (N * N)) : list N :=
  flat_map (fun r => run_list (fst r) (snd r)) rs.

Definition in_ranges (p : N) (rs : list (N * N)) : bool :=
  existsb (fun r => (fst r <=? p) && (p <=? snd r)) rs.
