(** C06 (file level): what ltx.Compactor produces is equivalent to applying its
    inputs in order — for every base image and every growth-closed list of
    inputs; without growth-closedness it is not (explicit witness); any two
    ways of compacting the same level-0 chain restore to the same image. *)
From Coq Require Import List NArith Bool Lia.
From LS Require Import Base.PMap Ltx.File Ltx.Snapshot Ltx.Apply Ltx.Compact Ltx.SnapshotProofs.
Import ListNotations.
Open Scope N_scope.

(** ---- sorted page lists ---------------------------------------------------- *)

Fixpoint sorted_gt (lb : N) (l : pages) : Prop :=
  match l with
  | [] => True
  | (q, _) :: tl => lb < q /\ sorted_gt q tl
  end.

Lemma sorted_gt_weaken lb lb' l : lb' <= lb -> sorted_gt lb l -> sorted_gt lb' l.
Proof. destruct l as [|[q c] tl]; simpl; [trivial|]. intros H [H1 H2]. split; [lia|assumption]. Qed.

Lemma sorted_gt_get_none l : forall lb p, sorted_gt lb l -> p <= lb -> pm_get p l = None.
Proof.
  induction l as [|[q c] tl IH]; intros lb p Hs Hp; simpl; [reflexivity|].
  destruct Hs as [H1 H2]. destruct (N.eqb_spec p q); [lia|]. apply (IH q); [assumption|lia].
Qed.

(** the entry of the LAST list holding page [p] *)
Fixpoint newest (p : N) (ins : list pages) : option content :=
  match ins with
  | [] => None
  | l :: tl => match newest p tl with Some c => Some c | None => pm_get p l end
  end.

Lemma newest_none_le ins lb p : Forall (sorted_gt lb) ins -> p <= lb -> newest p ins = None.
Proof.
  induction 1 as [|l tl Hl Ht IH]; intros Hp; simpl; [reflexivity|].
  rewrite IH by assumption. apply (sorted_gt_get_none l lb); assumption.
Qed.

Lemma newest_all_empty ins p : Forall (fun l : pages => l = []) ins -> newest p ins = None.
Proof. induction 1 as [|l tl Hl Ht IH]; simpl; [reflexivity|]. rewrite IH. subst l. reflexivity. Qed.

Lemma newest_app p a b :
  newest p (a ++ b) = match newest p b with Some c => Some c | None => newest p a end.
Proof.
  induction a as [|l tl IH]; simpl.
  - destruct (newest p b); reflexivity.
  - rewrite IH. destruct (newest p b); reflexivity.
Qed.

(** ---- fillPageBuffers -------------------------------------------------------- *)

Definition hm_step (pg : N) (l : pages) : N :=
  match l with
  | [] => pg
  | (q, _) :: _ => if (pg =? 0) || (q <? pg) then q else pg
  end.

Definition min_key_ge (m : N) (l : pages) : Prop :=
  match l with [] => True | (q, _) :: _ => m <= q end.

Lemma hm_fold lb : forall ins a,
  Forall (sorted_gt lb) ins -> (a = 0 \/ lb < a) ->
  let r := fold_left hm_step ins a in
  (r = 0 -> a = 0 /\ Forall (fun l : pages => l = []) ins) /\
  (r <> 0 -> lb < r /\ Forall (min_key_ge r) ins /\ (a <> 0 -> r <= a) /\
             (r = a \/ exists c rest, In ((r, c) :: rest) ins)).
Proof.
  induction ins as [|l tl IH]; intros a Hs Ha; cbv zeta; simpl.
  - split; [intros Hr; split; [assumption|constructor]|].
    intros Hr. split; [lia|]. split; [constructor|]. split; [lia|left; reflexivity].
  - inversion Hs as [|? ? Hl Ht]; subst.
    destruct l as [|[q c] rest].
    + simpl. pose proof (IH a Ht Ha) as IHa. cbv zeta in IHa. destruct IHa as [I0 I1]. split.
      * intros Hr. destruct (I0 Hr) as [? ?]. split; [assumption|constructor; [reflexivity|assumption]].
      * intros Hr. destruct (I1 Hr) as [J1 [J2 [J3 J4]]]. split; [assumption|].
        split; [constructor; [exact I|assumption]|]. split; [assumption|].
        destruct J4 as [?|[c [rest Hin]]]; [left; assumption|right; exists c, rest; right; assumption].
    + simpl in Hl. destruct Hl as [Hq Hrest].
      set (a' := if (a =? 0) || (q <? a) then q else a).
      assert (Ha' : a' <> 0 /\ lb < a' /\ a' <= q /\ (a <> 0 -> a' <= a) /\ (a' = q \/ a' = a)).
      { unfold a'. destruct (N.eqb_spec a 0); simpl.
        - repeat split; try lia; try (left; reflexivity).
        - destruct (N.ltb_spec q a); repeat split; try lia; try (left; reflexivity). }
      destruct Ha' as [A1 [A2 [A3 [A4 A5]]]].
      change (fold_left hm_step tl (hm_step a ((q, c) :: rest))) with (fold_left hm_step tl a').
      pose proof (IH a' Ht (or_intror A2)) as IHa. cbv zeta in IHa. destruct IHa as [I0 I1]. split.
      * intros Hr. destruct (I0 Hr) as [? _]. contradiction.
      * intros Hr. destruct (I1 Hr) as [J1 [J2 [J3 J4]]]. specialize (J3 A1).
        split; [assumption|]. split; [constructor; [simpl; lia|assumption]|].
        split; [intros; specialize (A4 H); lia|].
        destruct J4 as [E|[c' [rest' Hin]]].
        -- destruct A5 as [E2|E2]; [right; exists c, rest; left; congruence|left; congruence].
        -- right. exists c', rest'. right. assumption.
Qed.

Lemma heads_min_spec lb ins :
  Forall (sorted_gt lb) ins ->
  let m := heads_min ins in
  (m = 0 -> Forall (fun l : pages => l = []) ins) /\
  (m <> 0 -> lb < m /\ Forall (min_key_ge m) ins /\ exists c rest, In ((m, c) :: rest) ins).
Proof.
  intros Hs. pose proof (hm_fold lb ins 0 Hs (or_introl eq_refl)) as HF. cbv zeta in HF.
  destruct HF as [I0 I1].
  change (fold_left hm_step ins 0) with (heads_min ins) in *. cbv zeta. split.
  - intros H. apply I0. assumption.
  - intros H. destruct (I1 H) as [J1 [J2 [_ J4]]]. split; [assumption|]. split; [assumption|].
    destruct J4 as [E|J4]; [congruence|assumption].
Qed.

(** ---- writePageBuffer ---------------------------------------------------------- *)

Lemma take_newest_spec lb m : forall ins w ins',
  Forall (sorted_gt lb) ins -> Forall (min_key_ge m) ins -> lb < m ->
  take_newest m ins = (w, ins') ->
  w = newest m ins /\
  (forall p, p <> m -> newest p ins' = newest p ins) /\
  Forall (sorted_gt m) ins' /\
  (total_len ins' <= total_len ins)%nat /\
  ((exists c rest, In ((m, c) :: rest) ins) -> (total_len ins' < total_len ins)%nat).
Proof.
  induction ins as [|l tl IH]; intros w ins' Hs Hm Hlb H; simpl in H.
  - inversion H; subst. simpl. repeat split; auto. intros [c [rest []]].
  - inversion Hs as [|? ? Hl Ht]; subst. inversion Hm as [|? ? Ml Mt]; subst.
    destruct (take_newest m tl) as [w' tl'] eqn:E.
    destruct (IH w' tl' Ht Mt Hlb eq_refl) as [I1 [I2 [I3 [I4 I5]]]].
    destruct l as [|[q c] rest].
    + inversion H; subst. simpl. split; [destruct (newest m tl); reflexivity|].
      split; [intros p Hp; rewrite (I2 p Hp); reflexivity|].
      split; [constructor; [exact I|assumption]|]. split; [assumption|].
      intros [c [rest [Hc|Hc]]]; [discriminate|]. apply I5. exists c, rest. assumption.
    + simpl in Hl, Ml. destruct Hl as [Hq Hrest].
      destruct (N.eqb_spec q m) as [Eq|Eq].
      * subst q. inversion H; subst. simpl. rewrite N.eqb_refl.
        split; [destruct (newest m tl); reflexivity|].
        split.
        { intros p Hp. rewrite (I2 p Hp). destruct (N.eqb_spec p m); [contradiction|reflexivity]. }
        split; [constructor; assumption|]. split; [lia|]. intros _. lia.
      * inversion H; subst. simpl.
        assert (Hgt : m < q) by lia.
        assert (Hnone : pm_get m ((q, c) :: rest) = None).
        { apply (sorted_gt_get_none _ m); [simpl; split; assumption|lia]. }
        simpl in Hnone. split; [rewrite Hnone; destruct (newest m tl); reflexivity|].
        split; [intros p Hp; rewrite (I2 p Hp); reflexivity|].
        split; [constructor; [simpl; split; assumption|assumption]|]. split; [lia|].
        intros [c' [rest' [Hc|Hc]]]; [inversion Hc; lia|].
        assert (total_len tl' < total_len tl)%nat by (apply I5; exists c', rest'; assumption). lia.
Qed.

(** ---- writePageBlock ------------------------------------------------------------- *)

Lemma merge_loop_spec s lock commit : forall fuel ins lb prev out,
  Forall (sorted_gt lb) ins -> (total_len ins < fuel)%nat ->
  merge_loop fuel s lock commit ins prev = Ok out ->
  sorted_gt lb out /\
  (forall p, pm_get p out = if p <=? commit then newest p ins else None) /\
  (forall p, pm_get p out <> None -> p <> lock).
Proof.
  induction fuel as [|fuel IH]; intros ins lb prev out Hs Hf H; simpl in H; [discriminate|].
  cbv zeta in H.
  pose proof (heads_min_spec lb ins Hs) as HM. cbv zeta in HM. destruct HM as [M0 M1].
  remember (heads_min ins) as m eqn:Em.
  destruct (N.eqb_spec m 0) as [E0|E0].
  - inversion H; subst. split; [exact I|]. split.
    + intros p. simpl. rewrite (newest_all_empty ins p (M0 E0)). destruct (p <=? commit); reflexivity.
    + intros p Hp. simpl in Hp. congruence.
  - destruct (M1 E0) as [Hlb [Hmin Hex]].
    destruct (take_newest m ins) as [w ins'] eqn:ET.
    destruct (take_newest_spec lb m ins w ins' Hs Hmin Hlb ET) as [T1 [T2 [T3 [T4 T5]]]].
    specialize (T5 Hex).
    assert (Hw : w <> None).
    { rewrite T1. destruct Hex as [c [rest Hin]]. clear -Hin.
      induction ins as [|l tl IHl]; [destruct Hin|]. simpl. destruct Hin as [->|Hin].
      - simpl. rewrite N.eqb_refl. destruct (newest m tl); discriminate.
      - specialize (IHl Hin). destruct (newest m tl); [discriminate|contradiction]. }
    assert (Hnm : newest m ins' = None) by (apply (newest_none_le ins' m m T3); lia).
    destruct (N.ltb_spec commit m) as [Hc|Hc].
    + destruct (IH ins' m prev out T3 ltac:(lia) H) as [I1 [I2 I3]].
      split; [apply (sorted_gt_weaken m lb); [lia|assumption]|]. split; [|assumption].
      intros p. rewrite I2. destruct (N.leb_spec p commit); [|reflexivity].
      apply T2. lia.
    + destruct w as [c|]; [|contradiction].
      destruct (enc_page s lock commit prev m) eqn:EP; [discriminate|].
      destruct (merge_loop fuel s lock commit ins' m) as [out'|] eqn:EM; [|discriminate].
      inversion H; subst out. clear H.
      destruct (IH ins' m m out' T3 ltac:(lia) EM) as [I1 [I2 I3]].
      split; [simpl; split; assumption|]. split.
      * intros p. simpl. destruct (N.eqb_spec p m) as [->|Hne].
        -- destruct (N.leb_spec m commit); [|lia]. exact T1.
        -- rewrite I2. destruct (p <=? commit); [|reflexivity]. apply T2. assumption.
      * intros p. simpl. destruct (N.eqb_spec p m) as [->|Hne].
        -- intros _. apply enc_page_ok in EP. tauto.
        -- apply I3.
Qed.

(** enough fuel is always supplied *)
Lemma enc_err_code_not_fuel e : enc_err_code e <> E_FUEL.
Proof. destruct e; vm_compute; discriminate. Qed.

Lemma merge_loop_fuel s lock commit : forall fuel ins lb prev,
  Forall (sorted_gt lb) ins -> (total_len ins < fuel)%nat ->
  merge_loop fuel s lock commit ins prev <> Err E_FUEL.
Proof.
  induction fuel as [|fuel IH]; intros ins lb prev Hs Hf; [lia|]. simpl. cbv zeta.
  pose proof (heads_min_spec lb ins Hs) as HM. cbv zeta in HM. destruct HM as [M0 M1].
  remember (heads_min ins) as m eqn:Em.
  destruct (N.eqb_spec m 0) as [E0|E0]; [discriminate|].
  destruct (M1 E0) as [Hlb [Hmin Hex]].
  destruct (take_newest m ins) as [w ins'] eqn:ET.
  destruct (take_newest_spec lb m ins w ins' Hs Hmin Hlb ET) as [T1 [T2 [T3 [T4 T5]]]].
  specialize (T5 Hex).
  destruct (commit <? m); [apply (IH ins' m); [assumption|lia]|].
  destruct w; [|apply (IH ins' m); [assumption|lia]].
  destruct (enc_page s lock commit prev m) as [e|].
  - intros Hc. inversion Hc. exact (enc_err_code_not_fuel e H0).
  - specialize (IH ins' m m T3 ltac:(lia)).
    destruct (merge_loop fuel s lock commit ins' m); [discriminate|]. intros Hc. apply IH. exact Hc.
Qed.

(** ---- Compactor.Compact -------------------------------------------------------------- *)

(** commit of the last file ([prev] for the empty list) *)
Definition final_commit (prev : N) (fs : list ltx) : N := fold_left (fun _ f => f_commit f) fs prev.

Lemma last_final f : forall tl x, f_commit (last (f :: tl) x) = final_commit (f_commit f) tl.
Proof.
  intros tl. revert f. induction tl as [|g tl IH]; intros f x; [reflexivity|].
  change (last (f :: g :: tl) x) with (last (g :: tl) x). rewrite (IH g x). reflexivity.
Qed.

Definition wf_file (lock : N) (f : ltx) : Prop :=
  sorted_gt 0 (f_pages f) /\
  (forall p, f_commit f < p -> pm_get p (f_pages f) = None) /\
  pm_get lock (f_pages f) = None.

Lemma compact_spec first rest c :
  let fs := first :: rest in
  Forall (fun f => sorted_gt 0 (f_pages f)) fs ->
  compact fs = Ok c ->
  f_ps c = f_ps first /\ f_min c = f_min first /\
  f_max c = f_max (last fs first) /\ f_ts c = f_ts (last fs first) /\
  f_commit c = final_commit (f_commit first) rest /\ 1 <= f_commit c /\
  sorted_gt 0 (f_pages c) /\
  (forall p, pm_get p (f_pages c) = if p <=? f_commit c then newest p (map f_pages fs) else None) /\
  pm_get (lockPgno (f_ps first)) (f_pages c) = None.
Proof.
  intros fs Hs H. subst fs. unfold compact in H.
  destruct (forallb hdr_valid (first :: rest)); cbn [negb] in H; [|discriminate].
  destruct (check_pairs first rest); [discriminate|].
  assert (Hs' : Forall (sorted_gt 0) (map f_pages (first :: rest))).
  { clear -Hs. induction Hs; simpl; constructor; assumption. }
  assert (HL : last (first :: rest) first = last (first :: rest) first) by reflexivity.
  pose proof (last_final first rest first) as HF.
  remember (last (first :: rest) first) as lst eqn:El.
  match type of H with context [merge_loop ?a ?b ?c ?d ?e ?f] =>
    destruct (merge_loop a b c d e f) as [pgs|] eqn:EM end; [|discriminate].
  destruct (enc_close_ok (f_commit lst)) eqn:EC; [|discriminate].
  inversion H; subst c; clear H. cbn [f_ps f_min f_max f_ts f_commit f_pages].
  rewrite HF in *.
  destruct (merge_loop_spec _ _ _ _ _ 0 0 pgs Hs' (PeanoNat.Nat.lt_succ_diag_r _) EM) as [M1 [M2 M3]].
  split; [reflexivity|]. split; [reflexivity|]. split; [reflexivity|]. split; [reflexivity|].
  split; [reflexivity|]. split.
  { unfold enc_close_ok in EC.
    destruct (N.eqb_spec (final_commit (f_commit first) rest) 0); [discriminate|lia]. }
  split; [assumption|]. split; [exact M2|].
  destruct (pm_get (lockPgno (f_ps first)) pgs) eqn:E; [|reflexivity].
  exfalso. apply (M3 (lockPgno (f_ps first))); [congruence|reflexivity].
Qed.

(** the compactor never fails for lack of fuel *)
Lemma compact_fuel fs : Forall (fun f => sorted_gt 0 (f_pages f)) fs -> compact fs <> Err E_FUEL.
Proof.
  intros Hs. unfold compact. destruct fs as [|first rest]; [discriminate|].
  destruct (forallb hdr_valid (first :: rest)); cbn [negb]; [|discriminate].
  destruct (check_pairs first rest) as [e|] eqn:EC.
  { clear -EC. revert first EC. induction rest as [|g tl IH]; intros first EC; simpl in EC; [discriminate|].
    destruct (negb (f_ps first =? f_ps g)); [inversion EC; discriminate|].
    destruct (negb (is_contiguous (f_max first) (f_min g) (f_max g))); [inversion EC; discriminate|].
    apply (IH g). assumption. }
  assert (Hs' : Forall (sorted_gt 0) (map f_pages (first :: rest))).
  { clear -Hs. induction Hs; simpl; constructor; assumption. }
  remember (last (first :: rest) first) as lst eqn:El.
  pose proof (merge_loop_fuel (is_snapshot first) (lockPgno (f_ps first)) (f_commit lst)
                (S (total_len (map f_pages (first :: rest)))) _ 0 0 Hs' (PeanoNat.Nat.lt_succ_diag_r _)) as HF.
  destruct (merge_loop (S (total_len (map f_pages (first :: rest)))) (is_snapshot first)
                       (lockPgno (f_ps first)) (f_commit lst) (map f_pages (first :: rest)) 0) as [pgs|e];
    [|congruence].
  destruct (enc_close_ok (f_commit lst)); discriminate.
Qed.

(** ---- sequential application ----------------------------------------------------------- *)

Definition growth_closed (lock prev : N) (f : ltx) : Prop :=
  forall p, prev < p <= f_commit f -> p <> lock -> pm_get p (f_pages f) <> None.

Fixpoint gc_chain (lock prev : N) (fs : list ltx) : Prop :=
  match fs with
  | [] => True
  | f :: tl => growth_closed lock prev f /\ gc_chain lock (f_commit f) tl
  end.

Lemma gc_covers lock : forall tl prev p,
  gc_chain lock prev tl -> prev < p <= final_commit prev tl -> p <> lock ->
  newest p (map f_pages tl) <> None.
Proof.
  induction tl as [|g tl IH]; intros prev p Hg Hp Hl; simpl in *; [lia|].
  destruct Hg as [G1 G2]. fold (final_commit (f_commit g) tl) in Hp.
  destruct (N.le_gt_cases p (f_commit g)).
  - specialize (G1 p ltac:(lia) Hl). destruct (newest p (map f_pages tl)); [discriminate|assumption].
  - specialize (IH (f_commit g) p G2 ltac:(lia) Hl).
    destruct (newest p (map f_pages tl)); [discriminate|contradiction].
Qed.

Lemma img_get_out d p : ~ (1 <= p <= isz d) -> img_get d p = zero_page.
Proof.
  intros H. unfold img_get. destruct (N.leb_spec 1 p); destruct (N.leb_spec p (isz d)); simpl; try reflexivity. lia.
Qed.

Lemma img_get_apply d f p :
  img_get (apply d f) p =
  if (1 <=? p) && (p <=? f_commit f)
  then match pm_get p (f_pages f) with Some c => c | None => img_get d p end
  else zero_page.
Proof. reflexivity. Qed.

Lemma isz_apply_all fs : forall d, isz (apply_all d fs) = final_commit (isz d) fs.
Proof. induction fs as [|f tl IH]; intros d; [reflexivity|]. unfold apply_all. simpl. apply (IH (apply d f)). Qed.

Lemma apply_lock_zero lock d f :
  img_get d lock = zero_page -> pm_get lock (f_pages f) = None -> img_get (apply d f) lock = zero_page.
Proof.
  intros H1 H2. rewrite img_get_apply, H2, H1. destruct ((1 <=? lock) && (lock <=? f_commit f)); reflexivity.
Qed.

Lemma seq_spec lock : forall fs d,
  Forall (wf_file lock) fs -> gc_chain lock (isz d) fs -> img_get d lock = zero_page ->
  forall p, 1 <= p <= final_commit (isz d) fs ->
  img_get (apply_all d fs) p =
  match newest p (map f_pages fs) with Some c => c | None => img_get d p end.
Proof.
  induction fs as [|f tl IH]; intros d Hw Hg Hz p Hp; [reflexivity|].
  inversion Hw as [|? ? [W1 [W2 W3]] Wt]; subst. destruct Hg as [G1 G2].
  change (apply_all d (f :: tl)) with (apply_all (apply d f) tl).
  assert (Hz' : img_get (apply d f) lock = zero_page) by (apply apply_lock_zero; assumption).
  change (final_commit (isz d) (f :: tl)) with (final_commit (isz (apply d f)) tl) in Hp.
  rewrite (IH (apply d f) Wt G2 Hz' p Hp). simpl.
  destruct (newest p (map f_pages tl)) eqn:EN; [reflexivity|].
  rewrite img_get_apply.
  destruct (N.leb_spec 1 p); [|lia]. destruct (N.leb_spec p (f_commit f)); simpl; [reflexivity|].
  rewrite (W2 p) by lia.
  destruct (N.eq_dec p lock) as [->|Hne]; [symmetry; assumption|].
  exfalso. apply (gc_covers lock tl (f_commit f) p G2); [simpl in Hp; lia|assumption|assumption].
Qed.

(** ---- compact_equiv ------------------------------------------------------------------------ *)

Theorem compact_equiv first rest d c :
  let fs := first :: rest in
  let lock := lockPgno (f_ps first) in
  Forall (wf_file lock) fs ->
  gc_chain lock (isz d) fs ->
  img_get d lock = zero_page ->
  compact fs = Ok c ->
  img_eq (apply d c) (apply_all d fs) /\
  f_ts c = f_ts (last fs first) /\ f_commit c = f_commit (last fs first) /\
  f_min c = f_min first /\ f_max c = f_max (last fs first) /\ f_ps c = f_ps first.
Proof.
  intros fs lock Hw Hg Hz H.
  assert (Hs : Forall (fun f => sorted_gt 0 (f_pages f)) fs).
  { clear -Hw. induction Hw as [|? ? [? _] ? IH]; constructor; assumption. }
  destruct (compact_spec first rest c Hs H) as [C1 [C2 [C3 [C4 [C5 [C6 [C7 [C8 C9]]]]]]]].
  split; [|repeat split; try assumption; unfold fs; rewrite last_final; assumption].
  assert (Hsz : isz (apply_all d fs) = f_commit c).
  { rewrite isz_apply_all. rewrite C5. reflexivity. }
  split; [simpl; symmetry; assumption|].
  intros p. destruct (N.le_gt_cases 1 p) as [H1|H1]; [destruct (N.le_gt_cases p (f_commit c)) as [H2|H2]|].
  - rewrite (seq_spec lock fs d Hw Hg Hz p); [|change (final_commit (isz d) fs) with (final_commit (f_commit first) rest); lia].
    rewrite img_get_apply. destruct (N.leb_spec 1 p); [|lia]. destruct (N.leb_spec p (f_commit c)); [|lia]. simpl.
    rewrite C8. destruct (N.leb_spec p (f_commit c)); [|lia]. reflexivity.
  - rewrite !img_get_out; [reflexivity|rewrite Hsz; lia|simpl; lia].
  - rewrite !img_get_out; [reflexivity|lia|lia].
Qed.

(** hypotheses of compact_equiv are satisfiable by a non-trivial state: a
    3-page base, a growing and a shrinking file *)
Example compact_equiv_example :
  let d := img_of_pages 3 [(1, 11); (2, 12); (3, 13)] in
  let f1 := mkLtx 512 5 5 5 10 [(2, 22); (4, 24); (5, 25)] in
  let f2 := mkLtx 512 6 6 2 11 [(1, 31)] in
  let f3 := mkLtx 512 7 7 4 12 [(3, 43); (4, 44)] in
  exists c, compact [f1; f2; f3] = Ok c /\
            Forall (wf_file (lockPgno 512)) [f1; f2; f3] /\ gc_chain (lockPgno 512) (isz d) [f1; f2; f3] /\
            f_pages c = [(1, 31); (2, 22); (3, 43); (4, 44)].
Proof.
  eexists. split; [vm_compute; reflexivity|]. split.
  - repeat constructor; simpl; try lia; intros p Hp;
      repeat (match goal with |- context [N.eqb ?a ?b] => destruct (N.eqb_spec a b); [lia|] end); reflexivity.
  - split; [|reflexivity]. simpl. unfold growth_closed. simpl. repeat split; intros p Hp Hl;
      repeat (match goal with |- context [N.eqb ?a ?b] => destruct (N.eqb_spec a b); [discriminate|] end); lia.
Qed.

(** without growth-closedness the statement is false: grow, shrink, grow
    without the growth page; the compacted file resurrects page 3 of the
    first input where sequential application leaves an empty page *)
Theorem compact_needs_growth_closed_refuted :
  exists d first rest c,
    let fs := first :: rest in
    let lock := lockPgno (f_ps first) in
    Forall (wf_file lock) fs /\ img_get d lock = zero_page /\
    compact fs = Ok c /\ ~ img_eq (apply d c) (apply_all d fs).
Proof.
  exists (img_of_pages 2 [(1, 11); (2, 12)]),
         (mkLtx 512 5 5 3 10 [(3, 33)]),
         [mkLtx 512 6 6 2 11 [(1, 14)]; mkLtx 512 7 7 3 12 [(1, 15)]],
         (mkLtx 512 5 7 3 12 [(1, 15); (3, 33)]).
  split.
  { repeat constructor; simpl; try lia; intros p Hp;
      repeat (match goal with |- context [N.eqb ?a ?b] => destruct (N.eqb_spec a b); [lia|] end); reflexivity. }
  split; [reflexivity|]. split; [vm_compute; reflexivity|].
  intros [_ H]. specialize (H 3). vm_compute in H. discriminate.
Qed.

(** ---- the lock page ---------------------------------------------------------------------------- *)

Lemma newest_some_in p : forall fs,
  newest p (map f_pages fs) <> None -> exists f, In f fs /\ pm_get p (f_pages f) <> None.
Proof.
  induction fs as [|f tl IH]; simpl; intros Hp; [congruence|].
  destruct (newest p (map f_pages tl)) eqn:E.
  - destruct IH as [g [Hg1 Hg2]]; [congruence|]. exists g. split; [right; assumption|assumption].
  - exists f. split; [left; reflexivity|assumption].
Qed.

(** compact_never_adds_lock: the output never holds the lock page, and holds
    no page that no input holds *)
Theorem compact_never_adds_lock first rest c :
  let fs := first :: rest in
  Forall (fun f => sorted_gt 0 (f_pages f)) fs ->
  compact fs = Ok c ->
  pm_get (lockPgno (f_ps first)) (f_pages c) = None /\
  forall p, pm_get p (f_pages c) <> None -> exists f, In f fs /\ pm_get p (f_pages f) <> None.
Proof.
  intros fs Hs H. destruct (compact_spec first rest c Hs H) as [_ [_ [_ [_ [_ [_ [_ [C8 C9]]]]]]]].
  split; [assumption|]. intros p Hp. rewrite C8 in Hp. destruct (p <=? f_commit c); [|congruence].
  apply newest_some_in. exact Hp.
Qed.

(** ---- what the encoder accepted is well-formed ---------------------------------------------------- *)

Lemma enc_run_sorted s lock c : forall (l : pages) prev,
  enc_run s lock c prev (map fst l) = None -> (prev = 0 -> True) ->
  sorted_gt prev l \/ (s = true /\ prev = 0 /\ sorted_gt 0 l).
Proof.
  induction l as [|[q v] tl IH]; intros prev H _; simpl in *; [left; exact I|].
  destruct (enc_page s lock c prev q) eqn:EP; [discriminate|].
  apply enc_page_ok in EP. destruct EP as [E1 [E2 [E3 E4]]].
  destruct (IH q H (fun _ => I)) as [IH1|[_ [Hq _]]]; [|lia].
  destruct E4 as [E4|[Es [Ep Eq]]].
  - left. split; assumption.
  - right. split; [assumption|]. split; [assumption|]. split; [lia|assumption].
Qed.

Lemma enc_run_bounds s lock c : forall (l : pages) prev p,
  enc_run s lock c prev (map fst l) = None -> pm_get p l <> None -> p <= c /\ p <> lock.
Proof.
  induction l as [|[q v] tl IH]; intros prev p H Hp; simpl in *; [congruence|].
  destruct (enc_page s lock c prev q) eqn:EP; [discriminate|].
  apply enc_page_ok in EP. destruct (N.eqb_spec p q) as [->|Hne]; [tauto|].
  apply (IH q p H Hp).
Qed.

(** every file the encoder accepted satisfies the premise [wf_file] of compact_equiv *)
Lemma encode_ok_wf f : encode_ok f = true -> wf_file (lockPgno (f_ps f)) f.
Proof.
  unfold encode_ok. rewrite !andb_true_iff. intros [[_ H] _].
  destruct (enc_run (is_snapshot f) (lockPgno (f_ps f)) (f_commit f) 0 (f_keys f)) eqn:E; [discriminate|].
  unfold f_keys, pm_keys in E. split.
  - destruct (enc_run_sorted _ _ _ _ _ E (fun _ => I)) as [?|[_ [_ ?]]]; assumption.
  - split.
    + intros p Hp. destruct (pm_get p (f_pages f)) eqn:G; [|reflexivity].
      exfalso. destruct (enc_run_bounds _ _ _ _ _ p E); [congruence|lia].
    + destruct (pm_get (lockPgno (f_ps f)) (f_pages f)) eqn:G; [|reflexivity].
      exfalso. destruct (enc_run_bounds _ _ _ _ _ (lockPgno (f_ps f)) E); [congruence|congruence].
Qed.

(** ---- plans: any mix of levels restores to the same image ----------------------------------------- *)

Lemma apply_img_eq a b f : img_eq a b -> img_eq (apply a f) (apply b f).
Proof.
  intros [H1 H2]. split; [reflexivity|]. intros p. rewrite !img_get_apply, H2. reflexivity.
Qed.

Lemma apply_all_img_eq fs : forall a b, img_eq a b -> img_eq (apply_all a fs) (apply_all b fs).
Proof.
  induction fs as [|f tl IH]; intros a b H; [exact H|].
  change (img_eq (apply_all (apply a f) tl) (apply_all (apply b f) tl)). apply IH. apply apply_img_eq. exact H.
Qed.

Lemma apply_all_app d a b : apply_all d (a ++ b) = apply_all (apply_all d a) b.
Proof. unfold apply_all. apply fold_left_app. Qed.

Lemma final_commit_app prev a b : final_commit prev (a ++ b) = final_commit (final_commit prev a) b.
Proof. unfold final_commit. apply fold_left_app. Qed.

Lemma gc_chain_app lock : forall a prev b,
  gc_chain lock prev (a ++ b) <-> gc_chain lock prev a /\ gc_chain lock (final_commit prev a) b.
Proof.
  induction a as [|f tl IH]; intros prev b; simpl; [tauto|].
  rewrite IH. fold (final_commit (f_commit f) tl). tauto.
Qed.

Lemma apply_all_lock_zero lock : forall fs d,
  Forall (wf_file lock) fs -> img_get d lock = zero_page -> img_get (apply_all d fs) lock = zero_page.
Proof.
  induction fs as [|f tl IH]; intros d Hw Hz; [exact Hz|].
  inversion Hw as [|? ? [_ [_ W3]] Wt]; subst.
  change (apply_all d (f :: tl)) with (apply_all (apply d f) tl). apply IH; [assumption|].
  apply apply_lock_zero; assumption.
Qed.

Lemma img_empty_get p : img_get img_empty p = zero_page.
Proof. unfold img_get. simpl. destruct ((1 <=? p) && (p <=? 0)); reflexivity. Qed.

(** one compaction step of a store: a non-empty run of files of the chain is
    replaced by the compactor's output *)
Definition compacts1 (lock : N) (piece : list ltx) (c : ltx) : Prop :=
  exists first rest, piece = first :: rest /\ lockPgno (f_ps first) = lock /\ compact piece = Ok c.

(** growth-closedness and well-formedness are preserved by compaction *)
Lemma compacts1_props lock prev piece c :
  compacts1 lock piece c -> Forall (wf_file lock) piece -> gc_chain lock prev piece ->
  wf_file lock c /\ growth_closed lock prev c /\ f_commit c = final_commit prev piece /\
  lockPgno (f_ps c) = lock.
Proof.
  intros [first [rest [-> [Hl H]]]] Hw Hg.
  assert (Hs : Forall (fun f => sorted_gt 0 (f_pages f)) (first :: rest)).
  { clear -Hw. induction Hw as [|? ? [? _] ? IH]; constructor; assumption. }
  destruct (compact_spec first rest c Hs H) as [C1 [C2 [C3 [C4 [C5 [C6 [C7 [C8 C9]]]]]]]].
  split; [|split; [|split]].
  - split; [assumption|]. split; [|rewrite <- Hl; assumption].
    intros p Hp. rewrite C8. destruct (N.leb_spec p (f_commit c)); [lia|reflexivity].
  - intros p Hp Hne. rewrite C8. destruct (N.leb_spec p (f_commit c)); [|lia].
    apply (gc_covers lock (first :: rest) prev p Hg); [|assumption].
    change (final_commit prev (first :: rest)) with (final_commit (f_commit first) rest). lia.
  - exact C5.
  - rewrite C1. exact Hl.
Qed.

Lemma apply_all_pieces lock : forall pieces cs,
  Forall2 (compacts1 lock) pieces cs ->
  forall d, Forall (wf_file lock) (concat pieces) -> gc_chain lock (isz d) (concat pieces) ->
  img_get d lock = zero_page ->
  img_eq (apply_all d cs) (apply_all d (concat pieces)) /\
  Forall (wf_file lock) cs /\ gc_chain lock (isz d) cs /\
  Forall (fun c => lockPgno (f_ps c) = lock) cs.
Proof.
  induction 1 as [|piece c ps cs' Hc Hrest IH]; intros d Hw Hg Hz.
  - simpl. split; [apply img_eq_refl|]. split; [constructor|]. split; [exact I|constructor].
  - simpl in Hw, Hg. apply Forall_app in Hw. destruct Hw as [Hw1 Hw2].
    apply gc_chain_app in Hg. destruct Hg as [Hg1 Hg2].
    destruct (compacts1_props lock (isz d) piece c Hc Hw1 Hg1) as [P1 [P2 [P3 P4]]].
    destruct Hc as [first [rest [-> [Hl Hcomp]]]].
    assert (Heq : img_eq (apply d c) (apply_all d (first :: rest))).
    { subst lock. apply (compact_equiv first rest d c); assumption. }
    assert (Hz1 : img_get (apply d c) lock = zero_page).
    { apply apply_lock_zero; [assumption|]. destruct P1 as [_ [_ ?]]. assumption. }
    assert (Hg2' : gc_chain lock (isz (apply d c)) (concat ps)).
    { simpl. rewrite P3. exact Hg2. }
    destruct (IH (apply d c) Hw2 Hg2' Hz1) as [I1 [I2 [I3 I4]]].
    split; [|split; [constructor; assumption|split; [|constructor; assumption]]].
    + change (apply_all d (c :: cs')) with (apply_all (apply d c) cs').
      change (concat ((first :: rest) :: ps)) with ((first :: rest) ++ concat ps).
      rewrite (apply_all_app d (first :: rest) (concat ps)).
      apply (img_eq_trans _ _ _ I1). apply apply_all_img_eq. exact Heq.
    + simpl. split; [assumption|]. exact I3.
Qed.

(** plan_independent (file level): two chains obtained from the same level-0
    chain by compacting runs of it — any mix of levels, including a snapshot
    [1..p] — restore to the same database.  (With C08, which shows every plan of
    CalcRestorePlan is such a chain, and by iterating the statement for
    compactions of compacted files.) *)
Theorem plan_independent lock l0s pieces1 cs1 pieces2 cs2 r1 r2 :
  concat pieces1 = l0s -> concat pieces2 = l0s ->
  Forall2 (compacts1 lock) pieces1 cs1 -> Forall2 (compacts1 lock) pieces2 cs2 ->
  Forall (wf_file lock) l0s -> gc_chain lock 0 l0s ->
  restore cs1 = Ok r1 -> restore cs2 = Ok r2 ->
  img_eq r1 r2.
Proof.
  intros E1 E2 H1 H2 Hw Hg R1 R2.
  assert (Hz : img_get img_empty lock = zero_page) by apply img_empty_get.
  assert (K : forall pieces cs r, concat pieces = l0s -> Forall2 (compacts1 lock) pieces cs ->
                                  restore cs = Ok r -> img_eq r (apply_all img_empty l0s)).
  { intros pieces cs r E H R.
    assert (Hw' : Forall (wf_file lock) (concat pieces)) by (rewrite E; exact Hw).
    assert (Hg' : gc_chain lock (isz img_empty) (concat pieces)) by (rewrite E; exact Hg).
    rewrite <- E.
    destruct (apply_all_pieces lock pieces cs H img_empty Hw' Hg' Hz) as [A1 [A2 [A3 A4]]].
    unfold restore in R. destruct (compact cs) as [c|] eqn:EC; [|discriminate].
    apply decode_is_apply in R.
    destruct cs as [|first rest]; [discriminate|].
    assert (L1 : lockPgno (f_ps first) = lock) by (inversion A4; assumption).
    pose proof (compact_equiv first rest img_empty c) as CE. cbv zeta in CE. rewrite L1 in CE.
    destruct (CE A2 A3 Hz EC) as [CE1 _].
    apply (img_eq_trans _ _ _ R). apply (img_eq_trans _ _ _ CE1). exact A1. }
  apply (img_eq_trans _ (apply_all img_empty l0s)).
  - apply (K pieces1 cs1); assumption.
  - apply img_eq_sym. apply (K pieces2 cs2); assumption.
Qed.

(** a snapshot (or any compacted file) decodes to the in-order application of
    the level-0 files it covers *)
Corollary snapshot_equiv first rest c r :
  let fs := first :: rest in
  let lock := lockPgno (f_ps first) in
  Forall (wf_file lock) fs -> gc_chain lock 0 fs ->
  compact fs = Ok c -> decode_db c = Ok r ->
  img_eq r (apply_all img_empty fs).
Proof.
  intros fs lock Hw Hg Hc Hd.
  destruct (compact_equiv first rest img_empty c Hw Hg (img_empty_get _) Hc) as [CE _].
  apply decode_is_apply in Hd. apply (img_eq_trans _ _ _ Hd). exact CE.
Qed.

(** ---- TXID ranges ------------------------------------------------------------------------------------ *)

Fixpoint txid_chain (prevMax : N) (fs : list ltx) : Prop :=
  match fs with
  | [] => True
  | f :: tl => f_min f = prevMax + 1 /\ f_min f <= f_max f /\ txid_chain (f_max f) tl
  end.

(** a strict chain is what IsContiguous accepts *)
Lemma txid_chain_check first : forall rest,
  txid_chain (f_max first) rest -> Forall (fun f => f_ps f = f_ps first) rest ->
  check_pairs first rest = None.
Proof.
  intros rest. revert first. induction rest as [|g tl IH]; intros first Ht Hp; simpl; [reflexivity|].
  destruct Ht as [T1 [T2 T3]]. inversion Hp as [|? ? P1 P2]; subst.
  rewrite P1, N.eqb_refl. simpl. unfold is_contiguous.
  destruct (N.leb_spec (f_min g) (f_max first + 1)); [|lia].
  destruct (N.ltb_spec (f_max first) (f_max g)); [|lia]. simpl.
  apply IH; [assumption|]. clear -P1 P2. induction P2; constructor; [congruence|assumption].
Qed.

(** the output range first.min..last.max is exactly the union of the input ranges *)
Lemma txid_chain_union : forall fs prevMax t,
  fs <> [] -> txid_chain prevMax fs ->
  (prevMax + 1 <= t <= fold_left (fun _ f => f_max f) fs prevMax <->
   exists f, In f fs /\ f_min f <= t <= f_max f).
Proof.
  induction fs as [|f tl IH]; intros prevMax t Hne Ht; [contradiction|].
  destruct Ht as [T1 [T2 T3]]. simpl fold_left.
  destruct tl as [|g tl'].
  - simpl. split.
    + intros H. exists f. split; [left; reflexivity|lia].
    + intros [f' [[<-|[]] H]]. lia.
  - specialize (IH (f_max f) t ltac:(discriminate) T3).
    assert (Hmono : f_max f <= fold_left (fun _ f0 => f_max f0) (g :: tl') (f_max f)).
    { clear -T3. revert T3. generalize (f_max f) as m. generalize (g :: tl') as l.
      induction l as [|h l IHl]; intros m Hc; simpl; [lia|].
      destruct Hc as [C1 [C2 C3]]. specialize (IHl (f_max h) C3). lia. }
    split.
    + intros H. destruct (N.le_gt_cases t (f_max f)).
      * exists f. split; [left; reflexivity|lia].
      * destruct (proj1 IH ltac:(lia)) as [f' [Hin Hr]]. exists f'. split; [right; assumption|assumption].
    + intros [f' [[<-|Hin] Hr]]; [lia|].
      destruct (proj2 IH (ex_intro _ f' (conj Hin Hr))). lia.
Qed.

(** ---- associativity --------------------------------------------------------------------------------- *)

(** compact_assoc_partial: compacting compacted pieces and compacting the
    originals give files with the same effect on EVERY base image (same pages,
    same size) — which is all a restore or a further compaction can observe of
    the page block.
    Missing for the full statement [compact cs = compact (concat pieces)]:
    (1) syntactic equality of the two page lists (both are strictly sorted and
    agree on every lookup, so it needs only the extensionality lemma for sorted
    association lists), (2) equality of MinTXID/MaxTXID/Timestamp (needs
    [last (concat pieces)] = last of the last piece), (3) that one compaction
    succeeds iff the other does.  The correspondence run checks all three on
    the real compactor (harness oracle "compaction-not-associative"). *)
Theorem compact_assoc_partial lock pieces cs c c' d :
  Forall2 (compacts1 lock) pieces cs ->
  Forall (wf_file lock) (concat pieces) -> gc_chain lock (isz d) (concat pieces) ->
  img_get d lock = zero_page ->
  compact cs = Ok c -> compact (concat pieces) = Ok c' ->
  img_eq (apply d c) (apply d c') /\ f_commit c = f_commit c'.
Proof.
  intros H Hw Hg Hz Hc Hc'.
  destruct (apply_all_pieces lock pieces cs H d Hw Hg Hz) as [A1 [A2 [A3 A4]]].
  destruct cs as [|c1 crest]; [discriminate|].
  assert (L1 : lockPgno (f_ps c1) = lock) by (inversion A4; assumption).
  pose proof (compact_equiv c1 crest d c) as CE. cbv zeta in CE. rewrite L1 in CE.
  destruct (CE A2 A3 Hz Hc) as [CE1 _].
  destruct (concat pieces) as [|first rest] eqn:EF; [discriminate|].
  assert (L2 : lockPgno (f_ps first) = lock).
  { inversion H as [|piece ? ps ? [f0 [r0 [-> [Hl _]]]] _]; subst. simpl in EF. inversion EF; subst. exact Hl. }
  pose proof (compact_equiv first rest d c') as CE'. cbv zeta in CE'. rewrite L2 in CE'.
  destruct (CE' Hw Hg Hz Hc') as [CE2 _].
  assert (E : img_eq (apply d c) (apply d c')).
  { apply (img_eq_trans _ _ _ CE1). apply (img_eq_trans _ _ _ A1). apply img_eq_sym. exact CE2. }
  split; [exact E|]. destruct E as [E1 _]. exact E1.
Qed.
