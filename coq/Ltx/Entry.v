(** [sx -> sx] entry points of the Ltx layer for the correspondence runner.

    file  = [ps; min; max; commit; ts; [[pgno; content] ...]]
    image = [size; [[pgno; content] ...]]   (pages not listed are zero) *)
From Coq Require Import List NArith ZArith Bool.
From LS Require Import Base.Sx Base.PMap Ltx.File Ltx.Snapshot Ltx.Apply Ltx.Compact.
Import ListNotations.
Open Scope N_scope.

Definition sx_pair (kv : N * N) : sx := SL [sxN (fst kv); sxN (snd kv)].
Definition sx_pairs (l : list (N * N)) : sx := SL (map sx_pair l).
Definition as_pairs (x : sx) : list (N * N) := map (fun e => (asN (nthx 0 e), asN (nthx 1 e))) (asL x).

Definition as_file (x : sx) : ltx :=
  mkLtx (asN (nthx 0 x)) (asN (nthx 1 x)) (asN (nthx 2 x)) (asN (nthx 3 x)) (asN (nthx 4 x))
        (as_pairs (nthx 5 x)).
Definition sx_file (f : ltx) : sx :=
  SL [sxN (f_ps f); sxN (f_min f); sxN (f_max f); sxN (f_commit f); sxN (f_ts f); sx_pairs (f_pages f)].
Definition as_files (x : sx) : list ltx := map as_file (asL x).

Definition as_image (x : sx) : image := img_of_pages (asN (nthx 0 x)) (as_pairs (nthx 1 x)).

(** canonical listing of an image over a finite support: the non-zero pages
    among [support], sorted, without duplicates *)
Fixpoint dedup_sorted (l : list N) : list N :=
  match l with
  | [] => []
  | x :: tl => match tl with
               | y :: _ => if x =? y then dedup_sorted tl else x :: dedup_sorted tl
               | [] => [x]
               end
  end.
Definition img_listing (d : image) (support : list N) : list (N * N) :=
  filter (fun kv => negb (snd kv =? zero_page))
         (map (fun p => (p, img_get d p)) (dedup_sorted (sortN support))).
Definition sx_image (d : image) (support : list N) : sx :=
  SL [sxN (isz d); sx_pairs (img_listing d support)].

Definition support_of (base : list (N * N)) (fs : list ltx) : list N :=
  map fst base ++ flat_map f_keys fs.

(** ---- model entries -------------------------------------------------- *)

(** input [files]; output [status; file]  (status 0 = ok, else the error class;
    file = [] on error) *)
Definition ltx_compact (x : sx) : sx :=
  match compact (as_files (nthx 0 x)) with
  | Ok c => SL [sxN 0; sx_file c]
  | Err e => SL [sxN e; SL []]
  end.

(** input [base image; files]; output image = files applied to base in order *)
Definition ltx_apply (x : sx) : sx :=
  let base := nthx 0 x in
  let fs := as_files (nthx 1 x) in
  sx_image (apply_all (as_image base) fs) (support_of (as_pairs (nthx 1 base)) fs).

(** input [files]; output [status; image]: Replica.Restore = compactor piped
    into DecodeDatabaseTo *)
Definition ltx_restore (x : sx) : sx :=
  let fs := as_files (nthx 0 x) in
  match restore fs with
  | Ok d => SL [sxN 0; sx_image d (lockPgno (f_ps (hd (mkLtx 0 0 0 0 0 []) fs)) :: support_of [] fs)]
  | Err e => SL [sxN e; SL []]
  end.

(** ---- spec-level oracles ------------------------------------------------ *)

(** growth-closed: the file holds every non-lock page in (prev, commit] *)
Definition growth_closed_b (lock prev : N) (f : ltx) : bool :=
  let fill := growth_fill lock prev (f_commit f) (f_keys f) in
  match fill with [] => true | _ => false end.
Fixpoint gc_chain_b (lock prev : N) (fs : list ltx) : bool :=
  match fs with
  | [] => true
  | f :: tl => growth_closed_b lock prev f && gc_chain_b lock (f_commit f) tl
  end.
Fixpoint txid_chain_b (prevMax : N) (fs : list ltx) : bool :=
  match fs with
  | [] => true
  | f :: tl => (f_min f =? prevMax + 1) && (f_min f <=? f_max f) && txid_chain_b (f_max f) tl
  end.

Definition img_eq_on (support : list N) (a b : image) : bool :=
  (isz a =? isz b) && forallb (fun p => img_get a p =? img_get b p) support.

(** the statement of C06 (file level) evaluated on the implementation's output:
    input [base image; files; compacted file as decoded from the real compactor's output]
    1 iff  applying the compacted file to the base gives the image that
    applying the inputs in order gives, and the header carries the newest
    input's timestamp and commit and the TXID range first.min..last.max *)
Definition equiv_raw (x : sx) : bool :=
  let base := nthx 0 x in
  let d := as_image base in
  let fs := as_files (nthx 1 x) in
  let c := as_file (nthx 2 x) in
  match fs with
  | [] => false
  | first :: _ =>
      let lst := last fs first in
      let lock := lockPgno (f_ps first) in
      img_eq_on (lock :: f_keys c ++ support_of (as_pairs (nthx 1 base)) fs)
                (apply d c) (apply_all d fs)
      && (f_ts c =? f_ts lst) && (f_commit c =? f_commit lst)
      && (f_min c =? f_min first) && (f_max c =? f_max lst) && (f_ps c =? f_ps first)
      && negb (memN lock (f_keys c))
  end.

(** premises of compact_equiv: strict TXID chain, growth-closed w.r.t. the base *)
Definition equiv_premises (x : sx) : bool :=
  let base := nthx 0 x in
  let fs := as_files (nthx 1 x) in
  match fs with
  | [] => false
  | first :: _ =>
      txid_chain_b (f_min first - 1) fs && gc_chain_b (lockPgno (f_ps first)) (asN (nthx 0 base)) fs
      && (img_get (as_image base) (lockPgno (f_ps first)) =? zero_page)
  end.

Definition ltx_compact_equiv_ok (x : sx) : sx := sxB (negb (equiv_premises x) || equiv_raw x).
Definition ltx_compact_equiv_raw (x : sx) : sx := SL [sxB (equiv_premises x); sxB (equiv_raw x)].

(** ---- C17 ------------------------------------------------------------------ *)

Definition sx_ranges (l : list (N * N)) : sx := sx_pairs l.

(** input [ps]; output LockPgno *)
Definition ltx_lock_pgno (x : sx) : sx := sxN (lockPgno (asN (nthx 0 x))).

(** input [ps; commit]; output [lock; page numbers writeLTXFromDB emits, as maximal runs] *)
Definition ltx_snapshot_pgnos (x : sx) : sx :=
  let ps := asN (nthx 0 x) in
  let commit := asN (nthx 1 x) in
  SL [sxN (lockPgno ps); sx_ranges (to_ranges (db_pgnos (lockPgno ps) commit))].

(** input [ps; prevCommit; commit; keys of the WAL page map];
    output page numbers writeLTXFromWAL emits, as maximal runs *)
Definition ltx_wal_pgnos (x : sx) : sx :=
  let ps := asN (nthx 0 x) in
  sx_ranges (to_ranges (wal_pgnos (lockPgno ps) (asN (nthx 1 x)) (asN (nthx 2 x)) (asNs (nthx 3 x)))).

(** the REAL writeLTXFromWAL (hook WriteLTXFromWALVerif) feeding a real encoder of
    a non-snapshot file: input [ps; prevCommit; commit; keys of the page map];
    output [status; emitted page numbers as runs] — status 0, or the class of the
    encoder's first rejection (then no runs) *)
Definition ltx_wal_encode (x : sx) : sx :=
  let lock := lockPgno (asN (nthx 0 x)) in
  let commit := asN (nthx 2 x) in
  let l := wal_pgnos lock (asN (nthx 1 x)) commit (asNs (nthx 3 x)) in
  match enc_run false lock commit 0 l with
  | None => SL [sxN 0; sx_ranges (to_ranges l)]
  | Some e => SL [sxN (enc_err_code e); SL []]
  end.

(** the REAL writeLTXFromDB (hook WriteLTXFromDBVerif): input [snapshot?; ps; commit];
    output [status; runs] *)
Definition ltx_db_encode (x : sx) : sx :=
  let lock := lockPgno (asN (nthx 1 x)) in
  let commit := asN (nthx 2 x) in
  let l := db_pgnos lock commit in
  match enc_run (asB (nthx 0 x)) lock commit 0 l with
  | None => SL [sxN 0; sx_ranges (to_ranges l)]
  | Some e => SL [sxN (enc_err_code e); SL []]
  end.

(** page CONTENT of a full-database encoding (REAL writeLTXFromDB through the hook,
    database file and WAL filled with self-describing pages):
    input [snapshot?; ps; commit; page map [[pgno; frame offset] ...]; probe page numbers]
    output [status; [[pgno; kind; offset] ...]] for the probes: kind 0 = page not in the
    file, 1 = bytes of the database file at [offset], 2 = bytes of the WAL at [offset] *)
Definition ltx_db_content (x : sx) : sx :=
  let ps := asN (nthx 1 x) in
  let commit := asN (nthx 2 x) in
  let pm := as_pairs (nthx 3 x) in
  let frames := db_content ps commit pm in
  match enc_run (asB (nthx 0 x)) (lockPgno ps) commit 0 (map fst frames) with
  | Some e => SL [sxN (enc_err_code e); SL []]
  | None =>
      SL [sxN 0;
          SL (map (fun pg => match pm_get pg frames with
                             | Some (k, off) => SL [sxN pg; sxN k; sxN off]
                             | None => SL [sxN pg; sxN 0; sxN 0]
                             end) (asNs (nthx 4 x)))]
  end.

(** input [snapshot?; ps; commit; prev; pgnos as runs]; output the encoder's verdict on
    the sequence: 0 accepted, else the error class of the first rejected page *)
Definition ltx_enc_run (x : sx) : sx :=
  match enc_run (asB (nthx 0 x)) (lockPgno (asN (nthx 1 x))) (asN (nthx 2 x)) (asN (nthx 3 x))
              (expand_runs (as_pairs (nthx 4 x))) with
  | None => sxN 0
  | Some e => sxN (enc_err_code e)
  end.

(** C17's statement about one replicated file, evaluated on the page-number
    runs observed in a real LTX file:
    input [ps; full?; prevCommit; commit; runs]
    1 iff runs are sorted and disjoint, within 1..commit, without the lock page,
    hold every non-lock page of (prevCommit, commit]; and, when [full?] (a file
    that must carry the whole database: snapshots, level-9 files, files with
    MinTXID = 1), are exactly [1..commit] minus the lock page *)
Fixpoint runs_sorted (prevHi : N) (rs : list (N * N)) : bool :=
  match rs with
  | [] => true
  | (lo, hi) :: tl => (prevHi + 1 <? lo) && (lo <=? hi) && runs_sorted hi tl
  end.
Definition runs_wf (rs : list (N * N)) : bool :=
  match rs with
  | [] => true
  | (lo, hi) :: tl => (1 <=? lo) && (lo <=? hi) && runs_sorted hi tl
  end.
(** every p in [a..b] other than lock is covered *)
Definition covers_interval (lock a b : N) (rs : list (N * N)) : bool :=
  if b <? a then true
  else
    let cov x y := (y <? x) || existsb (fun r => (fst r <=? x) && (y <=? snd r)) rs in
    if (a <=? lock) && (lock <=? b) then cov a (lock - 1) && cov (lock + 1) b
    else cov a b.

Definition ltx_file_ok (x : sx) : sx :=
  let ps := asN (nthx 0 x) in
  let full := asB (nthx 1 x) in
  let prev := asN (nthx 2 x) in
  let commit := asN (nthx 3 x) in
  let rs := as_pairs (nthx 4 x) in
  let lock := lockPgno ps in
  sxB (runs_wf rs
       && forallb (fun r => snd r <=? commit) rs
       && negb (in_ranges lock rs)
       && covers_interval lock (prev + 1) commit rs
       && (negb full || sx_eqb (sx_ranges rs) (sx_ranges (db_ranges lock commit)))).

(** spec-level oracle: [decode_lock_zero] (Properties/C17.v) evaluated on the output of a REAL
    Replica.Restore of a snapshot file around the lock page.
    input  [ps; commit; size of the restored file in pages (rounded down); 1 iff the file size is a
            whole number of pages; probes [[pgno; source kind; source id; restored kind; restored id] ...]]
            kind/id = the self-describing content of the page in the source database file and in the
            restored file (kind 3 id 0 = an all-zero page, kind 0 = beyond the end of the file)
    output 1 = size is the commit, the lock page is present and zero when commit reaches it, every
           other probed page up to the commit equals the source's;
           80 size differs, 81 lock page not zero, 82 a page differs *)
Definition ltx_restore_image_ok (x : sx) : sx :=
  let ps := asN (nthx 0 x) in
  let commit := asN (nthx 1 x) in
  let size := asN (nthx 2 x) in
  let whole := asB (nthx 3 x) in
  let probes := asL (nthx 4 x) in
  let lock := lockPgno ps in
  let bad_lock (p : sx) := (asN (nthx 0 p) =? lock) && (lock <=? commit)
                           && negb ((asN (nthx 3 p) =? 3) && (asN (nthx 4 p) =? 0)) in
  let bad_page (p : sx) := negb (asN (nthx 0 p) =? lock) && (asN (nthx 0 p) <=? commit)
                           && negb ((asN (nthx 1 p) =? asN (nthx 3 p)) && (asN (nthx 2 p) =? asN (nthx 4 p))) in
  sxN (if negb whole || negb (size =? commit) then 80
       else if existsb bad_lock probes then 81
       else if existsb bad_page probes then 82 else 1).
