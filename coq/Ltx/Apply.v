(** What an LTX file does to a database image.

    [apply] is sequential application, as replica.go applyLTXFile performs it
    (follow mode) and as "apply the level-0 files in order" means in C06:
    every page frame is written at [(pgno-1)*pageSize], then the file is
    truncated / zero-extended to [Commit] pages.  (applyLTXFile skips the
    truncation when Commit = 0; such files cannot be produced with
    litestream's header flags — [enc_close_ok] — so the case is outside the
    model; see [Compact.compact_commit_pos].)

    [decode_db] is ltx.Decoder.DecodeDatabaseTo: the file must be a snapshot
    (MinTXID = 1) holding pages 1..Commit consecutively without the lock page;
    a zero page is written at the lock page. *)
From Coq Require Import List NArith Bool Lia.
From LS Require Import Base.PMap Ltx.File Ltx.Snapshot.
Import ListNotations.
Open Scope N_scope.

Definition apply (d : image) (f : ltx) : image :=
  mkImg (f_commit f)
        (fun p => match pm_get p (f_pages f) with
                  | Some c => c
                  | None => img_get d p
                  end).

Definition apply_all (d : image) (fs : list ltx) : image := fold_left apply fs d.

(** DecodeDatabaseTo's loop, unrolled over the page frames the decoder
    delivers.  [pg] is the loop variable [pgno]; the result is the list of
    pages written to [w], in order.
      for pgno := 1; pgno <= commit; pgno++ {
        if pgno == lockPgno { write zero page }
        else { DecodePage (EOF is an error here); pageHeader.Pgno must equal pgno }
      }
      one more DecodePage must return io.EOF                                  *)
Definition E_DEC_NOT_SNAPSHOT : N := 20.
Definition E_DEC_PAGE : N := 21.       (* EOF before commit, or unexpected pgno *)
Definition E_DEC_TRAILING : N := 22.   (* "unexpected page %d after commit %d" *)

Fixpoint dec_loop (lock commit pg : N) (l : pages) : res pages :=
  match l with
  | [] =>
      if commit <? pg then Ok []
      else if (pg =? lock) && (commit <? pg + 1) then Ok [(pg, zero_page)]
      else Err E_DEC_PAGE
  | (q, c) :: tl =>
      if commit <? pg then Err E_DEC_TRAILING
      else if pg =? lock then
        (* zero page for the lock page, then the next iteration at pg+1 *)
        if commit <? pg + 1 then Err E_DEC_TRAILING
        else if q =? pg + 1 then
          match dec_loop lock commit (pg + 2) tl with
          | Ok out => Ok ((pg, zero_page) :: (q, c) :: out)
          | Err e => Err e
          end
        else Err E_DEC_PAGE
      else if q =? pg then
        match dec_loop lock commit (pg + 1) tl with
        | Ok out => Ok ((q, c) :: out)
        | Err e => Err e
        end
      else Err E_DEC_PAGE
  end.

Definition decode_db (f : ltx) : res image :=
  if negb (is_snapshot f) then Err E_DEC_NOT_SNAPSHOT
  else match dec_loop (lockPgno (f_ps f)) (f_commit f) 1 (f_pages f) with
       | Ok written => Ok (img_of_pages (f_commit f) written)
       | Err e => Err e
       end.
