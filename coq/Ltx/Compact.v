(** Model of ltx.Compactor.Compact (compactor.go of the ltx module), used by
    litestream's Compactor.Compact, Replica.Restore and the VFS hydrator with
    HeaderFlags = HeaderFlagNoChecksum.

    Control flow mirrored:
      1. no inputs -> error
      2. DecodeHeader of every input (Header.Validate)
      3. for i = 1..: page sizes equal, then IsContiguous(prev.Max, Min, Max)
      4. output header: PageSize/MinTXID of the first input; Commit, MaxTXID,
         Timestamp of the last input
      5. writePageBlock: repeat { fillPageBuffers -> lowest buffered pgno;
         writePageBuffer(pgno): scan inputs from the last to the first, pop
         every buffer holding pgno, encode the first one seen (the newest)
         unless pgno > commit } until no buffered page is left
      6. close inputs, close the encoder. *)
From Coq Require Import List NArith Bool Lia.
From LS Require Import Base.PMap Ltx.File Ltx.Snapshot.
Import ListNotations.
Open Scope N_scope.

Definition E_NO_INPUT : N := 1.
Definition E_HEADER : N := 2.
Definition E_PAGE_SIZE : N := 3.
Definition E_NONCONTIGUOUS : N := 4.
Definition E_LOCK_PAGE : N := 5.
Definition E_SNAPSHOT_ORDER : N := 6.
Definition E_CLOSE : N := 7.
Definition E_ORDER : N := 8.
Definition E_FUEL : N := 99.

Definition enc_err_code (e : enc_err) : N :=
  match e with
  | ELock => E_LOCK_PAGE
  | ESnapStart | ESnapSeqLock | ESnapSeq => E_SNAPSHOT_ORDER
  | EOutOfBounds | EPgnoZero | EOrder => E_ORDER
  end.

(** step 3 *)
Fixpoint check_pairs (prev : ltx) (l : list ltx) : option N :=
  match l with
  | [] => None
  | f :: tl =>
      if negb (f_ps prev =? f_ps f) then Some E_PAGE_SIZE
      else if negb (is_contiguous (f_max prev) (f_min f) (f_max f)) then Some E_NONCONTIGUOUS
      else check_pairs f tl
  end.

(** fillPageBuffers: every input's buffer holds the head of its remaining page
    list; the result is the lowest buffered page number, 0 if every input is
    exhausted.  [if pgno == 0 || input.buf.hdr.Pgno < pgno { pgno = ... }] *)
Definition heads_min (ins : list pages) : N :=
  fold_left (fun pg l => match l with
                         | [] => pg
                         | (q, _) :: _ => if (pg =? 0) || (q <? pg) then q else pg
                         end) ins 0.

(** writePageBuffer without the encoder: inputs are visited from the last to
    the first; each one whose buffer holds [pgno] is popped; the first one
    visited supplies the page. *)
Fixpoint take_newest (pgno : N) (ins : list pages) : option content * list pages :=
  match ins with
  | [] => (None, [])
  | l :: tl =>
      let (w, tl') := take_newest pgno tl in
      match l with
      | (q, c) :: rest =>
          if q =? pgno
          then (match w with Some _ => w | None => Some c end, rest :: tl')
          else (w, l :: tl')
      | [] => (w, l :: tl')
      end
  end.

(** step 5; [prev] is the encoder's prevPgno *)
Fixpoint merge_loop (fuel : nat) (snapshot : bool) (lock commit : N)
         (ins : list pages) (prev : N) : res pages :=
  match fuel with
  | O => Err E_FUEL
  | S fuel' =>
      let pgno := heads_min ins in
      if pgno =? 0 then Ok []
      else
        let (w, ins') := take_newest pgno ins in
        if commit <? pgno then merge_loop fuel' snapshot lock commit ins' prev
        else match w with
             | None => merge_loop fuel' snapshot lock commit ins' prev
             | Some c =>
                 match enc_page snapshot lock commit prev pgno with
                 | Some e => Err (enc_err_code e)
                 | None =>
                     match merge_loop fuel' snapshot lock commit ins' pgno with
                     | Ok out => Ok ((pgno, c) :: out)
                     | Err e => Err e
                     end
                 end
             end
  end.

Definition total_len (ins : list pages) : nat :=
  fold_right (fun l n => (length l + n)%nat) O ins.

Definition compact (fs : list ltx) : res ltx :=
  match fs with
  | [] => Err E_NO_INPUT
  | first :: rest =>
      if negb (forallb hdr_valid fs) then Err E_HEADER
      else match check_pairs first rest with
           | Some e => Err e
           | None =>
               let lst := last fs first in
               let ins := map f_pages fs in
               match merge_loop (S (total_len ins)) (is_snapshot first) (lockPgno (f_ps first))
                                (f_commit lst) ins 0 with
               | Err e => Err e
               | Ok pgs =>
                   if enc_close_ok (f_commit lst)
                   then Ok (mkLtx (f_ps first) (f_min first) (f_max lst) (f_commit lst) (f_ts lst) pgs)
                   else Err E_CLOSE
               end
           end
  end.

(** Replica.Restore: the plan is streamed through the compactor into
    DecodeDatabaseTo *)
From LS Require Import Ltx.Apply.
Definition restore (fs : list ltx) : res image :=
  match compact fs with
  | Ok c => decode_db c
  | Err e => Err e
  end.
