(** C14 — the SQL statements litestream may execute, and what they do to an
    abstract database.

    [stmt_class] recognises exactly the statement texts listed in DESIGN §6 C14
    (after normalisation: ASCII case folded, white space irrelevant, trailing
    semicolons dropped).  [exec_class] is the documented effect of each class on
    an abstract database: named tables with rows, the schema table
    (sqlite_master) and the journal mode.

    Source sites (db.go): init — journal_mode, the two CREATE TABLE IF NOT
    EXISTS, page_size; acquireReadLock — BeginTx + SELECT COUNT(1);
    bumpLitestreamSeq — the upsert; checkpointWithExecutor — BeginTx + the lock
    insert (twice); execCheckpoint — "PRAGMA wal_checkpoint(" + mode + ");".
    replica.go: checkpointV3 / checkIntegrity act on the restored file. *)
From Coq Require Import String Ascii List Bool Arith ZArith.
From Coq Require Strings.Byte.
Import ListNotations.

(** ------------------------------------------------------------------ *)
(** * Text

    The extracted runner cannot contain Coq's [string] (its OCaml name would
    shadow OCaml's own [string] in the hand-written driver), so the model works
    on its own text type; literals are written with a string notation and the
    regenerated lists (Coq [string]s) are converted by [txt_of_string] in the
    sweeps, which are not extracted. *)
Inductive txt : Set := TE | TS (c : ascii) (r : txt).

Fixpoint txt_of_bytes (l : list Byte.byte) : txt :=
  match l with [] => TE | b :: r => TS (ascii_of_byte b) (txt_of_bytes r) end.
Fixpoint bytes_of_txt (t : txt) : list Byte.byte :=
  match t with TE => [] | TS c r => byte_of_ascii c :: bytes_of_txt r end.

Declare Scope txt_scope.
Delimit Scope txt_scope with txt.
String Notation txt txt_of_bytes bytes_of_txt : txt_scope.

Fixpoint txt_of_string (s : string) : txt :=
  match s with EmptyString => TE | String c r => TS c (txt_of_string r) end.

Fixpoint teqb (a b : txt) : bool :=
  match a, b with
  | TE, TE => true
  | TS x a', TS y b' => Ascii.eqb x y && teqb a' b'
  | _, _ => false
  end.

Fixpoint tapp (a b : txt) : txt := match a with TE => b | TS c r => TS c (tapp r b) end.

Fixpoint tprefix (p t : txt) : bool :=
  match p, t with
  | TE, _ => true
  | TS x p', TS y t' => Ascii.eqb x y && tprefix p' t'
  | TS _ _, TE => false
  end.

Open Scope txt_scope.

(** ------------------------------------------------------------------ *)
(** * Tokens *)

Definition lower (c : ascii) : ascii :=
  let n := nat_of_ascii c in
  if (65 <=? n)%nat && (n <=? 90)%nat then ascii_of_nat (n + 32) else c.

Definition is_space (c : ascii) : bool :=
  let n := nat_of_ascii c in
  (n =? 32)%nat || ((9 <=? n)%nat && (n <=? 13)%nat).

(** letters, digits, underscore *)
Definition is_word (c : ascii) : bool :=
  let n := nat_of_ascii c in
  ((48 <=? n)%nat && (n <=? 57)%nat) || ((65 <=? n)%nat && (n <=? 90)%nat) ||
  ((97 <=? n)%nat && (n <=? 122)%nat) || (n =? 95)%nat.

Definition flush (cur : txt) (l : list txt) : list txt :=
  match cur with TE => l | _ => cur :: l end.

(** words (lower-cased) and single punctuation characters *)
Fixpoint tok (s : txt) (cur : txt) : list txt :=
  match s with
  | TE => flush cur []
  | TS c r =>
      if is_space c then flush cur (tok r "")
      else if is_word c then tok r (tapp cur (TS (lower c) TE))
      else flush cur (TS c TE :: tok r "")
  end.

Fixpoint drop_semis (rev_toks : list txt) : list txt :=
  match rev_toks with
  | ";" :: tl => drop_semis tl
  | _ => rev_toks
  end.

(** normal form of a statement text *)
Definition norm (s : txt) : list txt := rev (drop_semis (rev (tok s ""))).

Fixpoint toks_eqb (a b : list txt) : bool :=
  match a, b with
  | [], [] => true
  | x :: a', y :: b' => teqb x y && toks_eqb a' b'
  | _, _ => false
  end.

(** ------------------------------------------------------------------ *)
(** * Statement classes *)

Inductive ckpt_mode := Passive | Full | Restart | Truncate.

Inductive class :=
| CJournalWal                 (* PRAGMA journal_mode = wal *)
| CPageSize                   (* PRAGMA page_size *)
| CCheckpoint (m : ckpt_mode) (* PRAGMA wal_checkpoint(m) *)
| CQuickCheck                 (* PRAGMA quick_check *)
| CIntegrityCheck             (* PRAGMA integrity_check *)
| CSelectSeq                  (* SELECT COUNT(1) FROM _litestream_seq *)
| CCreateSeq                  (* CREATE TABLE IF NOT EXISTS _litestream_seq (...) *)
| CCreateLock                 (* CREATE TABLE IF NOT EXISTS _litestream_lock (...) *)
| CSeqUpsert                  (* INSERT INTO _litestream_seq ... ON CONFLICT (id) DO UPDATE SET seq = seq + 1 *)
| CLockInsert                 (* INSERT INTO _litestream_lock (id) VALUES (1) *)
| CBegin.                     (* BeginTx(ctx, nil): deferred transaction, no statement text *)

Definition seq_table : txt := "_litestream_seq".
Definition lock_table : txt := "_litestream_lock".

Definition class_table : list (list txt * class) := [
  (["pragma"; "journal_mode"; "="; "wal"], CJournalWal);
  (["pragma"; "page_size"], CPageSize);
  (["pragma"; "wal_checkpoint"; "("; "passive"; ")"], CCheckpoint Passive);
  (["pragma"; "wal_checkpoint"; "("; "full"; ")"], CCheckpoint Full);
  (["pragma"; "wal_checkpoint"; "("; "restart"; ")"], CCheckpoint Restart);
  (["pragma"; "wal_checkpoint"; "("; "truncate"; ")"], CCheckpoint Truncate);
  (["pragma"; "quick_check"], CQuickCheck);
  (["pragma"; "integrity_check"], CIntegrityCheck);
  (["select"; "count"; "("; "1"; ")"; "from"; "_litestream_seq"], CSelectSeq);
  (["create"; "table"; "if"; "not"; "exists"; "_litestream_seq"; "("; "id"; "integer"; "primary"; "key"; ",";
    "seq"; "integer"; ")"], CCreateSeq);
  (["create"; "table"; "if"; "not"; "exists"; "_litestream_lock"; "("; "id"; "integer"; ")"], CCreateLock);
  (["insert"; "into"; "_litestream_seq"; "("; "id"; ","; "seq"; ")"; "values"; "("; "1"; ","; "1"; ")";
    "on"; "conflict"; "("; "id"; ")"; "do"; "update"; "set"; "seq"; "="; "seq"; "+"; "1"], CSeqUpsert);
  (["insert"; "into"; "_litestream_lock"; "("; "id"; ")"; "values"; "("; "1"; ")"], CLockInsert);
  (["<"; "begintx"; "nil"; ">"], CBegin)
].

Fixpoint lookup_class (t : list txt) (tbl : list (list txt * class)) : option class :=
  match tbl with
  | [] => None
  | (k, c) :: tl => if toks_eqb t k then Some c else lookup_class t tl
  end.

Definition stmt_class (s : txt) : option class := lookup_class (norm s) class_table.

(** ------------------------------------------------------------------ *)
(** * Abstract database *)

Definition row := list Z.

Inductive jmode := JWal | JOther.

(** [tables]: name ↦ rows (a name may occur once; the operations below act on
    every entry of that name).  [schema]: the sqlite_master rows as
    (object name, table it belongs to, SQL text). *)
Record adb := mkDb {
  tables : list (txt * list row);
  schema : list (txt * txt * txt);
  journal : jmode }.

Definition internal_prefix : txt := "_litestream_".
Definition is_internal (name : txt) : bool := tprefix internal_prefix name.

Definition has_table (n : txt) (d : adb) : bool := existsb (fun t => teqb (fst t) n) (tables d).

Definition map_table (n : txt) (f : list row -> list row) (ts : list (txt * list row)) :=
  map (fun t => if teqb (fst t) n then (fst t, f (snd t)) else t) ts.

(** the seq upsert: INSERT (1,1) ON CONFLICT (id) DO UPDATE SET seq = seq + 1 *)
Definition has_id1 (rows : list row) : bool :=
  existsb (fun r => match r with id :: _ => Z.eqb id 1 | [] => false end) rows.
Definition upsert_rows (rows : list row) : list row :=
  if has_id1 rows
  then map (fun r => match r with
                     | id :: sq :: tl => if Z.eqb id 1 then id :: (sq + 1)%Z :: tl else r
                     | _ => r end) rows
  else (rows ++ [[1%Z; 1%Z]])%list.

Definition create_if_absent (n sql : txt) (d : adb) : adb :=
  if has_table n d then d
  else mkDb (tables d ++ [(n, [])])%list (schema d ++ [(n, n, sql)])%list (journal d).

(** does the statement succeed?  (the table it names must exist) *)
Definition exec_ok (c : class) (d : adb) : bool :=
  match c with
  | CSelectSeq | CSeqUpsert => has_table seq_table d
  | CLockInsert => has_table lock_table d
  | _ => true
  end.

(** effect of a successful statement (a failing statement changes nothing) *)
Definition exec_class (c : class) (d : adb) : adb :=
  if negb (exec_ok c d) then d else
  match c with
  | CJournalWal => mkDb (tables d) (schema d) JWal
  | CPageSize | CCheckpoint _ | CQuickCheck | CIntegrityCheck | CSelectSeq | CBegin => d
  | CCreateSeq => create_if_absent seq_table "CREATE TABLE _litestream_seq (id INTEGER PRIMARY KEY, seq INTEGER)" d
  | CCreateLock => create_if_absent lock_table "CREATE TABLE _litestream_lock (id INTEGER)" d
  | CSeqUpsert => mkDb (map_table seq_table upsert_rows (tables d)) (schema d) (journal d)
  | CLockInsert => mkDb (map_table lock_table (fun rows => (rows ++ [[1%Z]])%list) (tables d)) (schema d) (journal d)
  end.

Definition exec_all (cs : list class) (d : adb) : adb := fold_left (fun d c => exec_class c d) cs d.

(** what the application can read *)
Definition user_tables (d : adb) : list (txt * list row) :=
  filter (fun t => negb (is_internal (fst t))) (tables d).
Definition user_schema (d : adb) : list (txt * txt * txt) :=
  filter (fun e => negb (is_internal (fst (fst e)))) (schema d).

(** ------------------------------------------------------------------ *)
Open Scope string_scope.

(** * The regenerated statement list *)

(** replace the hole marker of a template *)
Definition subst_hole (hole t v : string) : string :=
  match index 0 hole t with
  | Some i => substring 0 i t ++ v ++ substring (i + String.length hole) (String.length t - i - String.length hole) t
  | None => t
  end.

Definition has_hole (hole t : string) : bool :=
  match index 0 hole t with Some _ => true | None => false end.

Fixpoint assoc {A} (k : string) (l : list (string * A)) : option A :=
  match l with
  | [] => None
  | (k', v) :: tl => if String.eqb k k' then Some v else assoc k tl
  end.

(** the texts a site can execute: the literal, or the template with every
    constant that reaches its hole *)
Definition instances (hole : string) (holes : list (string * list string)) (st : string * string * string) : list string :=
  let '(_, site, text) := st in
  if has_hole hole text then
    match assoc site holes with
    | Some vs => map (subst_hole hole text) vs
    | None => [text]     (* a template without a value list is never a recognised statement *)
    end
  else [text].

Definition is_some {A} (o : option A) : bool := match o with Some _ => true | None => false end.

(** the classifier on the regenerated (Coq string) texts *)
Definition stmt_class_s (s : string) : option class := stmt_class (txt_of_string s).

Definition stmt_safe (hole : string) (holes : list (string * list string)) (st : string * string * string) : bool :=
  forallb (fun t => is_some (stmt_class_s t)) (instances hole holes st).

(** the four modes a caller of the exported DB.Checkpoint may pass *)
Definition external_modes : list string := ["PASSIVE"; "FULL"; "RESTART"; "TRUNCATE"].

(** a site whose text is (partly) supplied by the caller of an exported function
    ([external_sites], regenerated) must be the checkpoint template: with each of
    the four documented modes it is a recognised checkpoint statement.  Any
    other caller-supplied SQL (e.g. an exported helper passing its argument
    straight to ExecContext) fails this test. *)
Definition template_external_safe (hole : string) (external_sites : list string) (st : string * string * string) : bool :=
  let '(_, site, text) := st in
  if existsb (String.eqb site) external_sites
  then has_hole hole text &&
       forallb (fun m => match stmt_class_s (subst_hole hole text m) with Some (CCheckpoint _) => true | _ => false end)
               external_modes
  else true.

(** connection strings: only busy_timeout and wal_autocheckpoint(0) pragmas *)
Fixpoint split_on (sep : ascii) (s : string) (cur : string) : list string :=
  match s with
  | EmptyString => [cur]
  | String c r => if Ascii.eqb c sep then cur :: split_on sep r "" else split_on sep r (cur ++ String c "")
  end.

Definition dsn_param_ok (p : string) : bool :=
  String.eqb p "_pragma=busy_timeout(%d)" || String.eqb p "_pragma=wal_autocheckpoint(0)".

Definition dsn_ok (d : string * string * string * string) : bool :=
  let '(_, _, text, _) := d in
  match split_on "?"%char text "" with
  | [_] => true                                        (* a bare path *)
  | [_; q] => forallb dsn_param_ok (split_on "&"%char q "")
  | _ => false
  end.

(** ------------------------------------------------------------------ *)
(** * File-system sites *)

Definition contains (needle hay : string) : bool :=
  match index 0 needle hay with Some _ => true | None => false end.

Definition mem_str (x : string) (l : list string) : bool := existsb (String.eqb x) l.

Definition site := (string * string * string * string * list string * string)%type.

(** the database file and its WAL *)
Definition is_dbfile (cls : string) : bool := contains "db.path" cls || contains "db.WALPath()" cls.

Definition write_flags : list string := ["O_WRONLY"; "O_RDWR"; "O_CREATE"; "O_TRUNC"; "O_APPEND"; "O_EXCL"; "O_SYNC"; "dynamic"].

Definition is_openfile (op : string) : bool := String.eqb op "OpenFile" || String.prefix "OpenFile@" op.

Definition flags_readonly (flags : list string) : bool :=
  forallb (fun f => String.eqb f "O_RDONLY" || String.eqb f "forwarded") flags.

(** does the site create or write the file at its path? *)
Definition writes (op : string) (flags : list string) : bool :=
  mem_str op ["Create"; "WriteFile"; "Truncate"; "Rename.dst"] || (is_openfile op && negb (flags_readonly flags)).

Definition is_tmp (cls : string) : bool := contains "tmp(" cls || String.eqb cls "createtemp".

(** The declared in-place writers (function, operation): none of them can name
    the replicated database file — the first clause of [site_ok] applies to them
    as to every other site.
      Replica.follow            follow mode applies LTX files to the restored output in place
      Hydrator.Init             the VFS hydration file
      VFS.openTempFile          SQLite temp files of the VFS
      VFSFile.initWriteBufferWithLock   the VFS write buffer
      CreateFile                internal.CreateFile's own parameter (exported helper; every caller
                                inside the repository is listed as a separate record) *)
Definition in_place_sites : list (string * string) := [
  ("Replica.follow", "OpenFile");
  ("Hydrator.Init", "OpenFile");
  ("VFS.openTempFile", "OpenFile");
  ("VFSFile.initWriteBufferWithLock", "OpenFile");
  ("CreateFile", "OpenFile")
].

Definition in_place (fn op cls : string) : bool :=
  existsb (fun e => String.eqb (fst e) fn && String.eqb (snd e) op) in_place_sites &&
  (negb (String.eqb fn "CreateFile") || String.prefix "param(" cls).

Definition site_ok (s : site) : bool :=
  let '(fn, _, op, cls, flags, peer) := s in
  if is_dbfile cls then
    (* db.path / the WAL: os.Open, or OpenFile with read-only flags; never created,
       renamed, removed, truncated or re-timed *)
    String.eqb op "Open" || (is_openfile op && flags_readonly flags)
  else if writes op flags then
    if String.eqb op "Rename.dst"
    then String.eqb peer ("tmp(" ++ cls ++ ")") || String.eqb peer "createtemp"
    else is_tmp cls || in_place fn op cls
  else true.

(** A staging file (a path of class tmp(...)) that is opened for writing starts EMPTY: it is
    created with os.Create, or its OpenFile flags contain O_TRUNC (the wrapper site that
    merely forwards its caller's flags is judged at the callers).  A staging name may be left
    over from a process that was killed while it wrote a longer file; what is renamed into
    place afterwards must not carry that file's tail (seed C10d: Restore's <output>.tmp
    opened with O_RDWR|O_CREATE). *)
Definition staging_open_ok (s : site) : bool :=
  let '(fn, _, op, cls, flags, _) := s in
  if is_openfile op && contains "tmp(" cls && negb (flags_readonly flags) && negb (in_place fn op cls)
  then mem_str "O_TRUNC" flags || mem_str "forwarded" flags
  else true.

(** ------------------------------------------------------------------ *)
(** * Transaction release discipline (regenerated [Gen.TxSites])

    A transaction must be handed to something that releases it — a [defer]
    rolling it back, a struct field that owns it, or a variable for which such a
    defer is already registered — with no unguarded [return] between its Begin
    and that point.  This is the hypothesis under which Lock.v places the
    deferred rollbacks immediately after each BeginTx. *)
Definition tx_site := (string * string * string * string * string * list string)%type.

Definition tx_site_ok (t : tx_site) : bool :=
  let '(_, _, _, guard, _, returns) := t in
  negb (String.eqb guard "none") &&
  match returns with [] => true | _ => false end.

Definition nil_list {A} (l : list A) : bool := match l with [] => true | _ => false end.
