(** [sx -> sx] entry points of the Stmts layer (C14) for the correspondence runner. *)
From Coq Require Import Ascii List NArith ZArith Bool.
From LS Require Import Base.Sx Stmts.Model.
Import ListNotations.
Open Scope txt_scope.

(** no Coq [txt] below: see the note on [txt] in Model.v *)
Definition str_of_bytes (l : list N) : txt :=
  fold_right (fun b s => TS (ascii_of_N b) s) TE l.

Definition sx_str (x : sx) : txt := str_of_bytes (asNs x).

Fixpoint list_eqb {A} (eqb : A -> A -> bool) (a b : list A) : bool :=
  match a, b with
  | [], [] => true
  | x :: a', y :: b' => eqb x y && list_eqb eqb a' b'
  | _, _ => false
  end.

(** ------------------------------------------------------------------ *)
(** The property's statement as a decidable test on what the differential
    replay observed at one quiescent point.

    input  [digest of the user view, source with litestream (bytes);
            digest of the user view, control run without litestream (bytes);
            SELECT count( * ) FROM _litestream_lock  (-1: the table does not exist);
            PRAGMA integrity_check = ok (0/1);
            PRAGMA journal_mode = wal (0/1);
            names of the sqlite_master objects whose name starts with _litestream_ (byte txts)]
    output 1 iff the user views are equal, the lock table is empty (or absent),
           the integrity check passes, the journal mode is wal and every internal
           object is one of the two bookkeeping tables. *)
Definition stmts_diff_ok (x : sx) : sx :=
  let dw := asNs (nthx 0 x) in
  let dc := asNs (nthx 1 x) in
  let lock := asZ (nthx 2 x) in
  let integ := asB (nthx 3 x) in
  let wal := asB (nthx 4 x) in
  let names := map sx_str (asL (nthx 5 x)) in
  sxB (list_eqb N.eqb dw dc
       && (Z.eqb lock 0 || Z.eqb lock (-1))
       && integ && wal
       && forallb (fun n => teqb n seq_table || teqb n lock_table) names).

(** ------------------------------------------------------------------ *)
(** One statement of the regenerated list executed on a small database.

    input  [pre; text]
      pre  = [has_seq; rows of _litestream_seq as [[id; seq]...] (by id);
              has_lock; number of rows of _litestream_lock; journal_mode = wal]
      text = the statement (bytes)
    output [classified; ok; has_seq; seq rows; has_lock; lock rows; journal = wal; user view unchanged]
    An unclassified text yields classified = 0 and the database unchanged. *)
Definition user_t : txt * list row := ("t", [[1%Z; 10%Z]; [2%Z; 20%Z]]).

Definition adb_of (pre : sx) : adb :=
  let has_seq := asB (nthx 0 pre) in
  let seq_rows := map asZs (asL (nthx 1 pre)) in
  let has_lock := asB (nthx 2 pre) in
  let lock_n := N.to_nat (asN (nthx 3 pre)) in
  let wal := asB (nthx 4 pre) in
  mkDb ([user_t]
        ++ (if has_seq then [(seq_table, seq_rows)] else [])
        ++ (if has_lock then [(lock_table, repeat [1%Z] lock_n)] else []))%list
       ([("t", "t", "CREATE TABLE t(id INTEGER PRIMARY KEY, v INTEGER)")]
        ++ (if has_seq then [(seq_table, seq_table, "")] else [])
        ++ (if has_lock then [(lock_table, lock_table, "")] else []))%list
       (if wal then JWal else JOther).

Definition rows_of (n : txt) (d : adb) : list row :=
  match find (fun t => teqb (fst t) n) (tables d) with Some t => snd t | None => [] end.

Fixpoint insert_row (r : row) (l : list row) : list row :=
  match l with
  | [] => [r]
  | q :: tl => if Z.leb (hd 0%Z r) (hd 0%Z q) then r :: l else q :: insert_row r tl
  end.
Definition sort_rows (l : list row) : list row := fold_right insert_row [] l.

Definition row_eqb (a b : row) : bool := list_eqb Z.eqb a b.
Definition utab_eqb (a b : txt * list row) : bool :=
  teqb (fst a) (fst b) && list_eqb row_eqb (snd a) (snd b).
Definition usch_eqb (a b : txt * txt * txt) : bool :=
  teqb (fst (fst a)) (fst (fst b)) && teqb (snd (fst a)) (snd (fst b)) && teqb (snd a) (snd b).

Definition stmts_sem (x : sx) : sx :=
  let d := adb_of (nthx 0 x) in
  let text := sx_str (nthx 1 x) in
  let proj (classified ok : bool) (d' : adb) :=
    SL [sxB classified; sxB ok;
        sxB (has_table seq_table d');
        SL (map (fun r => SL (map SA r)) (sort_rows (rows_of seq_table d')));
        sxB (has_table lock_table d');
        sxN (N.of_nat (List.length (rows_of lock_table d')));
        sxB (match journal d' with JWal => true | JOther => false end);
        sxB (list_eqb utab_eqb (user_tables d') (user_tables d) && list_eqb usch_eqb (user_schema d') (user_schema d))] in
  match stmt_class text with
  | None => proj false true d
  | Some c => proj true (exec_ok c d) (exec_class c d)
  end.
