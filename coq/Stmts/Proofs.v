(** C14 — proofs.

    1. Finite sweeps over the lists REGENERATED from the Go source on every run
       ([Gen.Stmts], [Gen.FsSites]): the domain is the finite list itself, so
       [vm_compute] is a proof.  A new statement text, a new constant reaching a
       template hole, a write-mode open of the database file — each changes the
       regenerated list and breaks the corresponding [Qed].
    2. [safe_preserves_user_view]: for EVERY abstract database and every
       statement class, the tables and schema entries not named _litestream_*
       are unchanged and the journal mode stays (or becomes) wal; lifted to
       arbitrary sequences of statements.
    3. [lock_always_rolled_back]: in Lock.v (the control flow of
       checkpointWithExecutor). *)
From Coq Require Import String List Bool ZArith Lia.
From LS Require Import Gen.Stmts Gen.FsSites Gen.TxSites Stmts.Model.
Import ListNotations.

(** ------------------------------------------------------------------ *)
(** * 1. Sweeps over the regenerated lists *)

Lemma all_stmts_safe_lemma : forallb (stmt_safe hole holes) stmts = true.
Proof. vm_compute. reflexivity. Qed.

(** the template fed by the exported DB.Checkpoint(ctx, mode) is a recognised
    checkpoint for each of the four documented modes (the stated precondition on
    external callers) *)
Lemma external_modes_safe_lemma : forallb (template_external_safe hole external_sites) stmts = true.
Proof. vm_compute. reflexivity. Qed.

Lemma all_dsns_safe_lemma : forallb dsn_ok dsns = true.
Proof. vm_compute. reflexivity. Qed.

Lemma staging_files_start_empty_lemma : forallb staging_open_ok sites = true.
Proof. vm_compute. reflexivity. Qed.

(** not vacuous: some OpenFile site of a staging path is judged by its flags, and a site
    without O_TRUNC is rejected *)
Example staging_open_sites_exist :
  (2 <= List.length (filter (fun s => let '(fn, _, op, cls, flags, _) := s in
                                      is_openfile op && contains "tmp(" cls && negb (flags_readonly flags)) sites))%nat
  /\ staging_open_ok ("Replica.Restore", "replica.go:1", "OpenFile", "tmp(output)", ["O_CREATE"; "O_RDWR"], "") = false
  /\ staging_open_ok ("Replica.Restore", "replica.go:1", "Create", "tmp(output)", [], "") = true.
Proof. vm_compute. repeat split; lia. Qed.

Lemma db_file_readonly_lemma : forallb site_ok sites = true.
Proof. vm_compute. reflexivity. Qed.

(** every transaction litestream begins is guarded (defer / owning field /
    guarded variable) before any statement that can return early; no guarded
    variable is cleared without a rollback; nothing is ever committed *)
Lemma tx_release_discipline_lemma :
  forallb tx_site_ok tx_sites = true /\ nil_list tx_nil_without_release = true /\ nil_list tx_commits = true.
Proof. vm_compute. repeat split. Qed.

Example tx_sites_nonempty : (3 <= List.length tx_sites)%nat.
Proof. vm_compute. repeat constructor. Qed.

Example tx_site_rejects_late_guard :
  tx_site_ok ("DB.checkpointWithExecutor", "db.go:1", "tx", "transfer:barrierTx", "db.go:9", ["db.go:5"]) = false /\
  tx_site_ok ("DB.f", "db.go:1", "tx", "none", "", []) = false /\
  tx_site_ok ("DB.f", "db.go:1", "tx", "defer", "db.go:2", []) = true.
Proof. vm_compute. repeat split. Qed.

(** the sweeps are not vacuous: the lists are non-empty and contain the known sites *)
Example stmts_nonempty : (10 <= List.length stmts)%nat /\ (30 <= List.length sites)%nat.
Proof. vm_compute. split; repeat constructor. Qed.

Example sweep_rejects_delete :
  stmt_safe hole holes ("DB.init", "db.go:1", "DELETE FROM t") = false /\
  stmt_safe hole holes ("DB.init", "db.go:1", "UPDATE t SET v = 1") = false /\
  stmt_safe hole holes ("DB.init", "db.go:1", "PRAGMA journal_mode = delete") = false /\
  stmt_safe hole [("db.go:1", ["PASSIVE"; "<dyn:mode>"])] ("DB.execCheckpoint", "db.go:1", "PRAGMA wal_checkpoint({?});") = false /\
  stmt_safe hole holes ("DB.init", "db.go:1", "INSERT INTO _litestream_lock (id) VALUES (1); DROP TABLE t") = false.
Proof. vm_compute. repeat split. Qed.

Example external_sql_rejected :
  template_external_safe hole ["db.go:9"] ("DB.Exec", "db.go:9", "{?}") = false /\
  template_external_safe hole ["db.go:9"] ("DB.Exec", "db.go:9", "PRAGMA {?}") = false /\
  template_external_safe hole ["db.go:9"] ("DB.execCheckpoint", "db.go:9", "PRAGMA wal_checkpoint({?});") = true.
Proof. vm_compute. repeat split. Qed.

Example sweep_accepts_respelling :
  stmt_class_s "  pragma   JOURNAL_MODE=WAL ;; " = Some CJournalWal /\
  stmt_class_s ("select count(1)" ++ String (Ascii.ascii_of_nat 10) "from _litestream_seq") = Some CSelectSeq.
Proof. vm_compute. split; reflexivity. Qed.

Example site_rejects_rdwr_open_of_db :
  site_ok ("DB.init", "db.go:1072", "OpenFile", "db.path", ["O_RDWR"], "") = false /\
  site_ok ("DB.init", "db.go:1072", "Create", "db.path", [], "") = false /\
  site_ok ("DB.x", "db.go:1", "Rename.dst", "db.path", [], "tmp(db.path)") = false /\
  site_ok ("DB.x", "db.go:1", "Create", "ltx", [], "") = false /\
  site_ok ("DB.x", "db.go:1", "Rename.dst", "ltx", [], "other(x)") = false /\
  site_ok ("DB.init", "db.go:1072", "Open", "db.path", [], "") = true.
Proof. vm_compute. repeat split. Qed.

(** ------------------------------------------------------------------ *)
(** * 2. Safe statements preserve the user view *)

Lemma internal_seq : is_internal seq_table = true.
Proof. reflexivity. Qed.
Lemma internal_lock : is_internal lock_table = true.
Proof. reflexivity. Qed.

Lemma teqb_eq : forall a b, teqb a b = true -> a = b.
Proof.
  induction a as [|c a IH]; destruct b as [|d b]; simpl; intros H; try discriminate; auto.
  apply andb_true_iff in H. destruct H as [H1 H2].
  apply Ascii.eqb_eq in H1. subst. f_equal. auto.
Qed.

Lemma filter_map_table : forall n f ts, is_internal n = true ->
  filter (fun t : txt * list row => negb (is_internal (fst t))) (map_table n f ts) =
  filter (fun t => negb (is_internal (fst t))) ts.
Proof.
  intros n f ts Hn. induction ts as [|[k rows] tl IH]; simpl; auto.
  destruct (teqb k n) eqn:E; simpl.
  - apply teqb_eq in E. subst k. rewrite Hn. simpl. exact IH.
  - rewrite IH. reflexivity.
Qed.

Lemma user_tables_create : forall n sql d, is_internal n = true ->
  user_tables (create_if_absent n sql d) = user_tables d /\
  user_schema (create_if_absent n sql d) = user_schema d /\
  journal (create_if_absent n sql d) = journal d.
Proof.
  intros n sql d Hn. unfold create_if_absent. destruct (has_table n d); auto.
  unfold user_tables, user_schema; simpl.
  rewrite !filter_app. simpl. rewrite Hn. simpl. rewrite !app_nil_r. auto.
Qed.

Lemma exec_class_user_view : forall c d,
  user_tables (exec_class c d) = user_tables d /\ user_schema (exec_class c d) = user_schema d.
Proof.
  intros c d. unfold exec_class. destruct (negb (exec_ok c d)); [auto|].
  destruct c; auto.
  - destruct (user_tables_create seq_table "CREATE TABLE _litestream_seq (id INTEGER PRIMARY KEY, seq INTEGER)"%txt d internal_seq) as [A [B _]]; auto.
  - destruct (user_tables_create lock_table "CREATE TABLE _litestream_lock (id INTEGER)"%txt d internal_lock) as [A [B _]]; auto.
  - unfold user_tables, user_schema; simpl. rewrite filter_map_table by exact internal_seq. auto.
  - unfold user_tables, user_schema; simpl. rewrite filter_map_table by exact internal_lock. auto.
Qed.

Lemma exec_class_journal : forall c d,
  journal d = JWal \/ c = CJournalWal -> journal (exec_class c d) = JWal.
Proof.
  intros c d H. unfold exec_class.
  destruct c; simpl; try (destruct H as [H|H]; [|discriminate]).
  - reflexivity.
  - exact H.
  - exact H.
  - exact H.
  - exact H.
  - destruct (negb (has_table seq_table d)); exact H.
  - destruct (user_tables_create seq_table "CREATE TABLE _litestream_seq (id INTEGER PRIMARY KEY, seq INTEGER)"%txt d internal_seq) as [_ [_ J]].
    rewrite J. exact H.
  - destruct (user_tables_create lock_table "CREATE TABLE _litestream_lock (id INTEGER)"%txt d internal_lock) as [_ [_ J]].
    rewrite J. exact H.
  - destruct (negb (has_table seq_table d)); exact H.
  - destruct (negb (has_table lock_table d)); exact H.
  - exact H.
Qed.

(** every statement class, every abstract database *)
Lemma safe_preserves_user_view_lemma : forall c d,
  user_tables (exec_class c d) = user_tables d /\
  user_schema (exec_class c d) = user_schema d /\
  (journal d = JWal \/ c = CJournalWal -> journal (exec_class c d) = JWal).
Proof.
  intros c d. destruct (exec_class_user_view c d) as [A B].
  repeat split; auto. apply exec_class_journal.
Qed.

(** every sequence of statements: whatever litestream executes, in whatever
    order and however often, the user view is that of the start *)
Lemma safe_run_preserves_user_view_lemma : forall cs d,
  user_tables (exec_all cs d) = user_tables d /\
  user_schema (exec_all cs d) = user_schema d /\
  (journal d = JWal -> journal (exec_all cs d) = JWal).
Proof.
  unfold exec_all. induction cs as [|c cs IH]; intros d; simpl; auto.
  destruct (IH (exec_class c d)) as [A [B C]].
  destruct (safe_preserves_user_view_lemma c d) as [A' [B' C']].
  rewrite A, B, A', B'. repeat split; auto.
Qed.

(** init's sequence (journal_mode first) ends in WAL mode whatever the mode was *)
Lemma init_sequence_wal_lemma : forall cs d, journal (exec_all (CJournalWal :: cs) d) = JWal.
Proof.
  intros cs d. change (exec_all (CJournalWal :: cs) d) with (exec_all cs (exec_class CJournalWal d)).
  apply safe_run_preserves_user_view_lemma. apply exec_class_journal. auto.
Qed.

(** any text the classifier accepts, executed on any database *)
Lemma classified_text_preserves_user_view_lemma : forall s c d,
  stmt_class_s s = Some c ->
  user_tables (exec_class c d) = user_tables d /\ user_schema (exec_class c d) = user_schema d.
Proof. intros s c d _. apply exec_class_user_view. Qed.

(** hypotheses are satisfiable by a non-trivial database: user tables, an index
    entry, both internal tables with rows, executed statements change the
    internal tables and nothing else *)
Definition ex_db : adb :=
  mkDb [("t"%txt, [[1; 10]; [2; 20]]%Z); (seq_table, [[1; 5]]%Z); ("u"%txt, [[7]]%Z); (lock_table, [])]
       [("t"%txt, "t"%txt, "CREATE TABLE t(a,b)"%txt); ("t_i"%txt, "t"%txt, "CREATE INDEX t_i ON t(b)"%txt);
        (seq_table, seq_table, ""%txt); (lock_table, lock_table, ""%txt)] JWal.

Example ex_run :
  let d' := exec_all [CJournalWal; CCreateSeq; CCreateLock; CBegin; CSelectSeq; CPageSize; CSeqUpsert; CLockInsert;
                      CCheckpoint Truncate; CSeqUpsert] ex_db in
  tables d' = [("t"%txt, [[1; 10]; [2; 20]]%Z); (seq_table, [[1; 7]]%Z); ("u"%txt, [[7]]%Z); (lock_table, [[1]]%Z)] /\
  user_tables d' = [("t"%txt, [[1; 10]; [2; 20]]%Z); ("u"%txt, [[7]]%Z)] /\
  user_tables d' = user_tables ex_db /\ List.length (user_schema d') = 2%nat /\ journal d' = JWal.
Proof. vm_compute. repeat split. Qed.

Example ex_create_on_fresh :
  let d' := exec_all [CJournalWal; CCreateSeq; CCreateLock; CSeqUpsert] (mkDb [("t"%txt, [[1]]%Z)] [("t"%txt, "t"%txt, ""%txt)] JOther) in
  has_table seq_table d' = true /\ has_table lock_table d' = true /\ journal d' = JWal /\
  user_tables d' = [("t"%txt, [[1]]%Z)].
Proof. vm_compute. repeat split. Qed.
