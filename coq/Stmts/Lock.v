(** C14 — [lock_always_rolled_back]: the control flow of
    DB.checkpointWithExecutor (db.go) around its two inserts into
    _litestream_lock, with every error exit and Go's [defer]s.

    Each fallible step takes its outcome from an oracle ([o : point -> bool],
    [true] = the step returns an error / the test takes its early-return
    branch); the theorem quantifies over ALL oracles, modes and initial lock
    tables.  Transactions are modelled as SQLite does them: rows inserted inside
    a transaction are pending until COMMIT and are discarded by ROLLBACK;
    [rollback(tx)] on a finished transaction is the suppressed
    "already rolled back" no-op (litestream.go [rollback]).

    Assumed of SQLite / database/sql (stated, not proved): ROLLBACK discards the
    transaction's writes and ends it whether or not it reports an error; a
    failed statement inside a transaction inserts nothing. *)
From Coq Require Import List Bool Arith Lia.
From LS Require Import Stmts.Model.
Import ListNotations.

Inductive tx := BarrierTx | BoundaryTx.

Definition tx_eqb (a b : tx) : bool :=
  match a, b with BarrierTx, BarrierTx | BoundaryTx, BoundaryTx => true | _, _ => false end.

(** the points at which the Go code can leave the straight path, in source order *)
Inductive point :=
| PTryLock            (* !db.chkMu.TryLock() *)
| PReadHdr1           (* readWALHeader before *)
| PSyncBefore         (* verifyAndSyncWithExecutor "cannot copy wal before checkpoint" *)
| PBeginBarrier       (* db.db.BeginTx (PASSIVE barrier) *)
| PInsertBarrier      (* INSERT INTO _litestream_lock in barrierTx *)
| PSealSync           (* "cannot seal wal before passive checkpoint" *)
| PExecCheckpoint     (* db.execCheckpoint *)
| PReadHdrMid         (* readWALHeader right after the PRAGMA (FULL / RESTART only) *)
| PHdrMidDiffers      (* !bytes.Equal(hdr, mid): restarted before the checkpoint *)
| PSyncPostCopy       (* "cannot copy wal after checkpoint" (post-checkpoint copy) *)
| PReadHdrMid2        (* readWALHeader after the post-checkpoint copy *)
| PHdrMid2Differs     (* !bytes.Equal(hdr, mid) on the re-read *)
| PRollbackBarrier    (* rollback(barrierTx) reports an error *)
| PBumpSeq            (* db.bumpLitestreamSeq *)
| PReadHdr2           (* readWALHeader after *)
| PHdrEqual           (* bytes.Equal(hdr, other): WAL not restarted *)
| PSyncAfterPassive   (* "cannot copy wal after passive checkpoint" *)
| PFramesLe           (* walFrameN <= preCheckpointFrameN *)
| PSyncAfter          (* "cannot copy wal after checkpoint" *)
| PBeginBoundary      (* db.db.BeginTx (boundary snapshot) *)
| PInsertBoundary     (* INSERT INTO _litestream_lock in tx *)
| PSnapshotSync       (* db.sync "cannot snapshot after checkpoint" *)
| PRollbackBoundary.  (* rollback(tx) reports an error *)

Inductive event :=
| EBegin (t : tx) | EInsert (t : tx) | ERollback (t : tx) | ECommit (t : tx) | ECheckpoint | EBump.

(** [committed]: rows of _litestream_lock visible to every connection;
    [open]: the open transactions with the rows each has inserted *)
Record st := mkSt { committed : nat; open : list (tx * nat); trace : list event }.

Definition ev (e : event) (s : st) : st := mkSt (committed s) (open s) (trace s ++ [e]).

Definition begin_tx (t : tx) (s : st) : st :=
  mkSt (committed s) ((t, 0) :: open s) (trace s ++ [EBegin t]).

Definition insert_lock (t : tx) (s : st) : st :=
  mkSt (committed s) (map (fun p => if tx_eqb (fst p) t then (fst p, S (snd p)) else p) (open s))
       (trace s ++ [EInsert t]).

(** ROLLBACK: pending rows vanish; on a finished transaction nothing happens *)
Definition rollback_tx (t : tx) (s : st) : st :=
  mkSt (committed s) (filter (fun p => negb (tx_eqb (fst p) t)) (open s)) (trace s ++ [ERollback t]).

(** COMMIT (not used by the code; used by the refuted variant below) *)
Definition pending (t : tx) (s : st) : nat :=
  fold_right (fun p acc => if tx_eqb (fst p) t then snd p + acc else acc) 0 (open s).
Definition commit_tx (t : tx) (s : st) : st :=
  mkSt (committed s + pending t s) (filter (fun p => negb (tx_eqb (fst p) t)) (open s)) (trace s ++ [ECommit t]).

(** the deferred calls, run in LIFO order at every return:
      defer func() { if barrierTx != nil { _ = rollback(barrierTx) } }()
      defer func() { _ = rollback(tx) }()                                  *)
Inductive deferred := DBarrier | DBoundary.

Definition run_deferred (ds : list deferred) (barrier_nonnil : bool) (s : st) : st :=
  fold_left (fun s d => match d with
                        | DBarrier => if barrier_nonnil then rollback_tx BarrierTx s else s
                        | DBoundary => rollback_tx BoundaryTx s
                        end) ds s.

Section Ckpt.
  Variable mode : ckpt_mode.
  Variable o : point -> bool.

  Definition is_passive : bool := match mode with Passive => true | _ => false end.
  Definition is_truncate : bool := match mode with Truncate => true | _ => false end.

  (** the tail from "Start a transaction. This will be promoted immediately after." *)
  Definition boundary (ds : list deferred) (bnn : bool) (s : st) : st :=
    if o PBeginBoundary then run_deferred ds bnn s else
    let s := begin_tx BoundaryTx s in
    let ds := DBoundary :: ds in
    if o PInsertBoundary then run_deferred ds bnn s else
    let s := insert_lock BoundaryTx s in
    if o PSnapshotSync then run_deferred ds bnn s else
    let s := rollback_tx BoundaryTx s in              (* rollback(tx) *)
    if o PRollbackBoundary then run_deferred ds bnn s else
    run_deferred ds bnn s.

  (** from the barrier release on; [restarted]: restartedBeforeCheckpoint *)
  Definition release_and_after (ds : list deferred) (bnn : bool) (restarted : bool) (s : st) : st :=
    (* if barrierTx != nil { if err = rollback(barrierTx); err != nil { return }; barrierTx = nil } *)
    let s1 := if bnn then rollback_tx BarrierTx s else s in
    if bnn && o PRollbackBarrier then run_deferred ds bnn s1 else
    let bnn := false in
    let s := s1 in
    if o PBumpSeq then run_deferred ds bnn s else
    let s := ev EBump s in
    if o PReadHdr2 then run_deferred ds bnn s else
    if o PHdrEqual then run_deferred ds bnn s else
    if is_passive then run_deferred ds bnn s           (* both outcomes of PSyncAfterPassive return *)
    else if negb is_truncate && negb restarted && o PFramesLe
         then run_deferred ds bnn s                    (* both outcomes of PSyncAfter return *)
    else boundary ds bnn s.

  (** from execCheckpoint on; [bnn]: barrierTx != nil *)
  Definition after_barrier (ds : list deferred) (bnn : bool) (s : st) : st :=
    if o PExecCheckpoint then run_deferred ds bnn s else
    let s := ev ECheckpoint s in
    (* if mode != PASSIVE && mode != TRUNCATE { mid header read; post-checkpoint copy; re-read } *)
    if negb is_passive && negb is_truncate then
      if o PReadHdrMid then run_deferred ds bnn s else
      if o PHdrMidDiffers then release_and_after ds bnn true s else
      if o PSyncPostCopy then run_deferred ds bnn s else
      if o PReadHdrMid2 then run_deferred ds bnn s else
      if o PHdrMid2Differs then release_and_after ds bnn true s
      else release_and_after ds bnn false s
    else release_and_after ds bnn false s.

  Definition checkpoint_with_executor (s : st) : st :=
    if o PTryLock then s else
    if o PReadHdr1 then s else
    if o PSyncBefore then s else
    if is_passive then
      if o PBeginBarrier then s else
      let s := begin_tx BarrierTx s in
      let ds := [DBarrier] in
      if o PInsertBarrier then run_deferred ds true s else
      let s := insert_lock BarrierTx s in
      if o PSealSync then run_deferred ds true s else
      after_barrier ds true s
    else after_barrier [] false s.
End Ckpt.

(** every insert is followed, later in the trace, by a rollback of the same transaction *)
Fixpoint rolled_back_after (t : tx) (l : list event) : bool :=
  match l with
  | [] => false
  | ERollback t' :: tl => tx_eqb t t' || rolled_back_after t tl
  | _ :: tl => rolled_back_after t tl
  end.
Fixpoint inserts_rolled_back (l : list event) : bool :=
  match l with
  | [] => true
  | EInsert t :: tl => rolled_back_after t tl && inserts_rolled_back tl
  | _ :: tl => inserts_rolled_back tl
  end.
Definition no_commit (l : list event) : bool :=
  forallb (fun e => match e with ECommit _ => false | _ => true end) l.

(** One call, any mode, any outcome of every fallible step, any lock table:
    no transaction is left open, the committed content of _litestream_lock is
    what it was, and every insert was followed by a rollback before return. *)
Lemma lock_always_rolled_back_lemma : forall mode o n,
  let s' := checkpoint_with_executor mode o (mkSt n [] []) in
  open s' = [] /\ committed s' = n /\ inserts_rolled_back (trace s') = true /\ no_commit (trace s') = true.
Proof.
  intros mode o n.
  unfold checkpoint_with_executor, after_barrier, release_and_after, boundary, is_passive, is_truncate.
  destruct mode; cbn [andb negb];
  repeat (match goal with
          | |- context [if o ?p then _ else _] => destruct (o p)
          | |- context [andb _ (o ?p)] => destruct (o p)
          end; cbn [andb negb]);
  simpl; repeat split; reflexivity.
Qed.

(** Any number of checkpoints, in any modes with any outcomes, from an empty
    lock table: the table is empty at every quiescent point (between calls). *)
Fixpoint run_calls (calls : list (ckpt_mode * (point -> bool))) (n : nat) : list nat :=
  match calls with
  | [] => [n]
  | (m, o) :: tl => n :: run_calls tl (committed (checkpoint_with_executor m o (mkSt n [] [])))
  end.

Lemma lock_empty_at_every_quiescent_point_lemma : forall calls,
  Forall (fun n => n = 0) (run_calls calls 0).
Proof.
  induction calls as [|[m o] tl IH]; simpl.
  - constructor; auto.
  - constructor; auto.
    destruct (lock_always_rolled_back_lemma m o 0) as [_ [C _]]. simpl in C. rewrite C. exact IH.
Qed.

(** non-vacuity: a TRUNCATE checkpoint that takes the boundary snapshot does
    insert into the lock table, and a PASSIVE one inserts the barrier row *)
Example ex_truncate_inserts :
  trace (checkpoint_with_executor Truncate (fun _ => false) (mkSt 0 [] [])) =
  [ECheckpoint; EBump; EBegin BoundaryTx; EInsert BoundaryTx; ERollback BoundaryTx; ERollback BoundaryTx].
Proof. reflexivity. Qed.

Example ex_passive_inserts :
  trace (checkpoint_with_executor Passive (fun _ => false) (mkSt 0 [] [])) =
  [EBegin BarrierTx; EInsert BarrierTx; ECheckpoint; ERollback BarrierTx; EBump].
Proof. reflexivity. Qed.

Example ex_error_after_insert :
  let o := fun p => match p with PSnapshotSync => true | _ => false end in
  trace (checkpoint_with_executor Restart o (mkSt 3 [] [])) =
  [ECheckpoint; EBump; EBegin BoundaryTx; EInsert BoundaryTx; ERollback BoundaryTx] /\
  committed (checkpoint_with_executor Restart o (mkSt 3 [] [])) = 3.
Proof. split; reflexivity. Qed.

(** why the placement of the deferred rollback matters (and why
    [tx_release_discipline] is checked on the regenerated source): if the guard
    variable is still nil when the seal copy fails, the return runs the deferred
    closure with nothing to roll back and the barrier transaction stays open *)
Example late_guard_leaks :
  open (run_deferred [DBarrier] false (insert_lock BarrierTx (begin_tx BarrierTx (mkSt 0 [] [])))) = [(BarrierTx, 1)].
Proof. reflexivity. Qed.

(** the property is not a tautology of the state model: committing instead of
    rolling back leaves a row behind *)
Example commit_would_leave_a_row :
  committed (commit_tx BoundaryTx (insert_lock BoundaryTx (begin_tx BoundaryTx (mkSt 0 [] [])))) = 1.
Proof. reflexivity. Qed.
