(** Specification: what SQLite recovers from a WAL file.  Transcribed from
    sqlite3 wal.c: walIndexRecover (header tests, frame loop), walDecodeFrame
    (salt test, pgno <> 0, cumulative checksum), walFindFrame (latest frame
    <= mxFrame per page) and the rule that only pages <= the committed database
    size are ever read or checkpointed (walCheckpoint: iDbpage > mxPage is
    skipped).  This file shares the byte decoders with the model but none of its
    control flow. *)
From Coq Require Import List NArith ZArith Bool Lia.
From LS Require Import Base.Bytes Wal.Reader.
Import ListNotations.
Open Scope N_scope.

Inductive sq_hdr :=
| SqHdrOk (bo : bool) (ps s1 s2 c1 c2 : N)
| SqHdrIgnored     (* WAL treated as empty: bad magic, page size or checksum *)
| SqHdrCantOpen.   (* wrong version *)

Definition is_pow2_in_range (ps : N) : bool :=
  existsb (N.eqb ps) [512; 1024; 2048; 4096; 8192; 16384; 32768; 65536].

Definition sq_read_header (w : list N) : sq_hdr :=
  if Nat.ltb (length w) 32 then SqHdrIgnored else
  let magic := be32 w 0 in
  let ps := be32 w 8 in
  (* (magic & 0xFFFFFFFE) != WAL_MAGIC || bad page size -> finished *)
  if negb (N.eqb magic 931071618 || N.eqb magic 931071619) then SqHdrIgnored else
  if negb (is_pow2_in_range ps) then SqHdrIgnored else
  let bo := N.eqb magic 931071619 in
  let c1 := be32 w 24 in
  let c2 := be32 w 28 in
  if negb (pair_eqb (wal_checksum bo 0 0 (firstn 24 w)) (c1, c2)) then SqHdrIgnored else
  if negb (N.eqb (be32 w 4) 3007000) then SqHdrCantOpen else
  SqHdrOk bo ps (be32 w 16) (be32 w 20) c1 c2.

(** walDecodeFrame: [Some (pgno, nTruncate, new checksum)] iff the frame is valid *)
Definition sq_decode_frame (bo : bool) (s1 s2 : N) (ck : N * N) (f : list N)
  : option (N * N * (N * N)) :=
  if negb (N.eqb (be32 f 8) s1 && N.eqb (be32 f 12) s2) then None else
  let pgno := be32 f 0 in
  if N.eqb pgno 0 then None else
  let ck1 := wal_checksum bo (fst ck) (snd ck) (firstn 8 f) in
  let ck2 := wal_checksum bo (fst ck1) (snd ck1) (skipn 24 f) in
  if negb (pair_eqb ck2 (be32 f 16, be32 f 20)) then None else
  Some (pgno, be32 f 4, ck2).

(** the valid prefix of the frame list: (pgno, nTruncate) per frame *)
Fixpoint sq_valid_prefix (bo : bool) (s1 s2 : N) (ck : N * N) (fs : list (list N))
  : list (N * N) :=
  match fs with
  | [] => []
  | f :: tl =>
      match sq_decode_frame bo s1 s2 ck f with
      | None => []
      | Some (pg, tr, ck') => (pg, tr) :: sq_valid_prefix bo s1 s2 ck' tl
      end
  end.

(** mxFrame = number of frames up to and including the last valid commit frame;
    nPage = that frame's nTruncate *)
Fixpoint sq_mx (i : nat) (vp : list (N * N)) (mx : nat) (npage : N) : nat * N :=
  match vp with
  | [] => (mx, npage)
  | (_, tr) :: tl =>
      if N.eqb tr 0 then sq_mx (S i) tl mx npage else sq_mx (S i) tl (S i) tr
  end.

Record sq_rec := mkSq { sq_frames : list (N * N); sq_mxFrame : nat; sq_nPage : N }.

Definition sq_recover_frames (bo : bool) (s1 s2 c1 c2 : N) (fs : list (list N)) : sq_rec :=
  let vp := sq_valid_prefix bo s1 s2 (c1, c2) fs in
  let '(mx, np) := sq_mx 0 vp 0 0 in
  mkSq vp mx np.

(** walFindFrame: index (0-based) of the latest frame < mxFrame holding [pg] *)
Fixpoint find_last (pg : N) (i : nat) (l : list (N * N)) (acc : option nat) : option nat :=
  match l with
  | [] => acc
  | (p, _) :: tl => find_last pg (S i) tl (if N.eqb p pg then Some i else acc)
  end.
Definition sq_find (s : sq_rec) (pg : N) : option nat :=
  find_last pg 0 (firstn (sq_mxFrame s) (sq_frames s)) None.

(** the frame SQLite serves / checkpoints for page [pg], if any *)
Definition sq_visible (s : sq_rec) (pg : N) : option nat :=
  if N.leb pg (sq_nPage s) then sq_find s pg else None.

Definition sq_recover (w : list N) : option sq_rec :=
  match sq_read_header w with
  | SqHdrOk bo ps s1 s2 c1 c2 => Some (sq_recover_frames bo s1 s2 c1 c2 (wal_frames ps w))
  | _ => None
  end.

(** file offset of 0-based frame [i] *)
Definition frame_offset (ps : N) (i : nat) : N := 32 + N.of_nat i * frame_size ps.
