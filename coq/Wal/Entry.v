(** [sx -> sx] entry points of the WAL layer for the correspondence runner. *)
From Coq Require Import List NArith ZArith Bool.
From LS Require Import Base.Sx Base.Bytes Base.PMap Wal.Reader Wal.Sqlite.
Import ListNotations.
Open Scope N_scope.

Definition sx_pm (m : pmap N) : sx := SL (map (fun kv => SL [sxN (fst kv); sxN (snd kv)]) m).

(** input  [w; offset; salt1; salt2; maxBytes]   (offset = 0: NewWALReader)
    output [status; map; end; commit; limited]
    status 0 ok | 1 header EOF | 2 header error | 3 offset error | 4 prev-frame mismatch *)
Definition wal_run (x : sx) : sx :=
  let w := asNs (nthx 0 x) in
  let off := asN (nthx 1 x) in
  let s1 := asN (nthx 2 x) in
  let s2 := asN (nthx 3 x) in
  let maxb := asN (nthx 4 x) in
  let fail (c : N) := SL [sxN c; SL []; sxN 0; sxN 0; sxN 0] in
  let run (r : rd) :=
    let p := page_map (wal_frames (r_ps r) w) r maxb in
    SL [sxN 0; sx_pm (pr_map p); sxN (pr_end p); sxN (pr_commit p); sxB (pr_limited p)] in
  if N.eqb off 0 then
    match read_header w with
    | HdrOk r => run r
    | HdrEOF => fail 1
    | HdrErr => fail 2
    end
  else
    match new_reader_with_offset w off s1 s2 with
    | OffOk r => run r
    | OffErr => fail 3
    | OffPrevMismatch => fail 4
    end.

(** sorted, duplicate-free list of salt pairs *)
Fixpoint ins_pair (p : N * N) (l : list (N * N)) : list (N * N) :=
  match l with
  | [] => [p]
  | q :: tl =>
      if N.ltb (fst p) (fst q) || (N.eqb (fst p) (fst q) && N.ltb (snd p) (snd q)) then p :: l
      else if pair_eqb p q then l else q :: ins_pair p tl
  end.

(** input [w; until1; until2]   output [status; sorted salt pairs] *)
Definition wal_salts (x : sx) : sx :=
  let w := asNs (nthx 0 x) in
  match read_header w with
  | HdrOk r =>
      let l := frame_salts_until w (r_ps r) (asN (nthx 1 x)) (asN (nthx 2 x)) in
      SL [sxN 0; SL (map (fun p => SL [sxN (fst p); sxN (snd p)]) (fold_right ins_pair [] l))]
  | HdrEOF => SL [sxN 1; SL []]
  | HdrErr => SL [sxN 2; SL []]
  end.

(** the specification side: what SQLite recovers.
    input [w]
    output [status; [[pgno; offset]...] sorted by pgno; mxFrame; nPage; pgno0?]
    status 0 ok | 1 ignored | 2 cantopen;  pgno0? = 1 if the frame that ends the
    valid prefix is salt- and checksum-valid but carries pgno = 0 (outside the
    input class of the property) *)
Fixpoint vis_pages (s : sq_rec) (ps : N) (l : list (N * N)) (acc : pmap N) : pmap N :=
  match l with
  | [] => acc
  | (pg, _) :: tl =>
      let acc' := match sq_visible s pg with
                  | Some i => pm_set pg (frame_offset ps i) acc
                  | None => acc
                  end in
      vis_pages s ps tl acc'
  end.

Definition pgno0_stop (bo : bool) (s1 s2 : N) (vp_len : nat) (ck : N * N) (fs : list (list N)) : bool :=
  (* recompute the running checksum after the valid prefix and test the next frame with the pgno test removed *)
  let fix go (n : nat) (ck : N * N) (fs : list (list N)) : bool :=
    match fs with
    | [] => false
    | f :: tl =>
        match n with
        | O =>
            N.eqb (be32 f 8) s1 && N.eqb (be32 f 12) s2 && N.eqb (be32 f 0) 0 &&
            (let ck1 := wal_checksum bo (fst ck) (snd ck) (firstn 8 f) in
             let ck2 := wal_checksum bo (fst ck1) (snd ck1) (skipn 24 f) in
             pair_eqb ck2 (be32 f 16, be32 f 20))
        | S n' =>
            match sq_decode_frame bo s1 s2 ck f with
            | Some (_, _, ck') => go n' ck' tl
            | None => false
            end
        end
    end in go vp_len ck fs.

Definition wal_spec (x : sx) : sx :=
  let w := asNs (nthx 0 x) in
  match sq_read_header w with
  | SqHdrOk bo ps s1 s2 c1 c2 =>
      let fs := wal_frames ps w in
      let s := sq_recover_frames bo s1 s2 c1 c2 fs in
      SL [sxN 0; sx_pm (vis_pages s ps (firstn (sq_mxFrame s) (sq_frames s)) []);
          sxN (N.of_nat (sq_mxFrame s)); sxN (sq_nPage s);
          sxB (pgno0_stop bo s1 s2 (length (sq_frames s)) (c1, c2) fs)]
  | SqHdrIgnored => SL [sxN 1; SL []; sxN 0; sxN 0; sxN 0]
  | SqHdrCantOpen => SL [sxN 2; SL []; sxN 0; sxN 0; sxN 0]
  end.

(** The property's statement as a decidable test applied to the
    implementation's own output (spec-level oracle):
    input  [w; status; map; end; commit]  as observed from NewWALReader+PageMap
    output 1 if the observation is what SQLite's recovery prescribes, or the
    input is outside the property's input class (page size SQLite rejects,
    checksum-valid frame with pgno 0); 0 otherwise. *)
Definition wal_spec_ok (x : sx) : sx :=
  let w := asNs (nthx 0 x) in
  let st := asN (nthx 1 x) in
  let m := nthx 2 x in
  let e := asN (nthx 3 x) in
  let c := asN (nthx 4 x) in
  sxB
  match sq_read_header w with
  | SqHdrOk bo ps s1 s2 c1 c2 =>
      let fs := wal_frames ps w in
      let s := sq_recover_frames bo s1 s2 c1 c2 fs in
      if pgno0_stop bo s1 s2 (length (sq_frames s)) (c1, c2) fs then true else
      let committed := firstn (sq_mxFrame s) (sq_frames s) in
      let vis := vis_pages s ps committed [] in
      let endmx := frame_offset ps (sq_mxFrame s) in
      N.eqb st 0 && sx_eqb m (sx_pm vis) &&
      match vis with
      | [] => N.eqb c 0 && N.eqb e 0
      | _ =>
          N.eqb c (sq_nPage s) && N.leb e endmx &&
          forallb (fun kv => N.ltb (snd kv) e) vis &&
          match last committed (0, 0) with
          | (pg, _) => if N.leb pg (sq_nPage s) then N.eqb e endmx else true
          end
      end
  | SqHdrIgnored =>
      if Nat.ltb (length w) 32 then N.eqb st 1
      else if negb (is_pow2_in_range (be32 w 8)) then true
      else N.eqb st 1 || N.eqb st 2
  | SqHdrCantOpen => N.eqb st 2
  end.
