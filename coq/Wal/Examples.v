(** Non-vacuity: a concrete 512-byte-page WAL (one committed transaction of two
    frames followed by an uncommitted frame, generated with correct checksums)
    meets the hypotheses of the C09 theorems and yields a non-trivial result. *)
From Coq Require Import List NArith Bool.
From LS Require Import Base.Bytes Base.PMap Wal.Reader Wal.Sqlite Wal.Proofs.
Import ListNotations.
Open Scope N_scope.

Definition ex_wal : list N := concat [
  [55];
  [127];
  [6];
  [130];
  [0];
  [45];
  [226];
  [24];
  [0; 0];
  [2];
  [0; 0; 0; 0];
  [7];
  [0; 0];
  [18];
  [52];
  [0; 0];
  [86];
  [120];
  [15];
  [221];
  [3];
  [19];
  [71];
  [12];
  [218];
  [184];
  [0; 0; 0];
  [2];
  [0; 0; 0; 0; 0; 0];
  [18];
  [52];
  [0; 0];
  [86];
  [120];
  [221];
  [119];
  [38];
  [175];
  [27];
  [61];
  [216];
  [131];
  repeat 1 512;
  [0; 0; 0];
  [1];
  [0; 0; 0];
  [3];
  [0; 0];
  [18];
  [52];
  [0; 0];
  [86];
  [120];
  [116];
  [96];
  [25];
  [45];
  [170];
  [241];
  [42];
  [206];
  [2];
  repeat 0 514;
  [5];
  [0; 0; 0; 0; 0; 0];
  [18];
  [52];
  [0; 0];
  [86];
  [120];
  [119];
  [31];
  [209];
  [191];
  [248];
  [28];
  [184];
  [139];
  repeat 3 512 ].

Definition ex_rd : rd := match read_header ex_wal with HdrOk r => r | _ => mkRd 0 false 0 0 0 0 0 0 end.

Example ex_header_ok : read_header ex_wal = HdrOk ex_rd /\ is_pow2_in_range (r_ps ex_rd) = true.
Proof. vm_compute. split; reflexivity. Qed.

Example ex_valid_prefix :
  ls_valid_prefix (r_bo ex_rd) (r_s1 ex_rd) (r_s2 ex_rd) (r_c1 ex_rd, r_c2 ex_rd)
                  (wal_frames (r_ps ex_rd) ex_wal) = [(2, 0); (1, 3); (5, 0)].
Proof. vm_compute. reflexivity. Qed.

Example ex_no_pgno0 :
  no_pgno0 (ls_valid_prefix (r_bo ex_rd) (r_s1 ex_rd) (r_s2 ex_rd) (r_c1 ex_rd, r_c2 ex_rd)
                            (wal_frames (r_ps ex_rd) ex_wal)).
Proof. rewrite ex_valid_prefix. repeat constructor; cbn; discriminate. Qed.

Example ex_page_map :
  let p := page_map (wal_frames (r_ps ex_rd) ex_wal) ex_rd 0 in
  pr_map p = [(1, 568); (2, 32)] /\ pr_end p = 1104 /\ pr_commit p = 3.
Proof. vm_compute. repeat split; reflexivity. Qed.

Example ex_seq_read_two :
  exists rk, seq_read ex_rd (wal_frames (r_ps ex_rd) ex_wal) 2 = Some rk.
Proof. eexists. vm_compute. reflexivity. Qed.
