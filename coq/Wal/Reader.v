(** Model of /repo/wal_reader.go (WALReader) and litestream.go:WALChecksum.

    Conventions: a WAL file is a [list N] of bytes.  All 32-bit arithmetic of
    the Go code is written with an explicit [u32] wrap.  The reader's position
    is the frame index [r_frameN]; a frame is a complete run of
    [24 + page size] bytes after the 32-byte header (Go: two [ReadAt] calls that
    must both be complete, otherwise io.EOF).  Errors of the underlying reader
    other than a short read do not exist for an in-memory byte string and the
    context is never cancelled; both are outside this model. *)
From Coq Require Import List NArith ZArith Bool Lia.
From LS Require Import Base.Bytes Base.PMap.
Import ListNotations.
Open Scope N_scope.

Definition WALHeaderSize : N := 32.
Definition WALFrameHeaderSize : N := 24.

(** litestream.go: WALChecksum.  [bo = true] is binary.BigEndian. *)
Fixpoint wal_checksum (bo : bool) (s0 s1 : N) (b : list N) {struct b} : N * N :=
  match b with
  | b0 :: b1 :: b2 :: b3 :: b4 :: b5 :: b6 :: b7 :: tl =>
      let s0' := u32 (s0 + (w32 bo [b0; b1; b2; b3] 0 + s1)) in
      let s1' := u32 (s1 + (w32 bo [b4; b5; b6; b7] 0 + s0')) in
      wal_checksum bo s0' s1' tl
  | _ => (s0, s1)
  end.

Record rd := mkRd {
  r_frameN : N;
  r_bo : bool;
  r_ps : N;
  r_seq : N;
  r_s1 : N; r_s2 : N;
  r_c1 : N; r_c2 : N }.

Inductive hres := HdrOk (r : rd) | HdrEOF | HdrErr.

Definition pair_eqb (a b : N * N) : bool := N.eqb (fst a) (fst b) && N.eqb (snd a) (snd b).

(** wal_reader.go: readHeader *)
Definition read_header (w : list N) : hres :=
  if Nat.ltb (length w) 32 then HdrEOF else
  let magic := be32 w 0 in
  let obo := if N.eqb magic 931071618 then Some false      (* 0x377f0682: little endian *)
             else if N.eqb magic 931071619 then Some true  (* 0x377f0683: big endian *)
             else None in
  match obo with
  | None => HdrErr
  | Some bo =>
      let c1 := be32 w 24 in
      let c2 := be32 w 28 in
      if negb (pair_eqb (wal_checksum bo 0 0 (firstn 24 w)) (c1, c2)) then HdrEOF
      else if negb (N.eqb (be32 w 4) 3007000) then HdrErr
      else HdrOk (mkRd 0 bo (be32 w 8) (be32 w 12) (be32 w 16) (be32 w 20) c1 c2)
  end.

Definition frame_size (ps : N) : N := ps + WALFrameHeaderSize.

(** the complete frames of the file, in file order *)
Definition wal_frames (ps : N) (w : list N) : list (list N) :=
  chunks (N.to_nat (frame_size ps)) (skipn 32 w).

(** wal_reader.go: Offset *)
Definition rd_offset (r : rd) : N :=
  if N.eqb (r_frameN r) 0 then 0
  else WALHeaderSize + (r_frameN r - 1) * frame_size (r_ps r).

(** wal_reader.go: readFrame on the frame [f] found at index [r_frameN r];
    [None] is io.EOF. *)
Definition read_frame (r : rd) (verify : bool) (f : list N) : option (N * N * rd) :=
  let salt1 := be32 f 8 in
  let salt2 := be32 f 12 in
  if negb (N.eqb (r_s1 r) salt1 && N.eqb (r_s2 r) salt2) then None else
  let c1 := be32 f 16 in
  let c2 := be32 f 20 in
  let data := skipn 24 f in
  let ock :=
    if verify then
      let '(a1, a2) := wal_checksum (r_bo r) (r_c1 r) (r_c2 r) (firstn 8 f) in
      let '(d1, d2) := wal_checksum (r_bo r) a1 a2 data in
      if negb (N.eqb d1 c1 && N.eqb d2 c2) then None else Some (d1, d2)
    else Some (c1, c2) in
  match ock with
  | None => None
  | Some (k1, k2) =>
      Some (be32 f 0, be32 f 4,
            mkRd (r_frameN r + 1) (r_bo r) (r_ps r) (r_seq r) (r_s1 r) (r_s2 r) k1 k2)
  end.

Record pm_result := mkPM {
  pr_map : pmap N;     (* pgno -> offset of the frame holding its latest version *)
  pr_end : N;
  pr_commit : N;
  pr_limited : bool;
  pr_rd : rd }.        (* reader state afterwards (position for the next call) *)

(** the loop of wal_reader.go: pageMap over the frames not yet read *)
Fixpoint pm_loop (fs : list (list N)) (r : rd) (m tx : pmap N) (commit : N)
         (start maxBytes : N) : pmap N * N * bool * rd :=
  match fs with
  | [] => (m, commit, false, r)
  | f :: tl =>
      match read_frame r true f with
      | None => (m, commit, false, r)
      | Some (pgno, fcommit, r') =>
          let off := rd_offset r' in
          let tx' := pm_set pgno off tx in
          if negb (N.eqb fcommit 0) then
            let m' := pm_union m tx' in
            if N.ltb 0 maxBytes && N.leb maxBytes (off + frame_size (r_ps r) - start)
            then (m', fcommit, true, r')
            else pm_loop tl r' m' [] fcommit start maxBytes
          else pm_loop tl r' m tx' commit start maxBytes
      end
  end.

Definition max_offset (m : pmap N) : N := fold_left (fun e kv => N.max e (snd kv)) m 0.

(** wal_reader.go: pageMap.  [fs] must be [wal_frames (r_ps r) w]. *)
Definition page_map (fs : list (list N)) (r : rd) (maxBytes : N) : pm_result :=
  let start := WALHeaderSize + r_frameN r * frame_size (r_ps r) in
  let '(m, commit, limited, r') :=
      pm_loop (skipn (N.to_nat (r_frameN r)) fs) r [] [] 0 start maxBytes in
  let m' := pm_filter (fun pg _ => N.leb pg commit) m in
  match m' with
  | [] => mkPM [] 0 0 limited r'
  | _ => mkPM m' (max_offset m' + frame_size (r_ps r)) commit limited r'
  end.

Inductive ores := OffOk (r : rd) | OffErr | OffPrevMismatch.

(** wal_reader.go: NewWALReaderWithOffset *)
Definition new_reader_with_offset (w : list N) (offset s1 s2 : N) : ores :=
  if N.leb offset WALHeaderSize then OffErr else
  match read_header w with
  | HdrOk r0 =>
      let fsz := frame_size (r_ps r0) in
      if negb (N.eqb ((offset - WALHeaderSize) mod fsz) 0) then OffErr else
      let n := (offset - WALHeaderSize) / fsz in
      let r1 := mkRd (n - 1) (r_bo r0) (r_ps r0) (r_seq r0) s1 s2 (r_c1 r0) (r_c2 r0) in
      match nth_error (wal_frames (r_ps r0) w) (N.to_nat (n - 1)) with
      | None => OffPrevMismatch
      | Some f =>
          match read_frame r1 false f with
          | None => OffPrevMismatch
          | Some (_, _, r2) => OffOk r2
          end
      end
  | _ => OffErr
  end.

(** wal_reader.go: FrameSaltsUntil — the set of salts of the frame headers from
    the start of the file up to and including the first frame carrying [until].
    Go needs only the 24-byte frame header to be present; the last, incomplete
    frame therefore counts when its header is complete. *)
Fixpoint salts_loop (fuel : nat) (fsz : nat) (rest : list N) (u1 u2 : N)
         (acc : list (N * N)) : list (N * N) :=
  match fuel with
  | O => acc
  | S fu =>
      if Nat.ltb (length rest) 24 then acc else
      let s1 := be32 rest 8 in
      let s2 := be32 rest 12 in
      let acc' := if existsb (pair_eqb (s1, s2)) acc then acc else acc ++ [(s1, s2)] in
      if N.eqb s1 u1 && N.eqb s2 u2 then acc'
      else salts_loop fu fsz (skipn fsz rest) u1 u2 acc'
  end.
Definition frame_salts_until (w : list N) (ps u1 u2 : N) : list (N * N) :=
  salts_loop (length w) (N.to_nat (frame_size ps)) (skipn 32 w) u1 u2 [].
