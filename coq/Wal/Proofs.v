(** Proofs about the WAL reader model (Wal/Reader.v) against the SQLite
    recovery specification (Wal/Sqlite.v). *)
From Coq Require Import List NArith ZArith Bool Lia Arith.
From LS Require Import Base.Bytes Base.PMap Wal.Reader Wal.Sqlite.
Import ListNotations.
Open Scope N_scope.

(* ------------------------------------------------------------------------- *)
(** * Headers *)

Lemma pair_eqb_true a b : pair_eqb a b = true <-> a = b.
Proof.
  destruct a, b; unfold pair_eqb; cbn. rewrite andb_true_iff, !N.eqb_eq.
  split; [intros [-> ->]; reflexivity | intros [= -> ->]; auto].
Qed.

(** litestream accepts a header SQLite accepts, with the same fields *)
Lemma header_sqlite_to_reader w bo ps s1 s2 c1 c2 :
  sq_read_header w = SqHdrOk bo ps s1 s2 c1 c2 ->
  read_header w = HdrOk (mkRd 0 bo ps (be32 w 12) s1 s2 c1 c2).
Proof.
  unfold sq_read_header, read_header.
  destruct (Nat.ltb (length w) 32); [discriminate|].
  destruct (N.eqb (be32 w 0) 931071618) eqn:M0.
  - cbn [orb negb].
    destruct (negb (is_pow2_in_range (be32 w 8))); [discriminate|].
    assert (N.eqb (be32 w 0) 931071619 = false) as ->.
    { apply N.eqb_eq in M0. rewrite M0. reflexivity. }
    destruct (negb (pair_eqb _ _)); [discriminate|].
    destruct (negb (N.eqb (be32 w 4) 3007000)); [discriminate|].
    intros [= <- <- <- <- <- <-]. reflexivity.
  - destruct (N.eqb (be32 w 0) 931071619) eqn:M1; cbn [orb negb]; [|discriminate].
    destruct (negb (is_pow2_in_range (be32 w 8))); [discriminate|].
    destruct (negb (pair_eqb _ _)); [discriminate|].
    destruct (negb (N.eqb (be32 w 4) 3007000)); [discriminate|].
    intros [= <- <- <- <- <- <-]. reflexivity.
Qed.

(** conversely, a header litestream accepts is accepted by SQLite exactly when
    the page size is one SQLite supports *)
Lemma header_reader_to_sqlite w r :
  read_header w = HdrOk r -> is_pow2_in_range (r_ps r) = true ->
  sq_read_header w = SqHdrOk (r_bo r) (r_ps r) (r_s1 r) (r_s2 r) (r_c1 r) (r_c2 r)
  /\ r_frameN r = 0.
Proof.
  unfold sq_read_header, read_header.
  destruct (Nat.ltb (length w) 32); [discriminate|].
  destruct (N.eqb (be32 w 0) 931071618) eqn:M0.
  - cbn [orb negb].
    assert (N.eqb (be32 w 0) 931071619 = false) as ->.
    { apply N.eqb_eq in M0. rewrite M0. reflexivity. }
    destruct (negb (pair_eqb _ _)); [discriminate|].
    destruct (negb (N.eqb (be32 w 4) 3007000)); [discriminate|].
    intros [= <-]; cbn. intros ->. cbn. auto.
  - destruct (N.eqb (be32 w 0) 931071619) eqn:M1; [|discriminate].
    cbn [orb negb].
    destruct (negb (pair_eqb _ _)); [discriminate|].
    destruct (negb (N.eqb (be32 w 4) 3007000)); [discriminate|].
    intros [= <-]; cbn. intros ->. cbn. auto.
Qed.

(** a header SQLite ignores or refuses is never read by litestream, except for
    the unsupported page sizes *)
Lemma header_reject w :
  sq_read_header w = SqHdrIgnored \/ sq_read_header w = SqHdrCantOpen ->
  (exists r, read_header w = HdrOk r /\ is_pow2_in_range (r_ps r) = false)
  \/ read_header w = HdrEOF \/ read_header w = HdrErr.
Proof.
  intros H.
  destruct (read_header w) as [r| |] eqn:R; auto.
  left. exists r. split; [reflexivity|].
  destruct (is_pow2_in_range (r_ps r)) eqn:P; [|reflexivity].
  destruct (header_reader_to_sqlite w r R P) as [S _].
  destruct H as [H|H]; rewrite S in H; discriminate.
Qed.

(* ------------------------------------------------------------------------- *)
(** * Frames: litestream's acceptance test versus walDecodeFrame *)

(** what litestream accepts: like [sq_decode_frame] but without the pgno test *)
Definition ls_decode_frame (bo : bool) (s1 s2 : N) (ck : N * N) (f : list N)
  : option (N * N * (N * N)) :=
  if negb (N.eqb (be32 f 8) s1 && N.eqb (be32 f 12) s2) then None else
  let ck1 := wal_checksum bo (fst ck) (snd ck) (firstn 8 f) in
  let ck2 := wal_checksum bo (fst ck1) (snd ck1) (skipn 24 f) in
  if negb (pair_eqb ck2 (be32 f 16, be32 f 20)) then None else
  Some (be32 f 0, be32 f 4, ck2).

Definition rd_next (r : rd) (ck : N * N) : rd :=
  mkRd (r_frameN r + 1) (r_bo r) (r_ps r) (r_seq r) (r_s1 r) (r_s2 r) (fst ck) (snd ck).

Lemma read_frame_verify r f :
  read_frame r true f =
  match ls_decode_frame (r_bo r) (r_s1 r) (r_s2 r) (r_c1 r, r_c2 r) f with
  | Some (pg, c, ck) => Some (pg, c, rd_next r ck)
  | None => None
  end.
Proof.
  unfold read_frame, ls_decode_frame. cbn [fst snd].
  rewrite (N.eqb_sym (r_s1 r)), (N.eqb_sym (r_s2 r)).
  destruct (negb (N.eqb (be32 f 8) (r_s1 r) && N.eqb (be32 f 12) (r_s2 r))); [reflexivity|].
  destruct (wal_checksum (r_bo r) (r_c1 r) (r_c2 r) (firstn 8 f)) as [a1 a2]. cbn [fst snd].
  destruct (wal_checksum (r_bo r) a1 a2 (skipn 24 f)) as [d1 d2].
  unfold pair_eqb; cbn [fst snd].
  destruct (negb (N.eqb d1 (be32 f 16) && N.eqb d2 (be32 f 20))); reflexivity.
Qed.

(** a frame that passes the checksum test carries its own running checksum, so
    reading it without verification (as the resume path does) gives the same state *)
Lemma read_frame_noverify r f pg c r' :
  read_frame r true f = Some (pg, c, r') -> read_frame r false f = Some (pg, c, r').
Proof.
  unfold read_frame.
  destruct (negb (N.eqb (r_s1 r) (be32 f 8) && N.eqb (r_s2 r) (be32 f 12))); [discriminate|].
  destruct (wal_checksum (r_bo r) (r_c1 r) (r_c2 r) (firstn 8 f)) as [a1 a2].
  destruct (wal_checksum (r_bo r) a1 a2 (skipn 24 f)) as [d1 d2].
  destruct (negb (N.eqb d1 (be32 f 16) && N.eqb d2 (be32 f 20))) eqn:E; [discriminate|].
  apply negb_false_iff, andb_true_iff in E. destruct E as [E1 E2].
  apply N.eqb_eq in E1, E2. subst d1 d2. auto.
Qed.

Lemma sq_ls_decode bo s1 s2 ck f :
  sq_decode_frame bo s1 s2 ck f =
  if N.eqb (be32 f 0) 0 then None else ls_decode_frame bo s1 s2 ck f.
Proof.
  unfold sq_decode_frame, ls_decode_frame.
  destruct (negb (N.eqb (be32 f 8) s1 && N.eqb (be32 f 12) s2)).
  - destruct (N.eqb (be32 f 0) 0); reflexivity.
  - destruct (N.eqb (be32 f 0) 0); reflexivity.
Qed.

(** litestream's valid prefix *)
Fixpoint ls_valid_prefix (bo : bool) (s1 s2 : N) (ck : N * N) (fs : list (list N))
  : list (N * N) :=
  match fs with
  | [] => []
  | f :: tl =>
      match ls_decode_frame bo s1 s2 ck f with
      | None => []
      | Some (pg, tr, ck') => (pg, tr) :: ls_valid_prefix bo s1 s2 ck' tl
      end
  end.

(** the input class of the property: no frame litestream accepts has pgno 0 *)
Definition no_pgno0 (vp : list (N * N)) : Prop := Forall (fun p => fst p <> 0) vp.

Lemma valid_prefix_agree bo s1 s2 fs : forall ck,
  no_pgno0 (ls_valid_prefix bo s1 s2 ck fs) ->
  sq_valid_prefix bo s1 s2 ck fs = ls_valid_prefix bo s1 s2 ck fs.
Proof.
  induction fs as [|f tl IH]; intros ck H; cbn [sq_valid_prefix ls_valid_prefix] in *.
  - reflexivity.
  - rewrite sq_ls_decode.
    destruct (ls_decode_frame bo s1 s2 ck f) as [[[pg tr] ck']|] eqn:D.
    + inversion H as [|? ? Hpg Htl]; subst. cbn in Hpg.
      unfold ls_decode_frame in D.
      destruct (negb _) in D; [discriminate|].
      destruct (negb _) in D; [discriminate|].
      injection D as <- <- <-.
      apply N.eqb_neq in Hpg. rewrite Hpg.
      f_equal. apply IH. exact Htl.
    + destruct (N.eqb (be32 f 0) 0); reflexivity.
Qed.

(* ------------------------------------------------------------------------- *)
(** * The page-map loop as a fold over the valid prefix *)

(** [absorb off fsz vp m tx commit]: effect of accepting the frames [vp], the
    first of which sits at file offset [off] *)
Fixpoint absorb (off fsz : N) (vp : list (N * N)) (m tx : pmap N) (commit : N)
  : pmap N * N :=
  match vp with
  | [] => (m, commit)
  | (pg, c) :: tl =>
      let tx' := pm_set pg off tx in
      if N.eqb c 0 then absorb (off + fsz) fsz tl m tx' commit
      else absorb (off + fsz) fsz tl (pm_union m tx') [] c
  end.

Definition foff (r : rd) : N := WALHeaderSize + r_frameN r * frame_size (r_ps r).

Lemma rd_offset_next r ck : rd_offset (rd_next r ck) = foff r.
Proof.
  unfold rd_offset, rd_next, foff; cbn.
  destruct (N.eqb (r_frameN r + 1) 0) eqn:E; [apply N.eqb_eq in E; lia|].
  replace (r_frameN r + 1 - 1) with (r_frameN r) by lia. reflexivity.
Qed.

Lemma foff_next r ck : foff (rd_next r ck) = foff r + frame_size (r_ps r).
Proof. unfold foff, rd_next; cbn [r_frameN r_ps]. ring. Qed.

Lemma pm_loop_absorb fs : forall r m tx commit start,
  exists r',
    pm_loop fs r m tx commit start 0 =
    (fst (absorb (foff r) (frame_size (r_ps r))
                 (ls_valid_prefix (r_bo r) (r_s1 r) (r_s2 r) (r_c1 r, r_c2 r) fs) m tx commit),
     snd (absorb (foff r) (frame_size (r_ps r))
                 (ls_valid_prefix (r_bo r) (r_s1 r) (r_s2 r) (r_c1 r, r_c2 r) fs) m tx commit),
     false, r').
Proof.
  induction fs as [|f tl IH]; intros r m tx commit start; cbn [pm_loop ls_valid_prefix].
  - exists r. reflexivity.
  - rewrite read_frame_verify.
    destruct (ls_decode_frame (r_bo r) (r_s1 r) (r_s2 r) (r_c1 r, r_c2 r) f) as [[[pg c] ck]|] eqn:D.
    + cbn [absorb]. rewrite rd_offset_next.
      assert (Hnext : forall m0 tx0 c0,
        exists r', pm_loop tl (rd_next r ck) m0 tx0 c0 start 0 =
          (fst (absorb (foff r + frame_size (r_ps r)) (frame_size (r_ps r))
                  (ls_valid_prefix (r_bo r) (r_s1 r) (r_s2 r) ck tl) m0 tx0 c0),
           snd (absorb (foff r + frame_size (r_ps r)) (frame_size (r_ps r))
                  (ls_valid_prefix (r_bo r) (r_s1 r) (r_s2 r) ck tl) m0 tx0 c0),
           false, r')).
      { intros m0 tx0 c0. destruct (IH (rd_next r ck) m0 tx0 c0 start) as [r' Hr'].
        exists r'. rewrite Hr'. rewrite foff_next. cbn. destruct ck; reflexivity. }
      destruct (N.eqb c 0) eqn:Ec; cbn [negb].
      * apply Hnext.
      * cbn [andb N.ltb]. rewrite N.ltb_irrefl. cbn [andb]. apply Hnext.
    + exists r. reflexivity.
Qed.

(* ------------------------------------------------------------------------- *)
(** * What [absorb] computes, in the vocabulary of the specification *)

(** Given the already-accepted state (m, tx, commit) and the remaining valid
    frames [vp] (first at index [i0]):
    - if [vp] contains no commit frame nothing changes in [m] and [commit];
    - otherwise, with [mx] the count up to its last commit frame, page [pg] maps
      to the last frame < mx holding it, else to its pending [tx] entry, else to
      its old [m] entry. *)

(** right-recursive forms of [sq_mx] and [find_last], convenient for induction *)
Fixpoint mxr (vp : list (N * N)) : nat * N :=
  match vp with
  | [] => (0%nat, 0)
  | (_, c) :: tl =>
      let '(k, np) := mxr tl in
      match k with
      | O => if N.eqb c 0 then (0%nat, 0) else (1%nat, c)
      | S _ => (S k, np)
      end
  end.

Fixpoint lastr (pg : N) (l : list (N * N)) : option nat :=
  match l with
  | [] => None
  | (p, _) :: tl =>
      match lastr pg tl with
      | Some j => Some (S j)
      | None => if N.eqb p pg then Some 0%nat else None
      end
  end.

Lemma sq_mx_mxr vp : forall i mx np,
  sq_mx i vp mx np =
  match fst (mxr vp) with
  | O => (mx, np)
  | S _ => ((i + fst (mxr vp))%nat, snd (mxr vp))
  end.
Proof.
  induction vp as [|[p c] tl IH]; intros i mx np; cbn [sq_mx mxr].
  - reflexivity.
  - destruct (mxr tl) as [k np'] eqn:M. cbn [fst snd] in IH.
    destruct (N.eqb c 0) eqn:Ec.
    + rewrite IH. destruct k as [|k']; cbn [fst snd]; [reflexivity|]. f_equal. lia.
    + rewrite IH. destruct k as [|k']; cbn [fst snd]; f_equal; lia.
Qed.

Lemma find_last_lastr pg l : forall i acc,
  find_last pg i l acc =
  match lastr pg l with Some j => Some (i + j)%nat | None => acc end.
Proof.
  induction l as [|[p c] tl IH]; intros i acc; cbn [find_last lastr].
  - reflexivity.
  - rewrite IH. destruct (lastr pg tl) as [j|].
    + f_equal. lia.
    + destruct (N.eqb p pg); [f_equal; lia|reflexivity].
Qed.

Definition off_of (off fsz : N) (i : nat) : N := off + N.of_nat i * fsz.

Lemma off_of_S off fsz j : off_of off fsz (S j) = off_of (off + fsz) fsz j.
Proof. unfold off_of. rewrite Nat2N.inj_succ, N.mul_succ_l. lia. Qed.

Lemma off_of_0 off fsz : off_of off fsz 0 = off.
Proof. unfold off_of. cbn. lia. Qed.

Lemma absorb_spec vp : forall off fsz m tx commit,
  (fst (mxr vp) = 0%nat -> absorb off fsz vp m tx commit = (m, commit)) /\
  ((0 < fst (mxr vp))%nat ->
     snd (absorb off fsz vp m tx commit) = snd (mxr vp) /\
     forall pg, pm_get pg (fst (absorb off fsz vp m tx commit)) =
       match lastr pg (firstn (fst (mxr vp)) vp) with
       | Some i => Some (off_of off fsz i)
       | None => match pm_get pg tx with Some o => Some o | None => pm_get pg m end
       end).
Proof.
  induction vp as [|[p c] tl IH]; intros off fsz m tx commit; cbn [absorb mxr].
  - cbn. split; [reflexivity|lia].
  - destruct (mxr tl) as [k np] eqn:M. cbn [fst snd] in IH.
    destruct (N.eqb c 0) eqn:Ec.
    + (* not a commit frame *)
      destruct (IH (off + fsz) fsz m (pm_set p off tx) commit) as [IH0 IH1].
      destruct k as [|k']; cbn [fst snd].
      * split; [intros _; apply IH0; reflexivity|lia].
      * split; [lia|]. intros _.
        destruct (IH1 ltac:(lia)) as [Hc Hm]. split; [exact Hc|].
        intros pg. rewrite Hm. rewrite firstn_cons. cbn [lastr].
        destruct (lastr pg (firstn (S k') tl)) as [j|].
        -- rewrite off_of_S. reflexivity.
        -- rewrite pm_get_set, (N.eqb_sym p pg).
           destruct (N.eqb pg p); [rewrite off_of_0; reflexivity|reflexivity].
    + (* commit frame *)
      destruct (IH (off + fsz) fsz (pm_union m (pm_set p off tx)) [] c) as [IH0 IH1].
      destruct k as [|k']; cbn [fst snd].
      * split; [lia|]. intros _.
        rewrite (IH0 eq_refl). cbn [fst snd]. split; [reflexivity|].
        intros pg. rewrite firstn_cons. cbn [firstn lastr]. rewrite pm_get_union, pm_get_set, (N.eqb_sym p pg).
        destruct (N.eqb pg p); [rewrite off_of_0; reflexivity|reflexivity].
      * split; [lia|]. intros _.
        destruct (IH1 ltac:(lia)) as [Hc Hm]. split; [exact Hc|].
        intros pg. rewrite Hm. rewrite firstn_cons. cbn [lastr].
        destruct (lastr pg (firstn (S k') tl)) as [j|].
        -- rewrite off_of_S. reflexivity.
        -- cbn [pm_get]. rewrite pm_get_union, pm_get_set, (N.eqb_sym p pg).
           destruct (N.eqb pg p); [rewrite off_of_0; reflexivity|reflexivity].
Qed.

(* ------------------------------------------------------------------------- *)
(** * The main theorem: PageMap computes SQLite's recovery *)

Lemma mxr_zero vp : fst (mxr vp) = 0%nat -> snd (mxr vp) = 0.
Proof.
  induction vp as [|[p c] tl IH]; cbn [mxr]; [reflexivity|].
  destruct (mxr tl) as [k np]. destruct k; [|cbn; discriminate].
  destruct (N.eqb c 0); cbn; [reflexivity|discriminate].
Qed.

Lemma sq_recover_frames_mxr bo s1 s2 c1 c2 fs :
  let vp := sq_valid_prefix bo s1 s2 (c1, c2) fs in
  sq_recover_frames bo s1 s2 c1 c2 fs = mkSq vp (fst (mxr vp)) (snd (mxr vp)).
Proof.
  cbn zeta. unfold sq_recover_frames. rewrite sq_mx_mxr.
  destruct (fst (mxr _)) eqn:F.
  - rewrite (mxr_zero _ F). reflexivity.
  - reflexivity.
Qed.

Lemma sq_find_lastr s pg : sq_find s pg = lastr pg (firstn (sq_mxFrame s) (sq_frames s)).
Proof.
  unfold sq_find. rewrite find_last_lastr. destruct (lastr _ _); reflexivity.
Qed.

Lemma frame_offset_off_of ps i : frame_offset ps i = off_of 32 (frame_size ps) i.
Proof. reflexivity. Qed.

(** the raw (untrimmed) result of the loop on a freshly opened reader *)
Definition pm_raw (fs : list (list N)) (r : rd) : pmap N * N :=
  absorb (foff r) (frame_size (r_ps r))
         (ls_valid_prefix (r_bo r) (r_s1 r) (r_s2 r) (r_c1 r, r_c2 r) (skipn (N.to_nat (r_frameN r)) fs))
         [] [] 0.

Lemma page_map_unlimited fs r :
  exists r',
  page_map fs r 0 =
  let m' := pm_filter (fun pg _ => N.leb pg (snd (pm_raw fs r))) (fst (pm_raw fs r)) in
  match m' with
  | [] => mkPM [] 0 0 false r'
  | _ => mkPM m' (max_offset m' + frame_size (r_ps r)) (snd (pm_raw fs r)) false r'
  end.
Proof.
  unfold page_map, pm_raw.
  destruct (pm_loop_absorb (skipn (N.to_nat (r_frameN r)) fs) r [] [] 0
              (WALHeaderSize + r_frameN r * frame_size (r_ps r))) as [r' H].
  exists r'. rewrite H. reflexivity.
Qed.

Theorem pagemap_is_sqlite_recovery_lemma w r :
  read_header w = HdrOk r -> is_pow2_in_range (r_ps r) = true ->
  no_pgno0 (ls_valid_prefix (r_bo r) (r_s1 r) (r_s2 r) (r_c1 r, r_c2 r) (wal_frames (r_ps r) w)) ->
  exists s, sq_recover w = Some s /\
    let p := page_map (wal_frames (r_ps r) w) r 0 in
    (forall pg, pm_get pg (pr_map p) = option_map (frame_offset (r_ps r)) (sq_visible s pg)) /\
    (pr_map p <> [] -> pr_commit p = sq_nPage s) /\
    (pr_map p = [] -> pr_commit p = 0 /\ pr_end p = 0) /\
    pr_limited p = false.
Proof.
  intros Hh Hps Hno.
  destruct (header_reader_to_sqlite w r Hh Hps) as [Hsq Hf0].
  unfold sq_recover. rewrite Hsq.
  eexists. split; [reflexivity|].
  rewrite sq_recover_frames_mxr. cbn zeta.
  rewrite (valid_prefix_agree _ _ _ _ _ Hno).
  set (fs := wal_frames (r_ps r) w) in *.
  set (vp := ls_valid_prefix (r_bo r) (r_s1 r) (r_s2 r) (r_c1 r, r_c2 r) fs) in *.
  destruct (page_map_unlimited fs r) as [r' Hpm]. rewrite Hpm. clear Hpm.
  unfold pm_raw. rewrite Hf0. cbn [N.to_nat skipn]. fold vp.
  assert (Hoff : foff r = 32) by (unfold foff; rewrite Hf0; reflexivity). rewrite Hoff.
  destruct (absorb_spec vp 32 (frame_size (r_ps r)) [] [] 0) as [A0 A1].
  assert (Hget : forall pg,
     pm_get pg (pm_filter (fun pg0 _ => N.leb pg0 (snd (absorb 32 (frame_size (r_ps r)) vp [] [] 0)))
                          (fst (absorb 32 (frame_size (r_ps r)) vp [] [] 0))) =
     option_map (frame_offset (r_ps r))
       (sq_visible (mkSq vp (fst (mxr vp)) (snd (mxr vp))) pg)).
  { intros pg. rewrite pm_get_filter_key. unfold sq_visible. cbn [sq_nPage].
    rewrite sq_find_lastr. cbn [sq_mxFrame sq_frames].
    destruct (fst (mxr vp)) eqn:K.
    - rewrite (A0 eq_refl). cbn [fst snd pm_get firstn lastr].
      destruct (N.leb pg 0); destruct (N.leb pg (snd (mxr vp))); reflexivity.
    - destruct (A1 ltac:(lia)) as [Hc Hm]. rewrite Hc, Hm. cbn [pm_get].
      destruct (N.leb pg (snd (mxr vp))); [|reflexivity].
      destruct (lastr pg (firstn (S n) vp)); reflexivity. }
  set (m' := pm_filter _ _) in *.
  assert (Hcommit : m' <> [] -> snd (absorb 32 (frame_size (r_ps r)) vp [] [] 0) = snd (mxr vp)).
  { intros Hne. destruct (fst (mxr vp)) eqn:K.
    - exfalso. apply Hne. unfold m'. rewrite (A0 eq_refl). reflexivity.
    - destruct (A1 ltac:(lia)) as [Hc _]. exact Hc. }
  destruct m' as [|kv m''] eqn:Em; cbn [pr_map pr_commit pr_end pr_limited sq_nPage].
  - split; [exact Hget|]. split; [intros C; exfalso; apply C; reflexivity|]. auto.
  - split; [exact Hget|]. split; [intros _; apply Hcommit; discriminate|].
    split; [discriminate|reflexivity].
Qed.

(* ------------------------------------------------------------------------- *)
(** * The end offset *)

Lemma pm_set_Forall (Q : N * N -> Prop) k v m :
  Forall Q m -> Q (k, v) -> Forall Q (pm_set k v m).
Proof.
  intros Hm Hq. induction m as [|[k0 v0] tl IH]; cbn [pm_set].
  - constructor; [exact Hq|constructor].
  - inversion Hm as [|? ? H0 Htl]; subst.
    destruct (N.ltb k k0); [constructor; assumption|].
    destruct (N.eqb k k0); constructor; auto.
Qed.

Lemma pm_union_Forall (Q : N * N -> Prop) m tx :
  Forall Q m -> Forall Q tx -> Forall Q (pm_union m tx).
Proof.
  intros Hm Htx. induction tx as [|[k v] tl IH]; cbn [pm_union fold_right fst snd].
  - exact Hm.
  - inversion Htx as [|? ? H0 Htl]; subst. apply pm_set_Forall; [apply IH; exact Htl|exact H0].
Qed.

Lemma pm_filter_Forall (Q : N * N -> Prop) f m : Forall Q m -> Forall Q (pm_filter f m).
Proof.
  intros H. unfold pm_filter. rewrite Forall_forall in *. intros x Hx.
  apply filter_In in Hx. apply H. tauto.
Qed.

Lemma Forall_weaken {A} (P Q : A -> Prop) l : (forall x, P x -> Q x) -> Forall P l -> Forall Q l.
Proof. intros H F. rewrite Forall_forall in *. auto. Qed.

Lemma off_of_mono off fsz i j : (i <= j)%nat -> off_of off fsz i <= off_of off fsz j.
Proof. unfold off_of. intros H. apply N.add_le_mono_l, N.mul_le_mono_r. lia. Qed.

(** every offset recorded in the result lies strictly before the end of the
    last commit frame *)
Lemma absorb_bound vp : forall off fsz m tx commit,
  Forall (fun kv => snd kv + fsz <= off) m ->
  Forall (fun kv => snd kv + fsz <= off) tx ->
  Forall (fun kv => snd kv + fsz <= off_of off fsz (fst (mxr vp)))
         (fst (absorb off fsz vp m tx commit)).
Proof.
  induction vp as [|[p c] tl IH]; intros off fsz m tx commit Hm Htx.
  - cbn. rewrite off_of_0. exact Hm.
  - destruct (absorb_spec ((p, c) :: tl) off fsz m tx commit) as [A0 _].
    cbn [absorb mxr] in *.
    destruct (mxr tl) as [k np] eqn:M.
    assert (Hm' : Forall (fun kv => snd kv + fsz <= off + fsz) m)
      by (eapply Forall_weaken; [|exact Hm]; cbn; intros; lia).
    assert (Htx' : Forall (fun kv => snd kv + fsz <= off + fsz) (pm_set p off tx)).
    { apply pm_set_Forall; [eapply Forall_weaken; [|exact Htx]; cbn; intros; lia|cbn; lia]. }
    destruct (N.eqb c 0) eqn:Ec.
    + destruct k as [|k']; cbn [fst snd] in *.
      * rewrite (A0 eq_refl). cbn [fst]. rewrite off_of_0. exact Hm.
      * specialize (IH (off + fsz) fsz m (pm_set p off tx) commit Hm' Htx').
        cbn [fst] in IH. rewrite off_of_S. exact IH.
    + assert (Hu : Forall (fun kv => snd kv + fsz <= off + fsz) (pm_union m (pm_set p off tx)))
        by (apply pm_union_Forall; assumption).
      specialize (IH (off + fsz) fsz (pm_union m (pm_set p off tx)) [] c Hu (Forall_nil _)).
      cbn [fst] in IH.
      destruct k as [|k']; cbn [fst snd] in *.
      * rewrite off_of_S. exact IH.
      * rewrite off_of_S. exact IH.
Qed.

Lemma fold_max_le B m : forall e,
  e <= B -> Forall (fun kv : N * N => snd kv <= B) m ->
  fold_left (fun e kv => N.max e (snd kv)) m e <= B.
Proof.
  induction m as [|kv tl IH]; intros e He H; cbn [fold_left]; [exact He|].
  inversion H; subst. apply IH; [lia|assumption].
Qed.

Lemma fold_max_ge_init m : forall e, e <= fold_left (fun e (kv : N * N) => N.max e (snd kv)) m e.
Proof.
  induction m as [|kv tl IH]; intros e; cbn [fold_left]; [lia|].
  etransitivity; [|apply IH]. lia.
Qed.

Lemma fold_max_ge m : forall e kv,
  In kv m -> snd kv <= fold_left (fun e (kv : N * N) => N.max e (snd kv)) m e.
Proof.
  induction m as [|kv0 tl IH]; intros e kv Hin; cbn [fold_left]; [destruct Hin|].
  destruct Hin as [->|Hin].
  - etransitivity; [|apply fold_max_ge_init]. lia.
  - apply IH. exact Hin.
Qed.

Lemma pm_get_In {V} k (v : V) m : pm_get k m = Some v -> In (k, v) m.
Proof.
  induction m as [|[k0 v0] tl IH]; cbn [pm_get]; [discriminate|].
  destruct (N.eqb k k0) eqn:E.
  - apply N.eqb_eq in E. subst. intros [= ->]. left. reflexivity.
  - intros H. right. apply IH. exact H.
Qed.

Lemma mxr_le_length vp : (fst (mxr vp) <= length vp)%nat.
Proof.
  induction vp as [|[p c] tl IH]; cbn [mxr length]; [cbn; lia|].
  destruct (mxr tl) as [k np]. cbn [fst] in IH.
  destruct k; [destruct (N.eqb c 0); cbn; lia|cbn; lia].
Qed.

Lemma lastr_last pg c l : lastr pg (l ++ [(pg, c)]) = Some (length l).
Proof.
  induction l as [|[p c0] tl IH]; cbn [app lastr length].
  - rewrite N.eqb_refl. reflexivity.
  - rewrite IH. reflexivity.
Qed.

(** the frame at index [fst (mxr vp) - 1] is the last commit frame *)
Lemma mxr_last_commit vp k :
  fst (mxr vp) = S k ->
  exists pre pg, firstn (S k) vp = pre ++ [(pg, snd (mxr vp))] /\ length pre = k.
Proof.
  revert k. induction vp as [|[p c] tl IH]; intros k; cbn [mxr]; [discriminate|].
  destruct (mxr tl) as [k0 np] eqn:M. cbn [fst snd] in IH.
  destruct k0 as [|k0'].
  - destruct (N.eqb c 0); cbn [fst snd]; [discriminate|].
    intros [= <-]. exists [], p. split; reflexivity.
  - cbn [fst snd]. intros [= <-].
    destruct (IH k0' eq_refl) as [pre [pg [H1 H2]]].
    exists ((p, c) :: pre), pg. rewrite firstn_cons, H1. split; [reflexivity|cbn; lia].
Qed.

Section EndOffset.
Variables (fs : list (list N)) (r : rd).
Let fsz := frame_size (r_ps r).
Let vp := ls_valid_prefix (r_bo r) (r_s1 r) (r_s2 r) (r_c1 r, r_c2 r)
                          (skipn (N.to_nat (r_frameN r)) fs).
Let p := page_map fs r 0.
Let mx := fst (mxr vp).

(** nothing from beyond the last valid commit frame — a fortiori nothing from or
    after the first invalid frame — is in the map, and [end] never passes it *)
Theorem pagemap_end_bounds_lemma :
  pr_map p <> [] ->
  pr_end p <= off_of (foff r) fsz mx /\
  off_of (foff r) fsz mx <= off_of (foff r) fsz (length vp) /\
  (forall pg off, pm_get pg (pr_map p) = Some off -> off + fsz <= pr_end p) /\
  (forall pre pgl, firstn mx vp = pre ++ [(pgl, snd (mxr vp))] -> pgl <= snd (mxr vp) ->
     pr_end p = off_of (foff r) fsz mx).
Proof.
  subst p. destruct (page_map_unlimited fs r) as [r' Hpm]. rewrite Hpm. clear Hpm.
  unfold pm_raw. fold vp. fold fsz.
  pose proof (absorb_bound vp (foff r) fsz [] [] 0 (Forall_nil _) (Forall_nil _)) as HB.
  fold mx in HB.
  set (raw := absorb (foff r) fsz vp [] [] 0) in *.
  set (m' := pm_filter (fun pg _ => N.leb pg (snd raw)) (fst raw)) in *.
  assert (HB' : Forall (fun kv => snd kv + fsz <= off_of (foff r) fsz mx) m')
    by (apply pm_filter_Forall; exact HB).
  cbn zeta.
  destruct m' as [|kv m''] eqn:Em; cbn [pr_map pr_end]; [intros C; exfalso; apply C; reflexivity|].
  intros _.
  assert (Hmax_le : max_offset (kv :: m'') + fsz <= off_of (foff r) fsz mx).
  { inversion HB' as [|? ? Hkv Htl]; subst.
    assert (max_offset (kv :: m'') <= off_of (foff r) fsz mx - fsz).
    { unfold max_offset. apply fold_max_le; [lia|].
      eapply Forall_weaken; [|exact HB']. cbn. intros; lia. }
    lia. }
  split; [exact Hmax_le|].
  split; [apply off_of_mono, mxr_le_length|].
  split.
  - intros pg off Hg. apply pm_get_In in Hg.
    pose proof (fold_max_ge (kv :: m'') 0 (pg, off) Hg) as H. cbn [snd] in H.
    unfold max_offset. lia.
  - intros pre pgl Hfirst Hle.
    assert (Hk : (0 < mx)%nat).
    { destruct mx eqn:K; [|lia]. cbn in Hfirst. destruct pre; discriminate. }
    destruct (absorb_spec vp (foff r) fsz [] [] 0) as [_ A1].
    fold mx in A1. destruct (A1 Hk) as [Hc Hm]. fold raw in Hc, Hm.
    assert (Hg : pm_get pgl (kv :: m'') = Some (off_of (foff r) fsz (length pre))).
    { rewrite <- Em. unfold m'. rewrite pm_get_filter_key, Hc.
      apply N.leb_le in Hle. rewrite Hle, Hm, Hfirst, lastr_last. reflexivity. }
    apply pm_get_In in Hg.
    pose proof (fold_max_ge (kv :: m'') 0 _ Hg) as H. cbn [snd] in H.
    assert (Hlen : mx = S (length pre)).
    { apply (f_equal (@length _)) in Hfirst. rewrite app_length in Hfirst. cbn in Hfirst.
      rewrite firstn_length_le in Hfirst by apply mxr_le_length. lia. }
    rewrite Hlen in *. rewrite off_of_S in *.
    unfold max_offset in *. unfold off_of in *. lia.
Qed.
End EndOffset.

(* ------------------------------------------------------------------------- *)
(** * Trailing frames without a commit marker change nothing *)

Lemma absorb_app_nocommit vp extra : forall off fsz m tx commit,
  Forall (fun p => snd p = 0) extra ->
  absorb off fsz (vp ++ extra) m tx commit = absorb off fsz vp m tx commit.
Proof.
  induction vp as [|[p c] tl IH]; intros off fsz m tx commit H; cbn [app absorb].
  - revert off tx. induction extra as [|[p c] tl IH]; intros off tx; cbn [absorb]; [reflexivity|].
    inversion H as [|? ? Hc Htl]; subst. cbn in Hc. subst c. cbn. apply IH. exact Htl.
  - destruct (N.eqb c 0); apply IH; exact H.
Qed.

Lemma ls_valid_prefix_app bo s1 s2 fs tail : forall ck,
  exists extra,
    ls_valid_prefix bo s1 s2 ck (fs ++ tail) = ls_valid_prefix bo s1 s2 ck fs ++ extra /\
    Forall (fun p => exists f, In f tail /\ snd p = be32 f 4) extra.
Proof.
  induction fs as [|f tl IH]; intros ck; cbn [app ls_valid_prefix].
  - exists (ls_valid_prefix bo s1 s2 ck tail). split; [reflexivity|].
    revert ck. induction tail as [|f tl IH]; intros ck; cbn [ls_valid_prefix]; [constructor|].
    destruct (ls_decode_frame bo s1 s2 ck f) as [[[pg c] ck']|] eqn:D; [|constructor].
    constructor.
    + exists f. split; [left; reflexivity|]. cbn.
      unfold ls_decode_frame in D.
      destruct (negb _) in D; [discriminate|]. destruct (negb _) in D; [discriminate|].
      injection D as _ <- _. reflexivity.
    + eapply Forall_weaken; [|apply IH]. intros x [f0 [Hin Hx]]. exists f0. split; [right; exact Hin|exact Hx].
  - destruct (ls_decode_frame bo s1 s2 ck f) as [[[pg c] ck']|].
    + destruct (IH ck') as [extra [H1 H2]]. exists extra. rewrite H1. split; [reflexivity|exact H2].
    + exists []. split; [reflexivity|constructor].
Qed.

Theorem pagemap_uncommitted_tail_ignored_lemma fs tail r :
  Forall (fun f => be32 f 4 = 0) tail ->
  (N.to_nat (r_frameN r) <= length fs)%nat ->
  let p := page_map fs r 0 in
  let p' := page_map (fs ++ tail) r 0 in
  pr_map p' = pr_map p /\ pr_end p' = pr_end p /\ pr_commit p' = pr_commit p /\
  pr_limited p' = pr_limited p.
Proof.
  intros Htail Hlen. cbn zeta.
  destruct (page_map_unlimited fs r) as [r1 H1]. destruct (page_map_unlimited (fs ++ tail) r) as [r2 H2].
  rewrite H1, H2. clear H1 H2.
  assert (Hraw : pm_raw (fs ++ tail) r = pm_raw fs r).
  { unfold pm_raw. rewrite skipn_app.
    replace (N.to_nat (r_frameN r) - length fs)%nat with 0%nat by lia. cbn [skipn].
    destruct (ls_valid_prefix_app (r_bo r) (r_s1 r) (r_s2 r) (skipn (N.to_nat (r_frameN r)) fs) tail
                (r_c1 r, r_c2 r)) as [extra [E1 E2]].
    rewrite E1. apply absorb_app_nocommit.
    eapply Forall_weaken; [|exact E2]. intros x [f [Hin Hx]]. rewrite Hx.
    rewrite Forall_forall in Htail. apply Htail. exact Hin. }
  rewrite Hraw. cbn zeta.
  destruct (pm_filter _ _); cbn; auto.
Qed.

(* ------------------------------------------------------------------------- *)
(** * Resuming at an offset gives the state of the sequential reader *)

(** read [k] frames in sequence, verifying the checksum chain *)
Fixpoint seq_read (r : rd) (fs : list (list N)) (k : nat) {struct k} : option rd :=
  match k with
  | O => Some r
  | S k' =>
      match fs with
      | [] => None
      | f :: tl =>
          match read_frame r true f with
          | Some (_, _, r') => seq_read r' tl k'
          | None => None
          end
      end
  end.

Definition same_but_ck (a b : rd) : Prop :=
  r_frameN a = r_frameN b /\ r_bo a = r_bo b /\ r_ps a = r_ps b /\ r_seq a = r_seq b /\
  r_s1 a = r_s1 b /\ r_s2 a = r_s2 b.

Lemma read_frame_noverify_ck a b f :
  same_but_ck a b -> read_frame a false f = read_frame b false f.
Proof.
  intros (H1 & H2 & H3 & H4 & H5 & H6). unfold read_frame.
  rewrite H1, H2, H3, H4, H5, H6. reflexivity.
Qed.

Lemma read_frame_fields r v f pg c r' :
  read_frame r v f = Some (pg, c, r') ->
  r_frameN r' = r_frameN r + 1 /\ r_bo r' = r_bo r /\ r_ps r' = r_ps r /\ r_seq r' = r_seq r /\
  r_s1 r' = r_s1 r /\ r_s2 r' = r_s2 r.
Proof.
  unfold read_frame.
  destruct (negb _); [discriminate|].
  destruct v.
  - destruct (wal_checksum _ _ _ (firstn 8 f)) as [a1 a2].
    destruct (wal_checksum _ a1 a2 _) as [d1 d2].
    destruct (negb _); [discriminate|]. intros [= _ _ <-]. cbn. tauto.
  - intros [= _ _ <-]. cbn. tauto.
Qed.

(** the reader after [k-1] verified frames and the frame it reads next *)
Lemma seq_read_last r fs : forall k rk,
  seq_read r fs (S k) = Some rk ->
  exists rp f pg c, seq_read r fs k = Some rp /\ nth_error fs k = Some f /\
                    read_frame rp true f = Some (pg, c, rk) /\
                    r_frameN rp = r_frameN r + N.of_nat k /\
                    r_bo rp = r_bo r /\ r_ps rp = r_ps r /\ r_seq rp = r_seq r /\
                    r_s1 rp = r_s1 r /\ r_s2 rp = r_s2 r.
Proof.
  revert r. induction fs as [|f tl IH]; intros r k rk; cbn [seq_read]; [discriminate|].
  destruct (read_frame r true f) as [[[pg c] r1]|] eqn:R; [|discriminate].
  destruct k as [|k'].
  - cbn [seq_read]. intros [= ->].
    exists r, f, pg, c. cbn [nth_error]. repeat split; try reflexivity; try exact R. lia.
  - intros H. destruct (IH r1 k' rk H) as (rp & f' & pg' & c' & H1 & H2 & H3 & H4 & H5 & H6 & H7 & H8 & H9).
    destruct (read_frame_fields _ _ _ _ _ _ R) as (F1 & F2 & F3 & F4 & F5 & F6).
    exists rp, f', pg', c'. cbn [seq_read nth_error]. rewrite R.
    repeat split; try assumption; try congruence.
    rewrite H4, F1. lia.
Qed.

Theorem resume_equiv_lemma w r0 k rk :
  read_header w = HdrOk r0 ->
  seq_read r0 (wal_frames (r_ps r0) w) (S k) = Some rk ->
  new_reader_with_offset w (WALHeaderSize + N.of_nat (S k) * frame_size (r_ps r0))
                         (r_s1 r0) (r_s2 r0) = OffOk rk.
Proof.
  intros Hh Hseq.
  assert (Hf0 : r_frameN r0 = 0).
  { unfold read_header in Hh.
    destruct (Nat.ltb _ _); [discriminate|]. destruct (if N.eqb _ _ then _ else _); [|discriminate].
    destruct (negb _); [discriminate|]. destruct (negb _); [discriminate|].
    injection Hh as <-. reflexivity. }
  destruct (seq_read_last _ _ _ _ Hseq) as (rp & f & pg & c & H1 & H2 & H3 & H4 & H5 & H6 & H7 & H8 & H9).
  unfold new_reader_with_offset. rewrite Hh.
  set (fsz := frame_size (r_ps r0)).
  assert (Hfsz : 0 < fsz) by (unfold fsz, frame_size, WALFrameHeaderSize; lia).
  assert (Hgt : N.leb (WALHeaderSize + N.of_nat (S k) * fsz) WALHeaderSize = false).
  { apply N.leb_gt. rewrite Nat2N.inj_succ, N.mul_succ_l. lia. }
  rewrite Hgt.
  replace (WALHeaderSize + N.of_nat (S k) * fsz - WALHeaderSize) with (N.of_nat (S k) * fsz) by lia.
  rewrite N.mod_mul by lia. cbn [N.eqb negb].
  rewrite N.div_mul by lia.
  replace (N.of_nat (S k) - 1) with (N.of_nat k) by lia.
  rewrite Nat2N.id, H2.
  rewrite (read_frame_noverify_ck _ rp).
  - rewrite (read_frame_noverify _ _ _ _ _ H3). reflexivity.
  - unfold same_but_ck; cbn. rewrite H4, Hf0, H5, H6, H7, H8, H9. repeat split; reflexivity || lia.
Qed.
