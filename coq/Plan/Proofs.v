(** Proofs about the planner model: cursor invariant, soundness, completeness,
    latest-mode reach, fuel, timestamp lemmas. *)
From Coq Require Import List Arith NArith Bool Lia Sorted.
From LS Require Import Plan.Planner Plan.Spec.
Import ListNotations.
Open Scope N_scope.

(** ** small tools *)

Ltac bdestr :=
  repeat match goal with
  | H : context [N.eqb ?a ?b] |- _ => destruct (N.eqb_spec a b)
  | |- context [N.eqb ?a ?b] => destruct (N.eqb_spec a b)
  | H : context [N.ltb ?a ?b] |- _ => destruct (N.ltb_spec a b)
  | |- context [N.ltb ?a ?b] => destruct (N.ltb_spec a b)
  | H : context [N.leb ?a ?b] |- _ => destruct (N.leb_spec a b)
  | |- context [N.leb ?a ?b] => destruct (N.leb_spec a b)
  end.

Ltac splits := repeat match goal with |- _ /\ _ => split end.

(** a file passes the two filters of [refresh] / the snapshot scan *)
Definition eligb (tgt ts : N) (f : file) : bool :=
  (N.eqb tgt 0 || N.leb (f_max f) tgt) && (N.eqb ts 0 || N.ltb (f_created f) ts).

Lemma eligb_spec tgt ts f :
  eligb tgt ts f = true <-> (tgt = 0 \/ f_max f <= tgt) /\ (ts = 0 \/ f_created f < ts).
Proof. unfold eligb. bdestr; simpl; split; intros; try discriminate; try lia; auto. Qed.

Lemma better_max_true c i : restore_candidate_better c i = true -> f_max c <= f_max i.
Proof. unfold restore_candidate_better. bdestr; simpl; intros; try discriminate; lia. Qed.

Lemma better_max_false c i : restore_candidate_better c i = false -> f_max i <= f_max c.
Proof. unfold restore_candidate_better. bdestr; simpl; intros; try discriminate; lia. Qed.

Definition str (cur : option file) (rest : list file) : list file :=
  match cur with Some f => f :: rest | None => rest end.

Lemma c_stream_str c : c_stream c = str (c_current c) (c_rest c).
Proof. reflexivity. Qed.

(** ** the loop of [refresh] *)

Lemma scan_inv cm tgt ts : forall stream cand cand' cur' rest' done',
  refresh_scan cm tgt ts cand stream = (cand', cur', rest', done') ->
  exists used, stream = used ++ str cur' rest' /\
   (forall f, In f used -> f_min f <= cm + 1) /\
   (forall f, In f used -> eligb tgt ts f = true ->
              f_max f <= cm \/ exists g, cand' = Some g /\ f_max f <= f_max g) /\
   (forall g, cand' = Some g -> cand = Some g \/ (In g used /\ eligb tgt ts g = true)) /\
   (forall g0, cand = Some g0 -> exists g, cand' = Some g /\ f_max g0 <= f_max g) /\
   (done' = true -> cur' = None /\ rest' = []) /\
   (done' = false -> exists f, cur' = Some f /\ cm + 1 < f_min f).
Proof.
  induction stream as [|info tl IH]; simpl; intros cand cand' cur' rest' done' H.
  - inversion H; subst. exists []. simpl. splits; auto; try contradiction; try discriminate.
    intros g0 Hg. exists g0. split; auto. lia.
  - destruct (N.ltb_spec (cm + 1) (f_min info)) as [Hgap|Hmin].
    { inversion H; subst. exists []. simpl. splits; auto; try contradiction; try discriminate.
      - intros g0 Hg. exists g0. split; auto. lia.
      - intros _. exists info. auto. }
    (* info is consumed *)
    assert (SKIP : forall c0,
      refresh_scan cm tgt ts c0 tl = (cand', cur', rest', done') ->
      (forall g, c0 = Some g -> cand = Some g \/ (g = info /\ eligb tgt ts info = true)) ->
      (forall g0, cand = Some g0 -> exists g, c0 = Some g /\ f_max g0 <= f_max g) ->
      (eligb tgt ts info = true -> f_max info <= cm \/ exists g, c0 = Some g /\ f_max info <= f_max g) ->
      exists used, info :: tl = used ++ str cur' rest' /\
       (forall f, In f used -> f_min f <= cm + 1) /\
       (forall f, In f used -> eligb tgt ts f = true ->
              f_max f <= cm \/ exists g, cand' = Some g /\ f_max f <= f_max g) /\
       (forall g, cand' = Some g -> cand = Some g \/ (In g used /\ eligb tgt ts g = true)) /\
       (forall g0, cand = Some g0 -> exists g, cand' = Some g /\ f_max g0 <= f_max g) /\
       (done' = true -> cur' = None /\ rest' = []) /\
       (done' = false -> exists f, cur' = Some f /\ cm + 1 < f_min f)).
    { intros c0 Hrec Hc0 Hmono Hinfo.
      destruct (IH _ _ _ _ _ Hrec) as (used & Hs & Hm & He & Hc & Hg & Hd & Hnd).
      exists (info :: used). simpl. rewrite Hs. splits; auto.
      - intros f [->|Hf]; auto.
      - intros f [->|Hf] Hel; [|auto].
        destruct (Hinfo Hel) as [Hle|(g & Hg0 & Hle)]; auto.
        destruct (Hg _ Hg0) as (g' & Hg' & Hle'). right. exists g'. split; auto. lia.
      - intros g Hcg. destruct (Hc _ Hcg) as [Hc1|[Hin Hel]]; [|right; auto].
        destruct (Hc0 _ Hc1) as [Hl|[-> Hel]]; auto.
      - intros g0 Hcg. destruct (Hmono _ Hcg) as (g & Hg1 & Hle).
        destruct (Hg _ Hg1) as (g' & Hg' & Hle'). exists g'. split; auto. lia. }
    destruct (N.leb_spec (f_max info) cm) as [Hold|Hnew].
    { apply (SKIP cand H); auto.
      intros g0 Hg0. exists g0. split; auto. lia. }
    destruct (negb (N.eqb tgt 0) && N.ltb tgt (f_max info)) eqn:Etgt.
    { apply (SKIP cand H); auto.
      - intros g0 Hg0. exists g0. split; auto. lia.
      - intros Hel. apply eligb_spec in Hel. exfalso.
        apply andb_true_iff in Etgt. destruct Etgt as [E1 E2].
        apply negb_true_iff in E1. apply N.eqb_neq in E1. apply N.ltb_lt in E2. lia. }
    destruct (negb (N.eqb ts 0) && negb (N.ltb (f_created info) ts)) eqn:Ets.
    { apply (SKIP cand H); auto.
      - intros g0 Hg0. exists g0. split; auto. lia.
      - intros Hel. apply eligb_spec in Hel. exfalso.
        apply andb_true_iff in Ets. destruct Ets as [E1 E2].
        apply negb_true_iff in E1. apply N.eqb_neq in E1.
        apply negb_true_iff in E2. apply N.ltb_ge in E2. lia. }
    assert (Hel : eligb tgt ts info = true).
    { apply eligb_spec. apply andb_false_iff in Etgt. apply andb_false_iff in Ets.
      split.
      - destruct Etgt as [E|E]; [apply negb_false_iff, N.eqb_eq in E; auto|apply N.ltb_ge in E; auto].
      - destruct Ets as [E|E]; [apply negb_false_iff, N.eqb_eq in E; auto|].
        apply negb_false_iff, N.ltb_lt in E; auto. }
    destruct cand as [c|].
    + destruct (restore_candidate_better c info) eqn:Eb.
      * apply (SKIP (Some info) H).
        -- intros g Hg. inversion Hg; subst. right; auto.
        -- intros g0 Hg0. inversion Hg0; subst. exists info. split; auto.
           apply better_max_true; auto.
        -- intros _. right. exists info. split; auto. lia.
      * apply (SKIP (Some c) H).
        -- intros g Hg. left; auto.
        -- intros g0 Hg0. exists g0. split; auto. lia.
        -- intros _. right. exists c. split; auto. apply better_max_false; auto.
    + apply (SKIP (Some info) H).
      * intros g Hg. inversion Hg; subst. right; auto.
      * intros g0 Hg0. discriminate.
      * intros _. right. exists info. split; auto. lia.
Qed.

(** ** invariant of one cursor, relative to the listing [L] it iterates over
    and the current [currentMax] *)

Definition cinv (tgt ts : N) (L : list file) (cm : N) (c : cursor) : Prop :=
  (exists consumed, L = consumed ++ c_stream c /\
     (forall f, In f consumed -> f_min f <= cm + 1) /\
     (forall f, In f consumed -> eligb tgt ts f = true ->
        f_max f <= cm \/ exists g, c_candidate c = Some g /\ f_max f <= f_max g) /\
     (forall g, c_candidate c = Some g -> In g consumed /\ eligb tgt ts g = true)) /\
  (c_done c = true -> c_stream c = []).

(** after [refresh]: exhausted, or stopped in front of a file that starts beyond currentMax+1 *)
Definition cpost (cm : N) (c : cursor) : Prop :=
  c_done c = true \/ exists f, c_current c = Some f /\ cm + 1 < f_min f.

Lemma cinv_new tgt ts L cm : cinv tgt ts L cm (new_cursor L).
Proof.
  split; [|discriminate]. exists []. simpl. splits; auto; try contradiction; discriminate.
Qed.

Lemma cinv_mono tgt ts L cm cm' c : cinv tgt ts L cm c -> cm <= cm' -> cinv tgt ts L cm' c.
Proof.
  intros [(cons & HL & Hm & He & Hc) Hd] Hle. split; auto.
  exists cons. splits; auto.
  - intros f Hf. specialize (Hm f Hf). lia.
  - intros f Hf Hel. destruct (He f Hf Hel) as [H|H]; auto. left; lia.
Qed.

Lemma cinv_clear tgt ts L cm cm' c g :
  cinv tgt ts L cm c -> c_candidate c = Some g -> f_max g <= cm' -> cm <= cm' ->
  cinv tgt ts L cm' (clear_candidate c).
Proof.
  intros [(cons & HL & Hm & He & Hc) Hd] Hg Hgle Hle. split; auto.
  exists cons. unfold clear_candidate, c_stream in *; simpl. splits; auto.
  - intros f Hf. specialize (Hm f Hf). lia.
  - intros f Hf Hel. left. destruct (He f Hf Hel) as [H|(g' & Hg' & H)]; [lia|].
    rewrite Hg in Hg'. inversion Hg'; subst. lia.
  - discriminate.
Qed.

Lemma refresh_inv tgt ts L cm c :
  cinv tgt ts L cm c ->
  cinv tgt ts L cm (refresh cm tgt ts c) /\ cpost cm (refresh cm tgt ts c).
Proof.
  intros Hinv. unfold refresh. destruct (c_done c) eqn:D.
  { split; auto. left; auto. }
  destruct Hinv as [(cons & HL & Hm & He & Hc) Hd].
  set (cand0 := match c_candidate c with
                | Some g => if N.leb (f_max g) cm then None else Some g
                | None => None end).
  destruct (refresh_scan cm tgt ts cand0 (c_stream c)) as [[[cand' cur'] rest'] done'] eqn:ES.
  destruct (scan_inv _ _ _ _ _ _ _ _ _ ES) as (used & Hs & Hm' & He' & Hc' & Hg' & Hd' & Hnd').
  assert (Hc0 : forall g, cand0 = Some g -> c_candidate c = Some g).
  { intros g. unfold cand0. destruct (c_candidate c) as [g0|]; [|discriminate].
    destruct (N.leb (f_max g0) cm); [discriminate|auto]. }
  split.
  - split.
    + exists (cons ++ used). unfold c_stream; simpl. fold (str cur' rest'). splits.
      * rewrite <- app_assoc, <- Hs. exact HL.
      * intros f Hf. apply in_app_or in Hf. destruct Hf; auto.
      * intros f Hf Hel. apply in_app_or in Hf. destruct Hf as [Hf|Hf]; [|auto].
        destruct (He f Hf Hel) as [H|(g & Hg & H)]; auto.
        destruct (N.leb_spec (f_max g) cm) as [Hs1|Hs1]; [left; lia|].
        assert (E : cand0 = Some g).
        { unfold cand0. rewrite Hg. destruct (N.leb_spec (f_max g) cm); [lia|auto]. }
        destruct (Hg' _ E) as (g' & Hgg & Hle). right. exists g'. split; auto. lia.
      * intros g Hg. destruct (Hc' _ Hg) as [H|[H1 H2]].
        -- destruct (Hc _ (Hc0 _ H)). split; auto. apply in_or_app; auto.
        -- split; auto. apply in_or_app; auto.
    + simpl. unfold c_stream; simpl. intros ->. destruct (Hd' eq_refl) as [-> ->]. reflexivity.
  - unfold cpost; simpl. destruct done'; [left; auto|right; auto].
Qed.

(** ** choosing [next] *)

Lemma pick_next_some : forall cs i0 next i g,
  pick_next i0 cs next = Some (i, g) ->
  next = Some (i, g) \/
  exists c, (i0 <= i)%nat /\ nth_error cs (i - i0) = Some c /\ c_candidate c = Some g.
Proof.
  induction cs as [|c tl IH]; simpl; intros i0 next i g H; auto.
  assert (SHIFT : forall x, (exists c', (S i0 <= i)%nat /\ nth_error tl (i - S i0) = Some c' /\ c_candidate c' = Some x) ->
                       exists c', (i0 <= i)%nat /\ nth_error (c :: tl) (i - i0) = Some c' /\ c_candidate c' = Some x).
  { intros x (c' & Hle & Hn & Hc). exists c'. split; [lia|]. split; auto.
    replace (i - i0)%nat with (S (i - S i0)) by lia. exact Hn. }
  assert (HERE : forall x, c_candidate c = Some x ->
                      exists c', (i0 <= i0)%nat /\ nth_error (c :: tl) (i0 - i0) = Some c' /\ c_candidate c' = Some x).
  { intros x Hx. exists c. rewrite PeanoNat.Nat.sub_diag. simpl. auto. }
  destruct (c_candidate c) as [gc|] eqn:Ec.
  - destruct next as [[ni ng]|].
    + destruct (restore_candidate_better ng gc).
      * destruct (IH _ _ _ _ H) as [E|E]; [inversion E; subst; right; apply HERE; auto|right; apply SHIFT; auto].
      * destruct (IH _ _ _ _ H) as [E|E]; [left; auto|right; apply SHIFT; auto].
    + destruct (IH _ _ _ _ H) as [E|E]; [inversion E; subst; right; apply HERE; auto|right; apply SHIFT; auto].
  - destruct (IH _ _ _ _ H) as [E|E]; [left; auto|right; apply SHIFT; auto].
Qed.

Lemma pick_next_none : forall cs i0 next,
  pick_next i0 cs next = None -> next = None /\ Forall (fun c => c_candidate c = None) cs.
Proof.
  induction cs as [|c tl IH]; simpl; intros i0 next H; auto.
  destruct (c_candidate c) as [gc|] eqn:Ec.
  - destruct next as [[ni ng]|].
    + destruct (restore_candidate_better ng gc); destruct (IH _ _ H) as [E _]; discriminate.
    + destruct (IH _ _ H) as [E _]; discriminate.
  - destruct (IH _ _ H) as [E F]. split; auto.
Qed.

Lemma F2_impl {A B} (P Q : A -> B -> Prop) l1 l2 :
  (forall a b, P a b -> Q a b) -> Forall2 P l1 l2 -> Forall2 Q l1 l2.
Proof. intros H F. induction F; constructor; auto. Qed.

Lemma clear_at_inv tgt ts cm cm' : forall Ls cs i c g,
  Forall2 (fun L c => cinv tgt ts L cm c) Ls cs ->
  nth_error cs i = Some c -> c_candidate c = Some g -> f_max g <= cm' -> cm <= cm' ->
  Forall2 (fun L c => cinv tgt ts L cm' c) Ls (clear_at i cs).
Proof.
  intros Ls cs i c g H. revert i. induction H as [|L c0 Ls cs H0 H IH]; intros i Hn Hg Hle1 Hle2.
  - destruct i; discriminate.
  - destruct i; simpl in *.
    + inversion Hn; subst. constructor.
      * apply cinv_clear with (cm := cm) (g := g); auto.
      * eapply F2_impl; [|exact H]. intros a b Hab; simpl in Hab; apply cinv_mono with (cm := cm); auto.
    + constructor; [apply cinv_mono with (cm := cm); auto|]. apply IH; auto.
Qed.

Lemma picked_props tgt ts cm : forall Ls cs i c g,
  Forall2 (fun L c => cinv tgt ts L cm c) Ls cs ->
  nth_error cs i = Some c -> c_candidate c = Some g ->
  (exists L, In L Ls /\ In g L) /\ eligb tgt ts g = true /\ f_min g <= cm + 1.
Proof.
  intros Ls cs i c g H. revert i. induction H as [|L c0 Ls cs H0 H IH]; intros i Hn Hg.
  - destruct i; discriminate.
  - destruct i; simpl in *.
    + inversion Hn; subst. destruct H0 as [(cons & HL & Hm & He & Hc) Hd].
      destruct (Hc _ Hg) as [Hin Hel]. splits; auto.
      exists L. split; auto. rewrite HL. apply in_or_app; auto.
    + destruct (IH _ Hn Hg) as ((L' & HinL & Hing) & Hel & Hmin). splits; auto.
      exists L'. split; auto.
Qed.

(** ** chains *)

Definition endfrom (c : N) (p : list file) : N :=
  match p with [] => c | _ => chain_end p end.

Lemma chain_end_cons f g tl : chain_end (f :: g :: tl) = chain_end (g :: tl).
Proof. reflexivity. Qed.

Lemma endfrom_cons c f tl : endfrom c (f :: tl) = endfrom (f_max f) tl.
Proof. destruct tl; reflexivity. Qed.

Lemma chain_end_snoc p g : chain_end (p ++ [g]) = f_max g.
Proof. unfold chain_end. rewrite last_last. reflexivity. Qed.

Lemma endfrom0 p : endfrom 0 p = chain_end p.
Proof. destruct p; reflexivity. Qed.

Lemma infos_max_end p : infos_max p = chain_end p.
Proof.
  unfold infos_max. destruct p as [|f tl] using rev_ind; [reflexivity|].
  rewrite rev_app_distr, chain_end_snoc. reflexivity.
Qed.

Lemma links_snoc : forall p c g,
  links c p -> f_min g <= endfrom c p + 1 -> endfrom c p < f_max g -> links c (p ++ [g]).
Proof.
  induction p as [|f tl IH]; simpl; intros c g H H1 H2; auto.
  destruct H as (Ha & Hb & Hc). splits; auto.
  apply IH; auto; rewrite <- endfrom_cons with (c := c); auto.
Qed.

Lemma links_end_gt : forall p c, links c p -> p <> [] -> c < chain_end p.
Proof.
  induction p as [|f tl IH]; simpl; intros c H Hne; [congruence|].
  destruct H as (Ha & Hb & Hc). destruct tl as [|g tl]; [exact Hb|].
  rewrite chain_end_cons. specialize (IH _ Hc). assert (g :: tl <> []) by discriminate. specialize (IH H). lia.
Qed.

Lemma links_le_end : forall p c, links c p -> forall f, In f p -> f_max f <= chain_end p.
Proof.
  induction p as [|f tl IH]; simpl; intros c H x Hx; [contradiction|].
  destruct H as (Ha & Hb & Hc). destruct tl as [|g tl].
  - destruct Hx as [->|[]]. unfold chain_end; simpl; lia.
  - rewrite chain_end_cons. destruct Hx as [->|Hx]; [|eapply IH; eauto].
    assert (g :: tl <> []) by discriminate. pose proof (links_end_gt _ _ Hc H). lia.
Qed.

(** [closed]: no eligible file extends [cm] *)
Definition closed (all : list file) (tgt ts cm : N) : Prop :=
  forall f, In f all -> eligb tgt ts f = true -> f_max f <= cm \/ cm + 1 < f_min f.

Lemma closed_blocks all tgt ts cm : closed all tgt ts cm ->
  forall p c, c <= cm -> (forall f, In f p -> In f all /\ eligb tgt ts f = true) ->
  links c p -> endfrom c p <= cm.
Proof.
  intros Hcl. induction p as [|f tl IH]; simpl; intros c Hc Hin Hl; auto.
  destruct Hl as (Ha & Hb & Hl).
  destruct (Hin f (or_introl eq_refl)) as [Hf Hel].
  destruct (Hcl f Hf Hel) as [H|H]; [|lia].
  change (endfrom c (f :: tl) <= cm). rewrite endfrom_cons. apply IH; auto.
Qed.

(** ** the main loop *)

Definition infos_ok (all : list file) (tgt ts : N) (infos : list file) : Prop :=
  forall f, In f infos -> In f all /\ eligb tgt ts f = true.

Lemma Forall2_map_refresh tgt ts cm Ls cs :
  Forall2 (fun L c => cinv tgt ts L cm c) Ls cs ->
  Forall2 (fun L c => cinv tgt ts L cm c) Ls (map (refresh cm tgt ts) cs) /\
  Forall (cpost cm) (map (refresh cm tgt ts) cs).
Proof.
  induction 1 as [|L c Ls cs H0 H IH]; simpl; [split; constructor|].
  destruct IH as [IH1 IH2]. destruct (refresh_inv _ _ _ _ _ H0) as [A B].
  split; constructor; auto.
Qed.

Definition break_state (tgt cm : N) (cs : list cursor) : Prop :=
  (tgt <> 0 /\ tgt <= cm) \/
  (Forall (fun c => c_candidate c = None) cs /\ Forall (cpost cm) cs).

Lemma main_loop_inv all Ls tgt ts : (forall L, In L Ls -> incl L all) ->
  forall fuel cs cm infos cs' cm' infos',
  Forall2 (fun L c => cinv tgt ts L cm c) Ls cs ->
  chain_end infos = cm -> infos_ok all tgt ts infos ->
  main_loop fuel tgt ts cs cm infos = LBreak cs' cm' infos' ->
  Forall2 (fun L c => cinv tgt ts L cm' c) Ls cs' /\
  chain_end infos' = cm' /\ infos_ok all tgt ts infos' /\
  (links 0 infos -> links 0 infos') /\
  break_state tgt cm' cs' /\ cm <= cm' /\ (infos <> [] -> infos' <> []).
Proof.
  intros Hall. induction fuel as [|k IH]; simpl; intros cs cm infos cs' cm' infos' Hinv Hend Hok H; [discriminate|].
  destruct (Forall2_map_refresh _ _ _ _ _ Hinv) as [Hinv1 Hpost].
  set (cs1 := map (refresh cm tgt ts) cs) in *.
  destruct (pick_next 0 cs1 None) as [[i g]|] eqn:EP.
  - destruct (pick_next_some _ _ _ _ _ EP) as [E|(c & _ & Hn & Hg)]; [discriminate|].
    rewrite Nat.sub_0_r in Hn.
    destruct (picked_props _ _ _ _ _ _ _ _ Hinv1 Hn Hg) as ((L & HL & HgL) & Hel & Hmin).
    destruct (N.leb_spec (f_max g) cm) as [Hstale|Hnew].
    + apply IH in H; auto.
      apply clear_at_inv with (cm := cm) (c := c) (g := g); auto. lia.
    + assert (Hinv2 : Forall2 (fun L c => cinv tgt ts L (f_max g) c) Ls (clear_at i cs1)).
      { apply clear_at_inv with (cm := cm) (c := c) (g := g); auto; lia. }
      assert (Hok2 : infos_ok all tgt ts (infos ++ [g])).
      { intros f Hf. apply in_app_or in Hf. destruct Hf as [Hf|[<-|[]]]; auto.
        split; auto. apply (Hall L HL); auto. }
      assert (Hl2 : links 0 infos -> links 0 (infos ++ [g])).
      { intros Hl. apply links_snoc; auto; rewrite endfrom0, Hend; auto. }
      assert (Hne : infos ++ [g] <> []) by (destruct infos; discriminate).
      destruct (negb (N.eqb tgt 0) && N.leb tgt (f_max g)) eqn:ET.
      * inversion H; subst. splits; auto.
        -- apply chain_end_snoc.
        -- left. apply andb_true_iff in ET. destruct ET as [E1 E2].
           apply negb_true_iff, N.eqb_neq in E1. apply N.leb_le in E2. auto.
        -- lia.
      * apply IH in H; auto; [|apply chain_end_snoc].
        destruct H as (A & B & C & D & E & F & G). splits; auto. lia.
  - inversion H; subst. destruct (pick_next_none _ _ _ EP) as [_ Hnone].
    splits; auto. right; auto. lia.
Qed.

(** ** the snapshot scan *)

Lemma elig_filters tgt ts f :
  eligb tgt ts f =
  negb (negb (N.eqb tgt 0) && N.ltb tgt (f_max f)) &&
  negb (negb (N.eqb ts 0) && negb (N.ltb (f_created f) ts)).
Proof. unfold eligb. bdestr; simpl; try reflexivity; lia. Qed.

Lemma snapshot_scan_spec tgt ts : forall l s0,
  match snapshot_scan tgt ts l s0 with
  | Some s => (s0 = Some s /\ forall f, In f l -> eligb tgt ts f = false) \/
              (exists l1 l2, l = l1 ++ s :: l2 /\ eligb tgt ts s = true /\
                             forall f, In f l2 -> eligb tgt ts f = false)
  | None => s0 = None /\ forall f, In f l -> eligb tgt ts f = false
  end.
Proof.
  induction l as [|info tl IH]; simpl; intros s0.
  - destruct s0; [left|]; split; auto; intros; contradiction.
  - pose proof (elig_filters tgt ts info) as EF.
    assert (SKIP : eligb tgt ts info = false ->
      match snapshot_scan tgt ts tl s0 with
      | Some s => (s0 = Some s /\ forall f, info = f \/ In f tl -> eligb tgt ts f = false) \/
              (exists l1 l2, info :: tl = l1 ++ s :: l2 /\ eligb tgt ts s = true /\
                             forall f, In f l2 -> eligb tgt ts f = false)
      | None => s0 = None /\ forall f, info = f \/ In f tl -> eligb tgt ts f = false
      end).
    { intros Hne. specialize (IH s0). destruct (snapshot_scan tgt ts tl s0) as [s|].
      - destruct IH as [[E H]|(l1 & l2 & E & H1 & H2)].
        + left. split; auto. intros f [<-|Hf]; auto.
        + right. exists (info :: l1), l2. rewrite E. auto.
      - destruct IH as [E H]. split; auto. intros f [<-|Hf]; auto. }
    destruct (negb (N.eqb tgt 0) && N.ltb tgt (f_max info)); simpl in EF; [apply SKIP; auto|].
    destruct (negb (N.eqb ts 0) && negb (N.ltb (f_created info) ts)); simpl in EF; [apply SKIP; auto|].
    specialize (IH (Some info)). destruct (snapshot_scan tgt ts tl (Some info)) as [s|].
    + right. destruct IH as [[E H]|(l1 & l2 & E & H1 & H2)].
      * inversion E; subst. exists [], tl. auto.
      * exists (info :: l1), l2. rewrite E. auto.
    + destruct IH; discriminate.
Qed.

(** ** putting the function together *)

Definition Ls (fs : listing) : list (list file) := map fs cursor_levels.
Definition cursors0 (fs : listing) : list cursor := map (fun l => new_cursor (fs l)) cursor_levels.

Lemma in_all_files fs l f : In l all_levels -> In f (fs l) -> In f (all_files fs).
Proof.
  intros Hl Hf. unfold all_files. apply in_concat. exists (fs l). split; auto. apply in_map; auto.
Qed.

Lemma Ls_incl fs L : In L (Ls fs) -> incl L (all_files fs).
Proof.
  unfold Ls. intros H. apply in_map_iff in H. destruct H as (l & <- & Hl).
  intros f Hf. apply in_all_files with (l := l); auto. right; auto.
Qed.

Lemma cursors0_inv fs tgt ts cm : Forall2 (fun L c => cinv tgt ts L cm c) (Ls fs) (cursors0 fs).
Proof.
  unfold Ls, cursors0. induction cursor_levels; simpl; constructor; auto. apply cinv_new.
Qed.

(** the tail of [CalcRestorePlan] after the main loop *)
Definition final (tgt ts : N) (cs : list cursor) (cm : N) (infos : list file) : presult :=
  if negb (Nat.eqb (length infos) 0) && N.eqb tgt 0 && N.eqb ts 0 && gap_check cm cs then PErr EGap
  else if Nat.eqb (length infos) 0 then PErr ETxNotAvailable
  else if negb (N.eqb tgt 0) && N.ltb (infos_max infos) tgt then PErr ETxNotAvailable
  else POk infos.

Lemma sorted_before_le (l1 l2 : list file) s f :
  StronglySorted file_le (l1 ++ s :: l2) -> In f l1 -> file_le f s.
Proof.
  induction l1 as [|a l1 IH]; simpl; intros HS Hf; [contradiction|].
  inversion HS; subst. destruct Hf as [<-|Hf]; auto.
  rewrite Forall_forall in H2. apply H2. apply in_or_app. right. left. reflexivity.
Qed.

Lemma plan_analysis fuel fs tgt ts :
  (tgt <> 0 /\ ts <> 0 /\ calc_restore_plan_fuel fuel fs tgt ts = PErr EBoth) \/
  ((tgt = 0 \/ ts = 0) /\
   ((calc_restore_plan_fuel fuel fs tgt ts = PErr EFuel /\
     exists cm infos, main_loop fuel tgt ts (cursors0 fs) cm infos = LFuel) \/
    exists cs cm infos,
      Forall2 (fun L c => cinv tgt ts L cm c) (Ls fs) cs /\
      chain_end infos = cm /\ infos_ok (all_files fs) tgt ts infos /\
      (wf_listing fs -> links 0 infos) /\
      (wf_listing fs -> sorted_listing fs ->
       forall f, In f (fs SnapshotLevel) -> eligb tgt ts f = true -> f_max f <= cm) /\
      break_state tgt cm cs /\
      calc_restore_plan_fuel fuel fs tgt ts = final tgt ts cs cm infos)).
Proof.
  unfold calc_restore_plan_fuel.
  destruct (negb (N.eqb tgt 0) && negb (N.eqb ts 0)) eqn:EB.
  { left. apply andb_true_iff in EB. destruct EB as [E1 E2].
    apply negb_true_iff, N.eqb_neq in E1. apply negb_true_iff, N.eqb_neq in E2. auto. }
  right. split.
  { apply andb_false_iff in EB. destruct EB as [E|E]; apply negb_false_iff, N.eqb_eq in E; auto. }
  pose proof (snapshot_scan_spec tgt ts (fs SnapshotLevel) None) as HS.
  set (snapshot := snapshot_scan tgt ts (fs SnapshotLevel) None) in *.
  set (infos0 := match snapshot with Some s => [s] | None => [] end).
  assert (Hok0 : infos_ok (all_files fs) tgt ts infos0).
  { unfold infos0. destruct snapshot as [s|]; [|intros f []].
    destruct HS as [[E _]|(l1 & l2 & E & Hel & _)]; [discriminate|].
    intros f [<-|[]]. split; auto. apply in_all_files with (l := SnapshotLevel); [left; auto|].
    rewrite E. apply in_or_app. right. left. auto. }
  assert (Hl0 : wf_listing fs -> links 0 infos0).
  { intros [Hwf H9]. unfold infos0. destruct snapshot as [s|]; simpl; auto.
    destruct (Hok0 s (or_introl eq_refl)) as [Hin _].
    destruct HS as [[E _]|(l1 & l2 & E & Hel & _)]; [discriminate|].
    assert (Hs9 : In s (fs SnapshotLevel)) by (rewrite E; apply in_or_app; right; left; auto).
    destruct (Hwf s Hin). rewrite (H9 s Hs9) in *. splits; auto; lia. }
  assert (Hsn0 : wf_listing fs -> sorted_listing fs ->
       forall f, In f (fs SnapshotLevel) -> eligb tgt ts f = true -> f_max f <= chain_end infos0).
  { intros [Hwf H9] Hsorted f Hf Hel. unfold infos0.
    specialize (Hsorted SnapshotLevel (or_introl eq_refl)).
    destruct snapshot as [s|].
    - destruct HS as [[E _]|(l1 & l2 & E & Hels & Hrest)]; [discriminate|].
      unfold chain_end; simpl. rewrite E in Hf, Hsorted.
      assert (Hs9 : In s (fs SnapshotLevel)) by (rewrite E; apply in_or_app; right; left; auto).
      apply in_app_or in Hf. destruct Hf as [Hf|[<-|Hf]].
      + pose proof (sorted_before_le _ _ _ _ Hsorted Hf) as Hle.
        assert (Hf9 : In f (fs SnapshotLevel)) by (rewrite E; apply in_or_app; auto).
        rewrite <- E in *. unfold file_le in Hle. rewrite (H9 f Hf9), (H9 s Hs9) in Hle. lia.
      + lia.
      + rewrite (Hrest f Hf) in Hel. discriminate.
    - destruct HS as [_ Hnone]. rewrite (Hnone f Hf) in Hel. discriminate. }
  rewrite infos_max_end.
  destruct (negb (N.eqb tgt 0) && N.leb tgt (chain_end infos0)) eqn:EE.
  { right. apply andb_true_iff in EE. destruct EE as [E1 E2].
    pose proof E1 as E1'. apply negb_true_iff in E1'. apply N.eqb_neq in E1'. apply N.leb_le in E2.
    exists (cursors0 fs), (chain_end infos0), infos0. splits; auto.
    - apply cursors0_inv.
    - left; auto.
    - unfold final. apply negb_true_iff in E1. rewrite E1. rewrite andb_false_r. simpl.
      rewrite infos_max_end.
      destruct infos0 as [|s tl]; [unfold chain_end in E2; simpl in E2; lia|]. simpl.
      destruct (N.ltb_spec (chain_end (s :: tl)) tgt); [lia|reflexivity]. }
  destruct (main_loop fuel tgt ts (map (fun l => new_cursor (fs l)) cursor_levels) (chain_end infos0) infos0)
    as [cs cm infos|] eqn:EM.
  - right. exists cs, cm, infos.
    destruct (main_loop_inv (all_files fs) (Ls fs) tgt ts (Ls_incl fs) _ _ _ _ _ _ _
                (cursors0_inv fs tgt ts _) eq_refl Hok0 EM) as (A & B & C & D & E & F & G).
    splits; auto.
    intros Hwf Hsorted f Hf Hel. specialize (Hsn0 Hwf Hsorted f Hf Hel). lia.
  - left. split; auto. exists (chain_end infos0), infos0. exact EM.
Qed.

(** ** fuel *)

Definition optn (o : option file) : nat := match o with Some _ => 1 | None => 0 end.
Definition cmeasure (c : cursor) : nat := (length (c_stream c) + optn (c_candidate c))%nat.
Definition measure (cs : list cursor) : nat := list_sum (map cmeasure cs).

Lemma scan_measure cm tgt ts : forall stream cand cand' cur' rest' done',
  refresh_scan cm tgt ts cand stream = (cand', cur', rest', done') ->
  (length (str cur' rest') + optn cand' <= length stream + optn cand)%nat.
Proof.
  induction stream as [|info tl IH]; simpl; intros cand cand' cur' rest' done' H.
  - inversion H; subst. simpl. lia.
  - destruct (N.ltb (cm + 1) (f_min info)).
    { inversion H; subst. simpl. lia. }
    destruct (N.leb (f_max info) cm); [apply IH in H; lia|].
    destruct (negb (N.eqb tgt 0) && N.ltb tgt (f_max info)); [apply IH in H; lia|].
    destruct (negb (N.eqb ts 0) && negb (N.ltb (f_created info) ts)); [apply IH in H; lia|].
    apply IH in H. destruct cand as [c|]; [destruct (restore_candidate_better c info)|]; simpl in *; lia.
Qed.

Lemma refresh_measure cm tgt ts c : (cmeasure (refresh cm tgt ts c) <= cmeasure c)%nat.
Proof.
  unfold refresh. destruct (c_done c); [lia|].
  set (cand0 := match c_candidate c with
                | Some g => if N.leb (f_max g) cm then None else Some g
                | None => None end).
  assert (H0 : (optn cand0 <= optn (c_candidate c))%nat).
  { unfold cand0. destruct (c_candidate c) as [g|]; [destruct (N.leb (f_max g) cm)|]; simpl; lia. }
  destruct (refresh_scan cm tgt ts cand0 (c_stream c)) as [[[cand' cur'] rest'] done'] eqn:ES.
  apply scan_measure in ES. unfold cmeasure at 1. unfold c_stream at 1. simpl.
  fold (str cur' rest'). unfold cmeasure. lia.
Qed.

Lemma measure_map_refresh cm tgt ts cs : (measure (map (refresh cm tgt ts) cs) <= measure cs)%nat.
Proof.
  unfold measure. induction cs as [|c tl IH]; simpl; [lia|].
  pose proof (refresh_measure cm tgt ts c). lia.
Qed.

Lemma clear_at_measure : forall cs i c g,
  nth_error cs i = Some c -> c_candidate c = Some g -> S (measure (clear_at i cs)) = measure cs.
Proof.
  unfold measure. induction cs as [|c0 tl IH]; intros i c g Hn Hg; [destruct i; discriminate|].
  destruct i; simpl in *.
  - inversion Hn; subst. unfold cmeasure, clear_candidate, c_stream. simpl. rewrite Hg. simpl. lia.
  - rewrite <- (IH _ _ _ Hn Hg). lia.
Qed.

Lemma main_loop_fuel tgt ts : forall fuel cs cm infos,
  (measure cs < fuel)%nat -> main_loop fuel tgt ts cs cm infos <> LFuel.
Proof.
  induction fuel as [|k IH]; intros cs cm infos Hm; [lia|]. simpl.
  pose proof (measure_map_refresh cm tgt ts cs) as Hr.
  set (cs1 := map (refresh cm tgt ts) cs) in *.
  destruct (pick_next 0 cs1 None) as [[i g]|] eqn:EP; [|discriminate].
  destruct (pick_next_some _ _ _ _ _ EP) as [E|(c & _ & Hn & Hg)]; [discriminate|].
  rewrite Nat.sub_0_r in Hn. pose proof (clear_at_measure _ _ _ _ Hn Hg) as Hc.
  destruct (N.leb (f_max g) cm); [apply IH; lia|].
  destruct (negb (N.eqb tgt 0) && N.leb tgt (f_max g)); [discriminate|apply IH; lia].
Qed.

Lemma measure_cursors0 fs : measure (cursors0 fs) = count_files fs.
Proof.
  unfold measure, cursors0, count_files. induction cursor_levels as [|l tl IH]; simpl; auto.
  rewrite IH. unfold cmeasure, c_stream. simpl. lia.
Qed.

Lemma final_not_fuel tgt ts cs cm infos : final tgt ts cs cm infos <> PErr EFuel.
Proof.
  unfold final.
  destruct (negb (Nat.eqb (length infos) 0) && N.eqb tgt 0 && N.eqb ts 0 && gap_check cm cs); [discriminate|].
  destruct (Nat.eqb (length infos) 0); [discriminate|].
  destruct (negb (N.eqb tgt 0) && N.ltb (infos_max infos) tgt); discriminate.
Qed.

(** [plan_fuel]: the fuel supplied by [calc_restore_plan] is never exhausted,
    for every listing, target and timestamp. *)
Theorem plan_fuel fs tgt ts : calc_restore_plan fs tgt ts <> PErr EFuel.
Proof.
  unfold calc_restore_plan.
  destruct (plan_analysis (S (count_files fs)) fs tgt ts)
    as [(_ & _ & ->)|(_ & [(_ & cm & infos & H)|(cs & cm & infos & _ & _ & _ & _ & _ & _ & ->)])].
  - discriminate.
  - exfalso. revert H. apply main_loop_fuel. rewrite measure_cursors0. lia.
  - apply final_not_fuel.
Qed.

(** more fuel changes nothing *)
Lemma main_loop_more_fuel tgt ts : forall fuel cs cm infos,
  (measure cs < fuel)%nat -> forall fuel', (fuel <= fuel')%nat ->
  main_loop fuel' tgt ts cs cm infos = main_loop fuel tgt ts cs cm infos.
Proof.
  induction fuel as [|k IH]; intros cs cm infos Hm fuel' Hle; [lia|].
  destruct fuel' as [|k']; [lia|]. simpl.
  pose proof (measure_map_refresh cm tgt ts cs) as Hr.
  set (cs1 := map (refresh cm tgt ts) cs) in *.
  destruct (pick_next 0 cs1 None) as [[i g]|] eqn:EP; [|reflexivity].
  destruct (pick_next_some _ _ _ _ _ EP) as [E|(c & _ & Hn & Hg)]; [discriminate|].
  rewrite Nat.sub_0_r in Hn. pose proof (clear_at_measure _ _ _ _ Hn Hg) as Hc.
  destruct (N.leb (f_max g) cm); [apply IH; lia|].
  destruct (negb (N.eqb tgt 0) && N.leb tgt (f_max g)); [reflexivity|apply IH; lia].
Qed.

Example plan_fuel_example :
  calc_restore_plan (fun l => if N.eqb l 0 then [mkFile 0 1 1 5; mkFile 0 2 2 6; mkFile 0 4 4 7]
                              else if N.eqb l 9 then [mkFile 9 1 1 5] else []) 0 0 = PErr EGap.
Proof. vm_compute. reflexivity. Qed.

(** ** soundness *)

Lemma final_ok tgt ts cs cm infos p :
  final tgt ts cs cm infos = POk p ->
  p = infos /\ infos <> [] /\ (tgt <> 0 -> tgt <= infos_max infos) /\
  (tgt = 0 -> ts = 0 -> gap_check cm cs = false).
Proof.
  unfold final. destruct infos as [|f tl]; simpl.
  { discriminate. }
  destruct (N.eqb_spec tgt 0) as [Ht|Ht]; simpl.
  - destruct (N.eqb_spec ts 0) as [Hs|Hs]; simpl.
    + destruct (gap_check cm cs); [discriminate|]. intros HH; inversion HH; subst.
      splits; auto; try discriminate; intros; try contradiction; try lia.
    + intros HH; inversion HH; subst.
      splits; auto; try discriminate; intros; try contradiction; try lia.
  - destruct (N.ltb_spec (infos_max (f :: tl)) tgt) as [Hlt|Hge]; [discriminate|].
    intros HH; inversion HH; subst.
    splits; auto; try discriminate; intros; try contradiction; try lia.
Qed.

Lemma last_in (p : list file) d : p <> [] -> In (last p d) p.
Proof.
  induction p as [|f tl IH]; [congruence|]. intros _. destruct tl as [|g tl]; [left; auto|].
  right. apply IH. discriminate.
Qed.

(** [plan_sound]: whatever the planner returns is a valid chain — it starts
    at TXID 1, is contiguous, ends exactly at a requested TXID, and uses no
    file created at or after a requested timestamp.  No sortedness is needed. *)
Theorem plan_sound fs tgt ts p :
  wf_listing fs -> calc_restore_plan fs tgt ts = POk p -> valid_chain (all_files fs) tgt ts p.
Proof.
  intros Hwf H. unfold calc_restore_plan in H.
  destruct (plan_analysis (S (count_files fs)) fs tgt ts)
    as [(_ & _ & E)|(_ & [(E & _)|(cs & cm & infos & Hinv & Hend & Hok & Hl & _ & _ & E)])];
    rewrite E in H; try discriminate.
  apply final_ok in H. destruct H as (-> & Hne & Htgt & _).
  specialize (Hl Hwf).
  unfold valid_chain. splits.
  - intros f Hf. apply Hok; auto.
  - destruct infos as [|f tl]; [congruence|]. simpl.
    destruct Hl as (Ha & _). destruct (Hok f (or_introl eq_refl)) as [Hin _].
    destruct Hwf as [Hwf _]. destruct (Hwf f Hin). lia.
  - exact Hl.
  - intros Hts. apply Forall_forall. intros f Hf. destruct (Hok f Hf) as [_ Hel].
    apply eligb_spec in Hel. lia.
  - intros Ht. specialize (Htgt Ht). rewrite infos_max_end in Htgt.
    pose proof (last_in infos (mkFile 0 0 0 0) Hne) as Hlast.
    destruct (Hok _ Hlast) as [_ Hel]. apply eligb_spec in Hel.
    unfold chain_end in *. lia.
Qed.

Example plan_sound_example :
  let fs := fun l => if N.eqb l 0 then [mkFile 0 3 3 5; mkFile 0 4 4 6; mkFile 0 5 5 7]
                     else if N.eqb l 1 then [mkFile 1 1 2 4; mkFile 1 3 4 6]
                     else if N.eqb l 9 then [mkFile 9 1 1 2; mkFile 9 1 3 9] else [] in
  calc_restore_plan fs 0 0 = POk [mkFile 9 1 3 9; mkFile 1 3 4 6; mkFile 0 5 5 7] /\
  calc_restore_plan fs 4 0 = POk [mkFile 9 1 3 9; mkFile 1 3 4 6] /\
  calc_restore_plan fs 0 8 = POk [mkFile 9 1 1 2; mkFile 1 1 2 4; mkFile 1 3 4 6; mkFile 0 5 5 7].
Proof. vm_compute. auto. Qed.

(** Documented boundary: a snapshot-level file that does not start at TXID 1
    (never written by litestream) makes the planner return a chain that does
    not start at 1; [Restore] then fails in [DecodeDatabaseTo]. *)
Lemma plan_nonmin1_snapshot_refuted :
  exists fs p, calc_restore_plan fs 0 0 = POk p /\ ~ valid_chain (all_files fs) 0 0 p.
Proof.
  exists (fun l => if N.eqb l 9 then [mkFile 9 2 3 1] else []), [mkFile 9 2 3 1].
  split; [vm_compute; reflexivity|].
  intros (_ & H & _). simpl in H. discriminate.
Qed.

(** ** completeness: at a break without candidates nothing eligible extends currentMax *)

Lemma sorted_after_le (l1 l2 : list file) s f :
  StronglySorted file_le (l1 ++ s :: l2) -> In f l2 -> file_le s f.
Proof.
  induction l1 as [|a l1 IH]; simpl; intros HS Hf.
  - inversion HS; subst. rewrite Forall_forall in H2. auto.
  - inversion HS; subst. auto.
Qed.

Lemma cursor_closed tgt ts L cm c :
  cinv tgt ts L cm c -> c_candidate c = None -> cpost cm c -> StronglySorted file_le L ->
  forall f, In f L -> eligb tgt ts f = true -> f_max f <= cm \/ cm + 1 < f_min f.
Proof.
  intros [(cons & HL & Hm & He & Hc) Hd] Hnone Hpost HS f Hf Hel.
  rewrite HL in Hf. apply in_app_or in Hf. destruct Hf as [Hf|Hf].
  - destruct (He f Hf Hel) as [H|(g & Hg & _)]; auto. rewrite Hnone in Hg. discriminate.
  - destruct Hpost as [Hdone|(f0 & Hcur & Hgap)].
    + rewrite (Hd Hdone) in Hf. contradiction.
    + right. unfold c_stream in *. rewrite Hcur in *. destruct Hf as [<-|Hf]; auto.
      rewrite HL in HS. pose proof (sorted_after_le _ _ _ _ HS Hf) as Hle. unfold file_le in Hle. lia.
Qed.

Lemma levels_closed tgt ts cm : forall Ls cs,
  Forall2 (fun L c => cinv tgt ts L cm c) Ls cs ->
  Forall (fun c => c_candidate c = None) cs -> Forall (cpost cm) cs ->
  (forall L, In L Ls -> StronglySorted file_le L) ->
  forall L f, In L Ls -> In f L -> eligb tgt ts f = true -> f_max f <= cm \/ cm + 1 < f_min f.
Proof.
  induction 1 as [|L0 c Ls cs H0 H IH]; intros Hn Hp HS L f HL Hf Hel; [contradiction|].
  inversion Hn; subst. inversion Hp; subst. destruct HL as [<-|HL].
  - eapply cursor_closed; eauto. apply HS. left; auto.
  - eapply IH; eauto. intros; apply HS; right; auto.
Qed.

Lemma all_files_split fs f :
  In f (all_files fs) -> In f (fs SnapshotLevel) \/ exists L, In L (Ls fs) /\ In f L.
Proof.
  unfold all_files, all_levels. rewrite map_cons, concat_cons. intros H.
  apply in_app_or in H. destruct H as [H|H]; auto.
  right. apply in_concat in H. destruct H as (L & HL & Hf). exists L. split; auto.
Qed.

Lemma Ls_sorted fs : sorted_listing fs -> forall L, In L (Ls fs) -> StronglySorted file_le L.
Proof.
  intros HS L HL. unfold Ls in HL. apply in_map_iff in HL. destruct HL as (l & <- & Hl).
  apply HS. right; auto.
Qed.

Lemma break_closed fs tgt ts cs cm :
  sorted_listing fs ->
  Forall2 (fun L c => cinv tgt ts L cm c) (Ls fs) cs ->
  Forall (fun c => c_candidate c = None) cs -> Forall (cpost cm) cs ->
  (forall f, In f (fs SnapshotLevel) -> eligb tgt ts f = true -> f_max f <= cm) ->
  closed (all_files fs) tgt ts cm.
Proof.
  intros HS Hinv Hn Hp Hsnap f Hf Hel. apply all_files_split in Hf.
  destruct Hf as [Hf|(L & HL & Hf)]; [left; auto|].
  eapply levels_closed; eauto. apply Ls_sorted; auto.
Qed.

Lemma valid_chain_elig all tgt ts q :
  valid_chain all tgt ts q -> forall f, In f q -> In f all /\ eligb tgt ts f = true.
Proof.
  intros (Hincl & Hstart & Hl & Hts & Htgt) f Hf. split; auto.
  apply eligb_spec. split.
  - destruct (N.eq_dec tgt 0) as [E|E]; auto. right. rewrite <- (Htgt E).
    eapply links_le_end; eauto.
  - destruct (N.eq_dec ts 0) as [E|E]; auto. right.
    specialize (Hts E). rewrite Forall_forall in Hts. auto.
Qed.

Lemma valid_chain_nonempty all tgt ts q : valid_chain all tgt ts q -> q <> [] /\ 0 < chain_end q.
Proof.
  intros (_ & Hstart & Hl & _). assert (q <> []) by (destruct q; [contradiction|discriminate]).
  split; auto. apply links_end_gt; auto.
Qed.

Lemma closed_bounds_valid all tgt ts cm q :
  closed all tgt ts cm -> valid_chain all tgt ts q -> chain_end q <= cm.
Proof.
  intros Hcl Hv. rewrite <- endfrom0. eapply closed_blocks; eauto; [lia| |].
  - apply (valid_chain_elig _ _ _ _ Hv).
  - destruct Hv as (_ & _ & Hl & _). exact Hl.
Qed.

Lemma chain_end_nil_iff (p : list file) : chain_end p <> 0 -> p <> [].
Proof. destruct p; [unfold chain_end; simpl; congruence|discriminate]. Qed.

Lemma final_cases tgt ts cs cm infos :
  infos <> [] -> (tgt <> 0 -> tgt <= chain_end infos) ->
  (final tgt ts cs cm infos = POk infos /\ (tgt = 0 -> ts = 0 -> gap_check cm cs = false)) \/
  (tgt = 0 /\ ts = 0 /\ gap_check cm cs = true /\ final tgt ts cs cm infos = PErr EGap).
Proof.
  intros Hne Htgt. unfold final. rewrite infos_max_end.
  destruct infos as [|f tl]; [congruence|]. simpl length. simpl Nat.eqb. simpl negb.
  destruct (N.eqb_spec tgt 0) as [Ht|Ht]; simpl.
  - destruct (N.eqb_spec ts 0) as [Hs|Hs]; simpl.
    + destruct (gap_check cm cs); [right; auto|left; auto].
    + left. split; auto. intros; contradiction.
  - specialize (Htgt Ht). destruct (N.ltb_spec (chain_end (f :: tl)) tgt); [lia|].
    left. split; auto. intros; contradiction.
Qed.

(** the common core of the completeness theorems: after the analysis, if a
    valid chain [q] exists then the plan is non-empty, reaches at least as far
    as [q] unless it stopped at the target, and the function's tail returns it
    (or a gap error in latest mode) *)
Lemma complete_core fs tgt ts cs cm infos q :
  wf_listing fs -> sorted_listing fs ->
  Forall2 (fun L c => cinv tgt ts L cm c) (Ls fs) cs ->
  chain_end infos = cm ->
  (forall f, In f (fs SnapshotLevel) -> eligb tgt ts f = true -> f_max f <= cm) ->
  break_state tgt cm cs ->
  valid_chain (all_files fs) tgt ts q ->
  infos <> [] /\ (tgt <> 0 -> tgt <= cm) /\ (tgt = 0 -> chain_end q <= cm /\ closed (all_files fs) tgt ts cm).
Proof.
  intros Hwf HS Hinv Hend Hsnap Hbreak Hv.
  destruct (valid_chain_nonempty _ _ _ _ Hv) as [Hqne Hqpos].
  destruct Hbreak as [[Ht Hle]|[Hn Hp]].
  - splits; auto; [|intros; contradiction].
    apply chain_end_nil_iff. lia.
  - pose proof (break_closed _ _ _ _ _ HS Hinv Hn Hp Hsnap) as Hcl.
    pose proof (closed_bounds_valid _ _ _ _ _ Hcl Hv) as Hle.
    splits; auto.
    + apply chain_end_nil_iff. lia.
    + intros Ht. destruct Hv as (_ & _ & _ & _ & Htgt). rewrite <- (Htgt Ht). exact Hle.
Qed.

(** [plan_complete]: if any valid chain exists the planner returns a plan; the
    only other outcome is the latest-mode gap error. *)
Theorem plan_complete fs tgt ts :
  wf_listing fs -> sorted_listing fs -> (tgt = 0 \/ ts = 0) ->
  (exists q, valid_chain (all_files fs) tgt ts q) ->
  (exists p, calc_restore_plan fs tgt ts = POk p) \/
  (tgt = 0 /\ ts = 0 /\ calc_restore_plan fs tgt ts = PErr EGap).
Proof.
  intros Hwf HS Hmode [q Hv]. pose proof (plan_fuel fs tgt ts) as HF. unfold calc_restore_plan in *.
  destruct (plan_analysis (S (count_files fs)) fs tgt ts)
    as [(A & B & _)|(_ & [(E & _)|(cs & cm & infos & Hinv & Hend & Hok & Hl & Hsnap & Hbreak & E)])].
  - lia.
  - congruence.
  - rewrite E.
    destruct (complete_core _ _ _ _ _ _ _ Hwf HS Hinv Hend (Hsnap Hwf HS) Hbreak Hv) as (Hne & Htgt & _).
    rewrite <- Hend in Htgt.
    destruct (final_cases tgt ts cs cm infos Hne Htgt) as [[-> _]|(A & B & _ & ->)]; [left; eauto|right; auto].
Qed.

(** a plan reaches at least as far as every valid chain *)
Theorem plan_end_max fs tgt ts p q :
  wf_listing fs -> sorted_listing fs ->
  calc_restore_plan fs tgt ts = POk p -> valid_chain (all_files fs) tgt ts q ->
  chain_end q <= chain_end p.
Proof.
  intros Hwf HS H Hv. pose proof (plan_sound _ _ _ _ Hwf H) as Hp.
  destruct (N.eq_dec tgt 0) as [Ht|Ht].
  - unfold calc_restore_plan in H.
    destruct (plan_analysis (S (count_files fs)) fs tgt ts)
      as [(A & B & _)|(_ & [(E & _)|(cs & cm & infos & Hinv & Hend & Hok & Hl & Hsnap & Hbreak & E)])];
      try congruence.
    rewrite E in H. apply final_ok in H. destruct H as (-> & _).
    destruct (complete_core _ _ _ _ _ _ _ Hwf HS Hinv Hend (Hsnap Hwf HS) Hbreak Hv) as (_ & _ & Hq).
    destruct (Hq Ht). lia.
  - destruct Hp as (_ & _ & _ & _ & Hp). destruct Hv as (_ & _ & _ & _ & Hq).
    rewrite (Hp Ht), (Hq Ht). lia.
Qed.

(** ** latest mode: the gap check *)

Lemma ensure_current_stream c f : c_current (ensure_current c) = Some f -> In f (c_stream c).
Proof.
  unfold ensure_current, c_stream. destruct (c_done c); simpl.
  - intros ->. left; auto.
  - destruct (c_current c) as [g|] eqn:EC; simpl.
    + rewrite EC. intros H; inversion H; subst. left; auto.
    + destruct (c_rest c); simpl; [discriminate|]. intros H; inversion H; subst. left; auto.
Qed.

Lemma gap_check_true tgt ts cm : forall Ls cs,
  Forall2 (fun L c => cinv tgt ts L cm c) Ls cs -> gap_check cm cs = true ->
  exists L f, In L Ls /\ In f L /\ cm + 1 < f_min f.
Proof.
  induction 1 as [|L c Ls cs H0 H IH]; simpl; intros HG; [discriminate|].
  assert (REST : gap_check cm cs = true -> exists L0 f, (L = L0 \/ In L0 Ls) /\ In f L0 /\ cm + 1 < f_min f).
  { intros HG'. destruct (IH HG') as (L0 & f & A & B & C). exists L0, f. auto. }
  destruct (c_current (ensure_current c)) as [f|] eqn:EC; [|auto].
  destruct (N.ltb_spec (cm + 1) (f_min f)); [|auto].
  exists L, f. splits; auto. apply ensure_current_stream in EC.
  destruct H0 as [(cons & HL & _) _]. rewrite HL. apply in_or_app; auto.
Qed.

Lemma gap_check_false tgt ts cm : forall Ls cs,
  Forall2 (fun L c => cinv tgt ts L cm c) Ls cs -> Forall (cpost cm) cs -> gap_check cm cs = false ->
  forall L f, In L Ls -> In f L -> f_min f <= cm + 1.
Proof.
  induction 1 as [|L0 c Ls cs H0 H IH]; simpl; intros Hp HG L f HL Hf; [contradiction|].
  inversion Hp; subst.
  assert (HG' : gap_check cm cs = false /\ (c_done c = true)).
  { destruct H3 as [Hd|(f0 & Hcur & Hgap)].
    - split; auto. unfold ensure_current in HG. rewrite Hd in HG. simpl in HG.
      destruct (c_current c) as [g|]; auto. destruct (N.ltb (cm + 1) (f_min g)); [discriminate|auto].
    - exfalso. unfold ensure_current in HG. rewrite Hcur in HG. rewrite orb_true_r in HG. rewrite Hcur in HG.
      destruct (N.ltb_spec (cm + 1) (f_min f0)); [discriminate|lia]. }
  destruct HG' as [HG' Hd]. destruct HL as [<-|HL]; [|eapply IH; eauto].
  destruct H0 as [(cons & HL0 & Hm & _) Hdone]. rewrite (Hdone Hd), app_nil_r in HL0. subst. auto.
Qed.

(** [plan_latest_reaches_everything], first half: an [Ok] in latest mode never
    stops short of any file — the plan ends at the greatest TXID on the replica. *)
Theorem plan_latest_reaches_everything fs p :
  wf_listing fs -> sorted_listing fs -> calc_restore_plan fs 0 0 = POk p ->
  forall f, In f (all_files fs) -> f_max f <= chain_end p.
Proof.
  intros Hwf HS H f Hf. unfold calc_restore_plan in H.
  destruct (plan_analysis (S (count_files fs)) fs 0 0)
    as [(A & B & _)|(_ & [(E & _)|(cs & cm & infos & Hinv & Hend & Hok & Hl & Hsnap & Hbreak & E)])];
    try congruence.
  rewrite E in H. apply final_ok in H. destruct H as (-> & Hne & _ & HG).
  specialize (HG eq_refl eq_refl). rewrite Hend.
  destruct Hbreak as [[Ht _]|[Hn Hp]]; [congruence|].
  assert (Hel : eligb 0 0 f = true) by reflexivity.
  apply all_files_split in Hf. destruct Hf as [Hf|(L & HL & Hf)]; [apply (Hsnap Hwf HS); auto|].
  pose proof (gap_check_false _ _ _ _ _ Hinv Hp HG L f HL Hf) as Hmin.
  destruct (levels_closed _ _ _ _ _ Hinv Hn Hp (Ls_sorted fs HS) L f HL Hf Hel); [auto|lia].
Qed.

Lemma infos_valid fs infos :
  wf_listing fs -> infos <> [] -> links 0 infos -> infos_ok (all_files fs) 0 0 infos ->
  valid_chain (all_files fs) 0 0 infos.
Proof.
  intros [Hwf _] Hne Hl Hok. unfold valid_chain. splits; try congruence.
  - intros f Hf. apply Hok; auto.
  - destruct infos as [|f tl]; [congruence|]. simpl. destruct Hl as (Ha & _).
    destruct (Hok f (or_introl eq_refl)) as [Hin _]. destruct (Hwf f Hin). lia.
Qed.

(** second half: the gap error is returned exactly when some file starts
    beyond (the furthest TXID reachable by any valid chain) + 1 *)
Theorem plan_gap_iff fs :
  wf_listing fs -> sorted_listing fs ->
  (calc_restore_plan fs 0 0 = PErr EGap <->
   exists q, valid_chain (all_files fs) 0 0 q /\
             (forall q', valid_chain (all_files fs) 0 0 q' -> chain_end q' <= chain_end q) /\
             exists f, In f (all_files fs) /\ chain_end q + 1 < f_min f).
Proof.
  intros Hwf HS. split.
  - intros H. unfold calc_restore_plan in H.
    destruct (plan_analysis (S (count_files fs)) fs 0 0)
      as [(A & B & _)|(_ & [(E & _)|(cs & cm & infos & Hinv & Hend & Hok & Hl & Hsnap & Hbreak & E)])];
      try congruence.
    rewrite E in H. unfold final in H.
    destruct infos as [|f0 tl]; [simpl in H; discriminate|].
    simpl length in H. simpl Nat.eqb in H. simpl negb in H. simpl in H.
    destruct (gap_check cm cs) eqn:HG; [|discriminate].
    destruct Hbreak as [[Ht _]|[Hn Hp]]; [congruence|].
    assert (Hv : valid_chain (all_files fs) 0 0 (f0 :: tl)) by (apply infos_valid; auto; discriminate).
    pose proof (break_closed _ _ _ _ _ HS Hinv Hn Hp (Hsnap Hwf HS)) as Hcl.
    exists (f0 :: tl). splits; auto.
    + intros q' Hq'. rewrite Hend. eapply closed_bounds_valid; eauto.
    + destruct (gap_check_true _ _ _ _ _ Hinv HG) as (L & f & HL & Hf & Hgap).
      exists f. rewrite Hend. split; auto. apply (Ls_incl fs L HL); auto.
  - intros (q & Hv & Hmax & f & Hf & Hgap).
    destruct (plan_complete fs 0 0 Hwf HS (or_introl eq_refl) (ex_intro _ q Hv)) as [[p Hp]|(_ & _ & H)]; auto.
    exfalso. pose proof (plan_latest_reaches_everything _ _ Hwf HS Hp f Hf) as Hle.
    pose proof (plan_sound _ _ _ _ Hwf Hp) as Hpv. specialize (Hmax p Hpv).
    destruct Hwf as [Hwf _]. destruct (Hwf f Hf). lia.
Qed.

Example plan_latest_example :
  let fs := fun l => if N.eqb l 0 then [mkFile 0 2 2 5; mkFile 0 3 3 6; mkFile 0 6 6 7]
                     else if N.eqb l 2 then [mkFile 2 4 5 6]
                     else if N.eqb l 9 then [mkFile 9 1 1 2] else [] in
  calc_restore_plan fs 0 0 = POk [mkFile 9 1 1 2; mkFile 0 2 2 5; mkFile 0 3 3 6; mkFile 2 4 5 6; mkFile 0 6 6 7] /\
  calc_restore_plan (fun l => if N.eqb l 2 then [] else fs l) 0 0 = PErr EGap.
Proof. vm_compute. auto. Qed.

(** ** timestamps (feed C15) *)

(** [ts_no_future]: no file of a plan was created at or after the requested
    timestamp — for every listing, no well-formedness needed. *)
Theorem ts_no_future fs tgt ts p :
  calc_restore_plan fs tgt ts = POk p -> ts <> 0 -> forall f, In f p -> f_created f < ts.
Proof.
  intros H Hts f Hf. unfold calc_restore_plan in H.
  destruct (plan_analysis (S (count_files fs)) fs tgt ts)
    as [(A & B & E)|(_ & [(E & _)|(cs & cm & infos & Hinv & Hend & Hok & Hl & Hsnap & Hbreak & E)])];
    try congruence.
  rewrite E in H. apply final_ok in H. destruct H as (-> & _).
  destruct (Hok f Hf) as [_ Hel]. apply eligb_spec in Hel. lia.
Qed.

Lemma valid_chain_ts_mono all t1 t2 q :
  t1 <> 0 -> t1 <= t2 -> valid_chain all 0 t1 q -> valid_chain all 0 t2 q.
Proof.
  intros H1 Hle (A & B & C & D & E). unfold valid_chain. splits; auto; try congruence.
  intros _. specialize (D H1). eapply Forall_impl; [|exact D]. simpl. intros; lia.
Qed.

(** [ts_monotone]: a later timestamp never restores less: if the plan for
    [t1] exists then so does the plan for every [t2 >= t1], and it ends at
    least as far. *)
Theorem ts_monotone fs t1 t2 p1 :
  wf_listing fs -> sorted_listing fs -> t1 <> 0 -> t1 <= t2 ->
  calc_restore_plan fs 0 t1 = POk p1 ->
  exists p2, calc_restore_plan fs 0 t2 = POk p2 /\ chain_end p1 <= chain_end p2.
Proof.
  intros Hwf HS H1 Hle Hp1.
  pose proof (plan_sound _ _ _ _ Hwf Hp1) as Hv1.
  pose proof (valid_chain_ts_mono _ _ _ _ H1 Hle Hv1) as Hv2.
  destruct (plan_complete fs 0 t2 Hwf HS (or_introl eq_refl) (ex_intro _ p1 Hv2)) as [[p2 Hp2]|(_ & B & _)]; [|lia].
  exists p2. split; auto. eapply plan_end_max; eauto.
Qed.

Example ts_example :
  let fs := fun l => if N.eqb l 0 then [mkFile 0 1 1 2; mkFile 0 2 2 4; mkFile 0 3 3 6] else [] in
  calc_restore_plan fs 0 4 = POk [mkFile 0 1 1 2] /\
  calc_restore_plan fs 0 5 = POk [mkFile 0 1 1 2; mkFile 0 2 2 4] /\
  calc_restore_plan fs 0 2 = PErr ETxNotAvailable.
Proof. vm_compute. auto. Qed.

(** ** the error exits *)

Lemma final_gap tgt ts cs cm infos : final tgt ts cs cm infos = PErr EGap -> tgt = 0 /\ ts = 0.
Proof.
  unfold final.
  destruct (negb (Nat.eqb (length infos) 0) && N.eqb tgt 0 && N.eqb ts 0 && gap_check cm cs) eqn:E.
  - intros _. rewrite !andb_true_iff in E. destruct E as [[[_ A] B] _].
    apply N.eqb_eq in A. apply N.eqb_eq in B. auto.
  - destruct (Nat.eqb (length infos) 0); [discriminate|].
    destruct (negb (N.eqb tgt 0) && N.ltb (infos_max infos) tgt); discriminate.
Qed.

(** [ErrTxNotAvailable] is returned exactly when no valid chain exists *)
Theorem plan_notavail_iff fs tgt ts :
  wf_listing fs -> sorted_listing fs -> (tgt = 0 \/ ts = 0) ->
  (calc_restore_plan fs tgt ts = PErr ETxNotAvailable <-> ~ exists q, valid_chain (all_files fs) tgt ts q).
Proof.
  intros Hwf HS Hmode. split.
  - intros H Hex. destruct (plan_complete fs tgt ts Hwf HS Hmode Hex) as [[p Hp]|(_ & _ & Hp)]; congruence.
  - intros Hno. destruct (calc_restore_plan fs tgt ts) as [p|e] eqn:E.
    + exfalso. apply Hno. exists p. apply plan_sound; auto.
    + destruct e; auto; exfalso.
      * unfold calc_restore_plan, calc_restore_plan_fuel in E.
        destruct (negb (N.eqb tgt 0) && negb (N.eqb ts 0)) eqn:EB.
        -- apply andb_true_iff in EB. destruct EB as [E1 E2].
           apply negb_true_iff, N.eqb_neq in E1. apply negb_true_iff, N.eqb_neq in E2. lia.
        -- fold (calc_restore_plan_fuel (S (count_files fs)) fs tgt ts) in E.
           destruct (plan_analysis (S (count_files fs)) fs tgt ts)
             as [(A & B & _)|(_ & [(E' & _)|(cs & cm & infos & _ & _ & _ & _ & _ & _ & E')])]; try lia.
           ++ unfold calc_restore_plan_fuel in E'. rewrite EB in E'. congruence.
           ++ unfold calc_restore_plan_fuel in E'. rewrite EB in E'. rewrite E' in E.
              unfold final in E.
              destruct (negb (Nat.eqb (length infos) 0) && N.eqb tgt 0 && N.eqb ts 0 && gap_check cm cs); [discriminate|].
              destruct (Nat.eqb (length infos) 0); [discriminate|].
              destruct (negb (N.eqb tgt 0) && N.ltb (infos_max infos) tgt); discriminate.
      * assert (tgt = 0 /\ ts = 0) as [-> ->].
        { unfold calc_restore_plan in E.
          destruct (plan_analysis (S (count_files fs)) fs tgt ts)
            as [(A & B & E')|(_ & [(E' & _)|(cs & cm & infos & _ & _ & _ & _ & _ & _ & E')])]; try congruence.
          rewrite E' in E. eapply final_gap; eauto. }
        apply (plan_gap_iff fs Hwf HS) in E. destruct E as (q & Hq & _). apply Hno. eauto.
      * apply (plan_fuel fs tgt ts). exact E.
Qed.
