(** [sx -> sx] entry points of the Plan layer for the correspondence runner.

    A replica is given as the flat list of its files
    [[level; min; max; created] ...]; the listing of level [l] is the
    sub-list of the files with that level, in the order given (the harness
    writes them in the order the client's iterator returned them). *)
From Coq Require Import List NArith ZArith Bool.
From LS Require Import Base.Sx Plan.Planner Plan.Spec.
Import ListNotations.
Open Scope N_scope.

Definition file_of_sx (x : sx) : file :=
  mkFile (asN (nthx 0 x)) (asN (nthx 1 x)) (asN (nthx 2 x)) (asN (nthx 3 x)).

Definition files_of_sx (x : sx) : list file := map file_of_sx (asL x).

Definition listing_of (flat : list file) : listing :=
  fun l => filter (fun f => N.eqb (f_level f) l) flat.

Definition sx_plan3 (p : list file) : sx :=
  SL (map (fun f => SL [sxN (f_level f); sxN (f_min f); sxN (f_max f)]) p).

(** input  [files; tgt; ts]
    output [status; [[level; min; max] ...]]
    status 0 ok | 1 both TXID and timestamp given | 2 ErrTxNotAvailable
           | 3 non-contiguous (gap) | 4 out of fuel (never, [plan_fuel]) *)
Definition plan_run (x : sx) : sx :=
  let fs := listing_of (files_of_sx (nthx 0 x)) in
  let tgt := asN (nthx 1 x) in
  let ts := asN (nthx 2 x) in
  match calc_restore_plan fs tgt ts with
  | POk p => SL [sxN 0; sx_plan3 p]
  | PErr EBoth => SL [sxN 1; SL []]
  | PErr ETxNotAvailable => SL [sxN 2; SL []]
  | PErr EGap => SL [sxN 3; SL []]
  | PErr EFuel => SL [sxN 4; SL []]
  end.

(** the constants the model uses, compared with the implementation's
    input [] output [SnapshotLevel] *)
Definition plan_consts (x : sx) : sx := SL [sxN SnapshotLevel].

(** Spec oracle 1 (soundness half of C08) on the implementation's own answer.
    input  [files; tgt; ts; status; plan]   plan = [[level; min; max; created] ...]
    output 1 iff (status = ok -> plan is a valid chain of the given files) *)
Definition plan_valid_ok (x : sx) : sx :=
  let flat := files_of_sx (nthx 0 x) in
  let tgt := asN (nthx 1 x) in
  let ts := asN (nthx 2 x) in
  let st := asN (nthx 3 x) in
  let p := files_of_sx (nthx 4 x) in
  sxB (if N.eqb st 0 then valid_chainb flat tgt ts p else true).

(** Spec oracle 2 (completeness half) on the implementation's own answer,
    decided by brute-force reachability, not by the planner model.
    input as above; output 1 iff
      status = both           -> both were given
      status = TxNotAvailable -> no valid chain exists
      status = gap            -> latest mode, some chain exists, and some file
                                 starts beyond (furthest reachable TXID)+1
      status = ok, latest mode-> the plan ends at the greatest TXID of any file
      other status            -> 0 *)
Definition plan_complete_ok (x : sx) : sx :=
  let flat := files_of_sx (nthx 0 x) in
  let tgt := asN (nthx 1 x) in
  let ts := asN (nthx 2 x) in
  let st := asN (nthx 3 x) in
  let p := files_of_sx (nthx 4 x) in
  let both := negb (N.eqb tgt 0) && negb (N.eqb ts 0) in
  sxB
    (if N.eqb st 1 then both
     else if both then false
     else if N.eqb st 2 then negb (chain_existsb flat tgt ts)
     else if N.eqb st 3 then
       N.eqb tgt 0 && N.eqb ts 0 &&
       (let r := maxN (reach_set flat 0) in
        negb (N.eqb r 0) && existsb (fun f => N.ltb (r + 1) (f_min f)) flat)
     else if N.eqb st 0 then
       if N.eqb tgt 0 && N.eqb ts 0
       then N.eqb (chain_end p) (maxN (map f_max flat))
       else true
     else false).
