(** What C08 demands of a restore plan, stated without reference to how the
    planner works, plus a brute-force reachability used as the oracle of the
    correspondence run. *)
From Coq Require Import List NArith Bool Lia Sorted.
From LS Require Import Plan.Planner.
Import ListNotations.
Open Scope N_scope.

(** [links c p]: starting with everything up to TXID [c] applied, each file of
    [p] begins no later than one past the previous end and extends it
    ([ltx.IsContiguous]). *)
Fixpoint links (c : N) (p : list file) : Prop :=
  match p with
  | [] => True
  | f :: tl => f_min f <= c + 1 /\ c < f_max f /\ links (f_max f) tl
  end.

Definition chain_end (p : list file) : N := f_max (last p (mkFile 0 0 0 0)).

Definition starts_at_one (p : list file) : Prop :=
  match p with f :: _ => f_min f = 1 | [] => False end.

(** [valid_chain fs tgt ts p]: [p] is a non-empty sub-collection of the files
    [fs], starts at TXID 1, is contiguous, uses no file created at or after a
    requested timestamp, ends exactly at a requested TXID. *)
Definition valid_chain (fs : list file) (tgt ts : N) (p : list file) : Prop :=
  incl p fs /\ starts_at_one p /\ links 0 p /\
  (ts <> 0 -> Forall (fun f => f_created f < ts) p) /\
  (tgt <> 0 -> chain_end p = tgt).

(** every file of the replica, snapshots first *)
Definition all_levels : list N := SnapshotLevel :: cursor_levels.
Definition all_files (fs : listing) : list file := concat (map fs all_levels).

(** well-formed listing (DESIGN C08 Hyp): TXID ranges are [1 <= min <= max],
    snapshot-level files start at 1 (only [DB.Snapshot] writes level 9, always
    as [1..pos]) *)
Definition wf_file (f : file) : Prop := 1 <= f_min f /\ f_min f <= f_max f.
Definition wf_listing (fs : listing) : Prop :=
  (forall f, In f (all_files fs) -> wf_file f) /\
  (forall f, In f (fs SnapshotLevel) -> f_min f = 1).

(** iterator order: by (MinTXID, MaxTXID) within a level
    ([ltx.NewFileInfoSliceIterator]; file names sort the same way) *)
Definition file_le (a b : file) : Prop :=
  f_min a < f_min b \/ (f_min a = f_min b /\ f_max a <= f_max b).
Definition sorted_listing (fs : listing) : Prop :=
  forall l, In l all_levels -> StronglySorted file_le (fs l).

(** ** decidable versions (extracted; used as oracles on the implementation's output) *)

Fixpoint linksb (c : N) (p : list file) : bool :=
  match p with
  | [] => true
  | f :: tl => N.leb (f_min f) (c + 1) && N.ltb c (f_max f) && linksb (f_max f) tl
  end.

Definition memb (f : file) (fs : list file) : bool := existsb (file_eqb f) fs.

Definition valid_chainb (fs : list file) (tgt ts : N) (p : list file) : bool :=
  forallb (fun f => memb f fs) p &&
  (match p with f :: _ => N.eqb (f_min f) 1 | [] => false end) &&
  linksb 0 p &&
  (N.eqb ts 0 || forallb (fun f => N.ltb (f_created f) ts) p) &&
  (N.eqb tgt 0 || N.eqb (chain_end p) tgt).

(** brute-force reachability: the set of TXIDs that are the end of some
    contiguous chain starting at 1 built from the files created before [ts]
    (0 stands for the empty chain).  One round adds every one-file extension;
    a chain has strictly increasing ends, hence at most [#files] files, so
    [#files] rounds reach the closure. *)
Definition ts_ok (ts : N) (f : file) : bool := N.eqb ts 0 || N.ltb (f_created f) ts.

Definition extends (f : file) (r : N) : bool :=
  N.leb (f_min f) (r + 1) && N.ltb r (f_max f) && (negb (N.eqb r 0) || N.eqb (f_min f) 1).

Definition memN (x : N) (l : list N) : bool := existsb (N.eqb x) l.

Fixpoint add_new (xs acc : list N) : list N :=
  match xs with
  | [] => acc
  | x :: tl => if memN x acc then add_new tl acc else add_new tl (acc ++ [x])
  end.

Definition reach_round (fs : list file) (R : list N) : list N :=
  add_new (map f_max (filter (fun f => existsb (extends f) R) fs)) R.

Fixpoint reach_iter (n : nat) (fs : list file) (R : list N) : list N :=
  match n with O => R | S k => reach_iter k fs (reach_round fs R) end.

Definition reach_set (fs : list file) (ts : N) : list N :=
  let el := filter (ts_ok ts) fs in
  reach_iter (length el) el [0].

Definition maxN (l : list N) : N := fold_right N.max 0 l.

(** does a valid chain exist? *)
Definition chain_existsb (fs : list file) (tgt ts : N) : bool :=
  let R := reach_set fs ts in
  if N.eqb tgt 0 then negb (N.eqb (maxN R) 0) else memN tgt R.
