(** Model of [CalcRestorePlan] (replica.go) — snapshot scan, per-level
    [restoreLevelCursor]s, [refresh], [ensureCurrent], [restoreCandidateBetter],
    the re-check [candidate.MaxTXID <= currentMax], the target break, the
    latest-mode gap check and both [ErrTxNotAvailable] exits.

    Input: what [client.LTXFiles(ctx, level, 0, _)] returns for each level, in
    iterator order.  The model itself does not assume the order; sortedness is a
    hypothesis of the completeness theorems only.

    Time: [f_created] is the file's CreatedAt as a number; the requested
    timestamp [ts] uses 0 for the zero [time.Time] ([timestamp.IsZero()]).
    [info.CreatedAt.Before(timestamp)] is [f_created info <? ts]. *)
From Coq Require Import List NArith Bool Lia.
Import ListNotations.
Open Scope N_scope.

Record file := mkFile { f_level : N; f_min : N; f_max : N; f_created : N }.

Definition file_eqb (a b : file) : bool :=
  N.eqb (f_level a) (f_level b) && N.eqb (f_min a) (f_min b) &&
  N.eqb (f_max a) (f_max b) && N.eqb (f_created a) (f_created b).

(** compaction_level.go: [const SnapshotLevel = 9] *)
Definition SnapshotLevel : N := 9.

(** A replica listing: level -> files in iterator order. *)
Definition listing := N -> list file.

(** [restoreCandidateBetter(curr, next)] *)
Definition restore_candidate_better (curr next : file) : bool :=
  if negb (N.eqb (f_max next) (f_max curr)) then N.ltb (f_max curr) (f_max next)
  else if negb (N.eqb (f_min next) (f_min curr)) then N.ltb (f_min next) (f_min curr)
  else if negb (N.eqb (f_level next) (f_level curr)) then N.ltb (f_level curr) (f_level next)
  else N.ltb (f_created next) (f_created curr).

(** [restoreLevelCursor].  [c_rest] is what the iterator has not yet returned. *)
Record cursor := mkCursor {
  c_rest : list file;
  c_current : option file;
  c_candidate : option file;
  c_done : bool }.

Definition new_cursor (l : list file) : cursor := mkCursor l None None false.

(** [ensureCurrent] (iterator errors are not modelled: slice iterators have none) *)
Definition ensure_current (c : cursor) : cursor :=
  if c_done c || (match c_current c with Some _ => true | None => false end) then c
  else match c_rest c with
       | [] => mkCursor [] None (c_candidate c) true
       | f :: tl => mkCursor tl (Some f) (c_candidate c) false
       end.

(** The files the cursor will still look at: [current] (if loaded) then the
    iterator's remainder. *)
Definition c_stream (c : cursor) : list file :=
  match c_current c with Some f => f :: c_rest c | None => c_rest c end.

(** The [for] loop of [refresh], as a structural recursion over the stream
    (each round: [ensureCurrent]; [done] -> return; [info.MinTXID > currentMax+1]
    -> return leaving [current] loaded; otherwise [current = nil] and the three
    filters, then the candidate comparison).  Result: new candidate, current,
    rest, done. *)
Fixpoint refresh_scan (cm tgt ts : N) (cand : option file) (stream : list file)
  : option file * option file * list file * bool :=
  match stream with
  | [] => (cand, None, [], true)
  | info :: tl =>
      if N.ltb (cm + 1) (f_min info) then (cand, Some info, tl, false)
      else if N.leb (f_max info) cm then refresh_scan cm tgt ts cand tl
      else if negb (N.eqb tgt 0) && N.ltb tgt (f_max info) then refresh_scan cm tgt ts cand tl
      else if negb (N.eqb ts 0) && negb (N.ltb (f_created info) ts) then refresh_scan cm tgt ts cand tl
      else
        let cand' := match cand with
                     | None => Some info
                     | Some c => if restore_candidate_better c info then Some info else cand
                     end in
        refresh_scan cm tgt ts cand' tl
  end.

(** [refresh(currentMax, txID, timestamp)] *)
Definition refresh (cm tgt ts : N) (c : cursor) : cursor :=
  if c_done c then c
  else
    let cand := match c_candidate c with
                | Some g => if N.leb (f_max g) cm then None else Some g
                | None => None
                end in
    match refresh_scan cm tgt ts cand (c_stream c) with
    | (cand', cur', rest', done') => mkCursor rest' cur' cand' done'
    end.

(** The inner [for _, cursor := range cursors] of the main loop, after the
    refreshes: index and candidate of [next]. *)
Fixpoint pick_next (i : nat) (cs : list cursor) (next : option (nat * file)) : option (nat * file) :=
  match cs with
  | [] => next
  | c :: tl =>
      match c_candidate c with
      | None => pick_next (S i) tl next
      | Some g =>
          match next with
          | None => pick_next (S i) tl (Some (i, g))
          | Some (_, ng) =>
              if restore_candidate_better ng g then pick_next (S i) tl (Some (i, g))
              else pick_next (S i) tl next
          end
      end
  end.

Definition clear_candidate (c : cursor) : cursor :=
  mkCursor (c_rest c) (c_current c) None (c_done c).

Fixpoint clear_at (i : nat) (cs : list cursor) : list cursor :=
  match cs, i with
  | [], _ => []
  | c :: tl, O => clear_candidate c :: tl
  | c :: tl, S j => c :: clear_at j tl
  end.

Inductive perr := EBoth | ETxNotAvailable | EGap | EFuel.
Inductive presult := POk (p : list file) | PErr (e : perr).

(** state at the [break] of the main loop, or fuel exhausted *)
Inductive loop_out := LBreak (cs : list cursor) (cm : N) (infos : list file) | LFuel.

(** the main [for] loop *)
Fixpoint main_loop (fuel : nat) (tgt ts : N) (cs : list cursor) (cm : N) (infos : list file) : loop_out :=
  match fuel with
  | O => LFuel
  | S k =>
      let cs := map (refresh cm tgt ts) cs in
      match pick_next 0 cs None with
      | None => LBreak cs cm infos
      | Some (i, g) =>
          if N.leb (f_max g) cm then main_loop k tgt ts (clear_at i cs) cm infos
          else
            let infos' := infos ++ [g] in
            let cm' := f_max g in
            let cs' := clear_at i cs in
            if negb (N.eqb tgt 0) && N.leb tgt cm' then LBreak cs' cm' infos'
            else main_loop k tgt ts cs' cm' infos'
      end
  end.

(** the snapshot scan: last listed snapshot passing both filters *)
Fixpoint snapshot_scan (tgt ts : N) (l : list file) (snapshot : option file) : option file :=
  match l with
  | [] => snapshot
  | info :: tl =>
      if negb (N.eqb tgt 0) && N.ltb tgt (f_max info) then snapshot_scan tgt ts tl snapshot
      else if negb (N.eqb ts 0) && negb (N.ltb (f_created info) ts) then snapshot_scan tgt ts tl snapshot
      else snapshot_scan tgt ts tl (Some info)
  end.

(** [FileInfoSlice.MaxTXID]: MaxTXID of the last element, 0 if empty *)
Definition infos_max (infos : list file) : N :=
  match rev infos with [] => 0 | f :: _ => f_max f end.

(** levels in the order the cursors are created: maxLevel down to 0 *)
Definition cursor_levels : list N := [8; 7; 6; 5; 4; 3; 2; 1; 0].

(** latest-mode gap check: first cursor whose (ensured) current starts beyond currentMax+1 *)
Fixpoint gap_check (cm : N) (cs : list cursor) : bool :=
  match cs with
  | [] => false
  | c :: tl =>
      let c := ensure_current c in
      match c_current c with
      | Some f => if N.ltb (cm + 1) (f_min f) then true else gap_check cm tl
      | None => gap_check cm tl
      end
  end.

Definition count_files (fs : listing) : nat :=
  fold_right (fun l acc => (length (fs l) + acc)%nat) O cursor_levels.

Definition calc_restore_plan_fuel (fuel : nat) (fs : listing) (tgt ts : N) : presult :=
  if negb (N.eqb tgt 0) && negb (N.eqb ts 0) then PErr EBoth else
  let snapshot := snapshot_scan tgt ts (fs SnapshotLevel) None in
  let infos := match snapshot with Some s => [s] | None => [] end in
  let cm := infos_max infos in
  if negb (N.eqb tgt 0) && N.leb tgt cm then POk infos else
  let cursors := map (fun l => new_cursor (fs l)) cursor_levels in
  match main_loop fuel tgt ts cursors cm infos with
  | LFuel => PErr EFuel
  | LBreak cs cm infos =>
      if negb (Nat.eqb (length infos) 0) && N.eqb tgt 0 && N.eqb ts 0 && gap_check cm cs then PErr EGap
      else if Nat.eqb (length infos) 0 then PErr ETxNotAvailable
      else if negb (N.eqb tgt 0) && N.ltb (infos_max infos) tgt then PErr ETxNotAvailable
      else POk infos
  end.

(** every iteration of the main loop that does not break removes one candidate
    that was read from an iterator; [#files + 1] iterations always suffice
    ([Proofs.plan_fuel]). *)
Definition calc_restore_plan (fs : listing) (tgt ts : N) : presult :=
  calc_restore_plan_fuel (S (count_files fs)) fs tgt ts.
