(** The decidable tests that the correspondence run applies to the
    implementation's own output ([Plan/Entry.v]: [plan_valid_ok],
    [plan_complete_ok]) decide exactly the propositions of [Plan/Spec.v]:
    [valid_chainb] is [valid_chain], and the brute-force reachability
    [chain_existsb] is "a valid chain exists". *)
From Coq Require Import List Arith NArith Bool Lia.
From LS Require Import Plan.Planner Plan.Spec Plan.Proofs.
Import ListNotations.
Open Scope N_scope.

Lemma file_eqb_eq a b : file_eqb a b = true <-> a = b.
Proof.
  destruct a as [l1 a1 b1 c1], b as [l2 a2 b2 c2]. unfold file_eqb; simpl.
  rewrite !andb_true_iff, !N.eqb_eq. split.
  - intros [[[-> ->] ->] ->]. reflexivity.
  - intros H; inversion H; auto.
Qed.

Lemma memb_In f fs : memb f fs = true <-> In f fs.
Proof.
  unfold memb. rewrite existsb_exists. split.
  - intros (x & Hx & E). apply file_eqb_eq in E. subst; auto.
  - intros H. exists f. split; auto. apply file_eqb_eq; auto.
Qed.

Lemma linksb_spec : forall p c, linksb c p = true <-> links c p.
Proof.
  induction p as [|f tl IH]; simpl; intros c; [tauto|].
  rewrite !andb_true_iff, N.leb_le, N.ltb_lt, IH. tauto.
Qed.

Theorem valid_chainb_spec fs tgt ts p : valid_chainb fs tgt ts p = true <-> valid_chain fs tgt ts p.
Proof.
  unfold valid_chainb, valid_chain. rewrite !andb_true_iff, !orb_true_iff, linksb_spec, !N.eqb_eq.
  rewrite !forallb_forall, Forall_forall.
  assert (A : (forall x, In x p -> memb x fs = true) <-> incl p fs).
  { split; intros H x Hx; [apply memb_In|apply memb_In]; auto. }
  assert (B : (match p with f :: _ => N.eqb (f_min f) 1 | [] => false end) = true <-> starts_at_one p).
  { destruct p; simpl; [split; [discriminate|contradiction]|apply N.eqb_eq]. }
  rewrite A, B.
  assert (C : (ts = 0 \/ (forall x, In x p -> N.ltb (f_created x) ts = true)) <->
              (ts <> 0 -> forall x, In x p -> f_created x < ts)).
  { split.
    - intros [E|H] Hne x Hx; [congruence|]. apply N.ltb_lt; auto.
    - intros H. destruct (N.eq_dec ts 0); auto. right. intros x Hx. apply N.ltb_lt; auto. }
  assert (D : (tgt = 0 \/ chain_end p = tgt) <-> (tgt <> 0 -> chain_end p = tgt)).
  { split; [intros [E|E] Hne; congruence|]. intros H. destruct (N.eq_dec tgt 0); auto. }
  rewrite C, D. tauto.
Qed.

(** ** reachability *)

(** chains over the files created before the timestamp *)
Definition chainq (el q : list file) : Prop := incl q el /\ starts_at_one q /\ links 0 q.

Lemma ts_ok_spec ts f : ts_ok ts f = true <-> (ts <> 0 -> f_created f < ts).
Proof.
  unfold ts_ok. rewrite orb_true_iff, N.eqb_eq, N.ltb_lt. split; [intros [E|E] H; congruence|].
  intros H. destruct (N.eq_dec ts 0); auto.
Qed.

Lemma valid_chain_chainq fs tgt ts q :
  valid_chain fs tgt ts q <->
  chainq (filter (ts_ok ts) fs) q /\ (tgt <> 0 -> chain_end q = tgt).
Proof.
  unfold valid_chain, chainq. split.
  - intros (A & B & C & D & E). splits; auto.
    intros f Hf. apply filter_In. split; auto. apply ts_ok_spec. intros Hne.
    specialize (D Hne). rewrite Forall_forall in D. auto.
  - intros ((A & B & C) & E). splits; auto.
    + intros f Hf. specialize (A f Hf). apply filter_In in A. tauto.
    + intros Hne. apply Forall_forall. intros f Hf. specialize (A f Hf). apply filter_In in A.
      destruct A as [_ A]. apply ts_ok_spec in A; auto.
Qed.

Lemma memN_In x l : memN x l = true <-> In x l.
Proof.
  unfold memN. rewrite existsb_exists. split.
  - intros (y & Hy & E). apply N.eqb_eq in E. subst; auto.
  - intros H. exists x. split; auto. apply N.eqb_refl.
Qed.

Lemma add_new_In : forall xs acc x, In x (add_new xs acc) <-> In x acc \/ In x xs.
Proof.
  induction xs as [|y tl IH]; simpl; intros acc x; [tauto|].
  destruct (memN y acc) eqn:E; rewrite IH.
  - apply memN_In in E. split; [tauto|]. intros [H|[<-|H]]; auto.
  - rewrite in_app_iff. simpl. tauto.
Qed.

Lemma reach_round_In el R x :
  In x (reach_round el R) <->
  In x R \/ exists f r, In f el /\ In r R /\ extends f r = true /\ x = f_max f.
Proof.
  unfold reach_round. rewrite add_new_In, in_map_iff. split.
  - intros [H|(f & <- & Hf)]; auto. apply filter_In in Hf. destruct Hf as [Hf He].
    apply existsb_exists in He. destruct He as (r & Hr & He). right. exists f, r. auto.
  - intros [H|(f & r & Hf & Hr & He & ->)]; auto. right. exists f. split; auto.
    apply filter_In. split; auto. apply existsb_exists. exists r. auto.
Qed.

Lemma extends_spec f r :
  extends f r = true <-> f_min f <= r + 1 /\ r < f_max f /\ (r = 0 -> f_min f = 1).
Proof.
  unfold extends. rewrite !andb_true_iff, orb_true_iff, negb_true_iff, N.leb_le, N.ltb_lt, N.eqb_neq, N.eqb_eq.
  split; [intros [[A B] [C|C]]; splits; auto; intros; congruence|].
  intros (A & B & C). splits; auto. destruct (N.eq_dec r 0); auto.
Qed.

Lemma reach_iter_S_out el : forall n R, reach_iter (S n) el R = reach_round el (reach_iter n el R).
Proof. induction n as [|k IH]; intros R; [reflexivity|]. simpl in *. rewrite <- IH. reflexivity. Qed.

Definition reach_ok (el : list file) (r : N) : Prop := r = 0 \/ exists q, chainq el q /\ chain_end q = r.

Lemma starts_app (q : list file) g : q <> [] -> starts_at_one q -> starts_at_one (q ++ [g]).
Proof. destruct q; simpl; auto. congruence. Qed.

Lemma reach_round_sound el R : (forall r, In r R -> reach_ok el r) ->
  forall r, In r (reach_round el R) -> reach_ok el r.
Proof.
  intros HR x Hx. apply reach_round_In in Hx. destruct Hx as [Hx|(f & r & Hf & Hr & He & ->)]; auto.
  apply extends_spec in He. destruct He as (A & B & C). right.
  destruct (HR r Hr) as [->|(q & (Qi & Qs & Ql) & Qe)].
  - exists [f]. split; [|reflexivity]. unfold chainq. simpl. splits; auto.
    intros x [<-|[]]; auto.
  - assert (Hne : q <> []) by (destruct q; [contradiction|discriminate]).
    exists (q ++ [f]). split; [|apply chain_end_snoc]. unfold chainq. splits.
    + intros x Hx. apply in_app_or in Hx. destruct Hx as [Hx|[<-|[]]]; auto.
    + apply starts_app; auto.
    + apply links_snoc; auto; rewrite endfrom0, Qe; auto.
Qed.

Lemma reach_iter_sound el : forall n R, (forall r, In r R -> reach_ok el r) ->
  forall r, In r (reach_iter n el R) -> reach_ok el r.
Proof.
  induction n as [|k IH]; simpl; intros R HR; auto.
  apply IH. apply reach_round_sound; auto.
Qed.

Lemma links_app_inv : forall p c g, links c (p ++ [g]) ->
  links c p /\ f_min g <= endfrom c p + 1 /\ endfrom c p < f_max g.
Proof.
  induction p as [|f tl IH]; intros c g H.
  - simpl in *. destruct H as (A & B & _). auto.
  - rewrite endfrom_cons. simpl in H. destruct H as (A & B & H).
    destruct (IH _ _ H) as (C & D & E). simpl. splits; auto.
Qed.

Lemma links_nodup : forall p c, links c p -> NoDup p /\ forall f, In f p -> c < f_max f.
Proof.
  induction p as [|f tl IH]; simpl; intros c H; [split; [constructor|intros; contradiction]|].
  destruct H as (A & B & H). destruct (IH _ H) as [ND LT]. split.
  - constructor; auto. intros Hin. specialize (LT f Hin). lia.
  - intros x [<-|Hx]; auto. specialize (LT x Hx). lia.
Qed.

Lemma reach_iter_mono el : forall n R x, In x R -> In x (reach_iter n el R).
Proof.
  induction n as [|k IH]; simpl; intros R x Hx; auto.
  apply IH. apply reach_round_In. auto.
Qed.

Lemma reach_iter_complete el : forall n q, chainq el q -> (length q <= n)%nat ->
  In (chain_end q) (reach_iter n el [0]).
Proof.
  induction n as [|k IH]; intros q (Qi & Qs & Ql) Hlen.
  - destruct q; [contradiction|simpl in Hlen; lia].
  - rewrite reach_iter_S_out. apply reach_round_In.
    destruct q as [|f0 tl0] using rev_ind; [contradiction|]. clear IHtl0. rename f0 into g, tl0 into q0.
    rewrite chain_end_snoc. right.
    destruct (links_app_inv _ _ _ Ql) as (L0 & A & B).
    assert (Hg : In g el) by (apply Qi, in_or_app; right; left; auto).
    rewrite app_length in Hlen. simpl in Hlen.
    destruct q0 as [|f tl].
    + exists g, 0. simpl in *. splits; auto.
      * apply reach_iter_mono. left; auto.
      * apply extends_spec. splits; auto.
    + exists g, (chain_end (f :: tl)). rewrite endfrom0 in A, B. splits; auto.
      * apply IH; [|lia]. unfold chainq. splits; auto.
        intros x Hx. apply Qi, in_or_app. auto.
      * apply extends_spec. splits; auto. intros E.
        assert (Hne : f :: tl <> []) by discriminate.
        pose proof (links_end_gt _ _ L0 Hne). lia.
Qed.

Lemma chainq_length el q : chainq el q -> (length q <= length el)%nat.
Proof.
  intros (Qi & _ & Ql). destruct (links_nodup _ _ Ql) as [ND _].
  apply NoDup_incl_length; auto.
Qed.

(** [reach_set] is exactly the set of ends of chains (plus 0) *)
Theorem reach_set_spec fs ts r :
  In r (reach_set fs ts) <-> reach_ok (filter (ts_ok ts) fs) r.
Proof.
  unfold reach_set. set (el := filter (ts_ok ts) fs). split.
  - apply reach_iter_sound. intros x [<-|[]]. left; auto.
  - intros [->|(q & Hq & <-)].
    + apply reach_iter_mono. left; auto.
    + apply reach_iter_complete; auto. apply chainq_length; auto.
Qed.

Lemma maxN_zero l : maxN l = 0 <-> forall x, In x l -> x = 0.
Proof.
  unfold maxN. induction l as [|y tl IH]; simpl; [split; [intros _ x []|auto]|].
  split.
  - intros H x [<-|Hx]; [lia|]. apply IH; auto. lia.
  - intros H. assert (y = 0) by auto. assert (fold_right N.max 0 tl = 0) by (apply IH; auto). lia.
Qed.

Lemma maxN_ge l x : In x l -> x <= maxN l.
Proof.
  unfold maxN. induction l as [|y tl IH]; simpl; [contradiction|]. intros [<-|H]; [lia|].
  specialize (IH H). lia.
Qed.

Lemma maxN_in l : l <> [] -> In (maxN l) l \/ maxN l = 0.
Proof.
  unfold maxN. induction l as [|y tl IH]; [congruence|]. intros _. simpl.
  destruct tl as [|z tl]; [simpl; left; left; lia|].
  destruct IH as [IH|IH]; [discriminate| |].
  - destruct (N.max_spec y (fold_right N.max 0 (z :: tl))) as [[_ E]|[_ E]]; rewrite E; auto.
  - rewrite IH. left. left. lia.
Qed.

(** [chain_existsb] decides whether a valid chain exists *)
Theorem chain_existsb_spec fs tgt ts :
  chain_existsb fs tgt ts = true <-> exists q, valid_chain fs tgt ts q.
Proof.
  unfold chain_existsb. destruct (N.eqb_spec tgt 0) as [Ht|Ht].
  - rewrite negb_true_iff, N.eqb_neq. split.
    + intros H. assert (Hex : exists r, In r (reach_set fs ts) /\ r <> 0).
      { destruct (maxN_in (reach_set fs ts)) as [Hin|E]; [|eauto|congruence].
        intros E. rewrite E in H. apply H. reflexivity. }
      destruct Hex as (r & Hr & Hne). apply reach_set_spec in Hr.
      destruct Hr as [->|(q & Hq & _)]; [congruence|].
      exists q. apply valid_chain_chainq. split; auto. congruence.
    + intros (q & Hq). apply valid_chain_chainq in Hq. destruct Hq as [Hq _].
      assert (Hin : In (chain_end q) (reach_set fs ts)) by (apply reach_set_spec; right; eauto).
      pose proof (maxN_ge _ _ Hin).
      destruct Hq as (_ & Qs & Ql). assert (q <> []) by (destruct q; [contradiction|discriminate]).
      pose proof (links_end_gt _ _ Ql H0). lia.
  - rewrite memN_In, reach_set_spec. split.
    + intros [->|(q & Hq & E)]; [congruence|]. exists q. apply valid_chain_chainq. auto.
    + intros (q & Hq). apply valid_chain_chainq in Hq. destruct Hq as [Hq E]. right. exists q. auto.
Qed.

(** the greatest reachable TXID, as used by the gap clause of [plan_complete_ok] *)
Theorem reach_max_spec fs ts :
  let r := maxN (reach_set fs ts) in
  (r = 0 \/ exists q, valid_chain fs 0 ts q /\ chain_end q = r) /\
  forall q, valid_chain fs 0 ts q -> chain_end q <= r.
Proof.
  simpl. split.
  - destruct (maxN_in (reach_set fs ts)) as [Hin|E]; auto.
    + intros E. pose proof (proj2 (reach_set_spec fs ts 0) (or_introl eq_refl)) as H0. rewrite E in H0. contradiction.
    + apply reach_set_spec in Hin. destruct Hin as [E|(q & Hq & E)]; auto.
      right. exists q. split; auto. apply valid_chain_chainq. split; auto. congruence.
  - intros q Hq. apply valid_chain_chainq in Hq. destruct Hq as [Hq _].
    apply maxN_ge. apply reach_set_spec. right. eauto.
Qed.
