(** Proofs about the resumable reader (Resumable.v): for EVERY outcome schedule
    the bytes handed to the caller are a prefix of the stored object, EOF is
    only reported once [size] bytes were delivered (when [size > 0]), the error
    after more than [rr_budget] failures is sticky, the loop fuel suffices. *)
From Coq Require Import List Arith Bool Lia.
From LS Require Import Faults.Resumable.
Import ListNotations.

Lemma firstn_plus {A} (l : list A) a b : firstn (a + b) l = firstn a l ++ firstn b (skipn a l).
Proof.
  revert l; induction a; intros l; simpl; auto.
  destruct l; simpl. - now rewrite firstn_nil. - now rewrite IHa.
Qed.

Lemma skipn_plus {A} (l : list A) a b : skipn b (skipn a l) = skipn (a + b) l.
Proof.
  revert l; induction a; intros l; simpl; auto.
  destruct l; simpl; auto. now rewrite skipn_nil.
Qed.

Section RR.
Context {A : Type}.
Variable file : list A.
Variable size : nat.

Lemma avail_le p plen n : avail file p plen n <= length file - p.
Proof. unfold avail. lia. Qed.

Lemma serve_length p k : k <= length file - p -> length (serve file p k) = k.
Proof. intros. unfold serve. rewrite firstn_length, skipn_length. lia. Qed.

(** state invariant: an open stream stands exactly at [r.offset]; the sticky
    error is set iff the retry counter has passed the budget *)
Definition rinv (st : rst) : Prop :=
  (match r_rc st with Some p => p = r_off st | None => True end) /\
  r_off st <= length file /\
  (r_err st = None -> r_retry st <= rr_budget) /\
  (forall e, r_err st = Some e -> e = EMax /\ rr_budget < r_retry st).

Lemma rinv_ok off n rc :
  (match rc with Some p => p = off | None => True end) -> off <= length file -> n <= rr_budget ->
  rinv (mkR off n rc None).
Proof. intros. unfold rinv; simpl. split; [auto|split; [auto|split; [auto|]]]. intros e X; discriminate. Qed.

Lemma rinv_st st :
  (match r_rc st with Some p => p = r_off st | None => True end) -> r_off st <= length file ->
  (r_err st = None /\ r_retry st <= rr_budget) \/ (r_err st = Some EMax /\ rr_budget < r_retry st) ->
  rinv st.
Proof.
  intros H1 H2 H3. unfold rinv. split; [auto|split; [auto|split]].
  - intros E. destruct H3 as [[_ ?]|[X _]]; [auto|congruence].
  - intros e E. destruct H3 as [[X _]|[X ?]]; [congruence|]. rewrite X in E. inversion E. auto.
Qed.

(** what one call of the loop guarantees *)
Record rpost (st : rst) (r : rres) : Prop := mkPost {
  po_inv : rinv (rr_st r);
  po_bytes : rr_bytes r = serve file (r_off st) (length (rr_bytes r));
  po_off : r_off (rr_st r) = r_off st + length (rr_bytes r);
  po_eof : rr_e r = EEOF -> 0 < size -> size <= r_off (rr_st r);
  po_max : rr_e r = EMax <-> r_err (rr_st r) = Some EMax;
  po_retry : r_retry st <= r_retry (rr_st r);
  po_nofuel : rr_e r <> EFuel
}.

Lemma rr_retry_spec st st1 ex :
  rr_retry st = (st1, ex) ->
  r_off st1 = r_off st /\ r_rc st1 = r_rc st /\ r_retry st1 = S (r_retry st) /\
  (ex = true -> r_err st1 = Some EMax /\ rr_budget < r_retry st1) /\
  (ex = false -> r_err st1 = r_err st /\ r_retry st1 <= rr_budget).
Proof.
  unfold rr_retry. destruct (Nat.ltb rr_budget (S (r_retry st))) eqn:E; intros X; inversion X; subst; simpl;
    repeat split; try congruence; intros; try discriminate.
  - apply Nat.ltb_lt in E. lia.
  - apply Nat.ltb_ge in E. lia.
Qed.

Lemma serve_nil p : serve file p 0 = [].
Proof. reflexivity. Qed.

Ltac direct_ret E1 E2 E3 :=
  constructor; simpl;
  [ apply rinv_st; simpl; [lia | lia | left; split; [congruence | lia]]
  | rewrite serve_length by lia; reflexivity
  | rewrite serve_length by lia; lia
  | idtac
  | split; intros X; congruence
  | lia
  | congruence ].

Lemma read_loop_spec fuel : forall plen st s,
  rinv st -> r_err st = None -> rr_budget - r_retry st < fuel ->
  rpost st (read_loop file size fuel plen st s).
Proof.
  induction fuel as [|fuel IH]; intros plen st s Hinv Herr Hfuel; [lia|].
  destruct Hinv as (Hrc & Hoff & Hle & Hsome).
  specialize (Hle Herr).
  assert (DoRead : forall s0 st0,
     r_off st0 = r_off st -> r_retry st0 = r_retry st -> r_err st0 = None ->
     rpost st
      (let '(it, tl) := pop_read s0 in
       let rem := length file - r_off st in
       let '(n, kind) :=
         match it with
         | RData n => (n, 0)
         | REOF n => (n, 1)
         | RErr n => (n, 2)
         | RHonest => (plen, if Nat.eqb rem 0 then 1 else 0)
         end in
       let k := avail file (r_off st) plen n in
       let chunk := serve file (r_off st) k in
       let st' := mkR (r_off st0 + k) (r_retry st0) (Some (r_off st + k)) (r_err st0) in
       match kind with
       | 0 => mkRes chunk ENone st' tl
       | 1 => if Nat.ltb 0 size && Nat.ltb (r_off st') size
              then after_fail chunk k st' tl (read_loop file size fuel plen)
              else mkRes chunk EEOF st' tl
       | _ => after_fail chunk k st' tl (read_loop file size fuel plen)
       end)).
  { intros s0 st0 E1 E2 E3.
    destruct (pop_read s0) as [it tl].
    set (rem := length file - r_off st).
    assert (AF : forall n, rpost st (after_fail (serve file (r_off st) (avail file (r_off st) plen n))
                        (avail file (r_off st) plen n)
                        (mkR (r_off st0 + avail file (r_off st) plen n) (r_retry st0)
                             (Some (r_off st + avail file (r_off st) plen n)) (r_err st0))
                        tl (read_loop file size fuel plen))).
    { intros n. pose proof (avail_le (r_off st) plen n) as Hav.
      set (k := avail file (r_off st) plen n) in *.
      unfold after_fail.
      destruct (rr_retry _) as [st1 ex] eqn:ER.
      apply rr_retry_spec in ER. simpl in ER. destruct ER as (R1 & R2 & R3 & R4 & R5).
      destruct ex.
      - destruct (R4 eq_refl) as (R6 & R7).
        constructor; simpl.
        + apply rinv_st; [rewrite R2; exact I | lia | right; split; [exact R6 | lia]].
        + rewrite serve_length by lia; reflexivity.
        + rewrite serve_length by lia; lia.
        + intros X; discriminate.
        + split; intros _; [exact R6 | reflexivity].
        + lia.
        + discriminate.
      - destruct (R5 eq_refl) as (R6 & R7).
        destruct (Nat.ltb 0 k) eqn:EK.
        + constructor; simpl.
          * apply rinv_st; [rewrite R2; exact I | lia | left; split; [congruence | lia]].
          * rewrite serve_length by lia; reflexivity.
          * rewrite serve_length by lia; lia.
          * intros X; discriminate.
          * split; intros X; [discriminate | congruence].
          * lia.
          * discriminate.
        + apply Nat.ltb_ge in EK. assert (K0 : k = 0) by lia.
          assert (Hst1 : rinv st1).
          { apply rinv_st; [rewrite R2; exact I | lia | left; split; [congruence | lia]]. }
          assert (Hst1e : r_err st1 = None) by congruence.
          assert (Hf : rr_budget - r_retry st1 < fuel) by lia.
          pose proof (IH plen st1 tl Hst1 Hst1e Hf) as P.
          destruct P. constructor; auto.
          * etransitivity; [exact po_bytes0|]. f_equal. lia.
          * rewrite po_off0. lia.
          * lia.
    }
    destruct it as [n|n|n|]; simpl.
    - pose proof (avail_le (r_off st) plen n).
      direct_ret E1 E2 E3. intros X; discriminate.
    - destruct (Nat.ltb 0 size && Nat.ltb (r_off st0 + avail file (r_off st) plen n) size) eqn:EP.
      + apply AF.
      + pose proof (avail_le (r_off st) plen n).
        direct_ret E1 E2 E3.
        intros _ Hs. apply andb_false_iff in EP. destruct EP as [EP|EP]; apply Nat.ltb_ge in EP; lia.
    - apply AF.
    - destruct (Nat.eqb rem 0) eqn:ER.
      + destruct (Nat.ltb 0 size && Nat.ltb (r_off st0 + avail file (r_off st) plen plen) size) eqn:EP.
        * apply AF.
        * pose proof (avail_le (r_off st) plen plen).
          direct_ret E1 E2 E3.
          intros _ Hs. apply andb_false_iff in EP. destruct EP as [EP|EP]; apply Nat.ltb_ge in EP; lia.
      + pose proof (avail_le (r_off st) plen plen).
        direct_ret E1 E2 E3. intros X; discriminate.
  }
  simpl read_loop.
  destruct (r_rc st) as [p|] eqn:ERC.
  - subst p. apply (DoRead s st); auto.
  - pose proof (DoRead s (mkR (r_off st) (r_retry st) (Some (r_off st)) (r_err st)) eq_refl eq_refl Herr) as Open.
    destruct s as [|o tl]; [exact Open|].
    destruct o; try exact Open.
    + (* OpenErr *)
      destruct (rr_retry st) as [st1 ex] eqn:ER.
      apply rr_retry_spec in ER. destruct ER as (R1 & R2 & R3 & R4 & R5).
      destruct ex.
      * destruct (R4 eq_refl) as (R6 & R7).
        constructor; simpl.
        -- apply rinv_st; [rewrite R2, ERC; exact I | lia | right; split; [exact R6 | lia]].
        -- reflexivity.
        -- lia.
        -- intros X; discriminate.
        -- split; intros _; [exact R6 | reflexivity].
        -- lia.
        -- discriminate.
      * destruct (R5 eq_refl) as (R6 & R7).
        assert (Hst1 : rinv st1).
        { apply rinv_st; [rewrite R2, ERC; exact I | lia | left; split; [congruence | lia]]. }
        assert (Hst1e : r_err st1 = None) by congruence.
        assert (Hf : rr_budget - r_retry st1 < fuel) by lia.
        pose proof (IH plen st1 tl Hst1 Hst1e Hf) as P.
        destruct P. constructor; auto.
        -- etransitivity; [exact po_bytes0|]. f_equal. lia.
        -- rewrite po_off0. lia.
        -- lia.
    + (* OpenNotExist *)
      constructor; simpl.
      * apply rinv_st; [rewrite ERC; exact I | lia | left; split; [assumption | lia]].
      * reflexivity.
      * lia.
      * intros X; discriminate.
      * split; intros X; [discriminate | congruence].
      * lia.
      * discriminate.
Qed.

Lemma serve_plus p a b : serve file p (a + b) = serve file p a ++ serve file (p + a) b.
Proof. unfold serve. rewrite firstn_plus, skipn_plus. reflexivity. Qed.

Lemma rinv_init opened : rinv (rr_init opened).
Proof. unfold rr_init. apply rinv_ok; [destruct opened; auto | lia | unfold rr_budget; lia]. Qed.

(** one [Read] call *)
Record cpost (st : rst) (r : rres) : Prop := mkCPost {
  cp_inv : rinv (rr_st r);
  cp_bytes : rr_bytes r = serve file (r_off st) (length (rr_bytes r));
  cp_off : r_off (rr_st r) = r_off st + length (rr_bytes r);
  cp_eof : rr_e r = EEOF -> 0 < size -> size <= r_off (rr_st r);
  cp_max : rr_e r = EMax <-> r_err (rr_st r) = Some EMax;
  cp_sticky : r_err st <> None -> rr_bytes r = [] /\ rr_e r = EMax /\ rr_st r = st;
  cp_retry : r_retry st <= r_retry (rr_st r);
  cp_nofuel : rr_e r <> EFuel
}.

Lemma rr_read_spec plen st s : rinv st -> cpost st (rr_read file size plen st s).
Proof.
  intros Hinv. unfold rr_read. destruct (r_err st) as [e|] eqn:E.
  - destruct Hinv as (H1 & H2 & H3 & H4). destruct (H4 e E) as (-> & Hb).
    constructor; simpl.
    + exact (conj H1 (conj H2 (conj H3 H4))).
    + reflexivity.
    + lia.
    + intros X; discriminate.
    + split; intros _; [exact E | reflexivity].
    + intros _. auto.
    + lia.
    + discriminate.
  - assert (F : rr_budget - r_retry st < S (S rr_budget)) by (unfold rr_budget; lia).
    destruct (read_loop_spec (S (S rr_budget)) plen st s Hinv E F).
    constructor; auto. intros X; congruence.
Qed.

Lemma sticky_flag st r : cpost st r ->
  (match r_err st with Some _ => true | None => false end
   || match rr_e r with EMax => true | _ => false end)
  = match r_err (rr_st r) with Some _ => true | None => false end.
Proof.
  intros P. destruct P.
  destruct (r_err st) eqn:E.
  - destruct cp_sticky0 as (_ & _ & X3); [congruence|]. rewrite X3, E. reflexivity.
  - simpl. destruct (r_err (rr_st r)) eqn:E2.
    + destruct cp_inv0 as (_ & _ & _ & X). destruct (X _ E2) as (-> & _).
      destruct cp_max0 as (_ & Y). rewrite (Y eq_refl). reflexivity.
    + destruct (rr_e r) eqn:EE; try reflexivity.
      destruct cp_max0 as (Y & _). specialize (Y eq_refl). congruence.
Qed.

(** the property of a whole session, as a recursive predicate over the calls:
    [off] bytes were delivered so far, [sticky] = a "max retries" error was returned *)
Fixpoint calls_ok (off : nat) (sticky : bool) (calls : list (list A * rerr)) : Prop :=
  match calls with
  | [] => True
  | (b, e) :: tl =>
      b = serve file off (length b) /\ off + length b <= length file /\
      (sticky = true -> b = [] /\ e = EMax) /\
      (e = EEOF -> 0 < size -> size <= off + length b) /\
      e <> EFuel /\
      calls_ok (off + length b) (sticky || match e with EMax => true | _ => false end) tl
  end.

Lemma rr_calls_spec plens : forall st s calls stf,
  rinv st -> rr_calls file size plens st s = (calls, stf) ->
  rinv stf /\ r_retry st <= r_retry stf /\
  calls_ok (r_off st) (match r_err st with Some _ => true | None => false end) calls /\
  r_off stf = r_off st + length (concat (map fst calls)).
Proof.
  induction plens as [|plen tl IH]; intros st s calls stf Hinv Hrun; simpl in Hrun.
  - inversion Hrun; subst. simpl. split; [exact Hinv|]. split; [lia|]. split; [exact I|]. lia.
  - destruct (rr_calls file size tl _ _) as [rest stf'] eqn:ER. inversion Hrun; subst; clear Hrun.
    pose proof (rr_read_spec plen st s Hinv) as P. destruct P.
    destruct (IH _ _ _ _ cp_inv0 ER) as (I1 & I2 & I3 & I4).
    split; [auto|]. split; [lia|]. split.
    + simpl. split; [auto|]. split.
      { destruct cp_inv0 as (_ & X & _). lia. }
      split.
      { intros Hs. destruct (r_err st) eqn:E; [|discriminate].
        destruct cp_sticky0 as (X1 & X2 & _); [congruence|]. auto. }
      split; [intros X Y; rewrite <- cp_off0; auto|].
      split; [auto|].
      rewrite <- cp_off0.
      rewrite (sticky_flag st _ (mkCPost _ _ cp_inv0 cp_bytes0 cp_off0 cp_eof0 cp_max0 cp_sticky0 cp_retry0 cp_nofuel0)).
      exact I3.
    + simpl. rewrite app_length, I4, cp_off0. lia.
Qed.

Lemma calls_ok_split : forall pre off sticky c post,
  calls_ok off sticky (pre ++ c :: post) ->
  let d := concat (map fst (pre ++ [c])) in
  d = serve file off (length d) /\ off + length d <= length file /\
  (snd c = EEOF -> 0 < size -> size <= off + length d) /\
  (snd c = EMax -> Forall (fun c' => c' = ([], EMax)) post).
Proof.
  induction pre as [|[b e] pre IH]; intros off sticky c post H; simpl in *.
  - destruct c as [b e]. simpl in *. destruct H as (H1 & H2 & H3 & H4 & H5 & H6).
    rewrite app_nil_r. repeat split; auto.
    intros ->. rewrite orb_true_r in H6. clear - H6.
    revert H6. generalize (off + length b). induction post as [|[b' e'] post IHp]; intros o H; constructor.
    + simpl in H. destruct H as (_ & _ & X & _). destruct (X eq_refl) as (-> & ->). reflexivity.
    + simpl in H. destruct H as (_ & _ & _ & _ & _ & X). simpl in X. eapply IHp; eauto.
  - destruct H as (H1 & H2 & H3 & H4 & H5 & H6).
    destruct (IH _ _ _ _ H6) as (J1 & J2 & J3 & J4).
    rewrite app_length. repeat split; auto.
    + rewrite serve_plus. rewrite <- H1. f_equal. exact J1.
    + lia.
    + intros X Y. specialize (J3 X Y). lia.
Qed.

Lemma serve_0_firstn k : serve file 0 k = firstn k file.
Proof. reflexivity. Qed.

Lemma calls_ok_concat : forall calls off sticky,
  calls_ok off sticky calls ->
  concat (map fst calls) = serve file off (length (concat (map fst calls))).
Proof.
  induction calls as [|[b e] tl IH]; intros off sticky H; simpl in *; auto.
  destruct H as (H1 & _ & _ & _ & _ & H6).
  rewrite app_length, serve_plus, <- H1. f_equal. eapply IH; eauto.
Qed.

(** reading to the end *)
Lemma rr_read_all_spec fuel plen : forall st s acc d,
  rinv st -> rr_read_all file size fuel plen st s acc = Some d ->
  exists k, d = acc ++ serve file (r_off st) k /\ r_off st + k <= length file /\
            (0 < size -> size <= r_off st + k).
Proof.
  induction fuel as [|fuel IH]; intros st s acc d Hinv H; simpl in H; [discriminate|].
  pose proof (rr_read_spec plen st s Hinv) as P. destruct P.
  destruct (rr_e (rr_read file size plen st s)) eqn:EE; try discriminate.
  - destruct (IH _ _ _ _ cp_inv0 H) as (k & K1 & K2 & K3).
    exists (length (rr_bytes (rr_read file size plen st s)) + k).
    rewrite serve_plus, <- cp_bytes0, <- cp_off0, app_assoc. split; [auto|]. split; lia.
  - inversion H; subst. exists (length (rr_bytes (rr_read file size plen st s))).
    rewrite <- cp_bytes0. split; [auto|]. destruct cp_inv0 as (_ & X & _). split; [lia|].
    intros Y. specialize (cp_eof0 eq_refl Y). lia.
Qed.
End RR.

(** ---- the theorems, closed --------------------------------------------------- *)

(** [rr_prefix]: for EVERY outcome schedule and every sequence of buffer sizes
    the bytes handed to the caller are a prefix of the stored object; a call
    reporting EOF while [size > 0] has brought the total to at least [size]
    bytes — the whole object when [size] is its length. *)
Theorem rr_prefix_thm : forall (A : Type) (file : list A) (size : nat) (opened : bool)
    (sched : list outcome) (plens : list nat) calls st,
  rr_calls file size plens (rr_init opened) sched = (calls, st) ->
  concat (map fst calls) = firstn (r_off st) file /\ r_off st <= length file /\
  (forall pre c post, calls = pre ++ c :: post -> snd c = EEOF -> 0 < size ->
     let d := concat (map fst (pre ++ [c])) in
     d = firstn (length d) file /\ size <= length d /\ (size = length file -> d = file)).
Proof.
  intros A file size opened sched plens calls st H.
  destruct (rr_calls_spec file size plens _ _ _ _ (rinv_init file opened) H) as (I1 & I2 & I3 & I4).
  assert (O0 : r_off (rr_init opened) = 0) by reflexivity. rewrite O0 in *. simpl in I4.
  split; [|split].
  - rewrite I4. rewrite (calls_ok_concat file size _ _ _ I3) at 1. reflexivity.
  - destruct I1 as (_ & X & _). exact X.
  - intros pre c post -> He Hs. destruct (calls_ok_split file size _ _ _ _ _ I3) as (J1 & J2 & J3 & _).
    simpl. split; [exact J1|]. specialize (J3 He Hs). simpl in J3. split; [exact J3|].
    intros ->. rewrite J1. unfold serve. simpl. apply firstn_all2. simpl in J2. lia.
Qed.

(** [rr_budget]: the reader fails for good exactly when its failure counter has
    passed the budget (3): then every later call returns no bytes and the same
    error — the stream is never silently cut short; the model's loop fuel is
    never exhausted. *)
Theorem rr_budget_thm : forall (A : Type) (file : list A) (size : nat) (opened : bool)
    (sched : list outcome) (plens : list nat) calls st,
  rr_calls file size plens (rr_init opened) sched = (calls, st) ->
  (r_err st = Some EMax <-> rr_budget < r_retry st) /\
  (r_err st = None \/ r_err st = Some EMax) /\
  (forall pre c post, calls = pre ++ c :: post -> snd c = EMax ->
     Forall (fun c' => c' = ([], EMax)) post) /\
  Forall (fun c => snd c <> EFuel) calls.
Proof.
  intros A file size opened sched plens calls st H.
  destruct (rr_calls_spec file size plens _ _ _ _ (rinv_init file opened) H) as (I1 & I2 & I3 & I4).
  destruct I1 as (_ & _ & X1 & X2).
  split; [|split; [|split]].
  - split; intros Y.
    + destruct (X2 _ Y); auto.
    + destruct (r_err st) eqn:E.
      * destruct (X2 _ eq_refl) as (-> & _). reflexivity.
      * specialize (X1 eq_refl). lia.
  - destruct (r_err st) eqn:E; [right|left; reflexivity]. destruct (X2 _ eq_refl) as (-> & _). reflexivity.
  - intros pre c post -> He. destruct (calls_ok_split file size _ _ _ _ _ I3) as (_ & _ & _ & J4). auto.
  - clear - I3. revert I3. generalize (r_off (rr_init opened)).
    generalize (match r_err (rr_init opened) with Some _ => true | None => false end).
    induction calls as [|[b e] tl IH]; intros sticky off H; constructor.
    + simpl in *. tauto.
    + simpl in H. destruct H as (_ & _ & _ & _ & _ & X). eapply IH; eauto.
Qed.

(** a consumer that reads to EOF through the resumable reader gets the stored
    object itself (used by the Restore model): *)
Theorem rr_read_all_whole_gen : forall (A : Type) (file : list A) (size fuel plen : nat) (opened : bool)
    (sched : list outcome) d,
  rr_read_all file size fuel plen (rr_init opened) sched [] = Some d ->
  d = firstn (length d) file /\ length d <= length file /\ (0 < size -> size <= length d) /\
  (0 < size -> size = length file -> d = file).
Proof.
  intros A file size fuel plen opened sched d H.
  destruct (rr_read_all_spec file size fuel plen _ _ _ _ (rinv_init file opened) H) as (k & K1 & K2 & K3).
  assert (O : r_off (rr_init opened) = 0) by reflexivity. rewrite O in *.
  simpl in *. assert (L : length d = k) by (rewrite K1; apply serve_length; lia).
  rewrite L. split; [exact K1|]. split; [lia|]. split; [exact K3|].
  intros Hs ->. rewrite K1. unfold serve. simpl. apply firstn_all2. specialize (K3 Hs). lia.
Qed.

Theorem rr_read_all_whole : forall (A : Type) (file : list A) (size fuel plen : nat)
    (sched : list outcome) d,
  rr_read_all file size fuel plen (rr_init false) sched [] = Some d ->
  d = firstn (length d) file /\ length d <= length file /\ (0 < size -> size <= length d) /\
  (0 < size -> size = length file -> d = file).
Proof.
  intros A file size fuel plen sched d H.
  destruct (rr_read_all_spec file size fuel plen _ _ _ _ (rinv_init file false) H) as (k & K1 & K2 & K3).
  simpl in *. assert (L : length d = k) by (rewrite K1; apply serve_length; lia).
  rewrite L. split; [exact K1|]. split; [lia|]. split; [exact K3|].
  intros Hs ->. rewrite K1. unfold serve. simpl. apply firstn_all2. specialize (K3 Hs). lia.
Qed.

(** the hypotheses are satisfiable by non-trivial runs: three failures are
    absorbed (budget 3), the fourth is fatal and sticky; an early EOF is not
    passed on when the size is known, and is passed on when it is not *)
Example rr_example_recovers :
  rr_calls [1;2;3;4;5] 5 [2;2;2;2;2] (rr_init false) [OpenErr; DataErr 1; DataEOF 1; Data 5]
  = ([([1], ENone); ([2], ENone); ([3;4], ENone); ([5], ENone); ([], EEOF)], mkR 5 3 (Some 5) None).
Proof. vm_compute. reflexivity. Qed.

Example rr_example_exhausts :
  fst (rr_calls [1;2;3;4;5] 5 [2;2;2] (rr_init true) [DataErr 1; OpenErr; DataEOF 0; DataErr 0; Data 5])
  = [([1], ENone); ([], EMax); ([], EMax)].
Proof. vm_compute. reflexivity. Qed.

Example rr_example_size0_silent_short :
  fst (rr_calls [1;2;3;4;5] 0 [4;4] (rr_init true) [DataEOF 2])
  = [([1;2], EEOF); ([3;4;5], ENone)].
Proof. vm_compute. reflexivity. Qed.
