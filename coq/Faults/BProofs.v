(** Proofs about (re)opening a database that may be behind its replica
    (Behind.v): an acknowledged SyncAndWait means local and remote positions are
    EQUAL (not merely local <= remote), for every fault schedule — in particular
    a failed listing during init can only surface as an error; once faults stop
    the next SyncAndWait succeeds, EXCEPT after a short read of the fetched
    baseline file (finding, [catch_up_after_short_baseline_read_refuted]). *)
From Coq Require Import List NArith Bool Lia.
From LS Require Import Faults.Upload Faults.UProofs Faults.Behind.
Import ListNotations.
Local Open Scope N_scope.

Ltac fin_cb :=
  simpl; split; [first [assumption | match goal with U : forall l, uinv _ _ |- _ => apply U end]|];
  split; [reflexivity|]; split; [reflexivity|];
  split; [first [assumption | match goal with L2 : forall t, Forall _ _ |- _ => apply L2 end]|];
  split; [intros; try discriminate; try (simpl; lia) | intros; try discriminate; try reflexivity].

Lemma check_behind_spec sized fl st s :
  uinv fl st ->
  let i := check_behind sized st s in
  uinv fl (br_st i) /\ u_remote (br_st i) = u_remote st /\ u_pos (br_st i) = u_pos st /\
  Forall (listing_ok fl) (br_trace i) /\
  (br_ok i = true -> br_corrupt i = false -> maxl (u_remote st) <= maxl (u_local (br_st i))) /\
  (br_ok i = false -> br_corrupt i = false).
Proof.
  intros (Hrun & Hpos). unfold check_behind.
  destruct (next_outcome s) as [o s1].
  assert (L0 : Forall (listing_ok fl) [mkC 0 0 (u_remote st)]) by (constructor; [exact Hrun|constructor]).
  assert (L2 : forall t, Forall (listing_ok fl) ([mkC 0 0 (u_remote st)] ++ [mkC 2 t (u_remote st)])).
  { intros t. apply Forall_app. split; [exact L0|]. constructor; [exact Hrun|constructor]. }
  assert (U : forall l, uinv fl (mkU (u_remote st) (u_pos st) l)) by (intros l; split; [exact Hrun | exact Hpos]).
  assert (Ust : uinv fl st) by (split; [exact Hrun | exact Hpos]).
  destruct o; simpl client_list; cbv iota beta; try fin_cb.
  destruct (N.eqb (maxl (u_remote st)) 0) eqn:E0; [apply N.eqb_eq in E0; fin_cb|].
  destruct (N.leb (maxl (u_remote st)) (maxl (u_local st))) eqn:E1; [apply N.leb_le in E1; fin_cb|].
  destruct (next_outcome s1) as [o2 s2].
  destruct o2; try fin_cb. destruct sized; fin_cb.
Qed.

Lemma check_behind_nil sized st : check_behind sized st [] =
  let rmax := maxl (u_remote st) in
  if N.eqb rmax 0 then mkBR true st false [] [mkC 0 0 (u_remote st)]
  else if N.leb rmax (maxl (u_local st)) then mkBR true st false [] [mkC 0 0 (u_remote st)]
  else mkBR true (mkU (u_remote st) (u_pos st) [rmax]) false [] ([mkC 0 0 (u_remote st)] ++ [mkC 2 rmax (u_remote st)]).
Proof.
  unfold check_behind. simpl.
  destruct (N.eqb (maxl (u_remote st)) 0); [reflexivity|].
  destruct (N.leb (maxl (u_remote st)) (maxl (u_local st))); reflexivity.
Qed.

(** the local level-0 set right after init (before db.Sync adds to it) *)
Definition local_after_init (sized : bool) (b : bst) (s : list coutcome) : list N :=
  if b_init b then u_local (b_u b) else u_local (br_st (check_behind sized (b_u b) s)).

Definition binv (fl : N) (b : bst) : Prop :=
  uinv fl (b_u b) /\
  (b_init b = true -> b_corrupt b = false -> maxl (u_remote (b_u b)) <= maxl (u_local (b_u b))).

(** one SyncAndWait, any schedule: the invariant is kept; nil means IN SYNC *)
Theorem sync_wait_spec : forall sized fl b s la,
  binv fl b ->
  maxl (local_after_init sized b s) <= maxl la ->          (* db.Sync only appends above the local position *)
  let '(b', o) := sync_wait sized b s la in
  binv fl b' /\
  Forall (listing_ok fl) (so_trace o) /\
  (so_err o = E_NIL ->
     b_init b' = true /\ b_corrupt b' = false /\ u_local (b_u b') = la /\
     so_pos o = maxl (u_remote (b_u b')) /\ maxl (u_remote (b_u b')) = maxl la /\
     forall t, In t la -> fl <= t -> In t (u_remote (b_u b'))).
Proof.
  intros sized fl b s la (Hu & Hb) Hg. unfold sync_wait.
  destruct (b_corrupt b) eqn:EC.
  { split; [split; [exact Hu | intros _ X; congruence]|]. split; [constructor|]. unfold E_CLIENT, E_NIL. simpl. discriminate. }
  unfold local_after_init in Hg.
  assert (Core : forall i,
     uinv fl (br_st i) -> Forall (listing_ok fl) (br_trace i) ->
     (br_ok i = true -> br_corrupt i = false -> maxl (u_remote (br_st i)) <= maxl (u_local (br_st i))) ->
     (br_ok i = false -> br_corrupt i = false) ->
     maxl (u_local (br_st i)) <= maxl la ->
     let '(b', o) :=
       (if negb (br_ok i) then (mkB (br_st i) false false, mkSO E_CLIENT (u_pos (br_st i)) (br_trace i))
        else if br_corrupt i then (mkB (br_st i) true true, mkSO E_CLIENT (u_pos (br_st i)) (br_trace i))
        else
          let st1 := mkU (u_remote (br_st i)) (u_pos (br_st i)) la in
          let r := sync 0 st1 (br_sched i) in
          (mkB (s_st r) true false,
           mkSO (if N.eqb (s_err r) E_NIL then E_NIL else E_CLIENT) (u_pos (s_st r)) (br_trace i ++ s_trace r))) in
     binv fl b' /\ Forall (listing_ok fl) (so_trace o) /\
     (so_err o = E_NIL ->
        b_init b' = true /\ b_corrupt b' = false /\ u_local (b_u b') = la /\
        so_pos o = maxl (u_remote (b_u b')) /\ maxl (u_remote (b_u b')) = maxl la /\
        forall t, In t la -> fl <= t -> In t (u_remote (b_u b')))).
  { intros i Ui Ti Oi Fi Gi.
    destruct (br_ok i) eqn:EO; simpl negb; cbv iota.
    2:{ split; [split; [exact Ui | simpl; intros X; discriminate]|]. split; [exact Ti|].
        unfold E_CLIENT, E_NIL. simpl. discriminate. }
    destruct (br_corrupt i) eqn:EK.
    { split; [split; [exact Ui | simpl; intros _ X; discriminate]|]. split; [exact Ti|].
      unfold E_CLIENT, E_NIL. simpl. discriminate. }
    cbv zeta.
    set (st1 := mkU (u_remote (br_st i)) (u_pos (br_st i)) la).
    assert (U1 : uinv fl st1) by (destruct Ui as (A & B); split; [exact A | exact B]).
    destruct (sync_spec fl 0 st1 (br_sched i) U1) as (A & B & C & D & F).
    pose proof (sync_bound 0 st1 (br_sched i)) as Bd.
    assert (R1 : maxl (u_remote st1) <= maxl la) by (simpl; specialize (Oi eq_refl eq_refl); lia).
    split.
    { split; [exact A|]. simpl. intros _ _. rewrite C. simpl.
      (* remote max <= local max afterwards: either unchanged or uploaded <= la *)
      simpl in Bd. lia. }
    split; [apply Forall_app; split; assumption|].
    simpl. destruct (N.eqb (s_err (sync 0 st1 (br_sched i))) E_NIL) eqn:EE; [|unfold E_CLIENT, E_NIL; discriminate].
    intros _. apply N.eqb_eq in EE. destruct (D EE) as (D1 & D2). simpl in D2, Bd.
    split; [reflexivity|]. split; [reflexivity|]. split; [exact C|]. split; [exact D1|].
    split; [lia|].
    intros t Ht Hf. destruct A as ((_ & _ & X) & _). apply X. rewrite <- D1.
    pose proof (maxl_ge _ _ Ht). lia. }
  destruct (b_init b) eqn:EI.
  - apply (Core (mkBR true (b_u b) false s [])); simpl;
      [exact Hu | constructor | intros _ _; apply Hb; auto | intros X; discriminate | exact Hg].
  - destruct (check_behind_spec sized fl (b_u b) s Hu) as (A & B & C & D & E & F).
    apply Core; [exact A | exact D | rewrite B; exact E | exact F | exact Hg].
Qed.

(** states reachable from any process start over a replica that is a run *)
Inductive breach (sized : bool) : N -> bst -> Prop :=
| breach_open : forall fl remote local, run fl remote -> breach sized fl (b_open remote local)
| breach_sync : forall fl b s la, breach sized fl b ->
    maxl (local_after_init sized b s) <= maxl la ->
    breach sized fl (fst (sync_wait sized b s la)).

Lemma breach_inv sized fl b : breach sized fl b -> binv fl b.
Proof.
  induction 1 as [fl remote local R | fl b s la Hb IH Hg].
  - split; [split; [exact R | simpl; congruence] | simpl; discriminate].
  - pose proof (sync_wait_spec sized fl b s la IH Hg) as P. destruct (sync_wait sized b s la) as [b' o]. apply P.
Qed.

(** with sizes in the listing (fix 086c0cc) a short read of the baseline is an
    error like any other: the "corrupt local baseline" state is unreachable,
    whatever the fault schedules were *)
Lemma check_behind_sized_not_corrupt st s : br_corrupt (check_behind true st s) = false.
Proof.
  unfold check_behind. destruct (next_outcome s) as [o s1].
  destruct (client_list o (u_remote st)); [|reflexivity].
  destruct (N.eqb (maxl l) 0); [reflexivity|].
  destruct (N.leb (maxl l) (maxl (u_local st))); [reflexivity|].
  destruct (next_outcome s1) as [o2 s2]. destruct o2; reflexivity.
Qed.

Theorem never_corrupt_thm : forall fl b, breach true fl b -> b_corrupt b = false.
Proof.
  induction 1 as [fl remote local R | fl b s la Hb IH Hg]; [reflexivity|].
  unfold sync_wait. rewrite IH.
  destruct (b_init b).
  - simpl. reflexivity.
  - rewrite check_behind_sized_not_corrupt.
    destruct (negb (br_ok (check_behind true (b_u b) s))); reflexivity.
Qed.

(** [no_false_ack] for histories that start with a (re)open in any local state:
    an acknowledged SyncAndWait means the positions are equal and everything
    local (above the retention floor) is stored *)
Theorem ack_means_in_sync_thm : forall sized fl b s la, breach sized fl b ->
  maxl (local_after_init sized b s) <= maxl la ->
  let '(b', o) := sync_wait sized b s la in
  so_err o = E_NIL ->
  so_pos o = maxl (u_remote (b_u b')) /\ maxl (u_remote (b_u b')) = maxl la /\ u_local (b_u b') = la /\
  (forall t, In t la -> fl <= t -> In t (u_remote (b_u b'))) /\
  gapless (u_remote (b_u b')) /\ Forall (fun c => gapless (c_after c)) (so_trace o).
Proof.
  intros sized fl b s la R Hg. pose proof (sync_wait_spec sized fl b s la (breach_inv sized fl b R) Hg) as P.
  destruct (sync_wait sized b s la) as [b' o]. destruct P as ((Hu & _) & T & A). intros E.
  destruct (A E) as (_ & _ & A3 & A4 & A5 & A6).
  repeat split; auto.
  - apply (run_gapless fl). apply Hu.
  - eapply Forall_impl; [|exact T]. intros c Hc. apply (run_gapless fl). exact Hc.
Qed.

(** an error of the listing during init is never swallowed *)
Theorem init_listing_error_propagates_thm : forall sized b s la o0,
  b_init b = false -> b_corrupt b = false ->
  s = o0 :: nil \/ (exists tl, s = o0 :: tl) -> o0 <> Ok ->
  so_err (snd (sync_wait sized b s la)) = E_CLIENT /\ b_init (fst (sync_wait sized b s la)) = false.
Proof.
  intros sized b s la o0 EI EC Hs Ho.
  assert (exists tl, s = o0 :: tl) as (tl & ->) by (destruct Hs as [->|X]; eauto).
  unfold sync_wait. rewrite EC, EI. unfold check_behind. simpl next_outcome.
  destruct o0; try congruence; simpl; auto.
Qed.

(** a short read of the baseline file is an error too, and leaves init to be retried *)
Theorem baseline_short_read_is_error_thm : forall b k tl la,
  b_init b = false -> b_corrupt b = false ->
  maxl (u_remote (b_u b)) <> 0 -> maxl (u_local (b_u b)) < maxl (u_remote (b_u b)) ->
  let r := sync_wait true b (Ok :: ShortRead k :: tl) la in
  so_err (snd r) = E_CLIENT /\ b_init (fst r) = false /\ b_corrupt (fst r) = false /\ u_local (b_u (fst r)) = [].
Proof.
  intros b k tl la EI EC H0 Hlt.
  assert (L : N.leb (maxl (u_remote (b_u b))) (maxl (u_local (b_u b))) = false) by (apply N.leb_gt; exact Hlt).
  apply N.eqb_neq in H0.
  assert (CB : check_behind true (b_u b) (Ok :: ShortRead k :: tl)
               = mkBR false (mkU (u_remote (b_u b)) (u_pos (b_u b)) []) false tl
                      ([mkC 0 0 (u_remote (b_u b))] ++ [mkC 2 (maxl (u_remote (b_u b))) (u_remote (b_u b))])).
  { unfold check_behind, next_outcome, client_list. rewrite H0, L. reflexivity. }
  unfold sync_wait. rewrite EC, EI, CB. simpl. repeat split; reflexivity.
Qed.

(** the fault-free SyncAndWait of a state that is not corrupt *)
Lemma catch_up_core : forall sized fl b la, binv fl b ->
  b_corrupt b = false ->
  maxl la <> 0 ->
  (forall t, maxl (u_remote (b_u b)) < t <= maxl la -> In t la) ->
  so_err (snd (sync_wait sized b [] la)) = E_NIL.
Proof.
  intros sized fl b la (Hu & Hb) EC Hn Hl.
  unfold sync_wait. rewrite EC.
  assert (Fin : forall i, br_ok i = true -> br_corrupt i = false -> br_sched i = [] ->
            uinv fl (br_st i) -> u_remote (br_st i) = u_remote (b_u b) ->
            so_err (snd (if negb (br_ok i) then (mkB (br_st i) false false, mkSO E_CLIENT (u_pos (br_st i)) (br_trace i))
                         else if br_corrupt i then (mkB (br_st i) true true, mkSO E_CLIENT (u_pos (br_st i)) (br_trace i))
                         else
                           let st1 := mkU (u_remote (br_st i)) (u_pos (br_st i)) la in
                           let r := sync 0 st1 (br_sched i) in
                           (mkB (s_st r) true false,
                            mkSO (if N.eqb (s_err r) E_NIL then E_NIL else E_CLIENT) (u_pos (s_st r)) (br_trace i ++ s_trace r))))
            = E_NIL).
  { intros i O K S U Rm. rewrite O, K, S. simpl negb. cbv iota zeta.
    set (st1 := mkU (u_remote (br_st i)) (u_pos (br_st i)) la).
    assert (U1 : uinv fl st1) by (destruct U as (A & B); split; [exact A | exact B]).
    destruct (catch_up_inv fl st1 U1) as (E & _); [exact Hn | simpl; rewrite Rm; exact Hl |].
    simpl. rewrite E. reflexivity. }
  destruct (b_init b) eqn:EI.
  - apply (Fin (mkBR true (b_u b) false [] [])); simpl; auto.
  - assert (CB : exists i, check_behind sized (b_u b) [] = i /\ br_ok i = true /\ br_corrupt i = false /\ br_sched i = [] /\
                          uinv fl (br_st i) /\ u_remote (br_st i) = u_remote (b_u b)).
    { rewrite check_behind_nil. cbv zeta.
      destruct (N.eqb (maxl (u_remote (b_u b))) 0); [eexists; split; [reflexivity|]; simpl; auto|].
      destruct (N.leb (maxl (u_remote (b_u b))) (maxl (u_local (b_u b)))); [eexists; split; [reflexivity|]; simpl; auto|].
      eexists; split; [reflexivity|]. simpl.
      destruct Hu as (A & B).
      split; [reflexivity|]. split; [reflexivity|]. split; [reflexivity|].
      split; [split; [exact A | exact B] | reflexivity]. }
    destruct CB as (i & -> & O & K & S & U & Rm). apply Fin; assumption.
Qed.

(** [catch_up] after a (re)open, for EVERY fault schedule of the history so far
    (listing sizes reported): once faults have stopped, one SyncAndWait succeeds,
    provided db.Sync leaves all the files above the replica's position — no
    exception for a corrupt baseline any more: that state is unreachable *)
Theorem catch_up_after_reopen_thm : forall fl b la, breach true fl b ->
  maxl la <> 0 ->
  (forall t, maxl (u_remote (b_u b)) < t <= maxl la -> In t la) ->
  so_err (snd (sync_wait true b [] la)) = E_NIL.
Proof.
  intros fl b la R Hn Hl.
  apply (catch_up_core true fl b la (breach_inv true fl b R) (never_corrupt_thm fl b R) Hn Hl).
Qed.

(** The repaired defect (finding F11, fixed by 086c0cc), kept as a statement
    about a client whose listing reports Size 0 — exactly the pre-fix behaviour
    for every client: after a short read (clean premature EOF) of the baseline
    file the truncated file is published locally and every later SyncAndWait
    fails, faults or not. *)
Theorem catch_up_after_short_baseline_read_refuted :
  exists fl b, breach false fl b /\
    forall la, so_err (snd (sync_wait false b [] la)) <> E_NIL /\ fst (sync_wait false b [] la) = b.
Proof.
  exists 1, (fst (sync_wait false (b_open [1;2;3] []) [Ok; ShortRead 150] [3])).
  split.
  - apply breach_sync; [apply breach_open|].
    + unfold run. simpl. split; [lia|]. split; [lia|]. intros t. simpl. lia.
    + vm_compute. intros X; discriminate X.
  - intros la. vm_compute. split; [intros X; discriminate X | reflexivity].
Qed.

(** satisfiable and non-trivial: meta directory lost over a replica 1..3, the
    listing of init fails once, then the baseline fetch is cut short, then
    everything works and the positions meet *)
Example behind_example :
  map (fun o => (so_err o, so_pos o))
      (snd (sync_waits true (b_open [1;2;3] [])
              [([FailBefore], []); ([Ok; ShortRead 150], []); ([], [3;4]); ([], [3;4;5])]))
  = [(1, 0); (1, 0); (0, 4); (0, 5)].
Proof. vm_compute. reflexivity. Qed.
