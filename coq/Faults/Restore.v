(** Model of [Replica.Restore] (/repo/replica.go, non-follow, LTX path) at the
    level the property C10 speaks about:
      plan -> resumable readers -> ltx.Compactor -> ltx.Decoder -> <out>.tmp -> rename
    * which plan files were read completely and passed the decoder's checks
      (structure + CRC-64 of the stream against the trailer),
    * what is done to the output path and its siblings, in which order.

    External behaviour is abstract (Section variables): the CRC-64 [H], the split
    of an LTX byte string into hashed body and trailer checksum, the structural
    parse, the header's TXID range, and the page merge + database decode
    [image].  Reads go through the model of [ResumableReader] (Resumable.v)
    under an arbitrary fault schedule per file. *)
From Coq Require Import List NArith Arith Bool Lia.
From LS Require Import Faults.Resumable.
Import ListNotations.

(** ltx.HeaderSize *)
Definition ltx_header_size : nat := 100.

Record pinfo := mkP { p_level : N; p_min : N; p_max : N; p_size : nat }.

(** file-system operations Restore performs on the output path and its siblings *)
Inductive fsop :=
| StatOut                      (* os.Stat(opt.OutputPath) *)
| CreateTmp                    (* os.Create(<out>.tmp) *)
| WriteTmp (complete : bool)   (* DecodeDatabaseTo(f): all pages of the image, or a prefix *)
| FsyncTmp                     (* f.Sync() *)
| CloseTmp                     (* f.Close() *)
| RenameTmpOut                 (* os.Rename(<out>.tmp, <out>) *)
| FsyncDir                     (* internal.FsyncDir(dir) *)
| RemoveOut | RemoveShm | RemoveWal     (* after a failed integrity check *)
| RemoveTmp                    (* deferred os.Remove(<out>.tmp) *)
| OpenOutForWrite.             (* never performed; present so that "never" is a statement *)

(** error classes *)
Definition R_EXISTS : N := 1%N.   (* cannot restore, output path already exists *)
Definition R_PLAN : N := 2%N.     (* cannot calc restore plan *)
Definition R_SIZE : N := 3%N.     (* invalid ltx file: size below the header size *)
Definition R_EMPTY : N := 4%N.    (* no matching backup files available *)
Definition R_READ : N := 5%N.     (* a reader failed: missing object, retries exhausted *)
Definition R_CHAIN : N := 6%N.    (* not a snapshot chain: first min <> 1 or non-contiguous TXIDs *)
Definition R_VERIFY : N := 7%N.   (* structure or checksum of an input (decoder Close) *)
Definition R_INTEG : N := 8%N.    (* post-restore integrity check *)

(** what [checkIntegrity] (PRAGMA quick_check / integrity_check on the restored
    file) can come back with *)
Inductive ires :=
| IOk          (* a single row "ok" *)
| IRows        (* the PRAGMA ran and reported corruption as rows: "integrity check failed: ..." *)
| IStmtErr.    (* the statement itself failed: SQLITE_CORRUPT "database disk image is malformed",
                  SQLITE_NOTADB, or the context was cancelled: "integrity check: ..." *)
Definition ires_ok (r : ires) : bool := match r with IOk => true | _ => false end.

Section Restore.
Context {B : Type}.
Variable H : list B -> N.              (* CRC-64/ISO of the hashed stream *)
Variable body : list B -> list B.      (* what the decoder feeds to the hash *)
Variable cks : list B -> N.            (* FileChecksum field of the trailer *)
Variable parse_ok : list B -> bool.    (* header/page frames/index/trailer well-formed *)
Variable hdr_min hdr_max : list B -> N.
Variable image : list (list B) -> list B.   (* merge newest-wins, drop pgno > commit, decode to a database *)

Inductive rresult := ROk (img : list B) | RErr (e : N).

(** [Decoder.Close]: structure and [ChecksumFlag | hash.Sum64() = trailer.FileChecksum] *)
Definition verified (b : list B) : bool := parse_ok b && N.eqb (H (body b)) (cks b).

(** the compactor's header checks + [DecodeDatabaseTo]'s snapshot requirement *)
Fixpoint contiguous (prev : N) (bs : list (list B)) : bool :=
  match bs with
  | [] => true
  | b :: tl => N.eqb (hdr_min b) (prev + 1) && N.leb (hdr_min b) (hdr_max b) && contiguous (hdr_max b) tl
  end.
Definition chain_ok (bs : list (list B)) : bool := contiguous 0 bs.

(** one plan file through its resumable reader (constructed with [rc = nil] and
    [size = info.Size]); [chunk] is the buffer size of the consumer *)
Variable stored : pinfo -> option (list B).      (* None: the object does not exist *)
Variable sched : pinfo -> list outcome.          (* read faults for this file *)
Variable chunk : nat.

Definition fetch (f : pinfo) : option (list B) :=
  match stored f with
  | None => None                                  (* OpenLTXFile: os.ErrNotExist, returned at once *)
  | Some b =>
      rr_read_all b (p_size f) (S (length b) + length (sched f) + 5) (S chunk) (rr_init false) (sched f) []
  end.

Fixpoint fetch_all (fs : list pinfo) : option (list (list B)) :=
  match fs with
  | [] => Some []
  | f :: tl =>
      match fetch f, fetch_all tl with
      | Some b, Some bs => Some (b :: bs)
      | _, _ => None
      end
  end.

Definition restore (out_exists : bool) (plan : option (list pinfo))
           (integ : bool) (integ_res : list B -> ires) (cancelled : bool) : rresult * list fsop :=
  (* if _, err := os.Stat(opt.OutputPath); err == nil { return "output path already exists" } *)
  if out_exists then (RErr R_EXISTS, [StatOut]) else
  (* infos, err := CalcRestorePlan(...) *)
  match plan with
  | None => (RErr R_PLAN, [StatOut])
  | Some fs =>
      (* if info.Size < ltx.HeaderSize { return "invalid ltx file" } *)
      if negb (forallb (fun f => negb (Nat.ltb (p_size f) ltx_header_size)) fs) then (RErr R_SIZE, [StatOut]) else
      (* if len(rdrs) == 0 *)
      match fs with
      | [] => (RErr R_EMPTY, [StatOut])
      | _ =>
          (* defer os.Remove(tmp); f, err := os.Create(tmp); go compact; dec.DecodeDatabaseTo(f) *)
          match fetch_all fs with
          | None => (RErr R_READ, [StatOut; CreateTmp; WriteTmp false; CloseTmp; RemoveTmp])
          | Some bs =>
              if negb (chain_ok bs) then (RErr R_CHAIN, [StatOut; CreateTmp; WriteTmp false; CloseTmp; RemoveTmp])
              (* the page block is complete before the inputs are closed and verified *)
              else if negb (forallb verified bs)
              then (RErr R_VERIFY, [StatOut; CreateTmp; WriteTmp true; CloseTmp; RemoveTmp])
              else
                let img := image bs in
                let publish := [StatOut; CreateTmp; WriteTmp true; FsyncTmp; CloseTmp; RenameTmpOut; FsyncDir] in
                (* if opt.IntegrityCheck != IntegrityCheckNone {
                     if err := checkIntegrity(ctx, opt.OutputPath, mode); err != nil {
                       if ctx.Err() == nil { os.Remove(out); os.Remove(out-shm); os.Remove(out-wal) }
                       return err } }
                   checkIntegrity returns an error both when the PRAGMA reports rows other than
                   "ok" and when the statement itself fails *)
                if integ && negb (ires_ok (integ_res img))
                then (RErr R_INTEG,
                      publish ++ (if cancelled then [] else [RemoveOut; RemoveShm; RemoveWal]) ++ [RemoveTmp])
                else (ROk img, publish ++ [RemoveTmp])
          end
      end
  end.
End Restore.

(** ---- finding F7: the one place where the decoder neither errs nor succeeds ---
    [ltx.Decoder.Close] (ltx v0.5.2 decoder.go) slurps the bytes that follow the
    page-block end marker and slices [remainingBytes[:len(remainingBytes)-ChecksumSize]]
    BEFORE any length check; with fewer than [ChecksumSize] = 8 bytes left the
    slice bound is negative and the Go runtime panics — inside the goroutine
    Restore started for the compactor, so Restore neither returns an error nor
    completes.  [restore] above does not model this (its result type has no
    "panic"); the slice computation is modelled here and the gap is stated as
    [decoder_close_never_panics_refuted] in ResProofs.v. *)
Definition ltx_checksum_size : nat := 8.

(** [None] = runtime panic (slice bounds out of range); [Some n] = [n] bytes are fed to the hash *)
Definition decoder_close_hashed_len (remaining : nat) : option nat :=
  if Nat.ltb remaining ltx_checksum_size then None else Some (remaining - ltx_checksum_size).

(** ---- the tiny file system the operations act on ---------------------------- *)

Inductive tmpstate := TAbsent | TPartial | TComplete (synced : bool).

Record fsst := mkFs {
  f_out : option bool;     (* None absent; Some true: the restored image; Some false: something else (pre-existing) *)
  f_tmp : tmpstate;
  f_side : bool;           (* <out>-wal or <out>-shm present *)
  f_bad : bool             (* an operation broke the discipline *)
}.

Definition fs_step (s : fsst) (o : fsop) : fsst :=
  match o with
  | StatOut => s
  | CreateTmp => mkFs (f_out s) TPartial (f_side s) (f_bad s)
  | WriteTmp c => mkFs (f_out s) (if c then TComplete false else TPartial) (f_side s) (f_bad s)
  | FsyncTmp => mkFs (f_out s) (match f_tmp s with TComplete _ => TComplete true | t => t end) (f_side s) (f_bad s)
  | CloseTmp => s
  | RenameTmpOut =>
      (* publishing anything but a complete, fsynced temp file, or over an existing output, is a breach *)
      let good := match f_tmp s, f_out s with TComplete true, None => true | _, _ => false end in
      mkFs (Some good) TAbsent (f_side s) (f_bad s || negb good)
  | FsyncDir => s
  | RemoveOut => mkFs None (f_tmp s) (f_side s) (f_bad s || match f_out s with Some false => true | _ => false end)
  | RemoveShm => mkFs (f_out s) (f_tmp s) false (f_bad s)
  | RemoveWal => mkFs (f_out s) (f_tmp s) false (f_bad s)
  | RemoveTmp => mkFs (f_out s) TAbsent (f_side s) (f_bad s)
  | OpenOutForWrite => mkFs (f_out s) (f_tmp s) (f_side s) true
  end.

Definition fs_run (s : fsst) (ops : list fsop) : fsst := fold_left fs_step ops s.

Definition fs_init (out_exists : bool) : fsst :=
  mkFs (if out_exists then Some false else None) TAbsent false false.

(** What an observer sees after Restore returned, and the discipline as a
    decidable test on it (the harness applies [obs_ok] to the real outcome).
    class: 0 nil | 1 error | anything else (e.g. 7 panic) is never acceptable *)
Definition obs_ok (pre cancelled : bool) (class : N) (out_exists tmp_exists same unchanged side : bool) : bool :=
  if pre then N.eqb class 1 && out_exists && unchanged && negb tmp_exists
  else if N.eqb class 0 then out_exists && negb tmp_exists && same
  else if N.eqb class 1 then
    (* an error leaves nothing behind; only when the caller's context was cancelled may the
       (verified, completely published) image stay — the check was interrupted, it did not fail *)
    if cancelled then negb tmp_exists && (negb out_exists || same)
    else negb out_exists && negb tmp_exists && negb side
  else false.
