(** Model of the upload path under storage faults:
    [Replica.syncOnce], [Replica.sync], [Replica.calcPos]/[MaxLTXFileInfo],
    [Replica.uploadLTXFile] (/repo/replica.go) and the bounded retry of
    [DB.syncReplicaWithRetry] (/repo/db.go).

    Every [ReplicaClient] call takes its outcome from an arbitrary schedule:
      [Ok]              the call does what it should
      [FailBefore]      an error is returned, nothing happened
      [FailAfter]       the call took effect (the object is stored) but an error is returned
      [ShortRead k]     WriteLTXFile: the client consumed only [k] bytes of the source and
                        gave up with an error (nothing stored: objects are written atomically);
                        LTXFiles: the iterator yields [k] entries, then reports an error
      [ErrMidStream k]  WriteLTXFile: the source stream fails after [k] bytes (the real
                        file client then removes its temp file); LTXFiles: as ShortRead
    The empty schedule is the fault-free suffix: every call is [Ok].

    The remote level-0 directory is a set of TXIDs (file [t..t]), kept as a
    sorted list so that the list is the canonical listing.  Contents are not
    modelled: an L0 file is immutable once written, the harness compares bytes. *)
From Coq Require Import List NArith Bool Lia.
Import ListNotations.
Local Open Scope N_scope.

Inductive coutcome :=
| Ok
| FailBefore
| FailAfter
| ShortRead (k : N)
| ErrMidStream (k : N).

Definition maxl (l : list N) : N := fold_right N.max 0 l.
Definition mem (t : N) (l : list N) : bool := existsb (N.eqb t) l.

(** sorted, idempotent insert *)
Fixpoint ins (t : N) (l : list N) : list N :=
  match l with
  | [] => [t]
  | x :: tl => if N.ltb t x then t :: l else if N.eqb t x then l else x :: ins t tl
  end.

Definition next_outcome (s : list coutcome) : coutcome * list coutcome :=
  match s with
  | [] => (Ok, [])
  | o :: tl => (o, tl)
  end.

(** [ReplicaClient.LTXFiles(ctx, 0, 0, false)] consumed by [MaxLTXFileInfo]:
    [Some listing] or an error (from the call itself, or from [itr.Close()]) *)
Definition client_list (o : coutcome) (remote : list N) : option (list N) :=
  match o with
  | Ok => Some remote
  | _ => None
  end.

(** [ReplicaClient.WriteLTXFile(ctx, 0, t, t, f)]: new remote set, success? *)
Definition client_write (o : coutcome) (t : N) (remote : list N) : list N * bool :=
  match o with
  | Ok => (ins t remote, true)
  | FailBefore => (remote, false)
  | FailAfter => (ins t remote, false)
  | ShortRead _ => (remote, false)
  | ErrMidStream _ => (remote, false)
  end.

Record ust := mkU {
  u_remote : list N;   (* level-0 TXIDs stored on the replica *)
  u_pos : N;           (* Replica.pos.TXID; 0 = unknown *)
  u_local : list N     (* level-0 TXIDs present in the local meta directory *)
}.

(** one client call as the harness sees it: kind (0 LTXFiles, 1 WriteLTXFile),
    TXID argument, and the level-0 listing right after the call returned *)
Record ccall := mkC { c_kind : N; c_txid : N; c_after : list N }.

(** error classes of sync *)
Definition E_NIL : N := 0.
Definition E_CLIENT : N := 1.     (* "calc pos: ..." / "write ltx file: ..." *)
Definition E_WAIT : N := 2.       (* errReplicaWaitForData *)
Definition E_LOCAL : N := 3.      (* LTXError from os.Open of the local file *)
Definition E_FUEL : N := 98.      (* model artefact, unreachable ([sync_once_no_fuel]) *)

Record sres := mkS {
  s_err : N;
  s_limited : bool;
  s_st : ust;
  s_sched : list coutcome;
  s_trace : list ccall
}.

Definition set_pos (st : ust) (p : N) : ust := mkU (u_remote st) p (u_local st).
Definition set_remote (st : ust) (r : list N) : ust := mkU r (u_pos st) (u_local st).

(** the deferred "clear last position if an error occurs during sync" *)
Definition fail (e : N) (st : ust) (s : list coutcome) (tr : list ccall) : sres :=
  mkS e false (set_pos st 0) s tr.

(** for txID, syncedFileN := r.Pos().TXID+1, 0; txID <= dpos.TXID; txID = r.Pos().TXID + 1 *)
Fixpoint upload_loop (fuel : nat) (maxfiles dpos syncedN : N) (st : ust)
         (s : list coutcome) (tr : list ccall) : sres :=
  let txid := u_pos st + 1 in
  if negb (N.leb txid dpos) then mkS E_NIL false st s tr            (* loop exit; return result, nil *)
  else
    match fuel with
    | O => fail E_FUEL st s tr
    | S fuel' =>
        if N.ltb 0 maxfiles && N.leb maxfiles syncedN                (* maxSyncLTXFiles > 0 && syncedFileN >= max *)
        then mkS E_NIL true st s tr                                  (* result.limited = true; return result, nil *)
        else if negb (mem txid (u_local st))                         (* uploadLTXFile: os.Open(filename) fails *)
        then fail E_LOCAL st s tr
        else
          let '(o, s') := next_outcome s in
          let '(remote', ok) := client_write o txid (u_remote st) in  (* r.Client.WriteLTXFile *)
          let st' := set_remote st remote' in
          let tr' := tr ++ [mkC 1 txid remote'] in
          if ok
          then upload_loop fuel' maxfiles dpos (syncedN + 1) (set_pos st' txid) s' tr'   (* r.SetPos(txID) *)
          else fail E_CLIENT st' s' tr'                               (* return result, err *)
    end.

(** [func (r *Replica) syncOnce(ctx, maxSyncLTXFiles)] *)
Definition sync_once (maxfiles : N) (st : ust) (s : list coutcome) : sres :=
  (* if r.Pos().IsZero() { pos, err := r.calcPos(ctx) ... r.SetPos(pos) } *)
  let step1 :=
    if N.eqb (u_pos st) 0 then
      let '(o, s') := next_outcome s in
      let tr := [mkC 0 0 (u_remote st)] in
      match client_list o (u_remote st) with
      | None => inr (fail E_CLIENT st s' tr)
      | Some listing => inl (set_pos st (maxl listing), s', tr)
      end
    else inl (st, s, []) in
  match step1 with
  | inr r => r
  | inl (st1, s1, tr1) =>
      (* dpos, err := r.db.Pos(); if dpos.IsZero() { return errReplicaWaitForData } *)
      let dpos := maxl (u_local st1) in
      if N.eqb dpos 0 then fail E_WAIT st1 s1 tr1
      else upload_loop (S (N.to_nat (dpos - u_pos st1))) maxfiles dpos 0 st1 s1 tr1
  end.

(** [func (r *Replica) sync(ctx, maxSyncLTXFiles)]: repeat while limited *)
Fixpoint sync_loop (fuel : nat) (maxfiles : N) (st : ust) (s : list coutcome) (tr : list ccall) : sres :=
  match fuel with
  | O => fail E_FUEL st s tr
  | S fuel' =>
      let r := sync_once maxfiles st s in
      let tr' := tr ++ s_trace r in
      if negb (N.eqb (s_err r) E_NIL) then mkS (s_err r) false (s_st r) (s_sched r) tr'
      else if negb (s_limited r) then mkS E_NIL false (s_st r) (s_sched r) tr'
      else sync_loop fuel' maxfiles (s_st r) (s_sched r) tr'
  end.

Definition sync (maxfiles : N) (st : ust) (s : list coutcome) : sres :=
  sync_loop (S (S (N.to_nat (maxl (u_local st))))) maxfiles st s [].

(** [DB.syncReplicaWithRetry] as a bounded retry: up to [attempts] calls of
    [Replica.Sync], stopping at the first nil; the last error otherwise *)
Fixpoint sync_retry (attempts : nat) (st : ust) (s : list coutcome) (tr : list ccall) (last : N) : sres :=
  match attempts with
  | O => mkS last false st s tr
  | S a =>
      let r := sync 0 st s in
      let tr' := tr ++ s_trace r in
      if N.eqb (s_err r) E_NIL then mkS E_NIL false (s_st r) (s_sched r) tr'
      else sync_retry a (s_st r) (s_sched r) tr' (s_err r)
  end.

(** Histories.  Besides syncs, the environment may change the local L0 set
    (the database writes new files, local retention removes old ones) and
    remote retention may remove a prefix of the remote L0 files, never the
    newest (C07). *)
Inductive hstep :=
| HLocal (l : list N)                        (* the local L0 directory now holds exactly these TXIDs *)
| HRetain (k : N)                            (* remote files with TXID < k are deleted (k clamped to the max) *)
| HSync (maxfiles : N) (s : list coutcome)   (* Replica.sync(ctx, maxfiles) under this fault schedule *)
| HRetry (attempts : nat) (s : list coutcome)
| HSnap (t : N).                             (* a snapshot 1..t is uploaded at level 9 (DB.Snapshot), possibly ahead of
                                                the replica's level 0: level 9 is no part of what Replica.sync reads,
                                                neither the position nor the level-0 set changes *)

Definition retain (k : N) (remote : list N) : list N :=
  let k' := N.min k (maxl remote) in
  filter (fun t => N.leb k' t) remote.

Record hobs := mkH { h_err : N; h_pos : N; h_trace : list ccall }.

Definition hstep_run (st : ust) (h : hstep) : ust * option hobs :=
  match h with
  | HLocal l => (mkU (u_remote st) (u_pos st) l, None)
  | HRetain k => (set_remote st (retain k (u_remote st)), None)
  | HSync m s => let r := sync m st s in (s_st r, Some (mkH (s_err r) (u_pos (s_st r)) (s_trace r)))
  | HRetry a s => let r := sync_retry a st s [] E_CLIENT in
                  (s_st r, Some (mkH (s_err r) (u_pos (s_st r)) (s_trace r)))
  | HSnap _ => (st, None)
  end.

Fixpoint hist_run (st : ust) (hs : list hstep) : ust * list hobs :=
  match hs with
  | [] => (st, [])
  | h :: tl =>
      let '(st1, o) := hstep_run st h in
      let '(stf, os) := hist_run st1 tl in
      (stf, match o with Some x => x :: os | None => os end)
  end.

Definition u_init : ust := mkU [] 0 [].

(** ---- the property as decidable tests on listings (used by the oracle and
    proved of the model in Proofs.v) ---- *)

(** the TXIDs form one contiguous run up to their max *)
Fixpoint contig_sorted (l : list N) : bool :=
  match l with
  | [] => true
  | a :: tl =>
      match tl with
      | [] => true
      | b :: _ => N.eqb b (a + 1) && contig_sorted tl
      end
  end.

(** every local TXID in [floor, pos] is stored remotely *)
Definition acked_stored (floor pos : N) (local remote : list N) : bool :=
  forallb (fun t => negb (N.leb floor t && N.leb t pos) || mem t remote) local.
