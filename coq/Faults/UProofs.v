(** Proofs about the upload path under faults (Upload.v): for EVERY fault
    schedule and every history — no false acknowledgement, the remote level-0
    TXIDs always form one contiguous run up to their max (after every client
    call), a cached position is truthful, and after the last fault one sync
    makes the replica equal to the local files. *)
From Coq Require Import List NArith Bool Lia.
From LS Require Import Faults.Upload.
Import ListNotations.
Local Open Scope N_scope.

(** ---- lists of TXIDs ---- *)
Lemma In_ins x t l : In x (ins t l) <-> x = t \/ In x l.
Proof.
  induction l as [|a l IH]; simpl.
  - intuition.
  - destruct (N.ltb t a) eqn:E1; simpl; [intuition|].
    destruct (N.eqb t a) eqn:E2; simpl.
    + apply N.eqb_eq in E2. subst. intuition.
    + rewrite IH. intuition.
Qed.

Lemma maxl_ins t l : maxl (ins t l) = N.max t (maxl l).
Proof.
  induction l as [|a l IH]; simpl.
  - reflexivity.
  - destruct (N.ltb t a) eqn:E1; simpl; [reflexivity|].
    destruct (N.eqb t a) eqn:E2; simpl.
    + apply N.eqb_eq in E2. subst. lia.
    + unfold maxl in *. rewrite IH. lia.
Qed.

Lemma maxl_ge x l : In x l -> x <= maxl l.
Proof.
  induction l as [|a l IH]; simpl; [tauto|]. intros [->|H]; [lia|]. specialize (IH H). unfold maxl in *. lia.
Qed.

Lemma maxl_in l : l <> [] -> In (maxl l) l.
Proof.
  induction l as [|a l IH]; [congruence|]. intros _. simpl.
  destruct l as [|b l'].
  - left. simpl. lia.
  - assert (H : In (maxl (b :: l')) (b :: l')) by (apply IH; congruence).
    change (fold_right N.max 0 (b :: l')) with (maxl (b :: l')).
    destruct (N.max_spec a (maxl (b :: l'))) as [[_ ->]|[_ ->]]; [right; exact H | left; reflexivity].
Qed.

Lemma mem_In t l : mem t l = true <-> In t l.
Proof.
  unfold mem. rewrite existsb_exists. split.
  - intros (x & H & E). apply N.eqb_eq in E. subst. exact H.
  - intros H. exists t. split; [exact H | apply N.eqb_refl].
Qed.

(** the replica's level 0 is the interval [floor, max] *)
Definition run (floor : N) (l : list N) : Prop :=
  1 <= floor /\ floor <= maxl l + 1 /\ forall t, In t l <-> floor <= t <= maxl l.

(** "one contiguous run up to the max", without mentioning the floor *)
Definition gapless (l : list N) : Prop :=
  forall t u, In t l -> t <= u <= maxl l -> In u l.

Lemma run_gapless fl l : run fl l -> gapless l.
Proof. intros (_ & _ & H) t u Ht Hu. apply H. apply H in Ht. lia. Qed.

Lemma run_ins fl l : run fl l -> run fl (ins (maxl l + 1) l).
Proof.
  intros (H1 & H2 & H3). unfold run. rewrite maxl_ins.
  split; [exact H1|]. split; [lia|]. intros t. rewrite In_ins, H3. lia.
Qed.

Lemma run_ins_old fl l t : run fl l -> In t l -> run fl (ins t l).
Proof.
  intros (H1 & H2 & H3) Ht. pose proof (maxl_ge _ _ Ht). unfold run. rewrite maxl_ins.
  replace (N.max t (maxl l)) with (maxl l) by lia.
  split; [exact H1|]. split; [exact H2|]. intros x. rewrite In_ins, H3. apply H3 in Ht. lia.
Qed.

Lemma run_retain fl l k : run fl l -> run (N.max fl (N.min k (maxl l))) (retain k l).
Proof.
  intros (H1 & H2 & H3). unfold retain. set (k' := N.min k (maxl l)).
  assert (M : maxl (filter (fun t => k' <=? t) l) = maxl l).
  { assert (D : l = [] \/ l <> []) by (destruct l; [left; reflexivity | right; congruence]).
    destruct D as [->|NE]; [reflexivity|].
    pose proof (maxl_in l NE) as Hm.
    apply N.le_antisymm.
    + destruct (filter (fun t => k' <=? t) l) eqn:EF; [apply N.le_0_l|].
      assert (X : In (maxl (n :: l0)) (filter (fun t => k' <=? t) l)) by (rewrite EF; apply maxl_in; congruence).
      apply filter_In in X. apply maxl_ge. tauto.
    + apply maxl_ge. apply filter_In. split; [exact Hm|]. apply N.leb_le. unfold k'. apply N.le_min_r. }
  unfold run. rewrite M. split; [lia|]. split; [unfold k'; lia|].
  intros t. rewrite filter_In, H3, N.leb_le. unfold k'. lia.
Qed.

(** ---- the state invariant ---- *)
Definition uinv (fl : N) (st : ust) : Prop :=
  run fl (u_remote st) /\ (u_pos st <> 0 -> u_pos st = maxl (u_remote st)).

Definition listing_ok (fl : N) (c : ccall) : Prop := run fl (c_after c).

Lemma next_outcome_nil : next_outcome [] = (Ok, []).
Proof. reflexivity. Qed.

Lemma uinv_fail fl st : run fl (u_remote st) -> uinv fl (set_pos st 0).
Proof. intros H. split; [exact H|]. simpl. congruence. Qed.

Lemma forall_app_one {X} (P : X -> Prop) l x : Forall P l -> P x -> Forall P (l ++ [x]).
Proof. intros. apply Forall_app. split; auto. Qed.

(** the upload loop: started with a truthful position it keeps the invariant,
    every listing it leaves behind is a run, and a nil return that is not
    "limited" means the position has reached the local max *)
Lemma upload_loop_spec fl fuel : forall maxf dpos n st s tr,
  run fl (u_remote st) -> u_pos st = maxl (u_remote st) ->
  Forall (listing_ok fl) tr ->
  let r := upload_loop fuel maxf dpos n st s tr in
  uinv fl (s_st r) /\ Forall (listing_ok fl) (s_trace r) /\ u_local (s_st r) = u_local st /\
  (s_err r = E_NIL -> u_pos (s_st r) = maxl (u_remote (s_st r)) /\ u_pos st <= u_pos (s_st r) /\
                      (s_limited r = false -> dpos <= u_pos (s_st r))) /\
  ((N.to_nat (dpos - u_pos st) < fuel)%nat -> s_err r <> E_FUEL) /\
  (s_limited r = true -> s_err r = E_NIL /\ 0 < maxf /\ maxf <= n + (u_pos (s_st r) - u_pos st) /\ u_pos (s_st r) < dpos).
Proof.
  induction fuel as [|fuel IH]; intros maxf dpos n st s tr Hrun Hpos Htr.
  - simpl. destruct (negb (u_pos st + 1 <=? dpos)) eqn:EC; simpl.
    + apply negb_true_iff, N.leb_gt in EC.
      repeat (split; try (intros; discriminate); auto); try congruence; try lia.
    + apply negb_false_iff, N.leb_le in EC.
      split; [apply uinv_fail; exact Hrun|]. split; [exact Htr|]. split; [reflexivity|].
      split; [unfold E_FUEL, E_NIL; intros; discriminate|]. split; [lia|]. intros; discriminate.
  - cbn [upload_loop]. cbv zeta.
    destruct (negb (u_pos st + 1 <=? dpos)) eqn:EC.
    + simpl. apply negb_true_iff, N.leb_gt in EC.
      repeat (split; try (intros; discriminate); auto); try congruence; try lia.
    + apply negb_false_iff, N.leb_le in EC.
      destruct ((0 <? maxf) && (maxf <=? n)) eqn:EL.
      * simpl. apply andb_true_iff in EL. destruct EL as (L1 & L2). apply N.ltb_lt in L1. apply N.leb_le in L2.
        split; [split; [exact Hrun | intros _; exact Hpos]|]. split; [exact Htr|]. split; [reflexivity|].
        split; [intros _; split; [exact Hpos|split; [lia|intros; discriminate]]|].
        split; [intros _; unfold E_NIL, E_FUEL; discriminate|].
        intros _. split; [reflexivity|]. split; [exact L1|]. split; lia.
      * destruct (negb (mem (u_pos st + 1) (u_local st))) eqn:EM.
        { simpl. split; [apply uinv_fail; exact Hrun|]. split; [exact Htr|]. split; [reflexivity|].
          split; [unfold E_LOCAL, E_NIL; intros; discriminate|].
          split; [intros _; unfold E_LOCAL, E_FUEL; discriminate|]. intros; discriminate. }
        destruct (next_outcome s) as [o s'] eqn:EN.
        assert (RI : run fl (ins (u_pos st + 1) (u_remote st))) by (rewrite Hpos; apply run_ins; exact Hrun).
        assert (FailCase : forall remote', run fl remote' ->
                  let r := fail E_CLIENT (set_remote st remote') s' (tr ++ [mkC 1 (u_pos st + 1) remote']) in
                  uinv fl (s_st r) /\ Forall (listing_ok fl) (s_trace r) /\ u_local (s_st r) = u_local st /\
                  (s_err r = E_NIL -> u_pos (s_st r) = maxl (u_remote (s_st r)) /\ u_pos st <= u_pos (s_st r) /\
                        (s_limited r = false -> dpos <= u_pos (s_st r))) /\
                  ((N.to_nat (dpos - u_pos st) < S fuel)%nat -> s_err r <> E_FUEL) /\
                  (s_limited r = true -> s_err r = E_NIL /\ 0 < maxf /\ maxf <= n + (u_pos (s_st r) - u_pos st) /\ u_pos (s_st r) < dpos)).
        { intros remote' R. simpl.
          split; [split; [exact R | simpl; congruence]|].
          split; [apply forall_app_one; [exact Htr | exact R]|]. split; [reflexivity|].
          split; [unfold E_CLIENT, E_NIL; intros; discriminate|].
          split; [intros _; unfold E_CLIENT, E_FUEL; discriminate|]. intros; discriminate. }
        destruct o; simpl client_write; cbv iota beta.
        -- (* Ok *)
           set (st2 := set_pos (set_remote st (ins (u_pos st + 1) (u_remote st))) (u_pos st + 1)).
           assert (P2 : u_pos st2 = maxl (u_remote st2)).
           { unfold st2. simpl. rewrite maxl_ins, <- Hpos. lia. }
           assert (T2 : Forall (listing_ok fl) (tr ++ [mkC 1 (u_pos st + 1) (ins (u_pos st + 1) (u_remote st))])).
           { apply forall_app_one; [exact Htr | exact RI]. }
           destruct (IH maxf dpos (n + 1) st2 s' _ RI P2 T2) as (A & B & C & D & F & G).
           assert (Q2 : u_pos st2 = u_pos st + 1) by reflexivity.
           split; [exact A|]. split; [exact B|]. split; [exact C|].
           split.
           { intros E. destruct (D E) as (D1 & D2 & D3). split; [exact D1|]. split; [|exact D3]. lia. }
           split.
           { intros Hf. apply F. rewrite Q2. lia. }
           intros Hl. destruct (G Hl) as (G1 & G2 & G3 & G4). split; [exact G1|]. split; [exact G2|].
           destruct (D G1) as (_ & D2 & _). split; [lia | exact G4].
        -- apply FailCase. exact Hrun.
        -- apply FailCase. exact RI.
        -- apply FailCase. exact Hrun.
        -- apply FailCase. exact Hrun.
Qed.

Lemma sync_once_spec fl maxf st s :
  uinv fl st ->
  let r := sync_once maxf st s in
  uinv fl (s_st r) /\ Forall (listing_ok fl) (s_trace r) /\ u_local (s_st r) = u_local st /\
  (s_err r = E_NIL -> u_pos (s_st r) = maxl (u_remote (s_st r)) /\ maxl (u_remote st) <= u_pos (s_st r) /\
                      (s_limited r = false -> maxl (u_local st) <= u_pos (s_st r))) /\
  s_err r <> E_FUEL /\
  (s_limited r = true -> s_err r = E_NIL /\ maxl (u_remote st) < u_pos (s_st r) /\ u_pos (s_st r) < maxl (u_local st)).
Proof.
  intros (Hrun & Hpos). unfold sync_once.
  assert (Main : forall st1 s1 tr1, u_remote st1 = u_remote st -> u_local st1 = u_local st ->
            u_pos st1 = maxl (u_remote st) -> Forall (listing_ok fl) tr1 ->
            let r := (let dpos := maxl (u_local st1) in
                      if N.eqb dpos 0 then fail E_WAIT st1 s1 tr1
                      else upload_loop (S (N.to_nat (dpos - u_pos st1))) maxf dpos 0 st1 s1 tr1) in
            uinv fl (s_st r) /\ Forall (listing_ok fl) (s_trace r) /\ u_local (s_st r) = u_local st /\
            (s_err r = E_NIL -> u_pos (s_st r) = maxl (u_remote (s_st r)) /\ maxl (u_remote st) <= u_pos (s_st r) /\
                      (s_limited r = false -> maxl (u_local st) <= u_pos (s_st r))) /\
            s_err r <> E_FUEL /\
            (s_limited r = true -> s_err r = E_NIL /\ maxl (u_remote st) < u_pos (s_st r) /\ u_pos (s_st r) < maxl (u_local st))).
  { intros st1 s1 tr1 E1 E2 E3 Ht. cbv zeta.
    destruct (N.eqb (maxl (u_local st1)) 0) eqn:ED.
    - simpl. split; [apply uinv_fail; rewrite E1; exact Hrun|]. split; [exact Ht|]. split; [exact E2|].
      split; [unfold E_WAIT, E_NIL; intros; discriminate|].
      split; [unfold E_WAIT, E_FUEL; discriminate|]. intros; discriminate.
    - assert (R1 : run fl (u_remote st1)) by (rewrite E1; exact Hrun).
      assert (P1 : u_pos st1 = maxl (u_remote st1)) by (rewrite E1; exact E3).
      destruct (upload_loop_spec fl (S (N.to_nat (maxl (u_local st1) - u_pos st1))) maxf (maxl (u_local st1)) 0 st1 s1 tr1 R1 P1 Ht)
        as (A & B & C & D & F & G).
      split; [exact A|]. split; [exact B|]. split; [congruence|].
      split.
      { intros E. destruct (D E) as (D1 & D2 & D3). split; [exact D1|]. split; [lia|]. rewrite <- E2. exact D3. }
      split; [apply F; lia|].
      intros Hl. destruct (G Hl) as (G1 & G2 & G3 & G4). split; [exact G1|]. rewrite <- E2. split; lia. }
  destruct (N.eqb (u_pos st) 0) eqn:EP.
  - destruct (next_outcome s) as [o s'].
    assert (L0 : Forall (listing_ok fl) [mkC 0 0 (u_remote st)]) by (constructor; [exact Hrun | constructor]).
    destruct o; simpl client_list; cbv iota beta;
      try (simpl; split; [apply uinv_fail; exact Hrun|]; split; [exact L0|]; split; [reflexivity|];
           split; [unfold E_CLIENT, E_NIL; intros; discriminate|];
           split; [unfold E_CLIENT, E_FUEL; discriminate|]; intros; discriminate).
    apply Main; auto.
  - apply N.eqb_neq in EP. apply Main; auto.
Qed.

Lemma sync_loop_spec fl maxf fuel : forall st s tr,
  uinv fl st -> Forall (listing_ok fl) tr ->
  let r := sync_loop fuel maxf st s tr in
  uinv fl (s_st r) /\ Forall (listing_ok fl) (s_trace r) /\ u_local (s_st r) = u_local st /\
  (s_err r = E_NIL -> u_pos (s_st r) = maxl (u_remote (s_st r)) /\ maxl (u_local st) <= u_pos (s_st r)) /\
  ((N.to_nat (maxl (u_local st) - maxl (u_remote st)) < fuel)%nat -> s_err r <> E_FUEL).
Proof.
  induction fuel as [|fuel IH]; intros st s tr Hinv Htr.
  - simpl. split; [apply uinv_fail; apply Hinv|]. split; [exact Htr|]. split; [reflexivity|].
    split; [unfold E_FUEL, E_NIL; intros; discriminate|]. lia.
  - cbn [sync_loop]. cbv zeta.
    destruct (sync_once_spec fl maxf st s Hinv) as (A & B & C & D & F & G).
    assert (T' : Forall (listing_ok fl) (tr ++ s_trace (sync_once maxf st s))) by (apply Forall_app; split; assumption).
    destruct (negb (s_err (sync_once maxf st s) =? E_NIL)) eqn:EE.
    + simpl. apply negb_true_iff, N.eqb_neq in EE.
      split; [exact A|]. split; [exact T'|]. split; [exact C|]. split; [intros X; congruence|]. intros _. exact F.
    + apply negb_false_iff, N.eqb_eq in EE. destruct (D EE) as (D1 & D2 & D3).
      destruct (negb (s_limited (sync_once maxf st s))) eqn:EL.
      * simpl. apply negb_true_iff in EL.
        split; [exact A|]. split; [exact T'|]. split; [exact C|].
        split; [intros _; split; [exact D1 | exact (D3 EL)]|]. intros _. unfold E_NIL, E_FUEL. discriminate.
      * apply negb_false_iff in EL. destruct (G EL) as (_ & G2 & G3).
        destruct (IH (s_st (sync_once maxf st s)) (s_sched (sync_once maxf st s)) _ A T') as (A' & B' & C' & D' & F').
        split; [exact A'|]. split; [exact B'|]. split; [congruence|].
        split; [intros X; rewrite <- C; exact (D' X)|].
        intros Hf. apply F'. rewrite C, <- D1. lia.
Qed.

Lemma sync_spec fl maxf st s :
  uinv fl st ->
  let r := sync maxf st s in
  uinv fl (s_st r) /\ Forall (listing_ok fl) (s_trace r) /\ u_local (s_st r) = u_local st /\
  (s_err r = E_NIL -> u_pos (s_st r) = maxl (u_remote (s_st r)) /\ maxl (u_local st) <= u_pos (s_st r)) /\
  s_err r <> E_FUEL.
Proof.
  intros Hinv. unfold sync.
  destruct (sync_loop_spec fl maxf (S (S (N.to_nat (maxl (u_local st))))) st s [] Hinv (Forall_nil _)) as (A & B & C & D & F).
  split; [exact A|]. split; [exact B|]. split; [exact C|]. split; [exact D|]. apply F. lia.
Qed.

Lemma sync_retry_spec fl attempts : forall st s tr last,
  uinv fl st -> Forall (listing_ok fl) tr ->
  let r := sync_retry attempts st s tr last in
  uinv fl (s_st r) /\ Forall (listing_ok fl) (s_trace r) /\ u_local (s_st r) = u_local st /\
  (s_err r = E_NIL -> last <> E_NIL -> u_pos (s_st r) = maxl (u_remote (s_st r)) /\ maxl (u_local st) <= u_pos (s_st r)).
Proof.
  induction attempts as [|a IH]; intros st s tr last Hinv Htr.
  - simpl. split; [exact Hinv|]. split; [exact Htr|]. split; [reflexivity|]. intros; congruence.
  - cbn [sync_retry]. cbv zeta.
    destruct (sync_spec fl 0 st s Hinv) as (A & B & C & D & F).
    assert (T' : Forall (listing_ok fl) (tr ++ s_trace (sync 0 st s))) by (apply Forall_app; split; assumption).
    destruct (N.eqb (s_err (sync 0 st s)) E_NIL) eqn:EE.
    + simpl. apply N.eqb_eq in EE. split; [exact A|]. split; [exact T'|]. split; [exact C|]. intros _ _. exact (D EE).
    + apply N.eqb_neq in EE.
      destruct (IH (s_st (sync 0 st s)) (s_sched (sync 0 st s)) _ (s_err (sync 0 st s)) A T') as (A' & B' & C' & D').
      split; [exact A'|]. split; [exact B'|]. split; [congruence|].
      intros X _. rewrite <- C. exact (D' X EE).
Qed.

(** ---- histories ---------------------------------------------------------------- *)

Lemma maxl_retain k l : maxl (retain k l) = maxl l.
Proof.
  unfold retain. set (k' := N.min k (maxl l)).
  assert (D : l = [] \/ l <> []) by (destruct l; [left; reflexivity | right; congruence]).
  destruct D as [->|NE]; [reflexivity|].
  pose proof (maxl_in l NE) as Hm.
  apply N.le_antisymm.
  - destruct (filter (fun t => k' <=? t) l) eqn:EF; [apply N.le_0_l|].
    assert (X : In (maxl (n :: l0)) (filter (fun t => k' <=? t) l)) by (rewrite EF; apply maxl_in; congruence).
    apply filter_In in X. apply maxl_ge. tauto.
  - apply maxl_ge. apply filter_In. split; [exact Hm|]. apply N.leb_le. unfold k'. apply N.le_min_r.
Qed.

(** the retention floor is ghost state: the largest bound remote retention has used so far *)
Definition floor_after (fl : N) (st : ust) (h : hstep) : N :=
  match h with
  | HRetain k => N.max fl (N.min k (maxl (u_remote st)))
  | _ => fl
  end.

(** states reachable from the empty replica by any history, with any fault schedules *)
Inductive reach : N -> ust -> Prop :=
| reach_init : reach 1 u_init
| reach_step : forall fl st h, reach fl st -> reach (floor_after fl st h) (fst (hstep_run st h)).

Lemma reach_inv fl st : reach fl st -> uinv fl st.
Proof.
  induction 1 as [|fl st h R IH].
  - split; simpl; [|congruence]. unfold run. simpl. split; [lia|]. split; [lia|]. intros t. split; [tauto|lia].
  - destruct h as [l|k|m s|a s|t]; simpl; [| | | |exact IH].
    + exact IH.
    + destruct IH as (I1 & I2). split; simpl.
      * apply run_retain. exact I1.
      * rewrite maxl_retain. exact I2.
    + apply (sync_spec fl m st s IH).
    + apply (sync_retry_spec fl a st s [] E_CLIENT IH (Forall_nil _)).
Qed.

(** ---- the theorems --------------------------------------------------------------- *)

(** [pos_truthful]: in every reachable state a cached (non-zero) position is the remote max *)
Theorem pos_truthful_thm : forall fl st, reach fl st -> u_pos st <> 0 -> u_pos st = maxl (u_remote st).
Proof. intros fl st R. apply (reach_inv fl st R). Qed.

(** [l0_gapless]: in every reachable state, and after every single client call
    of any sync or bounded retry under any fault schedule, the remote level-0
    TXIDs form one contiguous run up to their max *)
Theorem l0_gapless_thm : forall fl st, reach fl st ->
  gapless (u_remote st) /\
  (forall maxf s, Forall (fun c => gapless (c_after c)) (s_trace (sync maxf st s))) /\
  (forall attempts s, Forall (fun c => gapless (c_after c)) (s_trace (sync_retry attempts st s [] E_CLIENT))).
Proof.
  intros fl st R. pose proof (reach_inv fl st R) as I. split; [|split].
  - apply (run_gapless fl). apply I.
  - intros maxf s. destruct (sync_spec fl maxf st s I) as (_ & B & _).
    eapply Forall_impl; [|exact B]. intros c Hc. apply (run_gapless fl). exact Hc.
  - intros a s. destruct (sync_retry_spec fl a st s [] E_CLIENT I (Forall_nil _)) as (_ & B & _).
    eapply Forall_impl; [|exact B]. intros c Hc. apply (run_gapless fl). exact Hc.
Qed.

(** [no_false_ack]: whenever sync (any batch limit, any fault schedule) returns
    nil, the position has reached the local max and every local level-0 TXID at
    or below the position (and not below the retention floor) is stored remotely;
    the same for the bounded retry *)
Theorem no_false_ack_thm : forall fl st, reach fl st ->
  (forall maxf s, let r := sync maxf st s in
     s_err r = E_NIL ->
     maxl (u_local st) <= u_pos (s_st r) /\
     forall t, In t (u_local st) -> fl <= t -> t <= u_pos (s_st r) -> In t (u_remote (s_st r))) /\
  (forall attempts s, let r := sync_retry attempts st s [] E_CLIENT in
     s_err r = E_NIL ->
     maxl (u_local st) <= u_pos (s_st r) /\
     forall t, In t (u_local st) -> fl <= t -> t <= u_pos (s_st r) -> In t (u_remote (s_st r))).
Proof.
  intros fl st R. pose proof (reach_inv fl st R) as I. split.
  - intros maxf s r E. subst r. destruct (sync_spec fl maxf st s I) as ((A1 & A2) & _ & _ & D & _).
    destruct (D E) as (D1 & D2). split; [exact D2|]. intros t _ H1 H2.
    destruct A1 as (_ & _ & X). apply X. rewrite <- D1. lia.
  - intros a s r E. subst r. destruct (sync_retry_spec fl a st s [] E_CLIENT I (Forall_nil _)) as ((A1 & A2) & _ & _ & D).
    assert (NE : E_CLIENT <> E_NIL) by (unfold E_CLIENT, E_NIL; discriminate).
    destruct (D E NE) as (D1 & D2). split; [exact D2|]. intros t _ H1 H2.
    destruct A1 as (_ & _ & X). apply X. rewrite <- D1. lia.
Qed.

(** the fault-free upload loop *)
Lemma upload_loop_ok fuel : forall dpos n st tr,
  (forall t, u_pos st < t <= dpos -> In t (u_local st)) ->
  (N.to_nat (dpos - u_pos st) < fuel)%nat ->
  let r := upload_loop fuel 0 dpos n st [] tr in
  s_err r = E_NIL /\ s_limited r = false /\ u_pos (s_st r) = N.max (u_pos st) dpos.
Proof.
  induction fuel as [|fuel IH]; intros dpos n st tr Hl Hf; [lia|].
  cbn [upload_loop]. cbv zeta.
  destruct (negb (u_pos st + 1 <=? dpos)) eqn:EC.
  - simpl. apply negb_true_iff, N.leb_gt in EC. repeat split; lia.
  - apply negb_false_iff, N.leb_le in EC. simpl andb. cbv iota.
    assert (M : mem (u_pos st + 1) (u_local st) = true) by (apply mem_In, Hl; lia).
    rewrite M. simpl negb. cbv iota. simpl next_outcome.
    change (client_write Ok (u_pos st + 1) (u_remote st)) with (ins (u_pos st + 1) (u_remote st), true). cbv iota beta.
    set (st2 := set_pos (set_remote st (ins (u_pos st + 1) (u_remote st))) (u_pos st + 1)).
    assert (Q : u_pos st2 = u_pos st + 1) by reflexivity.
    assert (L2 : forall t, u_pos st2 < t <= dpos -> In t (u_local st2)) by (intros t Ht; apply Hl; lia).
    assert (F2 : (N.to_nat (dpos - u_pos st2) < fuel)%nat) by lia.
    destruct (IH dpos (n + 1) st2 (tr ++ [mkC 1 (u_pos st + 1) (ins (u_pos st + 1) (u_remote st))]) L2 F2) as (A & B & C).
    split; [exact A|]. split; [exact B|]. etransitivity; [exact C|]. rewrite Q. lia.
Qed.

(** [catch_up]: once faults have stopped (empty schedule), one sync of a
    reachable state whose local files from the remote max upwards are all
    present returns nil and leaves the replica holding exactly the TXIDs from
    the retention floor up to the local max *)
Theorem catch_up_inv : forall fl st, uinv fl st ->
  maxl (u_local st) <> 0 ->
  (forall t, maxl (u_remote st) < t <= maxl (u_local st) -> In t (u_local st)) ->
  let r := sync 0 st [] in
  s_err r = E_NIL /\
  u_pos (s_st r) = N.max (maxl (u_remote st)) (maxl (u_local st)) /\
  (forall t, In t (u_remote (s_st r)) <-> fl <= t <= N.max (maxl (u_remote st)) (maxl (u_local st))).
Proof.
  intros fl st I Hd Hl r.
  assert (Once : s_err (sync_once 0 st []) = E_NIL /\ s_limited (sync_once 0 st []) = false /\
                 u_pos (s_st (sync_once 0 st [])) = N.max (maxl (u_remote st)) (maxl (u_local st))).
  { unfold sync_once. destruct I as (I1 & I2).
    destruct (N.eqb (u_pos st) 0) eqn:EP.
    - change (next_outcome []) with (Ok, @nil coutcome). cbv iota beta zeta.
      change (client_list Ok (u_remote st)) with (Some (u_remote st)). cbv iota beta.
      change (u_local (set_pos st (maxl (u_remote st)))) with (u_local st).
      apply N.eqb_neq in Hd. rewrite Hd.
      apply upload_loop_ok; simpl; [exact Hl | lia].
    - cbv iota beta zeta. apply N.eqb_neq in EP. apply N.eqb_neq in Hd. rewrite Hd.
      rewrite <- (I2 EP). apply upload_loop_ok; [rewrite (I2 EP); exact Hl | lia]. }
  destruct Once as (O1 & O2 & O3).
  assert (Rq : r = mkS E_NIL false (s_st (sync_once 0 st [])) (s_sched (sync_once 0 st [])) ([] ++ s_trace (sync_once 0 st []))).
  { unfold r, sync. cbn [sync_loop]. cbv zeta. rewrite O1, O2. reflexivity. }
  destruct (sync_spec fl 0 st [] I) as ((A1 & _) & _ & _ & D & _). fold r in A1, D.
  assert (E : s_err r = E_NIL) by (rewrite Rq; reflexivity).
  destruct (D E) as (D1 & _).
  assert (P : u_pos (s_st r) = N.max (maxl (u_remote st)) (maxl (u_local st))) by (rewrite Rq; exact O3).
  split; [exact E|]. split; [exact P|].
  intros t. destruct A1 as (_ & _ & X). rewrite X, <- D1, P. reflexivity.
Qed.

Theorem catch_up_thm : forall fl st, reach fl st ->
  maxl (u_local st) <> 0 ->
  (forall t, maxl (u_remote st) < t <= maxl (u_local st) -> In t (u_local st)) ->
  let r := sync 0 st [] in
  s_err r = E_NIL /\
  u_pos (s_st r) = N.max (maxl (u_remote st)) (maxl (u_local st)) /\
  (forall t, In t (u_remote (s_st r)) <-> fl <= t <= N.max (maxl (u_remote st)) (maxl (u_local st))).
Proof. intros fl st R. apply catch_up_inv. apply (reach_inv fl st R). Qed.

(** ---- the replica never gets ahead of what was uploaded --------------------- *)
Definition uinv_local_const (st : ust) : Prop := True.

Lemma upload_loop_local fuel : forall maxf dpos n st s tr,
  u_local (s_st (upload_loop fuel maxf dpos n st s tr)) = u_local st.
Proof.
  induction fuel as [|fuel IH]; intros maxf dpos n st s tr.
  - simpl. destruct (negb (u_pos st + 1 <=? dpos)); reflexivity.
  - cbn [upload_loop]. cbv zeta.
    destruct (negb (u_pos st + 1 <=? dpos)); [reflexivity|].
    destruct ((0 <? maxf) && (maxf <=? n)); [reflexivity|].
    destruct (negb (mem (u_pos st + 1) (u_local st))); [reflexivity|].
    destruct (next_outcome s) as [o s'].
    destruct o; simpl client_write; cbv iota beta; try reflexivity.
    rewrite IH. reflexivity.
Qed.

Lemma sync_once_local maxf st s : u_local (s_st (sync_once maxf st s)) = u_local st.
Proof.
  unfold sync_once.
  assert (Main : forall st1 s1 tr1, u_local st1 = u_local st ->
     u_local (s_st (let dpos := maxl (u_local st1) in
                    if N.eqb dpos 0 then fail E_WAIT st1 s1 tr1
                    else upload_loop (S (N.to_nat (dpos - u_pos st1))) maxf dpos 0 st1 s1 tr1)) = u_local st).
  { intros st1 s1 tr1 E. cbv zeta. destruct (N.eqb (maxl (u_local st1)) 0); [simpl; exact E|].
    rewrite upload_loop_local. exact E. }
  destruct (N.eqb (u_pos st) 0).
  - destruct (next_outcome s) as [o s']. destruct o; simpl client_list; cbv iota beta; try reflexivity.
    apply Main; reflexivity.
  - apply Main; reflexivity.
Qed.

Lemma upload_loop_bound fuel : forall maxf dpos n st s tr,
  maxl (u_remote (s_st (upload_loop fuel maxf dpos n st s tr))) <= N.max (maxl (u_remote st)) dpos.
Proof.
  induction fuel as [|fuel IH]; intros maxf dpos n st s tr.
  - simpl. destruct (negb (u_pos st + 1 <=? dpos)); simpl; lia.
  - cbn [upload_loop]. cbv zeta.
    destruct (negb (u_pos st + 1 <=? dpos)) eqn:EC; [simpl; lia|].
    apply negb_false_iff, N.leb_le in EC.
    destruct ((0 <? maxf) && (maxf <=? n)); [simpl; lia|].
    destruct (negb (mem (u_pos st + 1) (u_local st))); [simpl; lia|].
    destruct (next_outcome s) as [o s'].
    destruct o; simpl client_write; cbv iota beta; try (simpl; lia).
    + eapply N.le_trans; [apply IH|]. simpl. rewrite maxl_ins. lia.
    + simpl. rewrite maxl_ins. lia.
Qed.

Lemma sync_once_bound maxf st s :
  maxl (u_remote (s_st (sync_once maxf st s))) <= N.max (maxl (u_remote st)) (maxl (u_local st)).
Proof.
  unfold sync_once.
  assert (Main : forall st1 s1 tr1, u_remote st1 = u_remote st -> u_local st1 = u_local st ->
     maxl (u_remote (s_st (let dpos := maxl (u_local st1) in
                           if N.eqb dpos 0 then fail E_WAIT st1 s1 tr1
                           else upload_loop (S (N.to_nat (dpos - u_pos st1))) maxf dpos 0 st1 s1 tr1)))
     <= N.max (maxl (u_remote st)) (maxl (u_local st))).
  { intros st1 s1 tr1 E1 E2. cbv zeta. destruct (N.eqb (maxl (u_local st1)) 0).
    - simpl. rewrite E1. lia.
    - eapply N.le_trans; [apply upload_loop_bound|]. rewrite E1, E2. lia. }
  destruct (N.eqb (u_pos st) 0).
  - destruct (next_outcome s) as [o s']. destruct o; simpl client_list; cbv iota beta; try (simpl; lia).
    apply Main; reflexivity.
  - apply Main; reflexivity.
Qed.

Lemma sync_loop_bound maxf fuel : forall st s tr,
  uinv_local_const st ->
  maxl (u_remote (s_st (sync_loop fuel maxf st s tr))) <= N.max (maxl (u_remote st)) (maxl (u_local st)).
Proof.
  induction fuel as [|fuel IH]; intros st s tr _.
  - simpl. lia.
  - cbn [sync_loop]. cbv zeta.
    pose proof (sync_once_bound maxf st s) as B1.
    destruct (negb (s_err (sync_once maxf st s) =? E_NIL)); [simpl; exact B1|].
    destruct (negb (s_limited (sync_once maxf st s))); [simpl; exact B1|].
    eapply N.le_trans; [apply IH; exact I|].
    rewrite (sync_once_local maxf st s). lia.
Qed.

Lemma sync_bound maxf st s :
  maxl (u_remote (s_st (sync maxf st s))) <= N.max (maxl (u_remote st)) (maxl (u_local st)).
Proof. unfold sync. apply sync_loop_bound. exact I. Qed.

(** the hypotheses are satisfiable by a non-trivial history: three local files,
    a sync whose second upload fails after taking effect, a retention step, then
    a fault-free sync *)
Example upload_example :
  let '(st, obs) := hist_run u_init
      [HLocal [1;2;3]; HSync 0 [Ok; Ok; FailAfter]; HRetain 2; HSync 0 []] in
  u_remote st = [2;3] /\ u_pos st = 3 /\
  map (fun o => (h_err o, h_pos o, map c_after (h_trace o))) obs
  = [(1, 0, [[]; [1]; [1;2]]); (0, 3, [[2]; [2;3]])].
Proof. vm_compute. repeat split; reflexivity. Qed.

Example upload_example_reach : reach 2 (mkU [2;3] 3 [1;2;3]).
Proof.
  pose proof (reach_step _ _ (HSync 0 []) (reach_step _ _ (HRetain 2)
     (reach_step _ _ (HSync 0 [Ok; Ok; FailAfter]) (reach_step _ _ (HLocal [1;2;3]) reach_init)))) as H.
  vm_compute in H. exact H.
Qed.

(** ---- the snapshot level never moves the upload position ---------------------------- *)

Definition is_snap (h : hstep) : bool := match h with HSnap _ => true | _ => false end.

(** whatever snapshots appear on the replica, and wherever in the history (in particular
    AHEAD of the level-0 uploads, right before a fault makes the position be recomputed),
    every sync returns the same error class, position and client calls and leaves the same
    level-0 set as in the history without them *)
Theorem snapshots_ignored_thm : forall hs st,
  hist_run st (filter (fun h => negb (is_snap h)) hs) = hist_run st hs.
Proof.
  induction hs as [|h tl IH]; intros st; [reflexivity|].
  destruct h as [l|k|m s|a s|t]; cbn [filter is_snap negb].
  1-4: cbn [hist_run]; destruct (hstep_run st _) as [st1 o]; rewrite IH; reflexivity.
  cbn [hist_run hstep_run]. rewrite IH. destruct (hist_run st tl). reflexivity.
Qed.
