(** The theorems of the Faults layer under the names used by DESIGN.md §6
    (C10, C05).  The proofs are in RProofs.v (resumable reader), UProofs.v
    (upload under faults) and ResProofs.v (restore); each is by induction /
    invariant over every schedule, history and buffer-size sequence. *)
From Coq Require Import List NArith Arith Bool.
From LS Require Import Faults.Resumable Faults.Upload Faults.Restore.
From LS Require Export Faults.RProofs Faults.UProofs Faults.ResProofs Faults.CProofs Faults.BProofs.
Import ListNotations.

(** C10 *)
Definition rr_prefix := rr_prefix_thm.
Definition rr_budget := rr_budget_thm.
Definition rr_read_all_complete := rr_read_all_whole.
Definition restore_ok_implies_verified := @restore_ok_implies_verified_thm.
Definition restore_corruption := @restore_corruption_thm.
Definition restore_detects := @restore_detects_thm.
Definition restore_output_discipline := @restore_output_discipline_thm.
Definition restore_integrity_failure_removes_output := @restore_integrity_failure_removes_output_thm.

(** C05 *)
Definition no_false_ack := no_false_ack_thm.
Definition l0_gapless := l0_gapless_thm.
Definition pos_truthful := pos_truthful_thm.
Definition snapshots_ignored := snapshots_ignored_thm.
Definition catch_up := catch_up_thm.
Definition compact_no_partial_publish := @compact_no_partial_publish_thm.
Definition ack_means_in_sync := ack_means_in_sync_thm.
Definition init_listing_error_propagates := init_listing_error_propagates_thm.
Definition catch_up_after_reopen := catch_up_after_reopen_thm.
Definition never_corrupt := never_corrupt_thm.
Definition baseline_short_read_is_error := baseline_short_read_is_error_thm.
