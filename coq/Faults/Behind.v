(** Model of [DB.checkDatabaseBehindReplica] (/repo/db.go), run by [DB.init] on
    the first sync after a (re)open, and of [DB.SyncAndWait] on top of it:
        init (once; retried while it fails)  ->  DB.Sync  ->  Replica.Sync
    The local level-0 set may be BEHIND the replica when the process starts
    (database restored from an older copy, meta directory lost).  Every client
    call takes its outcome from the schedule, as in Upload.v. *)
From Coq Require Import List NArith Bool Lia.
From LS Require Import Faults.Upload.
Import ListNotations.
Local Open Scope N_scope.

Record bst := mkB {
  b_u : ust;
  b_init : bool;       (* db.db != nil: init has completed *)
  b_corrupt : bool     (* the newest local L0 file does not verify: db.Pos() fails *)
}.

Record bres := mkBR {
  br_ok : bool;
  br_st : ust;
  br_corrupt : bool;
  br_sched : list coutcome;
  br_trace : list ccall
}.

(** func (db *DB) checkDatabaseBehindReplica(ctx) error *)
Definition check_behind (sized : bool) (st : ust) (s : list coutcome) : bres :=
  let dbpos := maxl (u_local st) in                              (* dbPos, err := db.Pos() *)
  let '(o, s1) := next_outcome s in
  let tr := [mkC 0 0 (u_remote st)] in
  match client_list o (u_remote st) with                         (* db.Replica.MaxLTXFileInfo(ctx, 0) *)
  | None => mkBR false st false s1 tr                            (* return fmt.Errorf("get replica position: %w", err) *)
  | Some listing =>
      let rmax := maxl listing in
      if N.eqb rmax 0 then mkBR true st false s1 tr              (* no remote replica data yet *)
      else if N.leb rmax dbpos then mkBR true st false s1 tr     (* dbPos.TXID >= replicaInfo.MaxTXID *)
      else
        let st1 := mkU (u_remote st) (u_pos st) [] in            (* os.RemoveAll(l0Dir) *)
        let '(o2, s2) := next_outcome s1 in
        let tr2 := tr ++ [mkC 2 rmax (u_remote st)] in           (* Client.OpenLTXFile(ctx, 0, min, max, 0, 0) *)
        match o2 with
        | Ok => mkBR true (mkU (u_remote st) (u_pos st) [rmax]) false s2 tr2
        | FailBefore => mkBR false st1 false s2 tr2              (* "open remote L0 file" *)
        | FailAfter => mkBR false st1 false s2 tr2
        | ErrMidStream _ => mkBR false st1 false s2 tr2          (* io.Copy fails: "copy L0 file", temp file removed *)
        | ShortRead _ =>
            (* io.Copy over the raw stream sees a clean EOF.
               else if replicaInfo.Size > 0 && n != replicaInfo.Size { return "copy L0 file: short read" }
               (fix 086c0cc).  [sized] = the listing entry carries a size (> 0); a client
               that reports Size 0 gets no check: the truncated temp file is synced and
               renamed into place and the function returns nil — the behaviour of every
               client before the fix *)
            if sized then mkBR false st1 false s2 tr2
            else mkBR true (mkU (u_remote st) (u_pos st) [rmax]) true s2 tr2
        end
  end.

Record sobs := mkSO { so_err : N; so_pos : N; so_trace : list ccall }.

(** [DB.SyncAndWait]: db.Sync (init first, if still to do), then Replica.Sync.
    What db.Sync does to the local level-0 set is the environment's business:
    [local_after] is the set it leaves. *)
Definition sync_wait (sized : bool) (b : bst) (s : list coutcome) (local_after : list N) : bst * sobs :=
  if b_corrupt b then (b, mkSO E_CLIENT (u_pos (b_u b)) [])      (* db.Pos(): "ltx file corrupted" *)
  else
    let i :=
      if b_init b then mkBR true (b_u b) false s []
      else check_behind sized (b_u b) s in
    if negb (br_ok i) then (mkB (br_st i) false false, mkSO E_CLIENT (u_pos (br_st i)) (br_trace i))
    else if br_corrupt i then (mkB (br_st i) true true, mkSO E_CLIENT (u_pos (br_st i)) (br_trace i))
    else
      let st1 := mkU (u_remote (br_st i)) (u_pos (br_st i)) local_after in
      let r := sync 0 st1 (br_sched i) in
      (mkB (s_st r) true false,
       mkSO (if N.eqb (s_err r) E_NIL then E_NIL else E_CLIENT) (u_pos (s_st r)) (br_trace i ++ s_trace r)).

Fixpoint sync_waits (sized : bool) (b : bst) (steps : list (list coutcome * list N)) : bst * list sobs :=
  match steps with
  | [] => (b, [])
  | (s, l) :: tl =>
      let '(b1, o) := sync_wait sized b s l in
      let '(bf, os) := sync_waits sized b1 tl in
      (bf, o :: os)
  end.

(** a process start: local level-0 set [local] (whatever the restore / loss left),
    nothing cached, init still to run *)
Definition b_open (remote local : list N) : bst := mkB (mkU remote 0 local) false false.
