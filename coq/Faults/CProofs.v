(** [compact_no_partial_publish]: for every schedule of source-read faults and
    every outcome of the write call, nothing but the complete merge of the
    completely read and verified sources is ever published under the
    destination name, an error never touches the cache, and a failed source
    read publishes nothing. *)
From Coq Require Import List NArith Arith Bool Lia.
From LS Require Import Faults.Resumable Faults.RProofs Faults.Upload Faults.Compact.
Import ListNotations.

Section CProofs.
Context {B : Type}.
Variable merge : list (list B) -> list B.
Variable verified : list B -> bool.
Variable partial : list (option (list B)) -> list B.
Variable stored : csrc -> list B.
Variable chunk : nat.

Notation src_read' := (src_read stored chunk).
Notation producer' := (producer merge verified partial stored chunk).
Notation compact' := (compact merge verified partial stored chunk).

(** a source that was read successfully was delivered in full *)
Lemma src_read_whole s d : 0 < length (stored s) -> src_read' s = Some d -> d = stored s.
Proof.
  unfold src_read. intros Hl Hr.
  destruct (rr_read_all_whole_gen _ _ _ _ _ _ _ _ Hr) as (_ & _ & _ & K4). apply K4; auto.
Qed.

Definition all_read_ok (srcs : list csrc) : Prop :=
  Forall (fun s => src_read' s = Some (stored s) /\ verified (stored s) = true) srcs.

Lemma producer_clean srcs :
  Forall (fun s => 0 < length (stored s)) srcs ->
  snd (producer' srcs) = PClean ->
  all_read_ok srcs /\ fst (producer' srcs) = merge (map stored srcs).
Proof.
  intros Hl. unfold producer.
  destruct (forallb _ (map src_read' srcs)) eqn:E; [|discriminate]. intros _. simpl.
  rewrite forallb_forall in E.
  assert (A : all_read_ok srcs).
  { apply Forall_forall. intros s Hs. specialize (E (src_read' s) (in_map _ _ _ Hs)).
    destruct (src_read' s) as [d|] eqn:ER; [|discriminate].
    rewrite Forall_forall in Hl. rewrite (src_read_whole s d (Hl s Hs) ER) in *. auto. }
  split; [exact A|]. f_equal. rewrite map_map. apply map_ext_in. intros s Hs.
  unfold all_read_ok in A. rewrite Forall_forall in A. destruct (A s Hs) as (-> & _). reflexivity.
Qed.

Lemma producer_error srcs :
  (exists s, In s srcs /\ (src_read' s = None \/ exists d, src_read' s = Some d /\ verified d = false)) ->
  snd (producer' srcs) = PError.
Proof.
  intros (s & Hs & Hbad). unfold producer.
  destruct (forallb _ (map src_read' srcs)) eqn:E; [|reflexivity].
  rewrite forallb_forall in E. specialize (E (src_read' s) (in_map _ _ _ Hs)).
  destruct Hbad as [X|(d & X & V)]; rewrite X in E; congruence.
Qed.

Definition named (mn mx : N) (f : cfile (B:=B)) : Prop := cf_min f = mn /\ cf_max f = mx.

Theorem compact_no_partial_publish_thm : forall srcs wo st,
  Forall (fun s => 0 < length (stored s)) srcs ->
  let '(r, st') := compact' srcs wo st in
  let mn := span_min srcs in
  let mx := span_max srcs in
  (* every object at the destination level afterwards was there before, or is the
     complete merge of the sources, all of which were read to EOF and verified *)
  (forall f, In f (c_dst st') ->
     In f (c_dst st) \/
     (f = mkCF mn mx (merge (map stored srcs)) /\ all_read_ok srcs /\ (wo = Ok \/ wo = FailAfter))) /\
  (* nil: the complete object is published and the cache names it *)
  (r = COk -> In (mkCF mn mx (merge (map stored srcs))) (c_dst st') /\ c_cache st' = Some (mn, mx) /\ wo = Ok) /\
  (* error: the cache is untouched; the level is untouched unless the write took effect and then failed *)
  (r <> COk -> c_cache st' = c_cache st /\ (c_dst st' = c_dst st \/ wo = FailAfter)) /\
  (* the writer closes with an error iff a source read failed, and then nothing is published *)
  ((exists s, In s srcs /\ (cs_open_fail s = true \/ src_read' s = None \/
                           exists d, src_read' s = Some d /\ verified d = false)) ->
     r <> COk /\ c_dst st' = c_dst st /\ c_cache st' = c_cache st).
Proof.
  intros srcs wo st Hl. unfold compact.
  destruct srcs as [|s0 tl] eqn:ES.
  { simpl. split; [auto|]. split; [discriminate|]. split; [auto|]. intros (s & [] & _). }
  rewrite <- ES in *. assert (NE : srcs <> []) by (rewrite ES; discriminate). clear ES s0 tl.
  destruct (existsb cs_open_fail srcs) eqn:EO.
  { split; [auto|]. split; [discriminate|]. split; [auto|]. intros _. repeat split; auto. discriminate. }
  set (mn := span_min srcs). set (mx := span_max srcs).
  unfold store_write.
  destruct (snd (producer' srcs)) eqn:EP.
  - (* clean end of stream *)
    destruct (producer_clean srcs Hl EP) as (A & M).
    assert (NoBad : ~ (exists s, In s srcs /\ (cs_open_fail s = true \/ src_read' s = None \/
                           exists d, src_read' s = Some d /\ verified d = false))).
    { intros (s & Hs & [X|[X|(d & X & V)]]).
      - assert (existsb cs_open_fail srcs = true) by (apply existsb_exists; eauto). congruence.
      - unfold all_read_ok in A. rewrite Forall_forall in A. destruct (A s Hs) as (Y & _). congruence.
      - unfold all_read_ok in A. rewrite Forall_forall in A. destruct (A s Hs) as (Y & Z). rewrite Y in X. inversion X; subst. congruence. }
    destruct wo; simpl.
    + split.
      { intros f [<-|Hf]; [right; rewrite M; auto | left; apply filter_In in Hf; tauto]. }
      split; [intros _; rewrite M; auto|]. split; [intros X; congruence|]. intros X; contradiction.
    + split; [auto|]. split; [discriminate|]. split; [auto|]. intros X; contradiction.
    + split.
      { intros f [<-|Hf]; [right; rewrite M; auto | left; apply filter_In in Hf; tauto]. }
      split; [discriminate|]. split; [auto|]. intros X; contradiction.
    + split; [auto|]. split; [discriminate|]. split; [auto|]. intros X; contradiction.
    + split; [auto|]. split; [discriminate|]. split; [auto|]. intros X; contradiction.
  - (* the stream ended with an error: nothing is stored whatever the write outcome *)
    assert (R : (let '(dst', ok) :=
                   match wo with
                   | Ok | FailAfter | _ => (c_dst st, false)
                   end in if ok then (COk, mkCSt dst' (Some (mn, mx))) else (CErrWrite, mkCSt dst' (c_cache st)))
                = (CErrWrite, mkCSt (c_dst st) (c_cache st))) by (destruct wo; reflexivity).
    destruct wo; simpl; (split; [auto|]; split; [discriminate|]; split; [auto|]; intros _; repeat split; auto; discriminate).
Qed.
End CProofs.

(** satisfiable: two sources, the second read survives three failures: published;
    with a fourth failure the stream ends with an error and nothing is stored *)
Section Example.
Let mergex (bs : list (list nat)) := concat bs.
Let s1 := mkCS 1 2 false [].
Let s2 (k : nat) := mkCS 3 3 false (DataErr 2 :: repeat OpenErr k).
Let storedx (s : csrc) : list nat := if N.eqb (cs_min s) 1 then [1;2;3] else [4;5;6;7].

Example compact_example_ok :
  compact mergex (fun _ => true) (fun _ => [9]) storedx 10 [s1; s2 2] Ok (mkCSt [] None)
  = (COk, mkCSt [mkCF 1 3 [1;2;3;4;5;6;7]] (Some (1%N, 3%N))).
Proof. vm_compute. reflexivity. Qed.

Example compact_example_fails :
  compact mergex (fun _ => true) (fun _ => [9]) storedx 10 [s1; s2 3] Ok (mkCSt [] (Some (1%N, 1%N)))
  = (CErrWrite, mkCSt [] (Some (1%N, 1%N))).
Proof. vm_compute. reflexivity. Qed.
End Example.
