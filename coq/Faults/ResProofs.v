(** Proofs about the Restore model (Restore.v). *)
From Coq Require Import List NArith Arith Bool Lia.
From LS Require Import Faults.Resumable Faults.RProofs Faults.Restore.
Import ListNotations.

Section RestoreProofs.
Context {B : Type}.
Variable H : list B -> N.
Variable body : list B -> list B.
Variable cks : list B -> N.
Variable parse_ok : list B -> bool.
Variable hdr_min hdr_max : list B -> N.
Variable image : list (list B) -> list B.
Variable stored : pinfo -> option (list B).
Variable sched : pinfo -> list outcome.
Variable chunk : nat.

Notation restore' := (restore H body cks parse_ok hdr_min hdr_max image stored sched chunk).
Notation verified' := (verified H body cks parse_ok).
Notation fetch' := (fetch stored sched chunk).
Notation fetch_all' := (fetch_all stored sched chunk).

(** what a successful fetch of one plan file means: the bytes handed to the
    compactor are a prefix of the stored object of at least [info.Size] bytes —
    the object itself when the listing's size is its length *)
Definition fetched (f : pinfo) (d : list B) : Prop :=
  exists b, stored f = Some b /\ d = firstn (length d) b /\ p_size f <= length d /\
            (p_size f = length b -> d = b).

Lemma fetch_spec f d : 0 < p_size f -> fetch' f = Some d -> fetched f d.
Proof.
  unfold fetch. intros Hs. destruct (stored f) as [b|] eqn:E; [|discriminate]. intros Hf.
  destruct (rr_read_all_whole _ _ _ _ _ _ _ Hf) as (K1 & K2 & K3 & K4).
  exists b. split; [exact E|]. split; [exact K1|]. split; [apply K3; exact Hs|]. intros X. apply K4; auto.
Qed.

Lemma fetch_all_spec fs : forall bs,
  Forall (fun f => 0 < p_size f) fs -> fetch_all' fs = Some bs -> Forall2 fetched fs bs.
Proof.
  induction fs as [|f tl IH]; intros bs Hs Hf; simpl in Hf.
  - inversion Hf. constructor.
  - destruct (fetch' f) as [d|] eqn:E1; [|discriminate].
    destruct (fetch_all' tl) as [ds|] eqn:E2; [|discriminate].
    inversion Hf; subst bs. inversion Hs as [|? ? Hs1 Hs2]; subst.
    constructor; [apply fetch_spec; [exact Hs1 | exact E1] | apply IH; [exact Hs2 | reflexivity]].
Qed.

(** [restore_ok_implies_verified] *)
Theorem restore_ok_implies_verified_thm : forall out_exists plan integ integ_res cancelled img ops,
  restore' out_exists plan integ integ_res cancelled = (ROk img, ops) ->
  out_exists = false /\
  exists fs bs, plan = Some fs /\ fs <> [] /\
    Forall (fun f => ltx_header_size <= p_size f) fs /\
    Forall2 fetched fs bs /\
    Forall (fun d => verified' d = true) bs /\
    chain_ok hdr_min hdr_max bs = true /\
    img = image bs /\
    (integ = true -> integ_res img = IOk).
Proof.
  intros out_exists plan integ integ_res cancelled img ops. unfold restore.
  destruct out_exists; [discriminate|].
  destruct plan as [fs|]; [|discriminate].
  destruct (negb (forallb (fun f => negb (p_size f <? ltx_header_size)) fs)) eqn:ES; [discriminate|].
  apply negb_false_iff in ES.
  assert (Hsz : Forall (fun f => ltx_header_size <= p_size f) fs).
  { apply Forall_forall. intros f Hf. rewrite forallb_forall in ES. specialize (ES f Hf).
    apply negb_true_iff, Nat.ltb_ge in ES. exact ES. }
  destruct fs as [|f0 fs0] eqn:EF; [discriminate|]. rewrite <- EF in *.
  destruct (fetch_all' fs) as [bs|] eqn:EA; [|discriminate].
  destruct (negb (chain_ok hdr_min hdr_max bs)) eqn:EC; [discriminate|].
  destruct (negb (forallb verified' bs)) eqn:EV; [discriminate|].
  apply negb_false_iff in EC. apply negb_false_iff in EV.
  destruct (integ && negb (ires_ok (integ_res (image bs)))) eqn:EI; [discriminate|].
  intros X. inversion X; subst img.
  split; [reflexivity|]. exists fs, bs.
  split; [reflexivity|]. split; [rewrite EF; congruence|]. split; [exact Hsz|].
  split.
  { apply fetch_all_spec; [|exact EA]. eapply Forall_impl; [|exact Hsz]. unfold ltx_header_size. intros; simpl in *; lia. }
  split; [apply Forall_forall; intros d Hd; rewrite forallb_forall in EV; auto|].
  split; [exact EC|]. split; [reflexivity|].
  intros ->. simpl in EI. apply negb_false_iff in EI. destruct (integ_res (image bs)); [reflexivity|discriminate|discriminate].
Qed.

(** detection: a plan file whose stored bytes (with an honest listing size) do
    not pass the decoder's check, or which is missing, makes Restore fail *)
Theorem restore_detects_thm : forall plan fs integ integ_res cancelled f,
  plan = Some fs -> In f fs ->
  (stored f = None \/ exists b', stored f = Some b' /\ p_size f = length b' /\ verified' b' = false) ->
  exists e ops, restore' false plan integ integ_res cancelled = (RErr e, ops).
Proof.
  intros plan fs integ integ_res cancelled f -> Hin Hbad.
  destruct (restore' false (Some fs) integ integ_res cancelled) as [[img|e] ops] eqn:ER; [|eauto].
  exfalso. apply restore_ok_implies_verified_thm in ER.
  destruct ER as (_ & fs' & bs & X & _ & _ & F2 & V & _). inversion X; subst fs'.
  assert (G : exists d, fetched f d /\ verified' d = true).
  { clear - Hin F2 V. induction F2 as [|f1 d1 fs1 bs1 F1 F2' IH]; [contradiction|].
    inversion V; subst. destruct Hin as [->|Hin]; [exists d1; auto | apply IH; auto]. }
  destruct G as (d & (b & S1 & _ & _ & S4) & Vd).
  destruct Hbad as [N0|(b' & S' & Sz & Vb)]; [congruence|].
  rewrite S1 in S'. inversion S'; subst b'. rewrite (S4 Sz) in Vd. congruence.
Qed.

(** the per-pair hash hypothesis: if the CRC distinguishes the hashed streams
    of the original and of the damaged object (same trailer checksum field), or
    the damage is in the checksum field itself, the damaged object is rejected *)
Lemma hash_detects : forall b b',
  verified' b = true ->
  (cks b' = cks b /\ H (body b') <> H (body b)) \/ (body b' = body b /\ cks b' <> cks b) ->
  verified' b' = false.
Proof.
  intros b b' V D. unfold verified in *. apply andb_true_iff in V. destruct V as (_ & V). apply N.eqb_eq in V.
  apply andb_false_iff. right. apply N.eqb_neq.
  destruct D as [(E1 & E2)|(E1 & E2)]; congruence.
Qed.

(** [restore_corruption]: a single damaged plan file that the hash distinguishes
    from the original (hypothesis, per pair) cannot lead to a successful restore *)
Theorem restore_corruption_thm : forall plan fs integ integ_res cancelled f b b',
  plan = Some fs -> In f fs -> verified' b = true ->
  stored f = Some b' -> p_size f = length b' ->
  (cks b' = cks b /\ H (body b') <> H (body b)) \/ (body b' = body b /\ cks b' <> cks b) ->
  exists e ops, restore' false plan integ integ_res cancelled = (RErr e, ops).
Proof.
  intros plan fs integ integ_res cancelled f b b' Hp Hin V S Sz D.
  eapply restore_detects_thm; eauto. right. exists b'. repeat split; auto. eapply hash_detects; eauto.
Qed.

Ltac disc_tac :=
  simpl; split; [reflexivity|];
  split; [intros X; simpl in X; intuition discriminate|];
  split; [intros E; try discriminate E; (split; [reflexivity|]; split; [eexists; reflexivity | reflexivity])|];
  split; [intros E; try discriminate E;
          first [ split; reflexivity
                | split; [reflexivity|]; split; [intros E2; try discriminate E2; split; reflexivity|];
                  first [left; reflexivity | right; reflexivity] ] |];
  reflexivity.

(** [restore_output_discipline] *)
Theorem restore_output_discipline_thm : forall out_exists plan integ integ_res cancelled,
  let '(res, ops) := restore' out_exists plan integ integ_res cancelled in
  let fsf := fs_run (fs_init out_exists) ops in
  (* no operation broke the discipline: the output is created only by renaming a
     completely written, fsynced temp file onto a free name; it is never opened
     for writing; a pre-existing output is never removed *)
  f_bad fsf = false /\ ~ In OpenOutForWrite ops /\
  (* pre-existing output: error before anything is written *)
  (out_exists = true -> ops = [StatOut] /\ (exists e, res = RErr e) /\ f_out fsf = Some false) /\
  (* otherwise: success leaves the image and no temp file; an error leaves neither
     output, temp file nor -wal/-shm — whichever way the integrity check failed
     (rows or statement error); only a cancelled context may leave the published image *)
  (out_exists = false ->
     match res with
     | ROk _ => f_out fsf = Some true /\ f_tmp fsf = TAbsent
     | RErr _ => f_tmp fsf = TAbsent /\
                 (cancelled = false -> f_out fsf = None /\ f_side fsf = false) /\
                 (f_out fsf = None \/ f_out fsf = Some true)
     end) /\
  (* the same as the decidable observation test the harness applies to the real Restore *)
  obs_ok out_exists cancelled (match res with ROk _ => 0%N | RErr _ => 1%N end)
         (match f_out fsf with Some _ => true | None => false end)
         (match f_tmp fsf with TAbsent => false | _ => true end)
         (match f_out fsf with Some true => true | _ => false end)
         (match f_out fsf with Some false => true | _ => false end)
         (f_side fsf) = true.
Proof.
  intros out_exists plan integ integ_res cancelled. unfold restore.
  destruct cancelled.
  all: destruct out_exists; [disc_tac|].
  all: destruct plan as [fs|]; [|disc_tac].
  all: destruct (negb (forallb (fun f => negb (p_size f <? ltx_header_size)) fs)); [disc_tac|].
  all: destruct fs as [|f0 fs0]; [disc_tac|].
  all: destruct (fetch_all' (f0 :: fs0)) as [bs|]; [|disc_tac].
  all: destruct (negb (chain_ok hdr_min hdr_max bs)); [disc_tac|].
  all: destruct (negb (forallb verified' bs)); [disc_tac|].
  all: destruct (integ && negb (ires_ok (integ_res (image bs)))); disc_tac.
Qed.
(** every way the integrity check can fail — rows or statement error — removes
    the published output together with -shm and -wal (context not cancelled) *)
Theorem restore_integrity_failure_removes_output_thm : forall out_exists plan integ integ_res ops,
  restore' out_exists plan integ integ_res false = (RErr R_INTEG, ops) ->
  let fsf := fs_run (fs_init out_exists) ops in
  In RemoveOut ops /\ In RemoveShm ops /\ In RemoveWal ops /\
  f_out fsf = None /\ f_tmp fsf = TAbsent /\ f_side fsf = false.
Proof.
  intros out_exists plan integ integ_res ops. unfold restore.
  destruct out_exists; [intros X; inversion X|].
  destruct plan as [fs|]; [|intros X; inversion X].
  destruct (negb (forallb (fun f => negb (p_size f <? ltx_header_size)) fs)); [intros X; inversion X|].
  destruct fs as [|f0 fs0]; [intros X; inversion X|].
  destruct (fetch_all' (f0 :: fs0)) as [bs|]; [|intros X; inversion X].
  destruct (negb (chain_ok hdr_min hdr_max bs)); [intros X; inversion X|].
  destruct (negb (forallb verified' bs)); [intros X; inversion X|].
  destruct (integ && negb (ires_ok (integ_res (image bs)))); intros X; inversion X; subst ops.
  simpl. intuition.
Qed.
End RestoreProofs.

(** F7: "a truncated input always yields an error" is false of the decoder's
    Close: for the 8 lengths 0..7 of the remainder after the page-block end
    marker it panics; from 8 bytes on the slice is in range (and a short index
    or trailer is then reported as an error by the parsing that follows). *)
Theorem decoder_close_never_panics_refuted :
  exists remaining, decoder_close_hashed_len remaining = None.
Proof. exists 0. reflexivity. Qed.

Theorem decoder_close_panic_window : forall remaining,
  decoder_close_hashed_len remaining = None <-> remaining < ltx_checksum_size.
Proof.
  intros r. unfold decoder_close_hashed_len. destruct (Nat.ltb r ltx_checksum_size) eqn:E.
  - apply Nat.ltb_lt in E. split; auto.
  - apply Nat.ltb_ge in E. split; [discriminate | lia].
Qed.

(** the hypotheses are satisfiable: a two-file chain that restores; the same
    chain with a damaged second file is rejected and leaves nothing behind *)
Section Example.
Let Hx (l : list nat) : N := N.of_nat (fold_right plus 0 l).
Let bodyx (l : list nat) := removelast l.
Let cksx (l : list nat) : N := N.of_nat (last l 0).
Let okx (l : list nat) := Nat.leb 100 (length l).
Let minx (l : list nat) : N := N.of_nat (hd 0 l).
Let maxx (l : list nat) : N := N.of_nat (hd 0 l).
Let imagex (bs : list (list nat)) : list nat := concat bs.
Let mk (t : nat) : list nat := (t :: repeat 1 99) ++ [t + 99].
Let f1 := mkP 0 1 1 101.
Let f2 := mkP 0 2 2 101.
Let storedx (bad : bool) (f : pinfo) : option (list nat) :=
  if N.eqb (p_min f) 1 then Some (mk 1) else Some (if bad then (2 :: repeat 1 98 ++ [7]) ++ [101] else mk 2).
Let schedx (f : pinfo) : list outcome := if N.eqb (p_min f) 1 then [OpenErr; DataErr 30; DataEOF 20] else [].

Example restore_example_ok :
  fst (restore Hx bodyx cksx okx minx maxx imagex (storedx false) schedx 63 false (Some [f1; f2]) true (fun _ => IOk) false)
  = ROk (mk 1 ++ mk 2).
Proof. vm_compute. reflexivity. Qed.

Example restore_example_detects :
  restore Hx bodyx cksx okx minx maxx imagex (storedx true) schedx 63 false (Some [f1; f2]) true (fun _ => IOk) false
  = (RErr R_VERIFY, [StatOut; CreateTmp; WriteTmp true; CloseTmp; RemoveTmp]).
Proof. vm_compute. reflexivity. Qed.

(** both ways an integrity check can fail remove the published output; a
    cancelled context leaves it *)
Example restore_example_integrity :
  map (fun r => snd (restore Hx bodyx cksx okx minx maxx imagex (storedx false) schedx 63 false (Some [f1; f2]) true
                             (fun _ => fst r) (snd r)))
      [(IRows, false); (IStmtErr, false); (IStmtErr, true)]
  = [[StatOut; CreateTmp; WriteTmp true; FsyncTmp; CloseTmp; RenameTmpOut; FsyncDir; RemoveOut; RemoveShm; RemoveWal; RemoveTmp];
     [StatOut; CreateTmp; WriteTmp true; FsyncTmp; CloseTmp; RenameTmpOut; FsyncDir; RemoveOut; RemoveShm; RemoveWal; RemoveTmp];
     [StatOut; CreateTmp; WriteTmp true; FsyncTmp; CloseTmp; RenameTmpOut; FsyncDir; RemoveTmp]].
Proof. vm_compute. reflexivity. Qed.
End Example.
