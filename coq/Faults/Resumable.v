(** Model of [internal.ResumableReader.Read] (/repo/internal/resumable_reader.go).

    The reader is a state machine over (offset, retryN, rc, err).  The
    underlying storage (the [LTXFileOpener] and the streams it returns) is
    driven by an arbitrary *schedule* of outcomes; the reader never sees the
    schedule, only the results of its own [OpenLTXFile] / [rc.Read] calls.

    Schedule items
      [Data n]        the next [rc.Read(p)] returns up to [n] bytes, [err = nil]
      [DataEOF n]     ... up to [n] bytes together with [io.EOF] (premature if
                      the stream has not reached the end of the stored file)
      [DataErr n]     ... up to [n] bytes together with a non-EOF error
      [OpenErr]       the next [OpenLTXFile] fails with a retryable error
      [OpenNotExist]  the next [OpenLTXFile] fails with [os.ErrNotExist]
    An open attempt looks at the head of the schedule: [OpenErr]/[OpenNotExist]
    are consumed and make it fail, anything else lets it succeed (nothing
    consumed).  A stream read consumes the first non-open item (open items in
    front of it are discarded).  The empty schedule is the honest server: it
    returns as much as fits, and [(0, io.EOF)] at the end of the stored file.

    A stream opened at offset [o] serves the bytes of the stored file from [o];
    "up to n" means [min n (min (len p) (remaining bytes of the stored file))]. *)
From Coq Require Import List Arith Bool Lia.
Import ListNotations.

Inductive outcome :=
| Data (n : nat)
| DataEOF (n : nat)
| DataErr (n : nat)
| OpenErr
| OpenNotExist.

(** what [Read] returns as its error *)
Inductive rerr :=
| ENone        (* nil *)
| EEOF         (* io.EOF *)
| EMax         (* "max retries exceeded ..." — sticky *)
| ENotExist    (* "reopen ltx file at offset ..." wrapping ErrNotExist — not sticky, not counted *)
| EFuel.       (* model artefact: loop fuel exhausted; proved unreachable ([read_no_fuel]) *)

(** const resumableReaderMaxRetries = 3 *)
Definition rr_budget : nat := 3.

Record rst := mkR {
  r_off : nat;            (* r.offset *)
  r_retry : nat;          (* r.retryN *)
  r_rc : option nat;      (* r.rc; [Some p]: open stream positioned at byte [p] of the stored file *)
  r_err : option rerr     (* r.err (sticky) *)
}.

(** [NewResumableReader(..., rc, ...)]: Restore passes [rc = nil]; the
    compactor passes a stream it has just opened at offset 0. *)
Definition rr_init (opened : bool) : rst :=
  mkR 0 0 (if opened then Some 0 else None) None.

(** [func (r *ResumableReader) retry(err error) error]; [true] = error returned.
    The context is never cancelled in the model (the [ctx.Done()] arm is the
    caller giving up, not a storage fault). *)
Definition rr_retry (st : rst) : rst * bool :=
  let n := S (r_retry st) in                       (* r.retryN++ *)
  if Nat.ltb rr_budget n                            (* if r.retryN > resumableReaderMaxRetries *)
  then (mkR (r_off st) n (r_rc st) (Some EMax), true)
  else (mkR (r_off st) n (r_rc st) (r_err st), false).

Inductive ritem := RData (n : nat) | REOF (n : nat) | RErr (n : nat) | RHonest.

Fixpoint pop_read (s : list outcome) : ritem * list outcome :=
  match s with
  | [] => (RHonest, [])
  | Data n :: tl => (RData n, tl)
  | DataEOF n :: tl => (REOF n, tl)
  | DataErr n :: tl => (RErr n, tl)
  | OpenErr :: tl => pop_read tl
  | OpenNotExist :: tl => pop_read tl
  end.

Section File.
Context {A : Type}.
Variable file : list A.     (* the stored object *)
Variable size : nat.        (* r.size: expected size from FileInfo; 0 = unknown *)

Definition serve (p k : nat) : list A := firstn k (skipn p file).
Definition avail (p plen n : nat) : nat := Nat.min n (Nat.min plen (length file - p)).

Record rres := mkRes { rr_bytes : list A; rr_e : rerr; rr_st : rst; rr_sched : list outcome }.

(** one [rc.Read(p)] on a stream positioned at [p], then the rest of the
    loop body.  [k] bytes are handed over, [r.offset += n]. *)
Definition after_fail (chunk : list A) (k : nat) (st : rst) (tl : list outcome)
           (continue : rst -> list outcome -> rres) : rres :=
  (* r.close(); r.rc = nil; if retryErr := r.retry(err); retryErr != nil { return n, retryErr } *)
  let '(st1, exceeded) := rr_retry (mkR (r_off st) (r_retry st) None (r_err st)) in
  if exceeded then mkRes chunk EMax st1 tl
  else if Nat.ltb 0 k then mkRes chunk ENone st1 tl      (* if n > 0 { return n, nil } *)
  else continue st1 tl.                                  (* continue *)

(** the [for { ... }] loop of [Read]; every [continue] has passed through a
    successful [retry], so [S rr_budget] iterations always suffice
    ([read_no_fuel] in Proofs.v) *)
Fixpoint read_loop (fuel : nat) (plen : nat) (st : rst) (s : list outcome) : rres :=
  match fuel with
  | O => mkRes [] EFuel st s
  | S fuel' =>
      let do_read (p : nat) (st : rst) (s : list outcome) : rres :=
        let '(it, tl) := pop_read s in
        let rem := length file - p in
        let '(n, kind) :=
          match it with
          | RData n => (n, 0)
          | REOF n => (n, 1)
          | RErr n => (n, 2)
          | RHonest => (plen, if Nat.eqb rem 0 then 1 else 0)
          end in
        let k := avail p plen n in
        let chunk := serve p k in
        (* n, err := r.rc.Read(p); r.offset += int64(n) *)
        let st' := mkR (r_off st + k) (r_retry st) (Some (p + k)) (r_err st) in
        match kind with
        | 0 => mkRes chunk ENone st' tl                                  (* if err == nil { return n, nil } *)
        | 1 =>                                                           (* if err == io.EOF *)
            if Nat.ltb 0 size && Nat.ltb (r_off st') size                (* if r.size > 0 && r.offset < r.size *)
            then after_fail chunk k st' tl (read_loop fuel' plen)
            else mkRes chunk EEOF st' tl                                 (* return n, io.EOF *)
        | _ => after_fail chunk k st' tl (read_loop fuel' plen)          (* non-EOF error *)
        end in
      match r_rc st with
      | Some p => do_read p st s
      | None =>                                                          (* if r.rc == nil *)
          match s with
          | OpenNotExist :: tl => mkRes [] ENotExist st tl               (* return 0, fmt.Errorf("reopen ...") *)
          | OpenErr :: tl =>
              let '(st1, exceeded) := rr_retry st in
              if exceeded then mkRes [] EMax st1 tl                      (* return 0, retryErr *)
              else read_loop fuel' plen st1 tl                           (* continue *)
          | _ =>                                                         (* r.rc = rc, opened at r.offset *)
              do_read (r_off st) (mkR (r_off st) (r_retry st) (Some (r_off st)) (r_err st)) s
          end
      end
  end.

(** [func (r *ResumableReader) Read(p []byte) (int, error)] *)
Definition rr_read (plen : nat) (st : rst) (s : list outcome) : rres :=
  match r_err st with
  | Some e => mkRes [] e st s                        (* if r.err != nil { return 0, r.err } *)
  | None => read_loop (S (S rr_budget)) plen st s
  end.

(** a caller issuing [Read]s with buffers of the given lengths, whatever they return *)
Fixpoint rr_calls (plens : list nat) (st : rst) (s : list outcome) : list (list A * rerr) * rst :=
  match plens with
  | [] => ([], st)
  | plen :: tl =>
      let r := rr_read plen st s in
      let '(rest, stf) := rr_calls tl (rr_st r) (rr_sched r) in
      ((rr_bytes r, rr_e r) :: rest, stf)
  end.

(** a caller that reads to the end ([io.ReadAll]/[io.ReadFull] style): stops at
    the first error; [Some bytes] iff that error is [io.EOF] *)
Fixpoint rr_read_all (fuel plen : nat) (st : rst) (s : list outcome) (acc : list A) : option (list A) :=
  match fuel with
  | O => None
  | S f =>
      let r := rr_read plen st s in
      match rr_e r with
      | ENone => rr_read_all f plen (rr_st r) (rr_sched r) (acc ++ rr_bytes r)
      | EEOF => Some (acc ++ rr_bytes r)
      | _ => None
      end
  end.
End File.
