(** [sx -> sx] entry points of the Faults layer for the correspondence runner. *)
From Coq Require Import List NArith ZArith Bool Arith.
From LS Require Import Base.Sx Faults.Resumable Faults.Upload Faults.Restore Faults.Compact Faults.Behind.
Import ListNotations.
Local Open Scope nat_scope.

Definition asNat (x : sx) : nat := N.to_nat (asN x).
Definition sxNat (n : nat) : sx := sxN (N.of_nat n).

(** ---- resumable reader ---------------------------------------------------- *)

(** schedule item [tag; n]: 0 Data | 1 DataEOF | 2 DataErr | 3 OpenErr | 4 OpenNotExist *)
Definition dec_outcome (x : sx) : outcome :=
  let n := asNat (nthx 1 x) in
  match asNat (nthx 0 x) with
  | 0 => Data n
  | 1 => DataEOF n
  | 2 => DataErr n
  | 3 => OpenErr
  | _ => OpenNotExist
  end.

(** error classes as the harness reports them *)
Definition rerr_code (e : rerr) : N :=
  match e with ENone => 0 | EEOF => 1 | EMax => 2 | ENotExist => 3 | EFuel => 99 end%N.

(** input  [file; size; opened; schedule; plens]
    output [[[chunk; err] ...]; final offset] *)
Definition rr_run (x : sx) : sx :=
  let file := asNs (nthx 0 x) in
  let size := asNat (nthx 1 x) in
  let opened := asB (nthx 2 x) in
  let sched := map dec_outcome (asL (nthx 3 x)) in
  let plens := map asNat (asL (nthx 4 x)) in
  let '(calls, st) := rr_calls file size plens (rr_init opened) sched in
  SL [SL (map (fun c => SL [sxNs (fst c); sxN (rerr_code (snd c))]) calls); sxNat (r_off st)].

(** The statement of [rr_prefix]/[rr_budget] as a decidable test on what the
    implementation handed to its caller.
    input [file; size; [[chunk; err] ...]]
    1 iff  the concatenation of the chunks up to every call is a prefix of the
    stored file; a call that reports EOF while [size > 0] has delivered at
    least [size] bytes (all of the file when [size] is its length); after a
    "max retries" error every later call returns no bytes and the same error. *)
Fixpoint list_eqb (a b : list N) : bool :=
  match a, b with
  | [], [] => true
  | x :: a', y :: b' => N.eqb x y && list_eqb a' b'
  | _, _ => false
  end.

Fixpoint prefix_ok_calls (file : list N) (size : nat) (delivered : nat) (sticky : bool) (calls : list sx) : bool :=
  match calls with
  | [] => true
  | c :: tl =>
      let chunk := asNs (nthx 0 c) in
      let e := asNat (nthx 1 c) in
      let d' := delivered + length chunk in
      (if sticky then Nat.eqb (length chunk) 0 && Nat.eqb e 2 else true) &&
      list_eqb chunk (firstn (length chunk) (skipn delivered file)) &&
      Nat.leb d' (length file) &&
      (if Nat.eqb e 1 && Nat.ltb 0 size then Nat.leb size d' else true) &&
      prefix_ok_calls file size d' (sticky || Nat.eqb e 2) tl
  end.

Definition rr_prefix_ok (x : sx) : sx :=
  sxB (prefix_ok_calls (asNs (nthx 0 x)) (asNat (nthx 1 x)) 0 false (asL (nthx 2 x))).

(** ---- upload under faults -------------------------------------------------- *)

(** client outcome [tag; k]: 0 Ok | 1 FailBefore | 2 FailAfter | 3 ShortRead k | 4 ErrMidStream k *)
Definition dec_coutcome (x : sx) : coutcome :=
  let k := asN (nthx 1 x) in
  match asNat (nthx 0 x) with
  | 0 => Ok
  | 1 => FailBefore
  | 2 => FailAfter
  | 3 => ShortRead k
  | _ => ErrMidStream k
  end.

(** history step: [0; (txids)] local L0 set | [2; k] remote retention below k |
    [3; maxfiles; (schedule)] Replica.sync | [4; attempts; (schedule)] bounded retry of Replica.Sync |
    [5; t] a snapshot 1..t appears at level 9 *)
Definition dec_hstep (x : sx) : hstep :=
  match asNat (nthx 0 x) with
  | 0 => HLocal (asNs (nthx 1 x))
  | 2 => HRetain (asN (nthx 1 x))
  | 3 => HSync (asN (nthx 1 x)) (map dec_coutcome (asL (nthx 2 x)))
  | 5 => HSnap (asN (nthx 1 x))
  | _ => HRetry (asNat (nthx 1 x)) (map dec_coutcome (asL (nthx 2 x)))
  end.

(** per client call: [kind; txid; listing after; 0]  (the last component is the
    number of remote L0 files whose bytes differ from the local file of the same
    TXID as counted by the harness — the model stores exactly what it is given) *)
Definition sx_ccall (c : ccall) : sx :=
  SL [sxN (c_kind c); sxN (c_txid c); sxNs (c_after c); sxN 0].

(** input  [steps]      output [[err; pos; [calls]] per sync step] *)
Definition upload_run (x : sx) : sx :=
  let hs := map dec_hstep (asL (nthx 0 x)) in
  let '(_, obs) := hist_run u_init hs in
  SL (map (fun o => SL [sxN (h_err o); sxN (h_pos o); SL (map sx_ccall (h_trace o))]) obs).

(** The statement of [l0_gapless] / [no_false_ack] as a decidable test on the
    implementation's own observations, in order of occurrence:
      [0; (txids)]                 the local L0 set is now this
      [2; k; (listing)]            remote retention removed TXIDs < k; listing after
      [1; kind; txid; (listing); d] a client call returned; remote L0 listing after it,
                                   d = number of remote files differing from the local bytes
      [5; err; pos]                Replica.sync returned
    1 iff every listing is one contiguous run and holds only intact files, and at
    every nil return every local TXID at or above the retention floor is in the
    last listing and [pos] is at least the local max. *)
Fixpoint inv_ok_events (floor : N) (local last : list N) (evs : list sx) : bool :=
  match evs with
  | [] => true
  | e :: tl =>
      match asNat (nthx 0 e) with
      | 0 => inv_ok_events floor (asNs (nthx 1 e)) last tl
      | 2 =>
          let l := asNs (nthx 2 e) in
          contig_sorted l &&
          inv_ok_events (N.max floor (N.min (asN (nthx 1 e)) (maxl last))) local l tl
      | 1 =>
          let l := asNs (nthx 3 e) in
          contig_sorted l && N.eqb (asN (nthx 4 e)) 0 && inv_ok_events floor local l tl
      | _ =>
          let err := asN (nthx 1 e) in
          let pos := asN (nthx 2 e) in
          (if N.eqb err 0
           then N.leb (maxl local) pos && acked_stored floor pos local last
           else true) && inv_ok_events floor local last tl
      end
  end.

Definition upload_inv_ok (x : sx) : sx := sxB (inv_ok_events 1 [] [] (asL (nthx 0 x))).

(** ---- restore output discipline ------------------------------------------- *)

(** input [pre_exists; class; out_exists; tmp_exists; same; unchanged; side_files; cancelled]
    as observed after the real Restore returned (class 0 nil, 1 error, 7 panic);
    [same]: the output equals the image the (checksum-valid) replica decodes to;
    [cancelled]: the caller's context was cancelled before the call *)
Definition restore_disc_ok (x : sx) : sx :=
  sxB (obs_ok (asB (nthx 0 x)) (asB (nthx 7 x)) (asN (nthx 1 x)) (asB (nthx 2 x)) (asB (nthx 3 x))
              (asB (nthx 4 x)) (asB (nthx 5 x)) (asB (nthx 6 x))).

(** The file-system operations of Restore in the order they occur in the SOURCE
    (extracted textually by lib/props/c10.py from func (r *Replica) Restore;
    deferred calls moved to the end), replayed on the tiny file system of
    Restore.v.
    op codes: 0 StatOut | 1 CreateTmp | 2 WriteTmp complete | 3 FsyncTmp | 4 CloseTmp |
              5 RenameTmpOut | 6 FsyncDir | 7 RemoveOut | 8 RemoveShm | 9 RemoveWal |
              10 RemoveTmp | 11 OpenOutForWrite | 12 WriteTmp partial
    input [mode; ops]  mode 0: the success path -> no breach, output = the image, no temp file;
                       mode 1: the failed-integrity-check path -> no breach, no output, no temp, no -wal/-shm *)
Definition dec_fsop (x : sx) : fsop :=
  match asNat x with
  | 0 => StatOut | 1 => CreateTmp | 2 => WriteTmp true | 3 => FsyncTmp | 4 => CloseTmp
  | 5 => RenameTmpOut | 6 => FsyncDir | 7 => RemoveOut | 8 => RemoveShm | 9 => RemoveWal
  | 10 => RemoveTmp | 11 => OpenOutForWrite | _ => WriteTmp false
  end.

Definition restore_ops_ok (x : sx) : sx :=
  let mode := asNat (nthx 0 x) in
  let fsf := fs_run (fs_init false) (map dec_fsop (asL (nthx 1 x))) in
  let tmp_absent := match f_tmp fsf with TAbsent => true | _ => false end in
  sxB (negb (f_bad fsf) && tmp_absent &&
       match mode with
       | 0 => match f_out fsf with Some true => true | _ => false end
       | _ => match f_out fsf with None => negb (f_side fsf) | _ => false end
       end).

(** ---- compaction pipe under faults ------------------------------------------ *)

(** input  [[[min; max; size; open_fail; (schedule)] per source]; write outcome; existed_before; [cached?; cmin; cmax]]
    output [class; an object with the destination name exists afterwards; [cached?; cmin; cmax]]
    class 0 nil | 1 error | 2 ErrNoCompaction.  Source contents are [0..size-1]; the
    model reads each source in one buffer of the largest size. *)
Definition compact_run (x : sx) : sx :=
  let raw := asL (nthx 0 x) in
  let srcs := map (fun r => mkCS (asN (nthx 0 r)) (asN (nthx 1 r)) (asB (nthx 3 r))
                                 (map dec_outcome (asL (nthx 4 r)))) raw in
  let size_of (s : csrc) : nat :=
    fold_right (fun r a => if N.eqb (asN (nthx 0 r)) (cs_min s) && N.eqb (asN (nthx 1 r)) (cs_max s)
                           then asNat (nthx 2 r) else a) 0 raw in
  let stored (s : csrc) : list nat := seq 0 (size_of s) in
  let chunk := fold_right (fun r a => Nat.max (asNat (nthx 2 r)) a) 0 raw in
  let mergex (bs : list (list nat)) := concat bs in
  let mn := span_min srcs in
  let mx := span_max srcs in
  let c0 := nthx 3 x in
  let st0 := mkCSt (if asB (nthx 2 x) then [mkCF mn mx (mergex (map stored srcs))] else [])
                   (if asB (nthx 0 c0) then Some (asN (nthx 1 c0), asN (nthx 2 c0)) else None) in
  let '(r, st1) := compact mergex (fun _ => true) (fun _ => []) stored chunk srcs
                           (dec_coutcome (nthx 1 x)) st0 in
  SL [sxN (match r with COk => 0 | CNoCompaction => 2 | _ => 1 end)%N;
      sxB (existsb (fun f => N.eqb (cf_min f) mn && N.eqb (cf_max f) mx) (c_dst st1));
      match c_cache st1 with
      | Some (a, b) => SL [sxN 1; sxN a; sxN b]
      | None => SL [sxN 0; sxN 0; sxN 0]
      end].

(** [compact_no_partial_publish] and "restorable throughout" as a decidable test
    on what the harness observed around one real Compact call:
    input [class; exists; intact; cache_is_name; cache_changed; fail_after; created; contiguous; restore_ok]
      class      0 nil | 1 error | 2 ErrNoCompaction
      exists     an object with the destination name exists after the call
      intact     every object at the destination level passes ltx verification and equals the
                 independent merge of the archived L0 files of its TXID range
      cache_is_name   the max-LTX cache of the level names exactly that object
      cache_changed   the cache differs from its value before the call
      fail_after the injected write outcome was "took effect, then failed"
      created    the object did not exist before the call and does afterwards
      contiguous every level is gap-free
      restore_ok Restore(latest) succeeded and equals the source image *)
Definition compact_inv_ok (x : sx) : sx :=
  let class := asN (nthx 0 x) in
  let ex := asB (nthx 1 x) in
  let intact := asB (nthx 2 x) in
  let cache_is := asB (nthx 3 x) in
  let cache_chg := asB (nthx 4 x) in
  let fa := asB (nthx 5 x) in
  let created := asB (nthx 6 x) in
  sxB (intact && asB (nthx 7 x) && asB (nthx 8 x) &&
       (if N.eqb class 0 then ex && cache_is
        else if N.eqb class 2 then negb created   (* ErrNoCompaction: nothing written; the cache may learn the listing *)
        else negb cache_chg && (negb created || fa))).

(** ---- (re)open of a database that may be behind its replica ----------------- *)

(** input  [local L0 at open; remote L0; [[schedule; local L0 after db.Sync] per SyncAndWait]; sized]
    sized = 1: the replica's listing reports object sizes (every shipped client); 0: Size 0 = no length check
    output [[class; Replica.Pos; [[kind; txid; remote listing after] per client call]] per SyncAndWait]
    class 0 nil | 1 error; kind 0 LTXFiles | 1 WriteLTXFile | 2 OpenLTXFile *)
Definition behind_run (x : sx) : sx :=
  let steps := map (fun st => (map dec_coutcome (asL (nthx 0 st)), asNs (nthx 1 st))) (asL (nthx 2 x)) in
  let '(_, obs) := sync_waits (asB (nthx 3 x)) (b_open (asNs (nthx 1 x)) (asNs (nthx 0 x))) steps in
  SL (map (fun o => SL [sxN (if N.eqb (so_err o) 0 then 0 else 1)%N; sxN (so_pos o);
                        SL (map (fun c => SL [sxN (c_kind c); sxN (c_txid c); sxNs (c_after c)]) (so_trace o))]) obs).

(** [ack_means_in_sync] as a test on the implementation's observations, one
    record per SyncAndWait: [class; local max; remote max; SyncStatus in sync;
    remote advanced if the source had changed; Restore(latest) = source image; remote L0 gapless] *)
Definition behind_inv_ok (x : sx) : sx :=
  sxB (forallb (fun e =>
         asB (nthx 6 e) &&
         (if N.eqb (asN (nthx 0 e)) 0
          then N.eqb (asN (nthx 1 e)) (asN (nthx 2 e)) && asB (nthx 3 e) && asB (nthx 4 e) && asB (nthx 5 e)
          else true)) (asL (nthx 0 x))).
