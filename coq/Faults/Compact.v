(** Model of the compaction pipe under faults: [Compactor.Compact]
    (/repo/compactor.go) from the point where the source files are known.

      for each source: f, err := client.OpenLTXFile(...)          -- error: return at once
                       rdrs = append(rdrs, NewResumableReader(..., info.Size, f, ...))
      pr, pw := io.Pipe()
      go func() { ...; _ = pw.CloseWithError(comp.Compact(ctx)) }()
      info, err := c.client.WriteLTXFile(ctx, dstLevel, minTXID, maxTXID, pr)
      _ = pr.CloseWithError(err)
      if err != nil { return nil, err }
      c.CacheSetter(dstLevel, info)

    The pipe: the goroutine writes the merged stream; it ends the stream cleanly
    exactly when the ltx compactor returned nil (every source was read to EOF and
    verified), and with the error otherwise.  The storage writes objects
    atomically: it publishes the object only if it read the stream to a clean
    EOF.  Source reads go through the resumable-reader model under arbitrary
    schedules; the write call takes an arbitrary outcome. *)
From Coq Require Import List NArith Arith Bool Lia.
From LS Require Import Faults.Resumable Faults.Upload.
Import ListNotations.

Record csrc := mkCS {
  cs_min : N; cs_max : N;
  cs_open_fail : bool;             (* the initial OpenLTXFile of this source fails *)
  cs_sched : list outcome          (* outcomes of its stream / re-opens *)
}.

(** how the stream handed to WriteLTXFile ends *)
Inductive pipe_end := PClean | PError.

(** result classes of Compact *)
Inductive cres := COk | CErrOpen | CErrWrite | CNoCompaction.

Section Compact.
Context {B : Type}.
Variable merge : list (list B) -> list B.        (* ltx.Compactor: k-way merge of complete inputs *)
Variable verified : list B -> bool.              (* Decoder.Close of an input *)
Variable partial : list (option (list B)) -> list B.  (* whatever was written before a failure *)
Variable stored : csrc -> list B.                (* the source objects on the replica *)
Variable chunk : nat.

Record cfile := mkCF { cf_min : N; cf_max : N; cf_bytes : list B }.

Record cstate := mkCSt {
  c_dst : list cfile;               (* objects at the destination level *)
  c_cache : option (N * N)          (* cached max file of the destination level *)
}.

(** one source through its resumable reader, constructed with the open stream
    and [size = info.Size] (the listing is honest: the stored length) *)
Definition src_read (s : csrc) : option (list B) :=
  let b := stored s in
  rr_read_all b (length b) (S (length b) + length (cs_sched s) + 5) (S chunk) (rr_init true) (cs_sched s) [].

(** the goroutine: the compactor succeeds iff every source was read to EOF and
    verified; [pw.CloseWithError(err)]: clean end iff success *)
Definition producer (srcs : list csrc) : list B * pipe_end :=
  let reads := map src_read srcs in
  if forallb (fun r => match r with Some d => verified d | None => false end) reads
  then (merge (map (fun r => match r with Some d => d | None => [] end) reads), PClean)
  else (partial reads, PError).

(** [ReplicaClient.WriteLTXFile] on an atomic object store, consuming the pipe *)
Definition store_write (o : coutcome) (mn mx : N) (stream : list B * pipe_end) (dst : list cfile)
  : list cfile * bool :=
  let put := mkCF mn mx (fst stream) :: filter (fun f => negb (N.eqb (cf_min f) mn && N.eqb (cf_max f) mx)) dst in
  match o, snd stream with
  | Ok, PClean => (put, true)
  | FailAfter, PClean => (put, false)
  | _, _ => (dst, false)            (* the call failed before taking effect, or the stream ended with an error *)
  end.

Definition span_min (srcs : list csrc) : N := fold_right (fun s a => if N.eqb a 0 then cs_min s else N.min (cs_min s) a) 0%N srcs.
Definition span_max (srcs : list csrc) : N := fold_right (fun s a => N.max (cs_max s) a) 0%N srcs.

Definition compact (srcs : list csrc) (wo : coutcome) (st : cstate) : cres * cstate :=
  match srcs with
  | [] => (CNoCompaction, st)                                  (* if len(rdrs) == 0 { return nil, ErrNoCompaction } *)
  | _ =>
      if existsb cs_open_fail srcs then (CErrOpen, st)          (* return nil, fmt.Errorf("open ltx file: %w", err) *)
      else
        let mn := span_min srcs in
        let mx := span_max srcs in
        let '(dst', ok) := store_write wo mn mx (producer srcs) (c_dst st) in
        if ok then (COk, mkCSt dst' (Some (mn, mx)))            (* c.CacheSetter(dstLevel, info) *)
        else (CErrWrite, mkCSt dst' (c_cache st))               (* return nil, fmt.Errorf("write ltx file: %w", err) *)
  end.
End Compact.
