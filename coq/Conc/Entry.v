(** [sx -> sx] entry points of the Conc layer for the correspondence runner. *)
From Coq Require Import List NArith ZArith Bool.
From LS Require Import Base.Sx Conc.Locks Conc.Registry.
Import ListNotations.

Definition res_of (n : N) : res :=
  match n with 0%N => Exec | 1%N => ChkW | 2%N => Syncs | 3%N => StoreMu | _ => DbW end.
Definition rres_of (n : N) : rres := match n with 0%N => ChkR | _ => DbR end.

(** event codes written by the trace hook of the harness:
    1 acquire (blocking) | 2 try-acquire ok | 3 try-acquire failed | 4 release |
    5 read-lock | 6 read-unlock | 7 position captured | 8 checkpoint runs |
    9 blocking acquire abandoned (context done);  arg = resource code *)
Definition ev_of (code arg : N) : option ev :=
  match code with
  | 1%N => Some (EAcq (res_of arg))
  | 2%N => Some (ETryOk (res_of arg))
  | 3%N => Some (ETryFail (res_of arg))
  | 4%N => Some (ERel (res_of arg))
  | 5%N => Some (ERAcq (rres_of arg))
  | 6%N => Some (ERRel (rres_of arg))
  | 7%N => Some (EAct APos)
  | 8%N => Some (EAct ACkpt)
  | 9%N => Some (EAcqCancel (res_of arg))
  | _ => None
  end.

Fixpoint decode_trace (l : list sx) : option (list (nat * ev)) :=
  match l with
  | [] => Some []
  | x :: tl =>
      match ev_of (asN (nthx 1 x)) (asN (nthx 2 x)), decode_trace tl with
      | Some e, Some r => Some ((N.to_nat (asN (nthx 0 x)), e) :: r)
      | _, _ => None
      end
  end.

(** spec oracle: input [[gid; code; arg] ...] = the lock events of ONE database
    object (or of the store) in the order they were recorded; gids are small
    indices assigned by the harness.  Output 1 iff the monitor of [Locks.v]
    accepts the trace: mutual exclusion of every lock, chkMu write-locked only
    under the executor, chkMu read-locked only under the executor, and no
    checkpoint between a captured snapshot position and its read lock. *)
Definition conc_trace_ok (x : sx) : sx :=
  sxB match decode_trace (asL x) with
      | Some tr => trace_ok tr
      | None => false
      end.

(** diagnosis of the same input: [accepted-events; rule] (rule 0 = accepted, see [Locks.v]) *)
Definition conc_trace_diag (x : sx) : sx :=
  match decode_trace (asL x) with
  | Some tr => let d := mon_diag init_state 0 tr in SL [sxN (N.of_nat (fst d)); sxN (N.of_nat (snd d))]
  | None => SL [sxN 0; sxN 9]
  end.

(** the discipline check of the nine transcribed operations (constant input) *)
Definition conc_progs_checked (x : sx) : sx :=
  sxB (forallb (check h0 gh0) all_progs).

(** model entry for the registry: input [init; sched]
      init  = [[path inst] ...]                      the slice before the schedule
      sched = [[1 cid path inst] | [2 cid] | [3 path] ...]   micro-steps in the order they took effect
    output [[[path inst] ...]; [[cid outcome] ...]]  the final slice and the outcome of every
    RegisterDB call in the order the calls were decided (0 registered, 1 already, 2 duplicate) *)
Definition mstep_of (x : sx) : mstep :=
  match asN (nthx 0 x) with
  | 1%N => MFirst (N.to_nat (asN (nthx 1 x))) (N.to_nat (asN (nthx 2 x))) (N.to_nat (asN (nthx 3 x)))
  | 2%N => MSecond (N.to_nat (asN (nthx 1 x)))
  | _ => MUnreg (N.to_nat (asN (nthx 1 x)))
  end.
Definition sx_pair (e : nat * nat) : sx := SL [sxN (N.of_nat (fst e)); sxN (N.of_nat (snd e))].
Definition conc_register (x : sx) : sx :=
  let init := map (fun e => (N.to_nat (asN (nthx 0 e)), N.to_nat (asN (nthx 1 e)))) (asL (nthx 0 x)) in
  let s := rrun (map mstep_of (asL (nthx 1 x))) (rinit init) in
  SL [SL (map sx_pair (dbs s)); SL (map sx_pair (rev (outcomes s)))].
