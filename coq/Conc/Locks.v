(** C12 — the locking discipline of the daemon's operations as a labelled
    transition system.

    What is modelled: the acquire / release order of every operation over
      [Exec]    db.execSem   (semaphore.Weighted(1): TryAcquire, Acquire(ctx), Release)
      [ChkW]/[ChkR] db.chkMu (sync.RWMutex: TryLock by checkpoints only; RLock by
                              db.sync and by the snapshot hand-off)
      [Syncs]   Replica.syncSem (semaphore.Weighted(1))
      [StoreMu] Store.mu     (sync.Mutex)
      [DbW]/[DbR] db.mu      (sync.RWMutex)
    transcribed from db.go (Sync/syncOnce/lockExec 1223-1258, syncLocked 1260,
    newSyncExecutor 1930, applySyncExecutor 1951, sync 1998-2035,
    Checkpoint 2395, checkpointWithExecutor 2448-2465, execCheckpoint 2636,
    snapshotPosition 2722-2759, snapshotReader 2802, CRC64 3246, Close 818),
    replica.go (syncOnce 164, lockSync 236) and store.go (RegisterDB 290,
    UnregisterDB 346), error and early-return paths included ([Choice]).

    What is NOT modelled: Go data races (unsynchronised memory accesses), the
    leaf mutexes db.pos, db.maxLTXFileInfos, db.syncDiag, Replica.mu/muf
    (never held across another acquisition), writer preference of
    sync.RWMutex (chkMu is never write-locked blockingly; db.mu holders never
    block), loops (one thread = one pass of an operation; any number of
    threads), and the private locks of a duplicate DB object that RegisterDB
    closes.

    Threads are programs (finite trees); a system state is a global lock state
    plus a list of threads; thread ids are list positions.  Any number of
    threads. *)
From Coq Require Import List Arith Bool Lia.
Import ListNotations.

Inductive res := Exec | ChkW | Syncs | StoreMu | DbW.
Inductive rres := ChkR | DbR.
Definition wof (r : rres) : res := match r with ChkR => ChkW | DbR => DbW end.

Definition res_eqb (a b : res) : bool :=
  match a, b with
  | Exec, Exec | ChkW, ChkW | Syncs, Syncs | StoreMu, StoreMu | DbW, DbW => true
  | _, _ => false
  end.
Definition rres_eqb (a b : rres) : bool :=
  match a, b with ChkR, ChkR | DbR, DbR => true | _, _ => false end.

Inductive action :=
| APos            (* snapshotPosition: position captured (db.Pos, walEndOffset) *)
| ACkpt           (* PRAGMA wal_checkpoint runs (execCheckpoint) *)
| AInit           (* db.init: SQL handle, file descriptor, read transaction acquired *)
| ARtxRelease     (* releaseReadLock *)
| ARtxAcquire     (* acquireReadLock *)
| AHandlesNil     (* Close: db.db = nil; db.f = nil under db.mu *)
| AHandlesClose   (* Close: sqlDB.Close(); f.Close() *)
| ACloseDone      (* Close: about to release the executor and return *)
| ARegAppend      (* s.dbs = append(s.dbs, db) *)
| ARegRemove      (* s.dbs = slices.Delete(...) *)
| ARegReturnOk    (* RegisterDB returns nil with the path registered *)
| AOther.         (* work that touches none of the modelled state *)

Inductive prog :=
| Ret
| Acq (r : res) (k : prog)              (* blocking acquire, not cancellable *)
| AcqCtx (r : res) (k kc : prog)        (* Acquire(ctx): [kc] when ctx is done first *)
| TryAcq (r : res) (kok kfail : prog)   (* TryAcquire / TryLock *)
| Rel (r : res) (k : prog)
| RAcq (r : rres) (k : prog)            (* RLock *)
| RRel (r : rres) (k : prog)            (* RUnlock *)
| Act (a : action) (k : prog)
| Choice (k1 k2 : prog)                 (* error / early return / data-dependent branch *)
| IfReg (kfound knot : prog).           (* is the path in s.dbs ? *)

(** ** Global state *)
Record gstate := mkG {
  own : res -> option nat;     (* exclusive holder *)
  rd : rres -> list nat;       (* read holders *)
  rtx : bool;                  (* the long-running read transaction is open *)
  handles : bool;              (* SQL handle / file descriptor are open *)
  ndbs : nat;                  (* instances of the path in Store.dbs *)
  okret : nat;                 (* ghost: RegisterDB calls that returned nil *)
  window : option nat;         (* ghost: thread between APos and its chkMu.RLock *)
  viol : bool                  (* ghost: a checkpoint ran inside such a window *)
}.

Definition init_state : gstate :=
  mkG (fun _ => None) (fun _ => []) false false 0 0 None false.

Definition set_own (s : gstate) (r : res) (v : option nat) : gstate :=
  mkG (fun x => if res_eqb x r then v else own s x) (rd s) (rtx s) (handles s) (ndbs s) (okret s) (window s) (viol s).
Definition set_rd (s : gstate) (r : rres) (l : list nat) : gstate :=
  mkG (own s) (fun x => if rres_eqb x r then l else rd s x) (rtx s) (handles s) (ndbs s) (okret s) (window s) (viol s).
Definition set_window (s : gstate) (w : option nat) : gstate :=
  mkG (own s) (rd s) (rtx s) (handles s) (ndbs s) (okret s) w (viol s).

Definition isNone {A} (o : option A) : bool := match o with None => true | Some _ => false end.
Definition isNil {A} (l : list A) : bool := match l with [] => true | _ => false end.
Definition is_some_nat (o : option nat) (t : nat) : bool :=
  match o with Some u => Nat.eqb u t | None => false end.

Fixpoint remove1 (t : nat) (l : list nat) : list nat :=
  match l with
  | [] => []
  | x :: tl => if Nat.eqb x t then tl else x :: remove1 t tl
  end.
Fixpoint memb (t : nat) (l : list nat) : bool :=
  match l with [] => false | x :: tl => Nat.eqb x t || memb t tl end.

(** An exclusive acquisition succeeds when the resource is free; the write side
    of an RW lock additionally needs no reader. *)
Definition can_acq (s : gstate) (r : res) : bool :=
  isNone (own s r) &&
  match r with ChkW => isNil (rd s ChkR) | DbW => isNil (rd s DbR) | _ => true end.
Definition can_racq (s : gstate) (r : rres) : bool := isNone (own s (wof r)).

Definition clear_window (s : gstate) (t : nat) : gstate :=
  if is_some_nat (window s) t then set_window s None else s.

Definition do_act (s : gstate) (t : nat) (a : action) : gstate :=
  match a with
  | APos => set_window s (Some t)
  | ACkpt => mkG (own s) (rd s) (rtx s) (handles s) (ndbs s) (okret s) (window s)
                 (viol s || negb (isNone (window s)))
  | AInit => mkG (own s) (rd s) true true (ndbs s) (okret s) (window s) (viol s)
  | ARtxRelease => mkG (own s) (rd s) false (handles s) (ndbs s) (okret s) (window s) (viol s)
  | ARtxAcquire => mkG (own s) (rd s) true (handles s) (ndbs s) (okret s) (window s) (viol s)
  | AHandlesClose => mkG (own s) (rd s) (rtx s) false (ndbs s) (okret s) (window s) (viol s)
  | ARegAppend => mkG (own s) (rd s) (rtx s) (handles s) (S (ndbs s)) (okret s) (window s) (viol s)
  | ARegRemove => mkG (own s) (rd s) (rtx s) (handles s) (pred (ndbs s)) (okret s) (window s) (viol s)
  | ARegReturnOk => mkG (own s) (rd s) (rtx s) (handles s) (ndbs s) (S (okret s)) (window s) (viol s)
  | AHandlesNil | ACloseDone | AOther => s
  end.

(** ** Threads: a program plus ghost knowledge acquired on the path taken *)
Record ghost := mkGh {
  notreg : bool;   (* under the current hold of Store.mu the path was seen absent *)
  sawreg : bool;   (* this call saw the path registered, or registered it *)
  rtxOff : bool;   (* since acquiring the executor this thread released the read tx *)
  hOff : bool      (* ... and closed the handles *)
}.
Definition gh0 : ghost := mkGh false false false false.

Record thread := mkT { pg : prog; gh : ghost }.

Definition ghost_rel (g : ghost) (r : res) : ghost :=
  match r with
  | StoreMu => mkGh false (sawreg g) (rtxOff g) (hOff g)
  | Exec => mkGh (notreg g) (sawreg g) false false
  | _ => g
  end.
Definition ghost_act (g : ghost) (a : action) : ghost :=
  match a with
  | AInit => mkGh (notreg g) (sawreg g) false false
  | ARtxRelease => mkGh (notreg g) (sawreg g) true (hOff g)
  | ARtxAcquire => mkGh (notreg g) (sawreg g) false (hOff g)
  | AHandlesClose => mkGh (notreg g) (sawreg g) (rtxOff g) true
  | ARegAppend => mkGh false true (rtxOff g) (hOff g)
  | _ => g
  end.

(** ** Labels *)
Inductive ev :=
| EAcq (r : res) | EAcqCancel (r : res) | ETryOk (r : res) | ETryFail (r : res) | ERel (r : res)
| ERAcq (r : rres) | ERRel (r : rres) | EAct (a : action) | ETau | EReg (found : bool).

Definition is_cancel (e : ev) : bool := match e with EAcqCancel _ => true | _ => false end.

(** One step of thread [t]; [c] resolves internal choices ([Choice]: true = left;
    [AcqCtx]: true = wait for the resource, false = the context is done). *)
Definition tstep (s : gstate) (t : nat) (th : thread) (c : bool) : option (ev * gstate * thread) :=
  let g := gh th in
  match pg th with
  | Ret => None
  | Acq r k => if can_acq s r then Some (EAcq r, set_own s r (Some t), mkT k g) else None
  | AcqCtx r k kc =>
      if c then (if can_acq s r then Some (EAcq r, set_own s r (Some t), mkT k g) else None)
      else Some (EAcqCancel r, s, mkT kc g)
  | TryAcq r kok kfail =>
      if can_acq s r then Some (ETryOk r, set_own s r (Some t), mkT kok g)
      else Some (ETryFail r, s, mkT kfail g)
  | Rel r k =>
      let s1 := set_own s r None in
      let s2 := match r with Exec => clear_window s1 t | _ => s1 end in
      Some (ERel r, s2, mkT k (ghost_rel g r))
  | RAcq r k =>
      if can_racq s r then
        let s1 := set_rd s r (t :: rd s r) in
        let s2 := match r with ChkR => clear_window s1 t | DbR => s1 end in
        Some (ERAcq r, s2, mkT k g)
      else None
  | RRel r k => Some (ERRel r, set_rd s r (remove1 t (rd s r)), mkT k g)
  | Act a k => Some (EAct a, do_act s t a, mkT k (ghost_act g a))
  | Choice k1 k2 => Some (ETau, s, mkT (if c then k1 else k2) g)
  | IfReg kf kn =>
      if Nat.ltb 0 (ndbs s) then Some (EReg true, s, mkT kf (mkGh (notreg g) true (rtxOff g) (hOff g)))
      else Some (EReg false, s, mkT kn (mkGh true (sawreg g) (rtxOff g) (hOff g)))
  end.

Fixpoint set_nth {A} (n : nat) (x : A) (l : list A) : list A :=
  match l, n with
  | [], _ => []
  | _ :: tl, O => x :: tl
  | y :: tl, S n' => y :: set_nth n' x tl
  end.

Definition sys := (gstate * list thread)%type.

Inductive step : sys -> nat -> ev -> sys -> Prop :=
| step_intro : forall s ths t th c e s' th',
    nth_error ths t = Some th ->
    tstep s t th c = Some (e, s', th') ->
    step (s, ths) t e (s', set_nth t th' ths).

Inductive reach (S0 : sys) : sys -> Prop :=
| reach_refl : reach S0 S0
| reach_step : forall S1 t e S2, reach S0 S1 -> step S1 t e S2 -> reach S0 S2.

Definition final (S : sys) : Prop := forall th, In th (snd S) -> pg th = Ret.

(** ** The operations, transcribed *)
Definition lock_exec (k kerr : prog) : prog := TryAcq Exec k (AcqCtx Exec k kerr).
Definition maybe (f : prog -> prog) (k : prog) : prog := Choice (f k) k.

(** newSyncExecutor: db.mu.Lock; init (may initialise, may leave the state alone:
    already initialised / no file, or fail half-way and undo); Pos; Unlock *)
Definition nse (kok kfail : prog) : prog :=
  Acq DbW (Choice (Act AInit (Rel DbW (Choice kok kfail)))
          (Choice (Rel DbW (Choice kok kfail))
                  (Act ARtxRelease (Act AHandlesClose (Rel DbW kfail))))).
(** applySyncExecutor: db.mu.Lock; publish; Unlock *)
Definition apply_exec (k : prog) : prog := Acq DbW (Rel DbW k).
(** verifyAndSyncWithExecutor(checkpointing=false): verify may fail before
    db.sync; db.sync holds chkMu.RLock until it returns (deferred) *)
Definition dbsync (k : prog) : prog := Choice (RAcq ChkR (RRel ChkR k)) k.
(** checkpointWithExecutor: TryLock or skip; copy-before (no RLock: checkpointing);
    execCheckpoint releases the read tx, runs the PRAGMA, re-acquires (the deferred
    re-acquire runs on every path and may itself fail); Unlock (deferred) *)
Definition ckpt (k : prog) : prog :=
  TryAcq ChkW
    (Choice (Rel ChkW k)
       (Act ARtxRelease
          (Choice (Act ACkpt (Choice (Act ARtxAcquire (Rel ChkW k)) (Rel ChkW k)))
                  (Choice (Act ARtxAcquire (Rel ChkW k)) (Rel ChkW k)))))
    k.
(** syncLocked: newSyncExecutor; (ensureWAL) ; verify+sync; checkpointIfNeeded
    (PASSIVE then possibly TRUNCATE); deferred applySyncExecutor *)
Definition sync_locked (k : prog) : prog :=
  nse (dbsync (maybe ckpt (maybe ckpt (apply_exec k)))) k.

Definition p_sync : prog := lock_exec (sync_locked (Rel Exec Ret)) Ret.
Definition p_checkpoint : prog :=
  lock_exec (nse (ckpt (apply_exec (Rel Exec Ret))) (Rel Exec Ret)) Ret.
(** CRC64 = executor; newSyncExecutor; RESTART checkpoint; read the file; apply *)
Definition p_crc64 : prog :=
  lock_exec (nse (ckpt (Act AOther (apply_exec (Rel Exec Ret)))) (Rel Exec Ret)) Ret.
(** snapshotPosition -> snapshotReader: PageSize (db.mu.RLock), position, early
    returns, chkMu.RLock while the executor is still held, executor released on
    return, the reader (another goroutine) or the error path RUnlocks *)
Definition p_snapshot : prog :=
  lock_exec
    (RAcq DbR (RRel DbR (Act APos
       (Choice (Rel Exec Ret)
               (RAcq ChkR (Rel Exec (Choice (RRel ChkR Ret) (Act AOther (RRel ChkR Ret)))))))))
    Ret.
(** Replica.syncOnce *)
Definition replica_sync (k kerr : prog) : prog :=
  TryAcq Syncs (Rel Syncs k) (AcqCtx Syncs (Rel Syncs k) kerr).
Definition p_replica_sync : prog := replica_sync Ret Ret.
(** DB.Close: executor acquired with context.WithoutCancel; final sync if
    initialised; replica sync with retry (two attempts modelled; lock waits honour
    the caller's context); release read lock; clear fields under db.mu; close *)
Definition close_k (k : prog) : prog :=
  Acq Exec
    (maybe sync_locked
       (maybe (fun k => replica_sync k (maybe (fun k => replica_sync k k) k))
          (Act ARtxRelease (Acq DbW (Act AHandlesNil (Rel DbW
             (Act AHandlesClose (Act ACloseDone (Rel Exec k))))))))).
Definition p_close : prog := close_k Ret.
(** Store.RegisterDB: first check; Open (db.mu twice) may fail; second check under
    a fresh hold of Store.mu; a duplicate is closed (its locks are private to that
    object: [AOther]); startHeartbeatMonitorIfNeeded takes Store.mu again *)
Definition p_register : prog :=
  Acq StoreMu
    (IfReg (Rel StoreMu (Act ARegReturnOk Ret))
       (Rel StoreMu
          (Choice Ret
             (Acq DbW (Rel DbW (Acq DbW (Rel DbW
                (Acq StoreMu
                   (IfReg (Rel StoreMu (Act AOther (Act ARegReturnOk Ret)))
                      (Act ARegAppend (Rel StoreMu
                         (Acq StoreMu (Rel StoreMu (Act ARegReturnOk Ret)))))))))))))).
(** Store.UnregisterDB: remove under Store.mu, then Close without it *)
Definition p_unregister : prog :=
  Acq StoreMu (IfReg (Act ARegRemove (Rel StoreMu (close_k Ret))) (Rel StoreMu Ret)).
(** status queries: IsOpen / PageSize / Notify (db.mu.RLock), DBs / FindDB (Store.mu) *)
Definition p_status : prog := RAcq DbR (RRel DbR (Acq StoreMu (Rel StoreMu Ret))).

Definition all_progs : list prog :=
  [p_sync; p_checkpoint; p_crc64; p_snapshot; p_replica_sync; p_close; p_register; p_unregister; p_status].

(** ** The discipline, as a symbolic check of one program

    [held] is what the thread holds; the check walks the program tree. *)
Record held := mkH {
  hExec : bool; hChkW : bool; hSyncs : bool; hStore : bool; hDbW : bool;
  hChkR : bool; hDbR : bool; inWin : bool
}.
Definition h0 : held := mkH false false false false false false false false.

Definition hget (h : held) (r : res) : bool :=
  match r with Exec => hExec h | ChkW => hChkW h | Syncs => hSyncs h | StoreMu => hStore h | DbW => hDbW h end.
Definition hset (h : held) (r : res) (b : bool) : held :=
  match r with
  | Exec => mkH b (hChkW h) (hSyncs h) (hStore h) (hDbW h) (hChkR h) (hDbR h) (if b then inWin h else false)
  | ChkW => mkH (hExec h) b (hSyncs h) (hStore h) (hDbW h) (hChkR h) (hDbR h) (inWin h)
  | Syncs => mkH (hExec h) (hChkW h) b (hStore h) (hDbW h) (hChkR h) (hDbR h) (inWin h)
  | StoreMu => mkH (hExec h) (hChkW h) (hSyncs h) b (hDbW h) (hChkR h) (hDbR h) (inWin h)
  | DbW => mkH (hExec h) (hChkW h) (hSyncs h) (hStore h) b (hChkR h) (hDbR h) (inWin h)
  end.
Definition hrget (h : held) (r : rres) : bool := match r with ChkR => hChkR h | DbR => hDbR h end.
Definition hrset (h : held) (r : rres) (b : bool) : held :=
  match r with
  | ChkR => mkH (hExec h) (hChkW h) (hSyncs h) (hStore h) (hDbW h) b (hDbR h) (if b then false else inWin h)
  | DbR => mkH (hExec h) (hChkW h) (hSyncs h) (hStore h) (hDbW h) (hChkR h) b (inWin h)
  end.

(** nothing but (possibly) the executor is held *)
Definition only_exec (h : held) : bool :=
  negb (hChkW h) && negb (hSyncs h) && negb (hStore h) && negb (hDbW h) && negb (hChkR h) && negb (hDbR h).
Definition nothing (h : held) : bool := negb (hExec h) && only_exec h.

(** blocking acquisitions respect the order: the executor and Store.mu are taken
    holding nothing; syncSem, db.mu and the read side of chkMu are taken holding
    at most the executor; chkMu is never write-locked blockingly *)
Definition acq_ok (h : held) (r : res) : bool :=
  match r with
  | Exec | StoreMu => nothing h
  | Syncs | DbW => only_exec h
  | ChkW => false
  end.
Definition try_ok (h : held) (r : res) : bool :=
  negb (hget h r) &&
  match r with
  | ChkW => hExec h && negb (hChkR h)      (* checkpoints lock chkMu under the executor *)
  | _ => true
  end.
Definition racq_ok (h : held) (r : rres) : bool :=
  only_exec h && match r with ChkR => hExec h | DbR => true end.
Definition rel_ok (h : held) (r : res) : bool :=
  hget h r && match r with Exec => negb (hChkW h) | _ => true end.
Definition act_ok (h : held) (g : ghost) (a : action) : bool :=
  match a with
  | APos => hExec h
  | ACkpt => hChkW h && negb (inWin h)
  | AInit | ARtxRelease | ARtxAcquire | AHandlesClose => hExec h
  | AHandlesNil => hDbW h
  | ACloseDone => hExec h && rtxOff g && hOff g
  | ARegAppend => hStore h && notreg g
  | ARegRemove => hStore h
  | ARegReturnOk => sawreg g
  | AOther => true
  end.
Definition hact (h : held) (a : action) : held :=
  match a with
  | APos => mkH (hExec h) (hChkW h) (hSyncs h) (hStore h) (hDbW h) (hChkR h) (hDbR h) true
  | _ => h
  end.

Fixpoint check (h : held) (g : ghost) (p : prog) : bool :=
  match p with
  | Ret => nothing h
  | Acq r k => acq_ok h r && check (hset h r true) g k
  | AcqCtx r k kc => acq_ok h r && check (hset h r true) g k && check h g kc
  | TryAcq r kok kf => try_ok h r && check (hset h r true) g kok && check h g kf
  | Rel r k => rel_ok h r && check (hset h r false) (ghost_rel g r) k
  | RAcq r k => racq_ok h r && check (hrset h r true) g k
  | RRel r k => hrget h r && check (hrset h r false) g k
  | Act a k => act_ok h g a && check (hact h a) (ghost_act g a) k
  | Choice k1 k2 => check h g k1 && check h g k2
  | IfReg kf kn =>
      hStore h && check h (mkGh (notreg g) true (rtxOff g) (hOff g)) kf
               && check h (mkGh true (sawreg g) (rtxOff g) (hOff g)) kn
  end.

(** every path of [p] to [Ret] performs action [a] *)
Definition action_eqb (a b : action) : bool :=
  match a, b with
  | APos, APos | ACkpt, ACkpt | AInit, AInit | ARtxRelease, ARtxRelease | ARtxAcquire, ARtxAcquire
  | AHandlesNil, AHandlesNil | AHandlesClose, AHandlesClose | ACloseDone, ACloseDone
  | ARegAppend, ARegAppend | ARegRemove, ARegRemove | ARegReturnOk, ARegReturnOk | AOther, AOther => true
  | _, _ => false
  end.
Fixpoint always_does (a : action) (p : prog) : bool :=
  match p with
  | Ret => false
  | Acq _ k | Rel _ k | RAcq _ k | RRel _ k => always_does a k
  | AcqCtx _ k kc => always_does a k && always_does a kc
  | TryAcq _ k1 k2 | Choice k1 k2 | IfReg k1 k2 => always_does a k1 && always_does a k2
  | Act b k => action_eqb a b || always_does a k
  end.

(** no path removes a registration (the system only registers) *)
Fixpoint no_remove (p : prog) : bool :=
  match p with
  | Ret => true
  | Acq _ k | Rel _ k | RAcq _ k | RRel _ k => no_remove k
  | AcqCtx _ k1 k2 | TryAcq _ k1 k2 | Choice k1 k2 | IfReg k1 k2 => no_remove k1 && no_remove k2
  | Act a k => negb (action_eqb a ARegRemove) && no_remove k
  end.

(** the thread is inside an executor section: on some path the next executor
    instruction is the release *)
Fixpoint in_exec_section (p : prog) : bool :=
  match p with
  | Ret => false
  | Rel Exec _ => true
  | Acq Exec _ | AcqCtx Exec _ _ | TryAcq Exec _ _ => false
  | Acq _ k | Rel _ k | RAcq _ k | RRel _ k | Act _ k => in_exec_section k
  | AcqCtx _ k1 k2 | TryAcq _ k1 k2 | Choice k1 k2 | IfReg k1 k2 => in_exec_section k1 || in_exec_section k2
  end.

(** what thread [t] holds in global state [s] *)
Definition held_of (s : gstate) (t : nat) : held :=
  mkH (is_some_nat (own s Exec) t) (is_some_nat (own s ChkW) t) (is_some_nat (own s Syncs) t)
      (is_some_nat (own s StoreMu) t) (is_some_nat (own s DbW) t)
      (memb t (rd s ChkR)) (memb t (rd s DbR)) (is_some_nat (window s) t).

(** ** A monitor for observed lock events (trace conformance)

    The monitor replays a trace of (goroutine, event) pairs on the global lock
    state and applies, for the acting goroutine [t], exactly the guards that
    [check] imposes on a program — evaluated on what [t] really holds
    ([held_of]).  The rules, by number (reported by [mon_why]):
      1 mutual exclusion: an exclusive acquisition of a held lock, a write lock
        with readers, a read lock with a writer;
      2 a release by a goroutine that does not hold the lock / an RUnlock with
        no reader;
      3 chkMu write-locked blockingly, or try-locked outside the executor (or
        while the same goroutine read-holds it);
      4 chkMu read-locked outside the executor;
      5 the hand-off: a position captured outside the executor, a checkpoint
        that runs without chkMu or while a snapshot sits between its position
        capture and its read lock;
      6 lock order: the executor or Store.mu acquired blockingly while holding
        anything; syncSem, db.mu or a read lock acquired while holding anything
        but the executor;
      7 the executor released while chkMu is still write-held (the checkpoint
        section must lie inside the executor section);
      8 (whole trace) something is still held at the end.
    Failed try-acquisitions and abandoned waits are accepted without a test: the
    hook records a release just BEFORE it happens, so the trace cannot witness
    that the lock was still held.  A snapshot's RUnlock is issued by the
    streaming goroutine; the hook attributes it to the goroutine that took the
    RLock, and an RUnlock by a non-reader releases some reader's hold. *)
Definition rel_state (s : gstate) (r : res) (t : nat) : gstate :=
  match r with Exec => clear_window (set_own s r None) t | _ => set_own s r None end.
Definition racq_state (s : gstate) (r : rres) (t : nat) : gstate :=
  match r with
  | ChkR => clear_window (set_rd s r (t :: rd s r)) t
  | DbR => set_rd s r (t :: rd s r)
  end.

(** the part of [act_ok] that speaks about locks only *)
Definition act_ok_locks (h : held) (a : action) : bool :=
  match a with
  | APos => hExec h
  | ACkpt => hChkW h && negb (inWin h)
  | AInit | ARtxRelease | ARtxAcquire | AHandlesClose | ACloseDone => hExec h
  | AHandlesNil => hDbW h
  | ARegAppend | ARegRemove => hStore h
  | ARegReturnOk | AOther => true
  end.

Definition mon_step (s : gstate) (t : nat) (e : ev) : option gstate :=
  let h := held_of s t in
  match e with
  | EAcq r => if can_acq s r && acq_ok h r then Some (set_own s r (Some t)) else None
  | ETryOk r => if can_acq s r && try_ok h r then Some (set_own s r (Some t)) else None
  | ETryFail _ | EAcqCancel _ | ETau | EReg _ => Some s
  | ERel r => if rel_ok h r then Some (rel_state s r t) else None
  | ERAcq r => if can_racq s r && racq_ok h r then Some (racq_state s r t) else None
  | ERRel r =>
      match rd s r with
      | [] => None
      | x :: tl => Some (set_rd s r (if memb t (rd s r) then remove1 t (rd s r) else tl))
      end
  | EAct a => if act_ok_locks h a then Some (do_act s t a) else None
  end.

(** which rule rejected the event (only meaningful when [mon_step] is [None]) *)
Definition mon_why (s : gstate) (t : nat) (e : ev) : nat :=
  let h := held_of s t in
  match e with
  | EAcq ChkW => 3
  | EAcq r => if can_acq s r then 6 else 1
  | ETryOk r => if can_acq s r then 3 else 1
  | ERel r => if hget h r then 7 else 2
  | ERAcq r => if can_racq s r then (if only_exec h then 4 else 6) else 1
  | ERRel _ => 2
  | EAct _ => 5
  | _ => 0
  end.

Definition idle (s : gstate) : bool :=
  isNone (own s Exec) && isNone (own s ChkW) && isNone (own s Syncs) && isNone (own s StoreMu) &&
  isNone (own s DbW) && isNil (rd s ChkR) && isNil (rd s DbR).

Fixpoint mon_run (s : gstate) (tr : list (nat * ev)) : option gstate :=
  match tr with
  | [] => Some s
  | (t, e) :: tl => match mon_step s t e with Some s' => mon_run s' tl | None => None end
  end.

(** complete traces (recorded from an idle system until it is idle again) *)
Definition trace_ok (tr : list (nat * ev)) : bool :=
  match mon_run init_state tr with Some s => negb (viol s) && idle s | None => false end.

(** diagnosis: (number of events accepted, rule); rule 0 = whole trace accepted *)
Fixpoint mon_diag (s : gstate) (k : nat) (tr : list (nat * ev)) : nat * nat :=
  match tr with
  | [] => (k, if idle s then 0 else 8)
  | (t, e) :: tl =>
      match mon_step s t e with
      | Some s' => mon_diag s' (S k) tl
      | None => (k, mon_why s t e)
      end
  end.
