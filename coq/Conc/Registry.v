(** C12 — the store's registry as an explicit slice of (path, instance).

    Store.dbs is a Go slice; RegisterDB (store.go:290) is
      first check (scan the WHOLE slice under Store.mu; found -> return nil)
      / Open the new instance without the lock
      / second check (scan the WHOLE slice again under a fresh hold of Store.mu;
        found -> close the new instance, return nil) / append,
    UnregisterDB (store.go:346) finds the first entry of the path, removes it with
    slices.Delete (everything behind it shifts down by one) and closes it.
    Each micro-step is atomic because it runs under Store.mu (Conc/Locks.v proves
    the bracketing); the interleaving of micro-steps of different calls — on the
    same and on different paths — is arbitrary. *)
From Coq Require Import List Arith Bool Lia.
Import ListNotations.

Definition entry := (nat * nat)%type.            (* path, instance *)

Inductive mstep :=
| MFirst (cid path inst : nat)    (* RegisterDB: first check of call [cid] *)
| MSecond (cid : nat)             (* RegisterDB: second check + append of call [cid] *)
| MUnreg (path : nat).            (* UnregisterDB(path), whole call *)

(** outcomes: 0 registered | 1 already registered (first check) | 2 duplicate (second check; instance closed) *)
Record rstate := mkR {
  dbs : list entry;
  pending : list (nat * entry);    (* calls between their two checks *)
  outcomes : list (nat * nat);     (* (call, outcome), most recent first *)
  closed : list nat                (* instances that were closed *)
}.

Fixpoint has_path (p : nat) (l : list entry) : bool :=
  match l with [] => false | (q, _) :: tl => Nat.eqb q p || has_path p tl end.

(** slices.Delete at the first index holding the path *)
Fixpoint del_path (p : nat) (l : list entry) : option (nat * list entry) :=
  match l with
  | [] => None
  | (q, i) :: tl =>
      if Nat.eqb q p then Some (i, tl)
      else match del_path p tl with
           | Some (j, tl') => Some (j, (q, i) :: tl')
           | None => None
           end
  end.

Fixpoint take_pending (c : nat) (l : list (nat * entry)) : option (entry * list (nat * entry)) :=
  match l with
  | [] => None
  | (d, e) :: tl =>
      if Nat.eqb d c then Some (e, tl)
      else match take_pending c tl with
           | Some (e', tl') => Some (e', (d, e) :: tl')
           | None => None
           end
  end.

Definition rstep (s : rstate) (m : mstep) : rstate :=
  match m with
  | MFirst c p i =>
      if has_path p (dbs s) then mkR (dbs s) (pending s) ((c, 1) :: outcomes s) (closed s)
      else mkR (dbs s) ((c, (p, i)) :: pending s) (outcomes s) (closed s)
  | MSecond c =>
      match take_pending c (pending s) with
      | None => s
      | Some ((p, i), rest) =>
          if has_path p (dbs s) then mkR (dbs s) rest ((c, 2) :: outcomes s) (i :: closed s)
          else mkR (dbs s ++ [(p, i)]) rest ((c, 0) :: outcomes s) (closed s)
      end
  | MUnreg p =>
      match del_path p (dbs s) with
      | Some (i, l') => mkR l' (pending s) (outcomes s) (i :: closed s)
      | None => s
      end
  end.

Definition rrun (sched : list mstep) (s : rstate) : rstate := fold_left rstep sched s.

Definition rinit (l : list entry) : rstate := mkR l [] [] [].

(** * register_once over the explicit slice *)
Lemma has_path_In p l : has_path p l = true <-> In p (map fst l).
Proof.
  induction l as [|[q i] tl IH]; simpl; [split; [discriminate|tauto]|].
  rewrite orb_true_iff, Nat.eqb_eq, IH. tauto.
Qed.

Lemma del_path_sub p l : forall i l', del_path p l = Some (i, l') ->
  (forall q, In q (map fst l') -> In q (map fst l)) /\ (NoDup (map fst l) -> NoDup (map fst l')).
Proof.
  induction l as [|[q j] tl IH]; intros i l' H; simpl in H; [discriminate|].
  destruct (Nat.eqb q p).
  - inversion H; subst. split.
    + intros x Hx. simpl. right. assumption.
    + intro N. simpl in N. inversion N; assumption.
  - destruct (del_path p tl) as [[k tl']|] eqn:E; [|discriminate]. inversion H; subst.
    destruct (IH _ _ eq_refl) as [A B]. split.
    + intros x Hx. simpl in Hx. simpl. destruct Hx as [Hx|Hx]; [left; assumption | right; apply A; assumption].
    + intro N. simpl in N. inversion N as [|y ys Hy Hys]; subst. simpl. constructor; [|apply B; assumption].
      intro Hin. apply Hy. apply A. assumption.
Qed.

Lemma nodup_snoc (l : list entry) p i :
  NoDup (map fst l) -> ~ In p (map fst l) -> NoDup (map fst (l ++ [(p, i)])).
Proof.
  induction l as [|[q j] tl IH]; intros N Hn; simpl in *.
  - constructor; [tauto | constructor].
  - inversion N as [|y ys Hy Hys]; subst. constructor.
    + rewrite map_app, in_app_iff. simpl. intros [H|[H|[]]]; [tauto | subst; tauto].
    + apply IH; [assumption | tauto].
Qed.

Lemma rstep_nodup s m : NoDup (map fst (dbs s)) -> NoDup (map fst (dbs (rstep s m))).
Proof.
  intro N. destruct m as [c p i|c|p]; simpl.
  - destruct (has_path p (dbs s)); assumption.
  - destruct (take_pending c (pending s)) as [[[p i] rest]|]; [|assumption].
    destruct (has_path p (dbs s)) eqn:E; simpl; [assumption|].
    apply nodup_snoc; [assumption|]. intro H. apply has_path_In in H. congruence.
  - destruct (del_path p (dbs s)) as [[i l']|] eqn:E; [|assumption]. simpl.
    apply (proj2 (del_path_sub _ _ _ _ E)). assumption.
Qed.

(** For ANY interleaving of the micro-steps of any number of RegisterDB calls on
    any paths with any number of UnregisterDB calls (of the same or of other
    paths), the store never manages two instances of one path. *)
Theorem register_once_slice_thm : forall sched l,
  NoDup (map fst l) -> NoDup (map fst (dbs (rrun sched (rinit l)))).
Proof.
  intros sched l N. unfold rrun. change l with (dbs (rinit l)) in N.
  revert N. generalize (rinit l). induction sched as [|m tl IH]; intros s N; simpl; [assumption|].
  apply IH. apply rstep_nodup. assumption.
Qed.

(** what the outcome of a RegisterDB call means at the moment it is decided *)
Theorem register_outcome_sound_thm : forall s c,
  match take_pending c (pending s) with
  | Some ((p, i), _) =>
      let s' := rstep s (MSecond c) in
      (has_path p (dbs s) = true -> dbs s' = dbs s /\ In i (closed s') /\ outcomes s' = (c, 2) :: outcomes s) /\
      (has_path p (dbs s) = false -> In (p, i) (dbs s') /\ outcomes s' = (c, 0) :: outcomes s)
  | None => rstep s (MSecond c) = s
  end.
Proof.
  intros s c. simpl. destruct (take_pending c (pending s)) as [[[p i] rest]|]; [|reflexivity].
  split; intro H; rewrite H; simpl.
  - repeat split. left. reflexivity.
  - split; [apply in_or_app; right; left; reflexivity | reflexivity].
Qed.

(** A registered by call 2 behind B while call 1 (also A) sits between its checks; B is
    unregistered (A shifts down to index 0); call 1's second check must still see it *)
Example explicit_schedule :
  dbs (rrun [MFirst 1 1 100; MFirst 2 1 200; MSecond 2; MUnreg 0; MSecond 1] (rinit [(0, 7)])) = [(1, 200)] /\
  outcomes (rrun [MFirst 1 1 100; MFirst 2 1 200; MSecond 2; MUnreg 0; MSecond 1] (rinit [(0, 7)])) = [(1, 2); (2, 0)].
Proof. vm_compute. split; reflexivity. Qed.
