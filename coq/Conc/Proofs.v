(** C12 — theorems about the lock protocol of [Conc/Locks.v].  Everything is
    by invariant over the reachable states of a system with ANY number of
    threads whose programs pass the symbolic discipline [check] (the nine
    transcribed operations do: [all_progs_checked], a finite computation). *)
From Coq Require Import List Arith Bool Lia.
From LS Require Import Conc.Locks.
Import ListNotations.

(** * Basics *)
Lemma res_eqb_refl r : res_eqb r r = true. Proof. destruct r; reflexivity. Qed.
Lemma res_eqb_eq a b : res_eqb a b = true <-> a = b.
Proof. destruct a, b; simpl; split; intro H; try reflexivity; try discriminate. Qed.
Lemma res_eqb_neq a b : res_eqb a b = false <-> a <> b.
Proof. destruct a, b; simpl; split; intro H; try reflexivity; try discriminate; try congruence; exfalso; apply H; reflexivity. Qed.
Lemma rres_eqb_refl r : rres_eqb r r = true. Proof. destruct r; reflexivity. Qed.

Lemma is_some_nat_true o t : is_some_nat o t = true <-> o = Some t.
Proof.
  destruct o as [u|]; simpl; split; intro H; try discriminate.
  - apply Nat.eqb_eq in H; subst; reflexivity.
  - inversion H; apply Nat.eqb_refl.
Qed.
Lemma is_some_nat_other o t u : o = Some t -> u <> t -> is_some_nat o u = false.
Proof. intros -> H. simpl. apply Nat.eqb_neq. congruence. Qed.
Lemma is_some_nat_none t : is_some_nat None t = false. Proof. reflexivity. Qed.

Lemma memb_In t l : memb t l = true <-> In t l.
Proof.
  induction l as [|x tl IH]; simpl; [split; [discriminate|tauto]|].
  rewrite orb_true_iff, IH, Nat.eqb_eq. tauto.
Qed.
Lemma memb_false t l : memb t l = false <-> ~ In t l.
Proof. rewrite <- memb_In. destruct (memb t l); split; intro H; try reflexivity; try discriminate; try congruence. Qed.
Lemma memb_remove1_other t u l : u <> t -> memb u (remove1 t l) = memb u l.
Proof.
  intro H. induction l as [|x tl IH]; simpl; [reflexivity|].
  destruct (Nat.eqb_spec x t).
  - subst. replace (Nat.eqb t u) with false; [reflexivity|]. symmetry; apply Nat.eqb_neq; congruence.
  - simpl. rewrite IH. reflexivity.
Qed.
Lemma memb_remove1_self t l : NoDup l -> memb t (remove1 t l) = false.
Proof.
  induction 1 as [|x tl Hx Hnd IH]; simpl; [reflexivity|].
  destruct (Nat.eqb_spec x t).
  - subst. apply memb_false. assumption.
  - simpl. rewrite IH. apply Nat.eqb_neq in n. rewrite n. reflexivity.
Qed.
Lemma In_remove1 t u l : In u (remove1 t l) -> In u l.
Proof.
  induction l as [|x tl IH]; simpl; [tauto|].
  destruct (Nat.eqb x t); simpl; tauto.
Qed.
Lemma NoDup_remove1 t l : NoDup l -> NoDup (remove1 t l).
Proof.
  induction 1 as [|x tl Hx Hnd IH]; simpl; [constructor|].
  destruct (Nat.eqb x t); [assumption|].
  constructor; [|assumption]. intro H; apply Hx. eapply In_remove1; eassumption.
Qed.

Lemma nth_set_nth_same {A} t (x : A) l : t < length l -> nth_error (set_nth t x l) t = Some x.
Proof.
  revert t; induction l as [|y tl IH]; intros [|t] H; simpl in *; try lia; [reflexivity|].
  apply IH; lia.
Qed.
Lemma nth_set_nth_other {A} t u (x : A) l : u <> t -> nth_error (set_nth t x l) u = nth_error l u.
Proof.
  revert t u; induction l as [|y tl IH]; intros [|t] [|u] H; simpl; try reflexivity; try congruence.
  apply IH; congruence.
Qed.
Lemma length_set_nth {A} t (x : A) l : length (set_nth t x l) = length l.
Proof. revert t; induction l as [|y tl IH]; intros [|t]; simpl; try reflexivity. rewrite IH; reflexivity. Qed.
Lemma nth_error_lt {A} (l : list A) t x : nth_error l t = Some x -> t < length l.
Proof. intro H. apply nth_error_Some. congruence. Qed.
Lemma In_set_nth {A} t (x y : A) l : In y (set_nth t x l) -> y = x \/ In y l.
Proof.
  revert t; induction l as [|z tl IH]; intros [|t]; simpl; try tauto.
  - intros [->|H]; tauto.
  - intros [->|H]; [tauto|]. destruct (IH _ H); tauto.
Qed.

(** * The invariant *)
Record Inv (S : sys) : Prop := {
  I_thr : forall t th, nth_error (snd S) t = Some th ->
            check (held_of (fst S) t) (gh th) (pg th) = true;
  I_own : forall r u, own (fst S) r = Some u -> u < length (snd S);
  I_rd : forall r u, In u (rd (fst S) r) -> u < length (snd S);
  I_nodup : forall r, NoDup (rd (fst S) r);
  I_chkw : forall u, own (fst S) ChkW = Some u -> own (fst S) Exec = Some u;
  I_win : forall u, window (fst S) = Some u -> own (fst S) Exec = Some u;
  I_rw : forall r, own (fst S) (wof r) <> None -> rd (fst S) r = [];
  I_viol : viol (fst S) = false
}.

(** initial systems: the idle lock state and any list of checked programs *)
Definition start (ps : list prog) : sys := (init_state, map (fun p => mkT p gh0) ps).
Definition checked (ps : list prog) : Prop := forall p, In p ps -> check h0 gh0 p = true.

Lemma all_progs_checked : forallb (check h0 gh0) all_progs = true.
Proof. vm_compute. reflexivity. Qed.

Lemma checked_all_progs ps : (forall p, In p ps -> In p all_progs) -> checked ps.
Proof.
  intros H p Hp. pose proof all_progs_checked as A. rewrite forallb_forall in A. apply A, H, Hp.
Qed.

Lemma held_of_init t : held_of init_state t = h0.
Proof. reflexivity. Qed.

(** second layer: what the ghost knowledge of a thread means *)
Record Inv2 (S : sys) : Prop := {
  I_notreg : forall t th, nth_error (snd S) t = Some th -> notreg (gh th) = true ->
            own (fst S) StoreMu = Some t /\ ndbs (fst S) = 0;
  I_rtxoff : forall t th, nth_error (snd S) t = Some th -> rtxOff (gh th) = true ->
            own (fst S) Exec = Some t /\ rtx (fst S) = false;
  I_hoff : forall t th, nth_error (snd S) t = Some th -> hOff (gh th) = true ->
            own (fst S) Exec = Some t /\ handles (fst S) = false;
  I_ndbs : ndbs (fst S) <= 1

}.

Lemma Inv_start ps : checked ps -> Inv (start ps).
Proof.
  intro Hc. unfold start.
  assert (Hth : forall t th, nth_error (map (fun p => mkT p gh0) ps) t = Some th ->
                 gh th = gh0 /\ In (pg th) ps).
  { intros t th H. apply nth_error_In in H. apply in_map_iff in H. destruct H as [p [<- Hp]]. simpl. auto. }
  constructor; simpl; intros; try discriminate; try contradiction; try constructor; try reflexivity.
  destruct (Hth _ _ H) as [Hg Hp]. rewrite Hg, held_of_init. apply Hc, Hp.
Qed.

Lemma Inv2_start ps : Inv2 (start ps).
Proof.
  unfold start.
  assert (Hth : forall t th, nth_error (map (fun p => mkT p gh0) ps) t = Some th -> gh th = gh0).
  { intros t th H. apply nth_error_In in H. apply in_map_iff in H. destruct H as [p [<- Hp]]. reflexivity. }
  constructor; simpl; intros; try lia; rewrite (Hth _ _ H) in H0; discriminate.
Qed.

(** * How one step changes what each thread holds *)
Ltac neq_eqb :=
  repeat match goal with
  | H : ?u <> ?t |- context [Nat.eqb ?t ?u] =>
      replace (Nat.eqb t u) with false by (symmetry; apply Nat.eqb_neq; congruence)
  | H : ?u <> ?t |- context [Nat.eqb ?u ?t] =>
      replace (Nat.eqb u t) with false by (symmetry; apply Nat.eqb_neq; congruence)
  end.

Lemma clear_window_own s t r : own (clear_window s t) r = own s r.
Proof. unfold clear_window. destruct (is_some_nat (window s) t); reflexivity. Qed.
Lemma clear_window_rd s t r : rd (clear_window s t) r = rd s r.
Proof. unfold clear_window. destruct (is_some_nat (window s) t); reflexivity. Qed.
Lemma clear_window_self s t : is_some_nat (window (clear_window s t)) t = false.
Proof. unfold clear_window. destruct (is_some_nat (window s) t) eqn:E; simpl; [reflexivity|assumption]. Qed.
Lemma clear_window_other s t u : u <> t ->
  is_some_nat (window (clear_window s t)) u = is_some_nat (window s) u.
Proof.
  intro H. unfold clear_window. destruct (is_some_nat (window s) t) eqn:E; simpl; [|reflexivity].
  apply is_some_nat_true in E. rewrite E. simpl. neq_eqb. reflexivity.
Qed.
Lemma clear_window_misc s t :
  rtx (clear_window s t) = rtx s /\ handles (clear_window s t) = handles s /\
  ndbs (clear_window s t) = ndbs s /\ okret (clear_window s t) = okret s /\ viol (clear_window s t) = viol s.
Proof. unfold clear_window. destruct (is_some_nat (window s) t); simpl; auto. Qed.
Lemma clear_window_cases s t : window (clear_window s t) = window s \/ window (clear_window s t) = None.
Proof. unfold clear_window. destruct (is_some_nat (window s) t); simpl; auto. Qed.

Lemma held_acq s r t u : own s r = None ->
  held_of (set_own s r (Some t)) u = if Nat.eqb u t then hset (held_of s t) r true else held_of s u.
Proof.
  intro H. destruct (Nat.eqb_spec u t) as [->|Hn].
  - unfold held_of, hset; destruct r; simpl; rewrite ?Nat.eqb_refl; reflexivity.
  - unfold held_of; destruct r; simpl; rewrite H; simpl; neq_eqb; reflexivity.
Qed.

Lemma held_rel s r t u : own s r = Some t ->
  held_of (rel_state s r t) u = if Nat.eqb u t then hset (held_of s t) r false else held_of s u.
Proof.
  intro H. destruct (Nat.eqb_spec u t) as [->|Hn].
  - unfold held_of, hset, rel_state; destruct r; simpl; rewrite ?clear_window_own, ?clear_window_rd, ?clear_window_self; reflexivity.
  - unfold held_of, rel_state; destruct r; simpl;
      rewrite ?clear_window_own, ?clear_window_rd, ?clear_window_other by assumption; simpl;
      rewrite H; simpl; neq_eqb; reflexivity.
Qed.

Lemma held_racq s r t u :
  held_of (racq_state s r t) u = if Nat.eqb u t then hrset (held_of s t) r true else held_of s u.
Proof.
  destruct (Nat.eqb_spec u t) as [->|Hn].
  - unfold held_of, hrset, racq_state; destruct r; simpl;
      rewrite ?clear_window_own, ?clear_window_rd, ?clear_window_self; simpl; rewrite ?Nat.eqb_refl; reflexivity.
  - unfold held_of, racq_state; destruct r; simpl;
      rewrite ?clear_window_own, ?clear_window_rd, ?clear_window_other by assumption; simpl; neq_eqb; reflexivity.
Qed.

Lemma held_rrel s r t u : NoDup (rd s r) ->
  held_of (set_rd s r (remove1 t (rd s r))) u = if Nat.eqb u t then hrset (held_of s t) r false else held_of s u.
Proof.
  intro H. destruct (Nat.eqb_spec u t) as [->|Hn].
  - unfold held_of, hrset; destruct r; simpl; rewrite memb_remove1_self by assumption; reflexivity.
  - unfold held_of; destruct r; simpl; rewrite memb_remove1_other by assumption; reflexivity.
Qed.

Lemma held_act s t a u : (a = APos -> forall w, window s = Some w -> w = t) ->
  held_of (do_act s t a) u = if Nat.eqb u t then hact (held_of s t) a else held_of s u.
Proof.
  intro H. destruct (Nat.eqb_spec u t) as [->|Hn].
  - unfold held_of, hact; destruct a; simpl; rewrite ?Nat.eqb_refl; reflexivity.
  - unfold held_of; destruct a; simpl; try reflexivity.
    neq_eqb. destruct (window s) as [w|] eqn:E; simpl; [|reflexivity].
    rewrite (H eq_refl w eq_refl). neq_eqb. reflexivity.
Qed.

(** threads other than the stepping one keep passing the check *)
Lemma thr_preserve s s' ths t th' H' :
  (forall u, held_of s' u = if Nat.eqb u t then H' else held_of s u) ->
  (forall u th, nth_error ths u = Some th -> check (held_of s u) (gh th) (pg th) = true) ->
  t < length ths ->
  check H' (gh th') (pg th') = true ->
  forall u th, nth_error (set_nth t th' ths) u = Some th -> check (held_of s' u) (gh th) (pg th) = true.
Proof.
  intros Hh Hold Hlt Hnew u th Hu. rewrite Hh. destruct (Nat.eqb_spec u t) as [->|Hn].
  - rewrite nth_set_nth_same in Hu by assumption. inversion Hu; subst. assumption.
  - rewrite nth_set_nth_other in Hu by assumption. apply Hold; assumption.
Qed.

(** * Preservation of the structural invariant, one kind of state change at a time *)
Lemma can_acq_free s r : can_acq s r = true -> own s r = None.
Proof. unfold can_acq. intro H. apply andb_true_iff in H. destruct H as [H _]. destruct (own s r); [discriminate|reflexivity]. Qed.
Lemma can_acq_noreaders s rr : can_acq s (wof rr) = true -> rd s rr = [].
Proof.
  unfold can_acq. intro H. apply andb_true_iff in H. destruct H as [_ H].
  destruct rr; simpl in H; destruct (rd s _); try reflexivity; discriminate.
Qed.

Lemma Inv_acq s ths t th' r :
  Inv (s, ths) -> t < length ths -> can_acq s r = true ->
  (r = ChkW -> own s Exec = Some t) ->
  check (hset (held_of s t) r true) (gh th') (pg th') = true ->
  Inv (set_own s r (Some t), set_nth t th' ths).
Proof.
  intros HI Hlt Hc Hchk Hck. pose proof (can_acq_free _ _ Hc) as Hfree.
  constructor; simpl; try rewrite length_set_nth.
  - eapply thr_preserve; try eassumption.
    + intro u. apply held_acq. assumption.
    + apply (I_thr _ HI).
  - intros r' u. destruct (res_eqb r' r) eqn:E; [intro H; inversion H; subst; assumption | apply (I_own _ HI)].
  - apply (I_rd _ HI).
  - apply (I_nodup _ HI).
  - intro u. destruct r; simpl; try apply (I_chkw _ HI).
    + intro H. apply (I_chkw _ HI) in H. simpl in H. congruence.
    + intro H. inversion H; subst. apply Hchk. reflexivity.
  - intro u. destruct r; simpl; try apply (I_win _ HI).
    intro H. apply (I_win _ HI) in H. simpl in H. congruence.
  - intros rr. destruct (res_eqb (wof rr) r) eqn:E.
    + intros _. apply res_eqb_eq in E. subst. apply can_acq_noreaders. assumption.
    + apply (I_rw _ HI).
  - apply (I_viol _ HI).
Qed.

Lemma Inv_rel s ths t th' r :
  Inv (s, ths) -> t < length ths -> own s r = Some t ->
  (r = Exec -> own s ChkW <> Some t) ->
  check (hset (held_of s t) r false) (gh th') (pg th') = true ->
  Inv (rel_state s r t, set_nth t th' ths).
Proof.
  intros HI Hlt Ho Hnc Hck.
  assert (Hown : forall r', own (rel_state s r t) r' = if res_eqb r' r then None else own s r').
  { intro r'. unfold rel_state. destruct r; rewrite ?clear_window_own; reflexivity. }
  assert (Hrd : forall rr, rd (rel_state s r t) rr = rd s rr).
  { intro rr. unfold rel_state. destruct r; rewrite ?clear_window_rd; reflexivity. }
  constructor; simpl; try rewrite length_set_nth.
  - eapply thr_preserve; try eassumption.
    + intro u. apply held_rel. assumption.
    + apply (I_thr _ HI).
  - intros r' u. rewrite Hown. destruct (res_eqb r' r); [discriminate | apply (I_own _ HI)].
  - intros rr u. rewrite Hrd. apply (I_rd _ HI).
  - intros rr. rewrite Hrd. apply (I_nodup _ HI).
  - intro u. rewrite !Hown. destruct r; simpl; try apply (I_chkw _ HI); try discriminate.
    intro H. pose proof (I_chkw _ HI _ H) as H1. simpl in H1. rewrite Ho in H1. inversion H1; subst.
    exfalso. apply Hnc; auto.
  - intro u. rewrite Hown. unfold rel_state. destruct r; simpl; try apply (I_win _ HI).
    intro H. exfalso.
    unfold clear_window in H. destruct (is_some_nat (window (set_own s Exec None)) t) eqn:E; simpl in H; [discriminate|].
    simpl in E. pose proof (I_win _ HI _ H) as H1. simpl in H1. rewrite Ho in H1. inversion H1; subst.
    rewrite H in E. simpl in E. rewrite Nat.eqb_refl in E. discriminate.
  - intros rr. rewrite Hown, Hrd. destruct (res_eqb (wof rr) r); [intro H; exfalso; apply H; reflexivity | apply (I_rw _ HI)].
  - unfold rel_state. destruct r; simpl; try apply (I_viol _ HI).
    destruct (clear_window_misc (set_own s Exec None) t) as (_ & _ & _ & _ & ->). apply (I_viol _ HI).
Qed.

Lemma Inv_racq s ths t th' rr :
  Inv (s, ths) -> t < length ths -> can_racq s rr = true -> memb t (rd s rr) = false ->
  check (hrset (held_of s t) rr true) (gh th') (pg th') = true ->
  Inv (racq_state s rr t, set_nth t th' ths).
Proof.
  intros HI Hlt Hc Hm Hck.
  assert (Hown : forall r', own (racq_state s rr t) r' = own s r').
  { intro r'. unfold racq_state. destruct rr; rewrite ?clear_window_own; reflexivity. }
  assert (Hrd : forall r', rd (racq_state s rr t) r' = if rres_eqb r' rr then t :: rd s rr else rd s r').
  { intro r'. unfold racq_state. destruct rr; rewrite ?clear_window_rd; reflexivity. }
  constructor; simpl; try rewrite length_set_nth.
  - eapply thr_preserve; try eassumption.
    + intro u. apply held_racq.
    + apply (I_thr _ HI).
  - intros r' u. rewrite Hown. apply (I_own _ HI).
  - intros r' u. rewrite Hrd. destruct (rres_eqb r' rr); [|apply (I_rd _ HI)].
    intros [<-|H]; [assumption | apply (I_rd _ HI _ _ H)].
  - intros r'. rewrite Hrd. destruct (rres_eqb r' rr); [|apply (I_nodup _ HI)].
    constructor; [apply memb_false; assumption | apply (I_nodup _ HI)].
  - intro u. rewrite !Hown. apply (I_chkw _ HI).
  - intro u. rewrite Hown. unfold racq_state. destruct rr.
    + intro H. destruct (clear_window_cases (set_rd s ChkR (t :: rd s ChkR)) t) as [E|E]; rewrite E in H; [|discriminate].
      apply (I_win _ HI _ H).
    + apply (I_win _ HI).
  - intros r'. rewrite Hown, Hrd. destruct (rres_eqb r' rr) eqn:E; [|apply (I_rw _ HI)].
    intro H. exfalso. apply H. unfold can_racq in Hc.
    destruct r', rr; try discriminate; simpl in *; destruct (own s _); try reflexivity; discriminate.
  - unfold racq_state. destruct rr; simpl; try apply (I_viol _ HI).
    destruct (clear_window_misc (set_rd s ChkR (t :: rd s ChkR)) t) as (_ & _ & _ & _ & ->). apply (I_viol _ HI).
Qed.

Lemma Inv_rrel s ths t th' rr :
  Inv (s, ths) -> t < length ths ->
  check (hrset (held_of s t) rr false) (gh th') (pg th') = true ->
  Inv (set_rd s rr (remove1 t (rd s rr)), set_nth t th' ths).
Proof.
  intros HI Hlt Hck.
  constructor; simpl; try rewrite length_set_nth.
  - eapply thr_preserve; try eassumption.
    + intro u. apply held_rrel. apply (I_nodup _ HI).
    + apply (I_thr _ HI).
  - apply (I_own _ HI).
  - intros r' u. destruct (rres_eqb r' rr) eqn:E; [|apply (I_rd _ HI)].
    intro H. apply In_remove1 in H. apply (I_rd _ HI _ _ H).
  - intros r'. destruct (rres_eqb r' rr) eqn:E; [|apply (I_nodup _ HI)].
    apply NoDup_remove1. apply (I_nodup _ HI).
  - apply (I_chkw _ HI).
  - apply (I_win _ HI).
  - intros r' H. destruct (rres_eqb r' rr) eqn:E; [|apply (I_rw _ HI); assumption].
    assert (r' = rr) by (destruct r', rr; try discriminate; reflexivity). subst.
    pose proof (I_rw _ HI _ H) as E2. simpl in E2. rewrite E2. reflexivity.
  - apply (I_viol _ HI).
Qed.

Lemma Inv_same s ths t th' :
  Inv (s, ths) -> t < length ths ->
  check (held_of s t) (gh th') (pg th') = true ->
  Inv (s, set_nth t th' ths).
Proof.
  intros HI Hlt Hck.
  constructor; simpl; try rewrite length_set_nth;
    try apply (I_own _ HI); try apply (I_rd _ HI); try apply (I_nodup _ HI); try apply (I_chkw _ HI);
    try apply (I_win _ HI); try apply (I_rw _ HI); try apply (I_viol _ HI).
  eapply thr_preserve; try eassumption.
  - intro u. destruct (Nat.eqb_spec u t); subst; reflexivity.
  - apply (I_thr _ HI).
Qed.

Lemma Inv_act s ths t th' a g :
  Inv (s, ths) -> t < length ths ->
  act_ok (held_of s t) g a = true ->
  check (hact (held_of s t) a) (gh th') (pg th') = true ->
  Inv (do_act s t a, set_nth t th' ths).
Proof.
  intros HI Hlt Hok Hck.
  assert (Hown : forall r, own (do_act s t a) r = own s r) by (intro r; destruct a; reflexivity).
  assert (Hrd : forall r, rd (do_act s t a) r = rd s r) by (intro r; destruct a; reflexivity).
  assert (Hpos : a = APos -> own s Exec = Some t).
  { intros ->. simpl in Hok. apply is_some_nat_true in Hok. assumption. }
  constructor; simpl; try rewrite length_set_nth.
  - eapply thr_preserve; try eassumption.
    + intro u. apply held_act. intros Ha w Hw. specialize (Hpos Ha).
      pose proof (I_win _ HI _ Hw) as H1. simpl in H1. congruence.
    + apply (I_thr _ HI).
  - intros r u. rewrite Hown. apply (I_own _ HI).
  - intros r u. rewrite Hrd. apply (I_rd _ HI).
  - intros r. rewrite Hrd. apply (I_nodup _ HI).
  - intro u. rewrite !Hown. apply (I_chkw _ HI).
  - intro u. rewrite Hown. destruct a; simpl; try apply (I_win _ HI).
    intro H. inversion H; subst. apply Hpos. reflexivity.
  - intros r. rewrite Hown, Hrd. apply (I_rw _ HI).
  - destruct a; simpl; try apply (I_viol _ HI).
    (* ACkpt: the thread holds chkMu for writing, hence the executor; a window would be its own, which check excludes *)
    pose proof (I_viol _ HI) as Hv. simpl in Hv. rewrite Hv. simpl. simpl in Hok. apply andb_true_iff in Hok. destruct Hok as [Hw Hnw].
    apply is_some_nat_true in Hw. pose proof (I_chkw _ HI _ Hw) as He. simpl in He.
    destruct (window s) as [w|] eqn:E; [|reflexivity]. exfalso.
    pose proof (I_win _ HI _ E) as H1. simpl in H1. rewrite He in H1. inversion H1; subst.
    simpl in Hnw. try rewrite E in Hnw. simpl in Hnw. rewrite Nat.eqb_refl in Hnw. discriminate.
Qed.

Ltac split_andb :=
  repeat match goal with
  | H : _ && _ = true |- _ => apply andb_true_iff in H; destruct H
  end.

Lemma only_exec_fields h : only_exec h = true ->
  hChkW h = false /\ hSyncs h = false /\ hStore h = false /\ hDbW h = false /\ hChkR h = false /\ hDbR h = false.
Proof.
  unfold only_exec. intro H. split_andb.
  repeat match goal with H : negb _ = true |- _ => apply negb_true_iff in H end. auto 10.
Qed.

Theorem Inv_step S t e S' : Inv S -> step S t e S' -> Inv S'.
Proof.
  intros HI Hst. inversion Hst as [s ths t0 th c e0 s' th' Hnth Hts]; subst.
  pose proof (nth_error_lt _ _ _ Hnth) as Hlt.
  pose proof (I_thr _ HI _ _ Hnth) as Hck. simpl in Hck.
  destruct th as [p g]. simpl in Hck. unfold tstep in Hts. simpl in Hts.
  destruct p; simpl in Hck; split_andb.
  - discriminate.
  - (* Acq *)
    destruct (can_acq s r) eqn:Hc; [|discriminate]. inversion Hts; subst; clear Hts.
    apply Inv_acq; auto. intros ->. discriminate.
  - (* AcqCtx *)
    destruct c.
    + destruct (can_acq s r) eqn:Hc; [|discriminate]. inversion Hts; subst; clear Hts.
      apply Inv_acq; auto. intros ->. discriminate.
    + inversion Hts; subst; clear Hts. apply Inv_same; auto.
  - (* TryAcq *)
    destruct (can_acq s r) eqn:Hc; inversion Hts; subst; clear Hts.
    + apply Inv_acq; auto. intros ->. unfold try_ok in H. simpl in H. split_andb.
      apply is_some_nat_true. assumption.
    + apply Inv_same; auto.
  - (* Rel *)
    inversion Hts; subst; clear Hts. unfold rel_ok in H. split_andb.
    change (Inv (rel_state s r t, set_nth t {| pg := p; gh := ghost_rel g r |} ths)).
    apply Inv_rel; auto.
    + apply is_some_nat_true. destruct r; assumption.
    + intros ->. simpl in H1. apply negb_true_iff in H1. intro E. apply is_some_nat_true in E. congruence.
  - (* RAcq *)
    destruct (can_racq s r) eqn:Hc; [|discriminate]. inversion Hts; subst; clear Hts.
    change (Inv (racq_state s r t, set_nth t {| pg := p; gh := g |} ths)).
    unfold racq_ok in H. split_andb. apply only_exec_fields in H.
    apply Inv_racq; auto. destruct r; simpl in H; tauto.
  - (* RRel *)
    inversion Hts; subst; clear Hts. apply Inv_rrel; auto.
  - (* Act *)
    inversion Hts; subst; clear Hts. eapply Inv_act; eauto.
  - (* Choice *)
    inversion Hts; subst; clear Hts. apply Inv_same; auto. destruct c; assumption.
  - (* IfReg *)
    destruct (Nat.ltb 0 (ndbs s)); inversion Hts; subst; clear Hts; apply Inv_same; auto.
Qed.

Theorem Inv_reach ps S : checked ps -> reach (start ps) S -> Inv S.
Proof.
  intros Hc Hr. induction Hr.
  - apply Inv_start; assumption.
  - eapply Inv_step; eassumption.
Qed.

(** * exec_mutex *)
Lemma hExec_hset h r b : r <> Exec -> hExec (hset h r b) = hExec h.
Proof. destruct r; simpl; congruence. Qed.
Lemma hExec_hrset h r b : hExec (hrset h r b) = hExec h.
Proof. destruct r; reflexivity. Qed.
Lemma hExec_hact h a : hExec (hact h a) = hExec h.
Proof. destruct a; reflexivity. Qed.

Lemma check_section_holds p : forall h g,
  check h g p = true -> in_exec_section p = true -> hExec h = true.
Proof.
  induction p; intros h g Hc Hs; simpl in Hc, Hs; split_andb; try discriminate.
  - destruct r; try discriminate; (erewrite <- hExec_hset; [eapply IHp; eassumption | discriminate]).
  - destruct r; try discriminate;
      (apply orb_true_iff in Hs; destruct Hs as [Hs|Hs];
       [erewrite <- hExec_hset; [eapply IHp1; eassumption | discriminate] | eapply IHp2; eassumption]).
  - destruct r; try discriminate;
      (apply orb_true_iff in Hs; destruct Hs as [Hs|Hs];
       [erewrite <- hExec_hset; [eapply IHp1; eassumption | discriminate] | eapply IHp2; eassumption]).
  - destruct r; try (erewrite <- hExec_hset; [eapply IHp; eassumption | discriminate]).
    unfold rel_ok in H. split_andb. assumption.
  - erewrite <- hExec_hrset. eapply IHp; eassumption.
  - erewrite <- hExec_hrset. eapply IHp; eassumption.
  - erewrite <- hExec_hact. eapply IHp; eassumption.
  - apply orb_true_iff in Hs; destruct Hs; [eapply IHp1 | eapply IHp2]; eassumption.
  - apply orb_true_iff in Hs; destruct Hs; [eapply (IHp1 h) | eapply (IHp2 h)]; eassumption.
Qed.

(** At most one thread is inside an executor section (between acquiring
    db.execSem and releasing it), in every reachable state of every system of
    checked programs, for any number of threads. *)
Theorem exec_mutex_thm ps S t u th1 th2 :
  checked ps -> reach (start ps) S ->
  nth_error (snd S) t = Some th1 -> nth_error (snd S) u = Some th2 ->
  in_exec_section (pg th1) = true -> in_exec_section (pg th2) = true ->
  t = u.
Proof.
  intros Hc Hr H1 H2 S1 S2. pose proof (Inv_reach _ _ Hc Hr) as HI.
  pose proof (check_section_holds _ _ _ (I_thr _ HI _ _ H1) S1) as E1.
  pose proof (check_section_holds _ _ _ (I_thr _ HI _ _ H2) S2) as E2.
  simpl in E1, E2. apply is_some_nat_true in E1. apply is_some_nat_true in E2. congruence.
Qed.

(** * the snapshot hand-off *)
Lemma step_act_inv s ths t a S' :
  step (s, ths) t (EAct a) S' -> fst S' = do_act s t a.
Proof.
  intro H. inversion H as [s0 ths0 t0 th c e0 s' th' Hnth Hts]; subst. simpl.
  unfold tstep in Hts. destruct (pg th); try discriminate;
    repeat match type of Hts with
    | (if ?b then _ else _) = _ => destruct b
    end; inversion Hts; subst; reflexivity.
Qed.

(** Between the moment a snapshot captures its position (APos, under the
    executor) and the moment it holds chkMu.RLock, no checkpoint runs: a
    checkpoint step is only possible when no thread is in that window. *)
Theorem no_checkpoint_between_pos_and_rlock_thm ps S u S' :
  checked ps -> reach (start ps) S -> step S u (EAct ACkpt) S' ->
  window (fst S) = None /\ viol (fst S') = false.
Proof.
  intros Hc Hr Hst.
  assert (HI' : Inv S') by (eapply Inv_step; [eapply Inv_reach; eassumption | eassumption]).
  pose proof (I_viol _ HI') as Hv. split; [|assumption].
  destruct S as [s ths]. rewrite (step_act_inv _ _ _ _ _ Hst) in Hv. simpl in Hv.
  apply orb_false_iff in Hv. destruct Hv as [_ Hv]. simpl. destruct (window s); [discriminate|reflexivity].
Qed.

(** * deadlock freedom *)
Definition nonfinal (S : sys) : Prop := exists t th, nth_error (snd S) t = Some th /\ pg th <> Ret.

Lemma not_final_nonfinal S : ~ final S -> nonfinal S.
Proof.
  destruct S as [s ths]. unfold final, nonfinal. simpl. induction ths as [|x tl IH]; intro H.
  - exfalso. apply H. intros th [].
  - destruct (pg x) eqn:E; try (exists 0, x; simpl; split; [reflexivity | rewrite E; discriminate]).
    destruct IH as [t [th [H1 H2]]].
    + intro Hf. apply H. intros th [<-|Hin]; [assumption | apply Hf; assumption].
    + exists (S t), th. simpl. auto.
Qed.

Lemma tstep_enabled s u th :
  pg th <> Ret ->
  (forall r k, pg th = Acq r k -> can_acq s r = true) ->
  (forall r k kc, pg th = AcqCtx r k kc -> can_acq s r = true) ->
  (forall r k, pg th = RAcq r k -> can_racq s r = true) ->
  exists e s' th', tstep s u th true = Some (e, s', th') /\ is_cancel e = false.
Proof.
  intros Hn Ha Hac Hr. unfold tstep. destruct (pg th) eqn:E.
  - congruence.
  - rewrite (Ha _ _ eq_refl). eauto.
  - rewrite (Hac _ _ _ eq_refl). eauto.
  - destruct (can_acq s r); eauto.
  - eauto.
  - rewrite (Hr _ _ eq_refl). eauto.
  - eauto.
  - eauto.
  - eauto.
  - destruct (Nat.ltb 0 (ndbs s)); eauto.
Qed.

Lemma step_of_tstep s ths u th c e s' th' :
  nth_error ths u = Some th -> tstep s u th c = Some (e, s', th') ->
  exists S', step (s, ths) u e S'.
Proof. intros. eexists. econstructor; eassumption. Qed.

(** a thread holding anything besides the executor can always move *)
Lemma holder_enabled s ths u :
  Inv (s, ths) -> u < length ths -> only_exec (held_of s u) = false ->
  exists e S', step (s, ths) u e S' /\ is_cancel e = false.
Proof.
  intros HI Hlt Hh.
  destruct (nth_error ths u) as [th|] eqn:Hn; [|apply nth_error_None in Hn; lia].
  pose proof (I_thr _ HI _ _ Hn) as Hck. simpl in Hck.
  assert (Hno : nothing (held_of s u) = false) by (unfold nothing; rewrite Hh; apply andb_false_r).
  destruct (tstep_enabled s u th) as (e & s' & th' & Hts & Hnc).
  - intro E. rewrite E in Hck. simpl in Hck. congruence.
  - intros r k E. rewrite E in Hck. simpl in Hck. split_andb. destruct r; simpl in *; congruence.
  - intros r k kc E. rewrite E in Hck. simpl in Hck. split_andb. destruct r; simpl in *; congruence.
  - intros r k E. rewrite E in Hck. simpl in Hck. split_andb. unfold racq_ok in *. split_andb. congruence.
  - destruct (step_of_tstep _ _ _ _ _ _ _ _ Hn Hts) as [S' HS]. eauto.
Qed.

(** Every reachable non-final state has an enabled step that is not a
    cancellation: the protocol cannot deadlock, whatever the number of threads
    and whatever the interleaving.  (Blocking acquisitions respect the order
    executor < {syncSem, db.mu, chkMu read side}; Store.mu and the executor are
    taken holding nothing; chkMu is only try-locked for writing.) *)
Theorem deadlock_free_thm ps S :
  checked ps -> reach (start ps) S -> nonfinal S ->
  exists t e S', step S t e S' /\ is_cancel e = false.
Proof.
  intros Hc Hr [t [th [Hn Hp]]]. pose proof (Inv_reach _ _ Hc Hr) as HI. destruct S as [s ths]. simpl in *.
  (* someone holds something besides the executor? *)
  destruct (own s ChkW) as [u|] eqn:E1.
  { destruct (holder_enabled s ths u HI) as (e & S' & H1 & H2); eauto.
    - apply (I_own _ HI ChkW). assumption.
    - unfold only_exec, held_of; simpl. rewrite E1. simpl. rewrite Nat.eqb_refl. reflexivity. }
  destruct (own s Syncs) as [u|] eqn:E2.
  { destruct (holder_enabled s ths u HI) as (e & S' & H1 & H2); eauto.
    - apply (I_own _ HI Syncs). assumption.
    - unfold only_exec, held_of; simpl. rewrite E2. simpl. rewrite Nat.eqb_refl. rewrite andb_false_r. reflexivity. }
  destruct (own s StoreMu) as [u|] eqn:E3.
  { destruct (holder_enabled s ths u HI) as (e & S' & H1 & H2); eauto.
    - apply (I_own _ HI StoreMu). assumption.
    - unfold only_exec, held_of; simpl. rewrite E3. simpl. rewrite Nat.eqb_refl. rewrite !andb_false_r. reflexivity. }
  destruct (own s DbW) as [u|] eqn:E4.
  { destruct (holder_enabled s ths u HI) as (e & S' & H1 & H2); eauto.
    - apply (I_own _ HI DbW). assumption.
    - unfold only_exec, held_of; simpl. rewrite E4. simpl. rewrite Nat.eqb_refl. rewrite !andb_false_r. reflexivity. }
  destruct (rd s ChkR) as [|u l5] eqn:E5.
  2:{ destruct (holder_enabled s ths u HI) as (e & S' & H1 & H2); eauto.
    - apply (I_rd _ HI ChkR). simpl. rewrite E5. left. reflexivity.
    - unfold only_exec, held_of; simpl. rewrite E5. simpl. rewrite Nat.eqb_refl. simpl. rewrite !andb_false_r. reflexivity. }
  destruct (rd s DbR) as [|u l6] eqn:E6.
  2:{ destruct (holder_enabled s ths u HI) as (e & S' & H1 & H2); eauto.
    - apply (I_rd _ HI DbR). simpl. rewrite E6. left. reflexivity.
    - unfold only_exec, held_of; simpl. rewrite E6. simpl. rewrite Nat.eqb_refl. simpl. rewrite !andb_false_r. reflexivity. }
  (* nobody holds anything besides (possibly) the executor: every other resource is free *)
  assert (Hfree : forall r, r <> Exec -> can_acq s r = true).
  { intros r Hr0. unfold can_acq. destruct r; try congruence; rewrite ?E1, ?E2, ?E3, ?E4, ?E5, ?E6; reflexivity. }
  assert (Hrfree : forall r, can_racq s r = true).
  { intros r. unfold can_racq. destruct r; simpl; rewrite ?E1, ?E4; reflexivity. }
  destruct (own s Exec) as [u|] eqn:E0.
  - (* the executor's holder moves *)
    assert (Hlt : u < length ths) by (apply (I_own _ HI Exec); assumption).
    destruct (nth_error ths u) as [thu|] eqn:Hnu; [|apply nth_error_None in Hnu; lia].
    pose proof (I_thr _ HI _ _ Hnu) as Hck. simpl in Hck.
    assert (Hno : nothing (held_of s u) = false).
    { unfold nothing, held_of; simpl. rewrite E0. simpl. rewrite Nat.eqb_refl. reflexivity. }
    destruct (tstep_enabled s u thu) as (e & s' & th' & Hts & Hnc).
    + intro E. rewrite E in Hck. simpl in Hck. congruence.
    + intros r k E. rewrite E in Hck. simpl in Hck. split_andb. apply Hfree. intros ->. simpl in *. congruence.
    + intros r k kc E. rewrite E in Hck. simpl in Hck. split_andb. apply Hfree. intros ->. simpl in *. congruence.
    + intros r k E. apply Hrfree.
    + destruct (step_of_tstep _ _ _ _ _ _ _ _ Hnu Hts) as [S' HS]. eauto.
  - (* everything is free: the non-final thread moves *)
    destruct (tstep_enabled s t th) as (e & s' & th' & Hts & Hnc); auto.
    + intros r k E. destruct r; try (apply Hfree; discriminate). unfold can_acq. rewrite E0. reflexivity.
    + intros r k kc E. destruct r; try (apply Hfree; discriminate). unfold can_acq. rewrite E0. reflexivity.
    + destruct (step_of_tstep _ _ _ _ _ _ _ _ Hn Hts) as [S' HS]. eauto.
Qed.

(** * Second layer: ghost knowledge (registration, Close) *)
Lemma Inv2_frame s s' ths t th' :
  Inv2 (s, ths) -> t < length ths ->
  (forall r u, u <> t -> own s r = Some u -> own s' r = Some u) ->
  (ndbs s' = ndbs s \/ own s StoreMu = Some t) ->
  (rtx s' = rtx s \/ own s Exec = Some t) ->
  (handles s' = handles s \/ own s Exec = Some t) ->
  ndbs s' <= 1 ->
  (notreg (gh th') = true -> own s' StoreMu = Some t /\ ndbs s' = 0) ->
  (rtxOff (gh th') = true -> own s' Exec = Some t /\ rtx s' = false) ->
  (hOff (gh th') = true -> own s' Exec = Some t /\ handles s' = false) ->
  Inv2 (s', set_nth t th' ths).
Proof.
  intros H2 Hlt Fo Fn Fr Fh Hn N1 N2 N3.
  constructor; simpl; try assumption; intros u th Hu Hf;
    (destruct (Nat.eq_dec u t) as [->|Hne];
     [rewrite nth_set_nth_same in Hu by assumption; inversion Hu; subst; auto
     |rewrite nth_set_nth_other in Hu by assumption]).
  - destruct (I_notreg _ H2 _ _ Hu Hf) as [A B]. simpl in A, B. split; [apply Fo; assumption|].
    destruct Fn as [->|E]; [assumption | congruence].
  - destruct (I_rtxoff _ H2 _ _ Hu Hf) as [A B]. simpl in A, B. split; [apply Fo; assumption|].
    destruct Fr as [->|E]; [assumption | congruence].
  - destruct (I_hoff _ H2 _ _ Hu Hf) as [A B]. simpl in A, B. split; [apply Fo; assumption|].
    destruct Fh as [->|E]; [assumption | congruence].
Qed.

Lemma own_rel_state s r t r' : own (rel_state s r t) r' = if res_eqb r' r then None else own s r'.
Proof. unfold rel_state. destruct r; rewrite ?clear_window_own; reflexivity. Qed.
Lemma misc_rel_state s r t :
  rtx (rel_state s r t) = rtx s /\ handles (rel_state s r t) = handles s /\ ndbs (rel_state s r t) = ndbs s /\ okret (rel_state s r t) = okret s.
Proof.
  unfold rel_state. destruct r; simpl; auto.
  destruct (clear_window_misc (set_own s Exec None) t) as (A & B & C & D & _). auto.
Qed.
Lemma own_racq_state s r t r' : own (racq_state s r t) r' = own s r'.
Proof. unfold racq_state. destruct r; rewrite ?clear_window_own; reflexivity. Qed.
Lemma misc_racq_state s r t :
  rtx (racq_state s r t) = rtx s /\ handles (racq_state s r t) = handles s /\ ndbs (racq_state s r t) = ndbs s /\ okret (racq_state s r t) = okret s.
Proof.
  unfold racq_state. destruct r; simpl; auto.
  destruct (clear_window_misc (set_rd s ChkR (t :: rd s ChkR)) t) as (A & B & C & D & _). auto.
Qed.

Lemma Inv2_acq s ths t r k g :
  Inv2 (s, ths) -> nth_error ths t = Some (mkT (Acq r k) g) \/ True ->
  t < length ths -> can_acq s r = true ->
  (notreg g = true -> own s StoreMu = Some t /\ ndbs s = 0) ->
  (rtxOff g = true -> own s Exec = Some t /\ rtx s = false) ->
  (hOff g = true -> own s Exec = Some t /\ handles s = false) ->
  Inv2 (set_own s r (Some t), set_nth t (mkT k g) ths).
Proof.
  intros H2 _ Hlt Hc G1 G2 G3. pose proof (can_acq_free _ _ Hc) as Hf.
  apply Inv2_frame with (s := s); simpl; auto; try apply (I_ndbs _ H2).
  - intros r' u Hne Ho. destruct (res_eqb r' r) eqn:E; [apply res_eqb_eq in E; subst; congruence | assumption].
  - intro Hg. destruct (G1 Hg) as [A B]. split; [|assumption]. destruct r; simpl; auto.
  - intro Hg. destruct (G2 Hg) as [A B]. split; [|assumption]. destruct r; simpl; auto.
  - intro Hg. destruct (G3 Hg) as [A B]. split; [|assumption]. destruct r; simpl; auto.
Qed.

Theorem Inv2_step S t e S' : Inv S -> Inv2 S -> step S t e S' -> Inv2 S'.
Proof.
  intros HI H2 Hst. inversion Hst as [s ths t0 th c e0 s' th' Hnth Hts]; subst.
  pose proof (nth_error_lt _ _ _ Hnth) as Hlt.
  pose proof (I_thr _ HI _ _ Hnth) as Hck. simpl in Hck.
  pose proof (I_notreg _ H2 _ _ Hnth) as G1. pose proof (I_rtxoff _ H2 _ _ Hnth) as G2.
  pose proof (I_hoff _ H2 _ _ Hnth) as G3. pose proof (I_ndbs _ H2) as Gn.
  destruct th as [p g]. simpl in Hck, G1, G2, G3, Gn. unfold tstep in Hts. simpl in Hts.
  assert (Hsame : forall p', Inv2 (s, set_nth t (mkT p' g) ths)).
  { intro p'. apply Inv2_frame with (s := s); simpl; auto. }
  destruct p; simpl in Hck; split_andb.
  - discriminate.
  - destruct (can_acq s r) eqn:Hc; [|discriminate]. inversion Hts; subst; clear Hts.
    eapply Inv2_acq; eauto.
  - destruct c.
    + destruct (can_acq s r) eqn:Hc; [|discriminate]. inversion Hts; subst; clear Hts.
      eapply Inv2_acq; eauto.
    + inversion Hts; subst; clear Hts. apply Hsame.
  - destruct (can_acq s r) eqn:Hc; inversion Hts; subst; clear Hts.
    + eapply Inv2_acq; eauto.
    + apply Hsame.
  - (* Rel *)
    inversion Hts; subst; clear Hts. unfold rel_ok in H. split_andb.
    assert (Ho : own s r = Some t) by (apply is_some_nat_true; destruct r; assumption).
    change (Inv2 (rel_state s r t, set_nth t {| pg := p; gh := ghost_rel g r |} ths)).
    destruct (misc_rel_state s r t) as (M1 & M2 & M3 & _).
    apply Inv2_frame with (s := s); simpl; auto; try (rewrite M3; assumption).
    + intros r' u Hne Hu. rewrite own_rel_state. destruct (res_eqb r' r) eqn:E; [apply res_eqb_eq in E; subst; congruence | assumption].
    + intro Hg. rewrite own_rel_state, M3. destruct r; simpl in *; try discriminate; auto.
    + intro Hg. rewrite own_rel_state, M1. destruct r; simpl in *; try discriminate; auto.
    + intro Hg. rewrite own_rel_state, M2. destruct r; simpl in *; try discriminate; auto.
  - (* RAcq *)
    destruct (can_racq s r) eqn:Hc; [|discriminate]. inversion Hts; subst; clear Hts.
    change (Inv2 (racq_state s r t, set_nth t {| pg := p; gh := g |} ths)).
    destruct (misc_racq_state s r t) as (M1 & M2 & M3 & _).
    apply Inv2_frame with (s := s); simpl; auto; try (rewrite M3; assumption);
      try (intros; rewrite own_racq_state; assumption);
      intro Hg; rewrite own_racq_state, ?M1, ?M2, ?M3; auto.
  - (* RRel *)
    inversion Hts; subst; clear Hts. apply Inv2_frame with (s := s); simpl; auto.
  - (* Act *)
    inversion Hts; subst; clear Hts.
    assert (Hown : forall r, own (do_act s t a) r = own s r) by (intro r; destruct a; reflexivity).
    apply Inv2_frame with (s := s); simpl; auto.
    + intros r u _ Hu. rewrite Hown. assumption.
    + destruct a; simpl; auto; right; simpl in H; split_andb; apply is_some_nat_true; assumption.
    + destruct a; simpl; auto; right; simpl in H; split_andb; apply is_some_nat_true; assumption.
    + destruct a; simpl; auto; right; simpl in H; split_andb; apply is_some_nat_true; assumption.
    + destruct a; simpl; try assumption; try lia.
      simpl in H. split_andb. destruct (G1 H1) as [_ E]. rewrite E. lia.
    + rewrite Hown. destruct a; simpl; auto; try discriminate.
      intro Hg. destruct (G1 Hg) as [A B]. split; [assumption|]. rewrite B. reflexivity.
    + rewrite Hown. destruct a; simpl; auto; try discriminate.
      intros _. split; [|reflexivity]. simpl in H. apply is_some_nat_true. assumption.
    + rewrite Hown. destruct a; simpl; auto; try discriminate.
      intros _. split; [|reflexivity]. simpl in H. apply is_some_nat_true. assumption.
  - (* Choice *)
    inversion Hts; subst; clear Hts. apply Hsame.
  - (* IfReg *)
    destruct (Nat.ltb 0 (ndbs s)) eqn:E; inversion Hts; subst; clear Hts.
    + eapply Inv2_frame; [exact H2 | assumption | ..]; simpl; auto.
    + eapply Inv2_frame; [exact H2 | assumption | ..]; simpl; auto.
      intros _. split; [apply is_some_nat_true; assumption|]. apply Nat.ltb_ge in E. lia.
Qed.

Theorem Inv2_reach ps S : checked ps -> reach (start ps) S -> Inv2 S.
Proof.
  intros Hc Hr. induction Hr.
  - apply Inv2_start.
  - eapply Inv2_step; try eassumption. eapply Inv_reach; eassumption.
Qed.

(** * register_once *)
Definition Inv3 (S : sys) : Prop :=
  (forall th, In th (snd S) -> no_remove (pg th) = true) /\
  (forall th, In th (snd S) -> sawreg (gh th) = true -> 1 <= ndbs (fst S)) /\
  (0 < okret (fst S) -> 1 <= ndbs (fst S)).

Lemma Inv3_frame s s' ths t th th' :
  Inv3 (s, ths) -> nth_error ths t = Some th ->
  no_remove (pg th') = true ->
  ndbs s <= ndbs s' ->
  (sawreg (gh th') = true -> 1 <= ndbs s') ->
  (0 < okret s' -> 1 <= ndbs s') ->
  Inv3 (s', set_nth t th' ths).
Proof.
  intros (A & B & C) Hn N1 N2 N3 N4. repeat split; simpl in *.
  - intros x Hx. apply In_set_nth in Hx. destruct Hx as [->|Hx]; auto.
  - intros x Hx Hs. apply In_set_nth in Hx. destruct Hx as [->|Hx]; auto. specialize (B _ Hx Hs). lia.
  - assumption.
Qed.

Theorem Inv3_step S t e S' : Inv S -> Inv3 S -> step S t e S' -> Inv3 S'.
Proof.
  intros HI H3 Hst. inversion Hst as [s ths t0 th c e0 s' th' Hnth Hts]; subst.
  pose proof (I_thr _ HI _ _ Hnth) as Hck. simpl in Hck.
  destruct H3 as (A & B & C). simpl in A, B, C.
  pose proof (A _ (nth_error_In _ _ Hnth)) as Hnr.
  pose proof (B _ (nth_error_In _ _ Hnth)) as Hsaw.
  destruct th as [p g]. simpl in Hck, Hnr, Hsaw. unfold tstep in Hts. simpl in Hts.
  assert (H3 : Inv3 (s, ths)) by (repeat split; assumption).
  destruct p; simpl in Hck, Hnr; split_andb;
    repeat match type of Hts with
    | (if ?b then _ else _) = _ => destruct b eqn:?
    end; try discriminate; inversion Hts; subst; clear Hts;
    try (eapply Inv3_frame; [exact H3 | exact Hnth | simpl; auto ..]; simpl; auto; fail).
  - (* Rel *)
    destruct (misc_rel_state s r t) as (_ & _ & M3 & M4).
    change (Inv3 (rel_state s r t, set_nth t {| pg := p; gh := ghost_rel g r |} ths)).
    eapply Inv3_frame; [exact H3 | exact Hnth | simpl; auto ..]; rewrite ?M3, ?M4; simpl; auto.
    destruct r; simpl; auto.
  - (* RAcq *)
    destruct (misc_racq_state s r t) as (_ & _ & M3 & M4).
    change (Inv3 (racq_state s r t, set_nth t {| pg := p; gh := g |} ths)).
    eapply Inv3_frame; [exact H3 | exact Hnth | simpl; auto ..]; rewrite ?M3, ?M4; simpl; auto.
  - (* Act *)
    eapply Inv3_frame; [exact H3 | exact Hnth | simpl; auto ..]; destruct a; simpl in *; auto; try discriminate; try lia;
      try (intros _; apply Hsaw; assumption).
  - (* Choice *)
    eapply Inv3_frame; [exact H3 | exact Hnth | simpl; auto ..]; simpl; auto. destruct c; assumption.
  - (* IfReg found *)
    eapply Inv3_frame; [exact H3 | exact Hnth | simpl; auto ..]; simpl; auto.
    intros _. apply Nat.ltb_lt in Heqb. lia.
Qed.

Lemma Inv3_start ps : (forall p, In p ps -> no_remove p = true) -> Inv3 (start ps).
Proof.
  intro H. unfold start. repeat split; simpl; try lia.
  - intros th Hth. apply in_map_iff in Hth. destruct Hth as [p [<- Hp]]. simpl. auto.
  - intros th Hth. apply in_map_iff in Hth. destruct Hth as [p [<- Hp]]. simpl. discriminate.
Qed.

(** Any interleaving of any number of operations leaves at most one instance
    of the path in the store; and when the system only registers (any number of
    concurrent RegisterDB calls, no UnregisterDB), as soon as one call has
    returned nil the path is registered exactly once — in every reachable state,
    in particular in the final one. *)
Theorem register_once_thm ps S :
  checked ps -> reach (start ps) S ->
  ndbs (fst S) <= 1 /\
  ((forall p, In p ps -> no_remove p = true) -> ndbs (fst S) = 1 \/ okret (fst S) = 0).
Proof.
  intros Hc Hr. split.
  - apply (I_ndbs _ (Inv2_reach _ _ Hc Hr)).
  - intro Hnr.
    assert (H3 : Inv3 S).
    { clear - Hc Hr Hnr. induction Hr; [apply Inv3_start; assumption|].
      eapply Inv3_step; try eassumption. eapply Inv_reach; eassumption. }
    pose proof (I_ndbs _ (Inv2_reach _ _ Hc Hr)) as Hle. destruct H3 as (_ & _ & C).
    destruct (okret (fst S)) eqn:E; [right; reflexivity|left]. assert (1 <= ndbs (fst S)) by (apply C; lia). lia.
Qed.

(** * close_completes_and_releases *)
Lemma close_paths_release :
  always_does ARtxRelease p_close = true /\ always_does AHandlesClose p_close = true /\
  always_does ACloseDone p_close = true /\
  always_does ARtxRelease p_unregister = false (* the not-registered path does not close *).
Proof. vm_compute. repeat split; reflexivity. Qed.

Lemma step_act_thread s ths t a S' :
  step (s, ths) t (EAct a) S' -> exists k g, nth_error ths t = Some (mkT (Act a k) g).
Proof.
  intro H. inversion H as [s0 ths0 t0 th c e0 s' th' Hnth Hts]; subst.
  destruct th as [p g]. unfold tstep in Hts. simpl in Hts. destruct p; try discriminate;
    repeat match type of Hts with
    | (if ?b then _ else _) = _ => destruct b
    end; inversion Hts; subst. eauto.
Qed.

Fixpoint size (p : prog) : nat :=
  match p with
  | Ret => 0
  | Acq _ k | Rel _ k | RAcq _ k | RRel _ k | Act _ k => S (size k)
  | AcqCtx _ k1 k2 | TryAcq _ k1 k2 | Choice k1 k2 | IfReg k1 k2 => S (size k1 + size k2)
  end.
Fixpoint total (ths : list thread) : nat :=
  match ths with [] => 0 | th :: tl => size (pg th) + total tl end.

Lemma total_set_nth ths : forall t th th',
  nth_error ths t = Some th -> size (pg th') < size (pg th) -> total (set_nth t th' ths) < total ths.
Proof.
  induction ths as [|x tl IH]; intros [|t] th th' Hn Hs; simpl in *; try discriminate.
  - inversion Hn; subst. lia.
  - specialize (IH _ _ _ Hn Hs). lia.
Qed.

Lemma step_decreases S t e S' : step S t e S' -> total (snd S') < total (snd S).
Proof.
  intro H. inversion H as [s ths t0 th c e0 s' th' Hnth Hts]; subst. simpl.
  eapply total_set_nth; [eassumption|].
  destruct th as [p g]. unfold tstep in Hts. simpl in Hts. destruct p; try discriminate;
    repeat match type of Hts with
    | (if ?b then _ else _) = _ => destruct b
    end; try discriminate; inversion Hts; subst; simpl; try lia. destruct c; lia.
Qed.

(** Close always completes and releases: (1) every path of DB.Close — whatever
    the outcome of the final sync, of the replica sync, and also when the caller's
    context is already cancelled (the executor is acquired uncancellably, the
    replica lock wait may be abandoned) — releases the read transaction and closes
    both handles before it returns; (2) at the moment Close is about to return,
    in ANY interleaving, the read transaction is released and the handles are
    closed, and Close still holds the executor; (3) every step strictly decreases
    a measure and (4) from every reachable state the system can run to a final
    state without any cancellation — so Close (like every operation) returns. *)
Theorem close_completes_and_releases_thm ps S :
  checked ps -> reach (start ps) S ->
  (always_does ARtxRelease p_close = true /\ always_does AHandlesClose p_close = true) /\
  (forall t S', step S t (EAct ACloseDone) S' ->
      rtx (fst S) = false /\ handles (fst S) = false /\ own (fst S) Exec = Some t) /\
  (forall t e S', step S t e S' -> total (snd S') < total (snd S)) /\
  (exists S', reach (start ps) S' /\ final S').
Proof.
  intros Hc Hr. repeat split; try (vm_compute; reflexivity).
  - destruct S as [s ths]. destruct (step_act_thread _ _ _ _ _ H) as (k & g & Hn).
    pose proof (I_thr _ (Inv_reach _ _ Hc Hr) _ _ Hn) as Hck. simpl in Hck. split_andb.
    destruct (I_rtxoff _ (Inv2_reach _ _ Hc Hr) _ _ Hn) as [_ E]; auto.
  - destruct S as [s ths]. destruct (step_act_thread _ _ _ _ _ H) as (k & g & Hn).
    pose proof (I_thr _ (Inv_reach _ _ Hc Hr) _ _ Hn) as Hck. simpl in Hck. split_andb.
    destruct (I_hoff _ (Inv2_reach _ _ Hc Hr) _ _ Hn) as [_ E]; auto.
  - destruct S as [s ths]. destruct (step_act_thread _ _ _ _ _ H) as (k & g & Hn).
    pose proof (I_thr _ (Inv_reach _ _ Hc Hr) _ _ Hn) as Hck. simpl in Hck. split_andb.
    destruct (I_rtxoff _ (Inv2_reach _ _ Hc Hr) _ _ Hn) as [E _]; auto.
  - intros t e S'. apply step_decreases.
  - remember (total (snd S)) as n eqn:En. revert S Hr En.
    induction n as [n IH] using lt_wf_ind. intros S Hr En.
    destruct (total (snd S)) eqn:E0.
    + exists S. split; [assumption|]. intros th Hin. destruct S as [s ths]. simpl in *.
      clear - E0 Hin. induction ths as [|x tl IHt]; simpl in *; [contradiction|].
      destruct Hin as [<-|Hin]; [destruct (pg x); simpl in E0; try lia; reflexivity | apply IHt; [lia | assumption]].
    + assert (Hnf : nonfinal S).
      { destruct S as [s ths]. simpl in *. clear - E0. unfold nonfinal. simpl.
        induction ths as [|x tl IHt]; simpl in *; [lia|].
        destruct (pg x) eqn:Ex; try (exists 0, x; simpl; split; [reflexivity | rewrite Ex; discriminate]).
        simpl in E0. destruct (IHt E0) as [t [th [H1 H2]]]. exists (S t), th. auto. }
      destruct (deadlock_free_thm _ _ Hc Hr Hnf) as (t & e & S' & Hst & _).
      pose proof (step_decreases _ _ _ _ Hst) as Hd.
      apply (IH (total (snd S'))) with (S := S'); [lia | eapply reach_step; eassumption | reflexivity].
Qed.

(** * Executable schedules (witnesses and examples) *)
Fixpoint run (sched : list (nat * bool)) (S : sys) : option sys :=
  match sched with
  | [] => Some S
  | (t, c) :: tl =>
      match nth_error (snd S) t with
      | Some th =>
          match tstep (fst S) t th c with
          | Some (_, s', th') => run tl (s', set_nth t th' (snd S))
          | None => None
          end
      | None => None
      end
  end.

Lemma run_reach S0 sched : forall S S', reach S0 S -> run sched S = Some S' -> reach S0 S'.
Proof.
  induction sched as [|[t c] tl IH]; intros S S' Hr H; simpl in H.
  - inversion H; subst; assumption.
  - destruct (nth_error (snd S) t) as [th|] eqn:Hn; [|discriminate].
    destruct (tstep (fst S) t th c) as [[[e s'] th']|] eqn:Ht; [|discriminate].
    eapply IH; [|eassumption]. eapply reach_step; [eassumption|]. destruct S as [s ths]. econstructor; eassumption.
Qed.

Definition is_ret (th : thread) : bool := match pg th with Ret => true | _ => false end.
Lemma final_of_forallb S : forallb is_ret (snd S) = true -> final S.
Proof.
  intros H th Hin. rewrite forallb_forall in H. specialize (H _ Hin). unfold is_ret in H.
  destruct (pg th); try discriminate; reflexivity.
Qed.

(** Close runs to completion (skipping its optional syncs), then a Sync that was
    already past the IsOpen test acquires the executor and init() re-opens the
    closed database. *)
Definition sched_close_then_sync : list (nat * bool) :=
  [(0,true);(0,false);(0,false);(0,true);(0,true);(0,true);(0,true);(0,true);(0,true);(0,true);
   (1,true);(1,true);(1,true);(1,true);(1,true);(1,true);(1,true);(1,true);(1,true);(1,false);(1,false);
   (1,true);(1,true);(1,true)].

(** FINDING (model-level witness of the defect reported by the stress as
    C12/closed-db-reinitialised-by-late-sync): "after Close has returned the read
    transaction and the handles stay released" does NOT hold — nothing in the
    protocol stops a later executor holder from running init() again. *)
Theorem close_stays_released_refuted :
  exists S, reach (start [p_close; p_sync]) S /\ final S /\
            rtx (fst S) = true /\ handles (fst S) = true.
Proof.
  destruct (run sched_close_then_sync (start [p_close; p_sync])) as [S|] eqn:E; [|vm_compute in E; discriminate].
  exists S. split; [eapply run_reach; [apply reach_refl | exact E]|].
  vm_compute in E. inversion E; subst; clear E.
  split; [apply final_of_forallb; vm_compute; reflexivity|]. split; reflexivity.
Qed.

(** * Examples: the hypotheses are satisfiable by non-trivial systems *)
Example all_operations_checked : checked (all_progs ++ all_progs ++ [p_register; p_register; p_register]).
Proof.
  apply checked_all_progs. intros p Hp. apply in_app_or in Hp. destruct Hp as [Hp|Hp]; [assumption|].
  apply in_app_or in Hp. destruct Hp as [Hp|Hp]; [assumption|]. simpl in Hp. simpl. tauto.
Qed.

(** a reachable state in which a snapshot is inside its hand-off window while
    another thread waits for the executor: the theorems speak about it *)
Example handoff_window_reachable :
  exists S, reach (start [p_snapshot; p_checkpoint]) S /\ window (fst S) = Some 0 /\
            own (fst S) Exec = Some 0 /\ nonfinal S.
Proof.
  destruct (run [(0,true);(0,true);(0,true);(0,true)] (start [p_snapshot; p_checkpoint])) as [S|] eqn:E;
    [|vm_compute in E; discriminate].
  exists S. split; [eapply run_reach; [apply reach_refl | exact E]|].
  vm_compute in E. inversion E; subst; clear E. repeat split.
  exists 1. eexists. split; [reflexivity|]. discriminate.
Qed.

(** three concurrent registrations: after the schedule below one instance exists *)
Example register_three_no_remove :
  forall p, In p [p_register; p_register; p_register] -> no_remove p = true.
Proof. intros p Hp. simpl in Hp. destruct Hp as [<-|[<-|[<-|[]]]]; vm_compute; reflexivity. Qed.

(** * The monitor's rules are invariants of the LTS

    Every step of a reachable state of a checked system is accepted by
    [mon_step], and the monitor's state IS the system's lock state: the rules the
    trace oracle enforces on an implementation trace (see [Locks.v]) are exactly
    facts that hold of every trace of the LTS. *)
Lemma act_ok_locks_of h g a : act_ok h g a = true -> act_ok_locks h a = true.
Proof. destruct a; simpl; intro H; split_andb; try assumption; try reflexivity; try (apply andb_true_iff; split; assumption). Qed.

Lemma mon_step_of_step S t e S' : Inv S -> step S t e S' -> mon_step (fst S) t e = Some (fst S').
Proof.
  intros HI Hst. inversion Hst as [s ths t0 th c e0 s' th' Hnth Hts]; subst.
  pose proof (I_thr _ HI _ _ Hnth) as Hck. simpl in Hck. simpl.
  destruct th as [p g]. simpl in Hck. unfold tstep in Hts. simpl in Hts.
  destruct p; simpl in Hck; split_andb.
  - discriminate.
  - destruct (can_acq s r) eqn:Hc; [|discriminate]. inversion Hts; subst. simpl. rewrite Hc, H. reflexivity.
  - destruct c.
    + destruct (can_acq s r) eqn:Hc; [|discriminate]. inversion Hts; subst. simpl. rewrite Hc, H. reflexivity.
    + inversion Hts; subst. reflexivity.
  - destruct (can_acq s r) eqn:Hc; inversion Hts; subst; simpl; [rewrite Hc, H|]; reflexivity.
  - inversion Hts; subst. simpl. rewrite H. destruct r; reflexivity.
  - destruct (can_racq s r) eqn:Hc; [|discriminate]. inversion Hts; subst. simpl. rewrite Hc, H. destruct r; reflexivity.
  - inversion Hts; subst. simpl.
    assert (Hm : memb t (rd s r) = true) by (destruct r; assumption).
    rewrite Hm. destruct (rd s r) eqn:E; [simpl in Hm; discriminate | reflexivity].
  - inversion Hts; subst. simpl. rewrite (act_ok_locks_of _ _ _ H). reflexivity.
  - inversion Hts; subst. reflexivity.
  - destruct (Nat.ltb 0 (ndbs s)); inversion Hts; subst; reflexivity.
Qed.

Inductive exec_trace : sys -> list (nat * ev) -> sys -> Prop :=
| et_nil : forall S, exec_trace S [] S
| et_cons : forall S t e S1 tr S2, step S t e S1 -> exec_trace S1 tr S2 -> exec_trace S ((t, e) :: tr) S2.

Lemma exec_trace_reach S0 S tr S' : reach S0 S -> exec_trace S tr S' -> reach S0 S'.
Proof. intros Hr He. induction He; [assumption|]. apply IHHe. eapply reach_step; eassumption. Qed.

Lemma mon_run_of_trace S tr S' : Inv S -> exec_trace S tr S' -> mon_run (fst S) tr = Some (fst S').
Proof.
  intros HI He. induction He; simpl; [reflexivity|].
  rewrite (mon_step_of_step _ _ _ _ HI H). apply IHHe. eapply Inv_step; eassumption.
Qed.

Lemma final_idle S : Inv S -> final S -> idle (fst S) = true.
Proof.
  intros HI Hf. destruct S as [s ths]. simpl in *.
  assert (Ho : forall r, own s r = None).
  { intro r. destruct (own s r) as [u|] eqn:E; [|reflexivity]. exfalso.
    pose proof (I_own _ HI _ _ E) as Hlt. simpl in Hlt.
    destruct (nth_error ths u) as [th|] eqn:Hn; [|apply nth_error_None in Hn; lia].
    pose proof (I_thr _ HI _ _ Hn) as Hck. simpl in Hck. rewrite (Hf _ (nth_error_In _ _ Hn)) in Hck. simpl in Hck.
    unfold nothing, only_exec, held_of in Hck. simpl in Hck.
    destruct r; rewrite E in Hck; simpl in Hck; rewrite Nat.eqb_refl in Hck; simpl in Hck;
      rewrite ?andb_false_r in Hck; discriminate. }
  assert (Hr : forall r, rd s r = []).
  { intro r. destruct (rd s r) as [|u l] eqn:E; [reflexivity|]. exfalso.
    assert (Hin : In u (rd s r)) by (rewrite E; left; reflexivity).
    pose proof (I_rd _ HI _ _ Hin) as Hlt. simpl in Hlt.
    destruct (nth_error ths u) as [th|] eqn:Hn; [|apply nth_error_None in Hn; lia].
    pose proof (I_thr _ HI _ _ Hn) as Hck. simpl in Hck. rewrite (Hf _ (nth_error_In _ _ Hn)) in Hck. simpl in Hck.
    unfold nothing, only_exec, held_of in Hck. simpl in Hck.
    destruct r; rewrite E in Hck; simpl in Hck; rewrite Nat.eqb_refl in Hck; simpl in Hck;
      rewrite ?andb_false_r in Hck; discriminate. }
  unfold idle. rewrite !Ho, !Hr. reflexivity.
Qed.

(** Every trace of the LTS is accepted by the monitor, rule by rule, with the
    monitor's state equal to the system's lock state; complete runs are accepted
    by [trace_ok] (nothing held at the end, no checkpoint inside a hand-off
    window).  Hence an implementation trace that [conc_trace_ok] accepts violates
    none of the facts the theorems above establish for the LTS, and one that it
    rejects exhibits a lock behaviour no LTS trace has. *)
Theorem lts_traces_accepted_thm ps tr S :
  checked ps -> exec_trace (start ps) tr S ->
  mon_run init_state tr = Some (fst S) /\ viol (fst S) = false /\
  (final S -> trace_ok tr = true).
Proof.
  intros Hc He. pose proof (Inv_start _ Hc) as HI0.
  pose proof (mon_run_of_trace _ _ _ HI0 He) as Hm. simpl in Hm.
  assert (HI : Inv S) by (eapply Inv_reach; [eassumption | eapply exec_trace_reach; [apply reach_refl | eassumption]]).
  repeat split; [assumption | apply (I_viol _ HI) |].
  intro Hf. unfold trace_ok. rewrite Hm. rewrite (I_viol _ HI), (final_idle _ HI Hf). reflexivity.
Qed.

(** what acceptance gives directly (no reference to programs): the monitor never
    lets two goroutines own one exclusive lock, a writer coexist with readers, a
    checkpoint run inside a hand-off window *)
Lemma mon_step_excl s t e s' r u :
  mon_step s t e = Some s' -> own s r = Some u -> own s' r = Some u \/ (own s' r = None /\ u = t).
Proof.
  intros H Ho. unfold mon_step in H. destruct e; simpl in H;
    repeat match type of H with
    | (if ?b then _ else _) = _ => destruct b eqn:?
    | match ?l with [] => _ | _ :: _ => _ end = _ => destruct l
    end; try discriminate; inversion H; subst; clear H; simpl; auto.
  - (* EAcq *) apply andb_true_iff in Heqb. destruct Heqb as [Hc _]. apply can_acq_free in Hc.
    destruct (res_eqb r r0) eqn:E; [apply res_eqb_eq in E; subst; congruence | auto].
  - apply andb_true_iff in Heqb. destruct Heqb as [Hc _]. apply can_acq_free in Hc.
    destruct (res_eqb r r0) eqn:E; [apply res_eqb_eq in E; subst; congruence | auto].
  - (* ERel *) rewrite own_rel_state. destruct (res_eqb r r0) eqn:E; [|auto].
    apply res_eqb_eq in E. subst. right. split; [reflexivity|].
    unfold rel_ok in Heqb. apply andb_true_iff in Heqb. destruct Heqb as [Hh _].
    assert (own s r0 = Some t) by (apply is_some_nat_true; destruct r0; assumption). congruence.
  - rewrite own_racq_state. auto.
  - destruct a; simpl; auto.
Qed.
