(** Byte layout of an LTX file exactly as github.com/superfly/ltx v0.5.2 writes
    and reads it (ltx.go: Header/PageHeader/Trailer Marshal/UnmarshalBinary and
    Validate; encoder.go; decoder.go).

      offset  size  field
      0       4     magic "LTX1"
      4       4     Flags            (only bit 1 = HeaderFlagNoChecksum may be set)
      8       4     PageSize
      12      4     Commit
      16      8     MinTXID
      24      8     MaxTXID
      32      8     Timestamp        (int64 stored as uint64)
      40      8     PreApplyChecksum
      48      8     WALOffset        (int64)
      56      8     WALSize          (int64)
      64      4     WALSalt1
      68      4     WALSalt2
      72      8     NodeID
      80      20    reserved: written as zero, ignored by UnmarshalBinary
      100           page block: frames  PageHeader(pgno:4, flags:2) . size:4 . LZ4 block(size)
                    (flags bit 0 = PageHeaderFlagSize, always set by this encoder;
                     a frame without it is the old LZ4-frame format, still read by the decoder)
                    ended by an all-zero PageHeader (6 bytes)
                    page index: uvarint triples (pgno, offset, size)*, uvarint 0,
                    then the byte length of the preceding index as a big-endian u64
                    trailer: PostApplyChecksum:8 . FileChecksum:8

    Everything is big-endian.  Bytes are [N]; a well-formed byte is < 256. *)
From Coq Require Import List NArith Bool Lia Arith.
Import ListNotations.
Open Scope N_scope.

(** ---- fixed-width big-endian integers ----------------------------------- *)

Fixpoint enc_be (n : nat) (v : N) : list N :=
  match n with
  | O => []
  | S k => enc_be k (v / 256) ++ [v mod 256]
  end.

Definition dec_be (l : list N) : N := fold_left (fun a b => a * 256 + b) l 0.

Definition be16 := enc_be 2.
Definition be32 := enc_be 4.
Definition be64 := enc_be 8.

(** ---- unsigned varints (encoding/binary AppendUvarint / ReadUvarint) ---- *)

(** AppendUvarint: [for x >= 0x80 { append(byte(x)|0x80); x >>= 7 }; append(byte(x))].
    A uint64 needs at most 10 bytes; [fuel] = 9 continuation bytes. *)
Fixpoint enc_uvarint_fuel (fuel : nat) (v : N) : list N :=
  if v <? 128 then [v]
  else match fuel with
       | O => [v mod 128]
       | S k => (v mod 128 + 128) :: enc_uvarint_fuel k (v / 128)
       end.
Definition enc_uvarint (v : N) : list N := enc_uvarint_fuel 9 v.

(** ReadUvarint, loop variable [i] counted down as [left = MaxVarintLen64 - i]:
      for i := 0; i < 10; i++ {
        b, err := r.ReadByte();  if err != nil { return x, err }
        if b < 0x80 { if i == 9 && b > 1 { return x, errOverflow }; return x | uint64(b)<<s, nil }
        x |= uint64(b&0x7f) << s;  s += 7 }
      return x, errOverflow
    [None] = any of the errors.  Disjoint bit ranges: [|] is [+]. *)
Fixpoint read_uvarint_loop (left : nat) (x : N) (s : N) (l : list N) : option (N * list N) :=
  match left with
  | O => None
  | S left' =>
      match l with
      | [] => None
      | b :: tl =>
          if b <? 128 then
            (if (Nat.eqb left' 0) && (1 <? b) then None else Some (x + b * 2 ^ s, tl))
          else read_uvarint_loop left' (x + (b mod 128) * 2 ^ s) (s + 7) tl
      end
  end.
Definition read_uvarint (l : list N) : option (N * list N) := read_uvarint_loop 10 0 0 l.

(** ---- header ------------------------------------------------------------- *)

Record header : Type := mkHdr {
  h_flags : N; h_ps : N; h_commit : N; h_min : N; h_max : N; h_ts : N; h_pre : N;
  h_waloff : N; h_walsize : N; h_salt1 : N; h_salt2 : N; h_node : N
}.

Definition magic : list N := [76; 84; 88; 49].      (* "LTX1" *)
Definition header_size : nat := 100.
Definition page_header_size : nat := 6.
Definition trailer_size : nat := 16.
Definition checksum_size : nat := 8.
Definition reserved : list N := repeat 0 20.

Definition hdr_widths : list nat := [4; 4; 4; 8; 8; 8; 8; 8; 8; 4; 4; 8]%nat.
Definition hdr_values (h : header) : list N :=
  [h_flags h; h_ps h; h_commit h; h_min h; h_max h; h_ts h; h_pre h;
   h_waloff h; h_walsize h; h_salt1 h; h_salt2 h; h_node h].
Definition hdr_of_values (l : list N) : header :=
  mkHdr (nth 0 l 0) (nth 1 l 0) (nth 2 l 0) (nth 3 l 0) (nth 4 l 0) (nth 5 l 0) (nth 6 l 0)
        (nth 7 l 0) (nth 8 l 0) (nth 9 l 0) (nth 10 l 0) (nth 11 l 0).

Fixpoint enc_fields (ws : list nat) (vs : list N) : list N :=
  match ws, vs with
  | w :: ws', v :: vs' => enc_be w v ++ enc_fields ws' vs'
  | _, _ => []
  end.
Fixpoint parse_fields (ws : list nat) (b : list N) : list N :=
  match ws with
  | [] => []
  | w :: ws' => dec_be (firstn w b) :: parse_fields ws' (skipn w b)
  end.

(** Header.MarshalBinary *)
Definition enc_header (h : header) : list N :=
  magic ++ enc_fields hdr_widths (hdr_values h) ++ reserved.
(** Header.UnmarshalBinary, the field part (the magic test is made by the caller, after the fields) *)
Definition parse_header (b : list N) : header := hdr_of_values (parse_fields hdr_widths (skipn 4 b)).

Fixpoint list_eqb (a b : list N) : bool :=
  match a, b with
  | [], [] => true
  | x :: a', y :: b' => (x =? y) && list_eqb a' b'
  | _, _ => false
  end.

Definition flag_bit : N := 9223372036854775808.     (* ChecksumFlag = 1 << 63 *)
Definition hflag_nochecksum : N := 2.                (* HeaderFlagNoChecksum = 1 << 1 = HeaderFlagMask *)

Definition is_snapshot_h (h : header) : bool := h_min h =? 1.
Definition no_checksum_h (h : header) : bool := negb (N.land (h_flags h) hflag_nochecksum =? 0).

Definition page_sizes : list N := [512; 1024; 2048; 4096; 8192; 16384; 32768; 65536].
Definition valid_page_size (ps : N) : bool := existsb (N.eqb ps) page_sizes.

(** error classes of the decoder, by the place where the error is returned *)
Definition E_HDR_SHORT : N := 1.       (* DecodeHeader: io.ReadFull *)
Definition E_MAGIC : N := 2.           (* ErrInvalidFile *)
Definition E_HDR_FLAGS : N := 3.
Definition E_HDR_PAGESIZE : N := 4.
Definition E_HDR_MIN0 : N := 5.
Definition E_HDR_MAX0 : N := 6.
Definition E_HDR_ORDER : N := 7.
Definition E_HDR_WALOFF_NEG : N := 8.
Definition E_HDR_WALSIZE_NEG : N := 9.
Definition E_HDR_SALT : N := 10.
Definition E_HDR_WALSIZE : N := 11.
Definition E_HDR_PRE_SNAPSHOT : N := 12.
Definition E_HDR_PRE_NOTALLOWED : N := 13.
Definition E_HDR_PRE_REQUIRED : N := 14.
Definition E_HDR_PRE_FORMAT : N := 15.
Definition E_PH_SHORT : N := 20.       (* DecodePage: page header ReadFull *)
Definition E_PH_PGNO0 : N := 21.       (* PageHeader.Validate: page number required *)
Definition E_PH_FLAGS : N := 22.       (* PageHeader.Validate: invalid flags *)
Definition E_SIZE_SHORT : N := 23.     (* read data size *)
Definition E_DATA_SHORT : N := 24.     (* read compressed data *)
Definition E_LZ4 : N := 25.            (* decompress block *)
Definition E_FRAME : N := 26.          (* old format: LZ4 frame reader *)
Definition E_INDEX : N := 30.          (* Close: read page index *)
Definition E_TRAILER_SHORT : N := 31.  (* Close: trailer ReadFull *)
Definition E_CHECKSUM : N := 32.       (* ErrChecksumMismatch *)
Definition E_POSTAPPLY : N := 33.      (* snapshot post-apply checksum mismatch *)
Definition E_FUEL : N := 99.           (* never returned: see Proofs.page_loop_fuel *)

(** Header.Validate, tests in source order ([Version] is set from the magic by
    UnmarshalBinary, so its test cannot fail on the decoding side). *)
Definition hdr_validate (h : header) : option N :=
  if negb (h_flags h =? N.land (h_flags h) hflag_nochecksum) then Some E_HDR_FLAGS
  else if negb (valid_page_size (h_ps h)) then Some E_HDR_PAGESIZE
  else if h_min h =? 0 then Some E_HDR_MIN0
  else if h_max h =? 0 then Some E_HDR_MAX0
  else if h_max h <? h_min h then Some E_HDR_ORDER
  else if flag_bit <=? h_waloff h then Some E_HDR_WALOFF_NEG       (* int64 < 0 *)
  else if flag_bit <=? h_walsize h then Some E_HDR_WALSIZE_NEG
  else if (negb (h_salt1 h =? 0) || negb (h_salt2 h =? 0)) && (h_waloff h =? 0) then Some E_HDR_SALT
  else if (h_waloff h =? 0) && negb (h_walsize h =? 0) then Some E_HDR_WALSIZE
  else if is_snapshot_h h then
    (if negb (h_pre h =? 0) then Some E_HDR_PRE_SNAPSHOT else None)
  else if no_checksum_h h then
    (if negb (h_pre h =? 0) then Some E_HDR_PRE_NOTALLOWED else None)
  else if h_pre h =? 0 then Some E_HDR_PRE_REQUIRED
  else if N.land (h_pre h) flag_bit =? 0 then Some E_HDR_PRE_FORMAT
  else None.

(** every field fits its width *)
Definition two32 : N := 4294967296.
Definition two64 : N := 18446744073709551616.
Definition hdr_bounded (h : header) : Prop :=
  h_flags h < two32 /\ h_ps h < two32 /\ h_commit h < two32 /\ h_min h < two64 /\ h_max h < two64 /\
  h_ts h < two64 /\ h_pre h < two64 /\ h_waloff h < two64 /\ h_walsize h < two64 /\
  h_salt1 h < two32 /\ h_salt2 h < two32 /\ h_node h < two64.

(** ---- page header, trailer ---------------------------------------------- *)

Definition enc_page_hdr (pgno flags : N) : list N := enc_be 4 pgno ++ enc_be 2 flags.
Definition ph_pgno (phb : list N) : N := dec_be (firstn 4 phb).
Definition ph_flags (phb : list N) : N := dec_be (skipn 4 phb).
Definition end_marker : list N := repeat 0 6.           (* (&PageHeader{}).MarshalBinary() *)
Definition pflag_size : N := 1.                          (* PageHeaderFlagSize *)

Definition enc_trailer (post fcks : N) : list N := enc_be 8 post ++ enc_be 8 fcks.

(** ltx.LockPgno *)
Definition lock_pgno (ps : N) : N := 1073741824 / ps + 1.

(** ---- page index ---------------------------------------------------------- *)

Definition ientry : Type := (N * N * N)%type.     (* pgno, offset, size *)
Definition enc_ientry (e : ientry) : list N :=
  let '(p, o, s) := e in enc_uvarint p ++ enc_uvarint o ++ enc_uvarint s.
(** elements, the uvarint 0 end marker, then the byte length of all that as u64 *)
Definition enc_index_body (idx : list ientry) : list N := flat_map enc_ientry idx ++ enc_uvarint 0.
Definition enc_index (idx : list ientry) : list N :=
  enc_index_body idx ++ enc_be 8 (N.of_nat (length (enc_index_body idx))).

(** DecodePageIndex: [None] = any read error.  The trailing size is read and ignored;
    elements are not checked against the page block. *)
Fixpoint parse_index (fuel : nat) (l : list N) : option (list ientry * list N) :=
  match fuel with
  | O => None
  | S fuel' =>
      match read_uvarint l with
      | None => None
      | Some (pgno, l1) =>
          if pgno =? 0 then
            (if Nat.ltb (length l1) 8 then None else Some ([], skipn 8 l1))
          else match read_uvarint l1 with
               | None => None
               | Some (off, l2) =>
                   match read_uvarint l2 with
                   | None => None
                   | Some (sz, l3) =>
                       match parse_index fuel' l3 with
                       | None => None
                       | Some (idx, r) => Some ((pgno, off, sz) :: idx, r)
                       end
                   end
               end
      end
  end.
