From Coq Require Import List NArith ZArith Bool Lia Arith ZifyN ZifyBool ZifyNat.
From LS Require Ltx.Snapshot.
From LS Require Import Codec.Format Codec.Codec Codec.Lemmas Codec.LoopProofs.
Import ListNotations.
Open Scope N_scope.
Ltac Zify.zify_post_hook ::= Z.div_mod_to_equations.

Lemma enc_run_nonzero snap lock commit l : forall prev,
  Snapshot.enc_run snap lock commit prev l = None -> Forall (fun p => p <> 0) l.
Proof.
  induction l as [|p tl IH]; intros prev H; [constructor|].
  cbn [Snapshot.enc_run] in H. destruct (Snapshot.enc_page snap lock commit prev p) eqn:E; [discriminate|].
  constructor; [|eapply IH; eassumption].
  unfold Snapshot.enc_page in E. destruct (commit <? p); [discriminate|].
  destruct (p =? 0) eqn:E0; [discriminate|]. apply N.eqb_neq. exact E0.
Qed.

Section Main.
Variable compress : list N -> list N.
Variable decompress : list N -> list N -> option (list N).
Variable frame_decode : nat -> list N -> option (list N * nat).
Variable cks : list N -> N.
Hypothesis decompress_compress : forall d buf, length buf = length d -> decompress (compress d) buf = Some d.

Notation wf := (wf compress cks).
Notation encode := (encode compress cks).
Notation decode := (decode decompress frame_decode cks).
Notation decode_full := (decode_full decompress frame_decode cks).
Notation raw_of := (raw_of compress).
Notation page_block := (page_block compress).

Lemma wf_facts f : wf f ->
  hdr_validate (c_hdr f) = None /\
  Forall (page_ok compress (N.to_nat (h_ps (c_hdr f)))) (c_pages f) /\
  Forall ientry_ok (index_of compress 100 (c_pages f)).
Proof.
  intros (Hacc & Hb & Hpost & Hpg & Hidx & Hfc & Hroll).
  unfold enc_accepts in Hacc.
  apply andb_prop in Hacc; destruct Hacc as [Hacc _].
  apply andb_prop in Hacc; destruct Hacc as [Hacc _].
  apply andb_prop in Hacc; destruct Hacc as [Hacc Hlen].
  apply andb_prop in Hacc; destruct Hacc as [Hv Hrun].
  destruct (hdr_validate (c_hdr f)) eqn:EV; [discriminate|].
  destruct (Snapshot.enc_run _ _ _ _ _) eqn:ER in Hrun; [discriminate|].
  apply enc_run_nonzero in ER.
  assert (Hpok : Forall (page_ok compress (N.to_nat (h_ps (c_hdr f)))) (c_pages f)).
  { rewrite forallb_forall in Hlen. rewrite Forall_forall in *. intros p Hin.
    specialize (Hlen p Hin). apply andb_prop in Hlen. destruct Hlen as [Hl _]. apply N.eqb_eq in Hl.
    destruct (Hpg p Hin) as [Hp32 Hcs].
    unfold page_ok. repeat split; try assumption.
    - apply ER. apply in_map. exact Hin.
    - rewrite <- Hl. rewrite Nat2N.id. reflexivity. }
  split; [reflexivity|]. split; [exact Hpok|].
  revert Hpok Hidx. generalize 100. generalize (N.to_nat (h_ps (c_hdr f))). generalize (c_pages f).
  induction l as [|p tl IH]; intros psn off Hp Hi; [constructor|].
  cbn [index_of] in *. apply Forall_cons_iff in Hp. destruct Hp as [(Hp0 & Hp32 & _) Hp'].
  apply Forall_cons_iff in Hi. destruct Hi as [[Ho Hs] Hi']. cbn [fst snd] in *.
  constructor.
  - cbn. repeat split; try assumption. unfold two32, two64 in *. lia.
  - eapply IH; eassumption.
Qed.

Lemma pages_of_raws_raw_of pages :
  Forall (fun p => fst p < two32) pages -> pages_of_raws (map raw_of pages) = pages.
Proof.
  induction 1 as [|[pg d] tl Hp _ IH]; [reflexivity|].
  cbn [map pages_of_raws]. cbn [fst] in Hp. unfold raw_of at 1. cbn [r_phb r_data fst snd].
  rewrite (ph_pgno_enc _ _ Hp). f_equal. exact IH.
Qed.

Lemma length_index_body idx : (length idx < length (enc_index_body idx))%nat.
Proof.
  unfold enc_index_body. rewrite app_length. pose proof (enc_uvarint_nonempty 0).
  assert (length idx <= length (flat_map enc_ientry idx))%nat; [|lia].
  induction idx as [|[[p o] s] tl IH]; [cbn; lia|].
  cbn [flat_map length enc_ientry]. repeat rewrite app_length. pose proof (enc_uvarint_nonempty p). lia.
Qed.

Definition trailer_bytes (f : cfile) : list N :=
  enc_be 8 (c_post f) ++ enc_be 8 (file_checksum compress cks f).

Lemma encode_split f :
  encode f = enc_header (c_hdr f) ++ page_block (c_pages f) ++ end_marker ++
             enc_index_body (index_of compress 100 (c_pages f)) ++
             enc_be 8 (N.of_nat (length (enc_index_body (index_of compress 100 (c_pages f))))) ++ trailer_bytes f.
Proof. unfold Codec.encode, index_bytes, enc_index, trailer_bytes. repeat rewrite <- app_assoc. reflexivity. Qed.

Definition tree_of (f : cfile) : ptree :=
  mkTree (enc_header (c_hdr f)) (map raw_of (c_pages f))
         (index_bytes compress f ++ trailer_bytes f)
         (index_of compress 100 (c_pages f)) (c_post f) (file_checksum compress cks f).

Lemma header_steps f tail : wf f ->
  decode_full (enc_header (c_hdr f) ++ tail) =
  let h := c_hdr f in
  let psn := N.to_nat (h_ps h) in
  match page_loop decompress frame_decode (S (length tail)) psn (repeat 0 psn) tail with
  | DErr e => DErr e
  | DPanic => DPanic
  | DOk (raws, rem) =>
      if Nat.ltb (length rem) checksum_size then DPanic else
      match parse_index (S (length rem)) rem with
      | None => DErr E_INDEX
      | Some (idx, r2) =>
          if Nat.ltb (length r2) trailer_size then DErr E_TRAILER_SHORT else
          let post := dec_be (firstn 8 r2) in
          let fcks := dec_be (firstn 8 (skipn 8 r2)) in
          if negb (cks (tree_stream (enc_header h) raws rem) =? fcks) then DErr E_CHECKSUM else
          if is_snapshot_h h && negb (no_checksum_h h) &&
             negb (post =? rolling cks (h_ps h) (pages_of_raws raws)) then DErr E_POSTAPPLY
          else DOk (mkTree (enc_header h) raws rem idx post fcks)
      end
  end.
Proof.
  intros Hwf. destruct (wf_facts f Hwf) as (Hv & _ & _). destruct Hwf as (_ & Hb & _).
  unfold Codec.decode_full.
  assert (Nat.ltb (length (enc_header (c_hdr f) ++ tail)) header_size = false) as ->
    by (apply Nat.ltb_ge; rewrite app_length, length_enc_header; lia).
  cbv zeta.
  rewrite (firstn_app_len _ _ _ (length_enc_header _)), (skipn_app_len _ _ _ (length_enc_header _)).
  rewrite magic_enc_header. change (negb (list_eqb magic magic)) with false. cbv iota.
  rewrite (parse_enc_header _ Hb). rewrite Hv. reflexivity.
Qed.

Lemma decode_full_encode f : wf f -> decode_full (encode f) = DOk (tree_of f).
Proof.
  intros Hwf. destruct (wf_facts f Hwf) as (Hv & Hpok & Hiok).
  pose proof Hwf as (_ & Hb & Hpost & Hpg & _ & Hfc & Hroll).
  rewrite encode_split. rewrite (header_steps f _ Hwf). cbv zeta.
  rewrite (page_loop_enc compress decompress frame_decode decompress_compress);
    [|assumption|apply repeat_length|lia].
  set (idx := index_of compress 100 (c_pages f)) in *.
  set (sz8 := enc_be 8 (N.of_nat (length (enc_index_body idx)))).
  assert (Hsz8 : length sz8 = 8%nat) by apply length_enc_be.
  assert (Htl : length (trailer_bytes f) = 16%nat)
    by (unfold trailer_bytes; rewrite app_length, !length_enc_be; reflexivity).
  assert (Nat.ltb (length (enc_index_body idx ++ sz8 ++ trailer_bytes f)) checksum_size = false) as ->
    by (apply Nat.ltb_ge; rewrite !app_length; unfold checksum_size; lia).
  rewrite (parse_index_enc idx _ sz8 (trailer_bytes f) Hiok Hsz8)
    by (pose proof (length_index_body idx); rewrite !app_length; lia).
  assert (Hstream : tree_stream (enc_header (c_hdr f)) (map raw_of (c_pages f))
                      (enc_index_body idx ++ sz8 ++ trailer_bytes f) = stream compress f).
  { unfold tree_stream, hashed_rem, stream, index_bytes, enc_index. fold idx. fold sz8.
    unfold trailer_bytes. f_equal. f_equal. f_equal.
    replace (enc_index_body idx ++ sz8 ++ enc_be 8 (c_post f) ++ enc_be 8 (file_checksum compress cks f))
      with (((enc_index_body idx ++ sz8) ++ enc_be 8 (c_post f)) ++ enc_be 8 (file_checksum compress cks f))
      by (repeat rewrite <- app_assoc; reflexivity).
    rewrite firstn_app_len; [reflexivity|].
    rewrite (app_length _ (enc_be 8 (file_checksum compress cks f))), length_enc_be. unfold checksum_size. lia. }
  rewrite Hstream.
  assert (Nat.ltb (length (trailer_bytes f)) trailer_size = false) as ->
    by (apply Nat.ltb_ge; rewrite Htl; unfold trailer_size; lia).
  unfold trailer_bytes.
  rewrite (firstn_app_len _ _ _ (length_enc_be 8 _)), (skipn_app_len _ _ _ (length_enc_be 8 _)).
  rewrite (firstn_all2 (enc_be 8 _)) by (rewrite length_enc_be; lia).
  rewrite (dec_enc_be8 _ Hpost), (dec_enc_be8 _ Hfc).
  unfold file_checksum at 1. rewrite N.eqb_refl. cbn [negb]. cbv iota.
  rewrite pages_of_raws_raw_of by (eapply Forall_impl; [|exact Hpg]; intros a [Ha _]; exact Ha).
  assert (is_snapshot_h (c_hdr f) && negb (no_checksum_h (c_hdr f)) &&
          negb (c_post f =? rolling cks (h_ps (c_hdr f)) (c_pages f)) = false) as ->.
  { destruct (is_snapshot_h (c_hdr f) && negb (no_checksum_h (c_hdr f))) eqn:E; [|reflexivity].
    rewrite <- (Hroll eq_refl). rewrite N.eqb_refl. reflexivity. }
  unfold tree_of, index_bytes, enc_index. fold idx. fold sz8. repeat rewrite <- app_assoc. reflexivity.
Qed.

Lemma file_of_tree_of f : wf f -> file_of_tree (tree_of f) = f.
Proof.
  intros (_ & Hb & _ & Hpg & _). unfold file_of_tree, tree_of. cbn [t_hb t_raws t_post].
  rewrite (parse_enc_header _ Hb).
  rewrite pages_of_raws_raw_of by (eapply Forall_impl; [|exact Hpg]; intros a [Ha _]; exact Ha).
  destruct f; reflexivity.
Qed.

(** ROUND TRIP: any number of pages, every page size *)
Theorem decode_encode f : wf f -> decode (encode f) = DOk f.
Proof.
  intros Hwf. unfold Codec.decode. rewrite (decode_full_encode f Hwf). rewrite (file_of_tree_of f Hwf). reflexivity.
Qed.

Theorem encode_injective f g : wf f -> wf g -> encode f = encode g -> f = g.
Proof.
  intros Hf Hg E. pose proof (decode_encode f Hf) as D1. rewrite E, (decode_encode g Hg) in D1.
  injection D1 as ->. reflexivity.
Qed.
End Main.
