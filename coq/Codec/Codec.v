(** [encode] = ltx.Encoder (EncodeHeader, EncodePage*, Close) and [decode] =
    ltx.Decoder driven as ltx.Compactor / Decoder.Verify drive it
    (DecodeHeader, DecodePage until io.EOF with ONE reused page buffer, Close),
    on bytes.  ltx v0.5.2, encoder.go / decoder.go, branch for branch.

    Abstract (Section variables, explicit premises of every closed theorem):
      [compress]      lz4.Compressor.CompressBlock
      [decompress]    lz4.UncompressBlock(src, dst): a function of the block AND of
                      the previous content of the destination buffer; [Some out] =
                      the content of dst afterwards, [None] = error (the byte count
                      it returns is ignored by DecodePage)
      [frame_decode]  the old page format (no PageHeaderFlagSize): the LZ4 frame
                      reader filling a page buffer; result = page data and the
                      number of input bytes consumed
      [cks]           [ChecksumFlag | crc64-ISO(s)] — every use of the hash in the
                      library is OR-ed with the flag before it is stored or compared.

    WHAT THE FILE CHECKSUM COVERS (verified against the code, see [stream]):
    the 100 header bytes, every page header, every 4-byte size prefix, the
    UNCOMPRESSED page data (encoder: [enc.hash.Write(data)]; decoder:
    [writeToHash(data)] after decompression — the compressed bytes are never
    hashed), the zero page header, the page index with its trailing length, and
    the first 8 bytes of the trailer.  The decoder does not hash "index + half
    trailer" by structure but by position: everything after the end marker
    except the LAST 8 BYTES of the input ([remainingBytes[:len-8]]), computed
    before any length check — with fewer than 8 bytes left the slice expression
    panics (finding F7, outcome [DPanic]).

    What the decoder does NOT check (so neither does [decode]): page-number
    order, the snapshot sequence, pgno <= Commit, the lock page, that index
    entries describe the page block, that nothing follows the trailer.  These
    are rules of the ENCODER ([enc_accepts], reusing Ltx/Snapshot.v [enc_run]);
    DecodeDatabaseTo (Ltx/Apply.v [decode_db]) re-checks the snapshot sequence. *)
From Coq Require Import List NArith Bool Lia Arith.
From LS Require Ltx.File Ltx.Snapshot.
From LS Require Import Codec.Format.
Import ListNotations.
Open Scope N_scope.

(** a concrete LTX file: header, page frames in file order (pgno, page bytes),
    trailer PostApplyChecksum.  The page index and the file checksum are derived. *)
Record cfile : Type := mkC { c_hdr : header; c_pages : list (N * list N); c_post : N }.

Inductive outcome (A : Type) : Type :=
| DOk (a : A)
| DErr (code : N)
| DPanic.                (* runtime panic: slice bounds out of range in Decoder.Close *)
Arguments DOk {A} a.
Arguments DErr {A} code.
Arguments DPanic {A}.

(** one decoded page frame, as the bytes that went into the hash *)
Record praw : Type := mkRaw {
  r_phb : list N;      (* the 6 page-header bytes *)
  r_szb : list N;      (* the 4 size-prefix bytes; [] for an old-format frame *)
  r_data : list N      (* the page buffer after this frame was decoded *)
}.

(** everything the decoder read from a file it accepted *)
Record ptree : Type := mkTree {
  t_hb : list N;             (* header bytes *)
  t_raws : list praw;
  t_rem : list N;            (* all bytes after the zero page header *)
  t_idx : list ientry;
  t_post : N;                (* Trailer.PostApplyChecksum *)
  t_fcks : N                 (* Trailer.FileChecksum *)
}.

(** a Go slice keeps its length: whatever the abstract LZ4 functions return is
    cut / zero-padded to the page-buffer length, so that fact needs no hypothesis *)
Definition fit (n : nat) (out : list N) : list N := firstn n out ++ repeat 0 (n - length out).

Definition stream_raw (r : praw) : list N := r_phb r ++ r_szb r ++ r_data r.
Definition stream_pages (raws : list praw) : list N := flat_map stream_raw raws.

Section Codec.
Variable compress : list N -> list N.
Variable decompress : list N -> list N -> option (list N).
Variable frame_decode : nat -> list N -> option (list N * nat).
Variable cks : list N -> N.

(** ChecksumPage(pgno, data) = ChecksumFlag | crc64(be32 pgno . data) *)
Definition checksum_page (pgno : N) (data : list N) : N := cks (enc_be 4 pgno ++ data).

(** the decoder's running snapshot checksum:
    [dec.chksum = ChecksumFlag]; per page other than the lock page
    [dec.chksum = ChecksumFlag | (dec.chksum ^ ChecksumPage(pgno, data))] *)
Definition rolling (ps : N) (pages : list (N * list N)) : N :=
  fold_left (fun c p => if fst p =? lock_pgno ps then c
                        else N.lor flag_bit (N.lxor c (checksum_page (fst p) (snd p))))
            pages flag_bit.

(** ---- encoder ----------------------------------------------------------- *)

Definition csize (d : list N) : N := N.of_nat (length (compress d)).

Definition raw_of (p : N * list N) : praw :=
  mkRaw (enc_page_hdr (fst p) pflag_size) (enc_be 4 (csize (snd p))) (snd p).

(** EncodePage: header with PageHeaderFlagSize, size prefix, LZ4 block *)
Definition enc_frame (p : N * list N) : list N :=
  r_phb (raw_of p) ++ r_szb (raw_of p) ++ compress (snd p).

Definition page_block (pages : list (N * list N)) : list N := flat_map enc_frame pages.

(** enc.index[pgno] = {Offset: enc.n before the frame, Size: frame length}; written
    sorted by pgno, which for an accepted file (increasing pgnos) is file order *)
Fixpoint index_of (off : N) (pages : list (N * list N)) : list ientry :=
  match pages with
  | [] => []
  | p :: tl => let sz := N.of_nat (length (enc_frame p)) in (fst p, off, sz) :: index_of (off + sz) tl
  end.

Definition index_bytes (f : cfile) : list N := enc_index (index_of 100 (c_pages f)).

(** the byte string the encoder feeds to the hash (see the header comment) *)
Definition stream (f : cfile) : list N :=
  enc_header (c_hdr f) ++ stream_pages (map raw_of (c_pages f)) ++ end_marker ++
  index_bytes f ++ enc_be 8 (c_post f).

Definition file_checksum (f : cfile) : N := cks (stream f).

Definition encode (f : cfile) : list N :=
  enc_header (c_hdr f) ++ page_block (c_pages f) ++ end_marker ++
  index_bytes f ++ enc_be 8 (c_post f) ++ enc_be 8 (file_checksum f).

(** offset right after the zero page header: the F7 window is [end_off .. end_off+7] *)
Definition end_off (f : cfile) : nat := (header_size + length (page_block (c_pages f)) + page_header_size)%nat.

(** What the encoder accepts: EncodeHeader (Header.Validate), EncodePage
    (pgno <= Commit, pgno <> 0, page length, lock page, snapshot sequence /
    increasing order — [Snapshot.enc_run] —, "lz4 block compression failed" when
    the block is empty), Close (Trailer.Validate, zero-length database rule). *)
Definition trailer_ok (h : header) (post : N) : bool :=
  if no_checksum_h h then post =? 0
  else negb (post =? 0) && negb (N.land post flag_bit =? 0).

Definition enc_accepts (f : cfile) : bool :=
  let h := c_hdr f in
  match hdr_validate h with Some _ => false | None => true end &&
  match Snapshot.enc_run (is_snapshot_h h) (lock_pgno (h_ps h)) (h_commit h) 0 (map fst (c_pages f)) with
  | Some _ => false | None => true end &&
  forallb (fun p => (N.of_nat (length (snd p)) =? h_ps h) && negb (csize (snd p) =? 0)) (c_pages f) &&
  trailer_ok h (c_post f) &&
  negb ((h_commit h =? 0) && negb (c_post f =? flag_bit)).

(** ---- decoder ----------------------------------------------------------- *)

(** DecodePage until io.EOF.  [buf] is the caller's page buffer, reused from
    frame to frame: UncompressBlock's byte count is ignored by DecodePage, so a
    block that decompresses to fewer than PageSize bytes leaves bytes of the
    previous page in place — and that is what gets hashed and handed on; hence
    [decompress] takes the old buffer content.
    Result: the frames and the bytes after the zero page header. *)
Fixpoint page_loop (fuel : nat) (psn : nat) (buf : list N) (b : list N) : outcome (list praw * list N) :=
  match fuel with
  | O => DErr E_FUEL
  | S fuel' =>
      if Nat.ltb (length b) page_header_size then DErr E_PH_SHORT else
      let phb := firstn page_header_size b in
      let b1 := skipn page_header_size b in
      (* hdr.IsZero(): end of the page block *)
      if (ph_pgno phb =? 0) && (ph_flags phb =? 0) then DOk ([], b1) else
      (* hdr.Validate() *)
      if ph_pgno phb =? 0 then DErr E_PH_PGNO0 else
      if negb (N.land (ph_flags phb) 65534 =? 0) then DErr E_PH_FLAGS else
      if negb (N.land (ph_flags phb) pflag_size =? 0) then
        if Nat.ltb (length b1) 4 then DErr E_SIZE_SHORT else
        let szb := firstn 4 b1 in
        let b2 := skipn 4 b1 in
        if N.of_nat (length b2) <? dec_be szb then DErr E_DATA_SHORT else
        let cn := N.to_nat (dec_be szb) in
        match decompress (firstn cn b2) buf with
        | None => DErr E_LZ4
        | Some out =>
            let data := fit psn out in
            match page_loop fuel' psn data (skipn cn b2) with
            | DOk (l, r) => DOk (mkRaw phb szb data :: l, r)
            | DErr e => DErr e
            | DPanic => DPanic
            end
        end
      else
        match frame_decode psn b1 with
        | None => DErr E_FRAME
        | Some (out, used) =>
            let data := fit psn out in
            match page_loop fuel' psn data (skipn used b1) with
            | DOk (l, r) => DOk (mkRaw phb [] data :: l, r)
            | DErr e => DErr e
            | DPanic => DPanic
            end
        end
  end.

Definition pages_of_raws (raws : list praw) : list (N * list N) :=
  map (fun r => (ph_pgno (r_phb r), r_data r)) raws.

(** what Decoder.Close feeds to the hash after the page block *)
Definition hashed_rem (rem : list N) : list N := firstn (length rem - checksum_size) rem.

Definition tree_stream (hb : list N) (raws : list praw) (rem : list N) : list N :=
  hb ++ stream_pages raws ++ end_marker ++ hashed_rem rem.

Definition decode_full (b : list N) : outcome ptree :=
  (* DecodeHeader: io.ReadFull(100); UnmarshalBinary (fields, then the magic); Validate *)
  if Nat.ltb (length b) header_size then DErr E_HDR_SHORT else
  let hb := firstn header_size b in
  let h := parse_header hb in
  if negb (list_eqb (firstn 4 hb) magic) then DErr E_MAGIC else
  match hdr_validate h with
  | Some e => DErr e
  | None =>
      let psn := N.to_nat (h_ps h) in
      let rest := skipn header_size b in
      match page_loop (S (length rest)) psn (repeat 0 psn) rest with
      | DErr e => DErr e
      | DPanic => DPanic
      | DOk (raws, rem) =>
          (* Close: remainingBytes[:len(remainingBytes)-ChecksumSize] comes first *)
          if Nat.ltb (length rem) checksum_size then DPanic else
          match parse_index (S (length rem)) rem with
          | None => DErr E_INDEX
          | Some (idx, r2) =>
              if Nat.ltb (length r2) trailer_size then DErr E_TRAILER_SHORT else
              let post := dec_be (firstn 8 r2) in
              let fcks := dec_be (firstn 8 (skipn 8 r2)) in
              if negb (cks (tree_stream hb raws rem) =? fcks) then DErr E_CHECKSUM else
              if is_snapshot_h h && negb (no_checksum_h h) &&
                 negb (post =? rolling (h_ps h) (pages_of_raws raws)) then DErr E_POSTAPPLY
              else DOk (mkTree hb raws rem idx post fcks)
          end
      end
  end.

Definition file_of_tree (t : ptree) : cfile :=
  mkC (parse_header (t_hb t)) (pages_of_raws (t_raws t)) (t_post t).

Definition decode (b : list N) : outcome cfile :=
  match decode_full b with
  | DOk t => DOk (file_of_tree t)
  | DErr e => DErr e
  | DPanic => DPanic
  end.

(** the two values Decoder.Close compares, for an input it parsed to the end *)
Definition hashed (b : list N) : option (list N) :=
  match decode_full b with DOk t => Some (tree_stream (t_hb t) (t_raws t) (t_rem t)) | _ => None end.

(** a file the encoder can have produced: accepted, every field fits its width,
    compressed sizes fit the prefix, the checksum function yields 64-bit
    values, and a checksum-tracking snapshot carries the rolling checksum the
    decoder recomputes (the encoder takes it from its caller). *)
Definition wf (f : cfile) : Prop :=
  enc_accepts f = true /\ hdr_bounded (c_hdr f) /\ c_post f < two64 /\
  Forall (fun p => fst p < two32 /\ csize (snd p) < two32) (c_pages f) /\
  (* offsets and frame sizes fit a uvarint (implied by a file shorter than 2^64 bytes) *)
  Forall (fun e : ientry => snd (fst e) < two64 /\ snd e < two64) (index_of 100 (c_pages f)) /\
  file_checksum f < two64 /\
  (is_snapshot_h (c_hdr f) && negb (no_checksum_h (c_hdr f)) = true ->
   c_post f = rolling (h_ps (c_hdr f)) (c_pages f)).

(** ---- abstraction to Ltx/File.v ------------------------------------------ *)
(** page bytes are named by [name] (any function with [name zeros = zero_page]
    suits Ltx/Apply.v); header fields the abstract layer keeps *)
Definition abs_file (name : list N -> File.content) (f : cfile) : File.ltx :=
  File.mkLtx (h_ps (c_hdr f)) (h_min (c_hdr f)) (h_max (c_hdr f)) (h_commit (c_hdr f)) (h_ts (c_hdr f))
             (map (fun p => (fst p, name (snd p))) (c_pages f)).
End Codec.
