From Coq Require Import List NArith ZArith Bool Lia Arith ZifyN ZifyBool ZifyNat.
From LS Require Ltx.File Faults.Restore.
From LS Require Import Codec.Format Codec.Codec Codec.Lemmas Codec.LoopProofs Codec.RoundTrip.
From LS Require Export Codec.TruncProofs.
Import ListNotations.
Open Scope N_scope.
Ltac Zify.zify_post_hook ::= Z.div_mod_to_equations.

Lemma list_eqb_eq a : forall b, list_eqb a b = true <-> a = b.
Proof.
  induction a as [|x a IH]; intros [|y b]; cbn; split; intro H; try discriminate; try reflexivity.
  - apply andb_prop in H. destruct H as [H1 H2]. apply N.eqb_eq in H1. apply IH in H2. congruence.
  - injection H as -> ->. rewrite N.eqb_refl. cbn. apply IH. reflexivity.
Qed.

Lemma length_fit' n out : length (fit n out) = n.
Proof. unfold fit. rewrite app_length, firstn_length, repeat_length. lia. Qed.

(** invariant of every frame the page loop accepts, on ANY input *)
Definition raw_inv (psn : nat) (r : praw) : Prop :=
  length (r_phb r) = 6%nat /\ ~ (ph_pgno (r_phb r) = 0 /\ ph_flags (r_phb r) = 0) /\
  length (r_szb r) = (if (N.land (ph_flags (r_phb r)) pflag_size =? 0)%N then 0 else 4)%nat /\
  length (r_data r) = psn.

Lemma raw_inv_mk psn phb szb data :
  length phb = 6%nat -> ~ (ph_pgno phb = 0 /\ ph_flags phb = 0) ->
  length szb = (if (N.land (ph_flags phb) pflag_size =? 0)%N then 0 else 4)%nat ->
  length data = psn -> raw_inv psn (mkRaw phb szb data).
Proof. intros. unfold raw_inv. cbn. auto. Qed.

Lemma stream_pages_inj n l1 : forall l2 x1 x2,
  Forall (raw_inv n) l1 -> Forall (raw_inv n) l2 ->
  stream_pages l1 ++ end_marker ++ x1 = stream_pages l2 ++ end_marker ++ x2 -> l1 = l2 /\ x1 = x2.
Proof.
  assert (Hz : forall r x y, raw_inv n r -> end_marker ++ x = stream_raw r ++ y -> False).
  { intros r x y (L6 & Hnz & _) E. unfold stream_raw in E. rewrite <- app_assoc in E.
    apply app_inv_len in E; [|rewrite L6; reflexivity]. destruct E as [E _]. apply Hnz. rewrite <- E. split; reflexivity. }
  induction l1 as [|r1 t1 IH]; intros [|r2 t2] x1 x2 H1 H2 E.
  - cbn [stream_pages flat_map app] in E. apply app_inv_head in E. auto.
  - exfalso. apply Forall_cons_iff in H2. destruct H2 as [H2 _].
    unfold stream_pages in *. cbn [flat_map app] in E. rewrite <- app_assoc in E. exact (Hz r2 x1 _ H2 E).
  - exfalso. apply Forall_cons_iff in H1. destruct H1 as [H1 _].
    unfold stream_pages in *. cbn [flat_map app] in E. rewrite <- app_assoc in E. symmetry in E. exact (Hz r1 x2 _ H1 E).
  - apply Forall_cons_iff in H1. destruct H1 as [(A6 & _ & Asz & Ad) H1].
    apply Forall_cons_iff in H2. destruct H2 as [(B6 & _ & Bsz & Bd) H2].
    cbn [stream_pages flat_map] in E. fold (stream_pages t1) in E. fold (stream_pages t2) in E.
    unfold stream_raw in E. repeat rewrite <- app_assoc in E.
    apply app_inv_len in E; [|congruence]. destruct E as [Eph E].
    rewrite Eph in Asz. apply app_inv_len in E; [|congruence]. destruct E as [Esz E].
    apply app_inv_len in E; [|congruence]. destruct E as [Ed E].
    destruct (IH t2 x1 x2 H1 H2 E) as [-> ->]. split; [|reflexivity].
    destruct r1, r2; cbn in *; congruence.
Qed.

Section Flip.
Variable compress : list N -> list N.
Variable decompress : list N -> list N -> option (list N).
Variable frame_decode : nat -> list N -> option (list N * nat).
Variable cks : list N -> N.

Notation wf := (wf compress cks).
Notation encode := (encode compress cks).
Notation decode := (decode decompress frame_decode cks).
Notation decode_full := (decode_full decompress frame_decode cks).
Notation ploop := (page_loop decompress frame_decode).

Lemma page_loop_inv fuel : forall psn buf b raws rem,
  ploop fuel psn buf b = DOk (raws, rem) -> Forall (raw_inv psn) raws.
Proof.
  induction fuel as [|fuel IH]; intros psn buf b raws rem H; [discriminate|].
  rewrite page_loop_S in H.
  destruct (Nat.ltb (length b) page_header_size) eqn:E1; [discriminate|]. apply Nat.ltb_ge in E1.
  cbv zeta in H.
  set (phb := firstn page_header_size b) in *.
  assert (L6 : length phb = 6%nat) by (unfold phb; rewrite firstn_length; unfold page_header_size in *; lia).
  destruct ((ph_pgno phb =? 0) && (ph_flags phb =? 0)) eqn:E2.
  { injection H as <- _. constructor. }
  assert (Hnz : ~ (ph_pgno phb = 0 /\ ph_flags phb = 0)).
  { intros [A B]. rewrite A, B in E2. discriminate. }
  destruct (ph_pgno phb =? 0); [discriminate|].
  destruct (negb (N.land (ph_flags phb) 65534 =? 0)); [discriminate|].
  destruct (N.land (ph_flags phb) pflag_size =? 0) eqn:E5; unfold negb in H; cbv iota in H.
  - destruct (frame_decode psn (skipn page_header_size b)) as [[out used]|]; [|discriminate].
    destruct (ploop fuel psn (fit psn out) _) as [[l r]| |] eqn:Er; try discriminate.
    injection H as <- <-. constructor; [|eapply IH; exact Er].
    apply raw_inv_mk; auto; [rewrite E5; reflexivity|apply length_fit'].
  - destruct (Nat.ltb (length (skipn page_header_size b)) 4) eqn:E6; [discriminate|]. apply Nat.ltb_ge in E6.
    assert (L4 : length (firstn 4 (skipn page_header_size b)) = 4%nat) by (rewrite firstn_length; lia).
    destruct (N.of_nat _ <? _); [discriminate|].
    destruct (decompress _ buf) as [out|]; [|discriminate].
    destruct (ploop fuel psn (fit psn out) _) as [[l r]| |] eqn:Er; try discriminate.
    injection H as <- <-. constructor; [|eapply IH; exact Er].
    apply raw_inv_mk; auto; [rewrite E5; exact L4|apply length_fit'].
Qed.

Lemma raw_of_inv psn p : page_ok compress psn p -> raw_inv psn (raw_of compress p).
Proof.
  intros (Hp0 & Hp32 & Hcs & Hlen). destruct p as [pg d]. cbn [fst snd] in *.
  unfold raw_of. cbn [fst snd]. apply raw_inv_mk.
  - apply length_page_hdr.
  - rewrite (ph_pgno_enc _ _ Hp32). intros [A _]. contradiction.
  - rewrite (ph_flags_enc pg pflag_size) by reflexivity.
    change (N.land pflag_size pflag_size =? 0) with false. cbv iota. apply length_enc_be.
  - exact Hlen.
Qed.

(** the structural part of the decoder: everything but the two checksum comparisons *)
Definition parse_only (b : list N) : outcome ptree :=
  if Nat.ltb (length b) header_size then DErr E_HDR_SHORT else
  let hb := firstn header_size b in
  let h := parse_header hb in
  if negb (list_eqb (firstn 4 hb) magic) then DErr E_MAGIC else
  match hdr_validate h with
  | Some e => DErr e
  | None =>
      let psn := N.to_nat (h_ps h) in
      let rest := skipn header_size b in
      match ploop (S (length rest)) psn (repeat 0 psn) rest with
      | DErr e => DErr e
      | DPanic => DPanic
      | DOk (raws, rem) =>
          if Nat.ltb (length rem) checksum_size then DPanic else
          match parse_index (S (length rem)) rem with
          | None => DErr E_INDEX
          | Some (idx, r2) =>
              if Nat.ltb (length r2) trailer_size then DErr E_TRAILER_SHORT else
              DOk (mkTree hb raws rem idx (dec_be (firstn 8 r2)) (dec_be (firstn 8 (skipn 8 r2))))
          end
      end
  end.

Definition tstream (t : ptree) : list N := tree_stream (t_hb t) (t_raws t) (t_rem t).
Definition postapply_fails (t : ptree) : bool :=
  let h := parse_header (t_hb t) in
  is_snapshot_h h && negb (no_checksum_h h) &&
  negb (t_post t =? rolling cks (h_ps h) (pages_of_raws (t_raws t))).

(** Decoder = structural parse, then FileChecksum comparison, then the snapshot post-apply comparison *)
Lemma decode_full_parse b :
  decode_full b =
  match parse_only b with
  | DOk t => if negb (cks (tstream t) =? t_fcks t) then DErr E_CHECKSUM
             else if postapply_fails t then DErr E_POSTAPPLY else DOk t
  | DErr e => DErr e
  | DPanic => DPanic
  end.
Proof.
  unfold Codec.decode_full, parse_only.
  destruct (Nat.ltb (length b) header_size); [reflexivity|]. cbv zeta.
  destruct (negb (list_eqb _ magic)); [reflexivity|].
  destruct (hdr_validate _); [reflexivity|].
  destruct (ploop _ _ _ _) as [[raws rem]| |]; try reflexivity.
  destruct (Nat.ltb (length rem) checksum_size); [reflexivity|].
  destruct (parse_index _ rem) as [[idx r2]|]; [|reflexivity].
  destruct (Nat.ltb (length r2) trailer_size); reflexivity.
Qed.


(** a structurally accepted input whose hashed stream is the stream of [encode f] IS [f]:
    the stream determines header, pages (uncompressed) and post-apply checksum *)
Lemma same_stream_same_file f b t : wf f ->
  parse_only b = DOk t -> tstream t = stream compress f -> file_of_tree t = f.
Proof.
  intros Hwf Hp Hs. destruct (wf_facts compress frame_decode cks f Hwf) as (Hv & Hpok & Hiok).
  pose proof Hwf as (_ & Hb & Hpost & Hpg & _ & Hfc & _).
  unfold parse_only in Hp.
  destruct (Nat.ltb (length b) header_size) eqn:E1; [discriminate|]. apply Nat.ltb_ge in E1. cbv zeta in Hp.
  assert (Lhb : length (firstn header_size b) = header_size) by (rewrite firstn_length; lia).
  remember (firstn header_size b) as hb eqn:Ehb. remember (skipn header_size b) as rest eqn:Erest. clear Ehb Erest.
  destruct (negb (list_eqb _ magic)); [discriminate|].
  destruct (hdr_validate _); [discriminate|].
  destruct (ploop _ _ _ _) as [[raws rem]| |] eqn:Epl; try discriminate.
  destruct (Nat.ltb (length rem) checksum_size) eqn:E8; [discriminate|]. apply Nat.ltb_ge in E8.
  destruct (parse_index _ rem) as [[idx r2]|] eqn:Epi; [|discriminate].
  destruct (Nat.ltb (length r2) trailer_size); [discriminate|].
  injection Hp as <-. unfold tstream in Hs. cbn [t_hb t_raws t_rem] in Hs.
  unfold tree_stream, stream in Hs.
  apply app_inv_len in Hs; [|rewrite length_enc_header; exact Lhb].
  destruct Hs as [Hhb Hs].
  unfold file_of_tree. cbn [t_hb t_raws t_post].
  rewrite Hhb in *. rewrite (parse_enc_header _ Hb) in *.
  apply page_loop_inv in Epl.
  apply stream_pages_inj with (n := N.to_nat (h_ps (c_hdr f))) in Hs; [|exact Epl|].
  2:{ apply Forall_map. eapply Forall_impl; [|exact Hpok]. intros p. apply raw_of_inv. }
  destruct Hs as [-> Hrem].
  rewrite pages_of_raws_raw_of by (eapply Forall_impl; [|exact Hpg]; intros a [Ha _]; exact Ha).
  (* the trailer's post-apply field sits right after the index, which is inside the hashed part *)
  assert (Hsplit : rem = hashed_rem rem ++ skipn (length rem - checksum_size) rem)
    by (unfold hashed_rem; symmetry; apply firstn_skipn).
  set (last8 := skipn (length rem - checksum_size) rem) in *.
  rewrite Hrem in Hsplit. unfold index_bytes, enc_index in Hsplit. repeat rewrite <- app_assoc in Hsplit.
  rewrite Hsplit in Epi.
  rewrite (parse_index_enc _ _ _ _ Hiok (length_enc_be 8 _)) in Epi.
  2:{ pose proof (length_index_body (index_of compress 100 (c_pages f))). rewrite !app_length. lia. }
  assert (Hr2 : r2 = enc_be 8 (c_post f) ++ last8) by congruence.
  assert (Hpost' : dec_be (firstn 8 (enc_be 8 (c_post f) ++ last8)) = c_post f)
    by (rewrite (firstn_app_len _ _ _ (length_enc_be 8 _)); apply (dec_enc_be8 _ Hpost)).
  rewrite Hr2. destruct f as [h pgs post]. cbn [c_hdr c_pages c_post] in *. f_equal. exact Hpost'.
Qed.

(** SINGLE-BYTE CHANGES (and any other damage), modulo the hash: whatever bytes
    [b'] the decoder is given, if it accepts them then either they decode to
    exactly [f], or the CRC of a stream different from [stream f] came out equal
    to the 8 bytes it was compared with. The per-input hypothesis excludes the
    second case; nothing is assumed about LZ4 on damaged blocks. *)
Theorem flip_detected_modulo_hash f b' : wf f ->
  (forall t', parse_only b' = DOk t' -> tstream t' <> stream compress f -> cks (tstream t') <> t_fcks t') ->
  decode b' = DOk f \/ (exists e, decode b' = DErr e) \/ decode b' = DPanic.
Proof.
  intros Hwf Hhash. unfold Codec.decode. rewrite decode_full_parse.
  destruct (parse_only b') as [t'| e |] eqn:Ep; [|right; left; eexists; reflexivity|right; right; reflexivity].
  destruct (negb (cks (tstream t') =? t_fcks t')) eqn:Ec; [right; left; eexists; reflexivity|].
  destruct (postapply_fails t'); [right; left; eexists; reflexivity|].
  left. f_equal. apply negb_false_iff, N.eqb_eq in Ec.
  destruct (list_eq_dec N.eq_dec (tstream t') (stream compress f)) as [Es|Es].
  - eapply same_stream_same_file; eassumption.
  - exfalso. exact (Hhash t' eq_refl Es Ec).
Qed.

(** the damaged frame spelled out: a frame whose block bytes are ANY [blk'] of a
    length the size prefix announces.  What is hashed and handed on is the
    decompression of [blk'] into the reused buffer — so a flip inside the
    compressed data that LZ4 decodes to the same page bytes leaves the stream
    (and the file) unchanged, and anything else changes the stream. *)
Lemma frame_step_any_block pgno blk' fuel psn buf tail :
  pgno <> 0 -> pgno < two32 -> N.of_nat (length blk') < two32 ->
  ploop (S fuel) psn buf (enc_page_hdr pgno pflag_size ++ enc_be 4 (N.of_nat (length blk')) ++ blk' ++ tail) =
  match decompress blk' buf with
  | None => DErr E_LZ4
  | Some out =>
      match ploop fuel psn (fit psn out) tail with
      | DOk (l, r) => DOk (mkRaw (enc_page_hdr pgno pflag_size) (enc_be 4 (N.of_nat (length blk'))) (fit psn out) :: l, r)
      | DErr e => DErr e
      | DPanic => DPanic
      end
  end.
Proof.
  intros Hp0 Hp32 Hcs. rewrite page_loop_S.
  set (ph := enc_page_hdr pgno pflag_size).
  assert (Hph : length ph = page_header_size) by apply length_page_hdr.
  assert (Nat.ltb (length (ph ++ enc_be 4 (N.of_nat (length blk')) ++ blk' ++ tail)) page_header_size = false) as ->
    by (apply Nat.ltb_ge; rewrite app_length; lia).
  cbv zeta. rewrite (firstn_app_len _ _ _ Hph), (skipn_app_len _ _ _ Hph).
  unfold ph. rewrite (ph_pgno_enc _ _ Hp32), (ph_flags_enc pgno pflag_size) by reflexivity.
  apply N.eqb_neq in Hp0. rewrite Hp0. cbn [andb]. change (negb (N.land pflag_size 65534 =? 0)) with false.
  change (negb (N.land pflag_size pflag_size =? 0)) with true. cbv iota.
  assert (Nat.ltb (length (enc_be 4 (N.of_nat (length blk')) ++ blk' ++ tail)) 4 = false) as ->
    by (apply Nat.ltb_ge; rewrite app_length, length_enc_be; lia).
  rewrite (firstn_app_len _ _ _ (length_enc_be 4 _)), (skipn_app_len _ _ _ (length_enc_be 4 _)).
  rewrite (dec_enc_be4 _ Hcs).
  assert (N.of_nat (length (blk' ++ tail)) <? N.of_nat (length blk') = false) as ->
    by (apply N.ltb_ge; rewrite app_length; lia).
  rewrite Nat2N.id. rewrite (firstn_app_len blk' tail _ eq_refl), (skipn_app_len blk' tail _ eq_refl).
  reflexivity.
Qed.

(** HEADER: a damaged header that fails the magic test or Header.Validate is
    rejected whatever follows it *)
Theorem header_field_flip_detected hb' tail :
  length hb' = header_size ->
  firstn 4 hb' <> magic \/ (exists e, hdr_validate (parse_header hb') = Some e) ->
  exists e, decode (hb' ++ tail) = DErr e.
Proof.
  intros Hl Hbad. unfold Codec.decode, Codec.decode_full.
  assert (Nat.ltb (length (hb' ++ tail)) header_size = false) as ->
    by (apply Nat.ltb_ge; rewrite app_length; lia).
  cbv zeta. rewrite (firstn_app_len _ _ _ Hl).
  destruct (list_eqb (firstn 4 hb') magic) eqn:Em; cbn [negb].
  - destruct Hbad as [Hm|[e He]].
    + apply list_eqb_eq in Em. contradiction.
    + rewrite He. eexists; reflexivity.
  - eexists; reflexivity.
Qed.

(** ---- instantiating Faults/Restore.v ------------------------------------------ *)
(** Restore's abstract parameters [H] (hash), [body], [cks] (trailer field) and
    [parse_ok], read off the codec: [verified] is exactly "the decoder accepts". *)
Definition codec_body (b : list N) : list N := match parse_only b with DOk t => tstream t | _ => [] end.
Definition codec_fcks (b : list N) : N := match parse_only b with DOk t => t_fcks t | _ => 0 end.
Definition codec_parse_ok (b : list N) : bool :=
  match parse_only b with DOk t => negb (postapply_fails t) | _ => false end.

Theorem codec_instantiates_restore b :
  Restore.verified cks codec_body codec_fcks codec_parse_ok b = true <-> exists t, decode_full b = DOk t.
Proof.
  unfold Restore.verified, codec_body, codec_fcks, codec_parse_ok. rewrite decode_full_parse.
  destruct (parse_only b) as [t| |]; cbn [andb].
  - destruct (postapply_fails t); cbn [negb andb].
    + split; [discriminate|]. intros [t' H]. destruct (negb _) in H; discriminate.
    + destruct (cks (tstream t) =? t_fcks t); cbn [negb]; split; intro H; try discriminate; eauto.
      destruct H as [t' H]; discriminate.
  - split; [discriminate|intros [t H]; discriminate].
  - split; [discriminate|intros [t H]; discriminate].
Qed.

(** ---- abstraction to Ltx/File.v ------------------------------------------------ *)
Hypothesis decompress_compress : forall d buf, length buf = length d -> decompress (compress d) buf = Some d.
Theorem decode_encode_abs (name : list N -> File.content) f : wf f ->
  exists g, decode (encode f) = DOk g /\ abs_file name g = abs_file name f.
Proof. intros Hwf. exists f. split; [apply (decode_encode compress decompress frame_decode cks decompress_compress f Hwf)|reflexivity]. Qed.

(** a header the codec accepts is a header the abstract layer calls valid *)
Theorem abs_hdr_valid (name : list N -> File.content) f :
  hdr_validate (c_hdr f) = None -> File.hdr_valid (abs_file name f) = true.
Proof.
  unfold hdr_validate, File.hdr_valid, abs_file. cbn [File.f_ps File.f_min File.f_max].
  destruct (negb (h_flags (c_hdr f) =? _)); [discriminate|].
  destruct (valid_page_size (h_ps (c_hdr f))) eqn:Eps; [|discriminate]. cbn [negb].
  destruct (h_min (c_hdr f) =? 0); [discriminate|].
  destruct (h_max (c_hdr f) =? 0); [discriminate|].
  destruct (h_max (c_hdr f) <? h_min (c_hdr f)) eqn:El; [discriminate|]. intros _.
  change (File.valid_ps (h_ps (c_hdr f))) with (valid_page_size (h_ps (c_hdr f))). rewrite Eps. cbn.
  apply N.leb_le. apply N.ltb_ge in El. exact El.
Qed.
End Flip.

(** ---- the hypotheses are satisfiable ------------------------------------------- *)
(** identity "compression", a checksum that ignores its input: a two-page
    NoChecksum snapshot with 512-byte pages is [wf], round-trips, and is rejected
    at every proper prefix (panic exactly at lengths end_off .. end_off+7). *)
Definition ex_compress (d : list N) : list N := d.
Definition ex_decompress (blk _ : list N) : option (list N) := Some blk.
Definition ex_frames (_ : nat) (_ : list N) : option (list N * nat) := None.
Definition ex_cks (_ : list N) : N := flag_bit.
Definition ex_file : cfile :=
  mkC (mkHdr 2 512 2 1 1 1700000000000 0 0 0 0 0 0) [(1, repeat 7 512); (2, repeat 0 512)] 0.

Example ex_round_trip_hyp : forall d buf, length buf = length d -> ex_decompress (ex_compress d) buf = Some d.
Proof. reflexivity. Qed.

Example ex_file_wf : wf ex_compress ex_cks ex_file.
Proof.
  unfold wf. split; [vm_compute; reflexivity|].
  split; [unfold hdr_bounded; cbn; repeat split; reflexivity|].
  split; [reflexivity|].
  split; [repeat constructor; vm_compute; reflexivity|].
  split; [repeat constructor; vm_compute; reflexivity|].
  split; [reflexivity|].
  intros H. vm_compute in H. discriminate.
Qed.

Example ex_file_decodes :
  decode ex_decompress ex_frames ex_cks (encode ex_compress ex_cks ex_file) = DOk ex_file.
Proof. exact (decode_encode _ _ _ _ ex_round_trip_hyp _ ex_file_wf). Qed.

Example ex_end_off : end_off ex_compress ex_file = 1150%nat.
Proof. vm_compute. reflexivity. Qed.
Example ex_truncated_in_window :
  decode ex_decompress ex_frames ex_cks (firstn 1153 (encode ex_compress ex_cks ex_file)) = DPanic.
Proof. vm_compute. reflexivity. Qed.
Example ex_truncated_after_window :
  decode ex_decompress ex_frames ex_cks (firstn 1158 (encode ex_compress ex_cks ex_file)) = DErr E_INDEX.
Proof. vm_compute. reflexivity. Qed.
(** a header flip that Validate catches (page size 512 -> 513) *)
Example ex_header_flip :
  exists e, decode ex_decompress ex_frames ex_cks
              (enc_header (mkHdr 2 513 2 1 1 1700000000000 0 0 0 0 0 0) ++
               skipn 100 (encode ex_compress ex_cks ex_file)) = DErr e.
Proof.
  exists E_HDR_PAGESIZE. vm_compute. reflexivity.
Qed.
