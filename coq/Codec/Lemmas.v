From Coq Require Import List NArith ZArith Bool Lia Arith ZifyN ZifyBool ZifyNat.
From LS Require Import Codec.Format Codec.Codec.
Import ListNotations.
Open Scope N_scope.
Ltac Zify.zify_post_hook ::= Z.div_mod_to_equations.

(** ---- lists -------------------------------------------------------------- *)
Lemma firstn_app_len {A} (a r : list A) n : length a = n -> firstn n (a ++ r) = a.
Proof. intros <-. rewrite firstn_app, Nat.sub_diag, firstn_all. cbn. apply app_nil_r. Qed.
Lemma skipn_app_len {A} (a r : list A) n : length a = n -> skipn n (a ++ r) = r.
Proof. intros <-. rewrite skipn_app, Nat.sub_diag, skipn_all. reflexivity. Qed.
Lemma firstn_app_le {A} (a r : list A) j : (j <= length a)%nat -> firstn j (a ++ r) = firstn j a.
Proof. intros H. rewrite firstn_app. replace (j - length a)%nat with O by lia. cbn. apply app_nil_r. Qed.
Lemma firstn_app_ge {A} (a r : list A) j : (length a <= j)%nat -> firstn j (a ++ r) = a ++ firstn (j - length a) r.
Proof. intros H. rewrite firstn_app. rewrite firstn_all2 by lia. reflexivity. Qed.
Lemma app_inv_len {A} (a b x y : list A) : length a = length b -> a ++ x = b ++ y -> a = b /\ x = y.
Proof.
  revert b. induction a as [|c a IH]; intros [|d b] L E; cbn in *; try discriminate.
  - auto.
  - injection E as -> E. destruct (IH b) as [-> ->]; auto.
Qed.

(** ---- fixed-width integers ------------------------------------------------- *)
Lemma length_enc_be n v : length (enc_be n v) = n.
Proof. revert v. induction n; intros v; cbn; [reflexivity|]. rewrite app_length, IHn. cbn. lia. Qed.
Lemma dec_be_snoc l b : dec_be (l ++ [b]) = dec_be l * 256 + b.
Proof. unfold dec_be. rewrite fold_left_app. reflexivity. Qed.
Lemma dec_enc_be n v : v < 256 ^ N.of_nat n -> dec_be (enc_be n v) = v.
Proof.
  revert v. induction n; intros v H.
  - cbn in *. assert (v = 0) by lia. subst. reflexivity.
  - cbn [enc_be]. rewrite dec_be_snoc, IHn.
    + pose proof (N.div_mod v 256). lia.
    + rewrite Nat2N.inj_succ, N.pow_succ_r' in H. apply N.div_lt_upper_bound; lia.
Qed.
Lemma two32_pow : two32 = 256 ^ N.of_nat 4. Proof. reflexivity. Qed.
Lemma two64_pow : two64 = 256 ^ N.of_nat 8. Proof. reflexivity. Qed.
Lemma dec_enc_be4 v : v < two32 -> dec_be (enc_be 4 v) = v.
Proof. intros. apply dec_enc_be. rewrite <- two32_pow. assumption. Qed.
Lemma dec_enc_be8 v : v < two64 -> dec_be (enc_be 8 v) = v.
Proof. intros. apply dec_enc_be. rewrite <- two64_pow. assumption. Qed.

(** ---- header fields ------------------------------------------------------------ *)
Lemma parse_enc_fields ws vs rest :
  Forall2 (fun w v => v < 256 ^ N.of_nat w) ws vs ->
  parse_fields ws (enc_fields ws vs ++ rest) = vs.
Proof.
  induction 1 as [|w v ws vs Hv _ IH]; cbn; [reflexivity|].
  rewrite <- app_assoc.
  rewrite (firstn_app_len _ _ _ (length_enc_be w v)), (skipn_app_len _ _ _ (length_enc_be w v)).
  rewrite dec_enc_be by assumption. f_equal. exact IH.
Qed.

Lemma parse_enc_header h : hdr_bounded h -> parse_header (enc_header h) = h.
Proof.
  intros (H1 & H2 & H3 & H4 & H5 & H6 & H7 & H8 & H9 & H10 & H11 & H12).
  unfold parse_header, enc_header. change (skipn 4 (magic ++ ?x)) with x.
  rewrite parse_enc_fields.
  - destruct h; reflexivity.
  - unfold hdr_widths, hdr_values. rewrite two32_pow in *. rewrite two64_pow in *.
    repeat constructor; assumption.
Qed.

Lemma length_enc_header h : length (enc_header h) = header_size.
Proof.
  unfold enc_header, hdr_widths, hdr_values. cbn [enc_fields].
  repeat rewrite app_length. repeat rewrite length_enc_be. reflexivity.
Qed.
Lemma magic_enc_header h : firstn 4 (enc_header h) = magic.
Proof. reflexivity. Qed.

(** ---- varints --------------------------------------------------------------------- *)
Lemma read_loop_cons left x s b tl :
  read_uvarint_loop (S left) x s (b :: tl) =
  if b <? 128 then (if (Nat.eqb left 0) && (1 <? b) then None else Some (x + b * 2 ^ s, tl))
  else read_uvarint_loop left (x + (b mod 128) * 2 ^ s) (s + 7) tl.
Proof. reflexivity. Qed.

Lemma read_enc_uvarint_loop fuel : forall v x s rest,
  v < 2 * 128 ^ N.of_nat fuel ->
  read_uvarint_loop (S fuel) x s (enc_uvarint_fuel fuel v ++ rest) = Some (x + v * 2 ^ s, rest).
Proof.
  induction fuel as [|k IH]; intros v x s rest Hv.
  - change (2 * 128 ^ N.of_nat 0) with 2 in Hv. assert (Hlt : v <? 128 = true) by (apply N.ltb_lt; lia).
    cbn [enc_uvarint_fuel]. rewrite Hlt. cbn [app]. rewrite read_loop_cons. rewrite Hlt.
    assert (1 <? v = false) by (apply N.ltb_ge; lia). rewrite H. reflexivity.
  - cbn [enc_uvarint_fuel]. destruct (v <? 128) eqn:Hlt.
    + cbn [app]. rewrite read_loop_cons. rewrite Hlt. reflexivity.
    + apply N.ltb_ge in Hlt. rewrite <- app_comm_cons. rewrite read_loop_cons.
      assert (Hb : v mod 128 + 128 <? 128 = false) by (apply N.ltb_ge; lia). rewrite Hb.
      rewrite IH.
      * f_equal. f_equal.
        assert ((v mod 128 + 128) mod 128 = v mod 128).
        { rewrite N.add_mod by lia. rewrite N.mod_same by lia. rewrite N.add_0_r. rewrite N.mod_mod by lia.
          apply N.mod_mod; lia. }
        rewrite H. rewrite N.pow_add_r. pose proof (N.div_mod v 128).
        assert (2 ^ 7 = 128) by reflexivity. nia.
      * rewrite Nat2N.inj_succ, N.pow_succ_r' in Hv. apply N.div_lt_upper_bound; lia.
Qed.

Lemma read_enc_uvarint v rest : v < two64 -> read_uvarint (enc_uvarint v ++ rest) = Some (v, rest).
Proof.
  intros H. unfold read_uvarint, enc_uvarint. rewrite read_enc_uvarint_loop.
  - f_equal. f_equal. cbn. lia.
  - exact H.
Qed.

Lemma read_uvarint_short fuel : forall v x s j,
  (j < length (enc_uvarint_fuel fuel v))%nat ->
  read_uvarint_loop (S fuel) x s (firstn j (enc_uvarint_fuel fuel v)) = None.
Proof.
  induction fuel as [|k IH]; intros v x s j Hj.
  - cbn [enc_uvarint_fuel] in *. destruct (v <? 128); cbn in Hj; assert (j = O) by lia; subst; reflexivity.
  - cbn [enc_uvarint_fuel] in *. destruct (v <? 128) eqn:Hlt.
    + cbn in Hj. assert (j = O) by lia. subst. reflexivity.
    + destruct j as [|j]; [reflexivity|]. cbn [firstn]. rewrite read_loop_cons.
      apply N.ltb_ge in Hlt.
      assert (Hb : v mod 128 + 128 <? 128 = false) by (apply N.ltb_ge; lia). rewrite Hb.
      apply IH. cbn in Hj. lia.
Qed.

Lemma enc_uvarint_nonempty v : (1 <= length (enc_uvarint v))%nat.
Proof. unfold enc_uvarint. cbn [enc_uvarint_fuel]. destruct (v <? 128); cbn; lia. Qed.

(** reading a varint from a truncated [enc v ++ rest] *)
Lemma read_uvarint_firstn v rest j : v < two64 ->
  read_uvarint (firstn j (enc_uvarint v ++ rest)) =
  if Nat.ltb j (length (enc_uvarint v)) then None else Some (v, firstn (j - length (enc_uvarint v)) rest).
Proof.
  intros Hv. destruct (Nat.ltb j (length (enc_uvarint v))) eqn:E.
  - apply Nat.ltb_lt in E. rewrite firstn_app_le by lia. unfold read_uvarint, enc_uvarint.
    apply read_uvarint_short. exact E.
  - apply Nat.ltb_ge in E. rewrite firstn_app_ge by lia. apply read_enc_uvarint. exact Hv.
Qed.
