From Coq Require Import List NArith ZArith Bool Lia Arith ZifyN ZifyBool ZifyNat.
From LS Require Import Codec.Format Codec.Codec Codec.Lemmas.
Import ListNotations.
Open Scope N_scope.
Ltac Zify.zify_post_hook ::= Z.div_mod_to_equations.

(** ---- page index ------------------------------------------------------------- *)
Definition ientry_ok (e : ientry) : Prop :=
  let '(p, o, s) := e in p <> 0 /\ p < two64 /\ o < two64 /\ s < two64.

Lemma parse_index_S f l :
  parse_index (S f) l =
  match read_uvarint l with
  | None => None
  | Some (pgno, l1) =>
      if pgno =? 0 then (if Nat.ltb (length l1) 8 then None else Some ([], skipn 8 l1))
      else match read_uvarint l1 with
           | None => None
           | Some (off, l2) =>
               match read_uvarint l2 with
               | None => None
               | Some (sz, l3) =>
                   match parse_index f l3 with
                   | None => None
                   | Some (idx, r) => Some ((pgno, off, sz) :: idx, r)
                   end
               end
           end
  end.
Proof. reflexivity. Qed.

Lemma body_cons p o s idx rest :
  enc_index_body ((p, o, s) :: idx) ++ rest =
  enc_uvarint p ++ enc_uvarint o ++ enc_uvarint s ++ enc_index_body idx ++ rest.
Proof. unfold enc_index_body. cbn [flat_map enc_ientry]. repeat rewrite <- app_assoc. reflexivity. Qed.

Lemma body_nil rest : enc_index_body [] ++ rest = enc_uvarint 0 ++ rest.
Proof. reflexivity. Qed.

Lemma zero_lt_two64 : 0 < two64. Proof. reflexivity. Qed.

Lemma parse_index_enc idx : forall fuel sz8 rest,
  Forall ientry_ok idx -> length sz8 = 8%nat -> (length idx < fuel)%nat ->
  parse_index fuel (enc_index_body idx ++ sz8 ++ rest) = Some (idx, rest).
Proof.
  induction idx as [|[[p o] s] idx IH]; intros fuel sz8 rest Hok H8 Hf; (destruct fuel as [|fuel]; [cbn in Hf; lia|]).
  - rewrite body_nil, parse_index_S, (read_enc_uvarint 0 _ zero_lt_two64). cbn [N.eqb].
    assert (Nat.ltb (length (sz8 ++ rest)) 8 = false) as -> by (apply Nat.ltb_ge; rewrite app_length; lia).
    rewrite (skipn_app_len _ _ _ H8). reflexivity.
  - inversion Hok as [|? ? Hhd Hok']; subst. cbn in Hhd. destruct Hhd as (Hp & Hp2 & Ho & Hs).
    rewrite body_cons, parse_index_S, (read_enc_uvarint p _ Hp2).
    apply N.eqb_neq in Hp. rewrite Hp.
    rewrite (read_enc_uvarint o _ Ho), (read_enc_uvarint s _ Hs).
    rewrite IH; [reflexivity|assumption|assumption|cbn in Hf; lia].
Qed.

Lemma parse_index_short idx : forall fuel sz8 j,
  Forall ientry_ok idx -> length sz8 = 8%nat -> (j < fuel)%nat ->
  (j < length (enc_index_body idx ++ sz8))%nat ->
  parse_index fuel (firstn j (enc_index_body idx ++ sz8)) = None.
Proof.
  induction idx as [|[[p o] s] idx IH]; intros fuel sz8 j Hok H8 Hf Hj; (destruct fuel as [|fuel]; [lia|]).
  - rewrite body_nil in *. rewrite parse_index_S, (read_uvarint_firstn 0 _ _ zero_lt_two64).
    destruct (Nat.ltb j (length (enc_uvarint 0))) eqn:E; [reflexivity|].
    apply Nat.ltb_ge in E. cbn [N.eqb].
    assert (Nat.ltb (length (firstn (j - length (enc_uvarint 0)) sz8)) 8 = true) as ->; [|reflexivity].
    apply Nat.ltb_lt. rewrite firstn_length. rewrite app_length in Hj. lia.
  - inversion Hok as [|? ? Hhd Hok']; subst. cbn in Hhd. destruct Hhd as (Hp & Hp2 & Ho & Hs).
    rewrite body_cons in *. rewrite parse_index_S, (read_uvarint_firstn p _ _ Hp2).
    destruct (Nat.ltb j (length (enc_uvarint p))) eqn:E1; [reflexivity|]. apply Nat.ltb_ge in E1.
    apply N.eqb_neq in Hp. rewrite Hp.
    rewrite (read_uvarint_firstn o _ _ Ho).
    destruct (Nat.ltb _ (length (enc_uvarint o))) eqn:E2; [reflexivity|]. apply Nat.ltb_ge in E2.
    rewrite (read_uvarint_firstn s _ _ Hs).
    destruct (Nat.ltb _ (length (enc_uvarint s))) eqn:E3; [reflexivity|]. apply Nat.ltb_ge in E3.
    pose proof (enc_uvarint_nonempty p).
    rewrite IH; [reflexivity|assumption|assumption|lia|].
    repeat rewrite app_length in Hj. rewrite app_length. lia.
Qed.

(** ---- the page loop on encoder output ------------------------------------------ *)
Section PageLoop.
Variable compress : list N -> list N.
Variable decompress : list N -> list N -> option (list N).
Variable frame_decode : nat -> list N -> option (list N * nat).
Hypothesis decompress_compress : forall d buf, length buf = length d -> decompress (compress d) buf = Some d.

Notation ploop := (page_loop decompress frame_decode).

Definition page_ok (psn : nat) (p : N * list N) : Prop :=
  fst p <> 0 /\ fst p < two32 /\ csize compress (snd p) < two32 /\ length (snd p) = psn.

Lemma page_loop_S fuel psn buf b :
  ploop (S fuel) psn buf b =
      if Nat.ltb (length b) page_header_size then DErr E_PH_SHORT else
      let phb := firstn page_header_size b in
      let b1 := skipn page_header_size b in
      if (ph_pgno phb =? 0) && (ph_flags phb =? 0) then DOk ([], b1) else
      if ph_pgno phb =? 0 then DErr E_PH_PGNO0 else
      if negb (N.land (ph_flags phb) 65534 =? 0) then DErr E_PH_FLAGS else
      if negb (N.land (ph_flags phb) pflag_size =? 0) then
        if Nat.ltb (length b1) 4 then DErr E_SIZE_SHORT else
        let szb := firstn 4 b1 in
        let b2 := skipn 4 b1 in
        if N.of_nat (length b2) <? dec_be szb then DErr E_DATA_SHORT else
        let cn := N.to_nat (dec_be szb) in
        match decompress (firstn cn b2) buf with
        | None => DErr E_LZ4
        | Some out =>
            let data := fit psn out in
            match ploop fuel psn data (skipn cn b2) with
            | DOk (l, r) => DOk (mkRaw phb szb data :: l, r)
            | DErr e => DErr e
            | DPanic => DPanic
            end
        end
      else
        match frame_decode psn b1 with
        | None => DErr E_FRAME
        | Some (out, used) =>
            let data := fit psn out in
            match ploop fuel psn data (skipn used b1) with
            | DOk (l, r) => DOk (mkRaw phb [] data :: l, r)
            | DErr e => DErr e
            | DPanic => DPanic
            end
        end.
Proof. reflexivity. Qed.

Lemma length_page_hdr pgno fl : length (enc_page_hdr pgno fl) = 6%nat.
Proof. unfold enc_page_hdr. rewrite app_length, !length_enc_be. reflexivity. Qed.
Lemma ph_pgno_enc pgno fl : pgno < two32 -> ph_pgno (enc_page_hdr pgno fl) = pgno.
Proof.
  intros. unfold ph_pgno, enc_page_hdr. rewrite (firstn_app_len _ _ _ (length_enc_be 4 pgno)).
  apply dec_enc_be4. assumption.
Qed.
Lemma ph_flags_enc pgno fl : fl < 65536 -> ph_flags (enc_page_hdr pgno fl) = fl.
Proof.
  intros. unfold ph_flags, enc_page_hdr. rewrite (skipn_app_len _ _ _ (length_enc_be 4 pgno)).
  apply dec_enc_be. exact H.
Qed.

Lemma fit_exact n d : length d = n -> fit n d = d.
Proof. intros <-. unfold fit. rewrite firstn_all, Nat.sub_diag. cbn. apply app_nil_r. Qed.
Lemma length_fit n out : length (fit n out) = n.
Proof. unfold fit. rewrite app_length, firstn_length, repeat_length. lia. Qed.

Lemma length_enc_frame p : length (enc_frame compress p) = (10 + length (compress (snd p)))%nat.
Proof.
  unfold enc_frame, raw_of. cbn [r_phb r_szb]. rewrite !app_length, length_page_hdr, length_enc_be. lia.
Qed.

(** one complete frame *)
Lemma frame_step p fuel psn buf tail :
  page_ok psn p -> length buf = psn ->
  ploop (S fuel) psn buf (enc_frame compress p ++ tail) =
  match ploop fuel psn (snd p) tail with
  | DOk (l, r) => DOk (raw_of compress p :: l, r)
  | DErr e => DErr e
  | DPanic => DPanic
  end.
Proof.
  intros (Hp0 & Hp32 & Hcs & Hlen) Hbuf. destruct p as [pgno d]. cbn [fst snd] in *.
  rewrite page_loop_S. unfold enc_frame, raw_of. cbn [r_phb r_szb fst snd].
  set (ph := enc_page_hdr pgno pflag_size). set (blk := compress d).
  repeat rewrite <- app_assoc.
  assert (Hph : length ph = page_header_size) by apply length_page_hdr.
  assert (Nat.ltb (length (ph ++ enc_be 4 (csize compress d) ++ blk ++ tail)) page_header_size = false) as ->
    by (apply Nat.ltb_ge; rewrite app_length; lia).
  cbv zeta. rewrite (firstn_app_len _ _ _ Hph), (skipn_app_len _ _ _ Hph).
  unfold ph. rewrite (ph_pgno_enc _ _ Hp32), (ph_flags_enc pgno pflag_size) by reflexivity.
  apply N.eqb_neq in Hp0. rewrite Hp0. cbn [andb]. change (negb (N.land pflag_size 65534 =? 0)) with false.
  change (negb (N.land pflag_size pflag_size =? 0)) with true. cbv iota.
  assert (Nat.ltb (length (enc_be 4 (csize compress d) ++ blk ++ tail)) 4 = false) as ->
    by (apply Nat.ltb_ge; rewrite app_length, length_enc_be; lia).
  rewrite (firstn_app_len _ _ _ (length_enc_be 4 _)), (skipn_app_len _ _ _ (length_enc_be 4 _)).
  rewrite (dec_enc_be4 _ Hcs). unfold csize. fold blk.
  assert (N.of_nat (length (blk ++ tail)) <? N.of_nat (length blk) = false) as ->
    by (apply N.ltb_ge; rewrite app_length; lia).
  rewrite Nat2N.id. rewrite (firstn_app_len blk tail _ eq_refl), (skipn_app_len blk tail _ eq_refl).
  unfold blk. rewrite decompress_compress by congruence.
  rewrite (fit_exact _ _ Hlen). reflexivity.
Qed.

(** a frame cut short *)
Lemma frame_short p fuel psn buf j :
  page_ok psn p -> (j < length (enc_frame compress p))%nat ->
  exists e, ploop (S fuel) psn buf (firstn j (enc_frame compress p)) = DErr e.
Proof.
  intros (Hp0 & Hp32 & Hcs & Hlen) Hj. destruct p as [pgno d]. cbn [fst snd] in *.
  rewrite length_enc_frame in Hj. cbn [snd] in Hj.
  rewrite page_loop_S. unfold enc_frame, raw_of. cbn [r_phb r_szb fst snd].
  set (ph := enc_page_hdr pgno pflag_size). set (blk := compress d) in *.
  assert (Hph : length ph = page_header_size) by apply length_page_hdr.
  destruct (Nat.ltb (length (firstn j (ph ++ enc_be 4 (csize compress d) ++ blk))) page_header_size) eqn:E1;
    [eexists; reflexivity|].
  apply Nat.ltb_ge in E1. rewrite firstn_length in E1.
  rewrite (firstn_app_ge ph) by (unfold page_header_size in *; lia).
  cbv zeta. rewrite (firstn_app_len _ _ _ Hph), (skipn_app_len _ _ _ Hph).
  unfold ph at 1 2 3 4 5. rewrite (ph_pgno_enc _ _ Hp32), (ph_flags_enc pgno pflag_size) by reflexivity.
  apply N.eqb_neq in Hp0. rewrite Hp0. cbn [andb]. change (negb (N.land pflag_size 65534 =? 0)) with false.
  change (negb (N.land pflag_size pflag_size =? 0)) with true. cbv iota.
  rewrite Hph.
  destruct (Nat.ltb (length (firstn (j - page_header_size) (enc_be 4 (csize compress d) ++ blk))) 4) eqn:E2;
    [eexists; reflexivity|].
  apply Nat.ltb_ge in E2. rewrite firstn_length in E2.
  rewrite (firstn_app_ge (enc_be 4 _)) by (rewrite length_enc_be; lia).
  rewrite (firstn_app_len _ _ _ (length_enc_be 4 _)), (skipn_app_len _ _ _ (length_enc_be 4 _)).
  rewrite (dec_enc_be4 _ Hcs). rewrite length_enc_be.
  assert (N.of_nat (length (firstn (j - page_header_size - 4) blk)) <? csize compress d = true) as ->;
    [|eexists; reflexivity].
  apply N.ltb_lt. rewrite firstn_length. unfold csize. fold blk. unfold page_header_size in *. lia.
Qed.

Lemma length_page_block pages : (length pages <= length (page_block compress pages))%nat.
Proof.
  induction pages as [|p tl IH]; cbn [page_block flat_map length]; [lia|].
  fold (page_block compress tl). rewrite app_length, length_enc_frame. lia.
Qed.

Lemma page_loop_enc pages : forall fuel psn buf rest,
  Forall (page_ok psn) pages -> length buf = psn ->
  (length (page_block compress pages ++ end_marker ++ rest) < fuel)%nat ->
  ploop fuel psn buf (page_block compress pages ++ end_marker ++ rest) = DOk (map (raw_of compress) pages, rest).
Proof.
  induction pages as [|p tl IH]; intros fuel psn buf rest Hok Hbuf Hf; (destruct fuel as [|fuel]; [cbn in Hf; lia|]).
  - reflexivity.
  - apply Forall_cons_iff in Hok; destruct Hok as [Hp Hok'].
    cbn [page_block flat_map]. fold (page_block compress tl). rewrite <- app_assoc.
    rewrite frame_step by assumption.
    rewrite IH; [reflexivity|assumption|apply Hp| ].
    cbn [page_block flat_map] in Hf. fold (page_block compress tl) in Hf.
    rewrite <- app_assoc, app_length, length_enc_frame in Hf. lia.
Qed.

(** truncated inside the page block (end marker included): always an error *)
Lemma page_loop_short pages : forall fuel psn buf j,
  Forall (page_ok psn) pages -> length buf = psn ->
  (j < length (page_block compress pages ++ end_marker))%nat -> (j < fuel)%nat ->
  exists e, ploop fuel psn buf (firstn j (page_block compress pages ++ end_marker)) = DErr e.
Proof.
  induction pages as [|p tl IH]; intros fuel psn buf j Hok Hbuf Hj Hf; (destruct fuel as [|fuel]; [lia|]).
  - cbn [page_block flat_map app] in *. rewrite page_loop_S.
    assert (Nat.ltb (length (firstn j end_marker)) page_header_size = true) as ->; [|eexists; reflexivity].
    apply Nat.ltb_lt. rewrite firstn_length. cbn in Hj. unfold page_header_size. lia.
  - apply Forall_cons_iff in Hok; destruct Hok as [Hp Hok'].
    cbn [page_block flat_map] in *. fold (page_block compress tl) in *. rewrite <- app_assoc in *.
    destruct (Nat.ltb j (length (enc_frame compress p))) eqn:E.
    + apply Nat.ltb_lt in E. rewrite firstn_app_le by lia. apply frame_short; assumption.
    + apply Nat.ltb_ge in E. rewrite firstn_app_ge by lia. rewrite frame_step by assumption.
      destruct (IH fuel (length (snd p)) (snd p) (j - length (enc_frame compress p))%nat) as [e He].
      * destruct Hp as (_ & _ & _ & Hl). rewrite Hl. assumption.
      * reflexivity.
      * rewrite app_length in Hj. lia.
      * rewrite length_enc_frame in *. lia.
      * destruct Hp as (_ & _ & _ & Hl). rewrite Hl in He. rewrite He. eexists; reflexivity.
Qed.
End PageLoop.
