From Coq Require Import List NArith ZArith Bool Lia Arith ZifyN ZifyBool ZifyNat.
From LS Require Import Codec.Format Codec.Codec Codec.Lemmas Codec.LoopProofs Codec.RoundTrip.
Import ListNotations.
Open Scope N_scope.
Ltac Zify.zify_post_hook ::= Z.div_mod_to_equations.

Section Trunc.
Variable compress : list N -> list N.
Variable decompress : list N -> list N -> option (list N).
Variable frame_decode : nat -> list N -> option (list N * nat).
Variable cks : list N -> N.
Hypothesis decompress_compress : forall d buf, length buf = length d -> decompress (compress d) buf = Some d.

Notation wf := (wf compress cks).
Notation encode := (encode compress cks).
Notation decode := (decode decompress frame_decode cks).
Notation decode_full := (decode_full decompress frame_decode cks).

(** TRUNCATION: every proper prefix of an encoded file is rejected — with an
    error, except for the 8 lengths right after the zero page header, where
    Decoder.Close panics (finding F7, stated on bytes). *)
Theorem truncation_detected f k : wf f -> (k < length (encode f))%nat ->
  if (Nat.leb (end_off compress f) k) && (Nat.ltb k (end_off compress f + 8))
  then decode (firstn k (encode f)) = DPanic
  else exists e, decode (firstn k (encode f)) = DErr e.
Proof.
  intros Hwf Hk. destruct (wf_facts compress frame_decode cks f Hwf) as (Hv & Hpok & Hiok).
  unfold Codec.decode. unfold end_off.
  destruct (Nat.ltb k header_size) eqn:Ek.
  - (* inside the header *)
    apply Nat.ltb_lt in Ek.
    assert ((Nat.leb (header_size + length (page_block compress (c_pages f)) + page_header_size) k) = false) as ->
      by (apply Nat.leb_gt; lia).
    cbn [andb]. unfold Codec.decode_full.
    assert (Nat.ltb (length (firstn k (encode f))) header_size = true) as ->
      by (apply Nat.ltb_lt; rewrite firstn_length; lia).
    eexists; reflexivity.
  - apply Nat.ltb_ge in Ek.
    rewrite (encode_split compress cks) in *.
    set (idx := index_of compress 100 (c_pages f)) in *.
    set (sz8 := enc_be 8 (N.of_nat (length (enc_index_body idx)))) in *.
    set (PB := page_block compress (c_pages f)) in *.
    assert (Hsz8 : length sz8 = 8%nat) by apply length_enc_be.
    assert (Htl : length (trailer_bytes compress cks f) = 16%nat)
      by (unfold trailer_bytes; rewrite app_length, !length_enc_be; reflexivity).
    pose proof (length_enc_header (c_hdr f)) as Hh.
    rewrite firstn_app_ge by lia. rewrite Hh.
    rewrite (header_steps compress decompress frame_decode cks decompress_compress f _ Hwf). cbv zeta.
    repeat rewrite app_length in Hk. rewrite Hh in Hk. change (length end_marker) with 6%nat in Hk.
    set (j := (k - header_size)%nat) in *.
    destruct (Nat.ltb j (length PB + 6)) eqn:Ej.
    + (* inside the page block or its end marker *)
      apply Nat.ltb_lt in Ej.
      assert ((Nat.leb (header_size + length PB + page_header_size) k) = false) as ->
        by (apply Nat.leb_gt; unfold page_header_size; lia).
      cbn [andb].
      replace (PB ++ end_marker ++ enc_index_body idx ++ sz8 ++ trailer_bytes compress cks f)
        with ((PB ++ end_marker) ++ enc_index_body idx ++ sz8 ++ trailer_bytes compress cks f)
        by (rewrite <- app_assoc; reflexivity).
      rewrite firstn_app_le by (rewrite app_length; change (length end_marker) with 6%nat; lia).
      destruct (page_loop_short compress decompress frame_decode decompress_compress (c_pages f)
                  (S (length (firstn j (PB ++ end_marker)))) (N.to_nat (h_ps (c_hdr f)))
                  (repeat 0 (N.to_nat (h_ps (c_hdr f)))) j Hpok (repeat_length _ _)) as [e He].
      * fold PB. rewrite app_length. change (length end_marker) with 6%nat. lia.
      * fold PB. rewrite firstn_length, app_length. change (length end_marker) with 6%nat. lia.
      * fold PB in He. rewrite He. eexists; reflexivity.
    + apply Nat.ltb_ge in Ej.
      rewrite firstn_app_ge by lia.
      rewrite (firstn_app_ge end_marker) by (change (length end_marker) with 6%nat; lia).
      change (length end_marker) with 6%nat.
      set (m := (j - length PB - 6)%nat) in *.
      unfold PB.
      rewrite (page_loop_enc compress decompress frame_decode decompress_compress);
        [|assumption|apply repeat_length|lia].
      fold PB.
      set (R := enc_index_body idx ++ sz8 ++ trailer_bytes compress cks f) in *.
      assert (HR : length R = (length (enc_index_body idx) + 24)%nat)
        by (unfold R; rewrite !app_length; lia).
      assert (Hm : (m < length R)%nat) by (unfold m, j in *; lia).
      assert (Hlm : length (firstn m R) = m) by (rewrite firstn_length; lia).
      rewrite Hlm.
      assert (Nat.leb (header_size + length PB + page_header_size) k = true) as ->
        by (apply Nat.leb_le; unfold page_header_size, j in *; lia).
      cbn [andb].
      destruct (Nat.ltb m checksum_size) eqn:Em.
      * (* the F7 window *)
        apply Nat.ltb_lt in Em.
        assert (Nat.ltb k (header_size + length PB + page_header_size + 8) = true) as ->
          by (apply Nat.ltb_lt; unfold page_header_size, checksum_size, m, j in *; lia).
        reflexivity.
      * apply Nat.ltb_ge in Em.
        assert (Nat.ltb k (header_size + length PB + page_header_size + 8) = false) as ->
          by (apply Nat.ltb_ge; unfold page_header_size, checksum_size, m, j in *; lia).
        destruct (Nat.ltb m (length (enc_index_body idx) + 8)) eqn:Ei.
        -- (* inside the page index *)
           apply Nat.ltb_lt in Ei. unfold R.
           replace (enc_index_body idx ++ sz8 ++ trailer_bytes compress cks f)
             with ((enc_index_body idx ++ sz8) ++ trailer_bytes compress cks f)
             by (rewrite <- app_assoc; reflexivity).
           rewrite firstn_app_le by (rewrite app_length; lia).
           rewrite (parse_index_short idx _ sz8 m Hiok Hsz8);
             [eexists; reflexivity| lia | rewrite app_length; lia].
        -- (* inside the trailer *)
           apply Nat.ltb_ge in Ei. unfold R.
           rewrite firstn_app_ge by lia. rewrite (firstn_app_ge sz8) by lia.
           rewrite (parse_index_enc idx _ sz8 _ Hiok Hsz8) by (pose proof (length_index_body idx); lia).
           assert (Nat.ltb (length (firstn (m - length (enc_index_body idx) - length sz8) (trailer_bytes compress cks f))) trailer_size = true) as ->
             by (apply Nat.ltb_lt; rewrite firstn_length; unfold trailer_size; lia).
           eexists; reflexivity.
Qed.
End Trunc.
