(** [sx -> sx] entry points of the Codec layer.

    LZ4 and CRC-64 are abstract in the model, so the harness supplies what the
    REAL functions answered as finite oracle tables, and the model recomputes
    what the decoder must do with those answers:

      lz4 table   ((block status out buf) ...)  what lz4.UncompressBlock(block, dst) did in
                                             the real decoder's own call sequence: status 0 =
                                             error; 1 = ok, dst completely overwritten with [out]
                                             (whatever it held); 2 = ok, dst held [buf] before
                                             and holds [out] afterwards (short output)
      cks table   ((bytes value) ...)        ChecksumFlag|crc64 of [bytes], computed by the
                                             harness over ITS OWN assembly of the hashed
                                             stream (and per page for checksum-tracking
                                             snapshots); anything not listed gets a value
                                             no 8-byte field can hold, i.e. "differs"
    A block missing from the lz4 table reads as an LZ4 error; the old LZ4-frame
    page format always reads as an error (the harness never produces a valid
    old-format frame; the real reader's answer is compared like any other). *)
From Coq Require Import List NArith ZArith Bool.
From LS Require Import Base.Sx Codec.Format Codec.Codec.
Import ListNotations.
Open Scope N_scope.

Fixpoint lookup {V} (k : list N) (tbl : list (list N * V)) : option V :=
  match tbl with
  | [] => None
  | (k', v) :: tl => if list_eqb k k' then Some v else lookup k tl
  end.

Definition lz4_entry : Type := (list N * N * list N * list N)%type.
Definition as_lz4_table (x : sx) : list lz4_entry :=
  map (fun e => (asNs (nthx 0 e), asN (nthx 1 e), asNs (nthx 2 e), asNs (nthx 3 e))) (asL x).
Definition as_cks_table (x : sx) : list (list N * N) :=
  map (fun e => (asNs (nthx 0 e), asN (nthx 1 e))) (asL x).

Fixpoint decompress_of (tbl : list lz4_entry) (blk buf : list N) : option (list N) :=
  match tbl with
  | [] => None
  | (k, st, out, b0) :: tl =>
      if list_eqb blk k &&
         ((st =? 0) || ((st =? 1) && Nat.eqb (length out) (length buf)) || ((st =? 2) && list_eqb buf b0))
      then (if st =? 0 then None else Some out)
      else decompress_of tl blk buf
  end.
Definition cks_of (tbl : list (list N * N)) (s : list N) : N :=
  match lookup s tbl with Some v => v | None => two64 end.
Definition no_frames (_ : nat) (_ : list N) : option (list N * nat) := None.

(** sum of (i+1) * b_i mod 2^32: a cheap position-sensitive digest of a byte string *)
Definition wsum (l : list N) : N :=
  snd (fold_left (fun st b => let '(i, acc) := st in (i + 1, (acc + i * b) mod two32)) l (1, 0)).

Fixpoint upd_xor (l : list N) (i : nat) (m : N) : list N :=
  match l, i with
  | [], _ => []
  | b :: tl, O => N.lxor b m :: tl
  | b :: tl, S i' => b :: upd_xor tl i' m
  end.

(** mutation = [kind a b]: kind 0 truncate to [a] bytes; kind 1 xor byte [a] with [b];
    kind 2 append the byte [b] *)
Definition mutate (bytes : list N) (m : sx) : list N :=
  let k := asN (nthx 0 m) in
  let a := N.to_nat (asN (nthx 1 m)) in
  if k =? 0 then firstn a bytes
  else if k =? 1 then upd_xor bytes a (asN (nthx 2 m))
  else bytes ++ [asN (nthx 2 m)].

Definition pages_eqb (a b : list (N * list N)) : bool :=
  (fix go (a b : list (N * list N)) : bool :=
     match a, b with
     | [], [] => true
     | (p, d) :: a', (q, e) :: b' => (p =? q) && list_eqb d e && go a' b'
     | _, _ => false
     end) a b.

Definition tree_eqb (t u : ptree) : bool :=
  list_eqb (hdr_values (parse_header (t_hb t))) (hdr_values (parse_header (t_hb u))) &&
  pages_eqb (pages_of_raws (t_raws t)) (pages_of_raws (t_raws u)) &&
  (t_post t =? t_post u) && (t_fcks t =? t_fcks u).

(** class: 0 accepted and identical to the reference, 1 accepted but DIFFERENT,
    2 error (code = place of the error), 3 panic *)
Definition classify (ref : option ptree) (o : outcome ptree) : sx :=
  match o with
  | DOk t => match ref with
             | Some r => if tree_eqb t r then SL [sxN 0; sxN 0] else SL [sxN 1; sxN 0]
             | None => SL [sxN 1; sxN 0]
             end
  | DErr e => SL [sxN 2; sxN e]
  | DPanic => SL [sxN 3; sxN 0]
  end.

Definition sx_ientry (e : ientry) : sx := let '(p, o, s) := e in SL [sxN p; sxN o; sxN s].

(** input  [bytes; lz4 table; cks table; mutations]
    output [[status; header values; pgnos; post; fcks; index; end offset; stream length; stream wsum];
            [[class; code] per mutation]] *)
Definition codec_decode (x : sx) : sx :=
  let bytes := asNs (nthx 0 x) in
  let dz := decompress_of (as_lz4_table (nthx 1 x)) in
  let ck := cks_of (as_cks_table (nthx 2 x)) in
  let dec := decode_full dz no_frames ck in
  let o0 := dec bytes in
  let ref := match o0 with DOk t => Some t | _ => None end in
  let info :=
    match o0 with
    | DOk t =>
        let s := tree_stream (t_hb t) (t_raws t) (t_rem t) in
        SL [sxN 0; sxNs (hdr_values (parse_header (t_hb t))); sxNs (map fst (pages_of_raws (t_raws t)));
            sxN (t_post t); sxN (t_fcks t); SL (map sx_ientry (t_idx t));
            sxN (N.of_nat (length bytes - length (t_rem t))); sxN (N.of_nat (length s)); sxN (wsum s)]
    | DErr e => SL [sxN 2; sxN e]
    | DPanic => SL [sxN 3; sxN 0]
    end in
  SL [info; SL (map (fun m => classify ref (dec (mutate bytes m))) (asL (nthx 3 x)))].

(** ---- layout ------------------------------------------------------------- *)

Definition as_header (x : sx) : header := hdr_of_values (asNs x).

(** input  [header values; [[pgno; data; compressed length] ...]; post]
    output [accepted; end offset; total length; index entries; index byte length;
            ranges hashed verbatim [[off; len] ...]; ranges replaced by their
            decompression [[off; len] ...]; stream length]
    The compressed bytes are not computable; [compress] is instantiated by a
    function that only has the right LENGTHS (zeros), which is all the layout
    depends on.  The harness recomputes the CRC of the real file over exactly
    these ranges and compares it with the trailer. *)
Definition codec_encode_layout (x : sx) : sx :=
  let h := as_header (nthx 0 x) in
  let pl := asL (nthx 1 x) in
  let pages := map (fun e => (asN (nthx 0 e), asNs (nthx 1 e))) pl in
  let clens := map (fun e => (asNs (nthx 1 e), asN (nthx 2 e))) pl in
  let compress := fun d => match lookup d clens with Some n => repeat 0 (N.to_nat n) | None => [] end in
  let f := mkC h pages (asN (nthx 2 x)) in
  let ck := fun _ : list N => 0 in
  if negb (enc_accepts compress f) then SL [sxN 0] else
  let idx := index_of compress 100 pages in
  let eo := N.of_nat (end_off compress f) in
  let ilen := N.of_nat (length (index_bytes compress f)) in
  SL [sxN 1; sxN eo; sxN (N.of_nat (length (encode compress ck f)));
      SL (map sx_ientry idx); sxN ilen;
      SL (SL [sxN 0; sxN 100] ::
          map (fun e => let '(_, o, _) := e in SL [sxN o; sxN 10]) idx ++
          [SL [sxN (eo - 6); sxN (6 + ilen + 8)]]);
      SL (map (fun e => let '(_, o, s) := e in SL [sxN (o + 10); sxN (s - 10)]) idx);
      sxN (N.of_nat (length (stream compress f)))].
