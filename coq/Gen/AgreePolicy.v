(** Hand-written (NOT regenerated): the regenerated scalar functions agree with
    the checkpoint-policy model (Policy/Policy.v, C13).  Kept apart from
    Gen/Agree.v so that each file only depends on the layers it protects. *)
From Coq Require Import ZArith Bool Lia.
From LS Require Import Gen.Consts Gen.Scalar Gen.Agree.
From LS Require Policy.Policy.

Local Open Scope Z_scope.

Lemma gen_policy_consts :
  WALHeaderSize = Policy.Policy.WALHeaderSize /\ WALFrameHeaderSize = Policy.Policy.WALFrameHeaderSize /\
  DefaultTruncatePageN = Policy.Policy.DefaultTruncatePageN.
Proof. repeat split. Qed.

Lemma u32_range x : 0 <= u32 x < 4294967296.
Proof. unfold u32. apply Z.mod_pos_bound. lia. Qed.

(** pageN is a uint32 in Go *)
Lemma gen_policy_calcWALSize_eq : forall ps n, 0 <= n < 4294967296 ->
  calcWALSize ps n = Policy.Policy.calcWALSize ps n.
Proof.
  intros ps n Hn. unfold calcWALSize, Policy.Policy.calcWALSize, Policy.Policy.frameSizeU32.
  change Policy.Policy.WALHeaderSize with WALHeaderSize. change Policy.Policy.WALFrameHeaderSize with WALFrameHeaderSize.
  change Policy.Policy.u32 with u32. change Policy.Policy.i64 with i64.
  pose proof (u32_range (WALFrameHeaderSize + ps)).
  rewrite (i64_small WALHeaderSize) by (unfold WALHeaderSize; lia).
  rewrite (i64_small (u32 (WALFrameHeaderSize + ps))) by lia.
  rewrite (i64_small n) by lia. reflexivity.
Qed.

Lemma gen_policy_effectiveTruncatePageN_eq : forall c,
  DB_effectiveTruncatePageN (Policy.Policy.c_trunc c) = Policy.Policy.effectiveTruncatePageN c.
Proof. reflexivity. Qed.

Lemma gen_policy_exceedsTruncateThreshold_eq : forall c walSize,
  DB_exceedsTruncateThreshold (Policy.Policy.c_trunc c) (Policy.Policy.c_ps c) walSize =
  Policy.Policy.exceedsTruncateThreshold c walSize.
Proof.
  intros. unfold DB_exceedsTruncateThreshold, Policy.Policy.exceedsTruncateThreshold.
  rewrite gen_policy_effectiveTruncatePageN_eq.
  change Policy.Policy.u32 with u32.
  rewrite gen_policy_calcWALSize_eq by apply u32_range. reflexivity.
Qed.
