(** Hand-written (NOT regenerated): the scalar functions and constants that
    tools/gen translates from the Go source agree with the hand-written model
    functions the layers' theorems are about.  A changed operator or constant in
    the source changes Gen/Scalar.v or Gen/Consts.v and breaks the lemma here.

    Range hypotheses are the Go types of the parameters (uint32, uint64, ...). *)
From Coq Require Import ZArith NArith Bool Lia.
From LS Require Import Gen.Consts Gen.Scalar.
From LS Require Plan.Planner Ltx.File Ltx.Snapshot Lease.Client Wal.Reader Faults.Resumable Faults.Restore.

Local Open Scope Z_scope.

(** ---- helpers -------------------------------------------------------- *)

Lemma N2Z_eqb a b : (Z.of_N a =? Z.of_N b) = N.eqb a b.
Proof. destruct (N.eqb_spec a b); [subst; apply Z.eqb_refl|]. apply Z.eqb_neq. lia. Qed.
Lemma N2Z_ltb a b : (Z.of_N a <? Z.of_N b) = N.ltb a b.
Proof. destruct (N.ltb_spec a b); [apply Z.ltb_lt|apply Z.ltb_ge]; lia. Qed.
Lemma N2Z_leb a b : (Z.of_N a <=? Z.of_N b) = N.leb a b.
Proof. destruct (N.leb_spec a b); [apply Z.leb_le|apply Z.leb_gt]; lia. Qed.

Lemma u32_small x : 0 <= x < 4294967296 -> u32 x = x.
Proof. intros. unfold u32. apply Z.mod_small. lia. Qed.
Lemma u64_small x : 0 <= x < 18446744073709551616 -> u64 x = x.
Proof. intros. unfold u64. apply Z.mod_small. lia. Qed.
Lemma i64_small x : -9223372036854775808 <= x < 9223372036854775808 -> i64 x = x.
Proof. intros. unfold i64. rewrite Z.mod_small by lia. lia. Qed.

(** ---- constants ------------------------------------------------------ *)

Lemma gen_WALHeaderSize_eq : WALHeaderSize = Z.of_N Wal.Reader.WALHeaderSize.
Proof. reflexivity. Qed.
Lemma gen_WALFrameHeaderSize_eq : WALFrameHeaderSize = Z.of_N Wal.Reader.WALFrameHeaderSize.
Proof. reflexivity. Qed.
Lemma gen_SnapshotLevel_eq : SnapshotLevel = Z.of_N Plan.Planner.SnapshotLevel.
Proof. reflexivity. Qed.
Lemma gen_resumableReaderMaxRetries_eq : internal_resumableReaderMaxRetries = Z.of_nat Faults.Resumable.rr_budget.
Proof. reflexivity. Qed.
Lemma gen_PENDING_BYTE_eq : ltx_PENDING_BYTE = Z.of_N Ltx.Snapshot.pending_byte.
Proof. reflexivity. Qed.
Lemma gen_ltx_HeaderSize_eq : ltx_HeaderSize = Z.of_nat Faults.Restore.ltx_header_size.
Proof. reflexivity. Qed.

(** ---- restoreCandidateBetter (replica.go) = Plan.Planner ------------- *)

Lemma gen_restoreCandidateBetter_eq : forall curr next : Plan.Planner.file,
  restoreCandidateBetter
    (Z.of_N (Plan.Planner.f_created curr)) (Z.of_N (Plan.Planner.f_level curr))
    (Z.of_N (Plan.Planner.f_max curr)) (Z.of_N (Plan.Planner.f_min curr))
    (Z.of_N (Plan.Planner.f_created next)) (Z.of_N (Plan.Planner.f_level next))
    (Z.of_N (Plan.Planner.f_max next)) (Z.of_N (Plan.Planner.f_min next))
  = Plan.Planner.restore_candidate_better curr next.
Proof.
  intros. unfold restoreCandidateBetter, Plan.Planner.restore_candidate_better.
  rewrite !N2Z_eqb, !N2Z_ltb. reflexivity.
Qed.

(** ---- ltx.LockPgno = Ltx.Snapshot.lockPgno --------------------------- *)

(** pageSize is a uint32; for pageSize = 0 the Go function panics (division by
    zero) and both sides are the totalised value 1 *)
Lemma gen_LockPgno_eq : forall ps : N, (ps < 4294967296)%N ->
  ltx_LockPgno (Z.of_N ps) = Z.of_N (Ltx.Snapshot.lockPgno ps).
Proof.
  intros ps H. unfold ltx_LockPgno, Ltx.Snapshot.lockPgno, Ltx.Snapshot.pending_byte, ltx_PENDING_BYTE.
  rewrite (i64_small (Z.of_N ps)) by lia.
  rewrite N2Z.inj_add, N2Z.inj_div. change (Z.of_N 1073741824) with 1073741824. change (Z.of_N 1) with 1.
  assert (Hq : Z.quot 1073741824 (Z.of_N ps) = 1073741824 / Z.of_N ps).
  { destruct (Z.eq_dec (Z.of_N ps) 0) as [E|E].
    - rewrite E. reflexivity.
    - apply Z.quot_div_nonneg; lia. }
  rewrite Hq.
  assert (0 <= 1073741824 / Z.of_N ps <= 1073741824).
  { destruct (Z.eq_dec (Z.of_N ps) 0) as [E|E].
    - rewrite E, Zdiv_0_r. lia.
    - split; [apply Z.div_pos; lia|]. apply Z.div_le_upper_bound; nia. }
  rewrite i64_small by lia. rewrite (u32_small (1073741824 / Z.of_N ps)) by lia.
  apply u32_small. lia.
Qed.

(** ---- ltx.IsContiguous = Ltx.File.is_contiguous ---------------------- *)

(** TXIDs are uint64; prevMaxTXID+1 wraps at 2^64-1 in Go and does not in the
    model (over N): the hypothesis excludes exactly that value *)
Lemma gen_IsContiguous_eq : forall prevMax mn mx : N,
  (prevMax < 18446744073709551615)%N ->
  ltx_IsContiguous (Z.of_N prevMax) (Z.of_N mn) (Z.of_N mx) = Ltx.File.is_contiguous prevMax mn mx.
Proof.
  intros. unfold ltx_IsContiguous, Ltx.File.is_contiguous.
  rewrite u64_small by lia.
  replace (Z.of_N prevMax + 1) with (Z.of_N (prevMax + 1)) by lia.
  rewrite N2Z_leb, N2Z_ltb. reflexivity.
Qed.

(** ---- Lease.IsExpired (leaser.go) = Lease.Client.is_expired ---------- *)

Lemma gen_IsExpired_eq : forall now (l : Lease.Client.lease),
  Lease_IsExpired (Lease.Client.l_exp l) now = Lease.Client.is_expired now l.
Proof. reflexivity. Qed.

(** ---- calcWALSize (db.go) = the WAL layer's frame arithmetic ---------- *)

(** pageSize <= 65536 (SQLite's maximum), pageN a uint32: no wrap anywhere *)
Lemma gen_calcWALSize_eq : forall ps n : N, (ps <= 65536)%N -> (n < 4294967296)%N ->
  calcWALSize (Z.of_N ps) (Z.of_N n) =
  Z.of_N (Wal.Reader.WALHeaderSize + n * Wal.Reader.frame_size ps).
Proof.
  intros ps n Hp Hn. unfold calcWALSize, Wal.Reader.frame_size, Wal.Reader.WALHeaderSize, Wal.Reader.WALFrameHeaderSize,
    WALHeaderSize, WALFrameHeaderSize.
  rewrite (u32_small (24 + Z.of_N ps)) by lia.
  rewrite (i64_small 32) by lia. rewrite (i64_small (24 + Z.of_N ps)) by lia. rewrite (i64_small (Z.of_N n)) by lia.
  assert (0 <= (24 + Z.of_N ps) * Z.of_N n < 65560 * 4294967296) by nia.
  rewrite (i64_small ((24 + Z.of_N ps) * Z.of_N n)) by lia.
  rewrite i64_small by lia. lia.
Qed.

(** ---- exceedsTruncateThreshold: the default is what the source says ---- *)

Lemma gen_effectiveTruncatePageN_spec : forall t,
  DB_effectiveTruncatePageN t = if t =? 0 then DefaultTruncatePageN else t.
Proof. reflexivity. Qed.

(** the documented values the other layers' harness grids and DESIGN §6 C13 rely on *)
Lemma gen_default_thresholds :
  DefaultMinCheckpointPageN = 1000 /\ DefaultTruncatePageN = 121359 /\ DefaultMaxSyncWALBytes = 67108864.
Proof. repeat split. Qed.

Lemma gen_ltx_layout : ltx_HeaderSize = 100 /\ ltx_PageHeaderSize = 6 /\ ltx_TrailerSize = 16.
Proof. repeat split. Qed.
