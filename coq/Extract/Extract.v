(** Extraction of the executable model for the correspondence runner.
    Only ExtrOcamlBasic is used: bool, option, unit, list, prod, sumbool, sumor
    map to the OCaml types and andb/orb are inlined; N, Z, positive and nat stay
    the Coq datatypes. *)
Require Coq.extraction.Extraction.
Require Import Coq.extraction.ExtrOcamlBasic.
From Coq Require Import ZArith NArith.
From LS Require Import Base.Sx Wal.Entry.

Extraction Language OCaml.
Extraction "model.ml" sx_eqb Z.add Z.mul Z.opp Z.of_N
  wal_run wal_salts wal_spec wal_spec_ok.
