(** What one poll does, independent of any semantics: the files whose
    application is attempted form a chain from the starting TXID, every one of
    them is in the replica, and the returned TXID is the end of that chain. *)
From Coq Require Import List NArith Bool Lia Arith.
From LS Require Import Base.PMap Follow.Follow.
Import ListNotations.
Open Scope N_scope.

Lemma chain_ok_snoc fs : forall c f,
  chain_ok c (fs ++ [f]) =
  chain_ok c fs && (f_min f <=? chain_end c fs + 1) && (chain_end c fs <? f_max f).
Proof.
  induction fs as [|g tl IH]; intros c f; cbn.
  - now rewrite andb_true_r.
  - rewrite IH. now rewrite !andb_assoc.
Qed.
Lemma chain_end_snoc fs : forall c f, chain_end c (fs ++ [f]) = f_max f.
Proof. induction fs as [|g tl IH]; intros c f; cbn; auto. Qed.

Lemma in_gap_levels (rep : replica) lv : In lv (gap_levels_of rep) -> In lv (firstn 9 rep).
Proof.
  unfold gap_levels_of. destruct rep as [|x r]; cbn; [tauto|]. intros H. now right.
Qed.
Lemma in_level0 (rep : replica) f : In f (rep_level rep 0) -> In f (rep_files rep).
Proof.
  unfold rep_level, rep_files. destruct rep as [|x r]; cbn; [tauto|].
  intros H. apply in_or_app. now left.
Qed.
Lemma in_rep_files (rep : replica) lv f : In lv (firstn 9 rep) -> In f lv -> In f (rep_files rep).
Proof. intros H1 H2. unfold rep_files. apply in_concat. eauto. Qed.

(** whether applyLTXFile succeeds depends on the file's outcome only *)
Lemma apply_snd im f : snd (apply_ltx_file im f) = negb (fails f).
Proof.
  unfold apply_ltx_file, fails.
  destruct (f_bad f =? 1), (f_bad f =? 3), (f_bad f =? 2); reflexivity.
Qed.

Section Algo.
Variable rep : replica.
Variable im0 : image.
Variable c0 : N.
Variable pre : list ltxf.

(** successful applications, each obeying the chain rule at its moment *)
Inductive run_ok : image -> N -> list ltxf -> Prop :=
| ro_nil : run_ok im0 c0 []
| ro_snoc im c fs f im' :
    run_ok im c fs -> In f (rep_files rep) -> f_min f <= c + 1 -> c < f_max f ->
    apply_ltx_file im f = (im', true) -> run_ok im' (f_max f) (fs ++ [f]).

(** the same followed by one failing application *)
Definition run_err (im' : image) (fs' : list ltxf) : Prop :=
  exists im c fs f, run_ok im c fs /\ In f (rep_files rep) /\ f_min f <= c + 1 /\ c < f_max f /\
                    apply_ltx_file im f = (im', false) /\ fs' = fs ++ [f].

Definition good (st : fstate) (cur : N) : Prop :=
  exists fs, s_applied st = pre ++ fs /\ run_ok (s_img st) cur fs.
Definition bad (st : fstate) : Prop :=
  exists fs, s_applied st = pre ++ fs /\ run_err (s_img st) fs.

Lemma run_ok_chain im c fs : run_ok im c fs ->
  chain_ok c0 fs = true /\ chain_end c0 fs = c /\ c0 <= c /\ Forall (fun f => In f (rep_files rep)) fs.
Proof.
  induction 1 as [|im c fs f im' H IH Hin Hmin Hmax Hap].
  - cbn. repeat split; auto; lia.
  - destruct IH as (I1 & I2 & I3 & I4). rewrite chain_ok_snoc, chain_end_snoc, I1, I2.
    repeat split.
    + apply andb_true_intro; split; [apply andb_true_intro; split; [reflexivity|now apply N.leb_le]|now apply N.ltb_lt].
    + lia.
    + apply Forall_app; split; [exact I4|]. now constructor.
Qed.

Lemma run_err_chain im' fs' : run_err im' fs' ->
  chain_ok c0 fs' = true /\ Forall (fun f => In f (rep_files rep)) fs'.
Proof.
  intros (im & c & fs & f & H & Hin & Hmin & Hmax & _ & ->).
  destruct (run_ok_chain _ _ _ H) as (I1 & I2 & _ & I4).
  rewrite chain_ok_snoc, I1, I2. split.
  - apply andb_true_intro; split; [apply andb_true_intro; split; [reflexivity|now apply N.leb_le]|now apply N.ltb_lt].
  - apply Forall_app; split; [exact I4|]. now constructor.
Qed.

Lemma run_ok_all_ok im c fs : run_ok im c fs -> forallb (fun f => negb (fails f)) fs = true.
Proof.
  induction 1 as [|im c fs f im' H IH Hin Hmin Hmax Hap]; [reflexivity|].
  rewrite forallb_app, IH. cbn. rewrite <- (apply_snd im f), Hap. reflexivity.
Qed.

Lemma run_err_last im' fs' : run_err im' fs' ->
  exists pre f, fs' = pre ++ [f] /\ fails f = true /\ forallb (fun g => negb (fails g)) pre = true.
Proof.
  intros (im & c & fs & f & H & _ & _ & _ & Hap & ->). exists fs, f. split; [reflexivity|].
  split; [|now apply (run_ok_all_ok im c)].
  pose proof (apply_snd im f) as E. rewrite Hap in E. cbn in E. now destruct (fails f).
Qed.

Lemma do_apply_spec st cur f :
  good st cur -> In f (rep_files rep) -> f_min f <= cur + 1 -> cur < f_max f ->
  (snd (do_apply st f) = true -> good (fst (do_apply st f)) (f_max f)) /\
  (snd (do_apply st f) = false -> bad (fst (do_apply st f))).
Proof.
  intros (fs & Ha & Hr) Hin Hmin Hmax. unfold do_apply.
  destruct (apply_ltx_file (s_img st) f) as [im' ok] eqn:E. cbn [fst snd].
  split; intros ->.
  - exists (fs ++ [f]). cbn. split; [now rewrite Ha, app_assoc|]. econstructor; eauto.
  - exists (fs ++ [f]). cbn. split; [now rewrite Ha, app_assoc|].
    exists (s_img st), cur, fs, f. repeat split; auto.
Qed.

Lemma gap_scan_spec files :
  (forall f, In f files -> In f (rep_files rep)) ->
  forall st cur g, good st cur ->
  match gap_scan files st cur g with
  | (st', _, ScanErr) => bad st'
  | (st', cur', _) => good st' cur' /\ cur <= cur'
  end.
Proof.
  induction files as [|info tl IH]; intros Hin st cur g Hg; cbn [gap_scan].
  - split; [exact Hg|lia].
  - destruct (cur + 1 <? f_min info) eqn:E1; [split; [exact Hg|lia]|].
    apply N.ltb_ge in E1.
    destruct (f_max info <=? cur) eqn:E2.
    + apply IH; auto. intros f Hf; apply Hin; now right.
    + apply N.leb_gt in E2.
      destruct (do_apply_spec st cur info Hg (Hin info (or_introl eq_refl)) E1 E2) as [D1 D2].
      destruct (snd (do_apply st info)) eqn:E3; cbn [negb].
      * specialize (D1 eq_refl).
        destruct (g <=? f_max info + 1) eqn:E4; [split; [exact D1|lia]|].
        specialize (IH (fun f Hf => Hin f (or_intror Hf)) (fst (do_apply st info)) (f_max info) g D1).
        destruct (gap_scan tl (fst (do_apply st info)) (f_max info) g) as [[st' cur'] []]; try exact IH;
          (destruct IH; split; [assumption|lia]).
      * exact (D2 eq_refl).
Qed.

Lemma gap_levels_spec levels :
  (forall lv f, In lv levels -> In f lv -> In f (rep_files rep)) ->
  forall st after cur g, good st cur ->
  match gap_levels levels st after cur g with
  | (st', _, true) => bad st'
  | (st', cur', false) => good st' cur' /\ cur <= cur'
  end.
Proof.
  induction levels as [|lv rest IH]; intros Hin st after cur g Hg; cbn [gap_levels].
  - split; [exact Hg|lia].
  - pose proof (gap_scan_spec lv (fun f Hf => Hin lv f (or_introl eq_refl) Hf) st cur g Hg) as S.
    destruct (gap_scan lv st cur g) as [[st' cur'] []]; try exact S.
    destruct S as [S1 S2].
    destruct (after <? cur'); [split; assumption|].
    specialize (IH (fun lv' f H1 H2 => Hin lv' f (or_intror H1) H2) st' after cur' g S1).
    destruct (gap_levels rest st' after cur' g) as [[st2 cur2] []]; [exact IH|].
    destruct IH; split; [assumption|lia].
Qed.

Lemma fill_gap_spec st after g : good st after ->
  match fill_follow_gap rep st after g with
  | (st', _, true) => bad st'
  | (st', cur', false) => good st' cur' /\ after <= cur'
  end.
Proof.
  intros Hg. unfold fill_follow_gap. apply gap_levels_spec; [|exact Hg].
  intros lv f H1 H2. eapply in_rep_files; [apply in_gap_levels|]; eauto.
Qed.

Lemma l0_scan_spec files :
  (forall f, In f files -> In f (rep_files rep)) ->
  forall st cur, good st cur ->
  match l0_scan rep files st cur with
  | (st', _, L0Err) => bad st'
  | (st', cur', _) => good st' cur' /\ cur <= cur'
  end.
Proof.
  induction files as [|info tl IH]; intros Hin st cur Hg; cbn [l0_scan].
  - split; [exact Hg|lia].
  - assert (Htl : forall f, In f tl -> In f (rep_files rep)) by (intros f Hf; apply Hin; now right).
    assert (Hinfo : In info (rep_files rep)) by (apply Hin; now left).
    assert (Step : forall st1 cur1, good st1 cur1 -> cur <= cur1 ->
              f_min info <= cur1 + 1 -> cur1 < f_max info ->
              match (let r := do_apply st1 info in
                     if negb (snd r) then (fst r, cur1, L0Err) else l0_scan rep tl (fst r) (f_max info)) with
              | (st', _, L0Err) => bad st'
              | (st', cur', _) => good st' cur' /\ cur <= cur'
              end).
    { intros st1 cur1 Hg1 Hle Hmin Hmax. cbv zeta.
      destruct (do_apply_spec st1 cur1 info Hg1 Hinfo Hmin Hmax) as [D1 D2].
      destruct (snd (do_apply st1 info)) eqn:E3; cbn [negb].
      - specialize (IH Htl (fst (do_apply st1 info)) (f_max info) (D1 eq_refl)).
        destruct (l0_scan rep tl (fst (do_apply st1 info)) (f_max info)) as [[st' cur'] []]; try exact IH;
          (destruct IH; split; [assumption|lia]).
      - exact (D2 eq_refl). }
    destruct (cur + 1 <? f_min info) eqn:E1.
    + pose proof (fill_gap_spec st cur (f_min info) Hg) as F.
      destruct (fill_follow_gap rep st cur (f_min info)) as [[st1 cur1] []]; [exact F|].
      destruct F as [F1 F2].
      destruct (f_max info <=? cur1) eqn:E2.
      * specialize (IH Htl st1 cur1 F1).
        destruct (l0_scan rep tl st1 cur1) as [[st' cur'] []]; try exact IH;
          (destruct IH; split; [assumption|lia]).
      * destruct (cur1 + 1 <? f_min info) eqn:E3; [split; [exact F1|lia]|].
        apply N.leb_gt in E2. apply N.ltb_ge in E3. apply Step; auto.
    + apply N.ltb_ge in E1.
      destruct (f_max info <=? cur) eqn:E2.
      * apply IH; auto.
      * apply N.leb_gt in E2. apply Step; auto. lia.
Qed.

Lemma apply_new_spec st after : good st after ->
  match apply_new_ltx_files rep st after with
  | (st', _, true) => bad st'
  | (st', cur', false) => good st' cur' /\ after <= cur'
  end.
Proof.
  intros Hg. unfold apply_new_ltx_files.
  assert (Hin : forall f, In f (l0_listing rep (after + 1)) -> In f (rep_files rep)).
  { intros f Hf. unfold l0_listing in Hf. apply filter_In in Hf as [Hf _]. now apply in_level0. }
  pose proof (l0_scan_spec _ Hin st after Hg) as S.
  destruct (l0_scan rep (l0_listing rep (after + 1)) st after) as [[st' cur] []]; try exact S.
  destruct S as [S1 S2].
  destruct (l0_listing rep (after + 1)); [|split; assumption].
  pose proof (fill_gap_spec st' cur (cur + 1) S1) as F.
  destruct (fill_follow_gap rep st' cur (cur + 1)) as [[st2 b] []]; [exact F|].
  destruct F; split; [assumption|lia].
Qed.

End Algo.
