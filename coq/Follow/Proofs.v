(** C16 theorems: follow_step, sidecar_never_ahead, follow_converges
    (apply_overlap and follow_idempotent are in Hist.v). *)
From Coq Require Import List NArith Bool Lia Arith.
From LS Require Import Base.PMap Follow.Follow Follow.Sem Follow.Hist Follow.Algo.
Import ListNotations.
Open Scope N_scope.

Section Step.
Variable h : list txn.
Hypothesis Hwf : wf_seg 0 h.
Variable rep : replica.
(** every file of levels 0..8 is, content-wise, the compaction of the level-0
    files of its own TXID range (C06); a file may additionally be unreadable
    ([f_bad] is unconstrained) *)
Hypothesis Hrep : forall f, In f (rep_files rep) -> exists lo hi, covers h f lo hi.

Lemma apply_true im f im' lo hi : covers h f lo hi -> apply_ltx_file im f = (im', true) ->
  im' = apply_tx im (f_pages f) (f_commit f).
Proof.
  intros Hc. pose proof (commit_at_pos h Hwf hi lo ltac:(destruct Hc as (? & _); assumption)) as Hp.
  destruct Hc as (_ & _ & _ & Hc & _). rewrite <- Hc in Hp. apply N.ltb_lt in Hp.
  unfold apply_ltx_file. rewrite Hp.
  destruct ((f_bad f =? 1) || (f_bad f =? 3)); [intros H; discriminate|].
  destruct (f_bad f =? 2); intros H; [discriminate|]. now injection H as <-.
Qed.

(** a failing application is a special partial application *)
Lemma apply_false im f im' lo hi : covers h f lo hi -> apply_ltx_file im f = (im', false) ->
  im' = partial_apply im f [] false \/ im' = partial_apply im f (f_pages f) true.
Proof.
  intros Hc. pose proof (commit_at_pos h Hwf hi lo ltac:(destruct Hc as (? & _); assumption)) as Hp.
  destruct Hc as (_ & _ & _ & Hc & _). rewrite <- Hc in Hp. apply N.ltb_lt in Hp.
  unfold apply_ltx_file. rewrite Hp.
  destruct ((f_bad f =? 1) || (f_bad f =? 3)); [intros H; injection H as <-; now left|].
  destruct (f_bad f =? 2); intros H; [|discriminate]. injection H as <-. now right.
Qed.

Lemma run_ok_sem im0 t im c fs :
  (t <= length h)%nat -> img_wf im0 -> img_eq im0 (img_at h t) ->
  run_ok rep im0 (N.of_nat t) im c fs ->
  exists t', c = N.of_nat t' /\ (t <= t' <= length h)%nat /\ img_wf im /\ img_eq im (img_at h t').
Proof.
  intros Ht Hw0 He0. induction 1 as [|im c fs f im' H IH Hin Hmin Hmax Hap].
  - exists t. split; [reflexivity|]. split; [lia|]. split; assumption.
  - destruct IH as (t' & -> & Hr & Hw & He).
    destruct (Hrep f Hin) as (lo & hi & Hc).
    pose proof Hc as (Hlh & Hfmin & Hfmax & _ & Hnd & _).
    rewrite (apply_true _ _ _ _ _ Hc Hap).
    exists hi. split; [exact Hfmax|]. split; [lia|]. split; [apply apply_tx_wf|].
    eapply img_eq_trans.
    + apply apply_tx_cong; [exact Hw|apply img_at_wf|exact Hnd|]. now destruct He.
    + apply (apply_overlap h Hwf f lo hi t'); [exact Hc|lia].
Qed.

(** ** follow_step *)
Theorem follow_step t s :
  (t <= length h)%nat -> img_wf s -> img_eq s (img_at h t) ->
  let r := apply_new_ltx_files rep (mkSt s []) (N.of_nat t) in
  let st' := fst (fst r) in let new := snd (fst r) in let err := snd r in
  (* every file whose application was attempted is in the replica and had
     min <= current+1 and max > current at the moment it was applied *)
  chain_ok (N.of_nat t) (s_applied st') = true /\
  Forall (fun f => In f (rep_files rep)) (s_applied st') /\
  (err = false ->
     exists t', new = N.of_nat t' /\ (t <= t' <= length h)%nat /\
                chain_end (N.of_nat t) (s_applied st') = new /\
                img_eq (s_img st') (img_at h t')).
Proof.
  intros Ht Hw He. cbv zeta.
  assert (Hg : good rep s (N.of_nat t) [] (mkSt s []) (N.of_nat t)).
  { exists []. split; [reflexivity|constructor]. }
  pose proof (apply_new_spec rep s (N.of_nat t) [] (mkSt s []) (N.of_nat t) Hg) as S.
  destruct (apply_new_ltx_files rep (mkSt s []) (N.of_nat t)) as [[st' new] err]. cbn [fst snd].
  destruct err.
  - destruct S as (fs & Ha & Hr). cbn in Ha. rewrite Ha.
    destruct (run_err_chain _ _ _ _ _ Hr) as [C1 C2]. repeat split; auto. discriminate.
  - destruct S as [(fs & Ha & Hr) Hle]. cbn in Ha. rewrite Ha.
    destruct (run_ok_chain _ _ _ _ _ _ Hr) as (C1 & C2 & _ & C4).
    repeat split; auto. intros _.
    destruct (run_ok_sem _ _ _ _ _ Ht Hw He Hr) as (t' & -> & Hr' & _ & He').
    exists t'. split; [reflexivity|]. split; [lia|]. split; [exact C2|exact He'].
Qed.

(** ** sidecar_never_ahead *)
Definition latest : nat := length h.

(** the follower between ticks: sidecar = in-memory TXID = [k], and the file
    contains everything up to [k]: every page that no longer changes after
    TXID [k] already has its final content (J); consequently re-applying any
    chain from [k] repairs whatever a kill or a failed poll left behind *)
Definition fo_inv (fo : follower) : Prop :=
  exists k, fo_sidecar fo = N.of_nat k /\ fo_last fo = N.of_nat k /\ (k <= latest)%nat /\
            J h k latest (fo_img fo).

Lemma run_ok_J im0 k im c fs :
  (k <= latest)%nat -> J h k latest im0 ->
  run_ok rep im0 (N.of_nat k) im c fs ->
  exists k', c = N.of_nat k' /\ (k <= k' <= latest)%nat /\ J h k' latest im.
Proof.
  intros Hk HJ0. induction 1 as [|im c fs f im' H IH Hin Hmin Hmax Hap].
  - exists k. split; [reflexivity|]. split; [lia|exact HJ0].
  - destruct IH as (k' & -> & Hr & HJ).
    destruct (Hrep f Hin) as (lo & hi & Hc).
    pose proof Hc as (Hlh & Hfmin & Hfmax & _).
    rewrite (apply_true _ _ _ _ _ Hc Hap).
    exists hi. unfold latest in *. split; [exact Hfmax|]. split; [lia|].
    apply (J_full h Hwf k' (length h) im f lo hi); auto; lia.
Qed.

Lemma J_weaken c c' u s : (c <= c')%nat -> J h c' u s -> J h c u s.
Proof.
  intros Hle [Hw HJ]. split; [exact Hw|]. intros p Hp St. apply HJ; [exact Hp|].
  intros v Hv. apply St. lia.
Qed.

Theorem sidecar_never_ahead fo :
  fo_inv fo ->
  let fo' := fst (follow_tick rep fo) in
  fo_inv fo' /\ fo_sidecar fo <= fo_sidecar fo'.
Proof.
  intros (k & Hs & Hl & Hk & HJ). cbv zeta. unfold follow_tick. rewrite Hl.
  assert (Hg : good rep (fo_img fo) (N.of_nat k) [] (mkSt (fo_img fo) []) (N.of_nat k)).
  { exists []. split; [reflexivity|constructor]. }
  pose proof (apply_new_spec rep _ (N.of_nat k) [] _ (N.of_nat k) Hg) as S.
  destruct (apply_new_ltx_files rep (mkSt (fo_img fo) []) (N.of_nat k)) as [[st' new] err].
  destruct err; cbn [fst snd].
  - (* failed poll: sidecar untouched, the file is a partial state above k *)
    split; [|cbn; lia]. exists k. cbn. split; [exact Hs|]. split; [(exact Hl || reflexivity)|]. split; [exact Hk|].
    destruct S as (fs & _ & (im & c & fs0 & f & Hr & Hin & Hmin & Hmax & Hap & _)).
    destruct (run_ok_J _ _ _ _ _ Hk HJ Hr) as (k' & -> & Hr' & HJ').
    destruct (Hrep f Hin) as (lo & hi & Hc).
    pose proof Hc as (Hlh & Hfmin & Hfmax & _).
    apply (J_weaken k k'); [lia|]. unfold latest in *.
    destruct (apply_false _ _ _ _ _ Hc Hap) as [-> | ->];
      apply (J_partial h Hwf k' (length h) im f lo hi); auto; try lia.
    intros kv [].
  - destruct S as [(fs & _ & Hr) Hle]. cbn in Hr.
    destruct (run_ok_J _ _ _ _ _ Hk HJ Hr) as (k' & -> & Hr' & HJ').
    destruct (N.of_nat k <? N.of_nat k') eqn:E; cbn [fst].
    + split; [|cbn; lia]. exists k'. cbn. split; [reflexivity|]. split; [reflexivity|]. split; [lia|exact HJ'].
    + apply N.ltb_ge in E. assert (k' = k) by lia. subst k'.
      split; [|cbn; lia]. exists k. cbn. split; [exact Hs|]. split; [(exact Hl || reflexivity)|]. split; [exact Hk|exact HJ'].
Qed.

(** the sidecar over any number of ticks: monotone, invariant kept *)
Corollary sidecar_monotone n : forall fo, fo_inv fo ->
  fo_inv (follow_ticks n rep fo) /\ fo_sidecar fo <= fo_sidecar (follow_ticks n rep fo).
Proof.
  induction n as [|n IH]; intros fo Hi; cbn.
  - split; [exact Hi|lia].
  - destruct (sidecar_never_ahead fo Hi) as [H1 H2].
    destruct (IH _ H1) as [H3 H4]. split; [exact H3|lia].
Qed.

(** what the invariant buys: from the state a kill (or a failed poll) leaves,
    re-applying any chain from the sidecar TXID to the latest TXID yields the
    image of the latest TXID *)
Corollary inv_repairable fo fs k :
  fo_inv fo -> fo_sidecar fo = N.of_nat k -> fs <> [] -> chainP h k fs latest ->
  img_eq (apply_all (fo_img fo) fs) (img_at h latest).
Proof.
  intros (k0 & Hs & _ & Hk & HJ) Hk' Hne Hch. assert (k0 = k) by lia. subst k0.
  apply J_done.
  - eapply chain_J; eauto.
  - eapply chain_size; eauto.
Qed.

(** a kill inside applyLTXFile of any file ending above the sidecar keeps the invariant *)
Corollary kill_keeps_inv fo f lo hi written truncated :
  fo_inv fo -> covers h f lo hi -> fo_sidecar fo <= N.of_nat hi ->
  (forall kv, In kv written -> In kv (f_pages f)) ->
  fo_inv (mkFo (partial_apply (fo_img fo) f written truncated) (fo_last fo) (fo_sidecar fo)).
Proof.
  intros (k & Hs & Hl & Hk & HJ) Hc Hle Hsub. exists k. cbn.
  split; [exact Hs|]. split; [(exact Hl || reflexivity)|]. split; [exact Hk|].
  pose proof Hc as (Hlh & _). unfold latest in *.
  apply (J_partial h Hwf k (length h) _ f lo hi); auto. lia.
Qed.

End Step.

(** ** fallible open / close: any non-ok outcome (open error, file vanished
    between listing and open, close error) stops the poll at that file and
    leaves lastTXID and the sidecar where they were; a poll that returns without
    error advanced only over files that were really applied.  No hypothesis on
    the replica. *)
Theorem failed_apply_stops_poll (rep : replica) (fo : follower) :
  let r := follow_tick rep fo in
  existsb fails (snd r) = true ->
  fo_last (fst r) = fo_last fo /\ fo_sidecar (fst r) = fo_sidecar fo /\
  exists pre f, snd r = pre ++ [f] /\ fails f = true /\
                forallb (fun g => negb (fails g)) pre = true.
Proof.
  cbv zeta. unfold follow_tick.
  assert (Hg : good rep (fo_img fo) (fo_last fo) [] (mkSt (fo_img fo) []) (fo_last fo)).
  { exists []. split; [reflexivity|constructor]. }
  pose proof (apply_new_spec rep _ (fo_last fo) [] _ (fo_last fo) Hg) as S.
  destruct (apply_new_ltx_files rep (mkSt (fo_img fo) []) (fo_last fo)) as [[st' new] err].
  destruct err.
  - cbn [fst snd]. intros _. split; [reflexivity|]. split; [reflexivity|].
    destruct S as (fs & Ha & Hr). cbn in Ha. rewrite Ha. eapply run_err_last; eauto.
  - destruct S as [(fs & Ha & Hr) _]. cbn in Ha.
    pose proof (run_ok_all_ok _ _ _ _ _ _ Hr) as Hall.
    assert (E : existsb fails (s_applied st') = false).
    { rewrite Ha. clear -Hall. induction fs as [|g tl IH]; [reflexivity|]. cbn in *.
      apply andb_prop in Hall as [H1 H2]. rewrite (IH H2). now destruct (fails g). }
    destruct (fo_last fo <? new); cbn [fst snd]; rewrite E; discriminate.
Qed.

Theorem poll_advances_only_over_applied (rep : replica) (s : image) (after : N) :
  let r := apply_new_ltx_files rep (mkSt s []) after in
  snd r = false ->
  forallb (fun g => negb (fails g)) (s_applied (fst (fst r))) = true /\
  chain_ok after (s_applied (fst (fst r))) = true /\
  snd (fst r) = chain_end after (s_applied (fst (fst r))).
Proof.
  cbv zeta.
  assert (Hg : good rep s after [] (mkSt s []) after).
  { exists []. split; [reflexivity|constructor]. }
  pose proof (apply_new_spec rep s after [] (mkSt s []) after Hg) as S.
  destruct (apply_new_ltx_files rep (mkSt s []) after) as [[st' new] err]. cbn [fst snd].
  intros ->. destruct S as [(fs & Ha & Hr) _]. cbn in Ha. rewrite Ha.
  destruct (run_ok_chain _ _ _ _ _ _ Hr) as (C1 & C2 & _).
  split; [eapply run_ok_all_ok; eauto|]. split; [exact C1|now symmetry].
Qed.
