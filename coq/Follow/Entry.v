(** [sx -> sx] entry points of the Follow layer for the correspondence runner. *)
From Coq Require Import List NArith ZArith Bool.
From LS Require Import Base.Sx Base.PMap Follow.Follow.
Import ListNotations.
Open Scope N_scope.

(** listing: [[ [min max bad] ... ]  (level 0) ; ... (level 8)] *)
Fixpoint dec_levels (l : N) (xs : list sx) : replica :=
  match xs with
  | [] => []
  | x :: tl =>
      map (fun f => mkF l (asN (nthx 0 f)) (asN (nthx 1 f)) 0 [] (asN (nthx 2 f))) (asL x)
      :: dec_levels (l + 1) tl
  end.

Definition sx_files (fs : list ltxf) : sx :=
  SL (map (fun f => SL [sxN (f_level f); sxN (f_min f); sxN (f_max f)]) fs).

(** model entry.  input [levels; t]  output [applied (level min max)...; sidecar after the tick] *)
Definition follow_poll (x : sx) : sx :=
  let rep := dec_levels 0 (asL (nthx 0 x)) in
  let t := asN (nthx 1 x) in
  let r := follow_tick rep (mkFo img_empty t t) in
  SL [sx_files (snd r); sxN (fo_sidecar (fst r))].

(** model entry.  input [snapshots (min max)...; sidecar (0 = no file); levels], database exists
    output 0 resume | 1 no -txid file | 2 history pruned | 3 ahead of latest snapshot *)
Definition follow_resume (x : sx) : sx :=
  let snaps := map (fun s => (asN (nthx 0 s), asN (nthx 1 s))) (asL (nthx 0 x)) in
  match resume_check true (asN (nthx 1 x)) snaps (dec_levels 0 (asL (nthx 2 x))) with
  | Fresh => sxN 9
  | Resume _ => sxN 0
  | RefuseNoTxid => sxN 1
  | RefusePruned => sxN 2
  | RefuseAhead => sxN 3
  end.

(** spec oracle on the implementation's own output.
    input [levels; t; applied (level min max)...; t' (sidecar after); quiescent; failed]
    [applied] = the files ACTUALLY applied (a file whose open failed is not in
    it), [failed] = 1 if an open or a close failed during the poll.
    1 iff: every applied file is in the listing; the applied sequence obeys the
    chain rule from [t]; if anything failed the sidecar did not move, otherwise
    it ends exactly at the end of the chain of applied files (so a file that
    could not be opened can never be skipped over); [t <= t']; a single
    fault-free poll makes progress whenever some
    file is usable at [t]; and when [quiescent = 1] (applied = everything since
    [t], the follower stopped making progress, no faults) no file is usable at
    [t'], and if level 0 holds only single-TXID files [t'] is the furthest TXID
    reachable from [t] by any chain. *)
Definition same_file (a b : ltxf) : bool :=
  (f_level a =? f_level b) && (f_min a =? f_min b) && (f_max a =? f_max b).

Definition follow_applied_ok (x : sx) : sx :=
  let rep := dec_levels 0 (asL (nthx 0 x)) in
  let t := asN (nthx 1 x) in
  let files := rep_files rep in
  let lookup a := find (same_file a) files in
  let applied0 := map (fun f => mkF (asN (nthx 0 f)) (asN (nthx 1 f)) (asN (nthx 2 f)) 0 [] 0) (asL (nthx 2 x)) in
  let t' := asN (nthx 3 x) in
  let q := asB (nthx 4 x) in
  let failed := asB (nthx 5 x) in
  let in_listing := forallb (fun a => match lookup a with Some _ => true | None => false end) applied0 in
  let any_bad := existsb (fun f => negb (f_bad f =? 0)) files in
  let e := chain_end t applied0 in
  sxB (in_listing && chain_ok t applied0 && (t <=? t') &&
       (if failed then t' =? t else t' =? e) &&
       (if q then
          negb (existsb (usable t') files) &&
          (if forallb (fun f => f_min f =? f_max f) (rep_level rep 0)
           then t' =? reach (S (length files)) rep t else true)
        else
          if any_bad || failed then true
          else if existsb (usable t) files then t <? t' else true)).
