(** follow_converges: on a static, readable replica in which some chain leads
    from the follower's TXID to the latest TXID, every poll makes progress and
    finitely many polls reach the latest TXID. *)
From Coq Require Import List NArith Bool Lia Arith Sorted.
From LS Require Import Base.PMap Follow.Follow Follow.Algo.
Import ListNotations.
Open Scope N_scope.

Definition by_min (a b : ltxf) : Prop := f_min a <= f_min b.
Definition fits (c : N) (f : ltxf) : Prop := f_min f <= c + 1 /\ c < f_max f.

Lemma do_apply_ok st f : f_bad f = 0 -> snd (do_apply st f) = true.
Proof. intros H. unfold do_apply, apply_ltx_file. rewrite H. reflexivity. Qed.

Lemma gap_scan_nobad files : (forall f, In f files -> f_bad f = 0) ->
  forall st cur g,
  let r := gap_scan files st cur g in
  snd r <> ScanErr /\ cur <= snd (fst r) /\ (snd r = ScanReturn -> cur < snd (fst r)).
Proof.
  induction files as [|info tl IH]; intros Hnb st cur g; cbn [gap_scan].
  - cbn. repeat split; try discriminate; lia.
  - destruct (cur + 1 <? f_min info); [cbn; repeat split; try discriminate; lia|].
    destruct (f_max info <=? cur) eqn:E2.
    + apply IH. intros f Hf; apply Hnb; now right.
    + apply N.leb_gt in E2. rewrite (do_apply_ok st info (Hnb info (or_introl eq_refl))). cbn [negb].
      destruct (g <=? f_max info + 1); [cbn; repeat split; try discriminate; lia|].
      specialize (IH (fun f Hf => Hnb f (or_intror Hf)) (fst (do_apply st info)) (f_max info) g).
      cbv zeta in *. destruct IH as (I1 & I2 & I3). repeat split; [exact I1|lia|intros; lia].
Qed.

Lemma gap_scan_progress files : (forall f, In f files -> f_bad f = 0) ->
  StronglySorted by_min files ->
  forall st cur g, (exists f, In f files /\ fits cur f) ->
  cur < snd (fst (gap_scan files st cur g)).
Proof.
  induction files as [|info tl IH]; intros Hnb Hs st cur g (f & Hin & Hmin & Hmax); [destruct Hin|].
  inversion Hs as [|? ? Hs' Hall]; subst. cbn [gap_scan].
  destruct (cur + 1 <? f_min info) eqn:E1.
  - exfalso. apply N.ltb_lt in E1. destruct Hin as [->|Hin]; [lia|].
    rewrite Forall_forall in Hall. specialize (Hall f Hin). unfold by_min in Hall. lia.
  - destruct (f_max info <=? cur) eqn:E2.
    + apply N.leb_le in E2. destruct Hin as [->|Hin]; [lia|].
      apply (IH (fun f' Hf => Hnb f' (or_intror Hf)) Hs' st cur g).
      exists f. split; [exact Hin|]. split; assumption.
    + apply N.leb_gt in E2. rewrite (do_apply_ok st info (Hnb info (or_introl eq_refl))). cbn [negb].
      destruct (g <=? f_max info + 1); [cbn; lia|].
      pose proof (gap_scan_nobad tl (fun f Hf => Hnb f (or_intror Hf)) (fst (do_apply st info)) (f_max info) g) as (_ & G & _).
      cbv zeta in G. lia.
Qed.

Lemma gap_levels_nobad levels : (forall lv f, In lv levels -> In f lv -> f_bad f = 0) ->
  forall st after cur g,
  let r := gap_levels levels st after cur g in snd r = false /\ cur <= snd (fst r).
Proof.
  induction levels as [|lv rest IH]; intros Hnb st after cur g; cbn [gap_levels].
  - cbn. split; [reflexivity|lia].
  - pose proof (gap_scan_nobad lv (fun f Hf => Hnb lv f (or_introl eq_refl) Hf) st cur g) as (G1 & G2 & _).
    cbv zeta in *. destruct (gap_scan lv st cur g) as [[st' cur'] out]. cbn [fst snd] in *.
    destruct out; [|cbn; split; [reflexivity|lia]|congruence].
    destruct (after <? cur'); [cbn; split; [reflexivity|lia]|].
    specialize (IH (fun lv' f H1 H2 => Hnb lv' f (or_intror H1) H2) st' after cur' g).
    destruct IH. split; [assumption|lia].
Qed.

Lemma gap_levels_progress levels : (forall lv f, In lv levels -> In f lv -> f_bad f = 0) ->
  (forall lv, In lv levels -> StronglySorted by_min lv) ->
  forall st after g, (exists lv f, In lv levels /\ In f lv /\ fits after f) ->
  after < snd (fst (gap_levels levels st after after g)).
Proof.
  induction levels as [|lv rest IH]; intros Hnb Hs st after g (lv0 & f & Hlv & Hin & Hfit); [destruct Hlv|].
  cbn [gap_levels].
  pose proof (gap_scan_nobad lv (fun f Hf => Hnb lv f (or_introl eq_refl) Hf) st after g) as (G1 & G2 & G3).
  pose proof (gap_scan_progress lv (fun f Hf => Hnb lv f (or_introl eq_refl) Hf) (Hs lv (or_introl eq_refl)) st after g) as P.
  cbv zeta in *. destruct (gap_scan lv st after g) as [[st' cur'] out]. cbn [fst snd] in *.
  destruct out; [|cbn; now apply G3|congruence].
  destruct (after <? cur') eqn:E; [cbn; now apply N.ltb_lt|].
  apply N.ltb_ge in E. assert (cur' = after) by lia. subst cur'.
  destruct Hlv as [->|Hlv].
  - exfalso. assert (after < after) by (apply P; eauto). lia.
  - apply IH; [intros lv' f' H1 H2; apply (Hnb lv' f'); auto; now right|intros lv' H1; apply Hs; now right|].
    exists lv0, f. auto.
Qed.

Lemma level0_cases (r : replica) : rep_level r 0 = [] \/ In (rep_level r 0) (firstn 9 r).
Proof. unfold rep_level. destruct r as [|x tl]; cbn; auto. Qed.

Section Converge.
Variable rep : replica.
Hypothesis Hnb : forall f, In f (rep_files rep) -> f_bad f = 0.
Hypothesis Hsorted : forall lv, In lv (firstn 9 rep) -> StronglySorted by_min lv.
(** the level a file is listed under is its level; level-0 files are ranges *)
Hypothesis Hlev0 : forall f, In f (rep_level rep 0) -> f_level f = 0 /\ f_min f <= f_max f.
Hypothesis Hlevn : forall lv f, In lv (gap_levels_of rep) -> In f lv -> f_level f <> 0.
Hypothesis Hsplit : forall f, In f (rep_files rep) ->
  In f (rep_level rep 0) \/ exists lv, In lv (gap_levels_of rep) /\ In f lv.

Lemma fill_gap_nobad st after g :
  let r := fill_follow_gap rep st after g in snd r = false /\ after <= snd (fst r).
Proof.
  unfold fill_follow_gap. apply gap_levels_nobad.
  intros lv f H1 H2. apply Hnb. eapply in_rep_files; [apply in_gap_levels|]; eauto.
Qed.

Lemma fill_gap_progress st after g :
  (exists f, In f (rep_files rep) /\ f_level f <> 0 /\ fits after f) ->
  after < snd (fst (fill_follow_gap rep st after g)).
Proof.
  intros (f & Hin & Hl & Hfit). unfold fill_follow_gap. apply gap_levels_progress.
  - intros lv f' H1 H2. apply Hnb. eapply in_rep_files; [apply in_gap_levels|]; eauto.
  - intros lv H1. apply Hsorted. now apply in_gap_levels.
  - destruct (Hsplit f Hin) as [H0|(lv & H1 & H2)].
    + exfalso. apply Hl. now apply Hlev0.
    + exists lv, f. auto.
Qed.

Lemma l0_scan_nobad files : (forall f, In f files -> In f (rep_files rep)) ->
  forall st cur, let r := l0_scan rep files st cur in snd r <> L0Err /\ cur <= snd (fst r).
Proof.
  induction files as [|info tl IH]; intros Hin st cur; cbn [l0_scan].
  - cbn. split; [discriminate|lia].
  - assert (Htl : forall f, In f tl -> In f (rep_files rep)) by (intros f Hf; apply Hin; now right).
    assert (Hb : f_bad info = 0) by (apply Hnb, Hin; now left).
    cbv zeta in *.
    destruct (cur + 1 <? f_min info).
    + pose proof (fill_gap_nobad st cur (f_min info)) as (F1 & F2). cbv zeta in *.
      destruct (fill_follow_gap rep st cur (f_min info)) as [[st1 cur1] e]. cbn [fst snd] in *. subst e.
      destruct (f_max info <=? cur1) eqn:E.
      * destruct (IH Htl st1 cur1). split; [assumption|lia].
      * destruct (cur1 + 1 <? f_min info); [cbn; split; [discriminate|lia]|].
        rewrite (do_apply_ok st1 info Hb). cbn [negb].
        apply N.leb_gt in E.
        destruct (IH Htl (fst (do_apply st1 info)) (f_max info)). split; [assumption|lia].
    + destruct (f_max info <=? cur) eqn:E; [apply IH; auto|].
      apply N.leb_gt in E. rewrite (do_apply_ok st info Hb). cbn [negb].
      destruct (IH Htl (fst (do_apply st info)) (f_max info)). split; [assumption|lia].
Qed.

Lemma sorted_filter (p : ltxf -> bool) l : StronglySorted by_min l -> StronglySorted by_min (filter p l).
Proof.
  induction 1 as [|a l Hs IH Hall]; cbn; [constructor|].
  destruct (p a); [|exact IH]. constructor; [exact IH|].
  rewrite Forall_forall in *. intros x Hx. apply filter_In in Hx as [Hx _]. auto.
Qed.

Lemma level0_sorted : StronglySorted by_min (rep_level rep 0).
Proof.
  destruct (level0_cases rep) as [->|H]; [constructor|now apply Hsorted].
Qed.

(** ** every poll makes progress while a usable file exists *)
Lemma apply_new_progress st after :
  (exists f, In f (rep_files rep) /\ usable after f = true) ->
  let r := apply_new_ltx_files rep st after in snd r = false /\ after < snd (fst r).
Proof.
  intros (f & Hin & Hu). cbv zeta. unfold apply_new_ltx_files.
  unfold usable in Hu. apply andb_prop in Hu as [Hu1 Hu2]. apply N.ltb_lt in Hu2.
  pose proof (l0_listing_sorted_aux := sorted_filter (fun f => after + 1 <=? f_min f) _ level0_sorted).
  fold (l0_listing rep (after + 1)) in l0_listing_sorted_aux.
  assert (Hl0in : forall g, In g (l0_listing rep (after + 1)) -> In g (rep_level rep 0) /\ after + 1 <= f_min g).
  { intros g Hg. unfold l0_listing in Hg. apply filter_In in Hg as [H1 H2]. apply N.leb_le in H2. auto. }
  assert (Hl0files : forall g, In g (l0_listing rep (after + 1)) -> In g (rep_files rep)).
  { intros g Hg. apply in_level0. now apply Hl0in. }
  (* classify the usable file *)
  assert (Hcase : (f_level f = 0 /\ In f (l0_listing rep (after + 1)) /\ f_min f = after + 1) \/
                  (f_level f <> 0 /\ fits after f)).
  { destruct (f_level f =? 0) eqn:E.
    - left. apply N.eqb_eq in E, Hu1. split; [exact E|].
      destruct (Hsplit f Hin) as [H0|(lv & H1 & H2)]; [|exfalso; now apply (Hlevn lv f)].
      split; [|exact Hu1]. unfold l0_listing. apply filter_In. split; [exact H0|]. apply N.leb_le. lia.
    - right. apply N.eqb_neq in E. apply N.leb_le in Hu1. split; [exact E|split; assumption]. }
  destruct (l0_listing rep (after + 1)) as [|info tl] eqn:EL.
  - (* no level-0 file at all: bridge from higher levels *)
    cbn [l0_scan]. destruct Hcase as [(_ & [] & _)|(Hl & Hfit)].
    pose proof (fill_gap_nobad st after (after + 1)) as (F1 & _).
    pose proof (fill_gap_progress st after (after + 1) (ex_intro _ f (conj Hin (conj Hl Hfit)))) as F2.
    cbv zeta in *. destruct (fill_follow_gap rep st after (after + 1)) as [[st2 b] e]. cbn [fst snd] in *.
    subst e. cbn. split; [reflexivity|exact F2].
  - assert (Htl : forall g, In g tl -> In g (rep_files rep)) by (intros g Hg; apply Hl0files; now right).
    assert (Hb : f_bad info = 0) by (apply Hnb, Hl0files; now left).
    destruct (Hl0in info (or_introl eq_refl)) as [Hi0 Himin].
    destruct (Hlev0 info Hi0) as [_ Hrange].
    assert (Fin : forall (x : fstate * N * l0_out), snd x <> L0Err -> after < snd (fst x) ->
              snd (match x with
                   | (st', cur, L0Err) => (st', cur, true)
                   | (st', cur, L0Return) => (st', cur, false)
                   | (st', cur, L0End) => (st', cur, false)
                   end) = false /\
              after < snd (fst (match x with
                   | (st', cur, L0Err) => (st', cur, true)
                   | (st', cur, L0Return) => (st', cur, false)
                   | (st', cur, L0End) => (st', cur, false)
                   end))).
    { intros [[st' cur] []] H1 H2; cbn in *; try (split; [reflexivity|exact H2]). congruence. }
    apply Fin; cbn [l0_scan].
    + (* no error *)
      apply (l0_scan_nobad (info :: tl)). intros g Hg. apply Hl0files. exact Hg.
    + destruct (after + 1 <? f_min info) eqn:E1.
      * apply N.ltb_lt in E1.
        destruct Hcase as [(_ & Hf0 & Hfmin)|(Hl & Hfit)].
        { exfalso. destruct Hf0 as [->|Hf0]; [lia|].
          inversion l0_listing_sorted_aux as [|? ? _ Hall]; subst.
          rewrite Forall_forall in Hall. specialize (Hall f Hf0). unfold by_min in Hall. lia. }
        pose proof (fill_gap_nobad st after (f_min info)) as (F1 & _).
        pose proof (fill_gap_progress st after (f_min info) (ex_intro _ f (conj Hin (conj Hl Hfit)))) as F2.
        cbv zeta in *. destruct (fill_follow_gap rep st after (f_min info)) as [[st1 cur1] e]. cbn [fst snd] in *.
        subst e.
        destruct (f_max info <=? cur1) eqn:E2.
        { pose proof (l0_scan_nobad tl Htl st1 cur1) as (_ & G). cbv zeta in G. lia. }
        destruct (cur1 + 1 <? f_min info); [cbn; exact F2|].
        rewrite (do_apply_ok st1 info Hb). cbn [negb].
        pose proof (l0_scan_nobad tl Htl (fst (do_apply st1 info)) (f_max info)) as (_ & G). cbv zeta in G.
        (* f_max info > cur1 is not needed: cur1 > after and the scan is monotone from f_max info >= f_min info > after *)
        lia.
      * apply N.ltb_ge in E1.
        assert (E2 : (f_max info <=? after) = false) by (apply N.leb_gt; lia).
        rewrite E2. rewrite (do_apply_ok st info Hb). cbn [negb].
        pose proof (l0_scan_nobad tl Htl (fst (do_apply st info)) (f_max info)) as (_ & G). cbv zeta in G. lia.
Qed.

(** the TXID a poll returns is the start or the max of a replica file *)
Lemma chain_end_bound U fs : forall c, c <= U -> Forall (fun f => f_max f <= U) fs -> chain_end c fs <= U.
Proof.
  induction fs as [|f tl IH]; intros c Hc Hall; cbn; [exact Hc|].
  inversion Hall; subst. apply IH; assumption.
Qed.

Lemma apply_new_bound U st after :
  after <= U -> (forall f, In f (rep_files rep) -> f_max f <= U) ->
  snd (apply_new_ltx_files rep st after) = false -> snd (fst (apply_new_ltx_files rep st after)) <= U.
Proof.
  intros Ha HU.
  assert (Hg : good rep (s_img st) after (s_applied st) st after).
  { exists []. split; [now rewrite app_nil_r|constructor]. }
  pose proof (apply_new_spec rep (s_img st) after (s_applied st) st after Hg) as S.
  destruct (apply_new_ltx_files rep st after) as [[st' new] err]. cbn [fst snd]. intros ->.
  destruct S as [(fs & _ & Hr) _].
  destruct (run_ok_chain _ _ _ _ _ _ Hr) as (_ & <- & _ & Hall).
  apply chain_end_bound; [exact Ha|]. eapply Forall_impl; [|exact Hall]. auto.
Qed.

(** ** follow_converges *)
Theorem follow_converges U : forall m fo,
  fo_last fo = fo_sidecar fo -> fo_sidecar fo <= U -> N.to_nat (U - fo_sidecar fo) = m ->
  (forall f, In f (rep_files rep) -> f_max f <= U) ->
  (forall c, fo_sidecar fo <= c < U -> exists f, In f (rep_files rep) /\ usable c f = true) ->
  exists n, (n <= m)%nat /\ fo_sidecar (follow_ticks n rep fo) = U /\ fo_last (follow_ticks n rep fo) = U.
Proof.
  induction m as [m IH] using lt_wf_ind. intros fo Hl Hle Hm HU Huse.
  destruct (N.eq_dec (fo_sidecar fo) U) as [E|E].
  - exists 0%nat. cbn. split; [lia|]. split; congruence.
  - assert (Hlt : fo_sidecar fo < U) by lia.
    destruct (Huse (fo_sidecar fo) ltac:(lia)) as (f & Hin & Hu).
    pose proof (apply_new_progress (mkSt (fo_img fo) []) (fo_last fo)) as P. rewrite Hl in P.
    specialize (P (ex_intro _ f (conj Hin Hu))). cbv zeta in P. destruct P as [P1 P2].
    pose proof (apply_new_bound U (mkSt (fo_img fo) []) (fo_sidecar fo) Hle HU P1) as B.
    remember (fst (follow_tick rep fo)) as fo' eqn:Efo.
    assert (Hfo' : fo_last fo' = fo_sidecar fo' /\ fo_sidecar fo < fo_sidecar fo' /\ fo_sidecar fo' <= U).
    { subst fo'. unfold follow_tick. rewrite Hl.
      destruct (apply_new_ltx_files rep (mkSt (fo_img fo) []) (fo_sidecar fo)) as [[st' new] err].
      cbn [fst snd] in *. subst err.
      assert (En : (fo_sidecar fo <? new) = true) by now apply N.ltb_lt. rewrite En. cbn. auto. }
    destruct Hfo' as (H1 & H2 & H3).
    destruct (IH (N.to_nat (U - fo_sidecar fo')) ltac:(lia) fo' H1 H3 eq_refl HU) as (n & Hn & Hres).
    { intros c Hc. apply Huse. lia. }
    exists (S n). split; [lia|]. cbn. rewrite <- Efo. exact Hres.
Qed.

(** a chain of replica files from [t] to [U] (level-0 members being single
    transactions) provides a usable file at every position in between *)
Lemma chain_fits fs : forall c0, chain_ok c0 fs = true ->
  forall c, c0 <= c < chain_end c0 fs -> exists f, In f fs /\ fits c f.
Proof.
  induction fs as [|f tl IH]; intros c0 Hok c Hc; cbn in *; [lia|].
  apply andb_prop in Hok as [Hok Hok3]. apply andb_prop in Hok as [Hok1 Hok2].
  apply N.leb_le in Hok1. apply N.ltb_lt in Hok2.
  destruct (N.lt_ge_cases c (f_max f)) as [H|H].
  - exists f. split; [now left|]. split; lia.
  - destruct (IH (f_max f) Hok3 c ltac:(lia)) as (g & Hg & Hfit). exists g. split; [now right|exact Hfit].
Qed.

Corollary follow_converges_chain t U fs fo :
  fo_last fo = N.of_nat t -> fo_sidecar fo = N.of_nat t ->
  Forall (fun f => In f (rep_files rep) /\ (f_level f = 0 -> f_min f = f_max f)) fs ->
  chain_ok (N.of_nat t) fs = true -> chain_end (N.of_nat t) fs = U ->
  (forall f, In f (rep_files rep) -> f_max f <= U) ->
  exists n, fo_sidecar (follow_ticks n rep fo) = U.
Proof.
  intros Hl Hs Hall Hok Hend HU.
  assert (Hle : N.of_nat t <= U).
  { clear -Hok Hend. revert Hok Hend. generalize (N.of_nat t). induction fs as [|f tl IH]; intros c Hok Hend; cbn in *; [lia|].
    apply andb_prop in Hok as [Hok Hok3]. apply andb_prop in Hok as [_ Hok2]. apply N.ltb_lt in Hok2.
    specialize (IH _ Hok3 Hend). lia. }
  destruct (follow_converges U _ fo ltac:(congruence) ltac:(lia) eq_refl HU) as (n & _ & Hn & _).
  - intros c Hc. rewrite Hs in Hc.
    destruct (chain_fits fs _ Hok c ltac:(lia)) as (f & Hf & Hmin & Hmax).
    rewrite Forall_forall in Hall. destruct (Hall f Hf) as [Hin Hunit].
    exists f. split; [exact Hin|]. unfold usable.
    apply andb_true_intro. split; [|now apply N.ltb_lt].
    destruct (f_level f =? 0) eqn:E.
    + apply N.eqb_eq in E. apply N.eqb_eq. specialize (Hunit E). lia.
    + now apply N.leb_le.
  - exists n. exact Hn.
Qed.

End Converge.
