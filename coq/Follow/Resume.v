(** Resume validation (fixed rule, commit 0ec96d8) and the publish order of the
    initial follow-mode restore (commit 22eeea8). *)
From Coq Require Import List NArith Bool Lia Arith.
From LS Require Import Base.PMap Follow.Follow Follow.Sem Follow.Hist Follow.Proofs.
Import ListNotations.
Open Scope N_scope.

(** * resume validation *)
Lemma level_max_acc lv : forall m,
  m <= fold_left (fun m f => if m <? f_max f then f_max f else m) lv m /\
  forall f, In f lv -> f_max f <= fold_left (fun m f => if m <? f_max f then f_max f else m) lv m.
Proof.
  induction lv as [|g tl IH]; intros m; cbn; [split; [lia|intros f []]|].
  destruct (IH (if m <? f_max g then f_max g else m)) as [I1 I2].
  destruct (m <? f_max g) eqn:E; [apply N.ltb_lt in E|apply N.ltb_ge in E]; split; try lia.
  - intros f [<-|H]; [lia|auto].
  - intros f [<-|H]; [lia|auto].
Qed.

Lemma level_max_ge lv f : In f lv -> f_max f <= level_max lv.
Proof. apply level_max_acc. Qed.

Lemma level_max_lt lv t : 0 < t -> (forall f, In f lv -> f_max f < t) -> level_max lv < t.
Proof.
  unfold level_max. generalize 0. induction lv as [|g tl IH]; intros m Hm H; cbn; [exact Hm|].
  apply IH; [|intros f Hf; apply H; now right].
  destruct (m <? f_max g); [apply H; now left|exact Hm].
Qed.

(** the loop stops as soon as the sidecar is covered; what it decides is
    whether the sidecar is at most the maximum over the snapshot and all levels *)
Lemma resume_max_ge levels : forall t m,
  (t <= m \/ exists lv, In lv levels /\ t <= level_max lv) -> t <= resume_max levels t m.
Proof.
  induction levels as [|lv rest IH]; intros t m H; cbn.
  - destruct H as [H|(lv & [] & _)]. exact H.
  - destruct (m <? t) eqn:E; [apply N.ltb_lt in E|apply N.ltb_ge in E; exact E].
    apply IH. destruct H as [H|(lv' & [<-|Hin] & Hle)]; [lia| |right; eauto].
    left. destruct (m <? level_max lv) eqn:E2; [exact Hle|apply N.ltb_ge in E2; lia].
Qed.

Lemma resume_max_lt levels : forall t m,
  m < t -> (forall lv, In lv levels -> level_max lv < t) -> resume_max levels t m < t.
Proof.
  induction levels as [|lv rest IH]; intros t m Hm H; cbn; [exact Hm|].
  destruct (m <? t); [|exact Hm]. apply IH; [|intros lv' Hl; apply H; now right].
  destruct (m <? level_max lv); [apply H; now left|exact Hm].
Qed.

Lemma rep_files_level (rep : replica) f : In f (rep_files rep) -> exists lv, In lv (firstn 9 rep) /\ In f lv.
Proof. unfold rep_files. intros H. apply in_concat in H as (lv & H1 & H2). eauto. Qed.

(** (a) every sidecar a follower can hold is accepted: not behind the latest
    snapshot's min, and reached by the snapshot or by some file of levels 0..8
    (a follower's TXID is always the max of a file it applied, and compaction
    preserves maxima) *)
Theorem resume_accepted sidecar snaps (rep : replica) :
  sidecar <> 0 ->
  (forall smin smax tl, rev snaps = (smin, smax) :: tl ->
     smin <= sidecar /\ (sidecar <= smax \/ exists f, In f (rep_files rep) /\ sidecar <= f_max f)) ->
  resume_check true sidecar snaps rep = Resume sidecar.
Proof.
  intros H0 H. unfold resume_check. apply N.eqb_neq in H0. rewrite H0.
  destruct (rev snaps) as [|[smin smax] tl] eqn:E; [reflexivity|].
  destruct (H smin smax tl eq_refl) as [H1 H2].
  assert (E1 : (sidecar <? smin) = false) by (apply N.ltb_ge; exact H1). rewrite E1.
  assert (E2 : (resume_max (firstn 9 rep) sidecar smax <? sidecar) = false).
  { apply N.ltb_ge. apply resume_max_ge. destruct H2 as [H2|(f & Hin & Hle)]; [now left|right].
    destruct (rep_files_level rep f Hin) as (lv & Hl & Hf). exists lv. split; [exact Hl|].
    pose proof (level_max_ge lv f Hf). lia. }
  now rewrite E2.
Qed.

(** ... and a sidecar beyond everything in the replica is still refused *)
Theorem resume_refused_beyond_replica sidecar snaps (rep : replica) smin smax tl :
  rev snaps = (smin, smax) :: tl -> smin <= sidecar -> smax < sidecar ->
  (forall f, In f (rep_files rep) -> f_max f < sidecar) ->
  resume_check true sidecar snaps rep = RefuseAhead.
Proof.
  intros E H1 H2 H. unfold resume_check.
  assert (E0 : (sidecar =? 0) = false) by (apply N.eqb_neq; lia). rewrite E0, E.
  assert (E1 : (sidecar <? smin) = false) by (apply N.ltb_ge; exact H1). rewrite E1.
  assert (E2 : (resume_max (firstn 9 rep) sidecar smax <? sidecar) = true).
  { apply N.ltb_lt. apply resume_max_lt; [exact H2|]. intros lv Hl. apply level_max_lt; [lia|].
    intros f Hf. apply H. eapply Algo.in_rep_files; eauto. }
  now rewrite E2.
Qed.

(** * the initial restore, killed anywhere *)
Lemma run_rsteps_app od l1 l2 : run_rsteps od (l1 ++ l2) = run_rsteps (run_rsteps od l1) l2.
Proof. unfold run_rsteps. apply fold_left_app. Qed.

Lemma run_writes l : forall od,
  od_db (run_rsteps od (map RWriteTmp l)) = od_db od /\
  od_side (run_rsteps od (map RWriteTmp l)) = od_side od.
Proof.
  unfold run_rsteps. induction l as [|im tl IH]; intros od; cbn [map fold_left]; [auto|].
  destruct (IH (rstep_apply od (RWriteTmp im))) as [I1 I2]. rewrite I1, I2. cbn. auto.
Qed.

(** (b) with the sidecar published first, every prefix of the initial restore
    (a kill between any two steps, also during the cleanup after a failed
    integrity check) leaves either no database - the next Restore takes the
    ordinary fresh path, a leftover or stale sidecar is overwritten - or the
    complete database together with its sidecar *)
Theorem initial_restore_kill_safe integrity partials target t (od0 : outdir) (k : nat) :
  od_db od0 = None ->
  let od := run_rsteps od0 (firstn k (initial_restore true integrity partials target t)) in
  match od_db od with
  | None => forall snaps rep, restart_decision od snaps rep = Fresh
  | Some im => im = target /\ od_side od = t
  end.
Proof.
  intros H0. cbv zeta. unfold initial_restore.
  rewrite firstn_app, run_rsteps_app, firstn_map.
  destruct (run_writes (firstn k partials) od0) as [W1 _]. rewrite H0 in W1.
  set (od1 := run_rsteps od0 (map RWriteTmp (firstn k partials))) in *.
  set (k' := (k - length (map RWriteTmp partials))%nat). clearbody k'.
  assert (Fresh_ok : forall od, od_db od = None -> forall snaps rep, restart_decision od snaps rep = Fresh).
  { intros od E snaps rep. unfold restart_decision. now rewrite E. }
  destruct integrity; destruct k' as [|[|[|[|[|[|k'']]]]]]; cbn; rewrite ?W1; cbn; auto.
Qed.

(** the order before commit 22eeea8 had a window in which the database exists
    without sidecar, and every restart is refused *)
Lemma initial_restore_old_order_refuted :
  forall target t snaps rep,
  let od := run_rsteps (mkOd None None 0) (firstn 2 (initial_restore false false [] target t)) in
  od_db od = Some target /\ od_side od = 0 /\ restart_decision od snaps rep = RefuseNoTxid.
Proof. intros. cbn. auto. Qed.

(** the rule before commit 0ec96d8 refused a follower that had legitimately
    advanced past the latest snapshot; the fixed rule accepts it *)
Lemma resume_old_rule_refuted :
  exists (snaps : list (N * N)) (sidecar : N) (rep : replica),
    resume_check_old true sidecar snaps = RefuseAhead /\
    resume_check true sidecar snaps rep = Resume sidecar.
Proof.
  exists [(1, 2)], 3, [[mkF 0 3 3 1 [] 0]]. split; reflexivity.
Qed.

Section WithHistory.
Variable h : list txn.
Hypothesis Hwf : wf_seg 0 h.

(** kill_keeps_sidecar_invariant extended over the initial restore: whatever
    the kill point, a restart either restores afresh or resumes from a state
    satisfying the sidecar invariant (content = image of the sidecar TXID), from
    which sidecar_never_ahead / follow_converges / sidecar_state_repairable apply *)
Theorem initial_restore_kill_resumable integrity partials (t' : nat) (od0 : outdir) (k : nat) :
  (t' <= length h)%nat -> od_db od0 = None ->
  let od := run_rsteps od0 (firstn k (initial_restore true integrity partials (img_at h t') (N.of_nat t'))) in
  match od_db od with
  | None => forall snaps rep, restart_decision od snaps rep = Fresh
  | Some im => fo_inv h (mkFo im (od_side od) (od_side od))
  end.
Proof.
  intros Ht H0. cbv zeta.
  pose proof (initial_restore_kill_safe integrity partials (img_at h t') (N.of_nat t') od0 k H0) as S.
  cbv zeta in S.
  destruct (od_db (run_rsteps od0 (firstn k (initial_restore true integrity partials (img_at h t') (N.of_nat t'))))) as [im|];
    [|exact S].
  destruct S as [-> ->]. exists t'. cbn. split; [reflexivity|]. split; [reflexivity|]. split; [exact Ht|].
  apply J_img_at. exact Ht.
Qed.
End WithHistory.
