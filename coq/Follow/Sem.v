(** Semantics used by the C16 theorems: images as page views, transactions,
    histories, compaction as a lookup specification, and the two facts about
    compacted files (F1: holds the final version of every page it contains;
    F2: a page it does not contain did not change over its range). *)
From Coq Require Import List NArith Bool Lia Arith.
From LS Require Import Base.PMap Follow.Follow.
Import ListNotations.
Open Scope N_scope.

(** * association lists *)
Lemma pm_get_app {V} k (a b : pmap V) :
  pm_get k (a ++ b) = match pm_get k a with Some v => Some v | None => pm_get k b end.
Proof.
  induction a as [|[k0 v0] tl IH]; cbn; [reflexivity|].
  destruct (N.eqb k k0); [reflexivity|exact IH].
Qed.

Lemma pm_get_In {V} k v (l : pmap V) : pm_get k l = Some v -> In (k, v) l.
Proof.
  induction l as [|[k0 v0] tl IH]; cbn; [discriminate|].
  destruct (N.eqb k k0) eqn:E.
  - apply N.eqb_eq in E; subst. intros H; injection H as ->. now left.
  - intros H; right; auto.
Qed.

Lemma pm_get_None {V} k (l : pmap V) : pm_get k l = None <-> ~ In k (map fst l).
Proof.
  induction l as [|[k0 v0] tl IH]; cbn.
  - split; auto.
  - destruct (N.eqb k k0) eqn:E.
    + apply N.eqb_eq in E; subst. split; [discriminate|]. intros H; exfalso; apply H; now left.
    + apply N.eqb_neq in E. rewrite IH. split.
      * intros H [H1|H1]; [congruence|auto].
      * intros H H1; apply H; now right.
Qed.

Lemma In_pm_get {V} k v (l : pmap V) : NoDup (map fst l) -> In (k, v) l -> pm_get k l = Some v.
Proof.
  induction l as [|[k0 v0] tl IH]; cbn; [tauto|].
  intros Hnd [H|H].
  - injection H as -> ->. now rewrite N.eqb_refl.
  - inversion Hnd; subst. destruct (N.eqb k k0) eqn:E.
    + apply N.eqb_eq in E; subst. exfalso. apply H2. change k0 with (fst (k0, v)). now apply in_map.
    + auto.
Qed.

Lemma pm_get_rev {V} k (l : pmap V) : NoDup (map fst l) -> pm_get k (rev l) = pm_get k l.
Proof.
  intros Hnd.
  assert (Hnd' : NoDup (map fst (rev l))) by (rewrite map_rev; now apply NoDup_rev).
  destruct (pm_get k l) eqn:E.
  - apply In_pm_get; [exact Hnd'|]. apply in_rev. rewrite rev_involutive. now apply pm_get_In.
  - apply pm_get_None. apply pm_get_None in E. rewrite map_rev. intros H; apply E. now apply in_rev.
Qed.

(** * images *)
Definition img_wf (im : image) : Prop := forall p c, pm_get p (im_pages im) = Some c -> p <= im_size im.
Definition img_eq (a b : image) : Prop := im_size a = im_size b /\ forall p, pg a p = pg b p.

Lemma img_eq_refl a : img_eq a a. Proof. split; auto. Qed.
Lemma img_eq_sym a b : img_eq a b -> img_eq b a. Proof. intros [H1 H2]; split; auto. Qed.
Lemma img_eq_trans a b c : img_eq a b -> img_eq b c -> img_eq a c.
Proof. intros [H1 H2] [H3 H4]; split; [congruence|]. intros p; now rewrite H2. Qed.

Lemma img_wf_empty : img_wf img_empty. Proof. intros p c; cbn; discriminate. Qed.

Lemma pg_some im p c : pg im p = Some c -> 1 <= p <= im_size im.
Proof.
  unfold pg. destruct (1 <=? p) eqn:E1; destruct (p <=? im_size im) eqn:E2; cbn; try discriminate.
  intros _. apply N.leb_le in E1, E2. lia.
Qed.
Lemma pg_in im p : 1 <= p <= im_size im -> exists c, pg im p = Some c.
Proof.
  intros [H1 H2]. unfold pg. apply N.leb_le in H1, H2. rewrite H1, H2. cbn. eauto.
Qed.
Lemma pg_none im p : pg im p = None -> p < 1 \/ im_size im < p.
Proof.
  unfold pg. destruct (1 <=? p) eqn:E1; destruct (p <=? im_size im) eqn:E2; cbn; try discriminate; intros _.
  - apply N.leb_gt in E2. now right.
  - apply N.leb_gt in E1. now left.
  - apply N.leb_gt in E1. now left.
Qed.

Lemma write_pages_get p l : forall im,
  pm_get p (im_pages (write_pages im l)) =
  match pm_get p (rev l) with Some c => Some c | None => pm_get p (im_pages im) end.
Proof.
  induction l as [|kv tl IH]; intros im; cbn [write_pages fold_left rev]; [reflexivity|].
  fold (write_pages (write_page im kv) tl). rewrite IH. rewrite pm_get_app.
  destruct (pm_get p (rev tl)); [reflexivity|].
  cbn [write_page im_pages]. rewrite pm_get_set. destruct kv as [k v]; cbn [fst snd pm_get].
  destruct (N.eqb p k); reflexivity.
Qed.

Lemma write_pages_size_ge l : forall im, im_size im <= im_size (write_pages im l).
Proof.
  induction l as [|kv tl IH]; intros im; cbn [write_pages fold_left]; [lia|].
  fold (write_pages (write_page im kv) tl). specialize (IH (write_page im kv)). cbn in IH. lia.
Qed.

Lemma write_pages_size_key l : forall im k, In k (map fst l) -> k <= im_size (write_pages im l).
Proof.
  induction l as [|kv tl IH]; intros im k; cbn [write_pages fold_left map]; [intros []|].
  fold (write_pages (write_page im kv) tl). intros [H|H].
  - pose proof (write_pages_size_ge tl (write_page im kv)) as G. cbn in G. subst. lia.
  - now apply IH.
Qed.

Lemma write_pages_wf l : forall im, img_wf im -> img_wf (write_pages im l).
Proof.
  induction l as [|kv tl IH]; intros im Hwf; cbn [write_pages fold_left]; [exact Hwf|].
  fold (write_pages (write_page im kv) tl). apply IH.
  intros p c. cbn [write_page im_pages im_size]. rewrite pm_get_set.
  destruct (N.eqb p (fst kv)) eqn:E.
  - apply N.eqb_eq in E; subst. lia.
  - intros H. apply Hwf in H. lia.
Qed.

Lemma truncate_wf im n : img_wf (truncate im n).
Proof.
  intros p c. cbn [truncate im_pages im_size].
  rewrite (pm_get_filter_key (fun k => k <=? n)). destruct (p <=? n) eqn:E; [|discriminate].
  intros _. now apply N.leb_le.
Qed.

Lemma pg_truncate im n p : img_wf im ->
  pg (truncate im n) p =
  if (1 <=? p) && (p <=? n) then Some (match pg im p with Some c => c | None => 0 end) else None.
Proof.
  intros Hwf. unfold pg at 1. cbn [truncate im_pages im_size].
  destruct ((1 <=? p) && (p <=? n)) eqn:E; [|reflexivity].
  apply andb_prop in E as [E1 E2]. f_equal.
  rewrite (pm_get_filter_key (fun k => k <=? n)). rewrite E2.
  unfold pg. rewrite E1. cbn [andb].
  destruct (p <=? im_size im) eqn:E3; [reflexivity|].
  destruct (pm_get p (im_pages im)) eqn:G; [|reflexivity].
  apply Hwf in G. apply N.leb_gt in E3. lia.
Qed.

(** writing a list of pages without truncating (what a killed applyLTXFile may
    have done): pages written read back; other pages inside the old size keep
    their content *)
Lemma pg_write_pages_hit im l p c : 1 <= p -> pm_get p (rev l) = Some c -> pg (write_pages im l) p = Some c.
Proof.
  intros H1 H. unfold pg. rewrite write_pages_get, H.
  assert (p <= im_size (write_pages im l)).
  { apply write_pages_size_key. apply pm_get_In in H. apply in_rev in H.
    change p with (fst (p, c)). now apply in_map. }
  apply N.leb_le in H1, H0. now rewrite H1, H0.
Qed.
Lemma pg_write_pages_miss im l p c : pm_get p (rev l) = None -> pg im p = Some c -> pg (write_pages im l) p = Some c.
Proof.
  intros H G. pose proof (pg_some _ _ _ G) as [H1 H2].
  pose proof (write_pages_size_ge l im).
  unfold pg in *. rewrite write_pages_get, H.
  assert (E1 : (1 <=? p) = true) by now apply N.leb_le.
  assert (E2 : (p <=? im_size im) = true) by now apply N.leb_le.
  assert (E3 : (p <=? im_size (write_pages im l)) = true) by (apply N.leb_le; lia).
  rewrite E1, E2 in G. rewrite E1, E3. exact G.
Qed.

(** * transactions *)
Definition apply_tx (im : image) (pages : list (N * N)) (commit : N) : image :=
  truncate (write_pages im pages) commit.

Lemma apply_ok im f : f_bad f = 0 -> 0 < f_commit f ->
  apply_ltx_file im f = (apply_tx im (f_pages f) (f_commit f), true).
Proof.
  intros Hb Hc. unfold apply_ltx_file, apply_tx. rewrite Hb. cbn.
  apply N.ltb_lt in Hc. now rewrite Hc.
Qed.

Lemma apply_tx_wf im pages c : img_wf (apply_tx im pages c).
Proof. apply truncate_wf. Qed.
Lemma apply_tx_size im pages c : im_size (apply_tx im pages c) = c.
Proof. reflexivity. Qed.

Lemma pg_apply_tx im pages c p : img_wf im -> NoDup (map fst pages) ->
  pg (apply_tx im pages c) p =
  if (1 <=? p) && (p <=? c)
  then Some (match pm_get p pages with
             | Some v => v
             | None => match pg im p with Some v => v | None => 0 end
             end)
  else None.
Proof.
  intros Hwf Hnd. unfold apply_tx. rewrite pg_truncate by now apply write_pages_wf.
  destruct ((1 <=? p) && (p <=? c)) eqn:E; [|reflexivity]. f_equal.
  apply andb_prop in E as [E1 _]. apply N.leb_le in E1.
  rewrite <- (pm_get_rev p pages Hnd).
  destruct (pm_get p (rev pages)) eqn:G.
  - now rewrite (pg_write_pages_hit im pages p n E1 G).
  - destruct (pg im p) eqn:G2.
    + now rewrite (pg_write_pages_miss im pages p n G G2).
    + destruct (pg (write_pages im pages) p) eqn:G3; [|reflexivity].
      unfold pg in G3. rewrite write_pages_get, G in G3.
      destruct ((1 <=? p) && (p <=? im_size (write_pages im pages))); [|discriminate].
      injection G3 as <-.
      destruct (pm_get p (im_pages im)) eqn:G4; [|reflexivity].
      apply Hwf in G4. apply pg_none in G2. lia.
Qed.

Lemma apply_tx_cong a b pages c : img_wf a -> img_wf b -> NoDup (map fst pages) ->
  (forall p, pg a p = pg b p) -> img_eq (apply_tx a pages c) (apply_tx b pages c).
Proof.
  intros Ha Hb Hnd H. split; [reflexivity|]. intros p.
  rewrite !pg_apply_tx by assumption. now rewrite H.
Qed.

Definition txn := (list (N * N) * N)%type.
Definition run (im : image) (l : list txn) : image :=
  fold_left (fun im x => apply_tx im (fst x) (snd x)) l im.

(** a well-formed transaction on top of a database of [c0] pages: positive
    commit, distinct page numbers within 1..commit, and growth-closed: every
    page in (c0, commit] is present (writeLTXFromWAL's growth fill; C06) *)
Definition wf_tx (c0 : N) (x : txn) : Prop :=
  0 < snd x /\ NoDup (map fst (fst x)) /\
  (forall p, In p (map fst (fst x)) -> 1 <= p <= snd x) /\
  (forall p, c0 < p <= snd x -> In p (map fst (fst x))).
Fixpoint wf_seg (c0 : N) (l : list txn) : Prop :=
  match l with
  | [] => True
  | x :: tl => wf_tx c0 x /\ wf_seg (snd x) tl
  end.
Definition last_commit (c0 : N) (l : list txn) : N := fold_left (fun _ x => snd x) l c0.

Lemma last_commit_app c0 l x : last_commit c0 (l ++ [x]) = snd x.
Proof. unfold last_commit. now rewrite fold_left_app. Qed.

Lemma wf_seg_app c0 l1 l2 : wf_seg c0 (l1 ++ l2) <-> wf_seg c0 l1 /\ wf_seg (last_commit c0 l1) l2.
Proof.
  revert c0. induction l1 as [|x tl IH]; intros c0; cbn.
  - tauto.
  - rewrite IH. unfold last_commit. cbn. tauto.
Qed.

Lemma run_app im l1 l2 : run im (l1 ++ l2) = run (run im l1) l2.
Proof. unfold run. now rewrite fold_left_app. Qed.

Lemma run_wf l : forall im, img_wf im -> img_wf (run im l).
Proof.
  induction l as [|x tl IH]; intros im H; cbn; [exact H|]. apply IH. apply apply_tx_wf.
Qed.

Lemma run_size l : forall im, im_size (run im l) = last_commit (im_size im) l.
Proof.
  induction l as [|x tl IH]; intros im; cbn; [reflexivity|].
  unfold run in IH. rewrite IH. reflexivity.
Qed.

(** * compaction, as the lookup it must implement: newest input wins, pages
    beyond the last commit are dropped (ltx.Compactor) *)
Definition union_pages (l : list txn) : pmap N := fold_left (fun acc x => pm_union acc (fst x)) l [].
Definition compact (l : list txn) : list (N * N) * N :=
  let c := last_commit 0 l in (pm_filter (fun k _ => k <=? c) (union_pages l), c).

Lemma union_pages_snoc p l x :
  pm_get p (union_pages (l ++ [x])) =
  match pm_get p (fst x) with Some v => Some v | None => pm_get p (union_pages l) end.
Proof. unfold union_pages. rewrite fold_left_app. cbn. apply pm_get_union. Qed.

Lemma firstn_snoc {A} j (l : list A) x :
  (j <= length l)%nat -> firstn j (l ++ [x]) = firstn j l.
Proof.
  intros H. rewrite firstn_app. replace (j - length l)%nat with 0%nat by lia.
  cbn. now rewrite app_nil_r.
Qed.

(** the segment lemma *)
Lemma seg_lookup l : forall im, img_wf im -> wf_seg (im_size im) l ->
  forall p,
    (forall c, pm_get p (union_pages l) = Some c -> p <= last_commit (im_size im) l ->
               pg (run im l) p = Some c) /\
    (pm_get p (union_pages l) = None -> 1 <= p <= last_commit (im_size im) l ->
     p <= im_size im /\ forall j, (j <= length l)%nat -> pg (run im (firstn j l)) p = pg im p).
Proof.
  induction l as [|x l' IH] using rev_ind; intros im Hwf Hseg p.
  - cbn. split; [discriminate|]. intros _ H. split; [lia|]. intros j _. now destruct j.
  - apply wf_seg_app in Hseg as [Hseg' [Hx _]].
    destruct Hx as (Hc & Hnd & Hrange & Hgrow).
    specialize (IH im Hwf Hseg' p) as [IH1 IH2].
    rewrite last_commit_app, run_app. cbn [run fold_left].
    assert (Hwf' : img_wf (run im l')) by now apply run_wf.
    assert (Hsz : im_size (run im l') = last_commit (im_size im) l') by apply run_size.
    split.
    + intros c. rewrite union_pages_snoc. intros G Hle.
      rewrite pg_apply_tx by assumption.
      destruct (pm_get p (fst x)) eqn:Gx.
      * injection G as ->.
        assert (1 <= p <= snd x).
        { apply Hrange. apply pm_get_In in Gx. change p with (fst (p, c)). now apply in_map. }
        assert (E1 : (1 <=? p) = true) by (apply N.leb_le; lia).
        assert (E2 : (p <=? snd x) = true) by (apply N.leb_le; lia).
        now rewrite E1, E2.
      * assert (Hp' : p <= last_commit (im_size im) l').
        { destruct (N.le_gt_cases p (last_commit (im_size im) l')) as [|Hgt]; [assumption|].
          exfalso. apply pm_get_None in Gx. apply Gx. apply Hgrow. lia. }
        specialize (IH1 c G Hp'). rewrite IH1.
        pose proof (pg_some _ _ _ IH1) as [H1 _].
        assert (E1 : (1 <=? p) = true) by (apply N.leb_le; lia).
        assert (E2 : (p <=? snd x) = true) by (apply N.leb_le; lia).
        now rewrite E1, E2.
    + rewrite union_pages_snoc. intros G [Hp1 Hle].
      destruct (pm_get p (fst x)) eqn:Gx; [discriminate|].
      assert (Hp' : p <= last_commit (im_size im) l').
      { destruct (N.le_gt_cases p (last_commit (im_size im) l')) as [|Hgt]; [assumption|].
        exfalso. apply pm_get_None in Gx. apply Gx. apply Hgrow. lia. }
      destruct (IH2 G (conj Hp1 Hp')) as [Hsz0 Hpre]. split; [exact Hsz0|].
      intros j Hj. rewrite app_length in Hj. cbn in Hj.
      destruct (Nat.eq_dec j (length l' + 1)) as [->|Hne].
      * rewrite firstn_all2 by (rewrite app_length; cbn; lia).
        rewrite run_app. cbn [run fold_left]. rewrite pg_apply_tx by assumption.
        rewrite Gx.
        assert (E1 : (1 <=? p) = true) by (apply N.leb_le; lia).
        assert (E2 : (p <=? snd x) = true) by (apply N.leb_le; lia).
        rewrite E1, E2. cbn [andb].
        specialize (Hpre (length l') (le_n _)). rewrite firstn_all in Hpre.
        rewrite Hpre. destruct (pg_in im p (conj Hp1 Hsz0)) as [c Hc']. now rewrite Hc'.
      * rewrite firstn_snoc by lia. apply Hpre. lia.
Qed.
