(** Model of follow-mode restore (replica.go: Restore's resume validation,
    follow, applyNewLTXFiles, applyLTXFile, fillFollowGap, WriteTXIDFile).

    Abstract LTX file: (level, minTXID, maxTXID, commit, pages pgno -> content,
    bad).  Page content is an abstract value (a digest of the page with header
    bytes 18-19 and 24-27 of page 1 masked: those are the bytes applyLTXFile
    rewrites).  [bad] is the outcome of the fallible steps of applyLTXFile:
    0 = ok; 1 = OpenLTXFile / DecodeHeader error (nothing written); 3 =
    OpenLTXFile reports that the file does not exist (it was listed, then
    compacted away or removed by retention before the follower opened it:
    nothing written; the code does NOT treat this specially - it is an error
    like any other); 2 = Decoder.Close error after every page was written and
    the file truncated (trailer checksum mismatch).

    Image: the follower's database file as page map + size in pages.  A page
    inside the size that was never written reads as zeros (content 0): WriteAt
    past EOF and Truncate to a larger size both leave holes. *)
From Coq Require Import List NArith Bool Lia.
From LS Require Import Base.PMap.
Import ListNotations.
Open Scope N_scope.

Record ltxf := mkF {
  f_level : N; f_min : N; f_max : N; f_commit : N;
  f_pages : list (N * N);
  f_bad : N }.

Record image := mkI { im_pages : pmap N; im_size : N }.
Definition img_empty : image := mkI [] 0.

(** f.WriteAt(data, (pgno-1)*pageSize) *)
Definition write_page (im : image) (kv : N * N) : image :=
  mkI (pm_set (fst kv) (snd kv) (im_pages im)) (N.max (im_size im) (fst kv)).
Definition write_pages (im : image) (l : list (N * N)) : image := fold_left write_page l im.
(** f.Truncate(commit*pageSize) *)
Definition truncate (im : image) (n : N) : image :=
  mkI (pm_filter (fun k _ => k <=? n) (im_pages im)) n.
(** what a reader of the file sees at page [p] *)
Definition pg (im : image) (p : N) : option N :=
  if (1 <=? p) && (p <=? im_size im)
  then Some (match pm_get p (im_pages im) with Some c => c | None => 0 end)
  else None.

(** applyLTXFile: open+header (may fail, nothing written); every page written in
    file order; [if hdr.Commit > 0 { sync; truncate }]; dec.Close (may fail,
    everything already written); sync. *)
Definition apply_ltx_file (im : image) (f : ltxf) : image * bool :=
  if (f_bad f =? 1) || (f_bad f =? 3) then (im, false)
  else
    let im1 := write_pages im (f_pages f) in
    let im2 := if 0 <? f_commit f then truncate im1 (f_commit f) else im1 in
    if f_bad f =? 2 then (im2, false) else (im2, true).

(** follower state inside one poll: the file and (ghost) the files whose
    application was attempted, in order *)
Record fstate := mkSt { s_img : image; s_applied : list ltxf }.

(** the application of [f] fails (for every image) *)
Definition fails (f : ltxf) : bool := (f_bad f =? 1) || (f_bad f =? 3) || (f_bad f =? 2).

Definition do_apply (st : fstate) (f : ltxf) : fstate * bool :=
  let r := apply_ltx_file (s_img st) f in
  (mkSt (fst r) (s_applied st ++ [f]), snd r).

(** replica: element [l] is the listing of level [l] as the client returns it
    (sorted by (min,max)); levels 1..8 are searched by fillFollowGap
    ([for level := 1; level < SnapshotLevel]) *)
Definition replica := list (list ltxf).
Definition rep_level (rep : replica) (l : nat) : list ltxf := nth l rep [].
Definition gap_levels_of (rep : replica) : list (list ltxf) := firstn 8 (skipn 1 rep).

Inductive scan_out := ScanEnd | ScanReturn | ScanErr.

(** inner loop of fillFollowGap over one level *)
Fixpoint gap_scan (files : list ltxf) (st : fstate) (cur gapMin : N) : fstate * N * scan_out :=
  match files with
  | [] => (st, cur, ScanEnd)
  | info :: tl =>
      if cur + 1 <? f_min info then (st, cur, ScanEnd)            (* gap at this level too: break *)
      else if f_max info <=? cur then gap_scan tl st cur gapMin   (* already covered: continue *)
      else
        let r := do_apply st info in
        if negb (snd r) then (fst r, cur, ScanErr)
        else
          let cur' := f_max info in
          if gapMin <=? cur' + 1 then (fst r, cur', ScanReturn)    (* bridged past the gap *)
          else gap_scan tl (fst r) cur' gapMin
  end.

(** outer loop of fillFollowGap; result (state, currentTXID, error?) *)
Fixpoint gap_levels (levels : list (list ltxf)) (st : fstate) (after cur gapMin : N) : fstate * N * bool :=
  match levels with
  | [] => (st, cur, false)
  | lv :: rest =>
      match gap_scan lv st cur gapMin with
      | (st', cur', ScanErr) => (st', cur', true)
      | (st', cur', ScanReturn) => (st', cur', false)
      | (st', cur', ScanEnd) =>
          if after <? cur' then (st', cur', false)                  (* progress at this level: return *)
          else gap_levels rest st' after cur' gapMin
      end
  end.

Definition fill_follow_gap (rep : replica) (st : fstate) (after gapMin : N) : fstate * N * bool :=
  gap_levels (gap_levels_of rep) st after after gapMin.

Inductive l0_out := L0End | L0Return | L0Err.

(** the [for itr.Next()] loop of applyNewLTXFiles *)
Fixpoint l0_scan (rep : replica) (files : list ltxf) (st : fstate) (cur : N) : fstate * N * l0_out :=
  match files with
  | [] => (st, cur, L0End)
  | info :: tl =>
      if cur + 1 <? f_min info then
        match fill_follow_gap rep st cur (f_min info) with
        | (st1, _, true) => (st1, cur, L0Err)
        | (st1, cur1, false) =>
            if f_max info <=? cur1 then l0_scan rep tl st1 cur1      (* re-check: no longer needed *)
            else if cur1 + 1 <? f_min info then (st1, cur1, L0Return) (* re-check: still a gap *)
            else if f_max info <=? cur1 then l0_scan rep tl st1 cur1
            else
              let r := do_apply st1 info in
              if negb (snd r) then (fst r, cur1, L0Err)
              else l0_scan rep tl (fst r) (f_max info)
        end
      else if f_max info <=? cur then l0_scan rep tl st cur          (* covered by a higher-level file *)
      else
        let r := do_apply st info in
        if negb (snd r) then (fst r, cur, L0Err)
        else l0_scan rep tl (fst r) (f_max info)
  end.

(** Client.LTXFiles(ctx, 0, seek): files with minTXID >= seek *)
Definition l0_listing (rep : replica) (seek : N) : list ltxf :=
  filter (fun f => seek <=? f_min f) (rep_level rep 0).

(** applyNewLTXFiles; result (state, returned TXID, error?) *)
Definition apply_new_ltx_files (rep : replica) (st : fstate) (after : N) : fstate * N * bool :=
  let l0 := l0_listing rep (after + 1) in
  match l0_scan rep l0 st after with
  | (st', cur, L0Err) => (st', cur, true)
  | (st', cur, L0Return) => (st', cur, false)
  | (st', cur, L0End) =>
      match l0 with
      | [] =>                                                       (* !sawLevel0 *)
          match fill_follow_gap rep st' cur (cur + 1) with
          | (st2, _, true) => (st2, cur, true)
          | (st2, b, false) => (st2, b, false)
          end
      | _ :: _ => (st', cur, false)
      end
  end.

(** the follower between ticks: file, in-memory lastTXID, the -txid sidecar *)
Record follower := mkFo { fo_img : image; fo_last : N; fo_sidecar : N }.

(** one tick of [follow]: on error nothing but the file changes; otherwise the
    sidecar is written (after the applies) iff the TXID advanced *)
Definition follow_tick (rep : replica) (fo : follower) : follower * list ltxf :=
  match apply_new_ltx_files rep (mkSt (fo_img fo) []) (fo_last fo) with
  | (st, _, true) => (mkFo (s_img st) (fo_last fo) (fo_sidecar fo), s_applied st)
  | (st, new, false) =>
      if fo_last fo <? new then (mkFo (s_img st) new new, s_applied st)
      else (mkFo (s_img st) (fo_last fo) (fo_sidecar fo), s_applied st)
  end.

Fixpoint follow_ticks (n : nat) (rep : replica) (fo : follower) : follower :=
  match n with
  | O => fo
  | S n' => follow_ticks n' rep (fst (follow_tick rep fo))
  end.

(** Restore with Follow when the output exists: resume validation.
    [latestSnapshot] = last item of the level-9 listing; [sidecar = 0] is "no
    -txid file".  Since commit 0ec96d8 a sidecar ahead of the latest snapshot is
    accepted as long as some level 0..8 reaches it:
      maxTXID := latestSnapshot.MaxTXID
      for level := 0; level < SnapshotLevel && txid > maxTXID; level++ {
        info := MaxLTXFileInfo(level); if info.MaxTXID > maxTXID { maxTXID = info.MaxTXID } }
      if txid > maxTXID -> error *)
Inductive start_decision := Fresh | Resume (t : N) | RefuseNoTxid | RefusePruned | RefuseAhead.

(** Replica.MaxLTXFileInfo(level).MaxTXID *)
Definition level_max (lv : list ltxf) : N :=
  fold_left (fun m f => if m <? f_max f then f_max f else m) lv 0.

Fixpoint resume_max (levels : list (list ltxf)) (txid maxT : N) : N :=
  match levels with
  | [] => maxT
  | lv :: rest =>
      if maxT <? txid then
        let m := level_max lv in
        resume_max rest txid (if maxT <? m then m else maxT)
      else maxT
  end.

Definition resume_check (db_exists : bool) (sidecar : N) (snaps : list (N * N)) (rep : replica) : start_decision :=
  if db_exists then
    if sidecar =? 0 then RefuseNoTxid
    else
      match rev snaps with
      | [] => Resume sidecar
      | (smin, smax) :: _ =>
          if sidecar <? smin then RefusePruned
          else if resume_max (firstn 9 rep) sidecar smax <? sidecar then RefuseAhead
          else Resume sidecar
      end
  else Fresh.

(** the rule before commit 0ec96d8 (kept to document the repaired defect) *)
Definition resume_check_old (db_exists : bool) (sidecar : N) (snaps : list (N * N)) : start_decision :=
  if db_exists then
    if sidecar =? 0 then RefuseNoTxid
    else
      match rev snaps with
      | [] => Resume sidecar
      | (smin, smax) :: _ =>
          if sidecar <? smin then RefusePruned
          else if smax <? sidecar then RefuseAhead
          else Resume sidecar
      end
  else Fresh.

(** The initial restore of follow mode as the sequence of externally visible
    changes to the output directory.  [od_db] is <out>, [od_tmp] is <out>.tmp,
    [od_side] the -txid sidecar (0 = absent; WriteTXIDFile publishes it
    atomically by rename).  Since commit 22eeea8 the sidecar is published
    BEFORE the database is renamed into place ([sidecar_first = true]); the old
    order is [sidecar_first = false].  When the post-restore integrity check
    fails the database is removed, then the sidecar. *)
Record outdir := mkOd { od_db : option image; od_tmp : option image; od_side : N }.

Inductive rstep :=
| RWriteTmp (im : image)     (* <out>.tmp now holds [im] (create / decode progress) *)
| RSidecar (t : N)           (* WriteTXIDFile *)
| RPublish                   (* rename <out>.tmp -> <out> *)
| RRemoveDb                  (* integrity check failed: os.Remove(<out>) *)
| RRemoveSide.               (*                          os.Remove(<out>-txid) *)

Definition rstep_apply (od : outdir) (s : rstep) : outdir :=
  match s with
  | RWriteTmp im => mkOd (od_db od) (Some im) (od_side od)
  | RSidecar t => mkOd (od_db od) (od_tmp od) t
  | RPublish => match od_tmp od with
                | Some im => mkOd (Some im) None (od_side od)
                | None => od
                end
  | RRemoveDb => mkOd None (od_tmp od) (od_side od)
  | RRemoveSide => mkOd (od_db od) (od_tmp od) 0
  end.

Definition initial_restore (sidecar_first integrity_fails : bool) (partials : list image)
           (target : image) (t : N) : list rstep :=
  map RWriteTmp partials ++ [RWriteTmp target] ++
  (if sidecar_first then [RSidecar t; RPublish] else [RPublish; RSidecar t]) ++
  (if integrity_fails then [RRemoveDb; RRemoveSide] else []).

Definition run_rsteps (od : outdir) (l : list rstep) : outdir := fold_left rstep_apply l od.

(** what the next Restore(Follow) does with the directory a kill left behind *)
Definition restart_decision (od : outdir) (snaps : list (N * N)) (rep : replica) : start_decision :=
  resume_check (match od_db od with Some _ => true | None => false end) (od_side od) snaps rep.

(** ------------------------------------------------------------------ *)
(** Specification side: the chain rule and reachability, stated without
    reference to the algorithm above. *)

(** every file is applied on top of a state that already covers [min-1] and
    adds something new *)
Fixpoint chain_ok (cur : N) (fs : list ltxf) : bool :=
  match fs with
  | [] => true
  | f :: tl => (f_min f <=? cur + 1) && (cur <? f_max f) && chain_ok (f_max f) tl
  end.
Fixpoint chain_end (cur : N) (fs : list ltxf) : N :=
  match fs with
  | [] => cur
  | f :: tl => chain_end (f_max f) tl
  end.

(** a file the follower can use at position [c]: level 0 is listed from
    [c+1] on, levels 1..8 entirely *)
Definition usable (c : N) (f : ltxf) : bool :=
  (if f_level f =? 0 then f_min f =? c + 1 else f_min f <=? c + 1) && (c <? f_max f).

Definition rep_files (rep : replica) : list ltxf := concat (firstn 9 rep).
Definition furthest (rep : replica) (c : N) : N :=
  fold_left (fun m f => if usable c f then N.max m (f_max f) else m) (rep_files rep) c.
Fixpoint reach (fuel : nat) (rep : replica) (c : N) : N :=
  match fuel with
  | O => c
  | S k => let c' := furthest rep c in if c <? c' then reach k rep c' else c
  end.
