(** The hypotheses of the C16 theorems are satisfiable by a non-trivial
    concrete state: a history that grows, shrinks and regrows; a replica whose
    level-0 file of TXID 2 has been deleted so that the follower at TXID 1 must
    bridge from level 1 with a file (2..3), then skip the covered level-0 file. *)
From Coq Require Import List NArith Bool Lia Arith Sorted.
From LS Require Import Base.PMap Follow.Follow Follow.Sem Follow.Hist Follow.Algo Follow.Proofs Follow.Converge.
Import ListNotations.
Open Scope N_scope.

Definition ex_h : list txn :=
  [ ([(1, 11); (2, 12); (3, 13)], 3);      (* TXID 1: snapshot of 3 pages *)
    ([(2, 22)], 2);                        (* TXID 2: shrink to 2 pages *)
    ([(1, 31); (3, 33); (4, 34)], 4) ].    (* TXID 3: regrow to 4 pages (growth pages 3,4 present) *)

Ltac wf_tx_head :=
  split; [cbn; lia|
  split; [cbn; repeat constructor; cbn; intuition discriminate|
  split; [intros p H; cbn in H; cbn; intuition lia|]]].

Lemma ex_h_wf : wf_seg 0 ex_h.
Proof.
  cbn [wf_seg ex_h]. split; [|split; [|split; [|exact I]]].
  - wf_tx_head. cbn. intros p [H0 H]. assert (p = 1 \/ p = 2 \/ p = 3) by lia. intuition.
  - wf_tx_head. cbn. intros p [H1 H2]. lia.
  - wf_tx_head. cbn. intros p [H1 H2]. assert (p = 3 \/ p = 4) by lia. intuition.
Qed.

(** generic constructor: the compaction of TXIDs lo+1..hi covers its range *)
Lemma last_commit_ne a b l : l <> [] -> last_commit a l = last_commit b l.
Proof. destruct l as [|x tl]; [congruence|reflexivity]. Qed.

Lemma covers_compact h lvl lo hi bad :
  wf_seg 0 h -> (lo < hi <= length h)%nat ->
  NoDup (map fst (fst (compact (seg h lo hi)))) ->
  covers h (mkF lvl (N.of_nat lo + 1) (N.of_nat hi) (commit_at h hi) (fst (compact (seg h lo hi))) bad) lo hi.
Proof.
  intros Hwf Hr Hnd. repeat split; try lia; try exact Hnd. cbn [f_pages].
  intros p. unfold compact. cbn [fst].
  rewrite (pm_get_filter_key (fun k => k <=? last_commit 0 (seg h lo hi))).
  rewrite (commit_at_seg h lo hi) by lia.
  rewrite (last_commit_ne 0 (commit_at h lo)); [reflexivity|].
  intros E. pose proof (seg_length h lo hi ltac:(lia)) as L. rewrite E in L. cbn in L. lia.
Qed.

Definition ex_f3 : ltxf := mkF 0 3 3 4 (fst (compact (seg ex_h 2 3))) 0.
Definition ex_f23 : ltxf := mkF 1 2 3 4 (fst (compact (seg ex_h 1 3))) 0.
Definition ex_rep : replica := [[ex_f3]; [ex_f23]].

Lemma ex_rep_ok : forall f, In f (rep_files ex_rep) -> exists lo hi, covers ex_h f lo hi.
Proof.
  intros f [<-|[<-|[]]].
  - exists 2%nat, 3%nat. apply (covers_compact ex_h 0 2 3 0 ex_h_wf); [cbn; lia|].
    vm_compute. repeat constructor; cbn; intuition discriminate.
  - exists 1%nat, 3%nat. apply (covers_compact ex_h 1 1 3 0 ex_h_wf); [cbn; lia|].
    vm_compute. repeat constructor; cbn; intuition discriminate.
Qed.

(** follow_step / apply_overlap instance: the poll from TXID 1 bridges with the
    level-1 file 2..3, skips 3..3, returns 3, and the file is image(3) *)
Example ex_follow_step :
  let r := apply_new_ltx_files ex_rep (mkSt (img_at ex_h 1) []) 1 in
  s_applied (fst (fst r)) = [ex_f23] /\ snd (fst r) = 3 /\ snd r = false /\
  img_eq (s_img (fst (fst r))) (img_at ex_h 3).
Proof.
  cbv zeta. split; [vm_compute; reflexivity|]. split; [vm_compute; reflexivity|].
  split; [vm_compute; reflexivity|].
  pose proof (follow_step ex_h ex_h_wf ex_rep ex_rep_ok 1 (img_at ex_h 1) ltac:(cbn; lia)
                (img_at_wf ex_h 1) (img_eq_refl _)) as (_ & _ & H).
  cbv zeta in H. destruct (H ltac:(vm_compute; reflexivity)) as (t' & Ht & _ & _ & He).
  assert (t' = 3%nat).
  { assert (E : snd (fst (apply_new_ltx_files ex_rep (mkSt (img_at ex_h 1) []) (N.of_nat 1))) = 3) by (vm_compute; reflexivity).
    rewrite E in Ht. lia. }
  subst t'. exact He.
Qed.

(** follow_idempotent instance: a follower at TXID 1 killed after writing page 4
    of the bridging file only (the file now has a hole at page 3... and a stale
    page 2) is repaired by re-applying the chain [2..3] *)
Example ex_idempotent :
  let s := partial_apply (img_at ex_h 1) ex_f23 [(4, 34)] false in
  partial_state ex_h 1 3 s /\ pg s 4 = Some 34 /\ pg s 2 = Some 12 /\
  img_eq (apply_all s [ex_f23]) (img_at ex_h 3).
Proof.
  cbv zeta.
  assert (Hc : covers ex_h ex_f23 1 3).
  { apply (covers_compact ex_h 1 1 3 0 ex_h_wf); [cbn; lia|].
    vm_compute. repeat constructor; cbn; intuition discriminate. }
  assert (Hps : partial_state ex_h 1 3 (partial_apply (img_at ex_h 1) ex_f23 [(4, 34)] false)).
  { apply (ps_step ex_h 1 3 (img_at ex_h 1) ex_f23 1 3); [constructor|exact Hc|lia|].
    intros kv [<-|[]]. vm_compute. auto 10. }
  split; [exact Hps|]. split; [vm_compute; reflexivity|]. split; [vm_compute; reflexivity|].
  apply (follow_idempotent ex_h ex_h_wf 1 3); [lia|exact Hps|discriminate|].
  cbn. exists 1%nat, 3%nat. repeat split; try lia; try apply Hc.
Qed.

(** sidecar_never_ahead / follow_converges instance *)
Example ex_sidecar :
  let fo := mkFo (img_at ex_h 1) 1 1 in
  fo_inv ex_h fo /\ fo_sidecar (follow_ticks 1 ex_rep fo) = 3 /\
  fo_inv ex_h (follow_ticks 1 ex_rep fo).
Proof.
  cbv zeta.
  assert (Hi : fo_inv ex_h (mkFo (img_at ex_h 1) 1 1)).
  { exists 1%nat. split; [reflexivity|]. split; [reflexivity|]. split; [cbn; lia|].
    apply (J_img_at ex_h 1 3). lia. }
  split; [exact Hi|]. split; [vm_compute; reflexivity|].
  apply (sidecar_monotone ex_h ex_h_wf ex_rep ex_rep_ok 1 _ Hi).
Qed.

Example ex_converges : exists n, fo_sidecar (follow_ticks n ex_rep (mkFo (img_at ex_h 1) 1 1)) = 3.
Proof.
  assert (H1 : forall f, In f (rep_files ex_rep) -> f_bad f = 0) by (intros f [<-|[<-|[]]]; reflexivity).
  assert (H2 : forall lv, In lv (firstn 9 ex_rep) -> StronglySorted by_min lv)
    by (intros lv [<-|[<-|[]]]; repeat constructor).
  assert (H3 : forall f, In f (rep_level ex_rep 0) -> f_level f = 0 /\ f_min f <= f_max f)
    by (intros f [<-|[]]; cbn; split; [reflexivity|lia]).
  assert (H4 : forall lv f, In lv (gap_levels_of ex_rep) -> In f lv -> f_level f <> 0)
    by (intros lv f [<-|[]] [<-|[]]; cbn; discriminate).
  assert (H5 : forall f, In f (rep_files ex_rep) ->
               In f (rep_level ex_rep 0) \/ exists lv, In lv (gap_levels_of ex_rep) /\ In f lv).
  { intros f [<-|[<-|[]]]; [left; now left|right; exists [ex_f23]; split; now left]. }
  refine (follow_converges_chain ex_rep H1 H2 H3 H4 H5 1%nat 3 [ex_f23] (mkFo (img_at ex_h 1) 1 1) eq_refl eq_refl _ eq_refl eq_refl _).
  - constructor; [split; [right; now left|cbn; discriminate]|constructor].
  - intros f [<-|[<-|[]]]; cbn; lia.
Qed.
